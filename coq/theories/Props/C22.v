(* C22 — Numscript sends move exactly the requested amount.  Statements only; proofs in Machine/SemProofs.v,
   BalProofs.v, EnvProofs.v, RunProofs.v.  [run] (Machine/Sem.v) is the executable semantics of compile + execute on
   the default machine runtime (as repaired by fixes/01..03); its equality with compiler.Compile + vm.Machine is what
   the tie `ns` checks on every run. *)
From Coq Require Import List ZArith QArith String Bool.
From LV Require Import Machine.Syntax Machine.Allot Machine.Lex Machine.Sem Machine.SemProofs Machine.BalProofs Machine.RunProofs.
Import ListNotations.
Open Scope Z_scope.
Open Scope string_scope.

(* For EVERY program, variables and store: if the run succeeds, there is an environment e (the resolved variables)
   such that the i-th statement and the i-th list of postings satisfy [stmt_guarantee]:
   - `send M (...)`: M evaluates to [A x]; every posting is in asset A (the statement's asset, a valid asset) with a
     non-negative amount and valid addresses; 0 <= Σ postings <= x; Σ postings = x when the destination has no `kept`
     (`kept` portions produce no posting: they are the only way the sum can be below x);
   - `send [A *] (...)`: the sources provide a funding f in asset A; the postings are in A, Σ <= total f, = total f
     without `kept`;
   - any other statement produces no posting.
   No bound on program size, nesting depth, amounts or number of accounts. *)
Theorem C22_send : forall p given s r, run p given s = Ok r ->
  exists e, Forall2 (stmt_guarantee e) (pstmts p) (rposts r).
Proof. exact run_guarantee. Qed.
Print Assumptions C22_send.

(* The tracked balances equal the initial balances plus the postings minus what `save` set aside: for every tracked
   (account, asset) pair k with account <> world (the machine never credits/repays world),
   final(k) = initial(k) + Σ postings to k - Σ postings from k - saved(k); the initial value is the store's balance. *)
Theorem C22_balances : forall p given s r, run p given s = Ok r ->
  forall k v, fst k <> "world" -> bget (rinit r) k = Some v ->
  v = store_balance s k /\
  bget (rbal r) k = Some (v + effect (fst k) (snd k) (all_postings r) - saved_for k (rsaved r)).
Proof. intros p given s r H k v Hw Hi. split; [apply (run_init_store _ _ _ _ H _ _ Hi)|apply (run_balances _ _ _ _ H _ _ Hw Hi)]. Qed.
Print Assumptions C22_balances.

(* per send statement, at any machine state, for any predicate P on accounts that the statement's account
   expressions satisfy *)
Theorem C22_send_statement : forall P te e m vs d b b' ps,
  exec_send e m vs d b = Ok (b', ps) -> chk_vsource te vs = true -> vsrc_accs P e vs -> dest_accs P e d ->
  exists A x, eval_mon e m = Ok (A, Some x) /\ send_post_spec P A x ps /\
              (chk_dest te d = true -> no_kept d = true -> post_sum ps = x).
Proof. exact exec_send_spec. Qed.
Print Assumptions C22_send_statement.

Theorem C22_send_all_statement : forall P te e a s d b b' ps,
  exec_send_all e a s d b = Ok (b', ps) -> src_accs P e s -> dest_accs P e d ->
  exists f b1, eval_source e (eval_asset e a) s b = Ok (f, b1) /\ 0 <= total f /\ fasset f = eval_asset e a /\
               send_post_spec P (eval_asset e a) (total f) ps /\
               (chk_dest te d = true -> no_kept d = true -> post_sum ps = total f).
Proof. exact exec_send_all_spec. Qed.
Print Assumptions C22_send_all_statement.

(* regression of KF-C22-sendall-foreign-overdraft-asset (fixes/03): the script that used to emit EUR postings for
   `send [USD *]` is now an invalid-script error *)
Example C22_sendall_foreign_overdraft_rejected :
  run {| pvars := [ {| vty := TMonetary; vname := "b"; vorigin := OBalance (AccLit "a") (AssetLit "EUR") |} ];
         pstmts := [ SendAll (AssetLit "USD") (SAccount (AccLit "a") (OdUpTo (MonLit (AssetLit "EUR") 5))) (DAccount (AccLit "b")) ] |}
      [] {| st_bal := [(("a", "EUR"), 7); (("a", "USD"), 10)]; st_meta := [] |} = Err EInvalidScript.
Proof. vm_compute. reflexivity. Qed.

(* non-vacuity: an allotment destination with `kept`, an in-order source with a capped sub-source and world
   as fallback; 100 sent, 25 kept (repaid), postings sum to 75; tracked balance of a: 50 -> 20 *)
Example C22_example :
  let p := {| pvars := [];
              pstmts := [ Send (MonLit (AssetLit "USD") 100)
                               (VSrc (SInOrder (SCons (SMaxed (MonLit (AssetLit "USD") 30) (SAccount (AccLit "a") OdNone))
                                               (SCons (SAccount (AccLit "world") OdNone) SNil))))
                               (DAllot (DACons (PConst (1#4)) Kept
                                       (DACons (PConst (1#4)) (To (DAccount (AccLit "b")))
                                       (DACons PRemaining (To (DAccount (AccLit "c"))) DANil)))) ] |} in
  match run p [] {| st_bal := [(("a", "USD"), 50)]; st_meta := [] |} with
  | Ok r => (map (fun q => (psrc q, pdst q, pamt q)) (all_postings r), rbal r)
  | _ => ([], [])
  end = ([("a", "b", 25); ("a", "c", 5); ("world", "c", 45)], [(("a", "USD"), 20)]).
Proof. vm_compute. reflexivity. Qed.

(* ---------- the machine itself: the emitted bytecode computes what Sem computes ----------
   For every successful run of Sem there is the environment of the run such that executing the instruction stream the
   compiler model emits (Compile.gen; equal byte for byte to the real compiler's output on every program of the tie
   `nsbc`), with APUSH operands read by their denotation, ends with an empty stack and exactly Sem's postings (same
   order), metadata and tracked balances: C22 / C23 / C28 therefore hold of that instruction stream, not only of Sem.
   Covers all statement forms. The concrete level (addresses, resolved resource table) is C22_machine_refines_sem below. *)
From LV Require Import Machine.EnvProofs Machine.Vm Machine.Compile Machine.CompileCorrect.
Theorem C22_machine_refines_sem_code : forall p given s r, run p given s = Ok r ->
  exists te e, chk_vars [] (pvars p) = Some te /\ cons_env te e /\ env_valid e /\
    exec (sym_look e) (code (sp_events (gen p))) (vm_init (rinit r)) =
    Ok {| vstk := []; vbal := rbal r; vposts := all_postings r; vtx := rtx r; vacc := racc r |}.
Proof. exact code_refines_sem. Qed.
Print Assumptions C22_machine_refines_sem_code.

(* every construct, as an equation between executing its code and its big-step meaning (here: whole statements) *)
Theorem C22_statement_code : forall te e ve, cons_env te e -> venv_ok te ve ->
  forall s, chk_stmt te s = true -> forall k stk ms,
  exec (sym_look e) (code (gen_stmt ve s) ++ k) (vm_of ms stk) = do ms1 <- exec_stmt e s ms; exec (sym_look e) k (vm_of ms1 stk).
Proof. intros te e ve Hc Hv. exact (exec_stmt_correct te e ve Hc Hv). Qed.
Print Assumptions C22_statement_code.

(* ---------- the concrete machine = Sem (Machine/RunCorrect.v) ----------
   FRAGMENT COVERED: every program, every variables JSON, every store -- no restriction.
   vm_run = Compile.compile (check, gen, address assignment: instructions, concrete resource table, needed balances)
   followed by VmRun.run_program (ParseVariablesJSON, ResolveResources in table order, ResolveBalances, Execute on the
   bytecode VM of Vm.v with operands read from the resolved table, final stack check).  Its outcome -- error class, or
   postings in order, transaction metadata, account metadata, tracked balances at the end and at the start -- is the
   outcome of Sem.run.  Hence every theorem about Sem.run (C22, C23, C27, C28) is a theorem about the compiled program
   on the machine; C22_machine_send / C22_machine_balances restate the two C22 theorems that way. *)
From LV Require Import Machine.VmRun Machine.RunCorrect.
Theorem C22_machine_refines_sem : forall p given s, vm_run p given s = flat_outcome (run p given s).
Proof. exact vm_run_correct. Qed.
Print Assumptions C22_machine_refines_sem.

Theorem C22_machine_send : forall p given s vr, vm_run p given s = Ok vr ->
  exists e groups, Forall2 (stmt_guarantee e) (pstmts p) groups /\ vr_posts vr = List.concat groups.
Proof. exact vm_send. Qed.
Print Assumptions C22_machine_send.

Theorem C22_machine_balances : forall p given s vr, vm_run p given s = Ok vr ->
  exists saved, forall k v, fst k <> "world" -> bget (vr_init vr) k = Some v ->
    v = store_balance s k /\
    bget (vr_bal vr) k = Some (v + effect (fst k) (snd k) (vr_posts vr) - saved_for k saved).
Proof. exact vm_balances. Qed.
Print Assumptions C22_machine_balances.

(* non-vacuity: the program of C22_example through compile + the bytecode VM *)
Example C22_machine_example :
  let p := {| pvars := [];
              pstmts := [ Send (MonLit (AssetLit "USD") 100)
                               (VSrc (SInOrder (SCons (SMaxed (MonLit (AssetLit "USD") 30) (SAccount (AccLit "a") OdNone))
                                               (SCons (SAccount (AccLit "world") OdNone) SNil))))
                               (DAllot (DACons (PConst (1#4)) Kept
                                       (DACons (PConst (1#4)) (To (DAccount (AccLit "b")))
                                       (DACons PRemaining (To (DAccount (AccLit "c"))) DANil)))) ] |} in
  match vm_run p [] {| st_bal := [(("a", "USD"), 50)]; st_meta := [] |} with
  | Ok vr => (map (fun q => (psrc q, pdst q, pamt q)) (vr_posts vr), vr_bal vr)
  | _ => ([], [])
  end = ([("a", "b", 25); ("a", "c", 5); ("world", "c", 45)], [(("a", "USD"), 20)]).
Proof. vm_compute. reflexivity. Qed.
