(* C22 — Numscript sends move exactly the requested amount.  Statements only; proofs in Machine/SemProofs.v.
   [run] (Machine/Sem.v) is the executable semantics of compile + execute on the default machine runtime; its
   equality with compiler.Compile + vm.Machine is what the tie `ns` checks on every run. *)
From Coq Require Import List ZArith QArith String Bool.
From LV Require Import Machine.Syntax Machine.Allot Machine.Lex Machine.Sem Machine.SemProofs.
Import ListNotations.
Open Scope Z_scope.
Open Scope string_scope.

(* For EVERY program, variables and store: if the run succeeds, there is an environment e (the resolved variables)
   such that the i-th statement and the i-th list of postings satisfy [stmt_guarantee]:
   - `send M (...)`: M evaluates to [A x]; every posting is in asset A (the asset of the statement) with a
     non-negative amount; 0 <= Σ postings <= x; and Σ postings = x when the destination contains no `kept`
     (`kept` portions produce no posting: they are the only way the sum can be below x);
   - `send [A *] (...)`: the postings are all in the asset of the funding f the sources provided, non-negative,
     Σ <= total f, = total f without `kept`; f is in asset A when no source has an `allowing overdraft up to` clause;
   - any other statement produces no posting.
   No bound on program size, nesting depth, amounts or number of accounts. *)
Theorem C22_send : forall p given s r, run p given s = Ok r ->
  exists e, Forall2 (stmt_guarantee e) (pstmts p) (rposts r).
Proof. exact run_guarantee. Qed.
Print Assumptions C22_send.

(* per send statement, at any machine state *)
Theorem C22_send_statement : forall te e m vs d b b' ps,
  exec_send e m vs d b = Ok (b', ps) -> chk_vsource te vs = true ->
  exists A x, eval_mon e m = Ok (A, Some x) /\ send_post_spec A x ps /\
              (chk_dest te d = true -> no_kept d = true -> post_sum ps = x).
Proof. exact exec_send_spec. Qed.
Print Assumptions C22_send_statement.

Theorem C22_send_all_statement : forall te e a s d b b' ps,
  exec_send_all e a s d b = Ok (b', ps) ->
  exists f b1, eval_source e (eval_asset e a) s b = Ok (f, b1) /\ 0 <= total f /\
               send_post_spec (fasset f) (total f) ps /\
               (chk_dest te d = true -> no_kept d = true -> post_sum ps = total f) /\
               (src_plain s = true -> fasset f = eval_asset e a).
Proof. exact exec_send_all_spec. Qed.
Print Assumptions C22_send_all_statement.

(* The full statement "all postings of `send [A *]` are in asset A" is FALSE of the unchanged code: an
   `allowing overdraft up to [B n]` clause in another asset B makes TAKE_ALL withdraw B, and nothing compares the
   funding's asset with A when everything is sent (no TAKE against the statement's monetary).
   Witness (replayed on the real compiler + VM: known finding KF-C22-sendall-foreign-overdraft-asset):
     vars { monetary $b = balance(@a, EUR) }
     send [USD *] ( source = @a allowing overdraft up to [EUR 5]  destination = @b )       with a: EUR 7 *)
Definition c22_witness : program :=
  {| pvars := [ {| vty := TMonetary; vname := "b"; vorigin := OBalance (AccLit "a") (AssetLit "EUR") |} ];
     pstmts := [ SendAll (AssetLit "USD") (SAccount (AccLit "a") (OdUpTo (MonLit (AssetLit "EUR") 5))) (DAccount (AccLit "b")) ] |}.
Definition c22_store : store := {| st_bal := [(("a", "EUR"), 7); (("a", "USD"), 10)]; st_meta := [] |}.

Theorem C22_refuted_sendall_asset :
  exists r, run c22_witness [] c22_store = Ok r /\
            all_postings r = [ {| psrc := "a"; pdst := "b"; passet := "EUR"; pamt := 12 |} ].
Proof. eexists. split; vm_compute; reflexivity. Qed.
Print Assumptions C22_refuted_sendall_asset.

(* non-vacuity: an allotment destination with `kept`, an in-order source with a capped sub-source and world
   as fallback; 100 sent, 25 kept (repaid), postings sum to 75 *)
Example C22_example :
  let p := {| pvars := [];
              pstmts := [ Send (MonLit (AssetLit "USD") 100)
                               (VSrc (SInOrder (SCons (SMaxed (MonLit (AssetLit "USD") 30) (SAccount (AccLit "a") OdNone))
                                               (SCons (SAccount (AccLit "world") OdNone) SNil))))
                               (DAllot (DACons (PConst (1#4)) Kept
                                       (DACons (PConst (1#4)) (To (DAccount (AccLit "b")))
                                       (DACons PRemaining (To (DAccount (AccLit "c"))) DANil)))) ] |} in
  match run p [] {| st_bal := [(("a", "USD"), 50)]; st_meta := [] |} with
  | Ok r => map (fun q => (psrc q, pdst q, pamt q)) (all_postings r)
  | _ => []
  end = [("a", "b", 25); ("a", "c", 5); ("world", "c", 45)].
Proof. vm_compute. reflexivity. Qed.
