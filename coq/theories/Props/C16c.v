(* C16, concurrent part — ids unique under every schedule; commit order vs id order.  Statements only.
   Model: Ledger/Conc.v (interleavings of store calls); proofs: Ledger/ConcProofs.v. *)
From Coq Require Import List ZArith String Bool Lia Sorted.
From LV Require Import Ledger.Conc Ledger.ConcProofs.
Import ListNotations.
Open Scope Z_scope.

(* (iii) uniqueness, for ALL schedules, any number of writers and steps: nextval is atomic and never reused, so the ids of
   all rows, committed or in flight (also ids drawn by an INSERT still waiting on a unique index), are pairwise distinct
   and below the sequence *)
Theorem C16_conc_ids_unique : forall hash prefix writers sched,
  let g := sched_outcome hash prefix writers sched in
  NoDup (map t_id (g_txs g)) /\ NoDup (map l_id (g_logs g)) /\
  Forall (fun t => t_id t < g_ntx g) (g_txs g) /\ Forall (fun l => l_id l < g_nlog g) (g_logs g).
Proof.
  intros hash prefix writers sched g.
  destruct (inv_ids g (outcome_tx_inv hash prefix writers sched) (outcome_log_inv hash prefix writers sched)) as [[A B] [C D]]. auto.
Qed.
Print Assumptions C16_conc_ids_unique.

(* the same from any state satisfying the table invariants (e.g. any reachable one) *)
Theorem C16_conc_ids_unique_from : forall g sched, tx_inv g -> log_inv g -> ids_inv (run g sched).
Proof. intros g sched Ht Hl. apply inv_ids; [apply tx_inv_all_schedules|apply log_inv_all_schedules]; auto. Qed.
Print Assumptions C16_conc_ids_unique_from.

(* commit order, log ids, HASH_LOGS = SYNC: InsertLog takes the per-ledger advisory lock BEFORE nextval and keeps it until
   COMMIT, so for ALL schedules the log ids made visible by successive COMMITs are strictly increasing (g_clogs lists, in
   commit order, the ids of the logs each COMMIT publishes).  Invariant (ConcProofs.log_ok): only the holder of the lock has a
   log in flight, and that log's id is above every committed one. *)
Lemma run_hash : forall s g, g_hash (run g s) = g_hash g.
Proof. induction s as [|w r IH]; simpl; intros g; auto. rewrite IH. apply (proj2 (step_lev g w)). Qed.
Theorem C16_conc_log_order_locked : forall prefix writers sched,
  StronglySorted Z.lt (g_clogs (sched_outcome true prefix writers sched)).
Proof.
  intros. pose proof (outcome_log_inv true prefix writers sched) as H.
  apply (lg_order _ _ _ _ _ H). unfold sched_outcome, after_prefix. rewrite run_hash. simpl. rewrite run_hash. reflexivity.
Qed.
Print Assumptions C16_conc_log_order_locked.
Theorem C16_conc_log_order_locked_from : forall g sched, log_inv g -> g_hash g = true -> StronglySorted Z.lt (g_clogs (run g sched)).
Proof.
  intros g sched H Hh. pose proof (log_inv_all_schedules g sched H) as H'. apply (lg_order _ _ _ _ _ H').
  rewrite run_hash. exact Hh.
Qed.
Print Assumptions C16_conc_log_order_locked_from.

(* FULL STATEMENT "a later COMMIT never receives a smaller id" (transaction ids):
     forall hash prefix writers sched, StronglySorted Z.lt (g_ctxs (sched_outcome hash prefix writers sched))
   refuted, even with HASH_LOGS = SYNC: InsertTransaction draws its id before InsertLog takes the advisory lock *)
Local Open Scope string_scope.
Definition xfer (src dst : string) (i : Z) : cop :=
  {| o_kind := KCreate; o_mode := MForce; o_src := src; o_dst := dst; o_asset := "USD"; o_amt := 10; o_allow := 0;
     o_ref := ""; o_ik := ""; o_inh := i; o_tx := 0 |}.
Definition two_disjoint : list cop := [xfer "alice" "bob" 0; xfer "carol" "dave" 1].

Theorem C16_conc_tx_order_refuted :
  exists hash prefix writers sched, hash = true /\ ~ StronglySorted Z.lt (g_ctxs (sched_outcome hash prefix writers sched)).
Proof.
  exists true, [], two_disjoint, [0; 0; 1; 1; 1; 1; 1; 0; 0; 0]%nat. split; [reflexivity|].
  assert (E : g_ctxs (sched_outcome true [] two_disjoint [0; 0; 1; 1; 1; 1; 1; 0; 0; 0]%nat) = [2; 1]) by (vm_compute; reflexivity).
  rewrite E. intros H. inversion H as [|? ? _ F]; subst. inversion F as [|? ? L _]; subst. lia.
Qed.
Print Assumptions C16_conc_tx_order_refuted.

(* log ids without the lock (HASH_LOGS <> SYNC): refuted *)
Theorem C16_conc_log_order_unlocked_refuted :
  exists prefix writers sched, ~ StronglySorted Z.lt (g_clogs (sched_outcome false prefix writers sched)).
Proof.
  exists [], two_disjoint, [0; 0; 0; 1; 1; 1; 1; 0]%nat.
  assert (E : g_clogs (sched_outcome false [] two_disjoint [0; 0; 0; 1; 1; 1; 1; 0]%nat) = [2; 1]) by (vm_compute; reflexivity).
  rewrite E. intros H. inversion H as [|? ? _ F]; subst. inversion F as [|? ? L _]; subst. lia.
Qed.
Print Assumptions C16_conc_log_order_unlocked_refuted.

(* non-vacuity / what the witnesses look like: in the first run the transaction ids are committed in the order 2, 1 while
   the log ids (drawn under the lock) are committed in the order 1, 2 *)
Example C16c_example :
  let g := sched_outcome true [] two_disjoint [0; 0; 1; 1; 1; 1; 1; 0; 0; 0]%nat in
  g_commits g = [1; 0]%nat /\ g_ctxs g = [2; 1] /\ g_clogs g = [1; 2] /\ results g = [ROk 2 1 false; ROk 1 2 false].
Proof. vm_compute. repeat split; reflexivity. Qed.

(* the hypotheses of the *_from forms hold on every state reached from a serial prefix (here: two funded accounts, two
   requests seated), so the theorems apply to it and to everything any schedule reaches from it *)
Definition seated : gst := after_prefix true [xfer "world" "alice" 0; xfer "world" "carol" 1] two_disjoint.
Example C16c_from_hypotheses :
  tx_inv seated /\ log_inv seated /\ g_hash seated = true /\ List.length (g_txs seated) = 2%nat /\ List.length (g_logs seated) = 2%nat.
Proof.
  split; [|split; [|split; [|split]]].
  - unfold seated, after_prefix. apply tx_inv_reseat. apply tx_inv_all_schedules. apply tx_inv_init.
  - unfold seated, after_prefix. apply log_inv_reseat. apply log_inv_all_schedules. apply log_inv_init.
  - vm_compute. reflexivity.
  - vm_compute. reflexivity.
  - vm_compute. reflexivity.
Qed.
