(* C16, concurrent part — ids unique under every schedule; commit order vs id order.  Statements only.
   Model: Ledger/Conc.v (interleavings of store calls); proofs: Ledger/ConcProofs.v. *)
From Coq Require Import List ZArith String Bool Lia Sorted.
From LV Require Import Ledger.Conc Ledger.ConcProofs.
Import ListNotations.
Open Scope Z_scope.

(* (iii) uniqueness, for ALL schedules, any number of writers and steps: nextval is atomic and never reused, so the ids of
   all rows, committed or in flight (also ids drawn by an INSERT still waiting on a unique index), are pairwise distinct
   and below the sequence *)
Theorem C16_conc_ids_unique : forall hash prefix writers sched,
  let g := sched_outcome hash prefix writers sched in
  NoDup (map t_id (g_txs g)) /\ NoDup (map l_id (g_logs g)) /\
  Forall (fun t => t_id t < g_ntx g) (g_txs g) /\ Forall (fun l => l_id l < g_nlog g) (g_logs g).
Proof.
  intros hash prefix writers sched g.
  destruct (inv_ids g (outcome_tx_inv hash prefix writers sched) (outcome_log_inv hash prefix writers sched)) as [[A B] [C D]]. auto.
Qed.
Print Assumptions C16_conc_ids_unique.

(* the same from any state satisfying the table invariants (e.g. any reachable one) *)
Theorem C16_conc_ids_unique_from : forall g sched, tx_inv g -> log_inv g -> ids_inv (run g sched).
Proof. intros g sched Ht Hl. apply inv_ids; [apply tx_inv_all_schedules|apply log_inv_all_schedules]; auto. Qed.
Print Assumptions C16_conc_ids_unique_from.

(* commit order, log ids, HASH_LOGS = SYNC: InsertLog takes the per-ledger advisory lock BEFORE nextval and keeps it until
   COMMIT, so for ALL schedules the log ids made visible by successive COMMITs are strictly increasing (g_clogs lists, in
   commit order, the ids of the logs each COMMIT publishes).  Invariant (ConcProofs.log_ok): only the holder of the lock has a
   log in flight, and that log's id is above every committed one. *)
Lemma run_hash : forall s g, g_hash (run g s) = g_hash g.
Proof. induction s as [|w r IH]; simpl; intros g; auto. rewrite IH. apply (proj2 (step_lev g w)). Qed.
Theorem C16_conc_log_order_locked : forall prefix writers sched,
  StronglySorted Z.lt (g_clogs (sched_outcome true prefix writers sched)).
Proof.
  intros. pose proof (outcome_log_inv true prefix writers sched) as H.
  apply (lg_order _ _ _ _ _ H). unfold sched_outcome, after_prefix. rewrite run_hash. simpl. rewrite run_hash. reflexivity.
Qed.
Print Assumptions C16_conc_log_order_locked.
Theorem C16_conc_log_order_locked_from : forall g sched, log_inv g -> g_hash g = true -> StronglySorted Z.lt (g_clogs (run g sched)).
Proof.
  intros g sched H Hh. pose proof (log_inv_all_schedules g sched H) as H'. apply (lg_order _ _ _ _ _ H').
  rewrite run_hash. exact Hh.
Qed.
Print Assumptions C16_conc_log_order_locked_from.

(* requests that do NOT overlap: every transaction id that enters the table during a run (any schedule, any number of writers)
   is larger than every id already there - nextval hands out increasing values in call order and never gives one back.  So a
   request all of whose statements run after another request's COMMIT receives the larger transaction id.  (This is what a
   CACHE n > 1 on the sequence breaks: seeded N-C16, monitor [c16-nonoverlapping-order].) *)
Theorem C16_conc_nonoverlapping_order : forall g sched, tx_inv g ->
  forall t t', In t (g_txs g) -> In t' (g_txs (run g sched)) -> ~ In (t_id t') (map t_id (g_txs g)) -> t_id t < t_id t'.
Proof. exact later_ids_are_larger. Qed.
Print Assumptions C16_conc_nonoverlapping_order.

(* FULL STATEMENT "a later COMMIT never receives a smaller id" (transaction ids):
     forall hash prefix writers sched, StronglySorted Z.lt (g_ctxs (sched_outcome hash prefix writers sched))
   refuted, even with HASH_LOGS = SYNC: InsertTransaction draws its id before InsertLog takes the advisory lock *)
Local Open Scope string_scope.
Definition xfer (src dst : string) (i : Z) : cop :=
  {| o_kind := KCreate; o_mode := MForce; o_src := src; o_dst := dst; o_asset := "USD"; o_amt := 10; o_allow := 0;
     o_ref := ""; o_ik := ""; o_inh := i; o_tx := 0 |}.
Definition two_disjoint : list cop := [xfer "alice" "bob" 0; xfer "carol" "dave" 1].

Theorem C16_conc_tx_order_refuted :
  exists hash prefix writers sched, hash = true /\ ~ StronglySorted Z.lt (g_ctxs (sched_outcome hash prefix writers sched)).
Proof.
  exists true, [], two_disjoint, [0; 0; 1; 1; 1; 1; 1; 0; 0; 0]%nat. split; [reflexivity|].
  assert (E : g_ctxs (sched_outcome true [] two_disjoint [0; 0; 1; 1; 1; 1; 1; 0; 0; 0]%nat) = [2; 1]) by (vm_compute; reflexivity).
  rewrite E. intros H. inversion H as [|? ? _ F]; subst. inversion F as [|? ? L _]; subst. lia.
Qed.
Print Assumptions C16_conc_tx_order_refuted.

(* log ids without the lock (HASH_LOGS <> SYNC): refuted *)
Theorem C16_conc_log_order_unlocked_refuted :
  exists prefix writers sched, ~ StronglySorted Z.lt (g_clogs (sched_outcome false prefix writers sched)).
Proof.
  exists [], two_disjoint, [0; 0; 0; 1; 1; 1; 1; 0]%nat.
  assert (E : g_clogs (sched_outcome false [] two_disjoint [0; 0; 0; 1; 1; 1; 1; 0]%nat) = [2; 1]) by (vm_compute; reflexivity).
  rewrite E. intros H. inversion H as [|? ? _ F]; subst. inversion F as [|? ? L _]; subst. lia.
Qed.
Print Assumptions C16_conc_log_order_unlocked_refuted.

(* non-vacuity / what the witnesses look like: in the first run the transaction ids are committed in the order 2, 1 while
   the log ids (drawn under the lock) are committed in the order 1, 2 *)
Example C16c_example :
  let g := sched_outcome true [] two_disjoint [0; 0; 1; 1; 1; 1; 1; 0; 0; 0]%nat in
  g_commits g = [1; 0]%nat /\ g_ctxs g = [2; 1] /\ g_clogs g = [1; 2] /\ results g = [ROk 2 1 false; ROk 1 2 false].
Proof. vm_compute. repeat split; reflexivity. Qed.

(* the hypotheses of the *_from forms hold on every state reached from a serial prefix (here: two funded accounts, two
   requests seated), so the theorems apply to it and to everything any schedule reaches from it *)
Definition seated : gst := after_prefix true [xfer "world" "alice" 0; xfer "world" "carol" 1] two_disjoint.
Example C16c_from_hypotheses :
  tx_inv seated /\ log_inv seated /\ g_hash seated = true /\ List.length (g_txs seated) = 2%nat /\ List.length (g_logs seated) = 2%nat.
Proof.
  split; [|split; [|split; [|split]]].
  - unfold seated, after_prefix. apply tx_inv_reseat. apply tx_inv_all_schedules. apply tx_inv_init.
  - unfold seated, after_prefix. apply log_inv_reseat. apply log_inv_all_schedules. apply log_inv_init.
  - vm_compute. reflexivity.
  - vm_compute. reflexivity.
  - vm_compute. reflexivity.
Qed.

(* non-vacuity of C16_conc_nonoverlapping_order: after writer 1 committed id 2 (state g1, reached by a schedule in which writer 0 has
   already drawn id 1), the run goes on: writer 0 commits, writer 2 - not started before - draws its id: 3 > 2 *)
Example C16c_nonoverlap_example :
  let ws := [xfer "alice" "bob" 0; xfer "carol" "dave" 1; xfer "alice" "dave" 2] in
  let g1 := sched_outcome true [] ws [0; 0; 1; 1; 1; 1; 1]%nat in
  let g2 := run g1 [0; 0; 0; 2; 2; 2; 2; 2]%nat in
  map t_id (g_txs g1) = [1; 2] /\ g_commits g1 = [1%nat] /\ map t_id (g_txs g2) = [1; 2; 3] /\ g_commits g2 = [1; 0; 2]%nat.
Proof. vm_compute. repeat split; reflexivity. Qed.
