(* C16, concurrent part — ids unique under every schedule; commit order vs id order.  Statements only.
   Model: Ledger/Conc.v (interleavings of store calls); proofs: Ledger/ConcProofs.v. *)
From Coq Require Import List ZArith String Bool Lia Sorted.
From LV Require Import Ledger.Conc Ledger.ConcProofs.
Import ListNotations.
Open Scope Z_scope.

(* (iii) uniqueness, for ALL schedules, any number of writers and steps: nextval is atomic and never reused, so the ids of
   all rows, committed or in flight (also ids drawn by an INSERT still waiting on a unique index), are pairwise distinct
   and below the sequence *)
Theorem C16_conc_ids_unique : forall hash prefix writers sched,
  let g := sched_outcome hash prefix writers sched in
  NoDup (map t_id (g_txs g)) /\ NoDup (map l_id (g_logs g)) /\
  Forall (fun t => t_id t < g_ntx g) (g_txs g) /\ Forall (fun l => l_id l < g_nlog g) (g_logs g).
Proof.
  intros hash prefix writers sched g.
  assert (H : ids_inv g).
  { apply ids_unique_all_schedules. apply ids_inv_reseat. apply ids_unique_all_schedules. apply ids_inv_init. }
  destruct H as [[A B] [C D]]. auto.
Qed.
Print Assumptions C16_conc_ids_unique.

(* the same from any state satisfying the invariant (e.g. any reachable one) *)
Theorem C16_conc_ids_unique_from : forall g sched, ids_inv g -> ids_inv (run g sched).
Proof. exact ids_unique_all_schedules. Qed.
Print Assumptions C16_conc_ids_unique_from.

(* FULL STATEMENT "a later COMMIT never receives a smaller id" (transaction ids):
     forall hash prefix writers sched, StronglySorted Z.lt (g_ctxs (sched_outcome hash prefix writers sched))
   refuted, even with HASH_LOGS = SYNC: InsertTransaction draws its id before InsertLog takes the advisory lock *)
Local Open Scope string_scope.
Definition xfer (src dst : string) (i : Z) : cop :=
  {| o_kind := KCreate; o_mode := MForce; o_src := src; o_dst := dst; o_asset := "USD"; o_amt := 10; o_allow := 0;
     o_ref := ""; o_ik := ""; o_inh := i; o_tx := 0 |}.
Definition two_disjoint : list cop := [xfer "alice" "bob" 0; xfer "carol" "dave" 1].

Theorem C16_conc_tx_order_refuted :
  exists hash prefix writers sched, hash = true /\ ~ StronglySorted Z.lt (g_ctxs (sched_outcome hash prefix writers sched)).
Proof.
  exists true, [], two_disjoint, [0; 0; 1; 1; 1; 1; 1; 0; 0; 0]%nat. split; [reflexivity|].
  assert (E : g_ctxs (sched_outcome true [] two_disjoint [0; 0; 1; 1; 1; 1; 1; 0; 0; 0]%nat) = [2; 1]) by (vm_compute; reflexivity).
  rewrite E. intros H. inversion H as [|? ? _ F]; subst. inversion F as [|? ? L _]; subst. lia.
Qed.
Print Assumptions C16_conc_tx_order_refuted.

(* log ids without the lock (HASH_LOGS <> SYNC): refuted *)
Theorem C16_conc_log_order_unlocked_refuted :
  exists prefix writers sched, ~ StronglySorted Z.lt (g_clogs (sched_outcome false prefix writers sched)).
Proof.
  exists [], two_disjoint, [0; 0; 0; 1; 1; 1; 1; 0]%nat.
  assert (E : g_clogs (sched_outcome false [] two_disjoint [0; 0; 0; 1; 1; 1; 1; 0]%nat) = [2; 1]) by (vm_compute; reflexivity).
  rewrite E. intros H. inversion H as [|? ? _ F]; subst. inversion F as [|? ? L _]; subst. lia.
Qed.
Print Assumptions C16_conc_log_order_unlocked_refuted.

(* non-vacuity / what the witnesses look like: in the first run the transaction ids are committed in the order 2, 1 while
   the log ids (drawn under the lock) are committed in the order 1, 2 *)
Example C16c_example :
  let g := sched_outcome true [] two_disjoint [0; 0; 1; 1; 1; 1; 1; 0; 0; 0]%nat in
  g_commits g = [1; 0]%nat /\ g_ctxs g = [2; 1] /\ g_clogs g = [1; 2] /\ results g = [ROk 2 1 false; ROk 1 2 false].
Proof. vm_compute. repeat split; reflexivity. Qed.
