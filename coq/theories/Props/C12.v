(* C12 — Import is exclusive and only on pristine ledgers (sequential part).  Statements only; model Ledger/Import.v,
   proofs Ledger/ImportProofs.v.  H / pre: ANY hash function and trigger pre-image.

   CONCURRENT PART (proved in Props/C12c.v on the interleaving model Ledger/ConcImport.v and tied to the real stack by the schedule
   harness, TIE-S c12-*; the reduction below is what that model formalises): controllerFacade.Import holds the SESSION advisory
   lock of the ledger (LockLedger) from before it reads _system.ledgers.state until DefaultController.Import returned;
   handleState takes the same lock inside the transaction of every write on a ledger whose cached state is not in-use.
   Hence, in any schedule, a facade write on an initializing ledger is ordered entirely before the import (then
   C12_after_write_rejected applies: the import re-reads the state under the lock) or entirely after it (then it is a write on
   the imported state: C11_writable_single).  The statement the harness has to discharge is:
     "between lock and release of Import no statement of a facade write of the same ledger executes"
   Since the repair fixes/01-facade-begintx an atomic bulk on an initializing ledger takes the (transaction scoped) ledger
   lock in BeginTX, before its first statement, and holds it until its commit / rollback, so it is covered by the same
   statement; before the repair it never took the lock (C12_unrepaired_atomic_bypass shows the sequential face). *)
From Coq Require Import List ZArith String Bool Ascii Lia Sorted.
From LV Require Import Base.Util Base.Json Ledger.Types Ledger.Core Ledger.Bulk Ledger.Invariants Ledger.HashChain Ledger.Import Ledger.ImportProofs.
From LV Require Export Props.C12c.   (* concurrent part: the ledger-lock protocol under every schedule (Ledger/ConcImport.v) *)
Import ListNotations.
Open Scope Z_scope.

(* an import is accepted only on a ledger that is still initializing and whose stored logs all precede every imported log *)
Theorem C12_only_pristine : forall (H : bytes -> bytes) pre f now b rs b',
  imp_import H pre f now b rs = (b', None) ->
  i_l b = Initializing /\ forall l r, In l (s_logs (i_s b)) -> In r rs -> l_id l < l_id (fst r).
Proof. intros H pre f now b rs b'. apply import_only_pristine. Qed.
Print Assumptions C12_only_pristine.

(* THE ROW DECIDES: Import re-reads _system.ledgers.state under the ledger lock; whatever the facade the request goes
   through had cached (a facade built by GetLedgerController before another request's first write still holds
   `initializing`), an in-use row refuses the import and nothing but that cache changes *)
Theorem C12_row_decides : forall (H : bytes -> bytes) pre f now b cached rs,
  i_l b = InUse -> imp_import H pre f now (with_cache b cached) rs = (with_cache b InUse, Some IENotInitializing).
Proof. intros H pre f now b cached rs. apply import_row_decides. Qed.
Print Assumptions C12_row_decides.

(* the cache never runs ahead of the row: true initially and kept by every request (hypothesis [coherent] below) *)
Theorem C12_coherent : forall (H : bytes -> bytes) pre f now,
  coherent i_init /\
  (forall b o, coherent b -> coherent (fst (w_single H pre f now b o))) /\
  (forall b os, coherent b -> coherent (fst (w_atomic H pre f now b os))) /\
  (forall b rs, coherent (fst (imp_import H pre f now b rs))).
Proof.
  intros H pre f now. split; [exact coherent_init|]. split; [intros b o; apply single_coherent|].
  split; [intros b os; apply atomic_coherent | intros b rs; apply import_coherent].
Qed.
Print Assumptions C12_coherent.

(* once a write was accepted through the facade (single request; an element of a non-atomic bulk is one), no import can
   change the ledger: it is refused with "not in initializing state" and the ledger is untouched *)
Theorem C12_after_write_rejected : forall (H : bytes -> bytes) pre f now b o b' r now' rs,
  coherent b -> w_single H pre f now b o = (b', Some r) -> committed o r = true ->
  forall cached, imp_import H pre f now' (with_cache b' cached) rs = (with_cache b' InUse, Some IENotInitializing).
Proof.
  intros H pre f now b o b' r now' rs Co E C cached. apply import_row_decides. eapply single_commit_in_use; eassumption.
Qed.
Print Assumptions C12_after_write_rejected.

(* the same after a non-atomic bulk in which at least one element was accepted (each element is a facade write) *)
Theorem C12_after_bulk_write_rejected : forall (H : bytes -> bytes) pre f now b os b' rs now' rs',
  coherent b -> Forall (fun o => o_dry o = false) os -> w_bulk H pre f now b os = (b', rs) ->
  (exists lid tid hit, In (BRes (Some (ROk lid tid hit))) rs) ->
  imp_import H pre f now' b' rs' = (with_cache b' InUse, Some IENotInitializing).
Proof. intros H pre f now b os b' rs now' rs'. apply bulk_commit_then_import_rejected. Qed.
Print Assumptions C12_after_bulk_write_rejected.

(* in-use is absorbing: no write path and no import ever leaves it, so the rejection is permanent *)
Theorem C12_monotone : forall (H : bytes -> bytes) pre f now b,
  i_l b = InUse ->
  (forall o, i_l (fst (w_single H pre f now b o)) = InUse) /\
  (forall os, i_l (fst (w_bulk H pre f now b os)) = InUse) /\
  (forall os, i_l (fst (w_atomic H pre f now b os)) = InUse) /\
  (forall rs cached, imp_import H pre f now (with_cache b cached) rs = (with_cache b InUse, Some IENotInitializing)).
Proof.
  intros H pre f now b E. repeat split.
  - intros o. apply single_keeps_in_use. exact E.
  - intros os. apply bulk_keeps_in_use. exact E.
  - intros os. apply atomic_keeps_in_use. exact E.
  - intros rs cached. apply import_row_decides. exact E.
Qed.
Print Assumptions C12_monotone.

(* an import itself never flips the state (a second import with later ids is accepted: both are "pristine" imports) *)
Theorem C12_import_keeps_state : forall (H : bytes -> bytes) pre f now b rs, i_l (fst (imp_import H pre f now b rs)) = i_l b.
Proof. intros. apply import_keeps_lstate. Qed.
Print Assumptions C12_import_keeps_state.

(* ATOMIC bulk, since the repair fixes/01-facade-begintx: it either commits, and then the ledger is in-use, or it has no
   effect at all; so after an atomic bulk that changed anything every import is refused without effect *)
Theorem C12_atomic_flips_or_no_effect : forall (H : bytes -> bytes) pre f now b os b' out,
  coherent b -> w_atomic H pre f now b os = (b', out) ->
  i_l b' = InUse \/ (i_l b' = i_l b /\ tables (i_s b') = tables (i_s b) /\ i_tab b' = i_tab b).
Proof. intros H pre f now b os b' out. apply atomic_flips_or_no_effect. Qed.
Print Assumptions C12_atomic_flips_or_no_effect.

Theorem C12_after_atomic_write_rejected : forall (H : bytes -> bytes) pre f now b os b' out now' rs,
  coherent b -> w_atomic H pre f now b os = (b', out) -> tables (i_s b') <> tables (i_s b) ->
  forall cached, imp_import H pre f now' (with_cache b' cached) rs = (with_cache b' InUse, Some IENotInitializing).
Proof.
  intros H pre f now b os b' out now' rs Co E Hne cached. apply import_row_decides.
  destruct (atomic_flips_or_no_effect H pre f now b os b' out Co E) as [I|(_ & T & _)]; [exact I | contradiction].
Qed.
Print Assumptions C12_after_atomic_write_rejected.

Local Open Scope string_scope.
(* FOR THE RECORD, the code BEFORE the repair (w_atomic_unrepaired; S-11, confirmed on the real stack, known finding
   KF-C12-atomic-bulk-bypasses-state-tracker, fixed): the bulk never flipped the state ... *)
Theorem C12_unrepaired_atomic_never_flips : forall (H : bytes -> bytes) pre f now b os, i_l (fst (w_atomic_unrepaired H pre f now b os)) = i_l b.
Proof. intros. apply atomic_unrepaired_keeps_lstate. Qed.
Print Assumptions C12_unrepaired_atomic_never_flips.

(* ... so a write accepted through it was followed by an ACCEPTED import that changed the ledger: the pristine copy takes an
   atomic bulk (transaction 1, log 1), then the tail of another ledger's export (log 2: metadata on account bob); since
   the repair the same script ends with the import refused *)
Theorem C12_unrepaired_atomic_bypass : exists f h o,
  (let '(a, b, rs) := run_script f h [AAtomicUnrepaired 1000 [o]; AImport 1 None 2000] in
   exists b1, rs = [RAtomic (AResults [ARes (BRes (Some (ROk 1 (Some 1) false)))]); RImport None b1] /\
   map l_id (s_logs (i_s b)) = [1; 2] /\ map a_addr (s_accounts (i_s b)) = ["world"; "alice"; "bob"]) /\
  (let '(a, b, rs) := run_script f h [AAtomic 1000 [o]; AImport 1 None 2000] in
   exists b1, rs = [RAtomic (AResults [ARes (BRes (Some (ROk 1 (Some 1) false)))]); RImport (Some IENotInitializing) b1] /\
   map l_id (s_logs (i_s b)) = [1] /\ i_l b = InUse).
Proof.
  exists {| f_moves := true; f_pcev := true; f_acc_hist := true; f_tx_hist := true; f_hash := false |},
         [(10, {| o_in := ICreate [{| p_src := "world"; p_dst := "carol"; p_asset := "USD"; p_amt := 5 |}] None "" [] [] false; o_ik := ""; o_dry := false |});
          (20, {| o_in := ISetMeta (TAcc "bob") [("k", "v")]; o_ik := ""; o_dry := false |})],
         {| o_in := ICreate [{| p_src := "world"; p_dst := "alice"; p_asset := "USD"; p_amt := 7 |}] None "" [] [] false; o_ik := ""; o_dry := false |}.
  vm_compute. split; eexists; repeat split; reflexivity.
Qed.
Print Assumptions C12_unrepaired_atomic_bypass.

(* non-vacuity: a pristine import is accepted, a write flips the state, the same stream is then refused without effect;
   on the copy BEFORE the write a second import of the same stream is refused because the ids exist *)
Example C12_example :
  let f := {| f_moves := true; f_pcev := true; f_acc_hist := true; f_tx_hist := true; f_hash := true |} in
  let mk := fun i => {| o_in := i; o_ik := ""; o_dry := false |} in
  let p := {| p_src := "world"; p_dst := "bob"; p_asset := "USD"; p_amt := 5 |} in
  let h := [(10, mk (ICreate [p] None "" [] [] false)); (20, mk (ISetMeta (TTx 1) [("k", "v")]))] in
  let '(a, b, rs) := run_script f h [AImport 0 None 1000; AImport 0 None 1100; ASingle [(1200, mk (ICreate [p] None "" [] [] false))]; AImport 0 None 1300; AImport 2 None 1400] in
  exists b1 b2 b3 b4, rs = [RImport None b1; RImport (Some IELogExists) b2; RSingle [Some (ROk 3 (Some 2) false)]; RImport (Some IENotInitializing) b3; RImport (Some IENotInitializing) b4]
  /\ b2 = b1 /\ b4 = b3 /\ b = b3 /\ i_l b = InUse.
Proof. vm_compute. do 4 eexists. repeat split; reflexivity. Qed.
