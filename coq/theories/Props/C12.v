(* C12 — Import is exclusive and only on pristine ledgers (sequential part).  Statements only; model Ledger/Import.v,
   proofs Ledger/ImportProofs.v.  H / pre: ANY hash function and trigger pre-image.

   CONCURRENT PART (not proved here; >>> HOOK for the schedule harness): controllerFacade.Import holds the SESSION advisory
   lock of the ledger (LockLedger) from before it reads _system.ledgers.state until DefaultController.Import returned;
   handleState takes the same lock inside the transaction of every write on a ledger whose cached state is not in-use.
   Hence, in any schedule, a facade write on an initializing ledger is ordered entirely before the import (then
   C12_after_write_rejected applies: the import re-reads the state under the lock) or entirely after it (then it is a write on
   the imported state: C11_writable_single).  The statement the harness has to discharge is:
     "between lock and release of Import no statement of a facade write of the same ledger executes"
   and it is FALSE for atomic bulks, which never take the lock (C12_refuted_atomic_bypass shows the sequential face). *)
From Coq Require Import List ZArith String Bool Ascii Lia Sorted.
From LV Require Import Base.Util Base.Json Ledger.Types Ledger.Core Ledger.Bulk Ledger.Invariants Ledger.HashChain Ledger.Import Ledger.ImportProofs.
Import ListNotations.
Open Scope Z_scope.

(* an import is accepted only on a ledger that is still initializing and whose stored logs all precede every imported log *)
Theorem C12_only_pristine : forall (H : bytes -> bytes) pre f now b rs b',
  imp_import H pre f now b rs = (b', None) ->
  i_l b = Initializing /\ forall l r, In l (s_logs (i_s b)) -> In r rs -> l_id l < l_id (fst r).
Proof. intros H pre f now b rs b'. apply import_only_pristine. Qed.
Print Assumptions C12_only_pristine.

(* once a write was accepted through the facade (single request; an element of a non-atomic bulk is one), no import can
   change the ledger: it is refused with "not in initializing state" and the ledger is untouched *)
Theorem C12_after_write_rejected : forall (H : bytes -> bytes) pre f now b o b' r now' rs,
  w_single H pre f now b o = (b', Some r) -> committed o r = true ->
  imp_import H pre f now' b' rs = (b', Some IENotInitializing).
Proof.
  intros H pre f now b o b' r now' rs E C. apply import_in_use. eapply single_commit_in_use; eassumption.
Qed.
Print Assumptions C12_after_write_rejected.

(* in-use is absorbing: no write path and no import ever leaves it, so the rejection is permanent *)
Theorem C12_monotone : forall (H : bytes -> bytes) pre f now b,
  i_l b = InUse ->
  (forall o, i_l (fst (w_single H pre f now b o)) = InUse) /\
  (forall os, i_l (fst (w_bulk H pre f now b os)) = InUse) /\
  (forall os, i_l (fst (w_atomic H pre f now b os)) = InUse) /\
  (forall rs, imp_import H pre f now b rs = (b, Some IENotInitializing)).
Proof.
  intros H pre f now b E. repeat split.
  - intros o. apply single_keeps_in_use. exact E.
  - intros os. apply bulk_keeps_in_use. exact E.
  - intros os. rewrite atomic_keeps_lstate. exact E.
  - intros rs. apply import_in_use. exact E.
Qed.
Print Assumptions C12_monotone.

(* an import itself never flips the state (a second import with later ids is accepted: both are "pristine" imports) *)
Theorem C12_import_keeps_state : forall (H : bytes -> bytes) pre f now b rs, i_l (fst (imp_import H pre f now b rs)) = i_l b.
Proof. intros. apply import_keeps_lstate. Qed.
Print Assumptions C12_import_keeps_state.

(* PARTIAL / REFUTED for the atomic-bulk path (S-11): an atomic bulk never flips the state ... *)
Theorem C12_partial_atomic_never_flips : forall (H : bytes -> bytes) pre f now b os, i_l (fst (w_atomic H pre f now b os)) = i_l b.
Proof. intros. apply atomic_keeps_lstate. Qed.
Print Assumptions C12_partial_atomic_never_flips.

Local Open Scope string_scope.
(* ... so a write accepted through it is followed by an ACCEPTED import that changes the ledger: the pristine copy takes an
   atomic bulk (transaction 1, log 1), then the tail of another ledger's export (log 2: metadata on account bob) *)
Theorem C12_refuted_atomic_bypass : exists f h o,
  let '(a, b, rs) := run_script f h [AAtomic 1000 [o]; AImport 1 None 2000] in
  exists b1, rs = [RAtomic (AResults [ARes (BRes (Some (ROk 1 (Some 1) false)))]); RImport None b1] /\
  map l_id (s_logs (i_s b)) = [1; 2] /\ map a_addr (s_accounts (i_s b)) = ["world"; "alice"; "bob"].
Proof.
  exists {| f_moves := true; f_pcev := true; f_acc_hist := true; f_tx_hist := true; f_hash := false |},
         [(10, {| o_in := ICreate [{| p_src := "world"; p_dst := "carol"; p_asset := "USD"; p_amt := 5 |}] None "" [] [] false; o_ik := ""; o_dry := false |});
          (20, {| o_in := ISetMeta (TAcc "bob") [("k", "v")]; o_ik := ""; o_dry := false |})],
         {| o_in := ICreate [{| p_src := "world"; p_dst := "alice"; p_asset := "USD"; p_amt := 7 |}] None "" [] [] false; o_ik := ""; o_dry := false |}.
  vm_compute. eexists. repeat split; reflexivity.
Qed.
Print Assumptions C12_refuted_atomic_bypass.

(* non-vacuity: a pristine import is accepted, a write flips the state, the same stream is then refused without effect;
   on the copy BEFORE the write a second import of the same stream is refused because the ids exist *)
Example C12_example :
  let f := {| f_moves := true; f_pcev := true; f_acc_hist := true; f_tx_hist := true; f_hash := true |} in
  let mk := fun i => {| o_in := i; o_ik := ""; o_dry := false |} in
  let p := {| p_src := "world"; p_dst := "bob"; p_asset := "USD"; p_amt := 5 |} in
  let h := [(10, mk (ICreate [p] None "" [] [] false)); (20, mk (ISetMeta (TTx 1) [("k", "v")]))] in
  let '(a, b, rs) := run_script f h [AImport 0 None 1000; AImport 0 None 1100; ASingle [(1200, mk (ICreate [p] None "" [] [] false))]; AImport 0 None 1300; AImport 2 None 1400] in
  exists b1 b2 b3 b4, rs = [RImport None b1; RImport (Some IELogExists) b2; RSingle [Some (ROk 3 (Some 2) false)]; RImport (Some IENotInitializing) b3; RImport (Some IENotInitializing) b4]
  /\ b2 = b1 /\ b4 = b3 /\ b = b3 /\ i_l b = InUse.
Proof. vm_compute. do 4 eexists. repeat split; reflexivity. Qed.
