(* C30 — Schemas round-trip without changing meaning.  Statements only; proofs live in Ledger/ChartProofs.v.
   The chart model is Ledger/Chart.v (mirror of internal/chart.go); re_valid / re_match stand for
   regexp.Compile / regexp.Match and are universally quantified (any regexp engine). *)
From Coq Require Import List String Bool.
From LV Require Import Base.Util Ledger.Chart Ledger.ChartProofs.
Import ListNotations.
Open Scope string_scope.

(* The requested form: a valid chart survives MarshalJSON -> UnmarshalJSON and the chart read back classifies
   EVERY address identically: accepted or rejected (with the same pattern-mismatch flag of ErrInvalidAccount)
   and, when accepted, with the same default metadata.  No bound on depth, width or address length. *)
Theorem C30_roundtrip : forall re_valid re_match c,
  valid_chart re_valid c = true ->
  exists c', unmarshal re_valid (marshal c) = Some c' /\
             forall addr, classify re_valid re_match c' addr = classify re_valid re_match c addr.
Proof.
  intros rv rm c Hv. exists c. split; [exact (unmarshal_marshal rv c Hv) | reflexivity].
Qed.
Print Assumptions C30_roundtrip.

(* stronger: on canonical representations the round trip is the identity on the whole tree *)
Theorem C30_roundtrip_identity : forall re_valid c,
  valid_chart re_valid c = true -> unmarshal re_valid (marshal c) = Some c.
Proof. exact unmarshal_marshal. Qed.
Print Assumptions C30_roundtrip_identity.

Theorem C30_postings : forall re_valid re_match c,
  valid_chart re_valid c = true ->
  exists c', unmarshal re_valid (marshal c) = Some c' /\
             forall src dst, validate_posting re_valid re_match c' src dst = validate_posting re_valid re_match c src dst.
Proof.
  intros rv rm c Hv. exists c. split; [exact (unmarshal_marshal rv c Hv) | reflexivity].
Qed.
Print Assumptions C30_postings.

(* every sub-segment round-trips on its own, with or without a .pattern (ChartVariableSegment.MarshalJSON) *)
Theorem C30_segment : forall re_valid s pat,
  valid_seg re_valid s = true -> unm_seg re_valid (marshal_seg pat s) = Some s.
Proof. intros rv s pat Hv. exact (unm_marshal_seg rv s Hv pat). Qed.
Print Assumptions C30_segment.

(* SchemaData{chart, transactions, queries}: templates and query templates are carried as JSON values next to the
   chart (encoding/json struct fields; three jsonb columns in the schemas table) *)
Record schema_data := { sd_chart : chart; sd_transactions : json; sd_queries : json }.
Definition marshal_schema (s : schema_data) : json :=
  JObj (jobj [("chart", marshal (sd_chart s)); ("transactions", sd_transactions s); ("queries", sd_queries s)]).
Definition unmarshal_schema (re_valid : str -> bool) (j : json) : option schema_data :=
  match j with
  | JObj m =>
    match jget m "chart", jget m "transactions", jget m "queries" with
    | Some jc, Some t, Some q =>
      match unmarshal re_valid jc with Some c => Some {| sd_chart := c; sd_transactions := t; sd_queries := q |} | None => None end
    | _, _, _ => None
    end
  | _ => None
  end.

Theorem C30_schema : forall re_valid s,
  valid_chart re_valid (sd_chart s) = true -> unmarshal_schema re_valid (marshal_schema s) = Some s.
Proof.
  intros rv [c t q] Hv. simpl in Hv. unfold marshal_schema, unmarshal_schema. simpl sd_chart. simpl sd_transactions. simpl sd_queries.
  unfold jget. rewrite !aget_jobj.
  change (aget String.eqb [("chart", marshal c); ("transactions", t); ("queries", q)] "chart") with (Some (marshal c)).
  change (aget String.eqb [("chart", marshal c); ("transactions", t); ("queries", q)] "transactions") with (Some t).
  change (aget String.eqb [("chart", marshal c); ("transactions", t); ("queries", q)] "queries") with (Some q).
  cbv beta iota. rewrite (unmarshal_marshal rv c Hv). reflexivity.
Qed.
Print Assumptions C30_schema.

(* ---------- non-vacuity: a depth-3 chart with fixed + variable segments, pattern, .self and default metadata ---------- *)
Definition ex_chart : chart :=
  [("bank", Seg [] None (Some {| ca_meta := None |}));
   ("users", Seg [("main", Seg [] None (Some {| ca_meta := Some [("kind", Some "main")] |}))]
                 (Some ("id", Some "^[0-9]+$",
                        Seg [("-x", Seg [] None (Some {| ca_meta := None |})); ("wallet", Seg [] None (Some {| ca_meta := Some [("a", None); ("tier", Some "1")] |}))]
                            None (Some {| ca_meta := Some [("role", Some "user")] |})))
                 None)].

Example C30_example :
  valid_chart re_valid_small ex_chart = true /\
  unmarshal re_valid_small (marshal ex_chart) = Some ex_chart /\
  classify re_valid_small re_match_small ex_chart "users:42" = CAccept [("role", "user")] /\
  classify re_valid_small re_match_small ex_chart "users:42:wallet" = CAccept [("tier", "1")] /\
  classify re_valid_small re_match_small ex_chart "users:bob" = CReject true /\
  classify re_valid_small re_match_small ex_chart "users" = CReject false /\
  classify re_valid_small re_match_small ex_chart "users:main" = CAccept [("kind", "main")].
Proof. repeat split; vm_compute; reflexivity. Qed.

(* what the emitted JSON looks like: members in byte order ($id < -x < .metadata < .pattern < .self < main) *)
Example C30_example_json :
  marshal_seg (Some "^u") (Seg [("-x", Seg [] None (Some {| ca_meta := None |})); ("z", Seg [] None (Some {| ca_meta := None |}))] None (Some {| ca_meta := Some [] |}))
  = JObj [("-x", JObj []); (".metadata", JObj []); (".pattern", JStr "^u"); (".self", JObj []); ("z", JObj [])].
Proof. vm_compute. reflexivity. Qed.
