(* C10 — SQL and Go log hashing agree on every input.  Statements only; proofs live in Ledger/HashProofs.v.

   FULL STATEMENT (what the property demands; FALSE of the unchanged code, see the three refutations below):
     forall H prev l, h_hash l = None -> sql_hash H prev l = Some (go_hash H prev l)
   i.e. for every log content (any memento bytes, date, idempotency key, schema version) the digest the effective
   trigger set_log_hash computes on insert equals Log.ComputeHash for the same log and predecessor.

   Model: Ledger/Hash.v (go_preimage = bytes ComputeHash feeds to sha256; sql_preimage = bytes the trigger of
   migration 37 passes to public.digest; None = the text::bytea cast raises and the insert fails), Base/Json.v
   (Go string encoder with HTML escaping, base64, bytea escape / input). H is universally quantified: SHA-256 itself
   is not modelled, the theorems are about the pre-images. *)
From Coq Require Import List Ascii String NArith ZArith Bool Lia.
From LV Require Import Base.Json Ledger.Hash Ledger.HashProofs.
Import ListNotations.

(* PARTIAL (the strongest statement that is true of the code): idempotency key made only of characters the Go encoder
   emits verbatim (ASCII 0x20..0x7f except the double quote, backslash, ampersand, less-than and greater-than; and well-formed UTF-8
   other than U+2028/U+2029), empty schema version, hash field cleared, date not before year 1, predecessor hash
   short enough for PostgreSQL's base64 not to break the line (any 32-byte digest: C10_sha256_length). The memento
   is ANY byte string. *)
Theorem C10_agree_partial : forall (H : bytes -> bytes) (prev : option bytes) (l : hlog),
  go_verbatim (h_ik l) = true -> h_sv l = [] -> h_hash l = None -> (1 <= c_y (civil_of_us (h_date l)))%Z ->
  (forall p, prev = Some p -> (List.length (base64 p) < 76)%nat) ->
  sql_preimage prev l = Some (go_preimage prev l) /\ sql_hash H prev l = Some (go_hash H prev l).
Proof.
  intros H prev l Hik Hsv Hh Hy Hp. pose proof (preimages_agree prev l Hik Hsv Hh Hy Hp) as E.
  split; [exact E|]. unfold sql_hash, go_hash. rewrite E. reflexivity.
Qed.
Print Assumptions C10_agree_partial.

Theorem C10_sha256_length : forall p, List.length p = 32%nat -> (List.length (base64 p) < 76)%nat.
Proof. exact base64_len32. Qed.
Print Assumptions C10_sha256_length.

(* why encode(memento, 'escape') ... ::bytea is harmless: the input conversion undoes the escape format on ALL byte strings *)
Theorem C10_bytea_roundtrip : forall b, bytea_in (bytea_escape b) = Some b.
Proof. exact bytea_roundtrip. Qed.
Print Assumptions C10_bytea_roundtrip.

(* to_json(timestamp) followed by the letter Z, and Go's RFC3339Nano coincide from year 1 on *)
Theorem C10_dates_agree : forall t, (1 <= c_y (civil_of_us t))%Z -> go_date t = pg_date t ++ B "Z".
Proof. exact date_formats_agree. Qed.
Print Assumptions C10_dates_agree.

Definition mklog (ik sv : bytes) : hlog :=
  {| h_type := TNewTx; h_memento := B "{""transaction"":{""postings"":[]}}"; h_date := 1700000000000000%Z; h_ik := ik; h_sv := sv; h_hash := None |}.

(* REFUTED 1 (suspect S-10b): the trigger concatenates the idempotency key unescaped, Go JSON-escapes it.
   Witness: key a, double quote, b (the same happens for the ampersand, less-than, greater-than, control characters, U+2028/9). *)
Theorem C10_refuted_escape : exists l x,
  h_sv l = [] /\ h_hash l = None /\ sql_preimage None l = Some x /\ x <> go_preimage None l.
Proof.
  exists (mklog (B "a""b") []). eexists. repeat split. apply beqb_false. vm_compute. reflexivity.
Qed.
Print Assumptions C10_refuted_escape.

(* REFUTED 2: a key containing a backslash that does not start an octal escape makes marshalledAsJSON::bytea raise
   (invalid input syntax for type bytea): no hash at all, the insert and the whole write fail. Witness: key  a\b *)
Theorem C10_refuted_backslash : exists l, h_sv l = [] /\ h_hash l = None /\ sql_preimage None l = None.
Proof. exists (mklog [ "a"%char; bs; "b"%char ] []). repeat split. Qed.
Print Assumptions C10_refuted_backslash.

(* REFUTED 3 (suspect S-10a): the effective trigger never mentions schema_version, Go appends it (omitempty).
   The SQL side ignores the field altogether; with a verbatim key and ANY other content equal, a non-empty version
   changes Go's pre-image only. Witness: version v1. *)
Theorem C10_sql_ignores_schema_version : forall prev l sv,
  sql_preimage prev {| h_type := h_type l; h_memento := h_memento l; h_date := h_date l; h_ik := h_ik l; h_sv := sv; h_hash := h_hash l |}
  = sql_preimage prev l.
Proof. intros. reflexivity. Qed.
Print Assumptions C10_sql_ignores_schema_version.

Theorem C10_refuted_schema_version : exists l x,
  go_verbatim (h_ik l) = true /\ h_sv l <> [] /\ h_hash l = None /\ sql_preimage None l = Some x /\ x <> go_preimage None l.
Proof.
  exists (mklog (B "key-1") (B "v1")). eexists. split; [reflexivity|]. split; [discriminate|]. repeat split. apply beqb_false. vm_compute. reflexivity.
Qed.
Print Assumptions C10_refuted_schema_version.

(* non-vacuity of the partial theorem: non-ASCII key, memento with quotes, backslashes, high and zero bytes, 32-byte predecessor *)
Example C10_example :
  let l := {| h_type := TSetMeta; h_memento := B "{""k"":""x\\y< é""}" ++ [chr 0; chr 255]; h_date := 1700000000123400%Z;
              h_ik := B "clé €-1"; h_sv := []; h_hash := None |} in
  let p := B "0123456789abcdef0123456789abcdef" in
  go_verbatim (h_ik l) = true /\ (1 <= c_y (civil_of_us (h_date l)))%Z /\ List.length p = 32%nat /\
  option_map (beqb (go_preimage (Some p) l)) (sql_preimage (Some p) l) = Some true.
Proof. vm_compute. repeat split; congruence. Qed.
