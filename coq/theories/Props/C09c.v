(* C09, concurrent part - the hash chain stays linear under every interleaving of single writes and ATOMIC BULKS (requests that
   insert several logs in one SQL transaction), as long as every transaction runs at READ COMMITTED.  Statements only.
   Model: Ledger/ConcChain.v (the lock protocol of Store.InsertLog with HASH_LOGS = SYNC as an interleaving semantics: first statement,
   pg_advisory_xact_lock before every insert - transaction scoped, so held from the request's first log insert to its COMMIT /
   ROLLBACK -, the insert with the set_log_hash trigger reading the greatest-id row VISIBLE to the INSERT's snapshot, COMMIT /
   ROLLBACK; MVCC visibility by isolation level); proofs: Ledger/ConcChainProofs.v (one invariant, induction over the schedule).
   H is ANY hash function, pre ANY pre-image function (None = the trigger raises), pay ANY assignment of log contents to
   (request, element).  Every theorem holds for ALL schedules and any number of requests, each with any number of elements,
   succeeding, failing before an insert (ROLLBACK) or failing in the trigger (abort).

   The isolation level is a HYPOTHESIS, and a needed one: C09_conc_repeatable_read_forks is the schedule on which a bulk opened
   at REPEATABLE READ chains its first log from a stale predecessor (its snapshot predates the log the lock holder committed while it
   waited for the lock): two logs share a predecessor.  The schedule harness (sched -scenario c09) runs the real stack on pgsem -
   which implements both levels - against this model instantiated at READ COMMITTED, so a transaction opened at another level breaks
   the correspondence and trips the chain monitors. *)
From Coq Require Import List ZArith Bool Lia Sorted.
From LV Require Import Base.Util Base.Json Ledger.HashChain Ledger.ConcChain Ledger.ConcChainProofs.
Import ListNotations.
Open Scope Z_scope.

Section C09c.
  Context {P : Type}.
  Variable H : bytes -> bytes.
  Variable pre : option bytes -> Z * P -> option bytes.
  Variable pay : rid -> nat -> P.

  (* after any schedule the stored rows (committed or still in flight) are linear in id order: ids strictly increase along the
     table, the first row hashes from no predecessor, every other row from the row with the next smaller id and from nothing else -
     so no row is the predecessor of two rows *)
  Theorem C09_conc_bulk_linear : forall reqs sched, all_rc reqs ->
    let t := tbl (g_rows (run H pre pay (init reqs) sched)) in
    StronglySorted Z.lt (ids fst t) /\
    (forall l x, nth_error t 0 = Some (l, x) -> exists y, pre None l = Some y /\ x = H y) /\
    (forall i l x l' x', nth_error t i = Some (l', x') -> nth_error t (S i) = Some (l, x) ->
       fst l' < fst l /\ exists y, pre (Some x') l = Some y /\ x = H y).
  Proof. intros reqs sched Hrc. apply chain_linear. apply cinv_chain. apply cinv_all_schedules. apply cinv_init. exact Hrc. Qed.

  (* the same for what a reader can see at that moment: the committed rows *)
  Theorem C09_conc_bulk_committed_linear : forall reqs sched, all_rc reqs ->
    let t := tbl (committed_rows (run H pre pay (init reqs) sched)) in
    StronglySorted Z.lt (ids fst t) /\
    (forall l x, nth_error t 0 = Some (l, x) -> exists y, pre None l = Some y /\ x = H y) /\
    (forall i l x l' x', nth_error t i = Some (l', x') -> nth_error t (S i) = Some (l, x) ->
       fst l' < fst l /\ exists y, pre (Some x') l = Some y /\ x = H y).
  Proof. intros reqs sched Hrc. apply chain_linear. apply cinv_committed_chain. apply cinv_all_schedules. apply cinv_init. exact Hrc. Qed.

  (* the serialisation the proof rests on: a row in flight belongs to the request that holds the advisory lock - at most one
     transaction has logs in flight, from its first insert to its COMMIT / ROLLBACK, however many logs it inserts *)
  Theorem C09_conc_bulk_inflight_is_holder : forall reqs sched r, all_rc reqs ->
    let g := run H pre pay (init reqs) sched in
    In r (g_rows g) -> r_seq r = None -> g_adv g = Some (r_own r).
  Proof. intros reqs sched r Hrc g. apply (cinv_inflight_holder H pre). apply cinv_all_schedules. apply cinv_init. exact Hrc. Qed.

  (* the states the schedule harness compares against (sequential prefix, then the racing requests under the explored schedule) *)
  Theorem C09_conc_bulk_outcome_linear : forall n racers sched, all_rc racers ->
    ChainInv fst H pre (tbl (g_rows (chain_outcome H pre pay n racers sched))).
  Proof. intros n racers sched Hrc. apply cinv_chain. apply cinv_outcome. exact Hrc. Qed.
End C09c.
Print Assumptions C09_conc_bulk_linear.
Print Assumptions C09_conc_bulk_committed_linear.
Print Assumptions C09_conc_bulk_inflight_is_holder.
Print Assumptions C09_conc_bulk_outcome_linear.

(* ---- the hypothesis is needed, and the hypotheses are satisfiable: the scenario c09-bulk-vs-write of the schedule harness, on the
   instance modelrun prints (hash of a log = the ids it chains through, newest first).  Prefix: 2 logs.  Request 0 = atomic bulk of
   2 elements, request 1 = single write, disjoint accounts.  Schedule: the write takes the lock and inserts log 3; the bulk asks for
   the lock and waits; the write commits; the bulk gets the lock, inserts logs 4 and 5, commits. *)
Definition c09_bulk (i : iso) : creq := {| q_iso := i; q_elems := [true; true] |}.
Definition c09_sched : list rid := [1; 1; 0; 1; 0; 0; 0; 0; 0]%nat.

(* READ COMMITTED: log 4 chains from log 3 *)
Example C09_conc_bulk_example :
  let g := link_outcome 2 [c09_bulk RC; single] c09_sched in
  links g = [(1, 0); (2, 1); (3, 2); (4, 3); (5, 4)] /\
  results g = [ROk [1]; ROk [2]; ROk [4; 5]; ROk [3]] /\ g_commits g = [3; 2]%nat /\
  In (2%nat, LAdv, SBlocked) (g_ev g) /\ chain_ok pathH path_pre (tbl (g_rows g)).
Proof.
  vm_compute. repeat split; try reflexivity; try (eexists; split; reflexivity).
  right. right. left. reflexivity.
Qed.

(* REPEATABLE READ: same requests, same schedule, both requests answered ok - and log 4 chains from log 2, as log 3 does *)
Example C09_conc_repeatable_read_forks :
  let g := link_outcome 2 [c09_bulk RR; single] c09_sched in
  links g = [(1, 0); (2, 1); (3, 2); (4, 2); (5, 4)] /\
  results g = [ROk [1]; ROk [2]; ROk [4; 5]; ROk [3]] /\ g_commits g = [3; 2]%nat /\
  ~ chain_ok pathH path_pre (tbl (g_rows g)).
Proof.
  vm_compute. repeat split; try reflexivity.
  intros (_ & _ & _ & (x & E1 & E2) & _). rewrite <- E2 in E1. inversion E1.
Qed.

(* a bulk whose second element fails rolls back after its first insert, while the write waits for the lock: the write then chains
   from the last log before the bulk; the id the bulk drew is a gap *)
Example C09_conc_bulk_rollback_example :
  let g := link_outcome 2 [{| q_iso := RC; q_elems := [true; false] |}; single] [0; 0; 1; 0; 1; 1; 1]%nat in
  links g = [(1, 0); (2, 1); (4, 2)] /\ results g = [ROk [1]; ROk [2]; RRolledBack; ROk [4]] /\ g_commits g = [3]%nat.
Proof. vm_compute. repeat split; reflexivity. Qed.
