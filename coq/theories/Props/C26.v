(* C26 — Machine and interpreter runtimes agree on the shared language.
   The machine side is Sem.run (Machine/Sem.v), proved properties of which are C22/C23/C27/C28 and whose equality
   with compiler.Compile + vm.Machine is checked by the tie `ns` on every run. The interpreter
   (github.com/formancehq/numscript, a third-party module) is NOT modelled: it is validated by correspondence
   only — both runtime adapters of internal/controller/ledger/numscript_runtime.go are run head-to-head on the
   generated programs and compared modulo zero-amount postings. What is proved here is that this projection is
   harmless: dropping zero-amount postings changes no sum and no balance effect. *)
From Coq Require Import List ZArith String Bool.
From LV Require Import Machine.Syntax Machine.Sem Machine.SemProofs.
Import ListNotations.
Open Scope Z_scope.
Open Scope string_scope.

Theorem C26_zero_postings_irrelevant : forall ps acc asset,
  post_sum (nonzero_posts ps) = post_sum ps /\ effect acc asset (nonzero_posts ps) = effect acc asset ps.
Proof. intros. split; [apply nonzero_posts_sum|apply nonzero_posts_effect]. Qed.
Print Assumptions C26_zero_postings_irrelevant.

(* the machine semantics is a function: same program, variables and store give the same outcome *)
Theorem C26_machine_deterministic : forall p given s o1 o2, run p given s = o1 -> run p given s = o2 -> o1 = o2.
Proof. intros; congruence. Qed.
Print Assumptions C26_machine_deterministic.

(* non-vacuity: the documented example — the machine emits a zero posting, the projection drops it *)
Example C26_example :
  let p := {| pvars := []; pstmts := [ Send (MonLit (AssetLit "USD/2") 0) (VSrc (SAccount (AccLit "alice") OdNone)) (DAccount (AccLit "bob")) ] |} in
  match run p [] {| st_bal := []; st_meta := [] |} with
  | Ok r => (List.length (all_postings r), List.length (nonzero_posts (all_postings r)))
  | _ => (0%nat, 0%nat)
  end = (1%nat, 0%nat).
Proof. vm_compute. reflexivity. Qed.
