(* C35 — Feature flags change only what they are documented to change.  Statements only; proofs in Ledger/FeatProofs.v.
   [erase] removes exactly what the features add: the moves table, both metadata-history tables, the effective volumes
   recorded inside transactions and log payloads, the moves sequence.  What is left -- transactions, logs, current
   volumes, accounts with their current metadata, transaction and log sequences -- is the core. *)
From Coq Require Import List ZArith String Bool Lia.
From LV Require Import Base.Util Ledger.Types Ledger.Core Ledger.Invariants Ledger.PcvProofs Ledger.EffProofs Ledger.FeatProofs.
Import ListNotations.
Open Scope Z_scope.

(* (1) under ANY feature set the core after a history is the state the featureless ledger reaches on that history *)
Theorem C35_simulates_featureless : forall f h, erase (run f h) = run f0 h.
Proof. exact run_erase. Qed.
Print Assumptions C35_simulates_featureless.

(* (2) hence the core is identical for every two combinations of feature values *)
Theorem C35_core_invariant : forall f1 f2 h, erase (run f1 h) = erase (run f2 h).
Proof. intros f1 f2 h. rewrite !run_erase. reflexivity. Qed.
Print Assumptions C35_core_invariant.

(* (3) and every operation returns the same answer (log id, transaction id, idempotency hit, error) *)
Definition answer (r : step_result) : option result := match r with SR _ x => Some x | SPanic => None end.
Theorem C35_same_answers : forall f1 f2 h now o,
  answer (step f1 now (run f1 h) o) = answer (step f2 now (run f2 h) o).
Proof.
  intros f1 f2 h now o.
  assert (G : forall f, answer (step f now (run f h) o) = answer (step f0 now (run f0 h) o)).
  { intros f. rewrite <- (run_erase f h), (step_erase f). destruct (step f now (run f h) o); reflexivity. }
  rewrite (G f1), (G f2). reflexivity.
Qed.
Print Assumptions C35_same_answers.

(* (4) without MOVES_HISTORY no move is ever recorded (so point-in-time volumes cannot be answered from the data) *)
Theorem C35_no_moves_without_feature : forall f h, f_moves f = false -> s_moves (run f h) = [].
Proof. exact run_moves_off. Qed.
Print Assumptions C35_no_moves_without_feature.

Local Open Scope string_scope.
Example C35_example :
  let fa := {| f_moves := true; f_pcev := true; f_acc_hist := true; f_tx_hist := true; f_hash := true |} in
  let P := fun s d a => {| p_src := s; p_dst := d; p_asset := "USD"; p_amt := a |} in
  let h := [(10, {| o_in := ICreate [P "world" "alice" 10] (Some 5) "r" [("k","v")] [("alice", [("x","y")])] false; o_ik := "i"; o_dry := false |});
            (11, {| o_in := IRevert 1 false true []; o_ik := ""; o_dry := false |});
            (12, {| o_in := ISetMeta (TAcc "alice") [("x","z")]; o_ik := ""; o_dry := false |})] in
  List.length (s_moves (run fa h)) = 4%nat /\ List.length (s_ahist (run fa h)) = 3%nat /\ s_moves (run f0 h) = [] /\
  erase (run fa h) = run f0 h /\ List.length (s_logs (run f0 h)) = 3%nat.
Proof. vm_compute. repeat split; reflexivity. Qed.
