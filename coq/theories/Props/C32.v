(* C32 — Bulk requests respect atomic, ordered and continue-on-failure semantics.  Statements only; model
   Ledger/Bulk.v (Bulker.Run / Bulker.run / writeJSONResponse), proofs Ledger/BulkProofs.v.
   Every theorem holds for EVERY per-element step function [exec] (any state, element and result types) and every
   element list; the last part instantiates [exec] with the ledger model Core.step.

   The model follows the code AFTER the repair of KF-C32-parallel-attribution: Bulker.run tags every result with the index
   of its element (ElementID), writeJSONResponse sorts by it, so "result i describes element i" holds for parallel bulks
   too (C32_response_attribution_parallel), whatever the completion order. *)
From Coq Require Import List Bool Arith ZArith String Permutation.
From LV Require Import Base.Util Ledger.Types Ledger.Core Ledger.Invariants Ledger.Chart Ledger.SchemaCtrl Ledger.Bulk Ledger.BulkProofs.
Import ListNotations.
Open Scope list_scope.

Section C32.
  Context {state elem res O : Type}.
  Variable exec : state -> elem -> state * res.
  Variable is_ok : res -> bool.
  Variable cancelled : res.
  Variable rollback : state -> state -> state.
  Variable obs : state -> O.
  Hypothesis cancelled_not_ok : is_ok cancelled = false.
  Hypothesis obs_rollback : forall s0 s1, obs (rollback s0 s1) = obs s0.

  Notation run_bulk := (run_bulk exec is_ok cancelled rollback).
  Notation exec_all := (exec_all exec).
  Notation results_all := (results_all exec).

  (* exactly one result per element, whatever the options *)
  Theorem C32_one_result_per_element : forall atomic cont s es s' rs,
    run_bulk atomic cont s es = (s', rs) -> List.length rs = List.length es.
  Proof. exact (run_bulk_length exec is_ok cancelled rollback). Qed.

  (* atomic: if any element fails (or is cancelled) the observable state is the state before the bulk; otherwise every
     element was applied, in order *)
  Theorem C32_atomic_all_or_none : forall cont s es s' rs,
    run_bulk true cont s es = (s', rs) ->
    (forallb is_ok rs = false -> obs s' = obs s) /\
    (forallb is_ok rs = true -> s' = exec_all s es /\ rs = results_all s es).
  Proof.
    intros cont s es s' rs H. split; intros Hf.
    - exact (run_bulk_atomic_none exec is_ok cancelled rollback cancelled_not_ok O obs obs_rollback cont s es s' rs H Hf).
    - exact (run_bulk_all exec is_ok cancelled rollback cancelled_not_ok cont true s es s' rs H Hf).
  Qed.

  (* sequential non-atomic, continueOnFailure: all elements applied in order, each result is the element's own *)
  Theorem C32_sequential_continue : forall s es,
    run_bulk false true s es = (exec_all s es, results_all s es).
  Proof.
    intros s es. unfold Bulk.run_bulk. rewrite (run_seq_continue exec is_ok cancelled). reflexivity.
  Qed.

  (* sequential non-atomic without continueOnFailure: the elements before the first failure and the failing element are
     processed in order; NO later element is processed (the state is the one the failing element left, the later
     results are context.Canceled) *)
  Theorem C32_sequential_stops_at_first_failure : forall s es1 e es2,
    forallb is_ok (results_all s es1) = true ->
    is_ok (snd (exec (exec_all s es1) e)) = false ->
    run_bulk false false s (es1 ++ e :: es2) =
      (fst (exec (exec_all s es1) e),
       results_all s es1 ++ snd (exec (exec_all s es1) e) :: repeat cancelled (List.length es2)).
  Proof.
    intros s es1 e es2 H1 H2. unfold Bulk.run_bulk.
    rewrite (run_seq_first_failure exec is_ok cancelled es1 e es2 s H1 H2). reflexivity.
  Qed.

  (* no failing element: all options coincide with plain sequential application *)
  Theorem C32_all_succeed : forall atomic cont s es,
    forallb is_ok (results_all s es) = true -> run_bulk atomic cont s es = (exec_all s es, results_all s es).
  Proof.
    intros atomic cont s es H. unfold Bulk.run_bulk. rewrite (run_seq_all_ok exec is_ok cancelled cont es s H).
    rewrite andb_false_r. reflexivity.
  Qed.

  (* each successful element's result is what the same request returns on its own in the state the bulk had reached *)
  Theorem C32_success_is_standalone : forall atomic cont s es s' rs i r,
    run_bulk atomic cont s es = (s', rs) -> nth_error rs i = Some r -> is_ok r = true ->
    standalone exec s es i = Some r.
  Proof. exact (run_bulk_standalone exec is_ok cancelled rollback cancelled_not_ok). Qed.

  (* JSON response of a sequential bulk: entry i carries result i under the action of element i ("ERROR" for a failure) *)
  Theorem C32_response_attribution_sequential : forall (A : Type) (action : elem -> A) atomic cont s es s' rs i e,
    run_bulk atomic cont s es = (s', rs) -> nth_error es i = Some e ->
    exists r, nth_error rs i = Some r /\
      nth_error (respond is_ok (map action es) (tag_seq rs)) i = Some (if is_ok r then Some (action e) else None, r).
  Proof.
    intros A action atomic cont s es s' rs i e H He.
    pose proof (run_bulk_length exec is_ok cancelled rollback _ _ _ _ _ _ H) as Hlen.
    assert (Hp : Permutation (map fst (tag_seq rs)) (seq 0 (List.length (map action es)))).
    { rewrite tag_seq_keys, map_length, Hlen. apply Permutation_refl. }
    assert (Ha : nth_error (map action es) i = Some (action e)) by (rewrite nth_error_map, He; reflexivity).
    destruct (respond_nth is_ok (map action es) (tag_seq rs) i (action e) Hp Ha) as [r [Hin Hn]].
    exists r. split; [apply tag_seq_in; exact Hin | exact Hn].
  Qed.

  (* JSON response of a parallel bulk, for EVERY schedule (completion order + which tasks saw the hasError flag) that
     completes each element once: entry i carries the result computed for element i (the one tagged i by the run),
     under the action of element i *)
  Theorem C32_response_attribution_parallel : forall (A : Type) (action : elem -> A) cont s es sched s' tagged err' i e,
    run_sched exec is_ok cancelled cont es s false sched = (s', tagged, err') ->
    Permutation (map fst sched) (seq 0 (List.length es)) ->
    nth_error es i = Some e ->
    exists r, In (i, r) tagged /\
      nth_error (respond is_ok (map action es) tagged) i = Some (if is_ok r then Some (action e) else None, r).
  Proof.
    intros A action cont s es sched s' tagged err' i e H Hp He.
    pose proof (run_sched_tags_perm exec is_ok cancelled cont es sched s false s' tagged err' H Hp) as Hk.
    assert (Ha : nth_error (map action es) i = Some (action e)) by (rewrite nth_error_map, He; reflexivity).
    apply respond_nth; [rewrite map_length; exact Hk | exact Ha].
  Qed.

  (* exactly one result per element for such a schedule *)
  Theorem C32_parallel_one_result_per_element : forall cont s es sched s' tagged err',
    run_sched exec is_ok cancelled cont es s false sched = (s', tagged, err') ->
    Permutation (map fst sched) (seq 0 (List.length es)) -> List.length tagged = List.length es.
  Proof.
    intros cont s es sched s' tagged err' H Hp.
    pose proof (run_sched_tags_perm exec is_ok cancelled cont es sched s false s' tagged err' H Hp) as Hk.
    apply Permutation_length in Hk. rewrite map_length, seq_length in Hk. exact Hk.
  Qed.

  (* parallel = true with every task started before the first completion: the elements are executed serially in
     completion order [perm]; the j-th collected result belongs to element perm[j] *)
  Theorem C32_parallel_is_a_permutation : forall cont es perm s,
    run_sched exec is_ok cancelled cont es s false (map (fun i => (i, false)) perm) =
      (exec_all s (pick es perm),
       combine (filter (fun i => match nth_error es i with Some _ => true | None => false end) perm) (results_all s (pick es perm)),
       negb (forallb is_ok (results_all s (pick es perm)))).
  Proof. intros. exact (run_sched_early exec is_ok cancelled cont es perm s false). Qed.
End C32.

Print Assumptions C32_one_result_per_element.
Print Assumptions C32_atomic_all_or_none.
Print Assumptions C32_sequential_continue.
Print Assumptions C32_sequential_stops_at_first_failure.
Print Assumptions C32_all_succeed.
Print Assumptions C32_success_is_standalone.
Print Assumptions C32_response_attribution_sequential.
Print Assumptions C32_response_attribution_parallel.
Print Assumptions C32_parallel_one_result_per_element.
Print Assumptions C32_parallel_is_a_permutation.

(* non-vacuity of the parallel attribution (the shape of the former S-32 witness): two elements completing in the order
   [1; 0] (element 1 yields 10, then element 0 yields 11); the response lists element 0's result first, element 1's second *)
Example C32_example_parallel :
  let exec := fun (s e : nat) => (s + e, s + e)%nat in
  let es := [1; 10]%nat in
  let '(_, tagged, _) := run_sched exec (fun _ => true) 0%nat false es 0%nat false [(1, false); (0, false)]%nat in
  tagged = [(1, 10); (0, 11)]%nat /\
  respond (fun _ => true) ["first"%string; "second"%string] tagged = [(Some "first"%string, 11%nat); (Some "second"%string, 10%nat)].
Proof. vm_compute. split; reflexivity. Qed.

(* ---------- instantiation with the ledger model (Core.step): state = the seven tables + sequences ---------- *)
Open Scope Z_scope.
Theorem C32_core_atomic_all_or_none : forall f now cont s es s' rs,
  core_bulk f now true cont s es = (s', rs) ->
  (forallb bres_ok rs = false -> tables s' = tables s) /\
  (forallb bres_ok rs = true -> s' = exec_all (core_exec_b f now) s es /\ rs = results_all (core_exec_b f now) s es).
Proof.
  intros f now cont s es s' rs H.
  exact (C32_atomic_all_or_none (core_exec_b f now) bres_ok BCancelled only_sequences tables eq_refl only_sequences_tables cont s es s' rs H).
Qed.
Print Assumptions C32_core_atomic_all_or_none.

(* ---------- instantiation with the schema-aware controller step (SchemaCtrl.sstep): the executor of a bulk element when
   the ledger has schemas -- strict / audit schema lookup for the bulk's schemaVersion, chart default metadata on the
   accounts the element creates, payload validation.  State = the seven tables + schemas + schema logs + log versions.
   The generic theorems apply verbatim (they hold for every step function); stated here for this executor. ---------- *)
Section C32_schema.
  Variable re_valid : str -> bool.
  Variable re_match : str -> str -> bool.
  Variable f : features.
  Variable m : mode.
  Variable now : Z.
  Variable version : str.
  Notation sexec := (schema_exec_b re_valid re_match f m now version).
  Notation sbulk := (schema_bulk re_valid re_match f m now version).

  Lemma srollback_stables s0 s1 : stables (srollback s0 s1) = stables s0.
  Proof. reflexivity. Qed.

  Theorem C32_schema_atomic_all_or_none : forall cont ss es ss' rs,
    sbulk true cont ss es = (ss', rs) ->
    (forallb sbres_ok rs = false -> stables ss' = stables ss) /\
    (forallb sbres_ok rs = true -> ss' = exec_all sexec ss es /\ rs = results_all sexec ss es).
  Proof.
    intros cont ss es ss' rs H.
    exact (C32_atomic_all_or_none sexec sbres_ok SBCancelled srollback stables eq_refl srollback_stables cont ss es ss' rs H).
  Qed.

  Theorem C32_schema_one_result_per_element : forall atomic cont ss es ss' rs,
    sbulk atomic cont ss es = (ss', rs) -> List.length rs = List.length es.
  Proof. exact (C32_one_result_per_element sexec sbres_ok SBCancelled srollback). Qed.

  Theorem C32_schema_sequential_continue : forall ss es,
    sbulk false true ss es = (exec_all sexec ss es, results_all sexec ss es).
  Proof. exact (C32_sequential_continue sexec sbres_ok SBCancelled srollback). Qed.

  Theorem C32_schema_sequential_stops_at_first_failure : forall ss es1 e es2,
    forallb sbres_ok (results_all sexec ss es1) = true ->
    sbres_ok (snd (sexec (exec_all sexec ss es1) e)) = false ->
    sbulk false false ss (es1 ++ e :: es2) =
      (fst (sexec (exec_all sexec ss es1) e),
       results_all sexec ss es1 ++ snd (sexec (exec_all sexec ss es1) e) :: repeat SBCancelled (List.length es2)).
  Proof. exact (C32_sequential_stops_at_first_failure sexec sbres_ok SBCancelled srollback). Qed.

  (* each successful element answers what the same request (same input, same idempotency key, same schemaVersion) answers
     on its own in the state the bulk had reached *)
  Theorem C32_schema_success_is_standalone : forall atomic cont ss es ss' rs i r,
    sbulk atomic cont ss es = (ss', rs) -> nth_error rs i = Some r -> sbres_ok r = true ->
    standalone sexec ss es i = Some r.
  Proof. exact (C32_success_is_standalone sexec sbres_ok SBCancelled srollback eq_refl). Qed.
End C32_schema.
Print Assumptions C32_schema_atomic_all_or_none.
Print Assumptions C32_schema_one_result_per_element.
Print Assumptions C32_schema_sequential_continue.
Print Assumptions C32_schema_sequential_stops_at_first_failure.
Print Assumptions C32_schema_success_is_standalone.

Local Open Scope string_scope.
Example C32_example :
  let f := {| f_moves := true; f_pcev := true; f_acc_hist := true; f_tx_hist := true; f_hash := true |} in
  let mk := fun src dst amt => {| o_in := ICreate [{| p_src := src; p_dst := dst; p_asset := "USD"; p_amt := amt |}] None "" [] [] false; o_ik := ""; o_dry := false |} in
  let es := [mk "world" "alice" 100; mk "alice" "bob" 500; mk "world" "bob" 5] in
  let ok l t := BRes (Some (ROk l (Some t) false)) in
  let bad := BRes (Some (RErr EInsufficientFunds)) in
  (* atomic: nothing applied; element 3 cancelled *)
  snd (core_bulk f 10 true false init_state es) = [ok 1 1; bad; BCancelled] /\
  tables (fst (core_bulk f 10 true false init_state es)) = tables init_state /\
  (* non-atomic: stops after the failure, element 1 stays applied *)
  snd (core_bulk f 10 false false init_state es) = [ok 1 1; bad; BCancelled] /\
  List.length (s_txs (fst (core_bulk f 10 false false init_state es))) = 1%nat /\
  (* continueOnFailure: element 3 applied with the ids the failed element left *)
  snd (core_bulk f 10 false true init_state es) = [ok 1 1; bad; ok 2 2] /\
  List.length (s_txs (fst (core_bulk f 10 false true init_state es))) = 2%nat /\
  (* atomic + continueOnFailure: all processed, then rolled back *)
  snd (core_bulk f 10 true true init_state es) = [ok 1 1; bad; ok 2 2] /\
  tables (fst (core_bulk f 10 true true init_state es)) = tables init_state.
Proof. vm_compute. repeat split. Qed.
