(* C33 — Replication delivers every log, in order, despite failures.
   Statements only; the model is Repl/Model.v (read its header for what each event mirrors in
   internal/replication), the proofs are in Repl/Proofs.v.  All theorems quantify over EVERY event
   list (exporter failure patterns x stop/start/reset/restart/crash x concurrent log production x
   goroutine interleavings), with no bound on its length or on the number of logs. *)
From Coq Require Import List ZArith Lia Bool Sorted.
From LV Require Import Repl.Model Repl.Proofs.
Import ListNotations.
Open Scope Z_scope.

(* (a) For every handler ever started (resume point r = the LastLogID it was started with), the
   batches the exporter acknowledged, concatenated oldest first, are exactly r+1, r+2, ... :
   increasing, no gap, no repetition inside the epoch, each batch non-empty and increasing, and
   every delivered id is a log of the ledger.  (A page that a handler's un-awaited Accept goroutine
   delivers after that handler halted — model event LateAccept — is recorded as a run of its own
   whose resume point is the cursor of the handler that sent it.) *)
Theorem C33_batches_in_order : forall ps evs r bs,
  let s := run ps evs in
  In (r, bs) (epochs s) ->
  let d := concat (rev bs) in
  0 <= r /\ d = ids_from (r + 1) (length d) /\ StronglySorted Z.lt d /\
  Forall (fun b => b <> [] /\ StronglySorted Z.lt b) bs /\
  Forall (fun i => 1 <= i <= logs s) d.
Proof.
  intros ps evs r bs s Hin d.
  pose proof (a_eps _ (InvA_run ps evs)) as Heps. rewrite Forall_forall in Heps.
  destruct (Heps _ Hin) as (H0 & H1 & H2 & H3). cbn [fst snd] in *. fold d in H1, H3.
  repeat split; auto.
  - rewrite H1. apply ids_from_sorted.
  - eapply Forall_impl; [|exact H2]. intros b (lo & n & Hb). subst b. split.
    + discriminate.
    + apply ids_from_sorted.
  - apply Forall_forall. intros i Hi. rewrite H1 in Hi. apply In_ids_from in Hi. subst s. lia.
Qed.
Print Assumptions C33_batches_in_order.

(* (b) The persisted last_log_id — and every value still travelling towards the table in a
   persister goroutine, including those of handlers already stopped — never exceeds the highest id
   the exporter acknowledged. *)
Theorem C33_persisted_not_ahead : forall ps evs,
  let s := run ps evs in
  0 <= stored s <= acked s /\ acked s <= logs s /\
  (forall v, pers s = Some v -> v <= acked s) /\
  Forall (fun gv => snd gv <= acked s) (late s).
Proof.
  intros ps evs s. pose proof (InvA_run ps evs) as HA. fold s in HA.
  destruct (a_ack _ HA). repeat split; try apply (a_st _ HA); auto.
  - intros v Hv. apply (a_pers _ HA v Hv).
  - eapply Forall_impl; [|exact (a_late _ HA)]. cbn. intros a Ha. lia.
Qed.
Print Assumptions C33_persisted_not_ahead.

(* (c) Reset.  When ResetPipeline's wait for the stopped handler's persister ends (StopDone; for a
   stopped pipeline: ResetReq itself), the table is cleared and, if the pipeline was running, the
   new handler starts before the first log with nothing delivered yet. *)
Theorem C33_reset_restarts_from_first : forall s,
  (mgr s = MResetting -> hnd s = HDrain -> pers s = None ->
   let s' := fst (step s StopDone) in
   stored s' = 0 /\ cur s' = 0 /\ resume s' = 0 /\ delivered s' = [] /\ dsr s' = [] /\
   acked_r s' = 0 /\ started s' = true) /\
  (mgr s = MIdle -> hnd s = HNone ->
   let s' := fst (step s ResetReq) in stored s' = 0 /\ dsr s' = [] /\ acked_r s' = 0).
Proof.
  intros [w ps lg st h c pe la lc m g sl r ep ak ar ds]. cbn. split.
  - intros Hm Hh Hp; subst; cbn; repeat split; reflexivity.
  - intros Hm Hh; subst; cbn. repeat split; reflexivity.
Qed.
Print Assumptions C33_reset_restarts_from_first.

(* (c') A reset is never undone (holds since fixes/repl-01: stopPipeline waits for the persister
   goroutine of the handler it stopped).  No StorePipelineState outlives the manager operation that
   stopped its handler ... *)
Theorem C33_no_late_store : forall ps evs,
  late (run ps evs) = [] /\ stale (run ps evs) = false /\
  existsb stale_store (outs_from (init ps) evs) = false.
Proof.
  intros ps evs. destruct (InvW_run ps evs) as [Hl Hs]. repeat split; auto.
  unfold run in Hs. rewrite stale_run_from in Hs. cbn in Hs. exact Hs.
Qed.
Print Assumptions C33_no_late_store.

(* ... hence, for every event list: the persisted id, the value the persister holds and the running
   handler's cursor never run ahead of what was acknowledged SINCE THE LAST RESET, and every log
   at or below them has been exported again since that reset ("after a reset all logs are exported
   again from the first one": nothing is skipped). *)
Theorem C33_reset_reexports : forall ps evs,
  let s := run ps evs in
  stored s <= acked_r s /\
  (forall v, pers s = Some v -> v <= acked_r s) /\
  (hnd s <> HNone -> cur s <= acked_r s) /\
  (forall i, 1 <= i <= acked_r s -> In i (dsr s)) /\
  (forall i, 1 <= i <= stored s -> In i (dsr s)) /\
  (forall i, hnd s <> HNone -> 1 <= i <= cur s -> In i (dsr s)).
Proof.
  intros ps evs s.
  destruct (InvW_run ps evs) as [_ Hst]. fold s in Hst.
  destruct (c_ns _ (InvC_run ps evs) Hst) as (H1 & H2 & H3 & H4 & H5). fold s in H1, H2, H3, H4, H5.
  repeat split; auto.
  - intros i Hi. apply H5. lia.
  - intros i Hh Hi. specialize (H4 Hh). apply H5. lia.
Qed.
Print Assumptions C33_reset_reexports.

(* In particular the cleared position stays cleared until the exporter acknowledges again. *)
Theorem C33_reset_not_undone : forall ps evs,
  let s := run ps evs in acked_r s = 0 -> stored s = 0.
Proof.
  intros ps evs s H0. destruct (C33_reset_reexports ps evs) as (H1 & _).
  pose proof (a_st _ (InvA_run ps evs)) as H2. fold s in H1, H2. lia.
Qed.
Print Assumptions C33_reset_not_undone.

(* The code BEFORE the repair (init_unrepaired: Halt completes the operation, the persister's value
   becomes a late store) violated all of this — suspect S-33, confirmed on the real code by the
   `repl` harness (KF-C33-late-store-after-reset, replay
   known_findings.d/C33-late-store-after-reset.replay.sx): the late store lands after the reset
   cleared the table, the next start resumes from 3 and logs 1..3 are never exported again.  The
   same schedule is not a schedule of the repaired automaton. *)
Definition s33_witness : list event :=
  [Produce 3; Start; Fetch; PushOk; Handoff; StopReq; Halt; ResetReq; LatePersist 0; Start].

Theorem C33_unrepaired_reset_undone :
  let s := run_from (init_unrepaired 10) s33_witness in
  all_enabled (init_unrepaired 10) s33_witness = true /\
  hnd s <> HNone /\ cur s = 3 /\ dsr s = [] /\ acked_r s < stored s /\
  all_enabled (init 10) s33_witness = false.
Proof. vm_compute. repeat split; try reflexivity. discriminate. Qed.
Print Assumptions C33_unrepaired_reset_undone.

(* (d) Progress.  From ANY reachable state in which the pipeline is started and some log is not yet
   delivered to the current handler's exporter, the explicit schedule [progress_sched] — at most 4
   steps (persister finishes, hand-off, fetch, push), all enabled, none of them an exporter failure
   or a manager operation — delivers log cur+1. *)
Theorem C33_progress : forall ps evs,
  let s := run ps evs in
  started s = true -> cur s < logs s ->
  let sch := progress_sched s in
  let s' := run_from s sch in
  (length sch <= 4)%nat /\ all_enabled s sch = true /\
  In (cur s + 1) (delivered s') /\ cur s < cur s' /\ started s' = true.
Proof.
  intros ps evs s Hst Hlt sch s'.
  destruct (progress_step s (InvA_run ps evs) Hst Hlt) as (H1 & H2 & H3 & H4 & H5 & _).
  repeat split; auto.
Qed.
Print Assumptions C33_progress.

(* ... and repeating it delivers EVERY log after the resume point, within 4 * (logs - cur)
   enabled steps: each log of the ledger is delivered at least once to a started pipeline whose
   exporter has stopped failing.  (Logs at or below the resume point were delivered in earlier
   epochs — C33_reset_reexports_partial.) *)
Theorem C33_all_delivered : forall ps evs,
  let s := run ps evs in
  started s = true ->
  let sch := drain_sched (Z.to_nat (logs s - cur s)) s in
  let s' := run_from s sch in
  (length sch <= 4 * Z.to_nat (logs s - cur s))%nat /\ all_enabled s sch = true /\
  cur s' = logs s /\ logs s' = logs s /\
  (forall i, resume s < i <= logs s -> In i (delivered s')).
Proof.
  intros ps evs s Hst sch s'.
  pose proof (InvA_run ps evs) as HA. fold s in HA.
  destruct (drain_all (Z.to_nat (logs s - cur s)) s HA Hst (le_n _)) as (E1 & E2 & E3 & E4 & E5 & E6).
  fold sch in E1, E6. fold sch s' in E2, E3, E4.
  repeat split; auto.
  intros i Hi.
  assert (HA' : InvA s') by (apply InvA_run_from; exact HA).
  rewrite (delivered_range s' HA'). apply In_ids_from. rewrite E4, E2.
  pose proof (a_res _ HA). pose proof (a_cur _ HA). pose proof (a_ack _ HA). lia.
Qed.
Print Assumptions C33_all_delivered.

(* non-vacuity: page size 2, five logs, an exporter failure, a stop that waits for the store in
   flight (Halt; Persist; StopDone) and a start from the position just stored, a reset while
   running (everything delivered again from 1), a crash and restart from the persisted position. *)
Example C33_example :
  let evs := [Produce 5; Start; Fetch; PushFail; PushOk; Handoff; Persist; Fetch; PushOk; Handoff;
              StopReq; Halt; Persist; StopDone; Start; Fetch; PushOk; Handoff; Persist;
              ResetReq; Halt; StopDone; Fetch; PushOk; Handoff; Persist; Crash; Produce 1; Start] in
  let s := run 2 evs in
  all_enabled (init 2) evs = true /\
  epochs s = [(2, []); (0, [[1; 2]]); (4, [[5]]); (0, [[3; 4]; [1; 2]]); (0, [])] /\
  stored s = 2 /\ acked s = 5 /\ acked_r s = 2 /\ stale s = false /\ started s = true /\
  delivered (run_from s (drain_sched 4 s)) = [3; 4; 5; 6].
Proof. vm_compute. repeat split; reflexivity. Qed.
