(* C13 — Idempotency keys give exactly-once effects (sequential executions).  Statements only; proofs in Ledger/IkProofs.v.
   The concurrent part (N racing requests sharing a key) is examined by the schedule harness, not by these theorems. *)
From Coq Require Import List ZArith String Bool Lia.
From LV Require Import Base.Util Ledger.Types Ledger.Core Ledger.Invariants Ledger.IkProofs Ledger.ScriptProofs.
From LV Require Export Props.C13c.   (* concurrent part: theorems over all schedules of the interleaving model Ledger/Conc.v *)
Import ListNotations.
Open Scope Z_scope.

(* (1) at most one log per non-empty idempotency key, after any history *)
Theorem C13_at_most_once : forall f h, NoDup (nonempty_iks (s_logs (run f h))).
Proof. exact run_ik_inv. Qed.
Print Assumptions C13_at_most_once.

(* (2) once a write has committed under key k, repeating it with the same input -- right away or after ANY further history,
   at any later time, dry run or not, and whether or not re-executing it would succeed now -- returns the original log
   and result flagged as a hit and changes nothing *)
Theorem C13_replay_returns_original : forall f now s o s1 lid tid h2 now' dry',
  o_dry o = false -> o_ik o <> ""%string -> step f now s o = SR s1 (ROk lid tid false) ->
  let s2 := run_from f s1 h2 in
  step f now' s2 {| o_in := o_in o; o_ik := o_ik o; o_dry := dry' |} = SR s2 (ROk lid tid true).
Proof.
  intros f now s o s1 lid tid h2 now' dry' Hd Hne H s2.
  destruct (step_commit_records_ik _ _ _ _ _ _ _ Hd Hne H) as (l & F & A & B & C).
  pose proof (find_ik_stable f h2 s1 (o_ik o) l F) as F2. fold s2 in F2.
  rewrite (step_hit f now' s2 (o_in o) (o_ik o) dry' l F2). rewrite B.
  destruct (input_eq_dec (o_in o) (o_in o)) as [_|N]; [|contradiction N; reflexivity]. rewrite A, C. reflexivity.
Qed.
Print Assumptions C13_replay_returns_original.

(* (3) reusing the key with a different input fails with the idempotency-input validation error and no effect *)
Theorem C13_different_input_rejected : forall f now s o s1 lid tid h2 now' dry' i',
  o_dry o = false -> o_ik o <> ""%string -> step f now s o = SR s1 (ROk lid tid false) -> i' <> o_in o ->
  let s2 := run_from f s1 h2 in
  step f now' s2 {| o_in := i'; o_ik := o_ik o; o_dry := dry' |} = SR s2 (RErr EIdempotencyInput).
Proof.
  intros f now s o s1 lid tid h2 now' dry' i' Hd Hne H Hdiff s2.
  destruct (step_commit_records_ik _ _ _ _ _ _ _ Hd Hne H) as (l & F & A & B & C).
  pose proof (find_ik_stable f h2 s1 (o_ik o) l F) as F2. fold s2 in F2.
  rewrite (step_hit f now' s2 i' (o_ik o) dry' l F2). rewrite B.
  destruct (input_eq_dec (o_in o) i') as [E|_]; [contradiction Hdiff; symmetry; exact E | reflexivity].
Qed.
Print Assumptions C13_different_input_rejected.

(* (4) failed and dry-run writes do not consume the key: the key stays free *)
Theorem C13_failed_write_keeps_key_free : forall f now s o s' e,
  find_ik (s_logs s) (o_ik o) = None -> step f now s o = SR s' (RErr e) -> find_ik (s_logs s') (o_ik o) = None.
Proof.
  intros f now s o s' e F H. pose proof (step_error_no_trace _ _ _ _ _ _ H) as T. unfold tables in T.
  assert (E : s_logs s' = s_logs s) by congruence. rewrite E. exact F.
Qed.
Print Assumptions C13_failed_write_keeps_key_free.

(* (5) creates whose script sets metadata (set_tx_meta / set_account_meta): the fingerprint stored with the log is the
   request AS SUBMITTED. Replaying the same request under the key is a hit returning the original log and transaction,
   after any further history (instance of (2)) ... *)
Theorem C13_script_replay_returns_original : forall f now s ps ts ref md amd force smd samd ik s1 lid tid h2 now' dry',
  ik <> ""%string ->
  step f now s (script_op ps ts ref md amd force smd samd ik false) = SR s1 (ROk lid tid false) ->
  let s2 := run_from f s1 h2 in
  step f now' s2 (script_op ps ts ref md amd force smd samd ik dry') = SR s2 (ROk lid tid true).
Proof. exact script_replay_returns_original. Qed.
Print Assumptions C13_script_replay_returns_original.

(* ... whereas a request that spells out what the script computed (its metadata merged into the request's) is another input *)
Theorem C13_script_merged_request_rejected : forall f now s ps ts ref md amd force smd samd ik s1 lid tid h2 now' dry' smd' samd',
  ik <> ""%string -> mmerge smd md <> md ->
  step f now s (script_op ps ts ref md amd force smd samd ik false) = SR s1 (ROk lid tid false) ->
  let s2 := run_from f s1 h2 in
  step f now' s2 (script_op ps ts ref (mmerge smd md) amd force smd' samd' ik dry') = SR s2 (RErr EIdempotencyInput).
Proof. exact script_replay_merged_rejected. Qed.
Print Assumptions C13_script_merged_request_rejected.

Local Open Scope string_scope.
Example C13_script_example :
  let f := {| f_moves := true; f_pcev := true; f_acc_hist := false; f_tx_hist := false; f_hash := false |} in
  let p := {| p_src := "world"; p_dst := "bank"; p_asset := "USD"; p_amt := 100 |} in
  let o := script_op [p] None "" [("channel", "web")] [] false [("category", "refund")] [] "order-42" false in
  let merged := script_op [p] None "" [("category", "refund"); ("channel", "web")] [] false [("category", "refund")] [] "order-42" false in
  let s := run f [(1, o)] in
  answer_of (step f 2 s o) = Some (ROk 1 (Some 1) true) /\ answer_of (step f 2 s merged) = Some (RErr EIdempotencyInput).
Proof. vm_compute. split; reflexivity. Qed.

(* non-vacuity: alice is funded and spends everything under key "k"; the replay would fail on its own (no funds left)
   but returns the original log 2 / transaction 2 as a hit; a different input under "k" is rejected *)
Example C13_example :
  let f := {| f_moves := true; f_pcev := true; f_acc_hist := false; f_tx_hist := false; f_hash := false |} in
  let P := fun s d a => {| p_src := s; p_dst := d; p_asset := "USD"; p_amt := a |} in
  let fund := {| o_in := ICreate [P "world" "alice" 10] None "" [] [] false; o_ik := ""; o_dry := false |} in
  let spend := {| o_in := ICreate [P "alice" "bob" 10] None "" [] [] false; o_ik := "k"; o_dry := false |} in
  let other := {| o_in := ICreate [P "alice" "bob" 9] None "" [] [] false; o_ik := "k"; o_dry := false |} in
  let nokey := {| o_in := ICreate [P "alice" "bob" 10] None "" [] [] false; o_ik := ""; o_dry := false |} in
  let s := run f [(1, fund); (2, spend)] in
  answer_of (step f 3 s spend) = Some (ROk 2 (Some 2) true) /\ answer_of (step f 3 s other) = Some (RErr EIdempotencyInput) /\
  answer_of (step f 3 s nokey) = Some (RErr EInsufficientFunds).
Proof. vm_compute. repeat split; reflexivity. Qed.
