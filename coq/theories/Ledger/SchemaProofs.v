(* Proofs about Ledger/SchemaCtrl.v: frame (an error leaves every table unchanged), the strict / audit decision rules,
   chart default metadata at first creation only. *)
From Coq Require Import List ZArith String Bool Lia.
From LV Require Import Base.Util Ledger.Types Ledger.Core Ledger.Invariants Ledger.Chart Ledger.SchemaCtrl.
Import ListNotations.
Open Scope Z_scope.

Section SchemaProofs.
  Variable re_valid : str -> bool.
  Variable re_match : str -> str -> bool.
  Variable f : features.
  Notation sstep := (sstep re_valid re_match f).

  Lemma tables_stables ss b : tables b = tables (ss_base ss) -> stables (with_base ss b) = stables ss.
  Proof. unfold tables, stables, with_base. simpl. intros H. inversion H. reflexivity. Qed.

  (* ---------- frame: whatever the reason, a rejected write leaves no trace ---------- *)
  Theorem sstep_error_no_trace m now ss i ss' e : sstep m now ss i = SSR ss' (SErr e) -> stables ss' = stables ss.
  Proof.
    unfold sstep. destruct i as [v c tpls|v template o].
    - destruct (find_schema (ss_schemas ss) v); unfold fail; intros H; inversion H; reflexivity.
    - destruct (find_ik (s_logs (ss_base ss)) (o_ik o)) as [l|].
      + destruct (negb _); [unfold fail; intros H; inversion H; reflexivity|].
        destruct (step f now (ss_base ss) o) as [s' [lid tid hit|e']|] eqn:E; intros H; inversion H; subst.
        apply tables_stables. eapply step_error_no_trace; exact E.
      + match goal with |- context [match ?lk with inl _ => _ | inr _ => _ end] => destruct lk as [sc|e'] end;
          [|unfold fail; intros H; inversion H; reflexivity].
        destruct (resolve_template m sc template (o_in o)) as [inp|]; [|unfold fail; intros H; inversion H; reflexivity].
        destruct (run_input_d f now (ss_base ss) (chart_defaults re_valid re_match sc) inp) as [s1 p|s1 e1|]; [| |discriminate].
        * destruct (negb _ && _).
          { intros H; inversion H; subst. apply tables_stables. reflexivity. }
          destruct (o_dry o); intros H; inversion H.
        * intros H; inversion H; subst. apply tables_stables. reflexivity.
  Qed.

  Lemma latest_some_acc (l : list schema_row) b :
    fold_left (fun best r => match best with
                             | Some b => if sc_created b <=? sc_created r then Some r else best
                             | None => Some r end) l (Some b) <> None.
  Proof. revert b. induction l as [|r l IH]; intros b; simpl; [discriminate|]. destruct (sc_created b <=? sc_created r); apply IH. Qed.

  Lemma latest_schema_nonempty l : l <> [] -> latest_schema l <> None.
  Proof. destruct l as [|r l]; [congruence|]. intros _. unfold latest_schema. simpl. apply latest_some_acc. Qed.

  (* ---------- strict mode ---------- *)
  Theorem strict_version_required now ss template o :
    ss_schemas ss <> [] -> find_ik (s_logs (ss_base ss)) (o_ik o) = None ->
    sstep Strict now ss (SWrite "" template o) = SSR ss (SErr ESchemaNotSpecified).
  Proof.
    intros Hne Hik. unfold sstep. rewrite Hik. simpl.
    destruct (latest_schema (ss_schemas ss)) eqn:E; [reflexivity|]. exfalso. exact (latest_schema_nonempty _ Hne E).
  Qed.

  Theorem unknown_version_rejected m now ss v template o :
    v <> ""%string -> find_schema (ss_schemas ss) v = None -> find_ik (s_logs (ss_base ss)) (o_ik o) = None ->
    sstep m now ss (SWrite v template o) = SSR ss (SErr ESchemaNotFound).
  Proof.
    intros Hv Hf Hik. unfold sstep. rewrite Hik, Hf. apply String.eqb_neq in Hv. rewrite Hv. reflexivity.
  Qed.

  Theorem strict_chart_enforced now ss v template o r inp s1 p :
    v <> ""%string -> find_schema (ss_schemas ss) v = Some r -> find_ik (s_logs (ss_base ss)) (o_ik o) = None ->
    resolve_template Strict (Some r) template (o_in o) = Some inp ->
    run_input_d f now (ss_base ss) (chart_defaults re_valid re_match (Some r)) inp = Done s1 p ->
    payload_valid re_valid re_match r p = false ->
    exists ss', sstep Strict now ss (SWrite v template o) = SSR ss' (SErr ESchemaValidation) /\ stables ss' = stables ss.
  Proof.
    intros Hv Hf Hik Hr Hrun Hval. unfold sstep. rewrite Hik, Hf. apply String.eqb_neq in Hv. rewrite Hv.
    cbv beta iota. rewrite Hr, Hrun, Hval. simpl. eexists. split; [reflexivity|]. apply tables_stables. reflexivity.
  Qed.

  Theorem strict_template_required now ss v o r ps ts ref md amd force :
    v <> ""%string -> find_schema (ss_schemas ss) v = Some r -> find_ik (s_logs (ss_base ss)) (o_ik o) = None ->
    sc_templates r <> [] -> o_in o = ICreate ps ts ref md amd force ->
    sstep Strict now ss (SWrite v "" o) = SSR ss (SErr ESchemaValidation).
  Proof.
    intros Hv Hf Hik Ht Hin. unfold sstep. rewrite Hik, Hf. apply String.eqb_neq in Hv. rewrite Hv.
    cbv beta iota. unfold resolve_template. rewrite Hin. destruct (sc_templates r); [congruence|]. reflexivity.
  Qed.

  (* ---------- audit mode ---------- *)
  (* an unspecified version: exactly the behaviour of the same ledger without any schema *)
  Definition without_schemas (ss : sstate) : sstate :=
    {| ss_base := ss_base ss; ss_schemas := []; ss_slogs := ss_slogs ss; ss_logver := ss_logver ss |}.

  Lemma resolve_template_none m1 m2 template i : resolve_template m1 None template i = resolve_template m2 None template i.
  Proof. destruct i; reflexivity. Qed.

  Theorem audit_unspecified_as_without_schema m' now ss template o :
    match sstep Audit now ss (SWrite "" template o), sstep m' now (without_schemas ss) (SWrite "" template o) with
    | SSR s1 r1, SSR s2 r2 => r1 = r2 /\ ss_base s1 = ss_base s2 /\ ss_logver s1 = ss_logver s2
    | SSPanic, SSPanic => True
    | _, _ => False
    end.
  Proof.
    unfold sstep, without_schemas. cbn [ss_base ss_schemas ss_slogs ss_logver].
    destruct (find_ik (s_logs (ss_base ss)) (o_ik o)) as [lg|].
    - unfold log_template. cbn [ss_logver]. destruct (negb _); [unfold fail; simpl; auto|].
      destruct (step f now (ss_base ss) o) as [s' [lid tid hit|e]|]; simpl; auto.
    - assert (E1 : (if String.eqb "" "" then match latest_schema (ss_schemas ss), Audit with
                                               | Some _, Strict => inr ESchemaNotSpecified | _, _ => inl None end
                    else match find_schema (ss_schemas ss) "" with Some r => inl (Some r) | None => inr ESchemaNotFound end)
                   = (inl None : sum (option schema_row) serr)) by (simpl; destruct (latest_schema (ss_schemas ss)); reflexivity).
      assert (E2 : (if String.eqb "" "" then match latest_schema [], m' with
                                               | Some _, Strict => inr ESchemaNotSpecified | _, _ => inl None end
                    else match find_schema [] "" with Some r => inl (Some r) | None => inr ESchemaNotFound end)
                   = (inl None : sum (option schema_row) serr)) by (simpl; destruct m'; reflexivity).
      rewrite E1, E2. rewrite (resolve_template_none m' Audit).
      destruct (resolve_template Audit None template (o_in o)) as [inp|]; [|simpl; auto].
      destruct (run_input_d f now (ss_base ss) (chart_defaults re_valid re_match None) inp) as [s1 p|s1 e|]; simpl; auto.
      destruct m'; simpl; destruct (o_dry o); simpl; auto.
  Qed.

  (* a posting the chart rejects does not change the outcome *)
  Theorem audit_ignores_chart_verdict now ss v template o r inp s1 p :
    v <> ""%string -> find_schema (ss_schemas ss) v = Some r -> find_ik (s_logs (ss_base ss)) (o_ik o) = None ->
    resolve_template Audit (Some r) template (o_in o) = Some inp ->
    run_input_d f now (ss_base ss) (chart_defaults re_valid re_match (Some r)) inp = Done s1 p ->
    exists ss', sstep Audit now ss (SWrite v template o) = SSR ss' (SOk (s_next_log s1) (payload_tx_id p) false).
  Proof.
    intros Hv Hf Hik Hr Hrun. unfold sstep. rewrite Hik, Hf. apply String.eqb_neq in Hv. rewrite Hv.
    cbv beta iota. rewrite Hr, Hrun. rewrite andb_false_r. destruct (o_dry o); eexists; reflexivity.
  Qed.

  (* a schema with templates, no template named (and no template literally named ""): the submitted input runs,
     exactly as under the same schema without templates *)
  Lemma audit_no_template_resolves r i :
    aget String.eqb (sc_templates r) ""%string = None ->
    resolve_template Audit (Some r) "" i = Some i /\
    resolve_template Audit (Some r) "" i
    = resolve_template Audit (Some {| sc_version := sc_version r; sc_chart := sc_chart r; sc_templates := []; sc_created := sc_created r |}) "" i.
  Proof.
    intros H. unfold resolve_template. destruct i; simpl; try (split; reflexivity).
    all: destruct (sc_templates r); [split; reflexivity|]; rewrite H; split; reflexivity.
  Qed.

  Theorem audit_template_optional now ss v o r s1 p :
    v <> ""%string -> find_schema (ss_schemas ss) v = Some r -> find_ik (s_logs (ss_base ss)) (o_ik o) = None ->
    aget String.eqb (sc_templates r) ""%string = None ->
    run_input_d f now (ss_base ss) (chart_defaults re_valid re_match (Some r)) (o_in o) = Done s1 p ->
    exists ss', sstep Audit now ss (SWrite v "" o) = SSR ss' (SOk (s_next_log s1) (payload_tx_id p) false).
  Proof.
    intros Hv Hf Hik Ht Hrun. eapply audit_ignores_chart_verdict; try eassumption.
    apply audit_no_template_resolves, Ht.
  Qed.

  (* ---------- default metadata ---------- *)
  Lemma mget_aset (a : meta) k' v k : mget (aset String.eqb a k' v) k = if String.eqb k' k then Some v else mget a k.
  Proof.
    unfold mget. induction a as [|[k0 v0] a IH]; simpl.
    - destruct (String.eqb k' k); reflexivity.
    - destruct (String.eqb k0 k') eqn:E; simpl.
      + apply String.eqb_eq in E. subst k0. destruct (String.eqb k' k); reflexivity.
      + rewrite IH. destruct (String.eqb k0 k) eqn:E2; [|reflexivity].
        apply String.eqb_eq in E2. subst k0. rewrite String.eqb_sym, E. reflexivity.
  Qed.

  Lemma mget_mmerge_other (b : meta) : forall a k, mget b k = None -> mget (mmerge a b) k = mget a k.
  Proof.
    unfold mmerge. induction b as [|[k' v'] b IH]; intros a k H; [reflexivity|].
    simpl. unfold mget in H. simpl in H. destruct (String.eqb k' k) eqn:E; [discriminate|].
    rewrite IH by exact H. rewrite mget_aset, E. reflexivity.
  Qed.

  Lemma find_account_app_new accs a x : find_account accs a = None -> a_addr x = a -> find_account (accs ++ [x]) a = Some x.
  Proof.
    unfold find_account. intros H Hx. induction accs as [|y r IH]; simpl in *.
    - rewrite Hx, String.eqb_refl. reflexivity.
    - destruct (String.eqb (a_addr y) a); [discriminate | apply IH, H].
  Qed.

  (* first creation: default || given; an existing account: the defaults play no role and keys absent from the given
     metadata keep their stored value *)
  Theorem defaults_first_creation_only hist_on now accs hist a dflt md first ins upd :
    let accs' := fst (upsert_account_d hist_on now (accs, hist) a dflt md first ins upd) in
    match find_account accs a with
    | None => exists y, find_account accs' a = Some y /\ a_meta y = mmerge dflt md
    | Some x => accs' = fst (upsert_account hist_on now (accs, hist) a md first ins upd) /\
                exists y, find_account accs' a = Some y /\ forall k, mget md k = None -> mget (a_meta y) k = mget (a_meta x) k
    end.
  Proof.
    unfold upsert_account_d. cbn [fst]. destruct (find_account accs a) as [x|] eqn:F.
    - split; [reflexivity|]. unfold upsert_account. rewrite F.
      destruct (acc_needs_update x md first) eqn:C; cbn [fst].
      + exists (acc_updated now x md first upd). split.
        * unfold find_account in *. induction accs as [|y r IH]; simpl in *; [discriminate|].
          destruct (String.eqb (a_addr y) a) eqn:E; simpl.
          -- inversion F; subst y. rewrite C. simpl. rewrite E. reflexivity.
          -- rewrite E. apply IH; exact F.
        * intros k Hk. simpl. apply mget_mmerge_other, Hk.
      + exists x. split; [exact F | reflexivity].
    - unfold upsert_account. rewrite F. cbn [fst].
      eexists. split; [apply find_account_app_new; [exact F | reflexivity] | reflexivity].
  Qed.
End SchemaProofs.
