(* Mirror of the read side (internal/storage/ledger/resource_*.go): volumes with PIT/OOT windows, aggregated balances
   at a point in time, account and transaction listings at a point in time (membership, reverted mask, metadata as
   of t, volume expands).  Each function follows the SQL shape of its BuildDataset/Expand; filters and pagination
   are modelled elsewhere (Filter.v, Page.v).  [None] = the read is rejected (missing feature / invalid query). *)
From Coq Require Import List ZArith String Ascii Bool.
From LV Require Import Base.Util Ledger.Types Ledger.Core.
From LV Require Ledger.Filter.   (* not imported: only Filter.segs (strings.Split on ":") is used here, qualified *)
Import ListNotations.
Open Scope Z_scope.

Record window := { w_pit : option Z; w_oot : option Z; w_ins : bool }.

Definition le_opt (d : Z) (p : option Z) : bool := match p with Some x => d <=? x | None => true end.
Definition ge_opt (d : Z) (o : option Z) : bool := match o with Some x => x <=? d | None => true end.
Definition in_win (w : window) (d : Z) : bool := le_opt d (w_pit w) && ge_opt d (w_oot w).
Definition mdate (ins : bool) (m : move) : Z := if ins then m_ins m else m_eff m.
Definition mdelta' (m : move) : vol := delta_of (m_amt m) (m_src m).

(* select ... sum(case when not is_source ...) from moves where <date in window> group by accounts_address, asset *)
Definition group_moves (ms : list move) : volmap :=
  fold_left (fun acc m => vadd acc (m_acc m, m_asset m) (mdelta' m)) ms [].

(* GetVolumesWithBalances (no filter, groupBy 0) *)
Definition read_volumes (f : features) (s : state) (w : window) : option volmap :=
  match w_pit w, w_oot w with
  | None, None => Some (s_vols s)
  | _, _ => if f_moves f then Some (group_moves (filter (fun m => in_win w (mdate (w_ins w) m)) (s_moves s))) else None
  end.

(* DISTINCT ON (accounts_address, asset) first_value(v) over (partition by ... order by <order> desc): the latest row per key *)
Definition later_seq (b m : move) : bool := m_seq b <? m_seq m.
Definition later_eff (b m : move) : bool := lex_lt (m_eff b) (m_seq b) (m_eff m) (m_seq m).
Definition latest_per_key (later : move -> move -> bool) (ms : list move) : list (key * move) :=
  fold_left (fun acc m =>
    let k := (m_acc m, m_asset m) in
    match aget key_eqb acc k with
    | Some b => if later b m then aset key_eqb acc k m else acc
    | None => aset key_eqb acc k m
    end) ms [].

Definition pcev_or_zero (m : move) : vol := opt_default (0, 0) (m_pcev m).

(* volumes of every account/asset at a point in time: insertion-date mode reads post_commit_volumes of the latest move by
   seq, effective mode reads post_commit_effective_volumes of the latest move by (effective_date, seq) *)
Definition volumes_at (s : state) (pit : Z) (ins : bool) : volmap :=
  if ins then map (fun km => (fst km, m_pcv (snd km))) (latest_per_key later_seq (filter (fun m => m_ins m <=? pit) (s_moves s)))
  else map (fun km => (fst km, pcev_or_zero (snd km))) (latest_per_key later_eff (filter (fun m => m_eff m <=? pit) (s_moves s))).

(* GetAggregatedBalances, optionally restricted to one exact address: sum per asset of input - output *)
Definition sum_by_asset (rows : volmap) : list (asset * Z) :=
  fold_left (fun acc kv =>
    let c := snd (fst kv) in
    let b := fst (snd kv) - snd (snd kv) in
    aset String.eqb acc c (opt_default 0 (aget String.eqb acc c) + b)) rows [].
Definition only_account (a : option addr) (rows : volmap) : volmap :=
  match a with Some x => filter (fun kv => String.eqb (fst (fst kv)) x) rows | None => rows end.

Definition read_aggregated (f : features) (s : state) (pit : option Z) (ins : bool) (acc : option addr) : option (list (asset * Z)) :=
  match pit with
  | None => Some (sum_by_asset (only_account acc (s_vols s)))
  | Some p =>
    if ins then (if f_moves f then Some (sum_by_asset (only_account acc (volumes_at s p true))) else None)
    else (if f_pcev f then Some (sum_by_asset (only_account acc (volumes_at s p false))) else None)
  end.

(* metadata as of t from a history table: the revision with the greatest number among those dated <= t; '{}' when none *)
Definition ahist_at (h : list ahist) (a : addr) (t : Z) : meta :=
  match fold_left (fun best x => if String.eqb (ah_addr x) a && (ah_date x <=? t)
                                 then match best with Some b => if ah_rev b <? ah_rev x then Some x else best | None => Some x end
                                 else best) h None with
  | Some x => ah_meta x | None => [] end.
Definition thist_at (h : list thist) (id : Z) (t : Z) : meta :=
  match fold_left (fun best x => if (th_tx x =? id) && (th_date x <=? t)
                                 then match best with Some b => if th_rev b <? th_rev x then Some x else best | None => Some x end
                                 else best) h None with
  | Some x => th_meta x | None => [] end.

(* ListAccounts at a point in time (no filter): accounts first used at or before t, with their metadata as of t when the
   history feature is on, the current metadata otherwise *)
Record acc_row := { ar_addr : addr; ar_meta : meta; ar_first : Z; ar_ins : Z; ar_upd : Z }.
Definition read_accounts (f : features) (s : state) (pit : option Z) : list acc_row :=
  map (fun a => {| ar_addr := a_addr a;
                   ar_meta := match pit with Some t => if f_acc_hist f then ahist_at (s_ahist s) (a_addr a) t else a_meta a | None => a_meta a end;
                   ar_first := a_first a; ar_ins := a_ins a; ar_upd := a_upd a |})
      (filter (fun a => le_opt (a_first a) pit) (s_accounts s)).

(* expand=volumes / effectiveVolumes on the accounts listing *)
Definition read_account_volumes (f : features) (s : state) (pit : option Z) (effective : bool) : option volmap :=
  if (if effective then f_pcev f else f_moves f) then
    Some (match pit with
          | Some t => volumes_at s t (negb effective)
          | None => s_vols s
          end)
  else None.

(* ListTransactions at a point in time (no filter): timestamp <= t; reverted only if reverted at or before t; metadata as
   of t when TRANSACTION_METADATA_HISTORY is on (the feature test was corrected by a fix: commit in /repo). *)
Record tx_row := { tr_id : Z; tr_meta : meta; tr_ts : Z; tr_rev : option Z }.
Definition tx_hist_flag (f : features) : bool := f_tx_hist f.
Definition read_transactions (f : features) (s : state) (pit : option Z) : list tx_row :=
  map (fun t => {| tr_id := t_id t;
                   tr_meta := match pit with Some p => if tx_hist_flag f then thist_at (s_thist s) (t_id t) p else t_meta t | None => t_meta t end;
                   tr_ts := t_ts t;
                   tr_rev := match pit, t_rev t with Some p, Some r => if r <=? p then Some r else None | _, r => r end |})
      (filter (fun t => le_opt (t_ts t) pit) (s_txs s)).

(* ---------- the reference folds the property speaks of ---------- *)
(* postings of the committed transactions whose (effective | insertion) date falls in the window *)
Definition tx_date (ins : bool) (t : tx) : Z := if ins then t_ins t else t_ts t.
Definition postings_in (s : state) (w : window) : list posting :=
  flat_map t_postings (filter (fun t => in_win w (tx_date (w_ins w) t)) (s_txs s)).

(* the accounts listing joined with its volumes expand *)
Definition read_accounts_expand (f : features) (s : state) (pit : option Z) (effective : bool) : option (list (addr * volmap)) :=
  match read_account_volumes f s pit effective with
  | None => None
  | Some vm => Some (map (fun r => (ar_addr r, filter (fun kv => String.eqb (fst (fst kv)) (ar_addr r)) vm)) (read_accounts f s pit))
  end.

(* ---------- grouped volumes: GetVolumesWithBalances with GroupLvl = g > 0 (resource_volumes.go:Project) ----------
   account := array_to_string((string_to_array(account, ':'))[1:LEAST(array_length(string_to_array(account, ':'), 1), g)], ':')
   then  sum(input), sum(output), sum(balance)  group by account, asset.   g = 0: the listing is returned as it is.
   [Filter.segs] is strings.Split(s, ":") (= string_to_array(s, ':') on non-empty strings; the empty string gives the empty
   string back on both sides). *)

Fixpoint join_colon (l : list string) : string :=
  match l with
  | [] => EmptyString
  | x :: r => match r with [] => x | _ :: _ => (x ++ String ":"%char (join_colon r))%string end
  end.
Definition truncate_addr (g : nat) (a : addr) : addr :=
  match g with O => a | S _ => join_colon (firstn g (Filter.segs a)) end.

Definition regroup (tr : addr -> addr) (v : volmap) : volmap :=
  fold_left (fun acc kv => vadd acc (tr (fst (fst kv)), snd (fst kv)) (snd kv)) v [].
Definition group_volumes (g : nat) (v : volmap) : volmap :=
  match g with O => v | S _ => regroup (truncate_addr g) v end.

Definition read_volumes_grouped (f : features) (s : state) (w : window) (g : nat) : option volmap :=
  option_map (group_volumes g) (read_volumes f s w).

(* ---------- metadata filters on account metadata: metadata[k] = v, $exists metadata k, closed under $and / $or / $not ----------
   (the full filter language and its SQL emission are Ledger/Filter.v; MetaFilterProofs.mf_filter embeds these there) *)
Inductive mfilter :=
| MfMatch (k v : str) | MfExists (k : str)
| MfAnd (a b : mfilter) | MfOr (a b : mfilter) | MfNot (a : mfilter).
Fixpoint msat (q : mfilter) (m : meta) : bool :=
  match q with
  | MfMatch k v => match mget m k with Some x => String.eqb x v | None => false end
  | MfExists k => match mget m k with Some _ => true | None => false end
  | MfAnd a b => msat a m && msat b m
  | MfOr a b => msat a m || msat b m
  | MfNot a => negb (msat a m)
  end.

Definition acc_meta_cur (s : state) (a : addr) : meta :=
  match find_account (s_accounts s) a with Some x => a_meta x | None => [] end.
(* first_value(metadata) over (partition by accounts_address order by revision desc) with no bound on the date *)
Definition ahist_last (h : list ahist) (a : addr) : meta :=
  match fold_left (fun best x => if String.eqb (ah_addr x) a
                                 then match best with Some b => if ah_rev b <? ah_rev x then Some x else best | None => Some x end
                                 else best) h None with
  | Some x => ah_meta x | None => [] end.

(* the metadata column of the VOLUMES dataset when the query filters on metadata (resource_volumes.go:BuildDataset):
   no window: accounts.metadata; with a window and ACCOUNT_METADATA_HISTORY = SYNC: the greatest revision of accounts_metadata
   dated <= PIT (no bound without a PIT), '{}' when there is none; with a window and the feature DISABLED: accounts.metadata
   (left join lateral, '{}' when the account row is missing) — as aggregated balances and accounts do (the feature test was
   added by fix f445e43 in /repo; before it the empty history table was read and every account carried '{}'). *)
Definition vol_meta (f : features) (s : state) (w : window) (a : addr) : meta :=
  match w_pit w, w_oot w with
  | None, None => acc_meta_cur s a
  | Some t, _ => if f_acc_hist f then ahist_at (s_ahist s) a t else acc_meta_cur s a
  | None, Some _ => if f_acc_hist f then ahist_last (s_ahist s) a else acc_meta_cur s a
  end.
(* GetVolumesWithBalances with an optional metadata filter and a group level: dataset -> WHERE -> group *)
Definition read_volumes_q (f : features) (s : state) (w : window) (q : option mfilter) (g : nat) : option volmap :=
  match read_volumes f s w with
  | None => None
  | Some v => Some (group_volumes g (match q with
                                     | None => v
                                     | Some q' => filter (fun kv => msat q' (vol_meta f s w (fst (fst kv)))) v
                                     end))
  end.

(* the metadata column of the AGGREGATED BALANCES dataset (resource_aggregated_balances.go): as of the PIT when
   ACCOUNT_METADATA_HISTORY is SYNC, accounts.metadata otherwise *)
Definition agg_meta (f : features) (s : state) (pit : option Z) (a : addr) : meta :=
  match pit with
  | Some t => if f_acc_hist f then ahist_at (s_ahist s) a t else acc_meta_cur s a
  | None => acc_meta_cur s a
  end.
Definition read_aggregated_q (f : features) (s : state) (pit : option Z) (ins : bool) (q : mfilter) : option (list (asset * Z)) :=
  let sel := filter (fun kv : key * vol => msat q (agg_meta f s pit (fst (fst kv)))) in
  match pit with
  | None => Some (sum_by_asset (sel (s_vols s)))
  | Some p =>
    if ins then (if f_moves f then Some (sum_by_asset (sel (volumes_at s p true))) else None)
    else (if f_pcev f then Some (sum_by_asset (sel (volumes_at s p false))) else None)
  end.
(* ListAccounts with a metadata filter: the WHERE runs on the metadata column of the dataset (as of the PIT with the feature) *)
Definition read_accounts_q (f : features) (s : state) (pit : option Z) (q : mfilter) : list acc_row :=
  filter (fun r => msat q (ar_meta r)) (read_accounts f s pit).
