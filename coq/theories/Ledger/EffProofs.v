(* C04: the post-commit EFFECTIVE volumes maintained by the two triggers (set_effective_volumes BEFORE INSERT,
   update_effective_volumes AFTER INSERT, mirrored by Core.set_effective / Core.bump_later / Core.insert_moves)
   equal, for every stored move, the fold of all moves of the same account/asset at or before it in
   (effective date, seq) order -- whatever the order of insertion (back-dated, equal, future-dated). *)
From Coq Require Import List ZArith String Bool Lia Sorting.Sorted.
From LV Require Import Base.Util Ledger.Types Ledger.Core Ledger.VolProofs Ledger.PcvProofs Ledger.Invariants.
Import ListNotations.
Open Scope Z_scope.

Definition mdelta (m : move) : vol := delta_of (m_amt m) (m_src m).
(* m' is at or before m in (effective date, seq) order *)
Definition mle (m' m : move) : bool := (m_eff m' <? m_eff m) || ((m_eff m' =? m_eff m) && (m_seq m' <=? m_seq m)).
Definition vsum (l : list vol) : vol := fold_right vplus (0, 0) l.

(* the fold the property speaks of: all moves of the same account/asset at or before m in effective order *)
Definition eff_fold (ms : list move) (m : move) : vol :=
  vsum (map (fun m' => if same_ka m' (m_acc m) (m_asset m) && mle m' m then mdelta m' else (0, 0)) ms).

(* generalisation used while a multi-row INSERT is in flight: rows whose seq is [pend]ing have been inserted but
   their AFTER trigger has not fired yet, so rows effective strictly later do not include them yet *)
Definition wterm (pend : Z -> bool) (m m' : move) : vol :=
  if same_ka m' (m_acc m) (m_asset m) && mle m' m && negb (pend (m_seq m') && (m_eff m' <? m_eff m)) then mdelta m' else (0, 0).
Definition wsum (pend : Z -> bool) (ms : list move) (m : move) : vol := vsum (map (wterm pend m) ms).
Definition PInv (pend : Z -> bool) (ms : list move) : Prop := forall m, In m ms -> m_pcev m = Some (wsum pend ms m).
Definition nopend : Z -> bool := fun _ => false.

Lemma vsum_app a b : vsum (a ++ b) = vplus (vsum a) (vsum b).
Proof.
  induction a as [|x xs IH]; simpl.
  - destruct (vsum b); unfold vplus; simpl; reflexivity.
  - rewrite IH. apply eq_sym, vplus_assoc.
Qed.

Lemma vplus_0_l a : vplus (0, 0) a = a.
Proof. destruct a; unfold vplus; simpl; reflexivity. Qed.

Lemma wsum_nopend ms m : wsum nopend ms m = eff_fold ms m.
Proof.
  unfold wsum, eff_fold. f_equal. apply map_ext. intros m'. unfold wterm, nopend. simpl. rewrite andb_true_r. reflexivity.
Qed.

Lemma wsum_ext p q ms m : (forall x, p x = q x) -> wsum p ms m = wsum q ms m.
Proof. intros H. unfold wsum. f_equal. apply map_ext. intros m'. unfold wterm. rewrite H. reflexivity. Qed.

Lemma PInv_ext p q ms : (forall x, p x = q x) -> PInv p ms -> PInv q ms.
Proof. intros H HP m Hm. rewrite (HP m Hm). f_equal. apply wsum_ext, H. Qed.

Lemma same_ka_sym (a b : move) : same_ka a (m_acc b) (m_asset b) = same_ka b (m_acc a) (m_asset a).
Proof. unfold same_ka. rewrite (String.eqb_sym (m_acc a)), (String.eqb_sym (m_asset a)). reflexivity. Qed.

Lemma same_ka_true m a c : same_ka m a c = true -> m_acc m = a /\ m_asset m = c.
Proof. unfold same_ka. rewrite andb_true_iff, !String.eqb_eq. tauto. Qed.

(* ---------- latest_before: the maximum, in (effective date, seq) order, of the qualifying rows ---------- *)
Definition qual (a : addr) (c : asset) (e s : Z) (m : move) : bool := same_ka m a c && lex_lt (m_eff m) (m_seq m) e s.

Definition lb_step (a : addr) (c : asset) (e s : Z) (best : option move) (m : move) : option move :=
  if same_ka m a c && lex_lt (m_eff m) (m_seq m) e s then
    match best with
    | Some b => if lex_lt (m_eff b) (m_seq b) (m_eff m) (m_seq m) then Some m else best
    | None => Some m
    end
  else best.

Lemma latest_before_unfold ms a c e s : latest_before ms a c e s = fold_left (lb_step a c e s) ms None.
Proof. reflexivity. Qed.

Lemma mle_refl m : mle m m = true.
Proof. unfold mle. rewrite Z.eqb_refl, Z.leb_refl, orb_true_r. reflexivity. Qed.

Lemma mle_trans a b c : mle a b = true -> mle b c = true -> mle a c = true.
Proof. unfold mle. intros H1 H2. lia. Qed.

Lemma not_lex_lt_mle b m : lex_lt (m_eff b) (m_seq b) (m_eff m) (m_seq m) = false -> mle m b = true.
Proof. unfold lex_lt, mle. lia. Qed.

Lemma lex_lt_mle b m : lex_lt (m_eff b) (m_seq b) (m_eff m) (m_seq m) = true -> mle b m = true.
Proof. unfold lex_lt, mle. lia. Qed.

Lemma lb_fold_spec a c e s ms : forall best,
  (match best with Some b => qual a c e s b = true | None => True end) ->
  match fold_left (lb_step a c e s) ms best with
  | Some r => qual a c e s r = true /\ (best = Some r \/ In r ms) /\
              (forall b, best = Some b -> mle b r = true) /\ (forall m, In m ms -> qual a c e s m = true -> mle m r = true)
  | None => best = None /\ forall m, In m ms -> qual a c e s m = false
  end.
Proof.
  induction ms as [|x xs IH]; intros best Hb; cbn [fold_left].
  - destruct best as [b|]; [|split; [reflexivity | intros m []]].
    repeat split; [exact Hb | left; reflexivity | intros b0 E; inversion E; subst; apply mle_refl | intros m []].
  - set (best' := lb_step a c e s best x).
    assert (Hb' : match best' with Some b => qual a c e s b = true | None => True end).
    { unfold best', lb_step. fold (qual a c e s x). destruct (qual a c e s x) eqn:Q; [|exact Hb].
      destruct best as [b|]; [|exact Q]. destruct (lex_lt _ _ _ _); [exact Q | exact Hb]. }
    specialize (IH best' Hb'). destruct (fold_left (lb_step a c e s) xs best') as [r|].
    + destruct IH as (Qr & Hor & Hge & Hall). split; [exact Qr|].
      assert (Hx : qual a c e s x = true -> mle x r = true).
      { intros Q. unfold best', lb_step in Hge, Hor. fold (qual a c e s x) in Hge, Hor. rewrite Q in Hge, Hor.
        destruct best as [b|].
        - destruct (lex_lt (m_eff b) (m_seq b) (m_eff x) (m_seq x)) eqn:L.
          + apply Hge; reflexivity.
          + eapply mle_trans; [apply not_lex_lt_mle; exact L | apply Hge; reflexivity].
        - apply Hge; reflexivity. }
      split; [|split].
      * destruct Hor as [E|Hin]; [|right; right; exact Hin].
        unfold best', lb_step in E. fold (qual a c e s x) in E. destruct (qual a c e s x); [|left; exact E].
        destruct best as [b|]; [|inversion E; right; left; reflexivity].
        destruct (lex_lt _ _ _ _); [inversion E; right; left; reflexivity | left; exact E].
      * intros b E. subst best. unfold best', lb_step in Hge. fold (qual a c e s x) in Hge.
        destruct (qual a c e s x); [|apply Hge; reflexivity].
        destruct (lex_lt (m_eff b) (m_seq b) (m_eff x) (m_seq x)) eqn:L; [|apply Hge; reflexivity].
        eapply mle_trans; [apply lex_lt_mle; exact L | apply Hge; reflexivity].
      * intros m [->|Hin] Q; [apply Hx; exact Q | apply Hall; assumption].
    + destruct IH as (E & Hall). unfold best', lb_step in E. fold (qual a c e s x) in E.
      destruct (qual a c e s x) eqn:Q.
      * destruct best as [b|]; [destruct (lex_lt _ _ _ _); discriminate | discriminate].
      * split; [exact E|]. intros m [->|Hin]; [exact Q | apply Hall; exact Hin].
Qed.

Lemma latest_before_spec ms a c e s :
  match latest_before ms a c e s with
  | Some r => qual a c e s r = true /\ In r ms /\ (forall m, In m ms -> qual a c e s m = true -> mle m r = true)
  | None => forall m, In m ms -> qual a c e s m = false
  end.
Proof.
  rewrite latest_before_unfold. pose proof (lb_fold_spec a c e s ms None I) as H.
  destruct (fold_left (lb_step a c e s) ms None) as [r|].
  - destruct H as (Q & [E|Hin] & _ & Hall); [discriminate|]. repeat split; assumption.
  - exact (proj2 H).
Qed.

(* ---------- sums with one distinguished element ---------- *)
Lemma vsum_map_ext_in {A} (f g : A -> vol) l : (forall x, In x l -> f x = g x) -> vsum (map f l) = vsum (map g l).
Proof. intros H. f_equal. apply map_ext_in. exact H. Qed.

Lemma vsum_zero {A} (f : A -> vol) l : (forall x, In x l -> f x = (0, 0)) -> vsum (map f l) = (0, 0).
Proof.
  induction l as [|x xs IH]; intros H; simpl; [reflexivity|].
  rewrite (H x (or_introl eq_refl)), IH; [reflexivity | intros y Hy; apply H; right; exact Hy].
Qed.

Lemma vsum_single (f g : move -> vol) (l : list move) (n : move) (d : vol) :
  NoDup (map m_seq l) -> In n l ->
  (forall y, In y l -> m_seq y <> m_seq n -> g y = f y) -> g n = vplus (f n) d ->
  vsum (map g l) = vplus (vsum (map f l)) d.
Proof.
  induction l as [|x xs IH]; intros Hnd Hin Hoth Hn; [destruct Hin|].
  simpl in Hnd. inversion Hnd as [|? ? Hnotin Hnd']; subst. simpl.
  destruct Hin as [->|Hin].
  - rewrite Hn. rewrite (vsum_map_ext_in g f xs).
    + rewrite !vplus_assoc. f_equal. apply vplus_comm.
    + intros y Hy. apply Hoth; [right; exact Hy|]. intros E. apply Hnotin. rewrite <- E. apply in_map. exact Hy.
  - rewrite (Hoth x (or_introl eq_refl)).
    + rewrite (IH Hnd' Hin); [apply eq_sym, vplus_assoc | intros y Hy; apply Hoth; right; exact Hy | exact Hn].
    + intros E. apply Hnotin. rewrite E. apply in_map. exact Hin.
Qed.

(* ---------- step 1: inserting one row (BEFORE trigger) ---------- *)
Definition seqs_below (ms : list move) (seq : Z) : Prop := Forall (fun m => m_seq m < seq) ms.
Definition pend_eff (pend : Z -> bool) (ms : list move) (eff : Z) : Prop := forall m, In m ms -> pend (m_seq m) = true -> m_eff m = eff.

Lemma below_is_fold pend ms a c eff seq :
  PInv pend ms -> seqs_below ms seq -> pend_eff pend ms eff ->
  match latest_before ms a c eff seq with
  | Some b => match m_pcev b with Some v => v | None => (0, 0) end
  | None => (0, 0)
  end = vsum (map (fun m' => if qual a c eff seq m' then mdelta m' else (0, 0)) ms).
Proof.
  intros HP Hb Hpe. pose proof (latest_before_spec ms a c eff seq) as H.
  destruct (latest_before ms a c eff seq) as [b|].
  - destruct H as (Qb & Hin & Hmax). rewrite (HP b Hin). unfold wsum. apply vsum_map_ext_in. intros m' Hm'.
    unfold wterm. unfold qual in Qb. apply andb_true_iff in Qb. destruct Qb as (Kb & Lb).
    apply same_ka_true in Kb. destruct Kb as (Ea & Ec). rewrite Ea, Ec.
    destruct (qual a c eff seq m') eqn:Q.
    + unfold qual in Q. apply andb_true_iff in Q. destruct Q as (K & L). rewrite K. cbn [andb].
      rewrite (Hmax m' Hm'); [|unfold qual; rewrite K, L; reflexivity]. cbn [andb].
      destruct (pend (m_seq m')) eqn:P; [|reflexivity].
      rewrite (Hpe m' Hm' P). unfold lex_lt in Lb.
      replace (eff <? m_eff b) with false by lia. reflexivity.
    + unfold qual in Q. destruct (same_ka m' a c); [|reflexivity]. cbn [andb] in Q |- *.
      destruct (mle m' b) eqn:M; [|reflexivity]. exfalso.
      unfold mle in M. unfold lex_lt in Q, Lb. lia.
  - apply eq_sym, vsum_zero. intros m' Hm'. rewrite (H m' Hm'). reflexivity.
Qed.

Lemma insert_one pend ms seq eff txid ins (d : mvdata) :
  PInv pend ms -> seqs_below ms seq -> pend_eff pend ms eff ->
  let m := {| m_seq := seq; m_tx := txid; m_acc := md_acc d; m_asset := md_asset d; m_amt := md_amt d; m_src := md_src d;
              m_ins := ins; m_eff := eff; m_pcv := md_pcv d;
              m_pcev := Some (set_effective ms (md_acc d) (md_asset d) eff seq (md_amt d) (md_src d)) |} in
  let pend' := fun x => (x =? seq) || pend x in
  PInv pend' (ms ++ [m]) /\ seqs_below (ms ++ [m]) (seq + 1) /\ pend_eff pend' (ms ++ [m]) eff.
Proof.
  intros HP Hb Hpe m pend'. split; [|split].
  - intros x Hx. apply in_app_or in Hx. unfold wsum. rewrite map_app, vsum_app. cbn [map vsum fold_right].
    destruct Hx as [Hx|[<-|[]]].
    + (* an existing row: unchanged, the new row is not at or before it unless strictly earlier in effective date *)
      rewrite (HP x Hx). f_equal. unfold wsum.
      assert (Hlt : m_seq x < seq) by (unfold seqs_below in Hb; rewrite Forall_forall in Hb; apply Hb; exact Hx).
      replace (wterm pend' x m) with ((0, 0) : vol).
      * rewrite !vplus_0_r. apply vsum_map_ext_in. intros m' Hm'. unfold wterm, pend'.
        assert (m_seq m' < seq) by (unfold seqs_below in Hb; rewrite Forall_forall in Hb; apply Hb; exact Hm').
        replace (m_seq m' =? seq) with false by lia. reflexivity.
      * unfold wterm, pend', m, mle. cbn [m_seq m_eff m_acc m_asset]. rewrite Z.eqb_refl. cbn [orb andb].
        destruct (same_ka _ _ _); [|reflexivity]. cbn [andb].
        destruct (eff <? m_eff x) eqn:E1; cbn [orb negb andb]; [reflexivity|].
        replace (seq <=? m_seq x) with false by lia. rewrite andb_false_r. reflexivity.
    + (* the new row *)
      cbn [m_pcev m]. f_equal. unfold set_effective.
      pose proof (below_is_fold pend ms (md_acc d) (md_asset d) eff seq HP Hb Hpe) as HB.
      assert (Hself : wterm pend' m m = delta_of (md_amt d) (md_src d)).
      { unfold wterm, pend', m, same_ka, mle, mdelta. cbn [m_seq m_eff m_acc m_asset m_amt m_src].
        rewrite !String.eqb_refl, !Z.eqb_refl, Z.ltb_irrefl, Z.leb_refl. reflexivity. }
      rewrite Hself, vplus_0_r.
      assert (Hsum : vsum (map (wterm pend' m) ms) = vsum (map (fun m' => if qual (md_acc d) (md_asset d) eff seq m' then mdelta m' else (0, 0)) ms)).
      { apply vsum_map_ext_in. intros m' Hm'. unfold wterm, pend', qual, m, mle, lex_lt. cbn [m_seq m_eff m_acc m_asset].
        assert (m_seq m' < seq) by (unfold seqs_below in Hb; rewrite Forall_forall in Hb; apply Hb; exact Hm').
        replace (m_seq m' =? seq) with false by lia. cbn [orb].
        destruct (same_ka m' (md_acc d) (md_asset d)); [|reflexivity]. cbn [andb].
        replace (m_seq m' <=? seq) with true by lia. replace (m_seq m' <? seq) with true by lia. rewrite !andb_true_r.
        destruct (pend (m_seq m')) eqn:P.
        - rewrite (Hpe m' Hm' P). rewrite Z.ltb_irrefl, Z.eqb_refl. reflexivity.
        - cbn [andb negb]. rewrite andb_true_r. reflexivity. }
      rewrite Hsum, <- HB.
      destruct (latest_before ms (md_acc d) (md_asset d) eff seq) as [b|]; [destruct (m_pcev b)|]; try reflexivity;
        rewrite vplus_0_l; reflexivity.
  - unfold seqs_below. apply Forall_app. split.
    + unfold seqs_below in Hb. eapply Forall_impl; [|exact Hb]. intros a0 Ha. cbn beta in Ha |- *. lia.
    + constructor; [cbn; lia | constructor].
  - intros x Hx Px. apply in_app_or in Hx. destruct Hx as [Hx|[<-|[]]]; [|reflexivity].
    unfold pend' in Px. assert (m_seq x < seq) by (unfold seqs_below in Hb; rewrite Forall_forall in Hb; apply Hb; exact Hx).
    replace (m_seq x =? seq) with false in Px by lia. apply Hpe; assumption.
Qed.

(* ---------- step 2: the whole multi-row insert ---------- *)
Lemma insert_rows_app b txid ins eff ds : forall ms seq ms1 newr seq',
  insert_rows b ms seq txid ins eff ds = (ms1, newr, seq') -> ms1 = ms ++ newr.
Proof.
  induction ds as [|d r IH]; intros ms seq ms1 newr seq' H; cbn [insert_rows] in H.
  - inversion H; subst. rewrite app_nil_r. reflexivity.
  - match type of H with context [insert_rows ?b0 ?m0 ?s0 ?t0 ?i0 ?e0 r] =>
      destruct (insert_rows b0 m0 s0 t0 i0 e0 r) as [[ms' nr] sq] eqn:E end.
    inversion H; subst. rewrite (IH _ _ _ _ _ E). rewrite <- app_assoc. reflexivity.
Qed.

Lemma insert_rows_spec txid ins eff ds : forall pend ms seq ms1 newr seq',
  insert_rows true ms seq txid ins eff ds = (ms1, newr, seq') ->
  PInv pend ms -> seqs_below ms seq -> pend_eff pend ms eff ->
  exists pend1, PInv pend1 ms1 /\ seqs_below ms1 seq' /\ pend_eff pend1 ms1 eff /\ seq <= seq' /\
    (forall x, pend1 x = pend x || existsb (fun n => x =? m_seq n) newr) /\
    Forall (fun n => m_eff n = eff /\ seq <= m_seq n) newr /\ StronglySorted Z.lt (map m_seq newr).
Proof.
  induction ds as [|d r IH]; intros pend ms seq ms1 newr seq' H HP Hb Hpe; cbn [insert_rows] in H.
  - inversion H; subst. exists pend. repeat split; try assumption; try lia.
    + intros x. cbn. rewrite orb_false_r. reflexivity.
    + constructor.
    + constructor.
  - set (m := {| m_seq := seq; m_tx := txid; m_acc := md_acc d; m_asset := md_asset d; m_amt := md_amt d; m_src := md_src d;
                 m_ins := ins; m_eff := eff; m_pcv := md_pcv d;
                 m_pcev := Some (set_effective ms (md_acc d) (md_asset d) eff seq (md_amt d) (md_src d)) |}) in *.
    destruct (insert_rows true (ms ++ [m]) (seq + 1) txid ins eff r) as [[ms' nr] sq] eqn:E.
    inversion H; subst ms1 newr seq'. clear H.
    destruct (insert_one pend ms seq eff txid ins d HP Hb Hpe) as (HP1 & Hb1 & Hpe1). fold m in HP1, Hb1, Hpe1.
    destruct (IH _ _ _ _ _ _ E HP1 Hb1 Hpe1) as (pend1 & A1 & A2 & A3 & A4 & A5 & A9 & A10).
    exists pend1. repeat split; try assumption; try lia.
    + intros x. rewrite A5. cbn [existsb m_seq m]. destruct (x =? seq); destruct (pend x); reflexivity.
    + constructor; [cbn; split; [reflexivity | lia]|]. eapply Forall_impl; [|exact A9]. cbn. intros a0 [Ha1 Ha2]. split; [exact Ha1 | lia].
    + cbn [map]. constructor; [exact A10|]. rewrite Forall_forall. intros x Hx. apply in_map_iff in Hx. destruct Hx as (n & <- & Hn).
      rewrite Forall_forall in A9. destruct (A9 n Hn) as [_ Hge]. cbn. lia.
Qed.

(* ---------- step 3: the AFTER triggers, fired once per inserted row at the end of the statement ---------- *)
Lemma bump_later_seqs ms n : map m_seq (bump_later ms n) = map m_seq ms.
Proof. unfold bump_later. rewrite map_map. apply map_ext. intros m. destruct (_ && _); reflexivity. Qed.

Definition bump1 (n m : move) : move :=
  if same_ka m (m_acc n) (m_asset n) && (m_eff n <? m_eff m)
  then {| m_seq := m_seq m; m_tx := m_tx m; m_acc := m_acc m; m_asset := m_asset m; m_amt := m_amt m;
          m_src := m_src m; m_ins := m_ins m; m_eff := m_eff m; m_pcv := m_pcv m;
          m_pcev := option_map (fun v => vplus v (delta_of (m_amt n) (m_src n))) (m_pcev m) |}
  else m.
Lemma bump_later_map ms n : bump_later ms n = map (bump1 n) ms.
Proof. reflexivity. Qed.
Lemma bump1_core n m : move_core (bump1 n m) = move_core m.
Proof. unfold bump1. destruct (_ && _); reflexivity. Qed.

Lemma wterm_core p m m' x x' : move_core x = move_core m -> move_core x' = move_core m' -> wterm p x x' = wterm p m m'.
Proof.
  unfold move_core. intros E1 E2. inversion E1. inversion E2. unfold wterm, same_ka, mle, mdelta.
  repeat match goal with H : _ = _ |- _ => rewrite H; clear H end. reflexivity.
Qed.

Lemma wsum_bump p ms n m0 : wsum p (bump_later ms n) (bump1 n m0) = wsum p ms m0.
Proof.
  unfold wsum. rewrite bump_later_map, map_map. apply vsum_map_ext_in. intros m' _.
  apply wterm_core; apply bump1_core.
Qed.

Lemma bump_one pend ms n :
  PInv pend ms -> NoDup (map m_seq ms) -> (exists n0, In n0 ms /\ move_core n0 = move_core n) -> pend (m_seq n) = true ->
  PInv (fun x => negb (x =? m_seq n) && pend x) (bump_later ms n).
Proof.
  intros HP Hnd (n0 & Hn0 & Hc) Hp m Hm. rewrite bump_later_map in Hm. apply in_map_iff in Hm. destruct Hm as (m0 & <- & Hm0).
  rewrite wsum_bump.
  set (c := same_ka m0 (m_acc n) (m_asset n) && (m_eff n <? m_eff m0)).
  assert (Hs : wsum (fun x => negb (x =? m_seq n) && pend x) ms m0 = vplus (wsum pend ms m0) (if c then delta_of (m_amt n) (m_src n) else (0, 0))).
  { unfold wsum. unfold move_core in Hc.
    assert (Es : m_seq n0 = m_seq n) by congruence. assert (Ea : m_acc n0 = m_acc n) by congruence.
    assert (Eas : m_asset n0 = m_asset n) by congruence. assert (Eam : m_amt n0 = m_amt n) by congruence.
    assert (Esr : m_src n0 = m_src n) by congruence. assert (Ee : m_eff n0 = m_eff n) by congruence. clear Hc.
    apply (vsum_single (wterm pend m0) _ ms n0); [exact Hnd | exact Hn0 | |].
    - intros y Hy Hne. unfold wterm. rewrite Es in Hne. replace (m_seq y =? m_seq n) with false by lia. reflexivity.
    - unfold wterm. rewrite Es, Z.eqb_refl, Hp. cbn [negb andb]. rewrite andb_true_r.
      unfold c. rewrite (same_ka_sym m0 n). unfold same_ka. rewrite <- Ea, <- Eas, <- Ee. unfold mdelta. rewrite Eam, Esr.
      fold (same_ka n0 (m_acc m0) (m_asset m0)).
      destruct (same_ka n0 (m_acc m0) (m_asset m0)); cbn [andb]; [|reflexivity].
      destruct (m_eff n0 <? m_eff m0) eqn:L.
      + unfold mle. rewrite L. cbn [orb negb]. rewrite vplus_0_l. reflexivity.
      + cbn [negb]. rewrite andb_true_r. rewrite vplus_0_r. reflexivity. }
  rewrite Hs. unfold bump1. fold c. pose proof (HP m0 Hm0) as Hpc.
  destruct c; cbn [m_pcev]; rewrite Hpc; cbn [option_map]; [reflexivity | rewrite vplus_0_r; reflexivity].
Qed.

Lemma bump_all : forall newr pend ms,
  PInv pend ms -> NoDup (map m_seq ms) -> (forall n, In n newr -> exists n0, In n0 ms /\ move_core n0 = move_core n) ->
  NoDup (map m_seq newr) -> (forall x, pend x = existsb (fun n => x =? m_seq n) newr) ->
  PInv nopend (fold_left bump_later newr ms) /\ map m_seq (fold_left bump_later newr ms) = map m_seq ms.
Proof.
  induction newr as [|n r IH]; intros pend ms HP Hnd Hin Hndn Hpend; cbn [fold_left].
  - split; [|reflexivity]. eapply PInv_ext; [|exact HP]. intros x. rewrite Hpend. reflexivity.
  - cbn [map] in Hndn. inversion Hndn as [|? ? Hnotin Hndr]; subst.
    assert (Hp : pend (m_seq n) = true) by (rewrite Hpend; cbn [existsb]; rewrite Z.eqb_refl; reflexivity).
    pose proof (bump_one pend ms n HP Hnd (Hin n (or_introl eq_refl)) Hp) as HP1.
    destruct (IH (fun x => negb (x =? m_seq n) && pend x) (bump_later ms n) HP1) as (A & B).
    + rewrite bump_later_seqs. exact Hnd.
    + intros n' Hn'. destruct (Hin n' (or_intror Hn')) as (n0 & Hn0 & Hc). exists (bump1 n n0). split.
      * rewrite bump_later_map. apply in_map. exact Hn0.
      * rewrite bump1_core. exact Hc.
    + exact Hndr.
    + intros x. rewrite Hpend. cbn [existsb]. destruct (x =? m_seq n) eqn:E; cbn [negb orb andb]; [|reflexivity].
      apply Z.eqb_eq in E. subst x. symmetry. apply not_true_is_false. intros Hex. apply existsb_exists in Hex.
      destruct Hex as (y & Hy & Ey). apply Z.eqb_eq in Ey. apply Hnotin. rewrite Ey. apply in_map. exact Hy.
    + split; [exact A|]. rewrite B. apply bump_later_seqs.
Qed.

Lemma sorted_lt_nodup (l : list Z) : StronglySorted Z.lt l -> NoDup l.
Proof.
  induction 1 as [|x l Hs IH Hall]; constructor; [|exact IH].
  intros Hin. rewrite Forall_forall in Hall. specialize (Hall x Hin). lia.
Qed.

Lemma nodup_app_intro {A} (a b : list A) : NoDup a -> NoDup b -> (forall x, In x a -> In x b -> False) -> NoDup (a ++ b).
Proof.
  induction a as [|x xs IH]; intros Ha Hb Hd; cbn [app]; [exact Hb|].
  inversion Ha as [|? ? Hx Hxs]; subst. constructor.
  - intros Hin. apply in_app_or in Hin. destruct Hin as [Hin|Hin]; [contradiction | exact (Hd x (or_introl eq_refl) Hin)].
  - apply IH; [exact Hxs | exact Hb | intros y Hy1 Hy2; exact (Hd y (or_intror Hy1) Hy2)].
Qed.

(* the effective-volume invariant of the moves table *)
Record MInv (ms : list move) (seq : Z) : Prop := {
  mi_pcev : PInv nopend ms;
  mi_nodup : NoDup (map m_seq ms);
  mi_below : seqs_below ms seq
}.

Theorem insert_moves_inv ms seq txid ins eff ds ms2 newr seq' :
  MInv ms seq -> insert_moves true ms seq txid ins eff ds = (ms2, newr, seq') -> MInv ms2 seq' /\ seq <= seq'.
Proof.
  intros [HP Hnd Hb] H. unfold insert_moves in H.
  destruct (insert_rows true ms seq txid ins eff ds) as [[ms1 nr] sq] eqn:E. inversion H; subst ms2 newr seq'. clear H.
  assert (Hpe : pend_eff nopend ms eff) by (intros m _ Hp; discriminate Hp).
  destruct (insert_rows_spec _ _ _ _ _ _ _ _ _ _ E HP Hb Hpe) as (pend1 & A1 & A2 & A3 & A4 & A5 & A6 & A7).
  pose proof (insert_rows_app _ _ _ _ _ _ _ _ _ _ E) as Happ.
  assert (Hnd1 : NoDup (map m_seq ms1)).
  { rewrite Happ, map_app. apply nodup_app_intro; [exact Hnd | apply sorted_lt_nodup; exact A7 |].
    intros x Hx1 Hx2. apply in_map_iff in Hx1. destruct Hx1 as (m1 & <- & Hm1). apply in_map_iff in Hx2. destruct Hx2 as (m2 & E2 & Hm2).
    unfold seqs_below in Hb. rewrite Forall_forall in Hb, A6. specialize (Hb m1 Hm1). destruct (A6 m2 Hm2) as [_ Hge]. lia. }
  destruct (bump_all nr pend1 ms1 A1 Hnd1) as (B1 & B2).
  - intros n Hn. exists n. split; [rewrite Happ; apply in_or_app; right; exact Hn | reflexivity].
  - apply sorted_lt_nodup; exact A7.
  - intros x. rewrite A5. reflexivity.
  - split; [|exact A4]. constructor; [exact B1 | rewrite B2; exact Hnd1 |].
    unfold seqs_below in *. rewrite Forall_forall in *. intros m Hm.
    assert (Hi : In (m_seq m) (map m_seq (fold_left bump_later nr ms1))) by (apply in_map; exact Hm).
    rewrite B2 in Hi. apply in_map_iff in Hi. destruct Hi as (m1 & E1 & Hm1). rewrite <- E1. apply A2. exact Hm1.
Qed.

(* ---------- lifting to operations and histories ---------- *)
Definition mv_rel (f : features) (s s' : state) : Prop :=
  (s_moves s' = s_moves s /\ s_next_seq s <= s_next_seq s') \/
  (f_moves f = true /\ exists txid ins eff ds newr,
     insert_moves (f_pcev f) (s_moves s) (s_next_seq s) txid ins eff ds = (s_moves s', newr, s_next_seq s')).

Lemma mv_rel_refl f s : mv_rel f s s. Proof. left; split; [reflexivity | lia]. Qed.
Lemma mv_rel_then_same f s s1 s2 : mv_rel f s s1 -> s_moves s2 = s_moves s1 -> s_next_seq s2 = s_next_seq s1 -> mv_rel f s s2.
Proof. intros [[A B]|(A & B)] E1 E2; [left | right]; rewrite E1, E2; [split|split]; assumption. Qed.
Lemma mv_rel_after_same f s s1 s2 : s_moves s1 = s_moves s -> s_next_seq s1 = s_next_seq s -> mv_rel f s1 s2 -> mv_rel f s s2.
Proof. intros E1 E2 [[A B]|(A & B)]; [left | right]; rewrite <- E1, <- E2; [split|split]; assumption. Qed.

Lemma commit_mv_rel f now s ps md ts ref s1 o : commit_transaction f now s ps md ts ref = (s1, o) -> mv_rel f s s1.
Proof.
  unfold commit_transaction. intros H.
  destruct (negb (ref =? "")%string && ref_taken (s_txs s) ref).
  - inversion H; subst. left. cbn. split; [reflexivity | lia].
  - destruct (f_moves f) eqn:Fm.
    + destruct (insert_moves (f_pcev f) (s_moves s) (s_next_seq s) (s_next_tx s) now (opt_default now ts)
                  (moves_of (returned_totals (update_volumes (s_vols s) (volume_updates ps)) (volume_updates ps)) ps)) as [[mv nr] sq] eqn:E.
      inversion H; subst. right. split; [exact Fm|]. cbn [s_moves s_next_seq]. do 5 eexists. exact E.
    + inversion H; subst. left. cbn. split; [reflexivity | lia].
Qed.

Lemma touch_tx_moves f s t fn : s_moves (touch_tx f s t fn) = s_moves s /\ s_next_seq (touch_tx f s t fn) = s_next_seq s.
Proof. split; reflexivity. Qed.

Ltac mvsame := left; split; [reflexivity | cbn; lia].
Lemma run_input_mv_rel f now s i : mv_rel f s (outcome_state (run_input f now s i) s).
Proof.
  script_split i.
  { simpl. unfold create_tx. destruct ps as [|p ps']; [mvsame|].
    destruct (feasible force (s_vols s) (p :: ps')); simpl; [|mvsame].
    destruct (commit_transaction f now s (p :: ps') md ts ref) as [s1 [t|]] eqn:E; simpl.
    + pose proof (upsert_tx_accounts_frame f now s1 t amd) as (_ & _ & Hm & _ & _ & _ & _ & Hq).
      eapply mv_rel_then_same; [eapply commit_mv_rel; exact E | exact Hm | exact Hq].
    + eapply commit_mv_rel; exact E. }
  destruct i as [ps ts ref md amd force | id force at_eff rmeta | [a|id] md | [a|id] k | ps ts ref md amd force smd samd];
    [apply Hc | | | | | | script_bullet Hc]; simpl.
  - destruct (find_tx (s_txs s) id) as [t|]; [|mvsame].
    destruct (t_rev t); [mvsame|].
    set (mark := fun x : tx => tx_with x (t_meta x) now (Some now)).
    match goal with |- context [match ?c with RCOk => _ | RCInsufficient => _ | RCPanic => _ end] => destruct c end;
      cbn [outcome_state]; try mvsame.
    match goal with |- context [commit_transaction ?a ?b ?c ?d ?e ?g ?h] => destruct (commit_transaction a b c d e g h) as [s2 [r|]] eqn:E end; cbn [outcome_state];
      (eapply mv_rel_after_same; [| |eapply commit_mv_rel; exact E]; reflexivity).
  - mvsame.
  - destruct (find_tx (s_txs s) id) as [t|]; [|mvsame].
    destruct (mcontains (t_meta t) md); simpl; mvsame.
  - destruct (find_account (s_accounts s) a); simpl; mvsame.
  - destruct (find_tx (s_txs s) id) as [t|]; [|mvsame].
    destruct (mget (t_meta t) k); simpl; mvsame.
Qed.

Lemma mv_rel_weak f s s' : mv_rel f s s' -> s_next_seq s <= s_next_seq s' \/ True. Proof. intros _; right; exact I. Qed.

Lemma mv_rel_inv f s s' : f_pcev f = true -> mv_rel f s s' -> MInv (s_moves s) (s_next_seq s) ->
  MInv (s_moves s') (s_next_seq s') /\ s_next_seq s <= s_next_seq s'.
Proof.
  intros Fp [[A B]|(Fm & txid & ins & eff & ds & newr & E)] HI.
  - split; [|exact B]. rewrite A. destruct HI as [H1 H2 H3]. constructor; [exact H1 | exact H2|].
    unfold seqs_below in *. eapply Forall_impl; [|exact H3]. cbn. intros a0 Ha. lia.
  - rewrite Fp in E. eapply insert_moves_inv; eassumption.
Qed.

Theorem step_minv f now s o s' r : f_pcev f = true ->
  MInv (s_moves s) (s_next_seq s) -> step f now s o = SR s' r -> MInv (s_moves s') (s_next_seq s').
Proof.
  intros Fp HI H. unfold step in H.
  destruct (find_ik (s_logs s) (o_ik o)) as [l|].
  - destruct (input_eq_dec (l_input l) (o_in o)); inversion H; subst; exact HI.
  - pose proof (run_input_mv_rel f now s (o_in o)) as HR.
    destruct (run_input f now s (o_in o)) as [s1 p|s1 e|]; cbn [outcome_state] in *; [| |discriminate].
    + destruct (mv_rel_inv f s s1 Fp HR HI) as (HI1 & Hle).
      destruct (o_dry o); inversion H; subst; cbn [only_sequences append_log s_moves s_next_seq]; [|exact HI1].
      destruct HI as [H1 H2 H3]. constructor; [exact H1 | exact H2|].
      unfold seqs_below in *. eapply Forall_impl; [|exact H3]. cbn. intros a0 Ha. lia.
    + destruct (mv_rel_inv f s s1 Fp HR HI) as (HI1 & Hle).
      inversion H; subst; cbn [only_sequences s_moves s_next_seq].
      destruct HI as [H1 H2 H3]. constructor; [exact H1 | exact H2|].
      unfold seqs_below in *. eapply Forall_impl; [|exact H3]. cbn. intros a0 Ha. lia.
Qed.

Lemma minv_init : MInv (s_moves init_state) (s_next_seq init_state).
Proof. constructor; [intros m [] | constructor | constructor]. Qed.

Theorem run_minv f h : f_pcev f = true -> MInv (s_moves (run f h)) (s_next_seq (run f h)).
Proof.
  intros Fp. unfold run.
  assert (G : forall s, MInv (s_moves s) (s_next_seq s) ->
     let s' := fold_left (fun s no => match step f (fst no) s (snd no) with SR s' _ => s' | SPanic => s end) h s in
     MInv (s_moves s') (s_next_seq s')).
  { induction h as [|[now o] r IH]; intros s Hs; simpl; [exact Hs|].
    apply IH. destruct (step f now s o) as [s' res|] eqn:E; [eapply step_minv; eassumption | exact Hs]. }
  apply G, minv_init.
Qed.

Theorem effective_volumes_are_fold f h m : f_pcev f = true -> In m (s_moves (run f h)) ->
  m_pcev m = Some (eff_fold (s_moves (run f h)) m).
Proof. intros Fp Hm. destruct (run_minv f h Fp) as [HP _ _]. rewrite (HP m Hm). f_equal. apply wsum_nopend. Qed.

(* a transaction's moves are its postings: source side then destination side, same account/asset/amount *)
Lemma moves_of_postings pcv ps :
  map (fun d => (md_acc d, md_asset d, md_amt d, md_src d)) (moves_of pcv ps)
  = flat_map (fun p => [(p_src p, p_asset p, p_amt p, true); (p_dst p, p_asset p, p_amt p, false)]) ps.
Proof.
  unfold moves_of.
  assert (G : forall cur l, map (fun d => (md_acc d, md_asset d, md_amt d, md_src d)) (unwind cur l)
                            = flat_map (fun p => [(p_dst p, p_asset p, p_amt p, false); (p_src p, p_asset p, p_amt p, true)]) l).
  { intros cur l; revert cur; induction l as [|p r IH]; intros cur; simpl; [reflexivity|]. rewrite IH. reflexivity. }
  rewrite map_rev, G. clear G. induction ps as [|p r IH]; [reflexivity|].
  simpl. rewrite flat_map_app, rev_app_distr, IH. simpl. reflexivity.
Qed.

Lemma insert_rows_seq_mono b txid ins eff ds : forall ms seq ms1 newr seq',
  insert_rows b ms seq txid ins eff ds = (ms1, newr, seq') -> seq <= seq'.
Proof.
  induction ds as [|d r IH]; intros ms seq ms1 newr seq' H; cbn [insert_rows] in H.
  - inversion H; subst. lia.
  - match type of H with context [insert_rows ?b0 ?m0 ?s0 ?t0 ?i0 ?e0 r] =>
      destruct (insert_rows b0 m0 s0 t0 i0 e0 r) as [[ms' nr] sq] eqn:E end.
    inversion H; subst. specialize (IH _ _ _ _ _ E). lia.
Qed.

Lemma mv_rel_seq_mono f s s' : mv_rel f s s' -> s_next_seq s <= s_next_seq s'.
Proof.
  intros [[_ B]|(_ & txid & ins & eff & ds & newr & E)]; [exact B|].
  unfold insert_moves in E. destruct (insert_rows _ _ _ _ _ _ _) as [[ms1 nr] sq] eqn:E1. inversion E; subst.
  eapply insert_rows_seq_mono; exact E1.
Qed.

Lemma step_mv_rel f now s o s' r : step f now s o = SR s' r -> mv_rel f s s'.
Proof.
  intros H. unfold step in H.
  destruct (find_ik (s_logs s) (o_ik o)) as [l|].
  - destruct (input_eq_dec (l_input l) (o_in o)); inversion H; subst; apply mv_rel_refl.
  - pose proof (run_input_mv_rel f now s (o_in o)) as HR.
    destruct (run_input f now s (o_in o)) as [s1 p|s1 e|]; cbn [outcome_state] in *; [| |discriminate].
    + pose proof (mv_rel_seq_mono _ _ _ HR) as Hm.
      destruct (o_dry o); inversion H; subst.
      * left. cbn. split; [reflexivity | exact Hm].
      * eapply mv_rel_then_same; [exact HR | reflexivity | reflexivity].
    + pose proof (mv_rel_seq_mono _ _ _ HR) as Hm. inversion H; subst. left. cbn. split; [reflexivity | exact Hm].
Qed.

Theorem run_moves_off f h : f_moves f = false -> s_moves (run f h) = [].
Proof.
  intros Fm. unfold run.
  assert (G : forall s, s_moves s = [] ->
     s_moves (fold_left (fun s no => match step f (fst no) s (snd no) with SR s' _ => s' | SPanic => s end) h s) = []).
  { induction h as [|[now o] r IH]; intros s Hs; simpl; [exact Hs|].
    apply IH. destruct (step f now s o) as [s' res|] eqn:E; [|exact Hs].
    destruct (step_mv_rel _ _ _ _ _ _ E) as [[A _]|(Fm' & _)]; [rewrite A; exact Hs | congruence]. }
  apply G. reflexivity.
Qed.
