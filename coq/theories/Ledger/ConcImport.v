(* C12, concurrent part: the ledger-lock protocol of the state tracker (internal/controller/system/state_tracker.go) as an
   interleaving model.  One [step] = one store call (SQL statement) that touches shared state, or one attempt of it when it has
   to wait; a schedule is a list of worker indices.

   Importer (controllerFacade.Import):  pg_advisory_lock(ledger)  [session level, waits]
                                        -> SELECT the ledger row; reject unless state = initializing
                                        -> last stored log id; reject when the stream does not start above it
                                        -> one SQL transaction per log (here: its COMMIT)
                                        -> pg_advisory_unlock.
   Writer through a facade whose cached state is "initializing" (handleState, and BeginTX for an atomic bulk):
                                        BEGIN -> pg_advisory_xact_lock(ledger) [waits]
                                        -> markInUse: UPDATE ledgers SET state = in-use WHERE state = initializing
                                        -> if it flipped: setval(transaction ids), setval(log ids) to the stored maxima
                                        -> the write(s) -> COMMIT (lock released, flip visible, cache := in-use) / ROLLBACK.
   Writer through a facade that cached "in-use": no ledger lock at all: the write, COMMIT.
   The statements of a write / of one imported log are not events of their own: they run inside the critical section (the schedule
   harness checks on the real stack that no lock wait ever happens there). *)
From Coq Require Import List ZArith Bool Arith.
Import ListNotations.
Open Scope Z_scope.

Definition iwid := nat.

Inductive iop :=
| OImport (n : nat) (shift : Z)            (* a stream of n logs with ids shift+1 .. shift+n *)
| OWrite (nlogs : nat) (fails : bool).     (* a single write (1 log) or an atomic bulk (n logs); fails: a business error *)

(* a committed log: id, the request that produced it, its rank in that request, imported? *)
Record ilog := { lg_id : Z; lg_own : iwid; lg_k : nat; lg_imp : bool }.

Inductive ipc :=
| ILock | IRow | ILast | ILog (k : nat) | IUnlock          (* importer *)
| WXLock | WMark | WSetTx | WSetLog | WEnd                 (* writer, locked path; WEnd = COMMIT or ROLLBACK *)
| WFast                                                    (* writer, cached in-use: COMMIT or ROLLBACK of its own transaction *)
| IDone.

Inductive ires := RPending | RImpOk | RImpNotInit | RImpLogExists | RImpInvalidHash | RWOk (ids : list Z) | RWErr.
Inductive ilabel := LILock | LIRow | LILast | LICommit | LIRollback | LIUnlock | LXLock | LMark | LSetval.
Inductive istatus := ISDone | ISBlocked.

Record iw := { iw_op : iop; iw_pc : ipc; iw_cache : bool; iw_res : ires }.

Record ist := {
  s_row : bool;                      (* committed state of the ledger row: true = in-use *)
  s_flip : option iwid;              (* uncommitted UPDATE of the row (markInUse) *)
  s_lock : option iwid;              (* holder of the ledger advisory lock (session or transaction scoped) *)
  s_logs : list ilog;                (* committed logs *)
  s_seq : Z;                         (* next value of the log id sequence (the transaction id sequence moves alike here) *)
  s_hash : bool;
  s_ws : list iw;
  (* ghosts *)
  s_commits : list iwid; s_ev : list (iwid * ilabel * istatus) }.

Definition set_ws (g : ist) (ws : list iw) : ist :=
  {| s_row := s_row g; s_flip := s_flip g; s_lock := s_lock g; s_logs := s_logs g; s_seq := s_seq g; s_hash := s_hash g; s_ws := ws;
     s_commits := s_commits g; s_ev := s_ev g |}.
Definition iev (g : ist) (w : iwid) (l : ilabel) (st : istatus) : ist :=
  {| s_row := s_row g; s_flip := s_flip g; s_lock := s_lock g; s_logs := s_logs g; s_seq := s_seq g; s_hash := s_hash g; s_ws := s_ws g;
     s_commits := s_commits g; s_ev := s_ev g ++ [(w, l, st)] |}.

Fixpoint iupd_nth {A} (l : list A) (n : nat) (f : A -> A) : list A :=
  match l, n with
  | [], _ => []
  | x :: r, O => f x :: r
  | x :: r, S m => x :: iupd_nth r m f
  end.
Definition iupd (g : ist) (w : iwid) (f : iw -> iw) : ist := set_ws g (iupd_nth (s_ws g) w f).
Definition to_pc (p : ipc) (s : iw) : iw := {| iw_op := iw_op s; iw_pc := p; iw_cache := iw_cache s; iw_res := iw_res s |}.
Definition to_res (r : ires) (p : ipc) (s : iw) : iw := {| iw_op := iw_op s; iw_pc := p; iw_cache := iw_cache s; iw_res := r |}.
Definition finish (r : ires) (cache : bool) (s : iw) : iw := {| iw_op := iw_op s; iw_pc := IDone; iw_cache := cache; iw_res := r |}.

Definition held_by_other (g : ist) (w : iwid) : bool :=
  match s_lock g with Some h => negb (Nat.eqb h w) | None => false end.
Definition take_lock (g : ist) (w : iwid) : ist :=
  {| s_row := s_row g; s_flip := s_flip g; s_lock := Some w; s_logs := s_logs g; s_seq := s_seq g; s_hash := s_hash g; s_ws := s_ws g;
     s_commits := s_commits g; s_ev := s_ev g |}.
Definition drop_lock (g : ist) (w : iwid) : ist :=
  {| s_row := s_row g; s_flip := s_flip g;
     s_lock := match s_lock g with Some h => if Nat.eqb h w then None else Some h | None => None end;
     s_logs := s_logs g; s_seq := s_seq g; s_hash := s_hash g; s_ws := s_ws g; s_commits := s_commits g; s_ev := s_ev g |}.

Definition max_id (logs : list ilog) : option Z :=
  fold_left (fun m l => match m with Some x => Some (Z.max x (lg_id l)) | None => Some (lg_id l) end) logs None.

(* ids shift+1 .. : the k-th (from 0) log of the stream *)
Definition stream_id (shift : Z) (k : nat) : Z := shift + Z.of_nat k + 1.

Definition commit_log (g : ist) (w : iwid) (l : ilog) : ist :=
  {| s_row := s_row g; s_flip := s_flip g; s_lock := s_lock g; s_logs := s_logs g ++ [l]; s_seq := s_seq g; s_hash := s_hash g; s_ws := s_ws g;
     s_commits := s_commits g ++ [w]; s_ev := s_ev g |}.

(* ---------- importer ---------- *)
Definition do_ilock (g : ist) (w : iwid) : ist :=
  if held_by_other g w then iev g w LILock ISBlocked
  else iev (iupd (take_lock g w) w (to_pc IRow)) w LILock ISDone.

(* SELECT the ledger row (committed state); reject unless initializing *)
Definition do_irow (g : ist) (w : iwid) : ist :=
  if s_row g then iev (iupd g w (to_res RImpNotInit IUnlock)) w LIRow ISDone
  else iev (iupd g w (to_pc ILast)) w LIRow ISDone.

(* the last stored log id; the stream must start above it (checked by the Go code before the first transaction) *)
Definition do_ilast (g : ist) (w : iwid) (n : nat) (shift : Z) : ist :=
  let ok := match max_id (s_logs g) with Some m => m <? stream_id shift 0 | None => true end in
  iev (iupd g w (match n with
                 | O => to_res RImpOk IUnlock
                 | S _ => if ok then to_pc (ILog 0) else to_res RImpLogExists IUnlock
                 end)) w LILast ISDone.

(* one imported log = one SQL transaction; with HASH_LOGS = SYNC a shifted stream does not chain: refused at its first log *)
Definition do_ilog (g : ist) (w : iwid) (n : nat) (shift : Z) (k : nat) : ist :=
  if s_hash g && negb (shift =? 0) then iev (iupd g w (to_res RImpInvalidHash IUnlock)) w LIRollback ISDone
  else
    let g1 := commit_log g w {| lg_id := stream_id shift k; lg_own := w; lg_k := k; lg_imp := true |} in
    iev (iupd g1 w (if Nat.ltb (S k) n then to_pc (ILog (S k)) else to_res RImpOk IUnlock)) w LICommit ISDone.

Definition do_iunlock (g : ist) (w : iwid) (s : iw) : ist :=
  iev (iupd (drop_lock g w) w (finish (iw_res s) (iw_cache s))) w LIUnlock ISDone.

(* ---------- writer ---------- *)
Definition do_xlock (g : ist) (w : iwid) : ist :=
  if held_by_other g w then iev g w LXLock ISBlocked
  else iev (iupd (take_lock g w) w (to_pc WMark)) w LXLock ISDone.

(* markInUse: UPDATE ... WHERE state = initializing (row lock: waits for an uncommitted flip of somebody else) *)
Definition do_mark (g : ist) (w : iwid) : ist :=
  match s_flip g with
  | Some h => if Nat.eqb h w then iev (iupd g w (to_pc WEnd)) w LMark ISDone else iev g w LMark ISBlocked
  | None =>
    if s_row g then iev (iupd g w (to_pc WEnd)) w LMark ISDone
    else
      let g1 := {| s_row := s_row g; s_flip := Some w; s_lock := s_lock g; s_logs := s_logs g; s_seq := s_seq g; s_hash := s_hash g;
                   s_ws := s_ws g; s_commits := s_commits g; s_ev := s_ev g |} in
      iev (iupd g1 w (to_pc WSetTx)) w LMark ISDone
  end.

(* setval(sequence, max stored id): nothing when the table is empty (setval(…, NULL)) *)
Definition resync (g : ist) : ist :=
  {| s_row := s_row g; s_flip := s_flip g; s_lock := s_lock g; s_logs := s_logs g;
     s_seq := match max_id (s_logs g) with Some m => m + 1 | None => s_seq g end;
     s_hash := s_hash g; s_ws := s_ws g; s_commits := s_commits g; s_ev := s_ev g |}.
Definition do_setval (g : ist) (w : iwid) (next : ipc) : ist := iev (iupd (resync g) w (to_pc next)) w LSetval ISDone.

Fixpoint draw (seq : Z) (w : iwid) (n k : nat) : list ilog :=
  match n with
  | O => []
  | S m => {| lg_id := seq; lg_own := w; lg_k := k; lg_imp := false |} :: draw (seq + 1) w m (S k)
  end.

(* end of the write: COMMIT (ids drawn from the sequence, logs and flip visible, transaction-scoped lock released, the facade
   caches in-use) or ROLLBACK (nothing visible, lock released) *)
Definition do_wend (g : ist) (w : iwid) (s : iw) (n : nat) (fails : bool) : ist :=
  let unflip := match s_flip g with Some h => if Nat.eqb h w then None else Some h | None => None end in
  let mine := match s_flip g with Some h => Nat.eqb h w | None => false end in
  if fails then
    let g1 := {| s_row := s_row g; s_flip := unflip; s_lock := s_lock (drop_lock g w); s_logs := s_logs g; s_seq := s_seq g; s_hash := s_hash g;
                 s_ws := s_ws g; s_commits := s_commits g; s_ev := s_ev g |} in
    iev (iupd g1 w (finish RWErr (iw_cache s))) w LIRollback ISDone
  else
    let new := draw (s_seq g) w n 0 in
    let g1 := {| s_row := s_row g || mine; s_flip := unflip; s_lock := s_lock (drop_lock g w); s_logs := s_logs g ++ new;
                 s_seq := s_seq g + Z.of_nat n; s_hash := s_hash g; s_ws := s_ws g; s_commits := s_commits g ++ [w]; s_ev := s_ev g |} in
    iev (iupd g1 w (finish (RWOk (map lg_id new)) true)) w LICommit ISDone.

Definition istep (g : ist) (w : iwid) : ist :=
  match nth_error (s_ws g) w with
  | None => g
  | Some s =>
    match iw_op s, iw_pc s with
    | OImport n shift, ILock => do_ilock g w
    | OImport n shift, IRow => do_irow g w
    | OImport n shift, ILast => do_ilast g w n shift
    | OImport n shift, ILog k => do_ilog g w n shift k
    | OImport n shift, IUnlock => do_iunlock g w s
    | OWrite n fails, WXLock => do_xlock g w
    | OWrite n fails, WMark => do_mark g w
    | OWrite n fails, WSetTx => do_setval g w WSetLog
    | OWrite n fails, WSetLog => do_setval g w WEnd
    | OWrite n fails, WEnd => do_wend g w s n fails
    | OWrite n fails, WFast => do_wend g w s n fails
    | _, _ => g
    end
  end.

Definition irun (g : ist) (sched : list iwid) : ist := fold_left istep sched g.

(* a request goes through a facade whose cache says in-use (cached) or initializing *)
Definition new_iw (oc : iop * bool) : iw :=
  let '(o, cached) := oc in
  {| iw_op := o; iw_cache := cached; iw_res := RPending;
     iw_pc := match o with OImport _ _ => ILock | OWrite _ _ => if cached then WFast else WXLock end |}.

(* a pristine ledger, every facade resolved now (cache = initializing) *)
Definition iinit (hash : bool) (ops : list iop) : ist :=
  {| s_row := false; s_flip := None; s_lock := None; s_logs := []; s_seq := 1; s_hash := hash; s_ws := map (fun o => new_iw (o, false)) ops;
     s_commits := []; s_ev := [] |}.

Definition iresults (g : ist) : list ires := map iw_res (s_ws g).
Definition ioutcome (hash : bool) (ops : list iop) (sched : list iwid) : ist := irun (iinit hash ops) sched.
