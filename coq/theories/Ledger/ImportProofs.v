(* Proofs about Ledger/Import.v: the state tracker (C12), the hash check of an exported chain (C11), sequence resync of
   the first write through the facade (C11), refutation witnesses. *)
From Coq Require Import List ZArith String Bool Ascii Lia Sorted.
From LV Require Import Base.Util Base.Json Ledger.Types Ledger.Core Ledger.Bulk Ledger.Invariants Ledger.HashChain Ledger.Import.
Import ListNotations.
Open Scope Z_scope.

(* ---------------------------------------------------------------- byte equality *)
Lemma beqb_refl b : beqb b b = true.
Proof. induction b as [|c r IH]; [reflexivity|]. simpl. rewrite N.eqb_refl, IH. reflexivity. Qed.

(* ---------------------------------------------------------------- hash check of a chain *)
Section HashRoundtrip.
  Variable H : bytes -> bytes.
  Variable pre : option bytes -> log -> option bytes.

  Definition imp_hash_all (t : htable) (rs : list (log * bytes)) : option htable :=
    fold_left (fun acc r => match acc with Some t0 => imp_hash_insert H pre t0 r | None => None end) rs (Some t).

  Lemma imp_hash_all_none rs : fold_left (fun acc r => match acc with Some t0 => imp_hash_insert H pre t0 r | None => None end) rs None = None.
  Proof. induction rs as [|r rs IH]; [reflexivity | exact IH]. Qed.

  Lemma imp_hash_all_app t rs rs' :
    imp_hash_all t (rs ++ rs') = match imp_hash_all t rs with Some t' => imp_hash_all t' rs' | None => None end.
  Proof.
    unfold imp_hash_all. rewrite fold_left_app. destruct (fold_left _ rs (Some t)); [reflexivity | apply imp_hash_all_none].
  Qed.

  Lemma sorted_prefix (l : list Z) x : StronglySorted Z.lt (l ++ [x]) -> StronglySorted Z.lt l.
  Proof.
    induction l as [|a q IH]; intros Hs; [constructor|].
    simpl in Hs. apply StronglySorted_inv in Hs. destruct Hs as [Hs Ha]. constructor; [apply IH; exact Hs|].
    apply Forall_app in Ha. destruct Ha as [Ha _]. exact Ha.
  Qed.

  Lemma chain_inv_prefix (t : htable) r : ChainInv l_id H pre (t ++ [r]) -> ChainInv l_id H pre t.
  Proof.
    intros [Hs Hc]. split.
    - unfold ids in *. rewrite map_app in Hs. simpl in Hs. apply sorted_prefix in Hs. exact Hs.
    - destruct r as [l h]. unfold chain_ok in *. apply (chain_from_snoc l_id) in Hc. destruct Hc as [Hc _]. exact Hc.
  Qed.

  (* every hash of a table the trigger built passes the comparison of importLog, in order, starting from an empty copy:
     the copy's hash column is the source's *)
  Theorem imp_hash_roundtrip (t : htable) : ChainInv l_id H pre t -> imp_hash_all [] t = Some t.
  Proof.
    induction t as [|r t IH] using rev_ind; intros Hc; [reflexivity|].
    rewrite imp_hash_all_app, (IH (chain_inv_prefix t r Hc)).
    destruct Hc as [Hs Hc]. destruct r as [l h]. unfold chain_ok in Hc. apply (chain_from_snoc l_id) in Hc.
    destruct Hc as [Hc0 [x [Hx Hh]]].
    assert (Hs0 : StronglySorted Z.lt (ids l_id t)) by (unfold ids in *; rewrite map_app in Hs; simpl in Hs; apply sorted_prefix in Hs; exact Hs).
    unfold imp_hash_all. simpl. unfold imp_hash_insert. simpl.
    rewrite (prev_hash_sorted l_id t Hs0), Hx, Hh, beqb_refl. reflexivity.
  Qed.

  (* and a stream whose first hash was not computed from the copy's last hash is refused *)
  Lemma imp_hash_insert_sound t r t' : imp_hash_insert H pre t r = Some t' ->
    t' = t ++ [r] /\ exists x, pre (prev_hash l_id t) (fst r) = Some x /\ beqb (H x) (snd r) = true.
  Proof.
    unfold imp_hash_insert. destruct (pre (prev_hash l_id t) (fst r)) as [x|]; [|discriminate].
    destruct (beqb (H x) (snd r)) eqn:E; [|discriminate]. intros E'. inversion E'. split; [reflexivity|]. exists x. auto.
  Qed.

  (* ---------------------------------------------------------------- C12: the state tracker *)
  Lemma import_in_use f now b rs : i_l b = InUse -> imp_import H pre f now b rs = (b, Some IENotInitializing).
  Proof. intros E. unfold imp_import. rewrite E. reflexivity. Qed.

  Lemma fold_max_ge (ls : list log) : forall m, (forall x, m = Some x ->
      exists y, fold_left (fun m l => match m with Some x => Some (Z.max x (l_id l)) | None => Some (l_id l) end) ls m = Some y /\ x <= y) /\
    (forall l, In l ls -> exists y, fold_left (fun m l => match m with Some x => Some (Z.max x (l_id l)) | None => Some (l_id l) end) ls m = Some y /\ l_id l <= y).
  Proof.
    induction ls as [|a r IH]; intros m; split.
    - intros x ->. exists x. split; [reflexivity | lia].
    - intros l [].
    - intros x ->. simpl. destruct (proj1 (IH (Some (Z.max x (l_id a)))) _ eq_refl) as [y [E Hy]]. exists y. split; [exact E | lia].
    - intros l [->|Hin]; simpl.
      + destruct m as [x|].
        * destruct (proj1 (IH (Some (Z.max x (l_id l)))) _ eq_refl) as [y [E Hy]]. exists y. split; [exact E | lia].
        * destruct (proj1 (IH (Some (l_id l))) _ eq_refl) as [y [E Hy]]. exists y. split; [exact E | lia].
      + apply (proj2 (IH _)). exact Hin.
  Qed.

  Lemma last_log_id_ge s l : In l (s_logs s) -> exists y, last_log_id s = Some y /\ l_id l <= y.
  Proof. intros Hin. unfold last_log_id. apply (proj2 (fold_max_ge (s_logs s) None)). exact Hin. Qed.

  Lemma imp_loop_accepts_above f now rs : forall last st st',
    imp_loop H pre f now last st rs = (st', None) -> forall x, last = Some x -> Forall (fun r => x < l_id (fst r)) rs.
  Proof.
    induction rs as [|r rs IH]; intros last st st' E x ->; [constructor|].
    simpl in E. destruct (l_id (fst r) <=? x) eqn:C; [discriminate|]. apply Z.leb_gt in C.
    destruct (imp_one H pre f now st r) as [st1|e]; [|discriminate].
    constructor; [exact C|]. specialize (IH _ _ _ E _ eq_refl). eapply Forall_impl; [|exact IH]. simpl. intros; lia.
  Qed.

  (* accepted (no error) => the ledger was still initializing and every stored log precedes every imported one *)
  Theorem import_only_pristine f now b rs b' :
    imp_import H pre f now b rs = (b', None) ->
    i_l b = Initializing /\ forall l r, In l (s_logs (i_s b)) -> In r rs -> l_id l < l_id (fst r).
  Proof.
    unfold imp_import. destruct (i_l b) eqn:El; [|discriminate]. intros E. split; [reflexivity|].
    destruct (imp_loop H pre f now (last_log_id (i_s b)) (i_s b, i_tab b) rs) as [st' e] eqn:L. inversion E; subst; clear E.
    intros l r Hl Hr. destruct (last_log_id_ge _ _ Hl) as [y [Ey Hy]].
    pose proof (imp_loop_accepts_above f now rs _ _ _ L y Ey) as HF. rewrite Forall_forall in HF. specialize (HF r Hr). lia.
  Qed.

  (* an import never changes the tracker state; a rejected import on an in-use ledger changes nothing at all *)
  Lemma import_keeps_lstate f now b rs : i_l (fst (imp_import H pre f now b rs)) = i_l b.
  Proof.
    unfold imp_import. destruct (i_l b) eqn:E; [|exact E].
    destruct (imp_loop H pre f now (last_log_id (i_s b)) (i_s b, i_tab b) rs) as [st' e]. reflexivity.
  Qed.

  (* a committed write through the facade leaves the ledger in-use *)
  Lemma single_commit_in_use f now b o b' r : w_single H pre f now b o = (b', Some r) -> committed o r = true -> i_l b' = InUse.
  Proof.
    unfold w_single. destruct (step f now _ o) as [s' r0|]; [|discriminate]. intros E C. inversion E; subst; clear E. simpl.
    destruct (i_l b); [rewrite C|]; reflexivity.
  Qed.

  Lemma single_keeps_in_use f now b o : i_l b = InUse -> i_l (fst (w_single H pre f now b o)) = InUse.
  Proof. intros E. unfold w_single. rewrite E. destruct (step f now (i_s b) o); simpl; reflexivity. Qed.

  Lemma atomic_keeps_lstate f now b os : i_l (fst (w_atomic H pre f now b os)) = i_l b.
  Proof.
    unfold w_atomic. destruct (atomic_run f now (i_s b) false false os) as [[[s' rs] ab] er]. destruct (er || ab); reflexivity.
  Qed.

  Lemma run_seq_in_use f now (os : list op) : forall b err, i_l b = InUse ->
    i_l (fst (fst (run_seq (w_elem H pre f now) bres_ok BCancelled false b err os))) = InUse.
  Proof.
    induction os as [|o os IH]; intros b err E; [exact E|].
    simpl. destruct err; simpl.
    - specialize (IH b true E). destruct (run_seq (w_elem H pre f now) bres_ok BCancelled false b true os) as [[s' rs] e']. exact IH.
    - unfold w_elem at 1. pose proof (single_keeps_in_use f now b o E) as E1.
      destruct (w_single H pre f now b o) as [b1 r1]. simpl in E1.
      specialize (IH b1 (negb (bres_ok (BRes r1))) E1).
      destruct (run_seq (w_elem H pre f now) bres_ok BCancelled false b1 (negb (bres_ok (BRes r1))) os) as [[s' rs] e']. exact IH.
  Qed.

  Lemma bulk_keeps_in_use f now b os : i_l b = InUse -> i_l (fst (w_bulk H pre f now b os)) = InUse.
  Proof.
    intros E. unfold w_bulk, run_bulk. pose proof (run_seq_in_use f now os b false E) as G.
    destruct (run_seq (w_elem H pre f now) bres_ok BCancelled false b false os) as [[s' rs] e']. exact G.
  Qed.

  (* ---------------------------------------------------------------- C11: the first write through the facade resyncs *)
  Lemma max_id_ge {A} (key : A -> Z) (l : list A) : forall m,
    (forall x, m = Some x -> exists y, fold_left (fun m x => match m with Some y => Some (Z.max y (key x)) | None => Some (key x) end) l m = Some y /\ x <= y) /\
    (forall a, In a l -> exists y, fold_left (fun m x => match m with Some y => Some (Z.max y (key x)) | None => Some (key x) end) l m = Some y /\ key a <= y).
  Proof.
    induction l as [|a r IH]; intros m; split.
    - intros x ->. exists x. split; [reflexivity | lia].
    - intros a [].
    - intros x ->. simpl. destruct (proj1 (IH (Some (Z.max x (key a)))) _ eq_refl) as [y [E Hy]]. exists y. split; [exact E | lia].
    - intros a0 [->|Hin]; simpl.
      + destruct m as [x|].
        * destruct (proj1 (IH (Some (Z.max x (key a0)))) _ eq_refl) as [y [E Hy]]. exists y. split; [exact E | lia].
        * destruct (proj1 (IH (Some (key a0))) _ eq_refl) as [y [E Hy]]. exists y. split; [exact E | lia].
      + apply (proj2 (IH _)). exact Hin.
  Qed.

  (* after the resync both sequences are above every stored id *)
  Lemma resync_above s :
    (forall t, In t (s_txs s) -> t_id t < s_next_tx (resync s)) /\ (forall l, In l (s_logs s) -> l_id l < s_next_log (resync s)).
  Proof.
    split.
    - intros t Hin. unfold resync, max_id; simpl. destruct (proj2 (max_id_ge t_id (s_txs s) None) t Hin) as [y [E Hy]]. rewrite E. lia.
    - intros l Hin. unfold resync, max_id; simpl. destruct (proj2 (max_id_ge l_id (s_logs s) None) l Hin) as [y [E Hy]]. rewrite E. lia.
  Qed.

  (* the log a committed first write appends carries an id above every imported log id, and the ledger becomes in-use *)
  Theorem single_after_import_fresh_log f now b o b' lid tid :
    i_l b = Initializing -> o_dry o = false -> w_single H pre f now b o = (b', Some (ROk lid tid false)) ->
    i_l b' = InUse /\ (forall l, In l (s_logs (i_s b)) -> l_id l < lid) /\
    exists l, s_logs (i_s b') = s_logs (i_s b) ++ [l] /\ l_id l = lid.
  Proof.
    intros El Hd E. unfold w_single in E. rewrite El in E.
    destruct (step f now (resync (i_s b)) o) as [s' r|] eqn:S; [|discriminate]. inversion E; subst; clear E. simpl.
    unfold committed. rewrite Hd. split; [reflexivity|].
    destruct (step_commit_one_log f now (resync (i_s b)) o s' lid tid Hd S) as [l (A & B0 & _ & _ & _ & _ & C & _)].
    split.
    - intros l0 Hin. rewrite C. apply (proj2 (resync_above (i_s b))). exact Hin.
    - exists l. split; [exact A | exact B0].
  Qed.
End HashRoundtrip.
