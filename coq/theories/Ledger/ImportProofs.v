(* Proofs about Ledger/Import.v: the state tracker (C12), the hash check of an exported chain (C11), sequence resync of
   the first write through the facade (C11), refutation witnesses. *)
From Coq Require Import List ZArith String Bool Ascii Lia Sorted.
From LV Require Import Base.Util Base.Json Ledger.Types Ledger.Core Ledger.Bulk Ledger.Invariants Ledger.HashChain Ledger.Import.
Import ListNotations.
Open Scope Z_scope.

(* ---------------------------------------------------------------- byte equality *)
Lemma beqb_refl b : beqb b b = true.
Proof. induction b as [|c r IH]; [reflexivity|]. simpl. rewrite N.eqb_refl, IH. reflexivity. Qed.

(* ---------------------------------------------------------------- hash check of a chain *)
Section HashRoundtrip.
  Variable H : bytes -> bytes.
  Variable pre : option bytes -> log -> option bytes.

  Definition imp_hash_all (t : htable) (rs : list (log * bytes)) : option htable :=
    fold_left (fun acc r => match acc with Some t0 => imp_hash_insert H pre t0 r | None => None end) rs (Some t).

  Lemma imp_hash_all_none rs : fold_left (fun acc r => match acc with Some t0 => imp_hash_insert H pre t0 r | None => None end) rs None = None.
  Proof. induction rs as [|r rs IH]; [reflexivity | exact IH]. Qed.

  Lemma imp_hash_all_app t rs rs' :
    imp_hash_all t (rs ++ rs') = match imp_hash_all t rs with Some t' => imp_hash_all t' rs' | None => None end.
  Proof.
    unfold imp_hash_all. rewrite fold_left_app. destruct (fold_left _ rs (Some t)); [reflexivity | apply imp_hash_all_none].
  Qed.

  Lemma sorted_prefix (l : list Z) x : StronglySorted Z.lt (l ++ [x]) -> StronglySorted Z.lt l.
  Proof.
    induction l as [|a q IH]; intros Hs; [constructor|].
    simpl in Hs. apply StronglySorted_inv in Hs. destruct Hs as [Hs Ha]. constructor; [apply IH; exact Hs|].
    apply Forall_app in Ha. destruct Ha as [Ha _]. exact Ha.
  Qed.

  Lemma chain_inv_prefix (t : htable) r : ChainInv l_id H pre (t ++ [r]) -> ChainInv l_id H pre t.
  Proof.
    intros [Hs Hc]. split.
    - unfold ids in *. rewrite map_app in Hs. simpl in Hs. apply sorted_prefix in Hs. exact Hs.
    - destruct r as [l h]. unfold chain_ok in *. apply (chain_from_snoc l_id) in Hc. destruct Hc as [Hc _]. exact Hc.
  Qed.

  (* every hash of a table the trigger built passes the comparison of importLog, in order, starting from an empty copy:
     the copy's hash column is the source's *)
  Theorem imp_hash_roundtrip (t : htable) : ChainInv l_id H pre t -> imp_hash_all [] t = Some t.
  Proof.
    induction t as [|r t IH] using rev_ind; intros Hc; [reflexivity|].
    rewrite imp_hash_all_app, (IH (chain_inv_prefix t r Hc)).
    destruct Hc as [Hs Hc]. destruct r as [l h]. unfold chain_ok in Hc. apply (chain_from_snoc l_id) in Hc.
    destruct Hc as [Hc0 [x [Hx Hh]]].
    assert (Hs0 : StronglySorted Z.lt (ids l_id t)) by (unfold ids in *; rewrite map_app in Hs; simpl in Hs; apply sorted_prefix in Hs; exact Hs).
    unfold imp_hash_all. simpl. unfold imp_hash_insert. simpl.
    rewrite (prev_hash_sorted l_id t Hs0), Hx, Hh, beqb_refl. reflexivity.
  Qed.

  (* and a stream whose first hash was not computed from the copy's last hash is refused *)
  Lemma imp_hash_insert_sound t r t' : imp_hash_insert H pre t r = Some t' ->
    t' = t ++ [r] /\ exists x, pre (prev_hash l_id t) (fst r) = Some x /\ beqb (H x) (snd r) = true.
  Proof.
    unfold imp_hash_insert. destruct (pre (prev_hash l_id t) (fst r)) as [x|]; [|discriminate].
    destruct (beqb (H x) (snd r)) eqn:E; [|discriminate]. intros E'. inversion E'. split; [reflexivity|]. exists x. auto.
  Qed.

  (* ---------------------------------------------------------------- C12: the state tracker *)
  Lemma import_in_use f now b rs : i_l b = InUse -> imp_import H pre f now b rs = (with_cache b InUse, Some IENotInitializing).
  Proof. intros E. unfold imp_import. rewrite E. reflexivity. Qed.

  (* the ROW decides, whatever the facade had cached (a facade built before the first write still holds `initializing`) *)
  Lemma import_row_decides f now b c0 rs : i_l b = InUse ->
    imp_import H pre f now (with_cache b c0) rs = (with_cache b InUse, Some IENotInitializing).
  Proof. intros E. unfold imp_import, with_cache. cbn [i_l]. rewrite E. reflexivity. Qed.

  (* coherence (the cache never runs ahead of the row) is kept by every request *)
  Lemma coherent_init : coherent i_init.
  Proof. intros D; discriminate D. Qed.

  Lemma import_coherent f now b rs : coherent (fst (imp_import H pre f now b rs)).
  Proof.
    unfold imp_import, coherent. destruct (i_l b) eqn:E.
    - destruct (imp_loop H pre f now (last_log_id (i_s b)) (i_s b, i_tab b) rs) as [st' e]. cbn. intros D; discriminate D.
    - cbn. intros _. exact E.
  Qed.

  Lemma single_coherent f now b o : coherent b -> coherent (fst (w_single H pre f now b o)).
  Proof.
    unfold w_single, coherent. intros C. destruct (step f now _ o) as [s' r|]; cbn [fst i_l i_c]; [|exact C].
    destruct (i_c b) eqn:Ec; [|intros _; exact (C eq_refl)]. destruct (committed o r); [reflexivity | intros D; discriminate D].
  Qed.

  Lemma atomic_coherent f now b os : coherent b -> coherent (fst (w_atomic H pre f now b os)).
  Proof.
    unfold w_atomic, coherent. intros C. destruct (atomic_run f now _ false false os) as [[[s' rs] ab] er].
    destruct (er || ab); cbn [fst i_l i_c]; [exact C|]. destruct (i_c b); [intros D; discriminate D | exact C].
  Qed.

  Lemma fold_max_ge (ls : list log) : forall m, (forall x, m = Some x ->
      exists y, fold_left (fun m l => match m with Some x => Some (Z.max x (l_id l)) | None => Some (l_id l) end) ls m = Some y /\ x <= y) /\
    (forall l, In l ls -> exists y, fold_left (fun m l => match m with Some x => Some (Z.max x (l_id l)) | None => Some (l_id l) end) ls m = Some y /\ l_id l <= y).
  Proof.
    induction ls as [|a r IH]; intros m; split.
    - intros x ->. exists x. split; [reflexivity | lia].
    - intros l [].
    - intros x ->. simpl. destruct (proj1 (IH (Some (Z.max x (l_id a)))) _ eq_refl) as [y [E Hy]]. exists y. split; [exact E | lia].
    - intros l [->|Hin]; simpl.
      + destruct m as [x|].
        * destruct (proj1 (IH (Some (Z.max x (l_id l)))) _ eq_refl) as [y [E Hy]]. exists y. split; [exact E | lia].
        * destruct (proj1 (IH (Some (l_id l))) _ eq_refl) as [y [E Hy]]. exists y. split; [exact E | lia].
      + apply (proj2 (IH _)). exact Hin.
  Qed.

  Lemma last_log_id_ge s l : In l (s_logs s) -> exists y, last_log_id s = Some y /\ l_id l <= y.
  Proof. intros Hin. unfold last_log_id. apply (proj2 (fold_max_ge (s_logs s) None)). exact Hin. Qed.

  Lemma imp_loop_accepts_above f now rs : forall last st st',
    imp_loop H pre f now last st rs = (st', None) -> forall x, last = Some x -> Forall (fun r => x < l_id (fst r)) rs.
  Proof.
    induction rs as [|r rs IH]; intros last st st' E x ->; [constructor|].
    simpl in E. destruct (l_id (fst r) <=? x) eqn:C; [discriminate|]. apply Z.leb_gt in C.
    destruct (imp_one H pre f now st r) as [st1|e]; [|discriminate].
    constructor; [exact C|]. specialize (IH _ _ _ E _ eq_refl). eapply Forall_impl; [|exact IH]. simpl. intros; lia.
  Qed.

  (* accepted (no error) => the ledger was still initializing and every stored log precedes every imported one *)
  Theorem import_only_pristine f now b rs b' :
    imp_import H pre f now b rs = (b', None) ->
    i_l b = Initializing /\ forall l r, In l (s_logs (i_s b)) -> In r rs -> l_id l < l_id (fst r).
  Proof.
    unfold imp_import. destruct (i_l b) eqn:El; [|discriminate]. intros E. split; [reflexivity|].
    destruct (imp_loop H pre f now (last_log_id (i_s b)) (i_s b, i_tab b) rs) as [st' e] eqn:L. inversion E; subst; clear E.
    intros l r Hl Hr. destruct (last_log_id_ge _ _ Hl) as [y [Ey Hy]].
    pose proof (imp_loop_accepts_above f now rs _ _ _ L y Ey) as HF. rewrite Forall_forall in HF. specialize (HF r Hr). lia.
  Qed.

  (* an import never changes the tracker state; a rejected import on an in-use ledger changes nothing at all *)
  Lemma import_keeps_lstate f now b rs : i_l (fst (imp_import H pre f now b rs)) = i_l b.
  Proof.
    unfold imp_import. destruct (i_l b) eqn:E; [|exact E].
    destruct (imp_loop H pre f now (last_log_id (i_s b)) (i_s b, i_tab b) rs) as [st' e]. reflexivity.
  Qed.

  (* a committed write through the facade leaves the ledger in-use *)
  Lemma single_commit_in_use f now b o b' r : coherent b -> w_single H pre f now b o = (b', Some r) -> committed o r = true -> i_l b' = InUse.
  Proof.
    unfold w_single. intros Co. destruct (step f now _ o) as [s' r0|]; [|discriminate]. intros E C. inversion E; subst; clear E. cbn [i_l].
    destruct (i_c b) eqn:Ec; [rewrite C; reflexivity | exact (Co Ec)].
  Qed.

  Lemma single_keeps_in_use f now b o : i_l b = InUse -> i_l (fst (w_single H pre f now b o)) = InUse.
  Proof.
    intros E. unfold w_single. destruct (step f now _ o) as [s' r|]; cbn [fst i_l]; [|exact E].
    destruct (match i_c b with Initializing => committed o r | InUse => false end); [reflexivity | exact E].
  Qed.

  Lemma atomic_unrepaired_keeps_lstate f now b os : i_l (fst (w_atomic_unrepaired H pre f now b os)) = i_l b.
  Proof.
    unfold w_atomic_unrepaired. destruct (atomic_run f now (i_s b) false false os) as [[[s' rs] ab] er]. destruct (er || ab); reflexivity.
  Qed.

  Lemma atomic_keeps_in_use f now b os : i_l b = InUse -> i_l (fst (w_atomic H pre f now b os)) = InUse.
  Proof.
    intros E. unfold w_atomic. destruct (atomic_run f now _ false false os) as [[[s' rs] ab] er]. destruct (er || ab); cbn [fst i_l]; [exact E|].
    destruct (i_c b); [reflexivity | exact E].
  Qed.

  (* since the repair: an atomic bulk either commits, and the ledger is in-use, or has no effect on tables, hashes, state *)
  Lemma atomic_flips_or_no_effect f now b os b' out : coherent b -> w_atomic H pre f now b os = (b', out) ->
    i_l b' = InUse \/ (i_l b' = i_l b /\ tables (i_s b') = tables (i_s b) /\ i_tab b' = i_tab b).
  Proof.
    unfold w_atomic. intros Co. destruct (atomic_run f now _ false false os) as [[[s' rs] ab] er]. destruct (er || ab); intros E; inversion E; subst.
    - right. repeat split; reflexivity.
    - left. cbn [i_l]. destruct (i_c b) eqn:Ec; [reflexivity | exact (Co Ec)].
  Qed.

  Lemma run_seq_in_use f now (os : list op) : forall b err, i_l b = InUse ->
    i_l (fst (fst (run_seq (w_elem H pre f now) bres_ok BCancelled false b err os))) = InUse.
  Proof.
    induction os as [|o os IH]; intros b err E; [exact E|].
    simpl. destruct err; simpl.
    - specialize (IH b true E). destruct (run_seq (w_elem H pre f now) bres_ok BCancelled false b true os) as [[s' rs] e']. exact IH.
    - unfold w_elem at 1. pose proof (single_keeps_in_use f now b o E) as E1.
      destruct (w_single H pre f now b o) as [b1 r1]. simpl in E1.
      specialize (IH b1 (negb (bres_ok (BRes r1))) E1).
      destruct (run_seq (w_elem H pre f now) bres_ok BCancelled false b1 (negb (bres_ok (BRes r1))) os) as [[s' rs] e']. exact IH.
  Qed.

  Lemma bulk_keeps_in_use f now b os : i_l b = InUse -> i_l (fst (w_bulk H pre f now b os)) = InUse.
  Proof.
    intros E. unfold w_bulk, run_bulk. pose proof (run_seq_in_use f now os b false E) as G.
    destruct (run_seq (w_elem H pre f now) bres_ok BCancelled false b false os) as [[s' rs] e']. exact G.
  Qed.

  (* ---------------------------------------------------------------- C11: the first write through the facade resyncs *)
  Lemma max_id_ge {A} (key : A -> Z) (l : list A) : forall m,
    (forall x, m = Some x -> exists y, fold_left (fun m x => match m with Some y => Some (Z.max y (key x)) | None => Some (key x) end) l m = Some y /\ x <= y) /\
    (forall a, In a l -> exists y, fold_left (fun m x => match m with Some y => Some (Z.max y (key x)) | None => Some (key x) end) l m = Some y /\ key a <= y).
  Proof.
    induction l as [|a r IH]; intros m; split.
    - intros x ->. exists x. split; [reflexivity | lia].
    - intros a [].
    - intros x ->. simpl. destruct (proj1 (IH (Some (Z.max x (key a)))) _ eq_refl) as [y [E Hy]]. exists y. split; [exact E | lia].
    - intros a0 [->|Hin]; simpl.
      + destruct m as [x|].
        * destruct (proj1 (IH (Some (Z.max x (key a0)))) _ eq_refl) as [y [E Hy]]. exists y. split; [exact E | lia].
        * destruct (proj1 (IH (Some (key a0))) _ eq_refl) as [y [E Hy]]. exists y. split; [exact E | lia].
      + apply (proj2 (IH _)). exact Hin.
  Qed.

  (* after the resync both sequences are above every stored id *)
  Lemma resync_above s :
    (forall t, In t (s_txs s) -> t_id t < s_next_tx (resync s)) /\ (forall l, In l (s_logs s) -> l_id l < s_next_log (resync s)).
  Proof.
    split.
    - intros t Hin. unfold resync, max_id; simpl. destruct (proj2 (max_id_ge t_id (s_txs s) None) t Hin) as [y [E Hy]]. rewrite E. lia.
    - intros l Hin. unfold resync, max_id; simpl. destruct (proj2 (max_id_ge l_id (s_logs s) None) l Hin) as [y [E Hy]]. rewrite E. lia.
  Qed.

  (* the log a committed first write appends carries an id above every imported log id, and the ledger becomes in-use *)
  Lemma coherent_initializing b : coherent b -> i_l b = Initializing -> i_c b = Initializing.
  Proof. unfold coherent. intros C E. destruct (i_c b); [reflexivity|]. rewrite (C eq_refl) in E. discriminate E. Qed.

  Theorem single_after_import_fresh_log f now b o b' lid tid :
    coherent b -> i_l b = Initializing -> o_dry o = false -> w_single H pre f now b o = (b', Some (ROk lid tid false)) ->
    i_l b' = InUse /\ (forall l, In l (s_logs (i_s b)) -> l_id l < lid) /\
    exists l, s_logs (i_s b') = s_logs (i_s b) ++ [l] /\ l_id l = lid.
  Proof.
    intros Co El Hd E. unfold w_single in E. rewrite El, (coherent_initializing b Co El) in E.
    destruct (step f now (resync (i_s b)) o) as [s' r|] eqn:S; [|discriminate]. inversion E; subst; clear E. cbn [i_l i_s].
    unfold committed. rewrite Hd. split; [reflexivity|].
    destruct (step_commit_one_log f now (resync (i_s b)) o s' lid tid Hd S) as [l (A & B0 & _ & _ & _ & _ & C & _)].
    split.
    - intros l0 Hin. rewrite C. apply (proj2 (resync_above (i_s b))). exact Hin.
    - exists l. split; [exact A | exact B0].
  Qed.
  (* ---------------------------------------------------------------- ids of the first write: exactly max + 1 *)
  Lemma step_tx_id f now s o s' lid t : step f now s o = SR s' (ROk lid (Some t) false) -> t = s_next_tx s.
  Proof.
    unfold step. destruct (find_ik (s_logs s) (o_ik o)) as [l0|].
    - destruct (input_eq_dec (l_input l0) (o_in o)); intros E; inversion E.
    - destruct (run_input f now s (o_in o)) as [s1 p|s1 e1|] eqn:R; [| |discriminate].
      + assert (G : payload_tx_id p = Some t -> t = s_next_tx s).
        { clear - R. revert s1 p R. generalize (o_in o). intros i. script_split i.
          { intros s1 p R. simpl in R. unfold create_tx in R. destruct ps as [|q ps']; [discriminate|].
            destruct (feasible force (s_vols s) (q :: ps')); simpl in R; [|discriminate].
            destruct (commit_transaction f now s (q :: ps') md ts ref) as [s0 [t0|]] eqn:E; [|discriminate].
            inversion R; subst. simpl. intros X; inversion X; subst. apply commit_some in E. tauto. }
          destruct i as [ps ts ref md amd force | id force at_eff rmeta | [a|id] md | [a|id] k | ps ts ref md amd force smd samd];
            [apply Hc | | | | | | script_bullet Hc]; intros s1 p R; simpl in R.
          - destruct (find_tx (s_txs s) id) as [t0|]; [|discriminate]. destruct (t_rev t0); [discriminate|].
            match type of R with context [match ?chk with RCOk => _ | RCInsufficient => _ | RCPanic => _ end] => destruct chk end; try discriminate.
            match type of R with context [commit_transaction ?a ?b ?c0 ?d ?e ?g ?h] => destruct (commit_transaction a b c0 d e g h) as [s2 [r|]] eqn:E end; [|discriminate].
            inversion R; subst. simpl. intros X; inversion X; subst. apply commit_some in E. destruct E as (_ & _ & E & _). exact E.
          - inversion R; subst. discriminate.
          - destruct (find_tx (s_txs s) id) as [t0|]; [|discriminate]. destruct (mcontains (t_meta t0) md); inversion R; subst; discriminate.
          - destruct (find_account (s_accounts s) a); inversion R; subst; discriminate.
          - destruct (find_tx (s_txs s) id) as [t0|]; [|discriminate]. destruct (mget (t_meta t0) k); [|discriminate]. inversion R; subst. discriminate. }
        destruct (o_dry o); intros E; inversion E; subst; apply G; assumption.
      + intros E; inversion E.
  Qed.

  Theorem single_after_import_next_ids f now b o b' lid tid :
    coherent b -> i_l b = Initializing -> o_dry o = false -> w_single H pre f now b o = (b', Some (ROk lid tid false)) ->
    (forall m, max_id l_id (s_logs (i_s b)) = Some m -> lid = m + 1) /\
    (forall t m, tid = Some t -> max_id t_id (s_txs (i_s b)) = Some m -> t = m + 1).
  Proof.
    intros Co El Hd E. unfold w_single in E. rewrite El, (coherent_initializing b Co El) in E.
    destruct (step f now (resync (i_s b)) o) as [s' r|] eqn:S; [|discriminate]. inversion E; subst; clear E.
    split.
    - intros m Em. destruct (step_commit_one_log f now (resync (i_s b)) o s' lid tid Hd S) as [l (_ & _ & _ & _ & _ & _ & C & _)].
      rewrite C. unfold resync. cbn [s_next_log]. rewrite Em. reflexivity.
    - intros t m -> Em. rewrite (step_tx_id f now _ o s' lid t S). unfold resync. cbn [s_next_tx]. rewrite Em. reflexivity.
  Qed.

  (* ---------------------------------------------------------------- C12: a non-atomic bulk with an accepted element *)
  Lemma run_seq_commit_in_use f now (os : list op) : forall b err b' rs e',
    coherent b -> Forall (fun o => o_dry o = false) os ->
    run_seq (w_elem H pre f now) bres_ok BCancelled false b err os = (b', rs, e') ->
    (exists lid tid hit, In (BRes (Some (ROk lid tid hit))) rs) -> i_l b' = InUse.
  Proof.
    induction os as [|o os IH]; intros b err b' rs e' Co Hd E [lid [tid [hit Hin]]].
    - simpl in E. inversion E; subst. destruct Hin.
    - inversion Hd as [|? ? Ho Hd']; subst. simpl in E. destruct err; simpl in E.
      + destruct (run_seq (w_elem H pre f now) bres_ok BCancelled false b true os) as [[s1 rs1] e1] eqn:R. inversion E; subst.
        destruct Hin as [D|Hin]; [discriminate D|]. eapply IH; [exact Co | exact Hd' | exact R | do 3 eexists; exact Hin].
      + unfold w_elem at 1 in E. destruct (w_single H pre f now b o) as [b1 r1] eqn:W.
        destruct (run_seq (w_elem H pre f now) bres_ok BCancelled false b1 (negb (bres_ok (BRes r1))) os) as [[s1 rs1] e1] eqn:R. inversion E; subst.
        destruct Hin as [D|Hin].
        * inversion D; subst. assert (I1 : i_l b1 = InUse).
          { eapply single_commit_in_use; [exact Co | exact W|]. unfold committed. rewrite Ho. reflexivity. }
          pose proof (run_seq_in_use f now os b1 (negb (bres_ok (BRes (Some (ROk lid tid hit))))) I1) as G. rewrite R in G. exact G.
        * eapply IH; [|exact Hd' | exact R | do 3 eexists; exact Hin].
          pose proof (single_coherent f now b o Co) as Co1. rewrite W in Co1. exact Co1.
  Qed.

  Theorem bulk_commit_then_import_rejected f now b os b' rs now' rs' :
    coherent b -> Forall (fun o => o_dry o = false) os -> w_bulk H pre f now b os = (b', rs) ->
    (exists lid tid hit, In (BRes (Some (ROk lid tid hit))) rs) ->
    imp_import H pre f now' b' rs' = (with_cache b' InUse, Some IENotInitializing).
  Proof.
    intros Co Hd E Hin. apply import_in_use. unfold w_bulk, run_bulk in E.
    destruct (run_seq (w_elem H pre f now) bres_ok BCancelled false b false os) as [[s1 rs1] e1] eqn:R. simpl in E. inversion E; subst.
    eapply run_seq_commit_in_use; [exact Co | exact Hd | exact R | exact Hin].
  Qed.
  (* ---------------------------------------------------------------- since the repair: an atomic bulk of one element on the
     still-initializing copy IS the facade write of that element (same state, same hash column, in-use, same ids) *)
  Theorem atomic_single_element f now b o s' lid tid :
    coherent b -> i_l b = Initializing -> o_dry o = false -> step f now (resync (i_s b)) o = SR s' (ROk lid tid false) ->
    w_atomic H pre f now b [o] = (with_cache (fst (w_single H pre f now b o)) Initializing, AResults [ARes (BRes (Some (ROk lid tid false)))]).
  Proof.
    intros Co El Hd S. unfold w_atomic, w_single. rewrite El, (coherent_initializing b Co El). cbn [atomic_run]. rewrite S.
    destruct (step_commit_one_log f now (resync (i_s b)) o s' lid tid Hd S) as [l (_ & _ & _ & _ & _ & _ & C & _)].
    assert (Htx : tx_collides (resync (i_s b)) (ROk lid tid false) = false).
    { unfold tx_collides. destruct tid as [t|]; [|reflexivity]. rewrite (step_tx_id f now _ o s' lid t S).
      unfold id_taken. destruct (existsb _ _) eqn:X; [|reflexivity]. apply existsb_exists in X. destruct X as [x [Hin Hx]].
      apply Z.eqb_eq in Hx. pose proof (proj1 (resync_above (i_s b)) x Hin) as Hlt. exfalso. lia. }
    assert (Hlg : log_collides (resync (i_s b)) (ROk lid tid false) = false).
    { unfold log_collides. destruct (existsb _ _) eqn:X; [|reflexivity]. apply existsb_exists in X. destruct X as [x [Hin Hx]].
      apply Z.eqb_eq in Hx. pose proof (proj2 (resync_above (i_s b)) x Hin) as Hlt. rewrite C in Hx. exfalso. lia. }
    rewrite Htx, Hlg. cbn. unfold committed. rewrite Hd. reflexivity.
  Qed.
End HashRoundtrip.
