(* C20 — list filters.  Three things live here (definitions only; proofs are in FilterProofs.v):

   1. the filter AST and the REFERENCE meaning  [flt_sat R f e : bool]  of a filter on an entity, written
      directly from the documented meaning (addresses: exact `a:b`, partial `a::c` — an empty segment is a
      wildcard and the number of segments is fixed —, prefix `a:...` — the sub-tree rooted at `a`, root
      included —; `$in`; `metadata[k]` match, `metadata` exists; `balance[ASSET]` / bare `balance` (any asset);
      dates; `reverted`; `reference`; source / destination / account on transactions);
   2. [flt_emit R f : sqlcond]: the mirror of  ResolveFilter (internal/storage/ledger/resource_*.go,
      utils.go:filterAccountAddress, transactions.go:filterAccountAddressOnTransactions) + query.Builder.Build
      (go-libs pkg/query/expression.go), producing a small SQL-condition AST, and [flt_validate] the mirror of
      common/resource.go:validateFilters (+ the errors ResolveFilter itself produces);
   3. [flt_eval : sqlcond -> frow -> option tri]: SQL three-valued evaluation of that AST on one dataset row
      ([None] = the statement fails: "more than one row returned by a subquery used as an expression").

   Timestamps are microseconds (Z); amounts are Z; jsonb objects with string values are association lists. *)
From Coq Require Import List ZArith String Ascii Bool Lia.
Import ListNotations.
Open Scope Z_scope.

(* ------------------------------------------------------------------ filter AST *)
Inductive fresource := RTx | RAcc | RVol | RAgg | RLog.
Inductive fop := OMatch | OLt | OGt | OLte | OGte | OLike | OIn | OExists.
Inductive fkey :=
| KAddress | KAccount | KSource | KDestination
| KId | KReference | KTimestamp | KInsertedAt | KUpdatedAt | KRevertedAt | KReverted
| KMeta (k : string)          (* metadata[k] *)
| KMetadata                   (* metadata    (with $exists) *)
| KBalance (asset : string)   (* balance[ASSET] *)
| KBalanceAny                 (* balance *)
| KFirstUsage | KInsertionDate | KDate | KType.
Inductive fval := VStr (s : string) | VInt (z : Z) | VTime (t : Z) | VBool (b : bool) | VStrs (l : list string).

Inductive filter :=
| FLeaf (o : fop) (k : fkey) (v : fval)
| FAnd (l : list filter)
| FOr (l : list filter)
| FNot (f : filter).

Definition FMatch := FLeaf OMatch.
Definition FLt := FLeaf OLt.
Definition FGt := FLeaf OGt.
Definition FLte := FLeaf OLte.
Definition FGte := FLeaf OGte.
Definition FLike := FLeaf OLike.
Definition FIn := FLeaf OIn.
Definition FExists := FLeaf OExists.

(* ------------------------------------------------------------------ entities (what the read API returns) *)
Definition fmeta := list (string * string).
Record tx_ent := mkTx {
  ft_id : Z; ft_reference : option string; ft_timestamp : Z; ft_inserted_at : Z; ft_updated_at : Z;
  ft_reverted_at : option Z; ft_metadata : fmeta; ft_sources : list string; ft_destinations : list string }.
Record acc_ent := mkAcc {
  fa_address : string; fa_metadata : fmeta; fa_first_usage : Z; fa_insertion_date : Z; fa_updated_at : Z;
  fa_balances : list (string * Z) }.                    (* one entry per asset the account has volumes for *)
Record vol_ent := mkVol {
  fv_account : string; fv_asset : string; fv_input : Z; fv_output : Z; fv_metadata : fmeta; fv_first_usage : Z }.
Record log_ent := mkLog { fl_id : Z; fl_date : Z; fl_type : string }.
Inductive fentity := ETx (t : tx_ent) | EAcc (a : acc_ent) | EVol (v : vol_ent) | ELog (l : log_ent).
Definition fv_balance (v : vol_ent) : Z := fv_input v - fv_output v.

(* ------------------------------------------------------------------ strings, addresses *)
Definition colon : ascii := ":"%char.
(* strings.Split(s, ":") *)
Fixpoint segs (s : string) : list string :=
  match s with
  | EmptyString => [EmptyString]
  | String c r => if Ascii.eqb c colon then EmptyString :: segs r
                  else match segs r with h :: t => String c h :: t | [] => [String c EmptyString] end
  end.

Fixpoint slookup {A} (k : string) (m : list (string * A)) : option A :=
  match m with [] => None | (k', v) :: r => if String.eqb k k' then Some v else slookup k r end.
Definition smem (s : string) (l : list string) : bool := existsb (String.eqb s) l.

Definition dots : string := "..."%string.
Definition is_prefix_pat (ps : list string) : bool := String.eqb (last ps EmptyString) dots.
(* utils.go:isPartialAddress *)
Definition is_partial (p : string) : bool := let ps := segs p in existsb (String.eqb EmptyString) ps || is_prefix_pat ps.

(* REFERENCE: pattern segments against address segments; an empty pattern segment matches any segment,
   a non-empty one requires that very segment at that position *)
Fixpoint segs_agree (ps adr : list string) : bool :=
  match ps with
  | [] => true
  | p :: ps' =>
    match adr with
    | [] => String.eqb p EmptyString && segs_agree ps' []
    | a :: adr' => (String.eqb p EmptyString || String.eqb p a) && segs_agree ps' adr'
    end
  end.
Definition addr_match (p a : string) : bool :=
  let ps := segs p in let adr := segs a in
  if is_partial p then
    if is_prefix_pat ps then segs_agree (removelast ps) adr
    else Nat.eqb (List.length ps) (List.length adr) && segs_agree ps adr
  else String.eqb p a.

(* SQL LIKE on the fragment the generator uses: % and _ (no escape character) *)
Fixpoint like_match (p : string) : string -> bool :=
  match p with
  | EmptyString => fun s => match s with EmptyString => true | _ => false end
  | String c p' =>
    if Ascii.eqb c "%"%char then
      (fix any (s : string) : bool :=
         like_match p' s || match s with EmptyString => false | String _ s' => any s' end)
    else if Ascii.eqb c "_"%char then fun s => match s with String _ s' => like_match p' s' | EmptyString => false end
    else fun s => match s with String d s' => Ascii.eqb c d && like_match p' s' | EmptyString => false end
  end.

Inductive cmp := CEq | CLt | CGt | CLe | CGe.
Definition cmp_of (o : fop) : option cmp :=
  match o with OMatch => Some CEq | OLt => Some CLt | OGt => Some CGt | OLte => Some CLe | OGte => Some CGe | _ => None end.
Definition zcmp (c : cmp) (a b : Z) : bool :=
  match c with CEq => Z.eqb a b | CLt => Z.ltb a b | CGt => Z.gtb a b | CLe => Z.leb a b | CGe => Z.geb a b end.

(* ------------------------------------------------------------------ REFERENCE meaning of a leaf *)
Definition sat_num (o : fop) (x : Z) (v : fval) : bool :=
  match cmp_of o, v with Some c, VInt z => zcmp c x z | _, _ => false end.
Definition sat_time (o : fop) (x : Z) (v : fval) : bool :=
  match cmp_of o, v with Some c, VTime z => zcmp c x z | _, _ => false end.
Definition sat_time_opt (o : fop) (x : option Z) (v : fval) : bool :=
  match x with Some t => sat_time o t v | None => false end.
(* an address-valued field holding the addresses [xs] (one for accounts/volumes, several for a transaction) *)
Definition sat_addr (o : fop) (xs : list string) (v : fval) : bool :=
  match o, v with
  | OMatch, VStr p | OLike, VStr p => existsb (addr_match p) xs
  | OIn, VStrs l => existsb (fun a => smem a l) xs
  | _, _ => false
  end.
Definition sat_str (o : fop) (x : option string) (v : fval) : bool :=
  match x with
  | None => false
  | Some s => match o, v with
              | OMatch, VStr p => String.eqb s p
              | OLike, VStr p => like_match p s
              | OIn, VStrs l => smem s l
              | _, _ => false
              end
  end.
Definition sat_meta (o : fop) (k : string) (m : fmeta) (v : fval) : bool :=
  match o, v with
  | OIn, VStrs l => match slookup k m with Some x => smem x l | None => false end
  | OIn, _ => false
  | _, VStr s => match slookup k m with Some x => String.eqb x s | None => false end
  | _, _ => false
  end.
Definition sat_meta_exists (m : fmeta) (v : fval) : bool :=
  match v with VStr k => match slookup k m with Some _ => true | None => false end | _ => false end.

Definition sat_leaf_tx (o : fop) (k : fkey) (v : fval) (t : tx_ent) : bool :=
  match k with
  | KId => sat_num o (ft_id t) v
  | KReference => sat_str o (ft_reference t) v
  | KTimestamp => sat_time o (ft_timestamp t) v
  | KInsertedAt => sat_time o (ft_inserted_at t) v
  | KUpdatedAt => sat_time o (ft_updated_at t) v
  | KRevertedAt => sat_time_opt o (ft_reverted_at t) v
  | KReverted => match v with
                 | VBool b => Bool.eqb (match ft_reverted_at t with Some _ => true | None => false end) b
                 | _ => false end
  | KAccount => sat_addr o (ft_sources t ++ ft_destinations t) v
  | KSource => sat_addr o (ft_sources t) v
  | KDestination => sat_addr o (ft_destinations t) v
  | KMeta key => sat_meta o key (ft_metadata t) v
  | KMetadata => sat_meta_exists (ft_metadata t) v
  | _ => false
  end.
Definition sat_leaf_acc (o : fop) (k : fkey) (v : fval) (a : acc_ent) : bool :=
  match k with
  | KAddress | KAccount => sat_addr o [fa_address a] v
  | KFirstUsage => sat_time o (fa_first_usage a) v
  | KInsertionDate => sat_time o (fa_insertion_date a) v
  | KUpdatedAt => sat_time o (fa_updated_at a) v
  | KBalance asset => match slookup asset (fa_balances a) with Some b => sat_num o b v | None => false end
  | KBalanceAny => existsb (fun ab => sat_num o (snd ab) v) (fa_balances a)
  | KMeta key => sat_meta o key (fa_metadata a) v
  | KMetadata => sat_meta_exists (fa_metadata a) v
  | _ => false
  end.
Definition sat_leaf_vol (o : fop) (k : fkey) (v : fval) (x : vol_ent) : bool :=
  match k with
  | KAddress | KAccount => sat_addr o [fv_account x] v
  | KFirstUsage => sat_time o (fv_first_usage x) v
  | KBalance asset => String.eqb (fv_asset x) asset && sat_num o (fv_balance x) v
  | KBalanceAny => sat_num o (fv_balance x) v
  | KMeta key => sat_meta o key (fv_metadata x) v
  | KMetadata => sat_meta_exists (fv_metadata x) v
  | _ => false
  end.
Definition sat_leaf_agg (o : fop) (k : fkey) (v : fval) (x : vol_ent) : bool :=
  match k with
  | KAddress => sat_addr o [fv_account x] v
  | KMeta key => sat_meta o key (fv_metadata x) v
  | KMetadata => sat_meta_exists (fv_metadata x) v
  | _ => false
  end.
Definition sat_leaf_log (o : fop) (k : fkey) (v : fval) (l : log_ent) : bool :=
  match k with
  | KId => sat_num o (fl_id l) v
  | KDate => sat_time o (fl_date l) v
  | KType => sat_str o (Some (fl_type l)) v
  | _ => false
  end.

Definition sat_leaf (R : fresource) (o : fop) (k : fkey) (v : fval) (e : fentity) : bool :=
  match R, e with
  | RTx, ETx t => sat_leaf_tx o k v t
  | RAcc, EAcc a => sat_leaf_acc o k v a
  | RVol, EVol x => sat_leaf_vol o k v x
  | RAgg, EVol x => sat_leaf_agg o k v x
  | RLog, ELog l => sat_leaf_log o k v l
  | _, _ => false
  end.

(* REFERENCE meaning: $and = all, $or = some, $not = complement *)
Fixpoint flt_sat (R : fresource) (f : filter) (e : fentity) : bool :=
  match f with
  | FLeaf o k v => sat_leaf R o k v e
  | FAnd l => forallb (fun g => flt_sat R g e) l
  | FOr l => existsb (fun g => flt_sat R g e) l
  | FNot g => negb (flt_sat R g e)
  end.

(* ------------------------------------------------------------------ SQL side: rows, conditions, evaluation *)
Inductive tri := TTrue | TFalse | TNull.
Definition tnot (t : tri) : tri := match t with TTrue => TFalse | TFalse => TTrue | TNull => TNull end.
Definition tand (a b : tri) : tri :=
  match a, b with TFalse, _ | _, TFalse => TFalse | TTrue, TTrue => TTrue | _, _ => TNull end.
Definition tor (a b : tri) : tri :=
  match a, b with TTrue, _ | _, TTrue => TTrue | TFalse, TFalse => TFalse | _, _ => TNull end.
Definition tri_of_bool (b : bool) : tri := if b then TTrue else TFalse.

(* {"0":"users","1":"42","2":null} — utils.go:explodeAddress; keys are the decimal positions *)
Definition jobj := list (nat * option string).
Record frow := mkRow {
  c_id : option Z; c_reference : option string;
  c_timestamp : option Z; c_inserted_at : option Z; c_updated_at : option Z; c_reverted_at : option Z;
  c_metadata : option fmeta;
  c_sources : option (list string); c_destinations : option (list string);
  c_sources_arrays : option (list jobj); c_destinations_arrays : option (list jobj);
  c_address : option string;               (* accounts.address | volumes.account | aggregated.accounts_address *)
  c_address_array : option (list string);  (* address_array | account_array | accounts_address_array *)
  c_first_usage : option Z; c_insertion_date : option Z;
  c_asset : option string; c_balance : option Z;
  c_date : option Z; c_type : option string;
  c_sub_balances : list (string * Z)       (* accounts: rows (asset, balance) of the correlated balance sub-select *)
}.

Inductive ncol := NId | NBalance | NTimestamp | NInsertedAt | NUpdatedAt | NRevertedAt | NFirstUsage | NInsertionDate | NDate.
Inductive scol := SReference | SAddress | SAsset | SType.
Inductive acol := AAddressArray | ASources | ADestinations.
Inductive ocol := OSourcesArrays | ODestinationsArrays.

Inductive sqlcond :=
| CTrue                                             (* 1 = 1 *)
| CFalse                                            (* never emitted for a valid filter *)
| CNum (c : ncol) (o : cmp) (v : Z)                 (* col <op> literal *)
| CStrEq (c : scol) (v : string)                    (* col = 'v' *)
| CLike (c : scol) (p : string)                     (* col like 'p' *)
| CStrIn (c : scol) (l : list string)               (* col IN ('a', 'b') *)
| CIsNull (c : ncol)
| CIsNotNull (c : ncol)
| CMetaContains (k v : string)                      (* metadata @> '{"k":"v"}' *)
| CMetaContainsArr (k : string) (l : list string)   (* metadata @> '{"k":["a","b"]}' *)
| CMetaHasKey (k : string)                          (* metadata -> 'k' is not null *)
| CArrContains (c : acol) (s : string)              (* col @> '["s"]' *)
| CArrAny (c : acol) (l : list string)              (* col ?| array['a','b'] *)
| CArrLen (c : acol) (n : nat)                      (* jsonb_array_length(col) = n *)
| CArrAt (c : acol) (i : nat) (s : string)          (* col @@ ('$[i] == "s"')::jsonpath *)
| CObjContains (c : ocol) (o : jobj)                (* col @> '[{"0":"a","2":null}]' *)
| CBalSub (asset : option string) (o : cmp) (v : Z) (* Some A: (SELECT balance <op> v FROM (SELECT … AND asset = 'A') balance);
                                                       None: exists (SELECT 1 FROM (SELECT …) balance WHERE (balance <op> v)) *)
| CAnd (paren : bool) (l : list sqlcond)            (* paren: "(a) and (b)"  /  raw: "a and b" *)
| COr (paren : bool) (l : list sqlcond)
| CNot (c : sqlcond).

Definition ncol_get (r : frow) (c : ncol) : option Z :=
  match c with
  | NId => c_id r | NBalance => c_balance r | NTimestamp => c_timestamp r | NInsertedAt => c_inserted_at r
  | NUpdatedAt => c_updated_at r | NRevertedAt => c_reverted_at r | NFirstUsage => c_first_usage r
  | NInsertionDate => c_insertion_date r | NDate => c_date r
  end.
Definition scol_get (r : frow) (c : scol) : option string :=
  match c with SReference => c_reference r | SAddress => c_address r | SAsset => c_asset r | SType => c_type r end.
Definition acol_get (r : frow) (c : acol) : option (list string) :=
  match c with AAddressArray => c_address_array r | ASources => c_sources r | ADestinations => c_destinations r end.
Definition ocol_get (r : frow) (c : ocol) : option (list jobj) :=
  match c with OSourcesArrays => c_sources_arrays r | ODestinationsArrays => c_destinations_arrays r end.

Fixpoint nlookup (k : nat) (o : jobj) : option (option string) :=
  match o with [] => None | (k', v) :: r => if Nat.eqb k k' then Some v else nlookup k r end.
Definition optstr_eqb (a b : option string) : bool :=
  match a, b with Some x, Some y => String.eqb x y | None, None => true | _, _ => false end.
(* jsonb containment  doc @> pat  for flat objects with string/null values *)
Definition obj_contains (pat doc : jobj) : bool :=
  forallb (fun kv => match nlookup (fst kv) doc with Some v => optstr_eqb v (snd kv) | None => false end) pat.

Definition on_col {A} (x : option A) (f : A -> bool) : option tri :=
  match x with None => Some TNull | Some a => Some (tri_of_bool (f a)) end.

(* sequential evaluation with the short-circuit of ExecEvalAnd / ExecEvalOr (and of pgsem): a definite
   FALSE (resp. TRUE) stops the evaluation of the remaining arguments; an error anywhere evaluated aborts *)
Definition eval_and (ev : sqlcond -> option tri) : list sqlcond -> tri -> option tri :=
  fix go (l : list sqlcond) (acc : tri) : option tri :=
  match l with
  | [] => Some acc
  | c :: r => match acc with
              | TFalse => Some TFalse
              | _ => match ev c with None => None | Some t => go r (tand acc t) end
              end
  end.
Definition eval_or (ev : sqlcond -> option tri) : list sqlcond -> tri -> option tri :=
  fix go (l : list sqlcond) (acc : tri) : option tri :=
  match l with
  | [] => Some acc
  | c :: r => match acc with
              | TTrue => Some TTrue
              | _ => match ev c with None => None | Some t => go r (tor acc t) end
              end
  end.

Fixpoint flt_eval (c : sqlcond) (r : frow) : option tri :=
  match c with
  | CTrue => Some TTrue
  | CFalse => Some TFalse
  | CNum col o v => on_col (ncol_get r col) (fun x => zcmp o x v)
  | CStrEq col v => on_col (scol_get r col) (fun x => String.eqb x v)
  | CLike col p => on_col (scol_get r col) (like_match p)
  | CStrIn col l => on_col (scol_get r col) (fun x => smem x l)
  | CIsNull col => Some (match ncol_get r col with None => TTrue | Some _ => TFalse end)
  | CIsNotNull col => Some (match ncol_get r col with None => TFalse | Some _ => TTrue end)
  | CMetaContains k v => on_col (c_metadata r) (fun m => match slookup k m with Some x => String.eqb x v | None => false end)
  | CMetaContainsArr k l => on_col (c_metadata r) (fun _ => false)      (* a string never contains an array *)
  | CMetaHasKey k => Some (match c_metadata r with
                           | Some m => match slookup k m with Some _ => TTrue | None => TFalse end
                           | None => TFalse end)
  | CArrContains col s => on_col (acol_get r col) (smem s)
  | CArrAny col l => on_col (acol_get r col) (existsb (fun a => smem a l))
  | CArrLen col n => on_col (acol_get r col) (fun a => Nat.eqb (List.length a) n)
  | CArrAt col i s => on_col (acol_get r col) (fun a => match nth_error a i with Some x => String.eqb x s | None => false end)
  | CObjContains col o => on_col (ocol_get r col) (existsb (obj_contains o))
  | CBalSub None o v =>           (* exists (select 1 from (…all assets…) balance where balance <op> v): never NULL, never fails *)
    Some (tri_of_bool (existsb (fun ab => zcmp o (snd ab) v) (c_sub_balances r)))
  | CBalSub (Some a) o v =>       (* scalar sub-select over the rows of asset a *)
    match List.filter (fun ab => String.eqb (fst ab) a) (c_sub_balances r) with
    | [] => Some TNull
    | [ab] => Some (tri_of_bool (zcmp o (snd ab) v))
    | _ => None
    end
  | CAnd _ l => eval_and (fun c => flt_eval c r) l TTrue
  | COr _ l => eval_or (fun c => flt_eval c r) l TFalse
  | CNot c => match flt_eval c r with Some t => Some (tnot t) | None => None end
  end.

(* ------------------------------------------------------------------ emit: mirror of ResolveFilter + Builder.Build *)
Fixpoint indexed {A} (i : nat) (l : list A) : list (nat * A) :=
  match l with [] => [] | x :: r => (i, x) :: indexed (S i) r end.
Definition wild_seg (s : string) : bool := String.eqb s EmptyString || String.eqb s dots.

(* utils.go:filterAccountAddress(address, key) *)
Definition addr_cond (p : string) : sqlcond :=
  if is_partial p then
    let ps := segs p in
    let len := if is_prefix_pat ps then [] else [CArrLen AAddressArray (List.length ps)] in
    let at_ := flat_map (fun ix => if wild_seg (snd ix) then [] else [CArrAt AAddressArray (fst ix) (snd ix)]) (indexed 0 ps) in
    match len ++ at_ with [] => CTrue | l => CAnd false l end
  else CStrEq SAddress p.

(* transactions.go:filterAccountAddressOnTransactions: the JSON object of a partial address *)
Fixpoint tx_pat_go (n i : nat) (ps : list string) : jobj :=
  match ps with
  | [] => []
  | s :: r => if String.eqb s EmptyString then tx_pat_go n (S i) r
              else if Nat.eqb (S i) n && String.eqb s dots then []
              else (i, Some s) :: tx_pat_go n (S i) r
  end.
Definition tx_pat (p : string) : jobj :=
  let ps := segs p in
  tx_pat_go (List.length ps) 0 ps ++ (if is_prefix_pat ps then [] else [(List.length ps, None)]).
Definition tx_addr_cond (p : string) (src dst : bool) : sqlcond :=
  let parts :=
      if is_partial p then
        (if src then [CObjContains OSourcesArrays (tx_pat p)] else []) ++ (if dst then [CObjContains ODestinationsArrays (tx_pat p)] else [])
      else (if src then [CArrContains ASources p] else []) ++ (if dst then [CArrContains ADestinations p] else []) in
  COr false parts.
Definition tx_addr_in (l : list string) (src dst : bool) : sqlcond :=
  COr false ((if src then [CArrAny ASources l] else []) ++ (if dst then [CArrAny ADestinations l] else [])).

Definition emit_num (col : ncol) (o : fop) (v : fval) : sqlcond :=
  match cmp_of o, v with Some c, VInt z => CNum col c z | _, _ => CFalse end.
Definition emit_time (col : ncol) (o : fop) (v : fval) : sqlcond :=
  match cmp_of o, v with Some c, VTime z => CNum col c z | _, _ => CFalse end.
Definition emit_str (col : scol) (o : fop) (v : fval) : sqlcond :=
  match o, v with
  | OMatch, VStr s => CStrEq col s
  | OLike, VStr s => CLike col s
  | OIn, VStrs l => CStrIn col l
  | _, _ => CFalse
  end.
Definition emit_meta (o : fop) (k : string) (v : fval) : sqlcond :=
  match o, v with
  | OIn, VStrs l => CMetaContainsArr k l
  | OIn, _ => CFalse
  | _, VStr s => CMetaContains k s
  | _, _ => CFalse
  end.
Definition emit_meta_exists (v : fval) : sqlcond := match v with VStr k => CMetaHasKey k | _ => CFalse end.
Definition emit_addr (o : fop) (v : fval) : sqlcond :=
  match o, v with
  | OMatch, VStr p | OLike, VStr p => addr_cond p
  | OIn, VStrs l => CStrIn SAddress l
  | _, _ => CFalse
  end.
Definition emit_tx_addr (o : fop) (v : fval) (src dst : bool) : sqlcond :=
  match o, v with
  | OMatch, VStr p | OLike, VStr p => tx_addr_cond p src dst
  | OIn, VStrs l => tx_addr_in l src dst
  | _, _ => CFalse
  end.
Definition emit_bal_sub (asset : option string) (o : fop) (v : fval) : sqlcond :=
  match cmp_of o, v with Some c, VInt z => CBalSub asset c z | _, _ => CFalse end.

Definition emit_leaf (R : fresource) (o : fop) (k : fkey) (v : fval) : sqlcond :=
  match R, k with
  | RTx, KId => emit_num NId o v
  | RTx, KReference => emit_str SReference o v
  | RTx, KTimestamp => emit_time NTimestamp o v
  | RTx, KInsertedAt => emit_time NInsertedAt o v
  | RTx, KUpdatedAt => emit_time NUpdatedAt o v
  | RTx, KRevertedAt => emit_time NRevertedAt o v
  | RTx, KReverted => match v with VBool true => CIsNotNull NRevertedAt | VBool false => CIsNull NRevertedAt | _ => CFalse end
  | RTx, KAccount => emit_tx_addr o v true true
  | RTx, KSource => emit_tx_addr o v true false
  | RTx, KDestination => emit_tx_addr o v false true
  | RAcc, KAddress | RAcc, KAccount => emit_addr o v
  | RAcc, KFirstUsage => emit_time NFirstUsage o v
  | RAcc, KInsertionDate => emit_time NInsertionDate o v
  | RAcc, KUpdatedAt => emit_time NUpdatedAt o v
  | RAcc, KBalance a => emit_bal_sub (Some a) o v
  | RAcc, KBalanceAny => emit_bal_sub None o v
  | RVol, KAddress | RVol, KAccount => emit_addr o v
  | RVol, KFirstUsage => emit_time NFirstUsage o v
  | RVol, KBalance a => match emit_num NBalance o v with CFalse => CFalse | c => CAnd true [c; CStrEq SAsset a] end
  | RVol, KBalanceAny => match emit_num NBalance o v with CFalse => CFalse | c => CAnd true [c] end
  | RAgg, KAddress => emit_addr o v
  | RLog, KId => emit_num NId o v
  | RLog, KDate => emit_time NDate o v
  | RLog, KType => emit_str SType o v
  | RLog, _ => CFalse
  | _, KMeta key => emit_meta o key v
  | _, KMetadata => emit_meta_exists v
  | _, _ => CFalse
  end.

(* query.Builder.Build: an empty $and AND an empty $or are "1 = 1"; items are joined as "(a) and (b)" *)
Fixpoint flt_emit (R : fresource) (f : filter) : sqlcond :=
  match f with
  | FLeaf o k v => emit_leaf R o k v
  | FAnd [] => CTrue
  | FAnd l => CAnd true (map (flt_emit R) l)
  | FOr [] => CTrue
  | FOr l => COr true (map (flt_emit R) l)
  | FNot g => CNot (flt_emit R g)
  end.

(* ------------------------------------------------------------------ validation: validateFilters + ResolveFilter errors *)
Inductive ftype := TyString | TyDate | TyNum | TyBool | TyMapStr | TyMapNum.
(* internal/queries/resources.go (the property a key resolves to, None = "unknown key") *)
Definition key_type (R : fresource) (k : fkey) : option ftype :=
  match R, k with
  | RTx, KReverted => Some TyBool
  | RTx, KAccount | RTx, KSource | RTx, KDestination | RTx, KReference => Some TyString
  | RTx, KTimestamp | RTx, KInsertedAt | RTx, KUpdatedAt | RTx, KRevertedAt => Some TyDate
  | RTx, KId => Some TyNum
  | RAcc, KAddress => Some TyString
  | RAcc, KFirstUsage | RAcc, KInsertionDate | RAcc, KUpdatedAt => Some TyDate
  | RAcc, KBalance _ | RAcc, KBalanceAny => Some TyMapNum
  | RVol, KAddress | RVol, KAccount => Some TyString
  | RVol, KBalance _ | RVol, KBalanceAny => Some TyMapNum
  | RVol, KFirstUsage => Some TyDate
  | RAgg, KAddress => Some TyString
  | RLog, KDate => Some TyDate
  | RLog, KId => Some TyNum
  | RLog, KType => Some TyString
  | RLog, _ => None
  | _, KMeta _ | _, KMetadata => Some TyMapStr
  | _, _ => None
  end.
Definition is_cmp_op (o : fop) : bool := match cmp_of o with Some _ => true | None => false end.
Definition op_allowed (t : ftype) (o : fop) : bool :=
  match t with
  | TyString => match o with OMatch | OLike | OIn => true | _ => false end
  | TyDate | TyNum => is_cmp_op o
  | TyBool => match o with OMatch => true | _ => false end
  | TyMapStr => match o with OMatch | OLike | OExists => true | _ => false end   (* TypeMap.Operators: no $in on maps *)
  | TyMapNum => is_cmp_op o                                                      (* ... and $exists only on string maps *)
  end.
Definition value_ok (t : ftype) (o : fop) (v : fval) : bool :=
  match t with
  | TyString | TyMapStr => match o, v with OIn, VStrs _ => true | OIn, _ => false | _, VStr _ => true | _, _ => false end
  | TyDate => match v with VTime _ => true | _ => false end
  | TyNum | TyMapNum => match v with VInt _ => true | _ => false end
  | TyBool => match v with VBool _ => true | _ => false end
  end.
Inductive fverdict := FvOk | FvInvalid.
Definition is_addr_key (k : fkey) : bool :=
  match k with KAddress | KAccount | KSource | KDestination => true | _ => false end.
Definition leaf_verdict (R : fresource) (o : fop) (k : fkey) (v : fval) : fverdict :=
  match key_type R k with
  | None => FvInvalid
  | Some t =>
    if negb (op_allowed t o) then FvInvalid
    else if negb (value_ok t o v) then FvInvalid
    else match t, o, v with
         | TyString, OIn, VStrs l =>
           if is_addr_key k then (if existsb is_partial l then FvInvalid else FvOk)   (* assetAddressArray *)
           else FvOk
         | _, _, _ => FvOk
         end
  end.
Definition verdict_join (a b : fverdict) : fverdict :=
  match a with FvOk => b | _ => a end.
(* validateFilters walks all leaves first (so a statically invalid leaf anywhere wins); then Build
   resolves the leaves left to right *)
Fixpoint flt_leaves (f : filter) : list (fop * fkey * fval) :=
  match f with
  | FLeaf o k v => [(o, k, v)]
  | FAnd l | FOr l => flat_map flt_leaves l
  | FNot g => flt_leaves g
  end.
Definition static_invalid (R : fresource) (okv : fop * fkey * fval) : bool :=
  let '(o, k, v) := okv in
  match key_type R k with
  | None => true
  | Some t => negb (op_allowed t o) || negb (value_ok t o v)
  end.
Definition flt_validate (R : fresource) (f : filter) : fverdict :=
  let ls := flt_leaves f in
  if existsb (static_invalid R) ls then FvInvalid
  else fold_left (fun acc okv => verdict_join acc (let '(o, k, v) := okv in leaf_verdict R o k v)) ls FvOk.

(* ------------------------------------------------------------------ rows of the dataset an entity comes from *)
Definition explode (adr : list string) : jobj := indexed 0 (map (@Some string) adr) ++ [(List.length adr, None)].
Definition empty_row : frow :=
  mkRow None None None None None None None None None None None None None None None None None None None [].
Definition row_of (e : fentity) : frow :=
  match e with
  | ETx t => mkRow (Some (ft_id t)) (ft_reference t) (Some (ft_timestamp t)) (Some (ft_inserted_at t)) (Some (ft_updated_at t))
                   (ft_reverted_at t) (Some (ft_metadata t)) (Some (ft_sources t)) (Some (ft_destinations t))
                   (Some (map (fun a => explode (segs a)) (ft_sources t))) (Some (map (fun a => explode (segs a)) (ft_destinations t)))
                   None None None None None None None None []
  | EAcc a => mkRow None None None None (Some (fa_updated_at a)) None (Some (fa_metadata a)) None None None None
                    (Some (fa_address a)) (Some (segs (fa_address a))) (Some (fa_first_usage a)) (Some (fa_insertion_date a))
                    None None None None (fa_balances a)
  | EVol v => mkRow None None None None None None (Some (fv_metadata v)) None None None None
                    (Some (fv_account v)) (Some (segs (fv_account v))) (Some (fv_first_usage v)) None
                    (Some (fv_asset v)) (Some (fv_balance v)) None None []
  | ELog l => mkRow (Some (fl_id l)) None None None None None None None None None None None None None None None None
                    (Some (fl_date l)) (Some (fl_type l)) []
  end.

(* ------------------------------------------------------------------ lateral push-down of address filters
   resource_volumes.go / resource_aggregated_balances.go:BuildDataset + utils.go:collectAddressFilters,
   canPushAddressFilterToLateral (isNodeSafeForLateral on the JSON form), buildAddressFilterForLateral:
   when some address filter is partial (aggregated without PIT: when metadata or a partial address is filtered and
   the key `address` is used) and the shape is judged safe, the dataset is inner-joined with the accounts matching the
   OR of ALL address filters of the query (string values and the elements of $in arrays). *)
Definition json_addr_key (k : fkey) : bool := match k with KAddress | KAccount => true | _ => false end.
Fixpoint contains_addr (f : filter) : bool :=
  match f with
  | FLeaf _ k _ => json_addr_key k
  | FAnd l | FOr l => existsb contains_addr l
  | FNot g => contains_addr g
  end.
Fixpoint safe_lateral (inside_not : bool) (f : filter) : bool :=
  match f with
  | FLeaf _ k _ => negb (inside_not && json_addr_key k)
  | FNot g => safe_lateral true g
  | FAnd l => forallb (safe_lateral inside_not) l
  | FOr l =>
    if inside_not then forallb (fun g => negb (contains_addr g)) l
    else (if Nat.ltb 1 (List.length l)
          then negb (existsb contains_addr l && existsb (fun g => negb (contains_addr g)) l) else true)
         && forallb (safe_lateral false) l
  end.
Definition collect_addrs (f : filter) : list string :=
  flat_map (fun okv => match okv with
                       | (_, k, VStr s) => if json_addr_key k then [s] else []
                       | (_, k, VStrs l) => if json_addr_key k then l else []      (* $in arrays: exact addresses *)
                       | _ => [] end) (flt_leaves f).
(* needSegments: only STRING-valued address filters can be partial ($in elements never set it) *)
Definition need_segments (f : filter) : bool :=
  existsb (fun okv => match okv with (_, k, VStr s) => json_addr_key k && is_partial s | _ => false end) (flt_leaves f).
Definition uses_key (p : fkey -> bool) (f : filter) : bool := existsb (fun okv => p (snd (fst okv))) (flt_leaves f).
Definition is_meta_key (k : fkey) : bool := match k with KMeta _ | KMetadata => true | _ => false end.
Definition flt_prefilter (R : fresource) (pit : bool) (f : filter) : option (list string) :=
  let addrs := collect_addrs f in
  let need := need_segments f in
  let can := safe_lateral false f in
  match R with
  | RVol => if need && can then Some addrs else None
  | RAgg =>
    if pit then (if need && can then Some addrs else None)
    else if (uses_key is_meta_key f || need) && uses_key (fun k => match k with KAddress => true | _ => false end) f
            && can && negb (match addrs with [] => true | _ => false end)
         then Some addrs else None
  | _ => None
  end.
Definition flt_dataset (R : fresource) (pit : bool) (f : filter) (es : list fentity) : list fentity :=
  match flt_prefilter R pit f with
  | None => es
  | Some addrs =>
    List.filter (fun e => match flt_eval (COr false (map addr_cond addrs)) (row_of e) with Some TTrue => true | _ => false end) es
  end.

(* ------------------------------------------------------------------ list / count at model level *)
Inductive fresult := FrOk (sel : list fentity) | FrInvalid | FrCardinality.

(* the faithful model of  SELECT … FROM dataset WHERE <emit f>: every row is evaluated; one failing row fails the statement *)
Fixpoint select_rows (c : sqlcond) (es : list fentity) : option (list fentity) :=
  match es with
  | [] => Some []
  | e :: r => match flt_eval c (row_of e), select_rows c r with
              | Some t, Some sel => Some (match t with TTrue => e :: sel | _ => sel end)
              | _, _ => None
              end
  end.
Definition flt_list (R : fresource) (pit : bool) (f : filter) (es : list fentity) : fresult :=
  match flt_validate R f with
  | FvInvalid => FrInvalid
  | FvOk => match select_rows (flt_emit R f) (flt_dataset R pit f es) with Some sel => FrOk sel | None => FrCardinality end
  end.
Definition flt_count (R : fresource) (pit : bool) (f : filter) (es : list fentity) : option nat :=
  match flt_list R pit f es with FrOk sel => Some (List.length sel) | _ => None end.
(* the reference evaluator: documented meaning, no SQL *)
Definition flt_ref (R : fresource) (f : filter) (es : list fentity) : list fentity := List.filter (flt_sat R f) es.

(* aggregated balances: per-asset sums over the selected volume rows *)
Fixpoint agg_add (asset : string) (i o : Z) (acc : list (string * (Z * Z))) : list (string * (Z * Z)) :=
  match acc with
  | [] => [(asset, (i, o))]
  | (a, (i', o')) :: r => if String.eqb a asset then (a, (i' + i, o' + o)) :: r else (a, (i', o')) :: agg_add asset i o r
  end.
Definition flt_aggregate (es : list fentity) : list (string * (Z * Z)) :=
  fold_left (fun acc e => match e with EVol v => agg_add (fv_asset v) (fv_input v) (fv_output v) acc | _ => acc end) es [].
