(* Model, at store-call granularity, of the wrapper stack that decides WHEN events are published:

     controllerFacade (internal/controller/system/state_tracker.go)         handleState
       -> ControllerWithEvents (internal/controller/ledger/controller_with_events.go)
            -> (traces, cache, too-many-clients: pass-through for BeginTX/Commit/Rollback/LockLedger)
              -> DefaultController.<write> = logProcessor.forgeLog (log_process.go) -> Store (bun.DB | bun.Tx)
     bulking.Bulker.Run (internal/api/bulking/bulker.go)                    atomic / non-atomic sequential

   The write itself is an abstract step: it fails, or succeeds and appends ONE log (InsertLog is the last
   statement of runLog), or is answered from the idempotency key of an earlier log.  What is modelled
   faithfully is the control flow around it: which *ControllerWithEvents object receives the call (fields
   hasTx / parent / atCommit), what BeginTX / LockLedger / Commit / Rollback return and do, which SQL
   transaction boundary (top-level BEGIN / COMMIT / ROLLBACK as seen by the database/sql driver; nested
   BeginTx on a bun.Tx is a SAVEPOINT and is not an observable boundary) each store call produces.

   The observable trace is what the harness records on the real stack: driver-level BEGIN / COMMIT ok /
   COMMIT failed / ROLLBACK, the successful execution of the InsertLog statement (with the id it drew) and
   the listener calls. *)
From Coq Require Import List ZArith Bool Arith.
Import ListNotations.
Open Scope Z_scope.

Inductive act :=
| SqlBegin | SqlCommitOk | SqlCommitFail | SqlRollback
| LogAppended (id : Z)
| Publish (id : Z).          (* listener call for the write recorded as log [id] *)

(* ---------- the abstract write ---------- *)
Inductive wout :=
| WOk                        (* runLog succeeds: one log appended *)
| WFail                      (* business error or failing statement inside forgeLog's (sub)transaction *)
| WFailEarly                 (* error before forgeLog opens its (sub)transaction: a statement outside it fails
                                (plain context: nothing was begun; first write: the prelude of handleState fails) *)
| WHit (id : Z)              (* fetchLogWithIK finds log [id] with the same input: replay *)
| WCancel (logged : bool).   (* the request context is cancelled while a statement of the write (or of the prelude of
                                handleState) runs; [logged]: that statement was InsertLog and it had executed.  The
                                statement returns context.Canceled; database/sql's awaitDone goroutine rolls the
                                TOP-LEVEL transaction back; every later store call of the request fails without SQL. *)
Record write := { w_dry : bool; w_out : wout }.

Inductive wres := RsOk (id : Z) (hit : bool) | RsErr.
Definition res_ok (r : wres) : bool := match r with RsOk _ _ => true | RsErr => false end.

(* ---------- model state between store calls ---------- *)
Record mst := {
  initializing : bool;       (* controllerFacade.ledger.State = "initializing" (cached in the facade) *)
  next_log : Z;              (* per-ledger log id sequence: drawn by InsertLog, never rolled back *)
  cfail : option nat;        (* fault switch: the (n+1)-th top-level COMMIT from now fails *)
  ccancel : option nat;      (* fault switch: the request context is cancelled right before the (n+1)-th top-level COMMIT
                                from now, and the rollback by database/sql has completed: Tx.Commit returns sql.ErrTxDone *)
  cancelled : bool           (* the context of the current request is cancelled *)
}.
Definition with_next (s : mst) (n : Z) :=
  {| initializing := initializing s; next_log := n; cfail := cfail s; ccancel := ccancel s; cancelled := cancelled s |}.
Definition with_cfail (s : mst) (c : option nat) :=
  {| initializing := initializing s; next_log := next_log s; cfail := c; ccancel := ccancel s; cancelled := cancelled s |}.
Definition with_ccancel (s : mst) (c : option nat) :=
  {| initializing := initializing s; next_log := next_log s; cfail := cfail s; ccancel := c; cancelled := cancelled s |}.
Definition with_cancelled (s : mst) (b : bool) :=
  {| initializing := initializing s; next_log := next_log s; cfail := cfail s; ccancel := ccancel s; cancelled := b |}.
Definition set_in_use (s : mst) :=
  {| initializing := false; next_log := next_log s; cfail := cfail s; ccancel := ccancel s; cancelled := cancelled s |}.

(* COMMIT of a top-level transaction (bun.Tx.Commit -> sql.Tx.Commit -> driver) *)
Inductive cres := COk | CFail | CCancelled.
Definition sql_commit (s : mst) : mst * cres :=
  match ccancel s with
  | Some O => (with_cancelled (with_ccancel s None) true, CCancelled)     (* no driver COMMIT: the transaction is already rolled back *)
  | cc =>
    let s0 := with_ccancel s (match cc with Some (S n) => Some n | _ => None end) in
    match cfail s0 with
    | Some O => (with_cfail s0 None, CFail)
    | Some (S n) => (with_cfail s0 (Some n), COk)
    | None => (s0, COk)
    end
  end.
Definition commit_acts (c : cres) : list act :=
  match c with COk => [SqlCommitOk] | CFail => [SqlCommitFail] | CCancelled => [SqlRollback] end.

(* ---------- logProcessor.forgeLog on a store whose db is a *bun.DB (in_tx = false) or a bun.Tx (in_tx = true) ----------
   store.BeginTX: BEGIN on a DB, SAVEPOINT on a Tx; txStore.Commit: COMMIT resp. RELEASE SAVEPOINT (cannot be failed
   by the COMMIT switches); txStore.Rollback: ROLLBACK resp. ROLLBACK TO SAVEPOINT.  With a cancelled context BeginTX
   fails before any SQL. *)
Definition forge_log (in_tx : bool) (s : mst) (w : write) : mst * list act * wres :=
  let b := if in_tx then [] else [SqlBegin] in
  let rb := if in_tx then [] else [SqlRollback] in
  if cancelled s then (s, [], RsErr) else
  match w_out w with
  | WFailEarly => (s, [], RsErr)
  | WHit id => (s, b ++ rb, RsOk id true)                    (* rollback of the lookup transaction, idempotencyHit = true *)
  | WFail => (s, b ++ rb, RsErr)
  | WCancel logged =>
    (* the top-level transaction (forgeLog's own, or the enclosing one) is rolled back by database/sql *)
    let id := next_log s in
    let s1 := with_cancelled (if logged then with_next s (id + 1) else s) true in
    (s1, b ++ (if logged then [LogAppended id] else []) ++ [SqlRollback], RsErr)
  | WOk =>
    let id := next_log s in
    let s1 := with_next s (id + 1) in
    if w_dry w then (s1, b ++ [LogAppended id] ++ rb, RsOk id false)
    else if in_tx then (s1, [LogAppended id], RsOk id false)
    else let '(s2, c) := sql_commit s1 in
         (s2, [SqlBegin; LogAppended id] ++ commit_acts c,
          match c with COk => RsOk id false | _ => RsErr end)            (* "failed to commit transaction" *)
  end.

(* ---------- ControllerWithEvents ----------
   An object is a frame (hasTx, atCommit); [parent] is the next frame of the list; the root object (built by
   NewControllerWithEvents) has hasTx = false and no parent. *)
Definition frame := (bool * list Z)%type.
Definition root : frame := (false, []).

(* handleEvent: if !c.hasTx { fn() } else if c.parent != nil && c.parent.hasTx { c.parent.handleEvent(fn) }
                else { c.atCommit = append(c.atCommit, fn) } *)
Fixpoint handle_event (stk : list frame) (id : Z) : list frame * list act :=
  match stk with
  | [] => ([], [Publish id])
  | f :: rest =>
    if negb (fst f) then (stk, [Publish id])
    else match rest with
         | p :: _ =>
           if fst p then let '(rest', out) := handle_event rest id in (f :: rest', out)
           else ((true, snd f ++ [id]) :: rest, [])
         | [] => ((true, snd f ++ [id]) :: rest, [])
         end
  end.

(* every write method of ControllerWithEvents has the same shape (CreateTransaction, RevertTransaction, Save/Delete
   metadata on transactions/accounts, InsertSchema): call the underlying controller; on error return; if
   !parameters.DryRun && !idempotencyHit then handleEvent.
   [pf] ("pre-fix") = true selects the HISTORICAL behaviour before the repair of finding KF-C31-replay-republishes: the
   idempotencyHit flag was not consulted and a replay published the event of the stored log again (suspect S-31b). *)
Definition ev_write (pf : bool) (stk : list frame) (in_tx : bool) (s : mst) (w : write) : mst * list frame * list act * wres :=
  let '(s1, tr, r) := forge_log in_tx s w in
  match r with
  | RsErr => (s1, stk, tr, r)
  | RsOk id hit =>
    if w_dry w || (negb pf && hit) then (s1, stk, tr, r)
    else let '(stk', out) := handle_event stk id in (s1, stk', tr ++ out, r)
  end.

(* ControllerWithEvents.Commit on the object returned by BeginTX (a top-level transaction in every flow below:
   the controller-level BeginTX is only ever called on a root object): underlying Commit, then run atCommit in order *)
Definition ctrl_commit (s : mst) (f : frame) : mst * list act * bool :=
  let '(s1, c) := sql_commit s in
  match c with
  | COk => (s1, SqlCommitOk :: map Publish (snd f), true)
  | _ => (s1, commit_acts c, false)
  end.
(* ControllerWithEvents.Rollback (deferred or explicit) on the BeginTX object: nothing reaches the driver when the
   transaction has already been rolled back because the context was cancelled *)
Definition ctrl_rollback (s : mst) : list act := if cancelled s then [] else [SqlRollback].

(* BeginTX returns {parent: c, hasTx: true}; LockLedger returns {parent: c, hasTx: c.hasTx}.
   [pf] ("pre-fix") = true selects the HISTORICAL behaviour before the repair of finding KF-C31-first-write-event-before-commit
   (LockLedger returned {parent: c}, i.e. hasTx = false: suspect S-31a) -- and of KF-C31-replay-republishes, see ev_write.
   The model tied to the code is pf = false. *)
Definition begin_frame : frame := (true, []).
Definition lock_frame (pf : bool) (parent : frame) : frame := (negb pf && fst parent, []).

(* ---------- controllerFacade.<write> = handleState(dryRun, fn) ----------
   StateInUse: fn(c.Controller) -- the root events object, store on the *bun.DB.
   otherwise: c.BeginTX (INHERITED from the embedded controller: ControllerWithEvents.BeginTX on the root) ;
              defer ctrl.Rollback ; withLock(ctrl) = ctrl.LockLedger (pg_advisory_xact_lock) ; UPDATE _system.ledgers,
              setval x2 (the prelude) ; fn(lockedCtrl) ; dryRun ? ctrl.Rollback : (ctrl.Commit ; state := in-use).
   The facade overrides the seven write methods and Import; BeginTX, Commit, Rollback, LockLedger and every read are
   inherited (suspect S-11: an atomic bulk calls the inherited BeginTX and never goes through handleState). *)
Definition facade_write (pf : bool) (s : mst) (w : write) : mst * list act * wres :=
  if negb (initializing s) then
    let '(s1, _, tr, r) := ev_write pf [root] false s w in (s1, tr, r)
  else if cancelled s then (s, [], RsErr)                                  (* c.BeginTX fails *)
  else
    match w_out w with
    | WFailEarly => (s, [SqlBegin; SqlRollback], RsErr)
    | _ =>
      let txf := begin_frame in
      let '(s1, stk, tr, r) := ev_write pf [lock_frame pf txf; txf; root] true s w in
      let txf' := nth 1 stk txf in
      match r with
      | RsErr => (s1, SqlBegin :: tr ++ ctrl_rollback s1, RsErr)
      | RsOk _ _ =>
        if w_dry w then (s1, SqlBegin :: tr ++ ctrl_rollback s1, r)
        else let '(s2, ctr, ok) := ctrl_commit s1 txf' in
             if ok then (set_in_use s2, SqlBegin :: tr ++ ctr, r)
             else (s2, SqlBegin :: tr ++ ctr, RsErr)                       (* "failed to commit transaction" *)
      end
    end.

(* ---------- Bulker.run with parallelism 1 ----------
   a task first selects on ctx.Done() (=> result {Error: ctx.Err()}, element not processed, hasError untouched), then
   hasError && !continueOnFailure => context.Canceled, element not processed *)
Fixpoint bulk_atomic_elems (pf cont : bool) (stk : list frame) (s : mst) (err : bool) (ws : list write)
  : mst * list frame * list act * bool :=
  match ws with
  | [] => (s, stk, [], err)
  | w :: r =>
    if cancelled s || (err && negb cont) then bulk_atomic_elems pf cont stk s err r
    else let '(s1, stk1, tr, x) := ev_write pf stk true s {| w_dry := false; w_out := w_out w |} in
         let '(s2, stk2, tr2, err2) := bulk_atomic_elems pf cont stk1 s1 (err || negb (res_ok x)) r in
         (s2, stk2, tr ++ tr2, err2)
  end.

Fixpoint bulk_plain_elems (pf cont : bool) (s : mst) (err : bool) (ws : list write) : mst * list act * bool :=
  match ws with
  | [] => (s, [], err)
  | w :: r =>
    if cancelled s || (err && negb cont) then bulk_plain_elems pf cont s err r
    else let '(s1, tr, x) := facade_write pf s {| w_dry := false; w_out := w_out w |} in
         let '(s2, tr2, err2) := bulk_plain_elems pf cont s1 (err || negb (res_ok x)) r in
         (s2, tr ++ tr2, err2)
  end.

(* Bulker.Run: atomic => ctrl.BeginTX on the facade ; run ; hasError ? Rollback : Commit, all on the controller BeginTX
   returned: the events object {parent: root, hasTx: true} made by ControllerWithEvents.BeginTX on the root.
   controllerFacade.BeginTX (no longer inherited since the repair of the facade): underlying BeginTX, then -- when the
   facade's cached state is not in-use -- the prelude of handleState through that same object (LockLedger =
   pg_advisory_xact_lock, markInUse = UPDATE _system.ledgers, setval x2); when a statement of the prelude fails or the
   context is cancelled there, BeginTX rolls back and Run returns the error before any element is processed.  The
   outcome of the prelude is the [bprelude] of the operation (irrelevant on an in-use ledger and for non-atomic bulks).
   BeginTX does not update the cached state: a later atomic bulk runs the prelude again (the UPDATE then matches no row).
   The frame stack of the elements is the same in both states.  processElement always passes DryRun: false. *)
Inductive bprelude := BPOk | BPFail | BPCancel.

Definition bulk (pf atomic cont : bool) (pre : bprelude) (s : mst) (ws : list write) : mst * list act :=
  if atomic then
    match (if initializing s then pre else BPOk) with
    | BPFail => (s, [SqlBegin; SqlRollback])
    | BPCancel => (with_cancelled s true, [SqlBegin; SqlRollback])
    | BPOk =>
      let '(s1, stk, tr, err) := bulk_atomic_elems pf cont [begin_frame; root] s false ws in
      if err then (s1, SqlBegin :: tr ++ ctrl_rollback s1)
      else let '(s2, ctr, _) := ctrl_commit s1 (nth 0 stk begin_frame) in (s2, SqlBegin :: tr ++ ctr)
    end
  else let '(s1, tr, _) := bulk_plain_elems pf cont s false ws in (s1, tr).

(* ---------- operations and histories ---------- *)
Inductive eop :=
| OWrite (w : write)
| OBulk (atomic cont : bool) (pre : bprelude) (ws : list write)
| OFailCommit (n : nat)       (* harness: arm the COMMIT fault switch *)
| OCancelCommit (n : nat)     (* harness: arm the cancel-before-COMMIT switch *)
| ODisarm.                    (* harness: switches off *)

(* every request runs under its own context *)
Definition eop_run (pf : bool) (s : mst) (o : eop) : mst * list act :=
  match o with
  | OWrite w => let '(s1, tr, _) := facade_write pf (with_cancelled s false) w in (s1, tr)
  | OBulk a c pre ws => bulk pf a c pre (with_cancelled s false) ws
  | OFailCommit n => (with_cfail s (Some n), [])
  | OCancelCommit n => (with_ccancel s (Some n), [])
  | ODisarm => (with_ccancel (with_cfail s None) None, [])
  end.

Fixpoint run_ops (pf : bool) (s : mst) (ops : list eop) : mst * list act :=
  match ops with
  | [] => (s, [])
  | o :: r => let '(s1, tr) := eop_run pf s o in let '(s2, tr2) := run_ops pf s1 r in (s2, tr ++ tr2)
  end.

Definition start (init : bool) (n : Z) : mst := {| initializing := init; next_log := n; cfail := None; ccancel := None; cancelled := false |}.
Definition fresh (init : bool) : mst := start init 1.
(* the model of the code *)
Definition trace_of (init : bool) (ops : list eop) : list act := snd (run_ops false (fresh init) ops).
(* same, on a ledger whose log sequence stands at [n] (the harness prepares in-use ledgers with a few writes) *)
Definition trace_from (init : bool) (n : Z) (ops : list eop) : list act :=
  snd (run_ops false (start init n) ops).
(* historical variant (before the LockLedger repair and before the replay repair); no longer tied to the code *)
Definition trace_pre_fix (init : bool) (ops : list eop) : list act := snd (run_ops true (fresh init) ops).

(* ---------- the property as an executable judgement on a trace ----------
   pending = logs appended inside the open top-level transaction; ready = logs made durable by a COMMIT whose
   event has not been published yet.  A Publish is legal exactly when its log is in [ready] (then consumed):
   after the commit of the outermost transaction containing the append, at most once, never for a write that
   was rolled back / whose commit failed.  At the end nothing may be left in [ready]: exactly one event per
   committed write. *)
Record cst := { c_open : bool; c_pending : list Z; c_ready : list Z }.
Definition c0 : cst := {| c_open := false; c_pending := []; c_ready := [] |}.

Inductive verdict :=
| VOk
| VBeforeCommit (id : Z)     (* published while the transaction that appended the log is still open *)
| VNoWrite (id : Z)          (* published with no committed, not-yet-published write: rolled back, commit failed, or duplicate *)
| VMissing (ids : list Z)    (* committed writes without event *)
| VMalformed.                (* not a trace of top-level transactions *)

Fixpoint zmem (x : Z) (l : list Z) : bool := match l with [] => false | y :: r => (x =? y) || zmem x r end.
Fixpoint zremove1 (x : Z) (l : list Z) : list Z :=
  match l with [] => [] | y :: r => if x =? y then r else y :: zremove1 x r end.

Definition cstep (c : cst) (a : act) : cst + verdict :=
  match a with
  | SqlBegin => if c_open c then inr VMalformed else inl {| c_open := true; c_pending := []; c_ready := c_ready c |}
  | LogAppended id => if c_open c then inl {| c_open := true; c_pending := c_pending c ++ [id]; c_ready := c_ready c |} else inr VMalformed
  | SqlCommitOk => if c_open c then inl {| c_open := false; c_pending := []; c_ready := c_ready c ++ c_pending c |} else inr VMalformed
  | SqlCommitFail | SqlRollback => if c_open c then inl {| c_open := false; c_pending := []; c_ready := c_ready c |} else inr VMalformed
  | Publish id =>
    if zmem id (c_ready c) then inl {| c_open := c_open c; c_pending := c_pending c; c_ready := zremove1 id (c_ready c) |}
    else if zmem id (c_pending c) then inr (VBeforeCommit id) else inr (VNoWrite id)
  end.

Fixpoint csteps (c : cst) (tr : list act) : cst + verdict :=
  match tr with
  | [] => inl c
  | a :: r => match cstep c a with inl c' => csteps c' r | inr v => inr v end
  end.

Definition check (tr : list act) : verdict :=
  match csteps c0 tr with
  | inr v => v
  | inl c => if c_open c then VMalformed else match c_ready c with [] => VOk | l => VMissing l end
  end.

(* hypotheses *)
Definition write_no_hit (w : write) : bool := match w_out w with WHit _ => false | _ => true end.
(* side condition of the historical (pre-fix) variant only: no idempotent replay.  Vacuous for the model of the code. *)
Definition hit_ok (pf : bool) (w : write) : bool := negb pf || write_no_hit w.
Definition eop_hit_ok (pf : bool) (o : eop) : bool :=
  match o with OWrite w => hit_ok pf w | OBulk _ _ _ ws => forallb (hit_ok pf) ws | OFailCommit _ | OCancelCommit _ | ODisarm => true end.

(* ---------- the scenario grid of the property's quantifier ----------
   context x outcome, on a ledger already in use unless the context says otherwise; in the bulk contexts the write
   under test is the middle element of [ok; w; ok] (processElement never passes DryRun, so dry-run is a single-call outcome
   only: in a bulk context ODry denotes the business failure of the element with continueOnFailure set). *)
Inductive sctx := CSingle | CFirstWrite | CAtomicBulk | CPlainBulk | CAtomicBulkInit | CPlainBulkInit.
Inductive sout := SOk | SFail | SDry | SCommitFail | SCancelCommit | SCancelStmt | SReplay.

Definition wok : write := {| w_dry := false; w_out := WOk |}.
Definition scenario_write (o : sout) : write :=
  match o with
  | SOk | SCommitFail | SCancelCommit => wok
  | SCancelStmt => {| w_dry := false; w_out := WCancel true |}
  | SReplay => {| w_dry := false; w_out := WHit 1 |}        (* answered from log 1 *)
  | SFail => {| w_dry := false; w_out := WFail |}
  | SDry => {| w_dry := true; w_out := WOk |}
  end.
Definition scenario (c : sctx) (o : sout) : bool * list eop :=
  let pos := match c with CPlainBulk | CPlainBulkInit => 1%nat | _ => 0%nat end in
  let arm := match o with SCommitFail => [OFailCommit pos] | SCancelCommit => [OCancelCommit pos] | _ => [] end in
  let bulk_ws := match o with
                 | SDry => [wok; {| w_dry := false; w_out := WFail |}; wok]
                 | _ => [wok; scenario_write o; wok] end in
  let cont := match o with SDry => true | _ => false end in
  match c with
  | CSingle => (false, arm ++ [OWrite (scenario_write o)])
  | CFirstWrite => (true, arm ++ [OWrite (scenario_write o)])
  | CAtomicBulk => (false, arm ++ [OBulk true cont BPOk bulk_ws])
  | CPlainBulk => (false, arm ++ [OBulk false cont BPOk bulk_ws])
  | CAtomicBulkInit => (true, arm ++ [OBulk true cont BPOk bulk_ws])
  | CPlainBulkInit => (true, arm ++ [OBulk false cont BPOk bulk_ws])
  end.
Definition scenario_trace (c : sctx) (o : sout) : list act :=
  trace_of (fst (scenario c o)) (snd (scenario c o)).
Definition scenario_trace_pre_fix (c : sctx) (o : sout) : list act :=
  trace_pre_fix (fst (scenario c o)) (snd (scenario c o)).

(* verdict of the PRE-FIX model on the grid: the event was published inside the still-open outer transaction exactly
   when a write SUCCEEDED through the first-write path of handleState (LockLedger object had hasTx = false) *)
Definition scenario_expected_pre_fix (c : sctx) (o : sout) : verdict :=
  match c, o with
  | CPlainBulkInit, _ => VBeforeCommit 1
  | _, SReplay => VNoWrite 1                       (* the stored log's event published a second time *)
  | CFirstWrite, (SOk | SCommitFail | SCancelCommit) => VBeforeCommit 1
  | _, _ => VOk
  end.
