(* Async log blocks (HASH_LOGS = ASYNC): writers insert logs inside their own SQL transactions WITHOUT the advisory lock
   (storage/ledger/logs.go:InsertLog takes it only for SYNC); the id is drawn by nextval when the INSERT runs, the row becomes
   visible when the transaction commits. The block builder (storage/worker_async_block.go: call create_blocks(ledger, size))
   runs the procedure of migration 38 (the effective text: migration 53 only changes the primary key of logs_blocks):

     create_blocks: previous_block := (to_id, id, hash) of the block with the greatest `previous`, or (0, 0, null);
                    loop  previous_block := create_block(ledger, size, previous_block);  exit when max_log_id = 0
     create_block : the first `size` COMMITTED logs with id > previous_block.max_log_id, by id;
                    none -> (0, 0, null); otherwise insert (previous = previous_block.block_id, from_id = previous_block.max_log_id,
                    to_id = max id, hash = digest(coalesce(previous hash, '') || string_agg(type || encode(memento, 'escape') ||
                    to_json(date) || coalesce(idempotency_key, '') || id, ''))), return (to_id, new block id, hash)

   Events: Alloc w l (writer w begins a transaction and inserts log l: draws the next id), Commit w, Abort w, RunBlocks size.
   A block also records (ghost field k_logs, not a column) which logs its digest covers. H is any hash function. *)
From Coq Require Import List Ascii String NArith ZArith Bool Lia.
From LV Require Import Base.Json Ledger.Hash.
Import ListNotations.
Open Scope Z_scope.

Definition entry := (Z * hlog)%type.             (* a log row: id and content *)

Record block := { k_id : Z; k_prev : Z; k_from : Z; k_to : Z; k_hash : bytes; k_logs : list entry }.

Record bstate := {
  s_next : Z;                        (* the log id sequence *)
  s_open : list (nat * entry);       (* open transactions: writer, inserted (invisible) row *)
  s_com : list entry;                (* committed rows, in commit order *)
  s_blocks : list block;             (* logs_blocks, in creation order *)
  s_nextblk : Z                      (* the block id sequence (serial) *)
}.
Definition binit : bstate := {| s_next := 1; s_open := []; s_com := []; s_blocks := []; s_nextblk := 1 |}.

Inductive event := Alloc (w : nat) (l : hlog) | Commit (w : nat) | Abort (w : nat) | RunBlocks (size : Z).

(* ---------------------------------------------------------------- the digest's pre-image *)
Fixpoint dec_uint (u : Decimal.uint) : bytes :=
  match u with
  | Decimal.Nil => []
  | Decimal.D0 r => "0"%char :: dec_uint r | Decimal.D1 r => "1"%char :: dec_uint r | Decimal.D2 r => "2"%char :: dec_uint r
  | Decimal.D3 r => "3"%char :: dec_uint r | Decimal.D4 r => "4"%char :: dec_uint r | Decimal.D5 r => "5"%char :: dec_uint r
  | Decimal.D6 r => "6"%char :: dec_uint r | Decimal.D7 r => "7"%char :: dec_uint r | Decimal.D8 r => "8"%char :: dec_uint r
  | Decimal.D9 r => "9"%char :: dec_uint r
  end.
Definition dec (z : Z) : bytes :=
  match z with Z0 => B "0" | Zpos p => dec_uint (Pos.to_uint p) | Zneg p => "-"%char :: dec_uint (Pos.to_uint p) end.

Definition hexbytes (l : bytes) : bytes := flat_map (fun c => [hexdig (code c / 16); hexdig (code c mod 16)]) l.
(* a bytea rendered by its output function (bytea_output = hex): what `bytea || text` does to its left operand *)
Definition bytea_out (h : option bytes) : bytes := bs :: "x"%char :: match h with None => [] | Some x => hexbytes x end.

Definition log_text (e : entry) : bytes :=
  let l := snd e in type_name (h_type l) ++ bytea_escape (h_memento l) ++ pg_date (h_date l) ++ h_ik l ++ dec (fst e).
Definition blk_pre (prev : option bytes) (ls : list entry) : bytes := bytea_out prev ++ flat_map log_text ls.

(* ---------------------------------------------------------------- the procedure *)
(* the committed row with the smallest id above mx (order by id, first row) *)
Fixpoint next_above (com : list entry) (mx : Z) : option entry :=
  match com with
  | [] => None
  | e :: r => match next_above r mx with
              | Some m => if (mx <? fst e) && (fst e <? fst m) then Some e else Some m
              | None => if mx <? fst e then Some e else None
              end
  end.

(* where id > mx order by id limit n *)
Fixpoint take_above (com : list entry) (n : nat) (mx : Z) : list entry :=
  match n with
  | O => []
  | S n' => match next_above com mx with
            | None => []
            | Some e => e :: take_above com n' (fst e)
            end
  end.

Definition prevblk := (Z * Z * option bytes)%type.      (* the PL/pgSQL composite `block`: max_log_id, block_id, hash *)
Definition last_id (d : Z) (ls : list entry) : Z := fold_left (fun _ e => fst e) ls d.

Section WithHash.
  Variable H : bytes -> bytes.

  (* the loop of create_blocks; fuel bounds the number of iterations (S (length com) is enough: blocks_quiescent) *)
  Fixpoint build (fuel : nat) (com : list entry) (n : nat) (p : prevblk) (nb : Z) : list block :=
    match fuel with
    | O => []
    | S f =>
      let '(mx, pid, ph) := p in
      match take_above com n mx with
      | [] => []
      | sel =>
        let h := H (blk_pre ph sel) in
        let t := last_id mx sel in
        {| k_id := nb; k_prev := pid; k_from := mx; k_to := t; k_hash := h; k_logs := sel |} :: build f com n (t, nb, Some h) (nb + 1)
      end
    end.

  (* (to_id, id, hash) of the block with the greatest `previous` = the last block created (previous = id of the predecessor,
     ids come from a sequence: BlocksProofs.blocks_ok has k_prev < k_id along the list); (0, 0, null) when there is none *)
  Definition end_of (p : prevblk) (bs : list block) : prevblk := fold_left (fun _ b => (k_to b, k_id b, Some (k_hash b))) bs p.
  Definition last_prev (bs : list block) : prevblk := end_of (0, 0, None) bs.

  Definition find_open (w : nat) (o : list (nat * entry)) : option entry :=
    option_map snd (find (fun x => Nat.eqb (fst x) w) o).
  Definition drop_open (w : nat) (o : list (nat * entry)) : list (nat * entry) := filter (fun x => negb (Nat.eqb (fst x) w)) o.

  Definition bstep (s : bstate) (ev : event) : bstate :=
    match ev with
    | Alloc w l =>
      match find_open w (s_open s) with
      | Some _ => s                                  (* one log per transaction in this model *)
      | None => {| s_next := s_next s + 1; s_open := s_open s ++ [(w, (s_next s, l))]; s_com := s_com s; s_blocks := s_blocks s; s_nextblk := s_nextblk s |}
      end
    | Commit w =>
      match find_open w (s_open s) with
      | Some e => {| s_next := s_next s; s_open := drop_open w (s_open s); s_com := s_com s ++ [e]; s_blocks := s_blocks s; s_nextblk := s_nextblk s |}
      | None => s
      end
    | Abort w => {| s_next := s_next s; s_open := drop_open w (s_open s); s_com := s_com s; s_blocks := s_blocks s; s_nextblk := s_nextblk s |}
    | RunBlocks size =>
      let nbs := build (S (List.length (s_com s))) (s_com s) (Z.to_nat size) (last_prev (s_blocks s)) (s_nextblk s) in
      {| s_next := s_next s; s_open := s_open s; s_com := s_com s; s_blocks := s_blocks s ++ nbs; s_nextblk := s_nextblk s + Z.of_nat (List.length nbs) |}
    end.

  Definition brun (evs : list event) : bstate := fold_left bstep evs binit.

  (* observables *)
  Definition members (s : bstate) : list entry := flat_map k_logs (s_blocks s).
  Definition uncovered (s : bstate) : list Z :=
    filter (fun id => negb (existsb (Z.eqb id) (map fst (members s)))) (map fst (s_com s)).
End WithHash.
