(* Grouped volumes (GetVolumesWithBalances with GroupLvl = g > 0, Reads.group_volumes): every row of the grouped listing is
   the componentwise sum of the rows of the ungrouped listing whose address truncates to its account, the grouped listing is
   duplicate-free in (account, asset), has exactly the truncated keys, and keeps the per-asset totals (C01 flavour).
   Also: the truncation itself (first g ':'-separated segments) is idempotent and the identity on short addresses. *)
From Coq Require Import List ZArith String Ascii Bool Lia.
From LV Require Import Base.Util Ledger.Types Ledger.Core Ledger.VolProofs Ledger.Invariants Ledger.EffProofs Ledger.Reads.
From LV Require Ledger.Filter.
Import ListNotations.
Open Scope Z_scope.

(* ---------- strings.Split on ':' and its inverse ---------- *)
Lemma segs_nonempty s : Filter.segs s <> [].
Proof.
  destruct s as [|c r]; cbn [Filter.segs]; [discriminate|].
  destruct (Ascii.eqb c Filter.colon); [discriminate|]. destruct (Filter.segs r); discriminate.
Qed.

Lemma join_colon_cons x y r : join_colon (x :: y :: r) = (x ++ String ":"%char (join_colon (y :: r)))%string.
Proof. reflexivity. Qed.

Lemma join_segs s : join_colon (Filter.segs s) = s.
Proof.
  induction s as [|c r IH]; cbn [Filter.segs]; [reflexivity|].
  destruct (Ascii.eqb c Filter.colon) eqn:E.
  - apply Ascii.eqb_eq in E. subst c. destruct (Filter.segs r) as [|h t] eqn:S; [exfalso; exact (segs_nonempty r S)|].
    rewrite join_colon_cons, IH. reflexivity.
  - destruct (Filter.segs r) as [|h t] eqn:S; [exfalso; exact (segs_nonempty r S)|].
    destruct t as [|h2 t2].
    + cbn [join_colon] in *. rewrite IH. reflexivity.
    + rewrite join_colon_cons in *. cbn [append]. rewrite IH. reflexivity.
Qed.

Fixpoint nocolon (s : string) : bool :=
  match s with EmptyString => true | String c r => negb (Ascii.eqb c Filter.colon) && nocolon r end.

Lemma segs_nocolon s : nocolon s = true -> Filter.segs s = [s].
Proof.
  induction s as [|c r IH]; cbn [nocolon Filter.segs]; [reflexivity|]. intros H. apply andb_true_iff in H. destruct H as [Hc Hr].
  apply negb_true_iff in Hc. rewrite Hc, (IH Hr). reflexivity.
Qed.

Lemma segs_app_colon x y : nocolon x = true -> Filter.segs (x ++ String ":"%char y) = x :: Filter.segs y.
Proof.
  induction x as [|c r IH]; cbn [nocolon append]; intros H.
  - cbn [Filter.segs]. reflexivity.
  - apply andb_true_iff in H. destruct H as [Hc Hr]. apply negb_true_iff in Hc. cbn [Filter.segs]. rewrite Hc, (IH Hr). reflexivity.
Qed.

Lemma segs_all_nocolon s : Forall (fun x => nocolon x = true) (Filter.segs s).
Proof.
  induction s as [|c r IH]; cbn [Filter.segs]; [repeat constructor|].
  destruct (Ascii.eqb c Filter.colon) eqn:E; [constructor; [reflexivity | exact IH]|].
  destruct (Filter.segs r) as [|h t]; [repeat constructor; cbn [nocolon]; rewrite E; reflexivity|].
  inversion IH as [|? ? Hh Ht]; subst. constructor; [cbn [nocolon]; rewrite E, Hh; reflexivity | exact Ht].
Qed.

Lemma segs_join l : l <> [] -> Forall (fun x => nocolon x = true) l -> Filter.segs (join_colon l) = l.
Proof.
  induction l as [|x r IH]; intros Hne Hall; [contradiction Hne; reflexivity|].
  inversion Hall as [|? ? Hx Hr]; subst. destruct r as [|y r'].
  - cbn [join_colon]. apply segs_nocolon. exact Hx.
  - rewrite join_colon_cons, (segs_app_colon _ _ Hx), IH; [reflexivity | discriminate | exact Hr].
Qed.

Lemma Forall_firstn {A} (P : A -> Prop) n l : Forall P l -> Forall P (firstn n l).
Proof. revert l; induction n as [|n IH]; intros l H; cbn [firstn]; [constructor|]. destruct l as [|x r]; [constructor|]. inversion H; subst. constructor; [assumption | apply IH; assumption]. Qed.

(* the segments of a truncated address are the first g segments of the address *)
Lemma segs_truncate g a : Filter.segs (truncate_addr (S g) a) = firstn (S g) (Filter.segs a).
Proof.
  unfold truncate_addr. apply segs_join.
  - destruct (Filter.segs a) as [|h t] eqn:S; [exfalso; exact (segs_nonempty a S) | cbn [firstn]; discriminate].
  - apply Forall_firstn, segs_all_nocolon.
Qed.

Theorem truncate_addr_zero a : truncate_addr 0 a = a.
Proof. reflexivity. Qed.

(* an address of at most g segments is its own group *)
Theorem truncate_addr_short g a : (List.length (Filter.segs a) <= g)%nat -> truncate_addr g a = a.
Proof.
  destruct g as [|g]; [reflexivity|]. intros H. unfold truncate_addr. rewrite firstn_all2 by exact H. apply join_segs.
Qed.

(* a group address has at most g segments, and grouping it again changes nothing *)
Theorem truncate_addr_length g a : (List.length (Filter.segs (truncate_addr (S g) a)) <= S g)%nat.
Proof. rewrite segs_truncate. apply firstn_le_length. Qed.

Theorem truncate_addr_idem g a : truncate_addr g (truncate_addr g a) = truncate_addr g a.
Proof. destruct g as [|g]; [reflexivity|]. apply truncate_addr_short, truncate_addr_length. Qed.

(* ---------- regrouping a volume map by any function of the row ---------- *)
Definition gkey (tr : addr -> addr) (kv : key * vol) : key := (tr (fst (fst kv)), snd (fst kv)).

Lemma regroup_gen (hk : key * vol -> key) l k : forall acc,
  vget (fold_left (fun acc kv => vadd acc (hk kv) (snd kv)) l acc) k
  = vplus (vget acc k) (vsum (map (fun kv => if key_eqb (hk kv) k then snd kv else (0, 0)) l)).
Proof.
  induction l as [|kv r IH]; intros acc; cbn [fold_left map vsum fold_right]; [rewrite vplus_0_r; reflexivity|].
  rewrite IH, vget_vadd. destruct (key_eqb (hk kv) k).
  - rewrite vplus_assoc. reflexivity.
  - rewrite vplus_0_l. reflexivity.
Qed.

Lemma vsum_if_filter {A} (P : A -> bool) (fv : A -> vol) l :
  vsum (map (fun x => if P x then fv x else (0, 0)) l) = vsum (map fv (filter P l)).
Proof.
  induction l as [|x r IH]; [reflexivity|]. cbn [map filter vsum fold_right]. fold (vsum (map (fun x => if P x then fv x else (0, 0)) r)).
  rewrite IH. destruct (P x); [reflexivity | apply vplus_0_l].
Qed.

(* (1) the grouped entry is the sum of the rows that fall in the group *)
Theorem regroup_vget tr v k :
  vget (regroup tr v) k = vsum (map snd (filter (fun kv => key_eqb (gkey tr kv) k) v)).
Proof.
  unfold regroup. change (fun acc kv => vadd acc (tr (fst (fst kv)), snd (fst kv)) (snd kv)) with (fun acc kv => vadd acc (gkey tr kv) (snd kv)).
  rewrite regroup_gen. cbn. rewrite vplus_0_l. apply vsum_if_filter.
Qed.

(* (2) duplicate-free in (account, asset) *)
Lemma fold_vadd_gen_nodup (hk : key * vol -> key) l : forall acc,
  NoDup (map fst acc) -> NoDup (map fst (fold_left (fun acc kv => vadd acc (hk kv) (snd kv)) l acc)).
Proof. induction l as [|kv r IH]; intros acc H; cbn [fold_left]; [exact H|]. apply IH, vadd_nodup, H. Qed.

Theorem regroup_nodup tr v : NoDup (map fst (regroup tr v)).
Proof. unfold regroup. apply (fold_vadd_gen_nodup (gkey tr)). constructor. Qed.

(* (3) its keys are exactly the truncated keys of the rows *)
Lemma aset_keys_inv (m : volmap) k v k' : In k' (map fst (aset key_eqb m k v)) -> k' = k \/ In k' (map fst m).
Proof.
  induction m as [|[k0 v0] r IH]; cbn [aset map fst In]; [intros [H|[]]; left; symmetry; exact H|].
  destruct (key_eqb k0 k) eqn:E; cbn [map fst In]; intros [H|H].
  - right; left; exact H.
  - right; right; exact H.
  - right; left; exact H.
  - destruct (IH H) as [G|G]; [left; exact G | right; right; exact G].
Qed.

Lemma fold_vadd_gen_keys (hk : key * vol -> key) l k : forall acc,
  In k (map fst (fold_left (fun acc kv => vadd acc (hk kv) (snd kv)) l acc)) <-> In k (map fst acc) \/ exists kv, In kv l /\ hk kv = k.
Proof.
  induction l as [|kv r IH]; intros acc; cbn [fold_left].
  - split; [intros H; left; exact H | intros [H|(kv & [] & _)]; exact H].
  - rewrite IH. split.
    + intros [H|(x & Hx & E)].
      * apply aset_keys_inv in H. destruct H as [->|H]; [right; exists kv; split; [left; reflexivity | reflexivity] | left; exact H].
      * right. exists x. split; [right; exact Hx | exact E].
    + intros [H|(x & [<-|Hx] & E)].
      * left. apply vadd_keys_mono. exact H.
      * left. rewrite <- E. apply vadd_keys_in.
      * right. exists x. split; assumption.
Qed.

Theorem regroup_keys tr v k : In k (map fst (regroup tr v)) <-> exists kv, In kv v /\ gkey tr kv = k.
Proof.
  unfold regroup. rewrite (fold_vadd_gen_keys (gkey tr) v k []). cbn [map In]. split; [intros [[]|H]; exact H | intros H; right; exact H].
Qed.

(* (4) totals per asset are kept *)
Lemma zsum_cons x l : zsum (x :: l) = x + zsum l.
Proof. reflexivity. Qed.

Lemma total_gen_vadd (pr : vol -> Z) (Hpr : forall a b, pr (vplus a b) = pr a + pr b) c m k d :
  zsum (map (fun kv : key * vol => on_asset c (fst kv) (pr (snd kv))) (vadd m k d))
  = zsum (map (fun kv : key * vol => on_asset c (fst kv) (pr (snd kv))) m) + on_asset c k (pr d).
Proof.
  unfold vadd. induction m as [|[k0 v0] r IH].
  - cbn [aset map]. rewrite zsum_cons. cbn [fst snd zsum map fold_right]. rewrite Hpr. unfold vget. cbn [aget opt_default].
    assert (Z0 : pr (0, 0) = 0) by (pose proof (Hpr (0, 0) (0, 0)) as H; unfold vplus in H; cbn in H; lia).
    rewrite Z0. unfold on_asset. destruct (String.eqb (snd k) c); lia.
  - rewrite vget_cons. cbn [aset]. destruct (key_eqb k0 k) eqn:E.
    + apply pair_eqb_eq in E. subst k0. cbn [map]. rewrite !zsum_cons. cbn [fst snd]. rewrite Hpr.
      unfold on_asset. destruct (String.eqb (snd k) c); lia.
    + cbn [map]. rewrite !zsum_cons. rewrite IH. lia.
Qed.

Lemma total_in_vadd c m k d : total_in c (vadd m k d) = total_in c m + on_asset c k (fst d).
Proof. unfold total_in. apply (total_gen_vadd fst). intros a b. reflexivity. Qed.
Lemma total_out_vadd c m k d : total_out c (vadd m k d) = total_out c m + on_asset c k (snd d).
Proof. unfold total_out. apply (total_gen_vadd snd). intros a b. reflexivity. Qed.

Lemma total_in_cons c kv r : total_in c (kv :: r) = on_asset c (fst kv) (fst (snd kv)) + total_in c r.
Proof. reflexivity. Qed.
Lemma total_out_cons c kv r : total_out c (kv :: r) = on_asset c (fst kv) (snd (snd kv)) + total_out c r.
Proof. reflexivity. Qed.

Lemma fold_regroup_totals c tr l : forall acc,
  total_in c (fold_left (fun acc kv => vadd acc (gkey tr kv) (snd kv)) l acc) = total_in c acc + total_in c l /\
  total_out c (fold_left (fun acc kv => vadd acc (gkey tr kv) (snd kv)) l acc) = total_out c acc + total_out c l.
Proof.
  induction l as [|kv r IH]; intros acc; cbn [fold_left].
  - unfold total_in, total_out. cbn. split; lia.
  - destruct (IH (vadd acc (gkey tr kv) (snd kv))) as [A B]. rewrite A, B, total_in_vadd, total_out_vadd, total_in_cons, total_out_cons.
    unfold gkey, on_asset. cbn [fst snd]. split; lia.
Qed.

Theorem regroup_totals c tr v : total_in c (regroup tr v) = total_in c v /\ total_out c (regroup tr v) = total_out c v.
Proof.
  destruct (fold_regroup_totals c tr v []) as [A B].
  split; [etransitivity; [exact A|] | etransitivity; [exact B|]]; reflexivity.
Qed.

(* ---------- the statements for group_volumes (g = 0: no grouping) ---------- *)
Lemma vget_rowsum v k : NoDup (map fst v) -> vget v k = vsum (map snd (filter (fun kv => key_eqb (fst kv) k) v)).
Proof.
  induction v as [|[k0 d0] r IH]; intros Hn; [reflexivity|]. inversion Hn as [|? ? Hnot Hr]; subst.
  rewrite vget_cons. cbn [filter fst]. destruct (key_eqb k0 k) eqn:E.
  - apply pair_eqb_eq in E. subst k0. cbn [map snd vsum fold_right]. fold (vsum (map snd (filter (fun kv => key_eqb (fst kv) k) r))).
    rewrite <- (IH Hr), (vget_notin r k Hnot), vplus_0_r. reflexivity.
  - apply IH. exact Hr.
Qed.

Definition in_group (g : nat) (p : addr) (c : asset) (kv : key * vol) : bool :=
  key_eqb (truncate_addr g (fst (fst kv)), snd (fst kv)) (p, c).

Theorem group_volumes_vget g v p c : NoDup (map fst v) ->
  vget (group_volumes g v) (p, c) = vsum (map snd (filter (in_group g p c) v)).
Proof.
  intros Hn. destruct g as [|g].
  - cbn [group_volumes]. rewrite (vget_rowsum v (p, c) Hn). apply (f_equal (fun l => vsum (map snd l))). apply filter_ext. intros [[a c'] d]. reflexivity.
  - cbn [group_volumes]. rewrite regroup_vget. reflexivity.
Qed.

Theorem group_volumes_nodup g v : NoDup (map fst v) -> NoDup (map fst (group_volumes g v)).
Proof. intros Hn. destruct g; [exact Hn | apply regroup_nodup]. Qed.

Theorem group_volumes_keys g v k :
  In k (map fst (group_volumes g v)) <-> exists a c, In (a, c) (map fst v) /\ k = (truncate_addr g a, c).
Proof.
  destruct g as [|g]; cbn [group_volumes].
  - split.
    + intros H. destruct k as [a c]. exists a, c. split; [exact H | reflexivity].
    + intros (a & c & H & ->). exact H.
  - rewrite regroup_keys. split.
    + intros ([[a c] d] & Hin & <-). exists a, c. split; [apply in_map_iff; exists (a, c, d); split; [reflexivity | exact Hin] | reflexivity].
    + intros (a & c & H & ->). apply in_map_iff in H. destruct H as ([[a' c'] d] & E & Hin). cbn in E. inversion E; subst.
      exists (a, c, d). split; [exact Hin | reflexivity].
Qed.

Theorem group_volumes_totals g c v :
  total_in c (group_volumes g v) = total_in c v /\ total_out c (group_volumes g v) = total_out c v.
Proof. destruct g; [split; reflexivity | apply regroup_totals]. Qed.

(* ---------- over histories: the listings GetVolumesWithBalances groups are duplicate-free ---------- *)
Lemma group_moves_nodup ms : NoDup (map fst (group_moves ms)).
Proof.
  unfold group_moves.
  assert (G : forall acc : volmap, NoDup (map fst acc) ->
              NoDup (map fst (fold_left (fun acc m => vadd acc (m_acc m, m_asset m) (mdelta' m)) ms acc))).
  { induction ms as [|m r IH]; intros acc H; cbn [fold_left]; [exact H|]. apply IH, vadd_nodup, H. }
  apply G. constructor.
Qed.

Theorem read_volumes_nodup f h w u : read_volumes f (run f h) w = Some u -> NoDup (map fst u).
Proof.
  unfold read_volumes. intros H.
  destruct (w_pit w), (w_oot w); try (destruct (f_moves f); [|discriminate]); inversion H; subst; try apply group_moves_nodup.
  exact (inv_vol_nodup _ (run_invK f h)).
Qed.

Theorem read_volumes_grouped_nodup f h w g v : read_volumes_grouped f (run f h) w g = Some v -> NoDup (map fst v).
Proof.
  unfold read_volumes_grouped. destruct (read_volumes f (run f h) w) as [u|] eqn:Hu; [|discriminate]. cbn [option_map]. intros H. inversion H; subst v.
  apply group_volumes_nodup. exact (read_volumes_nodup f h w u Hu).
Qed.

(* C01 flavour over histories: the grouped listing of the current volumes conserves every asset *)
Theorem grouped_conservation f h g c :
  total_in c (group_volumes g (s_vols (run f h))) = total_out c (group_volumes g (s_vols (run f h))).
Proof.
  destruct (group_volumes_totals g c (s_vols (run f h))) as [A B]. rewrite A, B.
  apply conservation_of_inv; [exact (proj1 (run_inv f h)) | exact (run_invK f h)].
Qed.
