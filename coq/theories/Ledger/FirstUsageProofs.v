(* C18, functional half: after ANY history, the first usage of every account is the earliest effective timestamp among the
   events recorded in the log that involve it -- transactions created with it (postings or account metadata) at the
   transaction's timestamp, and metadata written on it at the date of the write -- and an account is listed exactly when
   such an event exists.  Revert transactions are NOT events for the code (known finding KF-C18): the statement below
   is exact about that, and the full statement of the property follows for every history whose log has no revert. *)
From Coq Require Import List ZArith String Bool Lia.
From LV Require Import Base.Util Ledger.Types Ledger.Core Ledger.Invariants Ledger.AccountProofs.
Import ListNotations.
Open Scope Z_scope.

(* ---------- the events of a log entry ---------- *)
Definition log_events (l : log) : list (addr * Z) :=
  match l_payload l with
  | PNewTx t amd => map (fun a => (a, t_ts t)) (involved_accounts (t_postings t) amd)
  | PSetMeta (TAcc a) _ => [(a, l_date l)]
  | _ => []
  end.
(* what the property's text also counts: the accounts of a revert transaction at its timestamp *)
Definition log_events_full (l : log) : list (addr * Z) :=
  match l_payload l with
  | PRevert _ r => map (fun a => (a, t_ts r)) (involved_accounts (t_postings r) [])
  | _ => log_events l
  end.

Definition lower (m : option Z) (e : Z) : option Z := Some (match m with Some x => Z.min e x | None => e end).
Definition ev_min (evs : list (addr * Z)) (a : addr) (m : option Z) : option Z :=
  fold_left (fun m ae => if String.eqb (fst ae) a then lower m (snd ae) else m) evs m.
Definition min_events (ev : log -> list (addr * Z)) (logs : list log) (a : addr) : option Z :=
  fold_left (fun m l => ev_min (ev l) a m) logs None.

(* the first-usage view of the accounts table *)
Definition fu (accs : list account) (a : addr) : option Z := option_map a_first (find_account accs a).

(* ---------- specification of the minimum ---------- *)
Lemma ev_min_spec evs a : forall m,
  match ev_min evs a m with
  | None => m = None /\ (forall e, ~ In (a, e) evs)
  | Some r => (m = Some r \/ In (a, r) evs) /\ (forall x, m = Some x -> r <= x) /\ (forall e, In (a, e) evs -> r <= e)
  end.
Proof.
  induction evs as [|[b e] evs IH]; intros m; cbn [ev_min fold_left].
  - destruct m as [x|]; [split; [left; reflexivity | split; [intros y E; inversion E; lia | intros e []]] | split; [reflexivity | intros e []]].
  - change (fold_left _ evs ?z) with (ev_min evs a z). cbn [fst snd].
    destruct (String.eqb b a) eqn:E.
    + apply String.eqb_eq in E. subst b. specialize (IH (lower m e)). destruct (ev_min evs a (lower m e)) as [r|].
      * destruct IH as (H1 & H2 & H3). unfold lower in *. split; [|split].
        -- destruct H1 as [H1|H1]; [|right; right; exact H1]. inversion H1 as [H1']. destruct m as [x|].
           ++ destruct (Z.min_spec e x) as [[_ Em]|[_ Em]]; rewrite Em; [right; left; reflexivity | left; reflexivity].
           ++ right; left; reflexivity.
        -- intros x Ex. subst m. specialize (H2 _ eq_refl). lia.
        -- intros e' [Ei|Ei]; [inversion Ei; subst e'; specialize (H2 _ eq_refl); destruct m; lia | apply H3; exact Ei].
      * destruct IH as [IH _]. discriminate IH.
    + specialize (IH m). destruct (ev_min evs a m) as [r|].
      * destruct IH as (H1 & H2 & H3). split; [|split].
        -- destruct H1 as [H1|H1]; [left; exact H1 | right; right; exact H1].
        -- exact H2.
        -- intros e' [Ei|Ei]; [inversion Ei; subst; rewrite String.eqb_refl in E; discriminate | apply H3; exact Ei].
      * destruct IH as [H1 H2]. split; [exact H1|]. intros e' [Ei|Ei]; [inversion Ei; subst; rewrite String.eqb_refl in E; discriminate | exact (H2 _ Ei)].
Qed.

Lemma min_events_spec ev logs a :
  match min_events ev logs a with
  | None => forall l e, In l logs -> ~ In (a, e) (ev l)
  | Some r => (exists l, In l logs /\ In (a, r) (ev l)) /\ (forall l e, In l logs -> In (a, e) (ev l) -> r <= e)
  end.
Proof.
  unfold min_events.
  assert (G : forall logs m,
    match fold_left (fun m l => ev_min (ev l) a m) logs m with
    | None => m = None /\ forall l e, In l logs -> ~ In (a, e) (ev l)
    | Some r => (m = Some r \/ exists l, In l logs /\ In (a, r) (ev l)) /\ (forall x, m = Some x -> r <= x) /\
                (forall l e, In l logs -> In (a, e) (ev l) -> r <= e)
    end).
  { clear logs. induction logs as [|l logs IH]; intros m; cbn [fold_left].
    - destruct m as [x|]; [split; [left; reflexivity | split; [intros y E; inversion E; lia | intros l e []]] | split; [reflexivity | intros l e []]].
    - specialize (IH (ev_min (ev l) a m)). pose proof (ev_min_spec (ev l) a m) as S.
      destruct (fold_left _ logs _) as [r|].
      + destruct IH as (H1 & H2 & H3). destruct (ev_min (ev l) a m) as [r0|].
        * destruct S as (S1 & S2 & S3). specialize (H2 _ eq_refl). split; [|split].
          -- destruct H1 as [H1|(l' & Hl & Hi)]; [|right; exists l'; split; [right; exact Hl | exact Hi]].
             inversion H1; subst r0. destruct S1 as [S1|S1]; [left; exact S1 | right; exists l; split; [left; reflexivity | exact S1]].
          -- intros x Ex. specialize (S2 _ Ex). lia.
          -- intros l' e [El|Hl] Hi; [subst l'; specialize (S3 _ Hi); lia | exact (H3 _ _ Hl Hi)].
        * destruct S as [S1 S2]. split; [|split].
          -- destruct H1 as [H1|(l' & Hl & Hi)]; [discriminate H1 | right; exists l'; split; [right; exact Hl | exact Hi]].
          -- intros x Ex. rewrite S1 in Ex. discriminate Ex.
          -- intros l' e [El|Hl] Hi; [subst l'; exfalso; exact (S2 _ Hi) | exact (H3 _ _ Hl Hi)].
      + destruct IH as [H1 H2]. rewrite H1 in S. destruct S as [S1 S2]. split; [exact S1|].
        intros l' e [El|Hl]; [subst l'; apply S2 | apply H2; exact Hl]. }
  specialize (G logs None). destruct (fold_left _ logs None) as [r|].
  - destruct G as (H1 & _ & H3). split; [destruct H1 as [H1|H1]; [discriminate H1 | exact H1] | exact H3].
  - exact (proj2 G).
Qed.

Lemma min_events_snoc ev logs l a : min_events ev (logs ++ [l]) a = ev_min (ev l) a (min_events ev logs a).
Proof. unfold min_events. rewrite fold_left_app. reflexivity. Qed.

Lemma ev_min_same e (L : list addr) a m :
  ev_min (map (fun b => (b, e)) L) a m = if existsb (String.eqb a) L then lower m e else m.
Proof.
  revert m. induction L as [|b L IH]; intros m; [reflexivity|].
  cbn [map ev_min fold_left fst snd existsb]. change (fold_left _ (map _ L) ?z) with (ev_min (map (fun b => (b, e)) L) a z).
  rewrite IH. rewrite (String.eqb_sym a b). destruct (String.eqb b a); cbn [orb]; [|reflexivity].
  destruct (existsb (String.eqb a) L); [|reflexivity]. unfold lower. destruct m as [x|]; f_equal; lia.
Qed.

(* ---------- UpsertAccounts on the first-usage view ---------- *)
Lemma find_app_some {A} (g : A -> bool) l l2 x : find g l = Some x -> find g (l ++ l2) = Some x.
Proof. induction l as [|y r IH]; simpl; [discriminate|]. destruct (g y); [auto | exact IH]. Qed.
Lemma find_map_addr (g : account -> account) accs b :
  (forall y, a_addr (g y) = a_addr y) -> find_account (map g accs) b = option_map g (find_account accs b).
Proof.
  intros Hg. unfold find_account. induction accs as [|y r IH]; [reflexivity|]. cbn [map find]. rewrite Hg.
  destruct (String.eqb (a_addr y) b); [reflexivity | exact IH].
Qed.

Lemma find_account_addr accs a x : find_account accs a = Some x -> a_addr x = a.
Proof. unfold find_account. intros H. apply find_some in H. destruct H as [_ H]. apply String.eqb_eq in H. exact H. Qed.

Lemma upsert_account_fu h now accs hist a md e ins upd b :
  fu (fst (upsert_account h now (accs, hist) a md (Some e) ins upd)) b =
  if String.eqb b a then lower (fu accs a) e else fu accs b.
Proof.
  unfold upsert_account, fu. destruct (find_account accs a) as [x|] eqn:F.
  - destruct (acc_needs_update x md (Some e)) eqn:N; cbn [fst].
    + rewrite find_map_addr by (intros y; destruct (_ && _); reflexivity).
      destruct (String.eqb b a) eqn:E.
      * apply String.eqb_eq in E. subst b. rewrite F. cbn [option_map]. rewrite (find_account_addr _ _ _ F), String.eqb_refl, N. reflexivity.
      * destruct (find_account accs b) as [y|] eqn:Fb; [|reflexivity]. cbn [option_map].
        rewrite (find_account_addr _ _ _ Fb), E. reflexivity.
    + destruct (String.eqb b a) eqn:E; [|reflexivity]. apply String.eqb_eq in E. subst b. rewrite F. cbn [option_map lower].
      unfold acc_needs_update in N. apply orb_false_iff in N. destruct N as [N _]. apply Z.ltb_ge in N. unfold lower. f_equal. lia.
  - cbn [fst]. unfold find_account in *. destruct (String.eqb b a) eqn:E.
    + apply String.eqb_eq in E. subst b. rewrite find_app_none by exact F. cbn [find a_addr]. rewrite String.eqb_refl. reflexivity.
    + destruct (find (fun x => String.eqb (a_addr x) b) accs) as [y|] eqn:Fb.
      * rewrite (find_app_some _ _ _ _ Fb). reflexivity.
      * rewrite find_app_none by exact Fb. cbn [find a_addr]. rewrite (String.eqb_sym a b), E. reflexivity.
Qed.

Lemma upsert_fold_fu h now (g : addr -> meta) e ins upd b (L : list addr) : forall st,
  fu (fst (fold_left (fun st a => upsert_account h now st a (g a) (Some e) ins upd) L st)) b =
  if existsb (String.eqb b) L then lower (fu (fst st) b) e else fu (fst st) b.
Proof.
  induction L as [|a L IH]; intros [accs hist]; [reflexivity|]. cbn [fold_left existsb]. rewrite IH.
  rewrite (upsert_account_fu h now accs hist a (g a) e ins upd b). cbn [fst].
  destruct (String.eqb b a) eqn:E; cbn [orb].
  - apply String.eqb_eq in E. subst b. destruct (existsb (String.eqb a) L); [|reflexivity].
    unfold lower. destruct (fu accs a); f_equal; lia.
  - reflexivity.
Qed.

(* ---------- the invariant ---------- *)
Definition FU (s : state) : Prop := forall a, fu (s_accounts s) a = min_events log_events (s_logs s) a.

Lemma upsert_tx_accounts_fu f now s t amd b :
  fu (s_accounts (upsert_tx_accounts f now s t amd)) b =
  if existsb (String.eqb b) (involved_accounts (t_postings t) amd) then lower (fu (s_accounts s) b) (t_ts t) else fu (s_accounts s) b.
Proof.
  unfold upsert_tx_accounts.
  pose proof (upsert_fold_fu (f_acc_hist f) now (amd_get amd) (t_ts t) (Some (t_ins t)) (Some (t_ins t)) b
                (involved_accounts (t_postings t) amd) (s_accounts s, s_ahist s)) as H.
  destruct (fold_left _ _ _) as [accs hist]. exact H.
Qed.

Lemma upsert_tx_accounts_logs f now s t amd : s_logs (upsert_tx_accounts f now s t amd) = s_logs s.
Proof. unfold upsert_tx_accounts. destruct (fold_left _ _ _). reflexivity. Qed.

(* what a committed operation does to the first-usage view, in terms of the payload it logs *)
Lemma run_input_fu f now s i s1 p :
  run_input f now s i = Done s1 p -> s_logs s1 = s_logs s /\
  forall l, l_payload l = p -> l_date l = now -> forall a, fu (s_accounts s1) a = ev_min (log_events l) a (fu (s_accounts s) a).
Proof.
  script_split i.
  { cbn [run_input]. unfold create_tx. destruct ps as [|p0 ps']; [discriminate|].
    destruct (feasible force (s_vols s) (p0 :: ps')); cbn [negb]; [|discriminate].
    destruct (commit_transaction f now s (p0 :: ps') md ts ref) as [s2 [t|]] eqn:E; [|discriminate].
    intros H. inversion H; subst s1 p. clear H.
    pose proof (commit_accounts _ _ _ _ _ _ _ _ _ E) as Ha.
    assert (Hl : s_logs s2 = s_logs s) by (apply commit_some in E; tauto).
    split; [rewrite upsert_tx_accounts_logs; exact Hl|].
    intros l Hp _ b. unfold log_events. rewrite Hp. rewrite ev_min_same, upsert_tx_accounts_fu, Ha. reflexivity. }
  destruct i as [ps ts ref md amd force | id force at_eff rmeta | [a|id] md | [a|id] k | ps ts ref md amd force smd samd];
    [apply Hc | | | | | | script_bullet Hc]; cbn [run_input].
  - destruct (find_tx (s_txs s) id) as [t|]; [|discriminate].
    destruct (t_rev t); [discriminate|].
    match goal with |- context [match ?c with RCOk => _ | RCInsufficient => _ | RCPanic => _ end] => destruct c end; try discriminate.
    match goal with |- context [commit_transaction ?a ?b ?c ?d ?e ?g ?h] => destruct (commit_transaction a b c d e g h) as [s2 [r|]] eqn:E end; [|discriminate].
    intros H. inversion H; subst s1 p. clear H.
    pose proof (commit_accounts _ _ _ _ _ _ _ _ _ E) as Ha.
    assert (Hl : s_logs s2 = s_logs (touch_tx f s t (fun x => tx_with x (t_meta x) now (Some now)))) by (apply commit_some in E; tauto).
    split; [rewrite Hl; reflexivity|].
    intros l Hp _ b. unfold log_events. rewrite Hp, Ha. reflexivity.
  - intros H. injection H as Hs1 Hp0. subst s1 p. split; [reflexivity|].
    intros l Hp Hd b. unfold log_events. rewrite Hp, Hd. cbn [with_accounts s_accounts].
    etransitivity; [exact (upsert_account_fu (f_acc_hist f) now (s_accounts s) (s_ahist s) a md now None None b)|]. cbn [ev_min fold_left fst snd].
    rewrite (String.eqb_sym a b). destruct (String.eqb b a) eqn:E; [|reflexivity]. apply String.eqb_eq in E. subst b. reflexivity.
  - destruct (find_tx (s_txs s) id) as [t|]; [|discriminate].
    destruct (mcontains (t_meta t) md); intros H; inversion H; subst s1 p; (split; [reflexivity|]); intros l Hp _ b; unfold log_events; rewrite Hp; reflexivity.
  - destruct (find_account (s_accounts s) a) as [x|]; intros H; inversion H; subst s1 p; (split; [reflexivity|]); intros l Hp _ b;
      unfold log_events; rewrite Hp; cbn [ev_min fold_left]; [|reflexivity].
    cbn [with_accounts s_accounts fst]. unfold fu. rewrite find_map_addr by (intros y; destruct (String.eqb (a_addr y) a); reflexivity).
    destruct (find_account (s_accounts s) b) as [y|]; [|reflexivity]. cbn [option_map]. destruct (String.eqb (a_addr y) a); reflexivity.
  - destruct (find_tx (s_txs s) id) as [t|]; [|discriminate].
    destruct (mget (t_meta t) k); intros H; inversion H; subst s1 p; (split; [reflexivity|]); intros l Hp _ b; unfold log_events; rewrite Hp; reflexivity.
Qed.

Lemma step_fu f now s o s' r : FU s -> step f now s o = SR s' r -> FU s'.
Proof.
  intros Hs. unfold step. destruct (find_ik (s_logs s) (o_ik o)) as [l|].
  - destruct (input_eq_dec (l_input l) (o_in o)); intros H; inversion H; subst; exact Hs.
  - destruct (run_input f now s (o_in o)) as [s1 p|s1 e1|] eqn:R; [| |discriminate].
    + destruct (run_input_fu _ _ _ _ _ _ R) as [Hl Hf].
      destruct (o_dry o); intros H; inversion H; subst s'; clear H.
      * intros a. exact (Hs a).
      * intros a. cbn [append_log s_accounts s_logs]. rewrite Hl, min_events_snoc, <- (Hs a).
        apply Hf; reflexivity.
    + intros H; inversion H; subst. intros a. exact (Hs a).
Qed.

Lemma run_from_fu f h : forall s, FU s -> FU (fold_left (fun s no => match step f (fst no) s (snd no) with SR s' _ => s' | SPanic => s end) h s).
Proof.
  induction h as [|[now o] h IH]; intros s Hs; [exact Hs|]. cbn [fold_left fst snd].
  apply IH. destruct (step f now s o) as [s' r|] eqn:E; [exact (step_fu _ _ _ _ _ _ Hs E) | exact Hs].
Qed.

Theorem run_fu f h : FU (run f h).
Proof. apply run_from_fu. intros a. reflexivity. Qed.

(* ---------- histories without reverts: the events are all the events the property counts ---------- *)
Definition no_revert_log (l : log) : Prop := match l_payload l with PRevert _ _ => False | _ => True end.

Lemma min_events_full logs a : Forall no_revert_log logs -> min_events log_events_full logs a = min_events log_events logs a.
Proof.
  intros H. unfold min_events. generalize (@None Z). induction H as [|l logs Hl _ IH]; intros m; [reflexivity|].
  cbn [fold_left]. rewrite IH. f_equal. unfold log_events_full, no_revert_log in *. destruct (l_payload l); try reflexivity. destruct Hl.
Qed.
