(* C11: the per-log simulation of importLog (Ledger/Import.v) against the write path (Ledger/Core.v:step), and the round
   trip over all histories.

   Sim f mv acc s c relates the source s and the copy c:
     ALWAYS      volumes, the transactions table up to post-commit EFFECTIVE volumes (ids, postings, metadata, timestamps,
                 references, inserted_at, updated_at, reverted_at, post-commit volumes), the transaction metadata history,
                 the logs; of the accounts table: the addresses, the current metadata and the insertion dates (row by row);
     mv = true   additionally the moves table (seq included), the effective volumes and the moves sequence: holds along
                 histories without dry runs, or without MOVES_HISTORY (a dry run consumes moves.seq values on the source);
     acc = true  additionally the accounts table (first usage, insertion date, updated_at) and the account metadata
                 history: holds along histories without DELETE_METADATA on accounts (its import is dated at the import:
                 C11_refuted_updated_at); SET_METADATA on accounts is covered since importLog replays the upsert of the write
                 path dated at the log (imp_acc_set_is_write). *)
From Coq Require Import List ZArith String Bool Ascii Lia Sorted.
From LV Require Import Base.Util Base.Json Ledger.Types Ledger.Core Ledger.Bulk Ledger.Invariants Ledger.ReplayProofs Ledger.HashChain Ledger.Import Ledger.ImportProofs.
Import ListNotations.
Open Scope Z_scope.

(* ---------------------------------------------------------------- the transaction row without effective volumes *)
Definition tx_core (t : tx) : tx :=
  {| t_id := t_id t; t_postings := t_postings t; t_meta := t_meta t; t_ts := t_ts t; t_ref := t_ref t; t_ins := t_ins t;
     t_upd := t_upd t; t_rev := t_rev t; t_pcv := t_pcv t; t_pcev := None |}.

Lemma existsb_core (g : tx -> bool) (l : list tx) : existsb (fun x => g (tx_core x)) l = existsb g (map tx_core l).
Proof. induction l as [|a r IH]; [reflexivity|]. simpl. rewrite IH. reflexivity. Qed.

Lemma id_taken_core a b id : map tx_core a = map tx_core b -> id_taken a id = id_taken b id.
Proof.
  intros E. unfold id_taken.
  transitivity (existsb (fun y => t_id y =? id) (map tx_core a)); [exact (existsb_core (fun y => t_id y =? id) a)|].
  rewrite E. symmetry. exact (existsb_core (fun y => t_id y =? id) b).
Qed.

Lemma ref_taken_core a b r : map tx_core a = map tx_core b -> ref_taken a r = ref_taken b r.
Proof.
  intros E. unfold ref_taken.
  transitivity (existsb (fun y => String.eqb (t_ref y) r) (map tx_core a)); [exact (existsb_core (fun y => String.eqb (t_ref y) r) a)|].
  rewrite E. symmetry. exact (existsb_core (fun y => String.eqb (t_ref y) r) b).
Qed.

Lemma cons_inj {A} (x y : A) l l' : x :: l = y :: l' -> x = y /\ l = l'.
Proof. intros E. inversion E. split; reflexivity. Qed.

Lemma find_tx_core a : forall b id, map tx_core a = map tx_core b ->
  match find_tx a id, find_tx b id with
  | Some x, Some y => tx_core x = tx_core y
  | None, None => True
  | _, _ => False
  end.
Proof.
  unfold find_tx. induction a as [|x a IH]; intros [|y b] id E; try discriminate; [exact I|].
  destruct (cons_inj _ _ _ _ E) as [E1 E2]. simpl.
  assert (Hid : t_id x = t_id y) by (change (t_id (tx_core x) = t_id (tx_core y)); rewrite E1; reflexivity).
  rewrite Hid. destruct (t_id y =? id); [exact E1 | apply IH; exact E2].
Qed.

Definition commutes (fn : tx -> tx) : Prop := forall x, tx_core (fn x) = fn (tx_core x).

Lemma map_tx_core a : forall b id fn, commutes fn -> map tx_core a = map tx_core b ->
  map tx_core (map_tx a id fn) = map tx_core (map_tx b id fn).
Proof.
  unfold map_tx. induction a as [|x a IH]; intros [|y b] id fn C E; try discriminate; [reflexivity|].
  destruct (cons_inj _ _ _ _ E) as [E1 E2]. simpl.
  assert (Hid : t_id x = t_id y) by (change (t_id (tx_core x) = t_id (tx_core y)); rewrite E1; reflexivity).
  rewrite Hid. f_equal; [|apply IH; assumption].
  destruct (t_id y =? id); [rewrite !C, E1; reflexivity | exact E1].
Qed.

Lemma commutes_tx_with (g : meta -> meta) (upd : Z) (h : option Z -> option Z) :
  commutes (fun y => tx_with y (g (t_meta y)) upd (h (t_rev y))).
Proof. intros x. reflexivity. Qed.

(* ---------------------------------------------------------------- the account row without first usage / updated_at *)
Definition aview := (addr * meta * Z)%type.                      (* address, current metadata, insertion date *)
Definition av (a : account) : aview := (a_addr a, a_meta a, a_ins a).
Definition av_addr (v : aview) : addr := fst (fst v).
Definition av_set (g : meta -> meta) (a : addr) (v : aview) : aview :=
  if String.eqb (av_addr v) a then (av_addr v, g (snd (fst v)), snd v) else v.
Definition av_has (l : list aview) (a : addr) : bool := existsb (fun v => String.eqb (av_addr v) a) l.
(* what an upsert (of a transaction, of a metadata write, of an imported SET_METADATA) does to this view *)
Definition av_upsert (l : list aview) (a : addr) (md : meta) (ins : Z) : list aview :=
  if av_has l a then map (av_set (fun m => mmerge m md) a) l else l ++ [(a, md, ins)].

Lemma av_addrs (accs : list account) : map av_addr (map av accs) = map a_addr accs.
Proof. rewrite map_map. reflexivity. Qed.

Lemma find_account_has accs a : av_has (map av accs) a = match find_account accs a with Some _ => true | None => false end.
Proof.
  unfold av_has, find_account. induction accs as [|y r IH]; [reflexivity|]. simpl. unfold av_addr at 1. simpl.
  destruct (String.eqb (a_addr y) a); [reflexivity | exact IH].
Qed.

Lemma find_account_some accs a x : find_account accs a = Some x -> In x accs /\ a_addr x = a.
Proof. unfold find_account. intros F. apply find_some in F. destruct F as [Hin E]. apply String.eqb_eq in E. split; assumption. Qed.

Lemma nodup_addr_unique accs x y : NoDup (map a_addr accs) -> In x accs -> In y accs -> a_addr y = a_addr x -> y = x.
Proof.
  induction accs as [|z r IH]; intros Hnd Hx Hy E; [destruct Hx|].
  simpl in Hnd. inversion Hnd as [|? ? Hnot Hnd']; subst.
  destruct Hx as [->|Hx], Hy as [->|Hy]; try reflexivity.
  - exfalso. apply Hnot. rewrite <- E. apply in_map. exact Hy.
  - exfalso. apply Hnot. rewrite E. apply in_map. exact Hx.
  - apply IH; assumption.
Qed.

Lemma av_set_same_addr g a l : map av_addr (map (av_set g a) l) = map av_addr l.
Proof. rewrite map_map. apply map_ext. intros v. unfold av_set. destruct (String.eqb (av_addr v) a); reflexivity. Qed.

Lemma av_has_false_notin l a : av_has l a = false -> ~ In a (map av_addr l).
Proof.
  unfold av_has. intros Hf Hin. apply in_map_iff in Hin. destruct Hin as [v [E Hin]].
  assert (X : existsb (fun v0 => String.eqb (av_addr v0) a) l = true) by (apply existsb_exists; exists v; split; [exact Hin | rewrite E; apply String.eqb_refl]).
  rewrite X in Hf. discriminate.
Qed.

Lemma av_upsert_nodup l a md ins : NoDup (map av_addr l) -> NoDup (map av_addr (av_upsert l a md ins)).
Proof.
  intros Hnd. unfold av_upsert. destruct (av_has l a) eqn:Hh.
  - rewrite av_set_same_addr. exact Hnd.
  - rewrite map_app. simpl. apply nodup_snoc; [exact Hnd | apply av_has_false_notin; exact Hh].
Qed.

Lemma av_set_noop g a l : av_has l a = false -> map (av_set g a) l = l.
Proof.
  unfold av_has. induction l as [|v r IH]; [reflexivity|]. simpl. intros Hf. apply orb_false_iff in Hf. destruct Hf as [H1 H2].
  unfold av_set at 1. rewrite H1, (IH H2). reflexivity.
Qed.

Lemma needs_false_merge x md first : acc_needs_update x md first = false -> mmerge (a_meta x) md = a_meta x.
Proof.
  unfold acc_needs_update. intros Hf. apply orb_false_iff in Hf. destruct Hf as [_ Hc]. apply negb_false_iff in Hc.
  apply ReplayProofs.mmerge_contained. exact Hc.
Qed.

(* Store.UpsertAccounts on the view: whether or not the UPDATE fires (that depends on first usage), the view of the
   result is av_upsert of the view *)
Lemma upsert_account_av h now accs hist a md first ins upd :
  NoDup (map a_addr accs) ->
  map av (fst (upsert_account h now (accs, hist) a md first ins upd)) = av_upsert (map av accs) a md (opt_default now ins).
Proof.
  intros Hnd. unfold upsert_account, av_upsert. rewrite find_account_has.
  destruct (find_account accs a) as [x|] eqn:F.
  - destruct (find_account_some _ _ _ F) as [Hin Hx].
    destruct (acc_needs_update x md first) eqn:N; cbn [fst].
    + rewrite !map_map. apply map_ext. intros y. unfold av_set, av, av_addr. cbn [fst snd].
      destruct (String.eqb (a_addr y) a); cbn [andb]; [|reflexivity].
      destruct (acc_needs_update y md first) eqn:Ny; [reflexivity|]. cbn [a_addr a_meta a_ins]. rewrite (needs_false_merge _ _ _ Ny). reflexivity.
    + rewrite map_map. rewrite <- (map_id accs) at 1. rewrite map_map. apply map_ext_in. intros y Hy. unfold av_set, av, av_addr. cbn [fst snd].
      destruct (String.eqb (a_addr y) a) eqn:E; [|reflexivity]. apply String.eqb_eq in E.
      assert (y = x) by (apply (nodup_addr_unique accs); [exact Hnd | exact Hin | exact Hy | congruence]). subst y.
      rewrite (needs_false_merge _ _ _ N). reflexivity.
  - cbn [fst]. rewrite map_app. reflexivity.
Qed.

Lemma imp_acc_set_av h d accs hist a md :
  NoDup (map a_addr accs) ->
  map av (fst (imp_acc_set h d (accs, hist) a md)) = av_upsert (map av accs) a md d.
Proof. intros Hnd. unfold imp_acc_set. rewrite (upsert_account_av h d accs hist a md (Some d) (Some d) (Some d) Hnd). reflexivity. Qed.

(* the import of SET_METADATA on an account IS the write at the log date *)
Lemma imp_acc_set_is_write h d st a md : imp_acc_set h d st a md = upsert_account h d st a md (Some d) None None.
Proof. unfold imp_acc_set, upsert_account. destruct st as [accs hist]. reflexivity. Qed.

(* the fold of UpsertAccounts over the accounts of a transaction *)
Lemma upsert_fold_av h now (g : addr -> meta) first ins upd (l : list addr) : forall accs hist,
  NoDup (map a_addr accs) ->
  map av (fst (fold_left (fun st a => upsert_account h now st a (g a) first ins upd) l (accs, hist))) =
  fold_left (fun v a => av_upsert v a (g a) (opt_default now ins)) l (map av accs).
Proof.
  induction l as [|a r IH]; intros accs hist Hnd; [reflexivity|].
  cbn [fold_left]. destruct (upsert_account h now (accs, hist) a (g a) first ins upd) as [accs1 hist1] eqn:U.
  assert (E1 : map av accs1 = av_upsert (map av accs) a (g a) (opt_default now ins)).
  { pose proof (upsert_account_av h now accs hist a (g a) first ins upd Hnd) as X. rewrite U in X. exact X. }
  rewrite IH.
  - rewrite E1. reflexivity.
  - rewrite <- av_addrs, E1. apply av_upsert_nodup. rewrite av_addrs. exact Hnd.
Qed.

Lemma av_fold_nodup (g : addr -> meta) ins (l : list addr) : forall v, NoDup (map av_addr v) ->
  NoDup (map av_addr (fold_left (fun v a => av_upsert v a (g a) ins) l v)).
Proof. induction l as [|a r IH]; intros v Hnd; [exact Hnd|]. cbn [fold_left]. apply IH. apply av_upsert_nodup. exact Hnd. Qed.

(* ---------------------------------------------------------------- the relation *)
Record Sim (f : features) (mv acc : bool) (s c : state) : Prop := {
  sim_vols : s_vols c = s_vols s;
  sim_txs : map tx_core (s_txs c) = map tx_core (s_txs s);
  sim_thist : s_thist c = s_thist s;
  sim_logs : s_logs c = s_logs s;
  sim_mv : mv = true -> s_moves c = s_moves s /\ s_txs c = s_txs s /\ (f_moves f = true -> s_next_seq c = s_next_seq s);
  sim_acc : acc = true -> s_accounts c = s_accounts s /\ s_ahist c = s_ahist s;
  sim_av : map av (s_accounts c) = map av (s_accounts s);       (* ALWAYS: address, current metadata, insertion date *)
  sim_nd : NoDup (map a_addr (s_accounts s))
}.

Lemma sim_init f mv acc : Sim f mv acc init_state init_state.
Proof. constructor; try reflexivity; try (intros; repeat split; reflexivity). constructor. Qed.

Lemma nodup_copy s c : map av (s_accounts c) = map av (s_accounts s) -> NoDup (map a_addr (s_accounts s)) -> NoDup (map a_addr (s_accounts c)).
Proof. intros E Hnd. rewrite <- av_addrs, E, av_addrs. exact Hnd. Qed.

(* ---------------------------------------------------------------- CommitTransaction *)
Lemma id_fresh s : InvT s -> id_taken (s_txs s) (s_next_tx s) = false.
Proof.
  intros HI. unfold id_taken. destruct (existsb _ _) eqn:E; [|reflexivity].
  apply existsb_exists in E. destruct E as [x [Hin Hx]]. apply Z.eqb_eq in Hx.
  pose proof (inv_ids _ HI) as HF. rewrite Forall_forall in HF. specialize (HF (t_id x) (in_map t_id _ _ Hin)). lia.
Qed.

Lemma imp_commit_sim f mv acc now s c ps md ts ref s1 t :
  InvT s -> Sim f mv acc s c -> commit_transaction f now s ps md ts ref = (s1, Some t) ->
  exists c1 t', imp_commit f c t = inl c1 /\ Sim f mv acc s1 c1 /\ s_accounts c1 = s_accounts c /\ s_ahist c1 = s_ahist c /\
           s_accounts s1 = s_accounts s /\ s_ahist s1 = s_ahist s /\ s_logs c1 = s_logs c /\
           s_txs c1 = s_txs c ++ [t'] /\ tx_core t' = tx_core t /\ (mv = true -> t' = t).
Proof.
  intros HI [Hv Ht Hh Hl Hm Ha Hav Hnd] E.
  pose proof (id_fresh s HI) as Hfresh.
  unfold commit_transaction in E.
  destruct (negb (ref =? "")%string && ref_taken (s_txs s) ref) eqn:R; [inversion E|].
  destruct (if f_moves f then insert_moves (f_pcev f) (s_moves s) (s_next_seq s) (s_next_tx s) now (opt_default now ts)
                               (moves_of (returned_totals (update_volumes (s_vols s) (volume_updates ps)) (volume_updates ps)) ps)
            else (s_moves s, [], s_next_seq s)) as [[mvs nrs] sqs] eqn:M.
  inversion E; subst s1 t; clear E.
  unfold imp_commit. cbn [t_id t_postings t_meta t_ts t_ref t_ins t_upd t_rev].
  rewrite (id_taken_core _ _ _ Ht), Hfresh, (ref_taken_core _ _ _ Ht), R, Hv.
  destruct (if f_moves f then insert_moves (f_pcev f) (s_moves c) (s_next_seq c) (s_next_tx s) now (opt_default now ts)
                               (moves_of (returned_totals (update_volumes (s_vols s) (volume_updates ps)) (volume_updates ps)) ps)
            else (s_moves c, [], s_next_seq c)) as [[mvc nrc] sqc] eqn:Mc.
  eexists. eexists. split; [reflexivity|].
  assert (Hmv : mv = true -> mvc = mvs /\ nrc = nrs /\ (f_moves f = true -> sqc = sqs)).
  { intros Hmv. destruct (Hm Hmv) as (Hm1 & Hm2 & Hm3). rewrite Hm1 in Mc.
    destruct (f_moves f) eqn:Fm.
    - rewrite (Hm3 eq_refl), M in Mc. inversion Mc. repeat split; reflexivity.
    - inversion M; inversion Mc; subst. split; [reflexivity|]. split; [reflexivity|]. intros D; discriminate D. }
  split; [|repeat split; try reflexivity].
  - constructor; cbn [s_vols s_txs s_thist s_logs s_moves s_accounts s_ahist s_next_seq].
    + reflexivity.
    + rewrite !map_app, Ht. reflexivity.
    + rewrite Hh. reflexivity.
    + exact Hl.
    + intros Hmv'. destruct (Hmv Hmv') as (A & B0 & C). destruct (Hm Hmv') as (_ & Hm2 & _). subst mvc nrc.
      split; [reflexivity|]. split; [rewrite Hm2; reflexivity | exact C].
    + exact Ha.
    + exact Hav.
    + exact Hnd.
  - intros Hmv'. destruct (Hmv Hmv') as (_ & B0 & _). subst nrc. reflexivity.
Qed.

(* ---------------------------------------------------------------- row rewrites (revert mark, metadata) *)
Lemma find_tx_sim f mv acc s c id t : Sim f mv acc s c -> find_tx (s_txs s) id = Some t ->
  exists x, find_tx (s_txs c) id = Some x /\ tx_core x = tx_core t /\ (mv = true -> x = t).
Proof.
  intros S F. pose proof (find_tx_core (s_txs c) (s_txs s) id (sim_txs _ _ _ _ _ S)) as G. rewrite F in G.
  destruct (find_tx (s_txs c) id) as [x|] eqn:Fx; [|contradiction].
  exists x. split; [reflexivity|]. split; [exact G|].
  intros Hmv. destruct (sim_mv _ _ _ _ _ S Hmv) as (_ & E & _). rewrite E, F in Fx. inversion Fx. reflexivity.
Qed.

Lemma find_tx_sim_none f mv acc s c id : Sim f mv acc s c -> find_tx (s_txs s) id = None -> find_tx (s_txs c) id = None.
Proof.
  intros S F. pose proof (find_tx_core (s_txs c) (s_txs s) id (sim_txs _ _ _ _ _ S)) as G. rewrite F in G.
  destruct (find_tx (s_txs c) id); [contradiction | reflexivity].
Qed.

Lemma core_fields x t : tx_core x = tx_core t ->
  t_id x = t_id t /\ t_meta x = t_meta t /\ t_rev x = t_rev t /\ t_upd x = t_upd t.
Proof.
  intros E. repeat split.
  - exact (f_equal t_id E).
  - exact (f_equal t_meta E).
  - exact (f_equal t_rev E).
  - exact (f_equal t_upd E).
Qed.

Lemma touch_tx_sim f mv acc s c x t fn :
  Sim f mv acc s c -> tx_core x = tx_core t -> (mv = true -> x = t) -> commutes fn ->
  Sim f mv acc (touch_tx f s t fn) (touch_tx f c x fn).
Proof.
  intros [Hv Ht Hh Hl Hm Ha Hav Hnd] E Ex C.
  assert (Efn : tx_core (fn x) = tx_core (fn t)) by (rewrite !C, E; reflexivity).
  destruct (core_fields _ _ E) as (Eid & _). destruct (core_fields _ _ Efn) as (Eid' & Emeta' & _ & Eupd').
  constructor; unfold touch_tx; cbn [s_vols s_txs s_thist s_logs s_moves s_accounts s_ahist s_next_seq].
  - exact Hv.
  - rewrite Eid. apply map_tx_core; assumption.
  - rewrite Hh, Eid', Emeta', Eupd'. reflexivity.
  - exact Hl.
  - intros Hmv. destruct (Hm Hmv) as (A & B0 & D). rewrite (Ex Hmv), B0. repeat split; assumption.
  - exact Ha.
  - exact Hav.
  - exact Hnd.
Qed.

(* ---------------------------------------------------------------- account upsert of a transaction: the clock is irrelevant *)
Lemma upsert_account_clock h now now' st a md x y z :
  upsert_account h now st a md (Some x) (Some y) (Some z) = upsert_account h now' st a md (Some x) (Some y) (Some z).
Proof. destruct st as [accs hist]. unfold upsert_account, acc_updated, opt_default. reflexivity. Qed.

Lemma fold_left_ext2 {A B} (g g' : A -> B -> A) (l : list B) : (forall a b, g a b = g' a b) -> forall i, fold_left g l i = fold_left g' l i.
Proof. intros E. induction l as [|b r IH]; intros i; [reflexivity|]. simpl. rewrite E. apply IH. Qed.

Lemma upsert_tx_accounts_clock f now now' s t amd : upsert_tx_accounts f now s t amd = upsert_tx_accounts f now' s t amd.
Proof.
  unfold upsert_tx_accounts.
  rewrite (fold_left_ext2 _ (fun st a => upsert_account (f_acc_hist f) now' st a (amd_get amd a) (Some (t_ts t)) (Some (t_ins t)) (Some (t_ins t)))).
  - reflexivity.
  - intros st a. apply upsert_account_clock.
Qed.

Lemma upsert_tx_accounts_accs f now s t amd :
  s_accounts (upsert_tx_accounts f now s t amd) =
  fst (fold_left (fun st a => upsert_account (f_acc_hist f) now st a (amd_get amd a) (Some (t_ts t)) (Some (t_ins t)) (Some (t_ins t)))
                 (involved_accounts (t_postings t) amd) (s_accounts s, s_ahist s)).
Proof. unfold upsert_tx_accounts. destruct (fold_left _ _ _) as [a h]. reflexivity. Qed.

Lemma upsert_tx_accounts_sim f mv acc now now' s c t t' amd :
  Sim f mv acc s c -> tx_core t' = tx_core t ->
  Sim f mv acc (upsert_tx_accounts f now s t amd) (upsert_tx_accounts f now' c t' amd).
Proof.
  intros [Hv Ht Hh Hl Hm Ha Hav Hnd] E.
  assert (Ets : t_ts t' = t_ts t) by exact (f_equal t_ts E).
  assert (Eins : t_ins t' = t_ins t) by exact (f_equal t_ins E).
  assert (Eps : t_postings t' = t_postings t) by exact (f_equal t_postings E).
  rewrite (upsert_tx_accounts_clock f now' now c t' amd).
  destruct (upsert_tx_accounts_frame f now s t amd) as (A1 & A2 & A3 & A4 & A5 & A6 & A7 & A8).
  destruct (upsert_tx_accounts_frame f now c t' amd) as (B1 & B2 & B3 & B4 & B5 & B6 & B7 & B8).
  constructor.
  - rewrite A1, B1. exact Hv.
  - rewrite A2, B2. exact Ht.
  - rewrite A4, B4. exact Hh.
  - rewrite A5, B5. exact Hl.
  - intros Hmv. rewrite A2, B2, A3, B3, A8, B8. apply Hm. exact Hmv.
  - intros Hacc. destruct (Ha Hacc) as [Ea Eh]. unfold upsert_tx_accounts. rewrite Ets, Eins, Eps, Ea, Eh.
    destruct (fold_left _ _ _) as [a h]. split; reflexivity.
  - rewrite !upsert_tx_accounts_accs, Ets, Eins, Eps.
    rewrite (upsert_fold_av _ _ _ _ _ _ _ _ _ (nodup_copy _ _ Hav Hnd)), (upsert_fold_av _ _ _ _ _ _ _ _ _ Hnd), Hav. reflexivity.
  - rewrite upsert_tx_accounts_accs, <- av_addrs, (upsert_fold_av _ _ _ _ _ _ _ _ _ Hnd). apply av_fold_nodup. rewrite av_addrs. exact Hnd.
Qed.

(* SET_METADATA on an account: the write path (UpsertAccounts with NULL dates at [now]) vs. its import
   (UpdateAccountsMetadata dated [now] = the log date) *)
Lemma acc_set_sim f mv acc s c now a md :
  Sim f mv acc s c ->
  Sim f mv acc (with_accounts s (upsert_account (f_acc_hist f) now (s_accounts s, s_ahist s) a md (Some now) None None))
               (with_accounts c (imp_acc_set (f_acc_hist f) now (s_accounts c, s_ahist c) a md)).
Proof.
  intros [Hv Ht Hh Hl Hm Ha Hav Hnd]. constructor; unfold with_accounts; cbn [s_vols s_txs s_thist s_logs s_moves s_accounts s_ahist s_next_seq]; try assumption.
  - (* the import of the log IS the write at the log date: on identical accounts tables the results are identical *)
    intros Hacc. destruct (Ha Hacc) as [Ea Eh]. rewrite imp_acc_set_is_write, Ea, Eh. split; reflexivity.
  - rewrite (imp_acc_set_av _ _ _ _ _ _ (nodup_copy _ _ Hav Hnd)), (upsert_account_av _ _ _ _ _ _ _ _ _ Hnd), Hav. reflexivity.
  - rewrite <- av_addrs, (upsert_account_av _ _ _ _ _ _ _ _ _ Hnd). apply av_upsert_nodup. rewrite av_addrs. exact Hnd.
Qed.

(* DELETE_METADATA on an account: both sides rewrite the rows of the address (dated differently, which the view ignores) *)
Lemma acc_del_view (accs : list account) a k upd :
  map av (map (fun y => if String.eqb (a_addr y) a then {| a_addr := a_addr y; a_meta := mdel (a_meta y) k; a_first := a_first y; a_ins := a_ins y; a_upd := upd |} else y) accs)
  = map (av_set (fun m => mdel m k) a) (map av accs).
Proof. rewrite !map_map. apply map_ext. intros y. unfold av_set, av, av_addr. cbn [fst snd]. destruct (String.eqb (a_addr y) a); reflexivity. Qed.

Lemma acc_del_addrs (accs : list account) a k upd :
  map a_addr (map (fun y => if String.eqb (a_addr y) a then {| a_addr := a_addr y; a_meta := mdel (a_meta y) k; a_first := a_first y; a_ins := a_ins y; a_upd := upd |} else y) accs)
  = map a_addr accs.
Proof. rewrite map_map. apply map_ext. intros y. destruct (String.eqb (a_addr y) a); reflexivity. Qed.

Lemma sim_accounts_change f mv s c sa sh ca ch :
  Sim f mv false s c -> map av ca = map av sa -> NoDup (map a_addr sa) ->
  Sim f mv false (with_accounts s (sa, sh)) (with_accounts c (ca, ch)).
Proof.
  intros [Hv Ht Hh Hl Hm Ha Hav Hnd] E N. constructor; unfold with_accounts; cbn [s_vols s_txs s_thist s_logs s_moves s_accounts s_ahist s_next_seq fst snd]; try assumption.
  intros D; discriminate D.
Qed.

Lemma av_set_when_absent (accs : list account) g a : find_account accs a = None -> map (av_set g a) (map av accs) = map av accs.
Proof. intros F. apply av_set_noop. rewrite find_account_has, F. reflexivity. Qed.

(* ---------------------------------------------------------------- the log *)
Lemma ik_free logs ik : find_ik logs ik = None -> ik_taken logs ik = false.
Proof.
  unfold find_ik, ik_taken. destruct (String.eqb ik "") eqn:E; [reflexivity|]. simpl. intros F.
  destruct (existsb (fun l => String.eqb (l_ik l) ik) logs) eqn:X; [|reflexivity].
  apply existsb_exists in X. destruct X as [l [Hin Hl]]. exfalso. exact (eq_true_false_abs _ Hl (find_none _ _ F l Hin)).
Qed.

Lemma append_log_sim f mv acc s c l : Sim f mv acc s c -> Sim f mv acc (append_log s l) (imp_insert_log c l).
Proof.
  intros [Hv Ht Hh Hl Hm Ha Hav Hnd]. constructor; unfold append_log, imp_insert_log; cbn [s_vols s_txs s_thist s_logs s_moves s_accounts s_ahist s_next_seq]; try assumption.
  rewrite Hl. reflexivity.
Qed.

Lemma find_tx_has_id txs id t : find_tx txs id = Some t -> t_id t = id.
Proof. unfold find_tx. intros F. apply find_some in F. destruct F as [_ F]. apply Z.eqb_eq. exact F. Qed.

(* ---------------------------------------------------------------- one operation body vs. importLog's replay of its payload *)
Definition not_acc_meta (i : input) : Prop :=              (* not a DELETE_METADATA on an account *)
  match i with IDelMeta (TAcc _) _ => False | _ => True end.

Lemma run_input_sim f mv acc now nowi s c i s1 p :
  InvT s -> Sim f mv acc s c -> (acc = true -> not_acc_meta i) ->
  run_input f now s i = Done s1 p ->
  exists c1, imp_payload f nowi c now p = inl c1 /\ Sim f mv acc s1 c1.
Proof.
  intros HI S Hacc.
  script_split i.
  { simpl. unfold create_tx. (* create *)
    destruct ps as [|q ps']; [discriminate|].
    destruct (feasible force (s_vols s) (q :: ps')); simpl; [|discriminate].
    destruct (commit_transaction f now s (q :: ps') md ts ref) as [s0 [t|]] eqn:E; [|discriminate].
    intros H; inversion H; subst; clear H. cbn [imp_payload].
    destruct (imp_commit_sim f mv acc now s c _ _ _ _ _ _ HI S E) as (c1 & t' & Ec & S1 & _).
    rewrite Ec. eexists. split; [reflexivity|]. unfold imp_upsert_accounts.
    apply upsert_tx_accounts_sim; [exact S1 | reflexivity]. }
  destruct i as [ps ts ref md amd force | id force at_eff rmeta | [a|id] md | [a|id] k | ps ts ref md amd force smd samd];
    [apply Hc | | | | | | script_bullet Hc]; simpl.
  - (* revert *)
    destruct (find_tx (s_txs s) id) as [t|] eqn:F; [|discriminate].
    destruct (t_rev t) eqn:Rv; [discriminate|].
    match goal with |- context [match ?chk with RCOk => _ | RCInsufficient => _ | RCPanic => _ end] => destruct chk end; try discriminate.
    match goal with |- context [commit_transaction ?a ?b ?c0 ?d ?e ?g ?h] => destruct (commit_transaction a b c0 d e g h) as [s2 [r|]] eqn:E end; [|discriminate].
    intros H; inversion H; subst; clear H. cbn [imp_payload t_rev tx_with t_id].
    destruct (find_tx_sim f mv acc s c id t S F) as (x & Fx & Ex & Exm).
    rewrite (find_tx_has_id _ _ _ F), Fx.
    destruct (core_fields _ _ Ex) as (_ & _ & Erev & _). rewrite Erev, Rv.
    set (mark := fun y : tx => tx_with y (t_meta y) now (Some now)) in *.
    assert (S1 : Sim f mv acc (touch_tx f s t mark) (touch_tx f c x mark)).
    { apply touch_tx_sim; [exact S | exact Ex | exact Exm | exact (commutes_tx_with (fun m => m) now (fun _ => Some now))]. }
    assert (HI1 : InvT (touch_tx f s t mark)) by (apply touch_tx_inv; [apply (tx_with_keeps t_meta now (fun _ => Some now)) | exact HI]).
    destruct (imp_commit_sim f mv acc now _ _ _ _ _ _ _ _ HI1 S1 E) as (c1 & t' & Ec & S2 & _).
    exists c1. split; [exact Ec | exact S2].
  - (* account metadata *)
    intros H; inversion H; subst; clear H. cbn [imp_payload]. eexists. split; [reflexivity|].
    apply acc_set_sim. exact S.
  - (* transaction metadata *)
    destruct (find_tx (s_txs s) id) as [t|] eqn:F; [|discriminate].
    destruct (find_tx_sim f mv acc s c id t S F) as (x & Fx & Ex & Exm).
    destruct (core_fields _ _ Ex) as (_ & Em & _).
    destruct (mcontains (t_meta t) md) eqn:MC; intros H; inversion H; subst; clear H; cbn [imp_payload]; rewrite Fx, Em, MC; eexists; (split; [reflexivity|]); [exact S|].
    apply touch_tx_sim; [exact S | exact Ex | exact Exm | exact (commutes_tx_with (fun m => mmerge m md) now (fun r => r))].
  - (* account metadata deletion *)
    assert (Hf : acc = false) by (destruct acc; [exfalso; exact (Hacc eq_refl) | reflexivity]). subst acc.
    assert (Hhas : match find_account (s_accounts c) a with Some _ => true | None => false end =
                   match find_account (s_accounts s) a with Some _ => true | None => false end).
    { rewrite <- !find_account_has, (sim_av _ _ _ _ _ S). reflexivity. }
    destruct (find_account (s_accounts s) a) as [x|] eqn:Fs; intros H; inversion H; subst; clear H; cbn [imp_payload]; unfold imp_acc_del;
      destruct (find_account (s_accounts c) a) as [x'|] eqn:Fc; try discriminate Hhas; eexists; (split; [reflexivity|]); [|exact S].
    apply sim_accounts_change; [exact S | | ].
    + rewrite !acc_del_view, (sim_av _ _ _ _ _ S). reflexivity.
    + rewrite acc_del_addrs. exact (sim_nd _ _ _ _ _ S).
  - (* transaction metadata deletion *)
    destruct (find_tx (s_txs s) id) as [t|] eqn:F; [|discriminate].
    destruct (find_tx_sim f mv acc s c id t S F) as (x & Fx & Ex & Exm).
    destruct (core_fields _ _ Ex) as (_ & Em & _).
    destruct (mget (t_meta t) k) eqn:MG; [|discriminate]. intros H; inversion H; subst; clear H. cbn [imp_payload]. rewrite Fx, Em, MG. eexists. split; [reflexivity|].
    apply touch_tx_sim; [exact S | exact Ex | exact Exm | exact (commutes_tx_with (fun m => mdel m k) now (fun r => r))].
Qed.

(* ---------------------------------------------------------------- failed operations do not consume moves.seq *)
Lemma commit_none_seq f now s ps md ts ref s1 : commit_transaction f now s ps md ts ref = (s1, None) -> s_next_seq s1 = s_next_seq s.
Proof.
  unfold commit_transaction. intros H.
  destruct (negb (ref =? "")%string && ref_taken (s_txs s) ref).
  - inversion H; subst; reflexivity.
  - destruct (if f_moves f then _ else _) as [[m n] q]. inversion H.
Qed.

Lemma failed_keeps_seq f now s i s1 e : run_input f now s i = Failed s1 e -> s_next_seq s1 = s_next_seq s.
Proof.
  script_split i.
  { simpl. unfold create_tx. destruct ps as [|q ps']; [intros H; inversion H; reflexivity|].
    destruct (feasible force (s_vols s) (q :: ps')); simpl; [|intros H; inversion H; reflexivity].
    destruct (commit_transaction f now s (q :: ps') md ts ref) as [s0 [t|]] eqn:E; [discriminate|].
    intros H; inversion H; subst. eapply commit_none_seq; exact E. }
  destruct i as [ps ts ref md amd force | id force at_eff rmeta | [a|id] md | [a|id] k | ps ts ref md amd force smd samd];
    [apply Hc | | | | | | script_bullet Hc]; simpl.
  - destruct (find_tx (s_txs s) id) as [t|]; [|intros H; inversion H; reflexivity].
    destruct (t_rev t); [intros H; inversion H; reflexivity|].
    match goal with |- context [match ?chk with RCOk => _ | RCInsufficient => _ | RCPanic => _ end] => destruct chk end;
      [|intros H; inversion H; reflexivity|discriminate].
    match goal with |- context [commit_transaction ?a ?b ?c0 ?d ?e0 ?g ?h] => destruct (commit_transaction a b c0 d e0 g h) as [s2 [r|]] eqn:E end; [discriminate|].
    intros H; inversion H; subst. apply commit_none_seq in E. exact E.
  - discriminate.
  - destruct (find_tx (s_txs s) id) as [t|]; [|intros H; inversion H; reflexivity]. destruct (mcontains (t_meta t) md); discriminate.
  - destruct (find_account (s_accounts s) a); discriminate.
  - destruct (find_tx (s_txs s) id) as [t|]; [|intros H; inversion H; reflexivity].
    destruct (mget (t_meta t) k); [discriminate | intros H; inversion H; reflexivity].
Qed.

Lemma only_sequences_sim f mv acc s c s1 : Sim f mv acc s c ->
  (mv = true -> f_moves f = true -> s_next_seq s1 = s_next_seq s) -> Sim f mv acc (only_sequences s s1) c.
Proof.
  intros [Hv Ht Hh Hl Hm Ha Hav Hnd] Hs. constructor; unfold only_sequences; cbn [s_vols s_txs s_thist s_logs s_moves s_accounts s_ahist s_next_seq]; try assumption.
  intros Hmv. destruct (Hm Hmv) as (A & B0 & C). repeat split; try assumption. intros Fm. rewrite (Hs Hmv Fm). exact (C Fm).
Qed.

(* ---------------------------------------------------------------- one step of the source vs. the import of the log it appended *)
Theorem step_sim f mv acc now nowi s c o s' r :
  Inv s -> Sim f mv acc s c ->
  (acc = true -> not_acc_meta (o_in o)) -> (mv = true -> f_moves f = false \/ o_dry o = false) ->
  step f now s o = SR s' r ->
  (s_logs s' = s_logs s /\ Sim f mv acc s' c) \/
  (exists l, s_logs s' = s_logs s ++ [l] /\ exists c', imp_log f nowi c l = inl c' /\ Sim f mv acc s' c').
Proof.
  intros [HT HL] S Hacc Hmv. unfold step.
  destruct (find_ik (s_logs s) (o_ik o)) as [l0|] eqn:FI.
  - destruct (input_eq_dec (l_input l0) (o_in o)); intros H; inversion H; subst; left; split; [reflexivity | exact S | reflexivity | exact S].
  - pose proof (run_input_logs f now s (o_in o)) as [HL1 HL2].
    destruct (run_input f now s (o_in o)) as [s1 p|s1 e1|] eqn:R; cbn [outcome_state] in *; [| |discriminate].
    + destruct (o_dry o) eqn:Dry; intros H; inversion H; subst; clear H.
      * left. split; [reflexivity|]. apply only_sequences_sim; [exact S|].
        intros Hm Fm. destruct (Hmv Hm) as [Fm'|D]; [rewrite Fm in Fm'; discriminate | discriminate].
      * right. eexists. split; [unfold append_log; cbn [s_logs]; rewrite HL1; reflexivity|].
        destruct (run_input_sim f mv acc now nowi s c (o_in o) s1 p HT S Hacc R) as (c1 & Ep & S1).
        unfold imp_log. cbn [l_date l_payload l_ik]. rewrite Ep.
        rewrite (sim_logs _ _ _ _ _ S1), HL1, (ik_free _ _ FI).
        eexists. split; [reflexivity|]. apply append_log_sim. exact S1.
    + intros H; inversion H; subst; clear H. left. split; [reflexivity|].
      apply only_sequences_sim; [exact S|]. intros _ _. eapply failed_keeps_seq; exact R.
Qed.

(* ---------------------------------------------------------------- all logs of a history *)
Fixpoint imp_logs (f : features) (now : Z) (s : state) (ls : list log) : state + ierr :=
  match ls with
  | [] => inl s
  | l :: r => match imp_log f now s l with inl s' => imp_logs f now s' r | inr e => inr e end
  end.

Lemma imp_logs_app f now ls : forall s ls' c, imp_logs f now s ls = inl c -> imp_logs f now s (ls ++ ls') = imp_logs f now c ls'.
Proof.
  induction ls as [|l r IH]; intros s ls' c E; simpl in *; [inversion E; reflexivity|].
  destruct (imp_log f now s l) as [s1|e]; [apply IH; exact E | discriminate].
Qed.

Definition dry_free (h : list (Z * op)) : Prop := Forall (fun no => o_dry (snd no) = false) h.
Definition no_acc_meta_ops (h : list (Z * op)) : Prop := Forall (fun no => not_acc_meta (o_in (snd no))) h.

Lemma run_snoc f h n o : run f (h ++ [(n, o)]) = match step f n (run f h) o with SR s' _ => s' | SPanic => run f h end.
Proof. unfold run. rewrite fold_left_app. reflexivity. Qed.

Theorem roundtrip_state f mv acc nowi h :
  (mv = true -> f_moves f = false \/ dry_free h) -> (acc = true -> no_acc_meta_ops h) ->
  exists c, imp_logs f nowi init_state (s_logs (run f h)) = inl c /\ Sim f mv acc (run f h) c.
Proof.
  induction h as [|[n o] h IH] using rev_ind; intros Hmv Hacc.
  - exists init_state. split; [reflexivity | apply sim_init].
  - assert (Hmv0 : mv = true -> f_moves f = false \/ dry_free h).
    { intros E. destruct (Hmv E) as [F|D]; [left; exact F | right; apply Forall_app in D; tauto]. }
    assert (Hacc0 : acc = true -> no_acc_meta_ops h) by (intros E; specialize (Hacc E); apply Forall_app in Hacc; tauto).
    destruct (IH Hmv0 Hacc0) as (c & Ec & S). rewrite run_snoc.
    destruct (step f n (run f h) o) as [s' r|] eqn:St; [|exists c; split; assumption].
    assert (Ho1 : acc = true -> not_acc_meta (o_in o)).
    { intros E. specialize (Hacc E). apply Forall_app in Hacc. destruct Hacc as [_ Hx]. inversion Hx; subst. assumption. }
    assert (Ho2 : mv = true -> f_moves f = false \/ o_dry o = false).
    { intros E. destruct (Hmv E) as [F|D]; [left; exact F|]. right. apply Forall_app in D. destruct D as [_ Hx]. inversion Hx; subst. assumption. }
    destruct (step_sim f mv acc n nowi (run f h) c o s' r (run_inv f h) S Ho1 Ho2 St) as [[El S']|(l & El & c' & Ei & S')].
    + exists c. split; [rewrite El; exact Ec | exact S'].
    + exists c'. split; [|exact S']. rewrite El, (imp_logs_app f nowi _ _ [l] c Ec). simpl. rewrite Ei. reflexivity.
Qed.

(* ---------------------------------------------------------------- from the log list to Import on the exported rows *)
Section Rows.
  Variable H : bytes -> bytes.
  Variable pre : option bytes -> log -> option bytes.

  Lemma sorted_lt_trans (l : list Z) x y : x < y -> Forall (fun z => y < z) l -> Forall (fun z => x < z) l.
  Proof. intros Hxy HF. eapply Forall_impl; [|exact HF]. simpl. intros; lia. Qed.

  (* ids strictly increasing and above [last]: every id check of DefaultController.Import passes; the state part is
     imp_logs, the hash part imp_hash_all *)
  Lemma imp_loop_rows f now (rs : list (log * bytes)) : forall last s t c,
    StronglySorted Z.lt (map (fun r => l_id (fst r)) rs) ->
    (forall x, last = Some x -> Forall (fun r => x < l_id (fst r)) rs) ->
    imp_logs f now s (map fst rs) = inl c ->
    forall t', (f_hash f = true -> imp_hash_all H pre t rs = Some t') -> (f_hash f = false -> t' = t) ->
    imp_loop H pre f now last (s, t) rs = ((c, t'), None).
  Proof.
    induction rs as [|r rs IH]; intros last s t c Hs Hlast El t' Hh1 Hh2.
    - simpl in El. inversion El; subst. destruct (f_hash f) eqn:Fh.
      + specialize (Hh1 eq_refl). inversion Hh1. reflexivity.
      + rewrite (Hh2 eq_refl). reflexivity.
    - simpl in Hs. apply StronglySorted_inv in Hs. destruct Hs as [Hs Hr].
      cbn [imp_loop].
      assert (Hchk : match last with Some x => l_id (fst r) <=? x | None => false end = false).
      { destruct last as [x|]; [|reflexivity]. specialize (Hlast x eq_refl). inversion Hlast; subst. apply Z.leb_gt. assumption. }
      rewrite Hchk. simpl in El. unfold imp_one. cbn [fst snd].
      destruct (imp_log f now s (fst r)) as [s1|e] eqn:E1; [|discriminate].
      assert (Hnext : forall x, Some (l_id (fst r)) = Some x -> Forall (fun r0 => x < l_id (fst r0)) rs).
      { intros x Ex. inversion Ex; subst. rewrite Forall_map in Hr. exact Hr. }
      destruct (f_hash f) eqn:Fh.
      + specialize (Hh1 eq_refl). unfold imp_hash_all in Hh1. simpl in Hh1.
        destruct (imp_hash_insert H pre t r) as [t1|] eqn:Eh; [|rewrite imp_hash_all_none in Hh1; discriminate].
        apply (IH _ s1 t1 c Hs Hnext El t'); [intros _; exact Hh1 | intros D; discriminate D].
      + apply (IH _ s1 t c Hs Hnext El t'); [intros D; discriminate D | exact Hh2].
  Qed.

  (* insertion sort of a sorted list *)
  Lemma ins_log_above l ls : Forall (fun x => l_id l < l_id x) ls -> ins_log l ls = l :: ls.
  Proof. destruct ls as [|x r]; [reflexivity|]. intros HF. inversion HF; subst. simpl. destruct (Z.ltb_spec (l_id l) (l_id x)); [reflexivity | lia]. Qed.

  Lemma sort_logs_sorted ls : StronglySorted Z.lt (map l_id ls) -> sort_logs ls = ls.
  Proof.
    induction ls as [|l r IH]; intros Hs; [reflexivity|]. simpl in Hs. apply StronglySorted_inv in Hs. destruct Hs as [Hs Hl].
    unfold sort_logs in *. simpl. rewrite (IH Hs). apply ins_log_above. rewrite Forall_map in Hl. exact Hl.
  Qed.

  (* the hash looked up by id in a table with increasing ids is the hash stored next to the log *)
  Lemma hash_of_rows (t : htable) : StronglySorted Z.lt (ids l_id t) -> map (fun l => (l, hash_of t (l_id l))) (map fst t) = t.
  Proof.
    intros Hs. rewrite map_map. rewrite <- (map_id t) at 2. apply map_ext_in. intros r Hin.
    assert (G : forall t0, StronglySorted Z.lt (ids l_id t0) -> In r t0 -> find (fun r0 : log * bytes => l_id (fst r0) =? l_id (fst r)) t0 = Some r).
    { induction t0 as [|a q IHq]; intros Hs0 Hin0; [destruct Hin0|]. simpl in Hs0. apply StronglySorted_inv in Hs0. destruct Hs0 as [Hs0 Ha].
      simpl. destruct Hin0 as [->|Hin0]; [rewrite Z.eqb_refl; reflexivity|].
      rewrite Forall_forall in Ha. specialize (Ha (l_id (fst r)) (in_map (fun r0 => l_id (fst r0)) _ _ Hin0)).
      destruct (Z.eqb_spec (l_id (fst a)) (l_id (fst r))); [lia|]. apply IHq; assumption. }
    unfold hash_of. rewrite (G t Hs Hin). destruct r; reflexivity.
  Qed.

  Hypothesis pre_total : forall p l, pre p l <> None.

  (* the exported stream of a source ledger *)
  Lemma export_rows_source f h :
    let a := source H pre f h in
    map fst (imp_export_rows a) = s_logs (run f h) /\
    (f_hash f = true -> imp_export_rows a = log_table H pre (run f h)).
  Proof.
    pose proof (inv_logs_sorted _ (proj2 (run_inv f h))) as Hs.
    unfold imp_export_rows, imp_export, source. cbn [i_s i_tab]. rewrite (sort_logs_sorted _ Hs). split.
    - rewrite map_map. simpl. apply map_id.
    - intros Fh. rewrite Fh.
      assert (Hl : map fst (log_table H pre (run f h)) = s_logs (run f h)).
      { unfold log_table. rewrite insert_all_logs; [reflexivity|]. intros p l _. apply pre_total. }
      rewrite <- Hl at 1. apply hash_of_rows. exact (proj1 (run_chain H pre f h)).
  Qed.

  (* Import of the export of any source into the pristine ledger: accepted, state related by Sim, hash column rebuilt,
     ledger state untouched (still initializing) *)
  Theorem import_roundtrip f mv acc now h :
    (mv = true -> f_moves f = false \/ dry_free h) -> (acc = true -> no_acc_meta_ops h) ->
    let a := source H pre f h in
    exists b, imp_import H pre f now i_init (imp_export_rows a) = (b, None) /\
              Sim f mv acc (i_s a) (i_s b) /\ i_tab b = i_tab a /\ i_l b = Initializing.
  Proof.
    intros Hmv Hacc a.
    destruct (roundtrip_state f mv acc now h Hmv Hacc) as (c & Ec & S).
    destruct (export_rows_source f h) as [Hfst Hrows]. fold a in Hfst, Hrows.
    pose proof (inv_logs_sorted _ (proj2 (run_inv f h))) as Hs.
    exists {| i_s := c; i_tab := i_tab a; i_l := Initializing; i_c := Initializing |}.
    split; [|split; [exact S | split; reflexivity]].
    unfold imp_import, i_init. cbn [i_l i_s i_tab i_c]. unfold last_log_id. cbn [s_logs init_state fold_left].
    assert (A1 : StronglySorted Z.lt (map (fun r : log * bytes => l_id (fst r)) (imp_export_rows a))).
    { rewrite <- Hfst in Hs. rewrite map_map in Hs. exact Hs. }
    assert (A2 : forall x, @None Z = Some x -> Forall (fun r : log * bytes => x < l_id (fst r)) (imp_export_rows a)) by (intros x D; discriminate D).
    assert (A3 : imp_logs f now init_state (map fst (imp_export_rows a)) = inl c) by (rewrite Hfst; exact Ec).
    rewrite (imp_loop_rows f now (imp_export_rows a) None init_state [] c A1 A2 A3 (i_tab a)); [reflexivity| |].
    - intros Fh. rewrite (Hrows Fh). unfold a, source. cbn [i_tab]. rewrite Fh. apply imp_hash_roundtrip. apply run_chain.
    - intros Fh. unfold a, source. cbn [i_tab]. rewrite Fh. reflexivity.
  Qed.
End Rows.
