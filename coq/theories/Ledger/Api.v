(* Executable models of the HTTP request DECODERS (what the code does, not what it should do):
     encoding/ajson into the request structs  (internal/api/bulking/elements.go, internal/api/v1/controllers_transactions_create.go)
     bulking.TransactionRequest.ToCore, Postings.Validate (internal/posting.go)
     vm.ScriptV1.UnmarshalJSON / ToCore (internal/machine/vm/run.go) -- JSON numbers kept as json.Number, rendered exactly (fixes/09)
     v1.Script.ToCore                                     -- a variable that is neither an object nor a string is an error
     bulking.BulkElement.UnmarshalJSON / UnmarshalBulkElementPayload, metadata.Metadata
   and of the amount codecs at the storage boundary (big.Int text, Volumes.Value/Scan through PostgreSQL's composite I/O).
   Every decoder is a total function  ajson -> Ok request | ClientError kind | Panic.
   Not modelled (exercised by the HTTP sweep): JSON lexing, duplicate / case-variant object keys, chi routing, middlewares,
   go-libs helpers, TxToScriptData (the postings of an accepted request are kept as postings). *)
From Coq Require Import List ZArith String Ascii Bool.
From LV Require Import Base.JsonTree.
Import ListNotations.
Open Scope string_scope.
Open Scope Z_scope.

Inductive cerr := EDecode (* ajson.Unmarshal returned an error *) | EValidation (* ToCore / Validate returned an error *).
Inductive decoded (A : Type) := Ok (a : A) | ClientError (e : cerr) | Panic.
Arguments Ok {A} a. Arguments ClientError {A} e. Arguments Panic {A}.

Definition bind {A B} (m : decoded A) (f : A -> decoded B) : decoded B :=
  match m with Ok a => f a | ClientError e => ClientError e | Panic => Panic end.
Notation "x <- m ;; k" := (bind m (fun x => k)) (at level 61, m at next level, right associativity).

Fixpoint mapM {A B} (f : A -> decoded B) (l : list A) : decoded (list B) :=
  match l with
  | [] => Ok []
  | x :: r => y <- f x ;; ys <- mapM f r ;; Ok (y :: ys)
  end.

(* ------------------------------------------------------------------ encoding/ajson per target type.
   null leaves the zero value for every type; a type mismatch is an UnmarshalTypeError (decoding goes on but
   the call fails), an Unmarshaler error aborts: either way ajson.Unmarshal returns an error = EDecode. *)
Definition dec_string (j : ajson) : decoded string :=
  match j with AJStr s => Ok s | AJNull => Ok "" | _ => ClientError EDecode end.
Definition dec_bool (j : ajson) : decoded bool :=
  match j with AJBool b => Ok b | AJNull => Ok false | _ => ClientError EDecode end.
Definition dec_uint64 (j : ajson) : decoded Z :=
  match j with
  | AJNum m None => if (0 <=? m) && (m <? 2 ^ 64) then Ok m else ClientError EDecode
  | AJNull => Ok 0
  | _ => ClientError EDecode
  end.
(* *big.Int : null -> nil pointer; big.Int.UnmarshalJSON accepts exactly the plain integer literals *)
Definition dec_bigint_ptr (j : ajson) : decoded (option Z) :=
  match j with AJNum m None => Ok (Some m) | AJNull => Ok None | _ => ClientError EDecode end.
(* `any` inside vm.ScriptV1: decoded with json.Decoder.UseNumber (ScriptV1.UnmarshalJSON, fixes/09): everything decodes, a number
   stays its literal text (json.Number) whatever its magnitude *)
Definition dec_any (j : ajson) : decoded ajson := Ok j.
Definition dec_raw (j : ajson) : decoded ajson := Ok j.        (* ajson.RawMessage *)

Definition dec_map {A} (dec : ajson -> decoded A) (j : ajson) : decoded (list (string * A)) :=
  match j with
  | AJObj l => kvs <- mapM (fun kv => v <- dec (snd kv) ;; Ok (fst kv, v)) l ;; Ok (mof kvs)
  | AJNull => Ok []
  | _ => ClientError EDecode
  end.
Definition dec_list {A} (dec : ajson -> decoded A) (j : ajson) : decoded (list A) :=
  match j with AJArr l => mapM dec l | AJNull => Ok [] | _ => ClientError EDecode end.
Definition fld {A} (k : string) (l : list (string * ajson)) (zero : A) (dec : ajson -> decoded A) : decoded A :=
  match jfield k l with Some j => dec j | None => Ok zero end.
Definition dec_struct {A} (zero : A) (body : list (string * ajson) -> decoded A) (j : ajson) : decoded A :=
  match j with AJObj l => body l | AJNull => Ok zero | _ => ClientError EDecode end.

Definition metadata := list (string * string).
Definition dec_metadata : ajson -> decoded metadata := dec_map dec_string.

Section WithTime.
(* go-libs time.Time.UnmarshalJSON: null -> zero time; a string -> time.Parse(RFC3339Nano) rounded to µs, UTC
   (abstract here: any parser; instantiated by the OCaml glue, compared with the real one by the tie); anything else -> error *)
Variable parse_time : string -> option Z.
(* the text of a JSON literal with a fraction and/or an exponent, value m * 10^e. The code passes that text through verbatim
   wherever a number is not an integer, so the model is parametric in the spelling (the harness spells deterministically from
   (m, e); the OCaml glue carries the same function) *)
Variable spell : Z -> Z -> string.
Definition num_lit (m : Z) (e : option Z) : string := match e with None => zstr m | Some e => spell m e end.
(* vm.numberText: an integer, however spelled, as its decimal digits; fractions and exponents beyond +-999 verbatim.
   (the corpus spells -20 <= e < 0 positionally, without exponent: no guard applies there) *)
Definition number_text (m : Z) (e : option Z) : string :=
  match e with
  | None => zstr m
  | Some e =>
      if (999 <? e) || (e <? -999) then spell m e
      else if 0 <=? e then zstr (m * 10 ^ e)
      else if m mod 10 ^ (- e) =? 0 then zstr (m / 10 ^ (- e))
      else spell m e
  end.
Definition dec_time (j : ajson) : decoded (option Z) :=
  match j with
  | AJNull => Ok None
  | AJStr s => match parse_time s with Some t => Ok (Some t) | None => ClientError EDecode end
  | _ => ClientError EDecode
  end.

(* ------------------------------------------------------------------ postings *)
Record rposting := { rp_src : string; rp_dst : string; rp_amt : option Z; rp_asset : string }.
Definition dec_posting : ajson -> decoded rposting :=
  dec_struct {| rp_src := ""; rp_dst := ""; rp_amt := None; rp_asset := "" |} (fun l =>
    s <- fld "source" l "" dec_string ;; d <- fld "destination" l "" dec_string ;;
    a <- fld "amount" l None dec_bigint_ptr ;; c <- fld "asset" l "" dec_string ;;
    Ok {| rp_src := s; rp_dst := d; rp_amt := a; rp_asset := c |}).

Definition is_upper (c : ascii) : bool := let n := nat_of_ascii c in (Nat.leb 65 n && Nat.leb n 90)%bool.
Definition is_lower (c : ascii) : bool := let n := nat_of_ascii c in (Nat.leb 97 n && Nat.leb n 122)%bool.
Definition is_digit (c : ascii) : bool := let n := nat_of_ascii c in (Nat.leb 48 n && Nat.leb n 57)%bool.
Definition is_seg (c : ascii) : bool := (is_upper c || is_lower c || is_digit c || Ascii.eqb c "_" || Ascii.eqb c "-")%bool.

(* accounts.ValidateAddress: ^[a-zA-Z0-9_-]+(:[a-zA-Z0-9_-]+)*$ ; [fresh] = at the start of a segment *)
Fixpoint addr_ok_from (fresh : bool) (s : string) : bool :=
  match s with
  | EmptyString => negb fresh
  | String c r => if is_seg c then addr_ok_from false r else if Ascii.eqb c ":" then (negb fresh && addr_ok_from true r)%bool else false
  end.
Definition address_ok (s : string) : bool := addr_ok_from true s.

(* assets.IsValid: ^[A-Z][A-Z0-9]{0,16}(_[A-Z]{1,16})?(/\d{1,6})?$ *)
Fixpoint span (p : ascii -> bool) (s : string) : nat * string :=
  match s with
  | String c r => if p c then let '(n, t) := span p r in (S n, t) else (O, s)
  | EmptyString => (O, EmptyString)
  end.
Definition asset_tail_prec (s : string) : bool :=       (* (/\d{1,6})?$ *)
  match s with
  | EmptyString => true
  | String c r => if Ascii.eqb c "/" then let '(n, t) := span is_digit r in (Nat.leb 1 n && Nat.leb n 6 && match t with EmptyString => true | _ => false end)%bool else false
  end.
Definition asset_ok (s : string) : bool :=
  match s with
  | String c r =>
      if is_upper c then
        let '(n, t) := span (fun c => (is_upper c || is_digit c)%bool) r in
        if Nat.leb n 16 then
          match t with
          | String u t' => if Ascii.eqb u "_" then let '(k, t'') := span is_upper t' in (Nat.leb 1 k && Nat.leb k 16 && asset_tail_prec t'')%bool
                           else asset_tail_prec t
          | EmptyString => true
          end
        else false
      else false
  | EmptyString => false
  end.

Record vposting := { vp_src : string; vp_dst : string; vp_asset : string; vp_amt : Z }.
(* Postings.Validate: first failing posting decides; all failures are the same client error *)
Definition validate_posting (p : rposting) : decoded vposting :=
  match rp_amt p with
  | None => ClientError EValidation                                   (* no amount defined *)
  | Some a =>
      if a <? 0 then ClientError EValidation                          (* negative amount *)
      else if negb (address_ok (rp_src p)) then ClientError EValidation
      else if negb (address_ok (rp_dst p)) then ClientError EValidation
      else if negb (asset_ok (rp_asset p)) then ClientError EValidation
      else Ok {| vp_src := rp_src p; vp_dst := rp_dst p; vp_asset := rp_asset p; vp_amt := a |}
  end.

(* ------------------------------------------------------------------ fmt of decoded `any` values *)
Definition sjoin (sep : string) (l : list string) : string :=
  match l with [] => "" | x :: r => fold_left (fun acc y => acc ++ sep ++ y) r x end.
(* fmt with verb %v ([sverb]=false: fmt.Sprint) or %s ([sverb]=true: a bad verb for non-strings, applied elementwise).
   A nil interface prints as %!s(<nil>) only as the operand itself ([top]); inside a slice or map it is always <nil>. *)
Fixpoint go_fmt (sverb top : bool) (j : ajson) : string :=
  match j with
  | AJStr s => s
  | AJNull => if sverb && top then "%!s(<nil>)" else "<nil>"
  | AJBool b => let t := if b then "true" else "false" in if sverb then "%!s(bool=" ++ t ++ ")" else t
  | AJNum m e => num_lit m e                                (* json.Number is a string kind: %v and %s print its text *)
  | AJArr l => "[" ++ sjoin " " (map (go_fmt sverb false) l) ++ "]"
  | AJObj l => "map[" ++ sjoin " " (map (fun kv => fst kv ++ ":" ++ snd kv) (mof (map (fun kv => (fst kv, go_fmt sverb false (snd kv))) l))) ++ "]"
  end.

(* ------------------------------------------------------------------ vm.ScriptV1 (v2 and bulk) *)
Record script := { s_plain : string; s_template : string; s_vars : list (string * string) }.
Record rscript_v1 := { rs_plain : string; rs_template : string; rs_vars : list (string * ajson) }.
Definition dec_scriptv1 : ajson -> decoded rscript_v1 :=
  dec_struct {| rs_plain := ""; rs_template := ""; rs_vars := [] |} (fun l =>
    p <- fld "plain" l "" dec_string ;; t <- fld "template" l "" dec_string ;;
    v <- fld "vars" l [] (dec_map dec_any) ;;
    Ok {| rs_plain := p; rs_template := t; rs_vars := v |}).

(* one variable of ScriptV1.ToCore; None = the variable is silently dropped *)
Definition scriptv1_var (v : ajson) : option string :=
  match v with
  | AJStr s => Some s
  | AJObj m =>
      let asset := match jfield "asset" m with Some a => go_fmt true true a | None => "%!s(<nil>)" end in
      match jfield "amount" m with
      | Some (AJStr a) => Some (asset ++ " " ++ a)
      | Some (AJNum n e) => Some (asset ++ " " ++ number_text n e)                    (* json.Number: exact text *)
      | _ => None
      end
  | AJNum n e => Some (number_text n e)                     (* a bare numeric variable *)
  | other => Some (go_fmt false true other)
  end.
Definition scriptv1_to_core (s : rscript_v1) : script :=
  {| s_plain := rs_plain s; s_template := rs_template s;
     s_vars := flat_map (fun kv => match scriptv1_var (snd kv) with Some x => [(fst kv, x)] | None => [] end) (rs_vars s) |}.

(* ------------------------------------------------------------------ bulking.TransactionRequest + ToCore *)
Record tx_request := {
  r_postings : list vposting;           (* non-empty: the postings path (then r_script is ignored by the code) *)
  r_script : script;
  r_ts : option Z; r_ref : string; r_meta : metadata;
  r_accmeta : list (string * metadata); r_runtime : string; r_force : bool }.

Record raw_tx := { w_postings : list rposting; w_script : rscript_v1; w_ts : option Z; w_ref : string; w_meta : metadata;
                   w_accmeta : list (string * metadata); w_runtime : string; w_force : bool }.
Definition zero_rscript := {| rs_plain := ""; rs_template := ""; rs_vars := [] |}.
Definition zero_raw_tx := {| w_postings := []; w_script := zero_rscript; w_ts := None; w_ref := ""; w_meta := []; w_accmeta := []; w_runtime := ""; w_force := false |}.
Definition dec_raw_tx : ajson -> decoded raw_tx :=
  dec_struct zero_raw_tx (fun l =>
    ps <- fld "postings" l [] (dec_list dec_posting) ;;
    sc <- fld "script" l zero_rscript dec_scriptv1 ;;
    ts <- fld "timestamp" l None dec_time ;;
    rf <- fld "reference" l "" dec_string ;;
    md <- fld "metadata" l [] dec_metadata ;;
    am <- fld "accountMetadata" l [] (dec_map dec_metadata) ;;
    rt <- fld "runtime" l "" dec_string ;;
    fo <- fld "force" l false dec_bool ;;
    Ok {| w_postings := ps; w_script := sc; w_ts := ts; w_ref := rf; w_meta := md; w_accmeta := am; w_runtime := rt; w_force := fo |}).

Definition tx_to_core (w : raw_tx) : decoded tx_request :=
  ps <- mapM validate_posting (w_postings w) ;;
  Ok {| r_postings := ps;
        r_script := match ps with [] => scriptv1_to_core (w_script w) | _ => {| s_plain := ""; s_template := ""; s_vars := [] |} end;
        r_ts := w_ts w; r_ref := w_ref w; r_meta := w_meta w; r_accmeta := w_accmeta w; r_runtime := w_runtime w; r_force := w_force w |}.

(* ajson.Unmarshal(body, &TransactionRequest) then ToCore: what v2 createTransaction and the bulker do before any store call *)
Definition decode_v2_tx (j : ajson) : decoded tx_request := w <- dec_raw_tx j ;; tx_to_core w.
Definition decode_scriptv1 (j : ajson) : decoded script := s <- dec_scriptv1 j ;; Ok (scriptv1_to_core s).

(* ------------------------------------------------------------------ bulk elements *)
Inductive bulk_data :=
| BCreate (w : raw_tx)
| BAddMeta (target_type : string) (target_id : ajson) (md : metadata)
| BRevert (id : Z) (force at_eff : bool) (md : metadata)
| BDelMeta (target_type : string) (target_id : ajson) (key : string).
Record bulk_element := { b_action : string; b_ik : string; b_data : bulk_data }.

Definition dec_bulk_payload (action : string) (data : option ajson) : decoded bulk_data :=
  match data with
  | None => ClientError EDecode                  (* ajson.Unmarshal(nil, …): unexpected end of JSON input *)
  | Some d =>
      if String.eqb action "CREATE_TRANSACTION" then w <- dec_raw_tx d ;; Ok (BCreate w)
      else if String.eqb action "ADD_METADATA" then
        dec_struct (BAddMeta "" AJNull []) (fun l => t <- fld "targetType" l "" dec_string ;; i <- fld "targetId" l AJNull dec_raw ;;
                                                   m <- fld "metadata" l [] dec_metadata ;; Ok (BAddMeta t i m)) d
      else if String.eqb action "REVERT_TRANSACTION" then
        dec_struct (BRevert 0 false false []) (fun l => i <- fld "id" l 0 dec_uint64 ;; f <- fld "force" l false dec_bool ;;
                                                       a <- fld "atEffectiveDate" l false dec_bool ;; m <- fld "metadata" l [] dec_metadata ;; Ok (BRevert i f a m)) d
      else if String.eqb action "DELETE_METADATA" then
        dec_struct (BDelMeta "" AJNull "") (fun l => t <- fld "targetType" l "" dec_string ;; i <- fld "targetId" l AJNull dec_raw ;;
                                                   k <- fld "key" l "" dec_string ;; Ok (BDelMeta t i k)) d
      else ClientError EDecode                   (* ajson.Unmarshal(data, nil): InvalidUnmarshalError *)
  end.

(* BulkElement.UnmarshalJSON is called for a null element too (pointer-receiver Unmarshaler on an addressable slice
   element): the inner decode of null succeeds, then the empty action has no payload type: error *)
Definition dec_bulk_element (j : ajson) : decoded bulk_element :=
  match j with
  | AJNull => ClientError EDecode
  | AJObj l =>
      a <- fld "action" l "" dec_string ;; ik <- fld "ik" l "" dec_string ;;
      d <- dec_bulk_payload a (jfield "data" l) ;;
      Ok {| b_action := a; b_ik := ik; b_data := d |}
  | _ => ClientError EDecode
  end.
Definition decode_bulk (j : ajson) : decoded (list bulk_element) :=
  match j with AJArr l => mapM dec_bulk_element l | AJNull => Ok [] | _ => ClientError EDecode end.

(* ------------------------------------------------------------------ v1 Script.ToCore *)
Record rscript_raw := { rr_plain : string; rr_template : string; rr_vars : list (string * ajson) }.
Definition dec_script_v1api : ajson -> decoded rscript_raw :=
  dec_struct {| rr_plain := ""; rr_template := ""; rr_vars := [] |} (fun l =>
    p <- fld "plain" l "" dec_string ;; t <- fld "template" l "" dec_string ;;
    v <- fld "vars" l [] (dec_map dec_raw) ;;
    Ok {| rr_plain := p; rr_template := t; rr_vars := v |}).

(* ajson.Unmarshal(raw, &x) where raw may be absent (nil RawMessage: "unexpected end of JSON input") *)
Definition v1_var (v : ajson) : decoded string :=
  match v with
  | AJStr s => Ok s
  | AJObj m =>                                               (* is a monetary *)
      a <- match jfield "asset" m with Some j => (match dec_string j with Ok s => Ok s | _ => ClientError EValidation end) | None => ClientError EValidation end ;;
      n <- match jfield "amount" m with
           | Some (AJNum n None) => Ok n
           | Some AJNull => Ok 0
           | _ => ClientError EValidation
           end ;;
      Ok (a ++ " " ++ zstr n)
  | AJNull => ClientError EValidation                        (* unmarshals into the map, then m["asset"] is missing *)
  | _ => ClientError EValidation                            (* json.Unmarshal(v, &rawValue) fails: "invalid variable" error
                                                               (was panic(err) before the repair fixes/01-v1-script-vars-panic) *)
  end.
(* Go ranges over the vars MAP (unspecified order) and stops at the first error: every error is the same client error *)
Definition v1_script_to_core (s : rscript_raw) : decoded script :=
  vs <- mapM (fun kv => x <- v1_var (snd kv) ;; Ok (fst kv, x)) (rr_vars s) ;;
  Ok {| s_plain := rr_plain s; s_template := rr_template s; s_vars := vs |}.
Definition decode_v1_script (j : ajson) : decoded script := s <- dec_script_v1api j ;; v1_script_to_core s.

End WithTime.

(* ------------------------------------------------------------------ amount codecs at the storage / response boundary *)
(* Volumes.Value: fmt.Sprintf("(%s, %s)", in, out) *)
Definition volumes_value (io : Z * Z) : string := "(" ++ zstr (fst io) ++ ", " ++ zstr (snd io) ++ ")".
Fixpoint split_comma (s : string) : option (string * string) :=
  match s with
  | EmptyString => None
  | String c r => if Ascii.eqb c "," then Some (EmptyString, r)
                  else match split_comma r with Some (a, b) => Some (String c a, b) | None => None end
  end.
Fixpoint trim_left (s : string) : string := match s with String c r => if Ascii.eqb c " " then trim_left r else s | EmptyString => s end.
Fixpoint chop_last (s : string) : option (string * ascii) :=
  match s with
  | EmptyString => None
  | String c r => match chop_last r with Some (r', l) => Some (String c r', l) | None => Some (EmptyString, c) end
  end.
Definition unparen (s : string) : option string :=
  match s with
  | String c r => if Ascii.eqb c "(" then match chop_last r with Some (body, l) => if Ascii.eqb l ")" then Some body else None | None => None end else None
  | EmptyString => None
  end.
(* PostgreSQL composite input for volumes(numeric, numeric) followed by composite output: fields are trimmed,
   parsed as numeric, printed without blanks: "(in,out)" *)
Definition pg_volumes_io (s : string) : option string :=
  match unparen s with
  | Some body => match split_comma body with
                 | Some (a, b) => match zparse (trim_left a), zparse (trim_left b) with
                                  | Some x, Some y => Some ("(" ++ zstr x ++ "," ++ zstr y ++ ")")
                                  | _, _ => None
                                  end
                 | None => None
                 end
  | None => None
  end.
(* Volumes.Scan: strip first and last byte, split on ",", SetString(base 10) on the first two parts *)
Definition volumes_scan (s : string) : option (Z * Z) :=
  match unparen s with
  | Some body => match split_comma body with
                 | Some (a, b) => let b' := match split_comma b with Some (b1, _) => b1 | None => b end in
                                  match zparse a, zparse b' with Some x, Some y => Some (x, y) | _, _ => None end
                 | None => None
                 end
  | None => None
  end.
