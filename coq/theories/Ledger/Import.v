(* Export / Import (internal/controller/ledger/controller_default.go: Export, Import, importLog) and the ledger
   state tracker (internal/controller/system/state_tracker.go: handleState, Import, the inherited BeginTX), over the
   sequential ledger model Ledger/Core.v.  Executable; extracted and run against the real stack by `vh importx`.

   WHAT THE CODE DOES, per log of the stream (each log in its own SQL transaction):
     NEW_TRANSACTION      CommitTransaction(&payload.Transaction): UpdateVolumes (post-commit volumes are RECOMPUTED),
                          InsertTransaction with the id, timestamp, inserted_at, updated_at of the payload (no nextval: the
                          transaction sequence is NOT advanced), moves with insertion date = payload inserted_at, then
                          UpsertAccounts(first_usage = timestamp, insertion/updated = inserted_at, payload account metadata)
     REVERTED_TRANSACTION RevertTransaction(id, payload revertedAt) (no-op when already reverted, error when missing),
                          then CommitTransaction(&payload.RevertTransaction); no account upsert
     SET_METADATA tx      UpdateTransactionMetadata(id, md, log.Date)
     SET_METADATA account UpdateAccountsMetadata({a: md}, log.Date): INSERT (first_usage = insertion = updated = log.Date)
                          ON CONFLICT DO UPDATE metadata ||, updated_at = log.Date, first_usage = LEAST(log.Date, first_usage)
                          WHERE NOT metadata @> md     (the write path uses UpsertAccounts with NULL dates instead)
     DELETE_METADATA tx   DeleteTransactionMetadata(id, key, log.Date)
     DELETE_METADATA acc  DeleteAccountMetadata(a, key): updated_at = transaction_date() = the time of the IMPORT
     then InsertLog with the id / date of the log (the log sequence is NOT advanced) and, when HASH_LOGS = SYNC, the hash
     the trigger computed is compared with the hash of the stream.
   Import (DefaultController): lastLogID := greatest stored id; a log with id <= lastLogID stops the import with "already
   exists"; the logs before it stay imported (each was committed on its own).
   Facade: Import takes the ledger lock, re-reads _system.ledgers.state and refuses unless `initializing`; it does NOT
   change the state.  A write through the facade on an `initializing` ledger (single requests, elements of a non-atomic
   bulk) runs in a transaction that first flips the state to `in-use` and, when the flip happened, sets both sequences to
   max(id) (setval is not transactional; setval(NULL) is a no-op); rollback (failure, dry run) undoes the flip.
   ATOMIC bulk: Bulker.Run calls ctrl.BeginTX.  The facade used to inherit it from the wrapped controller (no flip, no
   resync: S-11, [w_atomic_unrepaired]); since fixes/01-facade-begintx it overrides it and runs the handleState protocol
   inside the transaction of the bulk ([w_atomic]). *)
From Coq Require Import List ZArith String Bool Ascii.
From LV Require Import Base.Util Base.Json Ledger.Types Ledger.Core Ledger.Bulk Ledger.HashChain.
Import ListNotations.
Open Scope Z_scope.

Inductive lstate := Initializing | InUse.

Inductive ierr :=
| IENotInitializing      (* ErrImport: ledger is not in initializing state *)
| IELogExists            (* ErrImport: log %d already exists *)
| IEInvalidHash          (* ErrImport(ErrInvalidHash) *)
| IEConcurrent           (* transactions_ledger violated: ErrConcurrentTransaction -> ErrImport *)
| IEMissingTx            (* revert / metadata update of a transaction that is not there: sql.ErrNoRows *)
| IEReference            (* transactions_reference violated *)
| IEIdempotency          (* logs_idempotency_key violated *)
| IEMalformed.           (* REVERTED_TRANSACTION payload without revertedAt: nil dereference in importLog *)

(* ---------- Export: logs ordered by id ---------- *)
Fixpoint ins_log (l : log) (ls : list log) : list log :=
  match ls with
  | [] => [l]
  | x :: r => if l_id l <? l_id x then l :: x :: r else x :: ins_log l r
  end.
Definition sort_logs (ls : list log) : list log := fold_right ins_log [] ls.
Definition imp_export (s : state) : list log := sort_logs (s_logs s).

(* ---------- importLog ---------- *)
Definition id_taken (txs : list tx) (id : Z) : bool := existsb (fun x => t_id x =? id) txs.

(* CommitTransaction with the identity and dates of the payload; sequences untouched except moves.seq *)
Definition imp_commit (f : features) (s : state) (t : tx) : state + ierr :=
  let ps := t_postings t in
  let upd := volume_updates ps in
  let vols' := update_volumes (s_vols s) upd in
  let pcv := returned_totals vols' upd in
  if id_taken (s_txs s) (t_id t) then inr IEConcurrent
  else if negb (String.eqb (t_ref t) "") && ref_taken (s_txs s) (t_ref t) then inr IEReference
  else
    let '(moves', newr, seq') :=
      if f_moves f then insert_moves (f_pcev f) (s_moves s) (s_next_seq s) (t_id t) (t_ins t) (t_ts t) (moves_of pcv ps)
      else (s_moves s, [], s_next_seq s) in
    let t' := {| t_id := t_id t; t_postings := ps; t_meta := t_meta t; t_ts := t_ts t; t_ref := t_ref t; t_ins := t_ins t;
                 t_upd := t_upd t; t_rev := t_rev t; t_pcv := pcv;
                 t_pcev := if f_moves f && f_pcev f then Some (tx_pcev newr) else None |} in
    let thist' := if f_tx_hist f then s_thist s ++ [{| th_tx := t_id t; th_rev := 1; th_date := t_ts t; th_meta := t_meta t |}]
                  else s_thist s in
    inl {| s_vols := vols'; s_txs := s_txs s ++ [t']; s_moves := moves'; s_accounts := s_accounts s; s_ahist := s_ahist s;
           s_thist := thist'; s_logs := s_logs s; s_next_tx := s_next_tx s; s_next_log := s_next_log s; s_next_seq := seq' |}.

(* the row CommitTransaction stored (its account upsert uses timestamp / inserted_at of the payload) *)
Definition imp_upsert_accounts (f : features) (now : Z) (s : state) (t : tx) (amd : list (addr * meta)) : state :=
  upsert_tx_accounts f now s t amd.

(* SET_METADATA on an account: since the repair, importLog calls UpsertAccounts as saveAccountMetadata does, with
   first_usage = insertion_date = updated_at = the log date [d] (before: UpdateAccountsMetadata({a: md}, d), whose
   ON CONFLICT ... WHERE NOT metadata @> excluded.metadata skipped the lowering of first_usage) *)
Definition imp_acc_set (hist_on : bool) (d : Z) (st : list account * list ahist) (a : addr) (md : meta) : list account * list ahist :=
  upsert_account hist_on d st a md (Some d) (Some d) (Some d).

(* DeleteAccountMetadata(a, k): dated transaction_date(), i.e. [now] = the time of the import *)
Definition imp_acc_del (hist_on : bool) (now : Z) (s : state) (a : addr) (k : str) : state :=
  match find_account (s_accounts s) a with
  | None => s
  | Some x =>
    let del := fun y => {| a_addr := a_addr y; a_meta := mdel (a_meta y) k; a_first := a_first y; a_ins := a_ins y; a_upd := now |} in
    let x' := del x in
    with_accounts s (map (fun y => if String.eqb (a_addr y) a then del y else y) (s_accounts s),
                     if hist_on then s_ahist s ++ [{| ah_addr := a; ah_rev := next_rev_a (s_ahist s) a; ah_date := a_upd x'; ah_meta := a_meta x' |}]
                     else s_ahist s)
  end.

Definition imp_payload (f : features) (now : Z) (s : state) (d : Z) (p : payload) : state + ierr :=
  match p with
  | PNewTx t amd =>
    match imp_commit f s t with
    | inr e => inr e
    | inl s1 => inl (imp_upsert_accounts f now s1 t amd)
    end
  | PRevert orig r =>
    match t_rev orig with
    | None => inr IEMalformed
    | Some at_ =>
      match find_tx (s_txs s) (t_id orig) with
      | None => inr IEMissingTx
      | Some x =>
        let s1 := match t_rev x with
                  | Some _ => s                                                     (* WHERE reverted_at IS NULL: no row *)
                  | None => touch_tx f s x (fun y => tx_with y (t_meta y) at_ (Some at_))
                  end in
        imp_commit f s1 r
      end
    end
  | PSetMeta (TTx id) md =>
    match find_tx (s_txs s) id with
    | None => inr IEMissingTx
    | Some x => if mcontains (t_meta x) md then inl s
                else inl (touch_tx f s x (fun y => tx_with y (mmerge (t_meta y) md) d (t_rev y)))
    end
  | PSetMeta (TAcc a) md => inl (with_accounts s (imp_acc_set (f_acc_hist f) d (s_accounts s, s_ahist s) a md))
  | PDelMeta (TTx id) k =>
    match find_tx (s_txs s) id with
    | None => inr IEMissingTx
    | Some x => match mget (t_meta x) k with
                | None => inl s                                                     (* WHERE metadata -> key IS NOT NULL: no row *)
                | Some _ => inl (touch_tx f s x (fun y => tx_with y (mdel (t_meta y) k) d (t_rev y)))
                end
    end
  | PDelMeta (TAcc a) k => inl (imp_acc_del (f_acc_hist f) now s a k)
  end.

(* InsertLog with the id of the stream: the row is stored as is; log_id sequence untouched *)
Definition ik_taken (logs : list log) (ik : str) : bool :=
  negb (String.eqb ik "") && existsb (fun l => String.eqb (l_ik l) ik) logs.
Definition imp_insert_log (s : state) (l : log) : state :=
  {| s_vols := s_vols s; s_txs := s_txs s; s_moves := s_moves s; s_accounts := s_accounts s; s_ahist := s_ahist s;
     s_thist := s_thist s; s_logs := s_logs s ++ [l]; s_next_tx := s_next_tx s; s_next_log := s_next_log s; s_next_seq := s_next_seq s |}.

Definition imp_log (f : features) (now : Z) (s : state) (l : log) : state + ierr :=
  match imp_payload f now s (l_date l) (l_payload l) with
  | inr e => inr e
  | inl s1 => if ik_taken (s_logs s1) (l_ik l) then inr IEIdempotency else inl (imp_insert_log s1 l)
  end.

(* ---------- the hash column (HASH_LOGS = SYNC): any hash function, any pre-image ---------- *)
Section Hashed.
  Variable H : bytes -> bytes.
  Variable pre : option bytes -> log -> option bytes.

  Definition htable := list (log * bytes).

  (* the trigger stores H(pre(hash of the greatest id, row)); importLog compares it with the hash of the stream *)
  Definition imp_hash_insert (t : htable) (r : log * bytes) : option htable :=
    match pre (prev_hash l_id t) (fst r) with
    | Some x => if beqb (H x) (snd r) then Some (t ++ [r]) else None
    | None => None
    end.

  (* a ledger as the system sees it: tables + sequences, the hash column, _system.ledgers.state *)
  (* i_l = the ROW _system.ledgers.state; i_c = controllerFacade.ledger.State, the copy of that row the facade the requests
     go through read last (when GetLedgerController built it, at its last Import, or set by its own handleState commit):
     handleState and BeginTX branch on the CACHE, Import on the ROW re-read under the ledger lock *)
  Record istate := { i_s : state; i_tab : htable; i_l : lstate; i_c : lstate }.
  Definition i_init : istate := {| i_s := init_state; i_tab := []; i_l := Initializing; i_c := Initializing |}.
  Definition with_cache (b : istate) (c : lstate) : istate := {| i_s := i_s b; i_tab := i_tab b; i_l := i_l b; i_c := c |}.
  (* the cache never runs ahead of the row (it is a copy of the row, or set after the commit that flipped the row) *)
  Definition coherent (b : istate) : Prop := i_c b = InUse -> i_l b = InUse.

  (* the exported stream: logs by id, each with its stored hash (empty when hashing is off) *)
  Definition hash_of (t : htable) (id : Z) : bytes :=
    match find (fun r => l_id (fst r) =? id) t with Some r => snd r | None => [] end.
  Definition imp_export_rows (b : istate) : list (log * bytes) := map (fun l => (l, hash_of (i_tab b) (l_id l))) (imp_export (i_s b)).

  Definition imp_one (f : features) (now : Z) (st : state * htable) (r : log * bytes) : (state * htable) + ierr :=
    match imp_log f now (fst st) (fst r) with
    | inr e => inr e
    | inl s' =>
      if f_hash f then
        match imp_hash_insert (snd st) r with
        | Some t' => inl (s', t')
        | None => inr IEInvalidHash
        end
      else inl (s', snd st)
    end.

  (* DefaultController.Import: stops at the first log whose id does not exceed the last one; earlier logs stay *)
  Fixpoint imp_loop (f : features) (now : Z) (last : option Z) (st : state * htable) (rs : list (log * bytes)) : (state * htable) * option ierr :=
    match rs with
    | [] => (st, None)
    | r :: rest =>
      if match last with Some x => l_id (fst r) <=? x | None => false end then (st, Some IELogExists)
      else match imp_one f now st r with
           | inr e => (st, Some e)
           | inl st' => imp_loop f now (Some (l_id (fst r))) st' rest
           end
    end.

  (* Logs().Paginate(PageSize 1), default order id desc *)
  Definition last_log_id (s : state) : option Z :=
    fold_left (fun m l => match m with Some x => Some (Z.max x (l_id l)) | None => Some (l_id l) end) (s_logs s) None.

  (* controllerFacade.Import: under the ledger lock the row is scanned into c.ledger (the cache is refreshed whatever it held)
     and THAT value decides *)
  Definition imp_import (f : features) (now : Z) (b : istate) (rs : list (log * bytes)) : istate * option ierr :=
    match i_l b with
    | InUse => (with_cache b InUse, Some IENotInitializing)
    | Initializing =>
      let '(st', e) := imp_loop f now (last_log_id (i_s b)) (i_s b, i_tab b) rs in
      ({| i_s := fst st'; i_tab := snd st'; i_l := Initializing; i_c := Initializing |}, e)
    end.

  (* ---------- writes ---------- *)
  (* the hash trigger on the logs a write appended *)
  Definition tab_after (f : features) (t : htable) (s s' : state) : htable :=
    if f_hash f then insert_all l_id H pre t (skipn (List.length (s_logs s)) (s_logs s')) else t.

  Definition max_id {A} (key : A -> Z) (l : list A) : option Z :=
    fold_left (fun m x => match m with Some y => Some (Z.max y (key x)) | None => Some (key x) end) l None.
  (* setval(seq, max(id)): the next value is max+1; max of an empty table is NULL and setval(NULL) does nothing *)
  Definition resync (s : state) : state :=
    {| s_vols := s_vols s; s_txs := s_txs s; s_moves := s_moves s; s_accounts := s_accounts s; s_ahist := s_ahist s;
       s_thist := s_thist s; s_logs := s_logs s;
       s_next_tx := match max_id t_id (s_txs s) with Some m => m + 1 | None => s_next_tx s end;
       s_next_log := match max_id l_id (s_logs s) with Some m => m + 1 | None => s_next_log s end;
       s_next_seq := s_next_seq s |}.

  Definition committed (o : op) (r : result) : bool :=
    match r with ROk _ _ _ => negb (o_dry o) | RErr _ => false end.

  (* a write through the facade: handleState.  Cache in-use: the write runs directly.  Cache initializing: a transaction
     takes the ledger lock and runs UPDATE .. SET state = in-use WHERE state = initializing on the ROW; only when that
     changed a row are the sequences resynchronised; the commit of a successful non-dry write makes the flip durable and
     sets the cache *)
  Definition w_single (f : features) (now : Z) (b : istate) (o : op) : istate * option result :=
    let s0 := match i_c b, i_l b with Initializing, Initializing => resync (i_s b) | _, _ => i_s b end in
    match step f now s0 o with
    | SPanic => ({| i_s := s0; i_tab := i_tab b; i_l := i_l b; i_c := i_c b |}, None)
    | SR s' r =>
      let done := match i_c b with InUse => false | Initializing => committed o r end in
      ({| i_s := s'; i_tab := tab_after f (i_tab b) s0 s';
          i_l := if done then InUse else i_l b; i_c := if done then InUse else i_c b |}, Some r)
    end.

  (* non-atomic bulk: every element through the facade, at one instant; after a failure the rest is cancelled *)
  Definition w_elem (f : features) (now : Z) (b : istate) (o : op) : istate * bres :=
    let '(b', r) := w_single f now b o in (b', BRes r).
  Definition w_bulk (f : features) (now : Z) (b : istate) (os : list op) : istate * list bres :=
    run_bulk (w_elem f now) bres_ok BCancelled (fun b0 _ => b0) false false b os.

  (* ATOMIC bulk: the elements run on the inner controller inside one SQL transaction.  An element that draws an id
     which is already stored hits the primary key: InsertTransaction dereferences the nil tx.ID (transactions_ledger), or
     InsertLog swallows the violation and runLog dereferences the nil log.ID (logs_ledger) -- the pond worker recovers the
     panic, NO result is sent for the element, hasError stays false and the SQL transaction is aborted: every later
     element fails (25P02), and when there is none the final COMMIT reports the rollback. *)
  Inductive ares := ARes (r : bres) | AAborted.     (* AAborted: "current transaction is aborted" *)
  Definition tx_collides (s : state) (r : result) : bool :=
    match r with
    | ROk _ (Some tid) false => id_taken (s_txs s) tid
    | RErr EReferenceConflict => id_taken (s_txs s) (s_next_tx s)     (* both unique indexes violated: transactions_ledger is reported *)
    | _ => false
    end.
  Definition log_collides (s : state) (r : result) : bool :=
    match r with ROk lid _ false => existsb (fun l => l_id l =? lid) (s_logs s) | _ => false end.
  Definition seqs (s : state) (ntx nlog nseq : Z) : state :=
    {| s_vols := s_vols s; s_txs := s_txs s; s_moves := s_moves s; s_accounts := s_accounts s; s_ahist := s_ahist s;
       s_thist := s_thist s; s_logs := s_logs s; s_next_tx := ntx; s_next_log := nlog; s_next_seq := nseq |}.

  Fixpoint atomic_run (f : features) (now : Z) (s : state) (aborted err : bool) (os : list op) : state * list ares * bool * bool :=
    match os with
    | [] => (s, [], aborted, err)
    | o :: rest =>
      if err then let '(s', rs, a', e') := atomic_run f now s aborted err rest in (s', ARes BCancelled :: rs, a', e')
      else if aborted then let '(s', rs, a', e') := atomic_run f now s aborted true rest in (s', AAborted :: rs, a', e')
      else match step f now s o with
           | SPanic => let '(s', rs, a', e') := atomic_run f now s true err rest in (s', rs, a', e')
           | SR s1 r =>
             if tx_collides s r then                (* nextval(transaction_id) drawn, nothing else *)
               atomic_run f now (seqs s (s_next_tx s1) (s_next_log s) (s_next_seq s)) true err rest
             else if log_collides s r then          (* everything up to InsertLog ran *)
               atomic_run f now (seqs s (s_next_tx s1) (s_next_log s1) (s_next_seq s1)) true err rest
             else
               let bad := match r with ROk _ _ _ => false | RErr _ => true end in
               let '(s', rs, a', e') := atomic_run f now s1 aborted bad rest in (s', ARes (BRes (Some r)) :: rs, a', e')
           end
    end.

  Inductive aout := AResults (rs : list ares) | ACommitFailed.   (* ACommitFailed: Run returns "commit unexpectedly resulted in rollback" *)

  (* BEFORE the repair fixes/01-facade-begintx (kept for the record and for the witnesses of the defect): the facade
     inherited BeginTX, so the bulk ran on the inner controller: no lock, no state flip, no sequence resync *)
  Definition w_atomic_unrepaired (f : features) (now : Z) (b : istate) (os : list op) : istate * aout :=
    let '(s', rs, aborted, err) := atomic_run f now (i_s b) false false os in
    if err || aborted then
      ({| i_s := only_sequences (i_s b) s'; i_tab := i_tab b; i_l := i_l b; i_c := i_c b |}, if err then AResults rs else ACommitFailed)
    else ({| i_s := s'; i_tab := tab_after f (i_tab b) (i_s b) s'; i_l := i_l b; i_c := i_c b |}, AResults rs).

  (* controllerFacade.BeginTX (since the repair): on a ledger that is still initializing the transaction of the bulk first
     takes the ledger lock, flips the state and resynchronises the sequences (markInUse), exactly as handleState does for a
     single write (it branches on the cache too); the flip commits or rolls back with the bulk, setval is not transactional *)
  Definition w_atomic (f : features) (now : Z) (b : istate) (os : list op) : istate * aout :=
    let s0 := match i_c b, i_l b with Initializing, Initializing => resync (i_s b) | _, _ => i_s b end in
    let '(s', rs, aborted, err) := atomic_run f now s0 false false os in
    if err || aborted then
      ({| i_s := only_sequences (i_s b) s'; i_tab := i_tab b; i_l := i_l b; i_c := i_c b |}, if err then AResults rs else ACommitFailed)
    else ({| i_s := s'; i_tab := tab_after f (i_tab b) s0 s'; i_l := match i_c b with Initializing => InUse | InUse => i_l b end;
             i_c := i_c b |},                       (* BeginTX does not touch the cache *)
          AResults rs).

  (* the source ledger: a history run from the empty ledger, with the hash column the trigger maintained *)
  Definition source (f : features) (h : list (Z * op)) : istate :=
    let s := run f h in
    let l := match s_logs s with [] => Initializing | _ => InUse end in
    {| i_s := s; i_tab := if f_hash f then log_table H pre s else []; i_l := l; i_c := l |}.
End Hashed.

(* ---------- a concrete collision-free instantiation for the extracted model: H = identity over a length-prefixed
   rendering of what the real pre-image contains (previous hash, type, memento, date, idempotency key; NOT the id) ---------- *)
Definition ser_Z (z : Z) : bytes := B (string_of_Z z) ++ B ";".
Definition ser_str (s : str) : bytes := ser_Z (Z.of_nat (String.length s)) ++ B s.
Definition ser_list {A} (g : A -> bytes) (l : list A) : bytes := ser_Z (Z.of_nat (List.length l)) ++ flat_map g l.
Definition ser_meta (m : meta) : bytes := ser_list (fun kv => ser_str (fst kv) ++ ser_str (snd kv)) m.
Definition ser_posting (p : posting) : bytes := ser_str (p_src p) ++ ser_str (p_dst p) ++ ser_str (p_asset p) ++ ser_Z (p_amt p).
Definition ser_resume (t : tx) : bytes :=
  ser_list ser_posting (t_postings t) ++ ser_meta (t_meta t) ++ ser_Z (t_ts t) ++ ser_str (t_ref t) ++ ser_Z (t_id t).
Definition ser_target (t : target) : bytes := match t with TAcc a => B "A" ++ ser_str a | TTx id => B "T" ++ ser_Z id end.
Definition ser_payload (p : payload) : bytes :=
  match p with
  | PNewTx t amd => B "N" ++ ser_resume t ++ ser_list (fun am => ser_str (fst am) ++ ser_meta (snd am)) amd
  | PRevert orig r => B "R" ++ ser_Z (t_id orig) ++ ser_resume r
  | PSetMeta t md => B "S" ++ ser_target t ++ ser_meta md
  | PDelMeta t k => B "D" ++ ser_target t ++ ser_str k
  end.
Definition toy_pre (p : option bytes) (l : log) : option bytes :=
  Some (match p with Some h => B "P" ++ ser_list (fun c => [c]) h | None => B "-" end
        ++ ser_payload (l_payload l) ++ ser_Z (l_date l) ++ ser_str (l_ik l)).
Definition toy_H (b : bytes) : bytes := b.

(* ---------- the script of the correspondence run (vh importx) ---------- *)
(* a stream that is NOT an export: the exported logs with log ids shifted by dl and transaction ids by dt (references,
   idempotency keys, dates, hashes unchanged), optionally appended to the export itself.  Used to present Import with
   NEW_TRANSACTION logs that reuse a reference (C14 on the import path). *)
Definition shift_tx (d : Z) (t : tx) : tx :=
  {| t_id := t_id t + d; t_postings := t_postings t; t_meta := t_meta t; t_ts := t_ts t; t_ref := t_ref t; t_ins := t_ins t;
     t_upd := t_upd t; t_rev := t_rev t; t_pcv := t_pcv t; t_pcev := t_pcev t |}.
Definition shift_target (d : Z) (t : target) : target := match t with TTx id => TTx (id + d) | TAcc a => TAcc a end.
Definition shift_payload (d : Z) (p : payload) : payload :=
  match p with
  | PNewTx t amd => PNewTx (shift_tx d t) amd
  | PRevert orig r => PRevert (shift_tx d orig) (shift_tx d r)
  | PSetMeta t md => PSetMeta (shift_target d t) md
  | PDelMeta t k => PDelMeta (shift_target d t) k
  end.
Definition shift_log (dl dt : Z) (l : log) : log :=
  {| l_id := l_id l + dl; l_payload := shift_payload dt (l_payload l); l_date := l_date l; l_ik := l_ik l; l_input := l_input l |}.

Inductive action :=
| AResolve                                                   (* GetLedgerController: a SECOND facade is built, its cache = the row now *)
| AImportStale (drop : nat) (take : option nat) (now : Z)   (* Import through that second facade *)
| AImportShift (with_orig : bool) (now dl dt : Z)
| AImport (drop : nat) (take : option nat) (now : Z)
| ASingle (ops : list (Z * op))
| ABulk (now : Z) (ops : list op)
| AAtomic (now : Z) (ops : list op)
| AAtomicUnrepaired (now : Z) (ops : list op).     (* the code before fixes/01-facade-begintx (witnesses only) *)

Inductive aresult :=
| RResolve
| RImport (e : option ierr) (b : istate)      (* the copy right after the import (for the comparison with the source) *)
| RSingle (rs : list (option result))
| RBulk (rs : list bres)
| RAtomic (o : aout).

Definition slice {A} (drop : nat) (take : option nat) (l : list A) : list A :=
  let l' := skipn drop l in match take with Some n => firstn n l' | None => l' end.

Definition run_action (f : features) (stream : list (log * bytes)) (b : istate) (a : action) : istate * aresult :=
  match a with
  | AResolve | AImportStale _ _ _ => (b, RResolve)              (* handled by run_action2 *)
  | AImportShift with_orig now dl dt =>
    let shifted := map (fun r => (shift_log dl dt (fst r), snd r)) stream in
    let '(b', e) := imp_import toy_H toy_pre f now b ((if with_orig then stream else []) ++ shifted) in (b', RImport e b')
  | AImport drop take now =>
    let '(b', e) := imp_import toy_H toy_pre f now b (slice drop take stream) in (b', RImport e b')
  | ASingle ops =>
    let '(b', rs) := fold_left (fun acc no => let '(b0, rs) := acc in
                                              let '(b1, r) := w_single toy_H toy_pre f (fst no) b0 (snd no) in (b1, rs ++ [r])) ops (b, []) in
    (b', RSingle rs)
  | ABulk now ops => let '(b', rs) := w_bulk toy_H toy_pre f now b ops in (b', RBulk rs)
  | AAtomic now ops => let '(b', o) := w_atomic toy_H toy_pre f now b ops in (b', RAtomic o)
  | AAtomicUnrepaired now ops => let '(b', o) := w_atomic_unrepaired toy_H toy_pre f now b ops in (b', RAtomic o)
  end.

(* the second facade only has a cache of its own: its requests run on the ledger with the caches swapped *)
Definition run_action2 (f : features) (stream : list (log * bytes)) (bs : istate * lstate) (a : action) : (istate * lstate) * aresult :=
  let '(b, stale) := bs in
  match a with
  | AResolve => ((b, i_l b), RResolve)
  | AImportStale drop take now =>
    let '(b', e) := imp_import toy_H toy_pre f now (with_cache b stale) (slice drop take stream) in
    ((with_cache b' (i_c b), i_c b'), RImport e b')
  | _ => let '(b', r) := run_action f stream b a in ((b', stale), r)
  end.

Definition run_script (f : features) (h : list (Z * op)) (sc : list action) : istate * istate * list aresult :=
  let a := source toy_H toy_pre f h in
  let stream := imp_export_rows a in
  let '(bs, rs) := fold_left (fun acc act => let '(b0, rs) := acc in let '(b1, r) := run_action2 f stream b0 act in (b1, rs ++ [r]))
                             sc ((i_init, Initializing), []) in
  (a, fst bs, rs).
