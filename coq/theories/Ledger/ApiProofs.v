(* Proofs about the decoder models of Ledger/Api.v: totality without panic (C38) and amount exactness (C36). *)
From Coq Require Import List ZArith String Ascii Bool Lia DecimalString DecimalZ DecimalPos DecimalN Decimal.
From LV Require Import Base.JsonTree Ledger.Api.
Import ListNotations.
Open Scope string_scope.
Open Scope Z_scope.

(* ================================================================== no panic *)
Notation NP d := (d <> Panic).

Lemma np_ok {A} (a : A) : NP (Ok a). Proof. discriminate. Qed.
Lemma np_err {A} e : NP (@ClientError A e). Proof. discriminate. Qed.
Lemma np_bind {A B} (m : decoded A) (f : A -> decoded B) : NP m -> (forall a, NP (f a)) -> NP (bind m f).
Proof. intros Hm Hf. destruct m as [a|e|]; simpl; [apply Hf | discriminate | contradiction Hm; reflexivity]. Qed.
Lemma np_mapM {A B} (f : A -> decoded B) l : (forall x, NP (f x)) -> NP (mapM f l).
Proof.
  intros Hf. induction l as [|x r IH]; simpl; [apply np_ok|].
  apply np_bind; [apply Hf|]. intros y. apply np_bind; [exact IH|]. intros ys. apply np_ok.
Qed.

Lemma np_string j : NP (dec_string j). Proof. destruct j; simpl; discriminate. Qed.
Lemma np_bool j : NP (dec_bool j). Proof. destruct j; simpl; discriminate. Qed.
Lemma np_uint64 j : NP (dec_uint64 j).
Proof. destruct j as [| |m [e|]| | |]; cbn [dec_uint64]; try discriminate. match goal with |- context [if ?c then _ else _] => destruct c end; discriminate. Qed.
Lemma np_bigint j : NP (dec_bigint_ptr j). Proof. destruct j as [| |m [e|]| | |]; simpl; discriminate. Qed.
Lemma np_any j : NP (dec_any j). Proof. discriminate. Qed.
Lemma np_raw j : NP (dec_raw j). Proof. discriminate. Qed.
Lemma np_map {A} (dec : ajson -> decoded A) j : (forall x, NP (dec x)) -> NP (dec_map dec j).
Proof.
  intros H. destruct j; simpl; try discriminate.
  apply np_bind; [|intros; apply np_ok]. apply np_mapM. intros kv. apply np_bind; [apply H|intros; apply np_ok].
Qed.
Lemma np_list {A} (dec : ajson -> decoded A) j : (forall x, NP (dec x)) -> NP (dec_list dec j).
Proof. intros H. destruct j; simpl; try discriminate. apply np_mapM, H. Qed.
Lemma np_fld {A} k l (z : A) dec : (forall x, NP (dec x)) -> NP (fld k l z dec).
Proof. intros H. unfold fld. destruct (jfield k l); [apply H|apply np_ok]. Qed.
Lemma np_struct {A} (z : A) body j : (forall l, NP (body l)) -> NP (dec_struct z body j).
Proof. intros H. destruct j; simpl; try discriminate. apply H. Qed.
Lemma np_metadata j : NP (dec_metadata j). Proof. apply np_map, np_string. Qed.
Lemma np_time pt j : NP (dec_time pt j).
Proof. destruct j; simpl; try discriminate. destruct (pt s); discriminate. Qed.

Ltac np :=
  repeat first
    [ apply np_ok | apply np_err | apply np_string | apply np_bool | apply np_uint64 | apply np_bigint | apply np_any | apply np_raw
    | apply np_metadata | apply np_time
    | apply np_fld; intros | apply np_map; intros | apply np_list; intros | apply np_struct; intros
    | apply np_mapM; intros | apply np_bind; [|intros] ].

Lemma np_posting j : NP (dec_posting j). Proof. unfold dec_posting. np. Qed.
Lemma np_scriptv1 j : NP (dec_scriptv1 j). Proof. unfold dec_scriptv1. np. Qed.
Lemma np_validate p : NP (validate_posting p).
Proof.
  unfold validate_posting. destruct (rp_amt p) as [a|]; [|discriminate].
  destruct (a <? 0); [discriminate|]. destruct (address_ok (rp_src p)); simpl; [|discriminate].
  destruct (address_ok (rp_dst p)); simpl; [|discriminate]. destruct (asset_ok (rp_asset p)); simpl; discriminate.
Qed.
Lemma np_raw_tx pt j : NP (dec_raw_tx pt j).
Proof. unfold dec_raw_tx. np; try apply np_posting; try apply np_scriptv1. Qed.
Lemma np_tx_to_core sp w : NP (tx_to_core sp w).
Proof. unfold tx_to_core. np. apply np_validate. Qed.

Theorem decode_v2_tx_no_panic pt sp j : decode_v2_tx pt sp j <> Panic.
Proof. unfold decode_v2_tx. apply np_bind; [apply np_raw_tx|intros; apply np_tx_to_core]. Qed.
Theorem decode_scriptv1_no_panic sp j : decode_scriptv1 sp j <> Panic.
Proof. unfold decode_scriptv1. apply np_bind; [apply np_scriptv1|intros; apply np_ok]. Qed.
Lemma np_bulk_payload pt a d : NP (dec_bulk_payload pt a d).
Proof.
  unfold dec_bulk_payload. destruct d as [d|]; [|discriminate].
  repeat match goal with |- NP (if ?c then _ else _) => destruct c end; np; apply np_raw_tx.
Qed.
Lemma np_bulk_element pt j : NP (dec_bulk_element pt j).
Proof. destruct j; simpl; try discriminate. np. apply np_bulk_payload. Qed.
Theorem decode_bulk_no_panic pt j : decode_bulk pt j <> Panic.
Proof. destruct j; simpl; try discriminate. apply np_mapM. intros; apply np_bulk_element. Qed.
Theorem dec_metadata_no_panic j : dec_metadata j <> Panic.
Proof. apply np_metadata. Qed.

(* ---- v1 Script.ToCore *)
Lemma np_v1_var v : NP (v1_var v).
Proof.
  destruct v as [| b | m e | s | l | m]; simpl; try discriminate.
  destruct (jfield "asset" m) as [a|]; simpl; [|discriminate].
  destruct (dec_string a); simpl; try discriminate.
  destruct (jfield "amount" m) as [[| | n [e|] | | |]|]; simpl; discriminate.
Qed.
Lemma np_v1_script_to_core s : NP (v1_script_to_core s).
Proof. unfold v1_script_to_core. np. apply np_v1_var. Qed.
Lemma np_script_v1api j : NP (dec_script_v1api j). Proof. unfold dec_script_v1api. np. Qed.
Theorem decode_v1_script_no_panic j : decode_v1_script j <> Panic.
Proof. unfold decode_v1_script. apply np_bind; [apply np_script_v1api|intros; apply np_v1_script_to_core]. Qed.

(* ================================================================== decimal text of integers *)
Definition numch (c : ascii) : bool := (is_digit c || Ascii.eqb c "-")%bool.
Fixpoint sall (p : ascii -> bool) (s : string) : bool := match s with EmptyString => true | String c r => (p c && sall p r)%bool end.

Lemma sall_uint d : sall is_digit (NilEmpty.string_of_uint d) = true.
Proof. induction d; simpl; try rewrite IHd; reflexivity. Qed.
Lemma sall_weaken (p q : ascii -> bool) s : (forall c, p c = true -> q c = true) -> sall p s = true -> sall q s = true.
Proof.
  intros H. induction s as [|c r IH]; simpl; [reflexivity|]. intros E. apply andb_true_iff in E. destruct E as [E1 E2].
  rewrite (H c E1), (IH E2). reflexivity.
Qed.
Lemma digit_numch c : is_digit c = true -> numch c = true.
Proof. intros H. unfold numch. rewrite H. reflexivity. Qed.
Lemma sall_nzuint d : sall numch (NilZero.string_of_uint d) = true.
Proof.
  unfold NilZero.string_of_uint. destruct d; try reflexivity;
  apply (sall_weaken is_digit); try exact digit_numch; apply sall_uint.
Qed.
Lemma zstr_sall n : sall numch (zstr n) = true.
Proof.
  unfold zstr, NilZero.string_of_int. destruct (Z.to_int n) as [d|d].
  - apply sall_nzuint.
  - simpl. apply sall_nzuint.
Qed.
Lemma zstr_nonempty n : zstr n <> EmptyString.
Proof.
  unfold zstr, NilZero.string_of_int. destruct (Z.to_int n) as [d|d]; [|discriminate].
  unfold NilZero.string_of_uint. destruct d; simpl; discriminate.
Qed.

Lemma to_int_nonnil n : Z.to_int n <> Pos Nil /\ Z.to_int n <> Neg Nil.
Proof.
  destruct n as [|p|p]; simpl; split; try discriminate; intros H; injection H as H;
  exact (Unsigned.to_uint_nonnil p H).
Qed.

(* big.Int.SetString(n.String(), 10) = n, for every integer *)
Theorem zparse_zstr n : zparse (zstr n) = Some n.
Proof.
  unfold zparse.
  assert (NilZero.int_of_string (zstr n) = Some (Z.to_int n)) as E.
  { unfold zstr. apply NilZero.isi; apply to_int_nonnil. }
  destruct (zstr n) as [|c r] eqn:S; [exfalso; exact (zstr_nonempty n S)|].
  assert (Ascii.eqb c "+" = false) as Hc.
  { pose proof (zstr_sall n) as H. rewrite S in H. simpl in H. apply andb_true_iff in H. destruct H as [H _].
    destruct (Ascii.eqb c "+") eqn:X; [|reflexivity]. apply Ascii.eqb_eq in X. subst c. discriminate H. }
  rewrite Hc, E. rewrite DecimalZ.of_to. reflexivity.
Qed.

(* ================================================================== Volumes.Value -> PostgreSQL composite I/O -> Volumes.Scan *)
Lemma chop_last_app s c : chop_last (s ++ String c EmptyString) = Some (s, c).
Proof. induction s as [|d r IH]; simpl; [reflexivity|]. rewrite IH. reflexivity. Qed.
Lemma app_assoc_s (a b c : string) : ((a ++ b) ++ c = a ++ (b ++ c))%string.
Proof. induction a as [|x r IH]; simpl; [reflexivity|]. rewrite IH. reflexivity. Qed.
Lemma unparen_wrap body : unparen ("(" ++ body ++ ")") = Some body.
Proof. simpl. rewrite chop_last_app. reflexivity. Qed.
Lemma split_comma_app p a b : sall p a = true -> p ","%char = false -> split_comma (a ++ String "," b) = Some (a, b).
Proof.
  intros Ha Hp. induction a as [|c r IH]; simpl; [reflexivity|].
  simpl in Ha. apply andb_true_iff in Ha. destruct Ha as [Hc Hr].
  destruct (Ascii.eqb c ",") eqn:X; [apply Ascii.eqb_eq in X; subst c; rewrite Hp in Hc; discriminate|].
  rewrite (IH Hr). reflexivity.
Qed.
Lemma split_comma_none p a : sall p a = true -> p ","%char = false -> split_comma a = None.
Proof.
  intros Ha Hp. induction a as [|c r IH]; simpl; [reflexivity|].
  simpl in Ha. apply andb_true_iff in Ha. destruct Ha as [Hc Hr].
  destruct (Ascii.eqb c ",") eqn:X; [apply Ascii.eqb_eq in X; subst c; rewrite Hp in Hc; discriminate|].
  rewrite (IH Hr). reflexivity.
Qed.
Lemma trim_left_numch s : sall numch s = true -> trim_left s = s.
Proof.
  destruct s as [|c r]; simpl; [reflexivity|]. intros H. apply andb_true_iff in H. destruct H as [H _].
  destruct (Ascii.eqb c " ") eqn:X; [apply Ascii.eqb_eq in X; subst c; discriminate H|reflexivity].
Qed.

Lemma pg_io_value i o : pg_volumes_io (volumes_value (i, o)) = Some ("(" ++ zstr i ++ "," ++ zstr o ++ ")").
Proof.
  unfold pg_volumes_io, volumes_value; cbn [fst snd].
  replace ("(" ++ zstr i ++ ", " ++ zstr o ++ ")") with ("(" ++ (zstr i ++ ", " ++ zstr o) ++ ")")
    by (rewrite !app_assoc_s; reflexivity).
  rewrite unparen_wrap.
  change (zstr i ++ ", " ++ zstr o) with (zstr i ++ String "," (" " ++ zstr o)).
  rewrite (split_comma_app numch) by (try apply zstr_sall; reflexivity).
  rewrite (trim_left_numch (zstr i)) by apply zstr_sall.
  change (trim_left (" " ++ zstr o)) with (trim_left (zstr o)).
  rewrite (trim_left_numch (zstr o)) by apply zstr_sall.
  rewrite !zparse_zstr. reflexivity.
Qed.
Lemma scan_pg_text i o : volumes_scan ("(" ++ zstr i ++ "," ++ zstr o ++ ")") = Some (i, o).
Proof.
  unfold volumes_scan.
  replace ("(" ++ zstr i ++ "," ++ zstr o ++ ")") with ("(" ++ (zstr i ++ "," ++ zstr o) ++ ")")
    by (rewrite !app_assoc_s; reflexivity).
  rewrite unparen_wrap.
  change (zstr i ++ "," ++ zstr o) with (zstr i ++ String "," (zstr o)).
  rewrite (split_comma_app numch) by (try apply zstr_sall; reflexivity).
  rewrite (split_comma_none numch (zstr o)) by (try apply zstr_sall; reflexivity).
  rewrite !zparse_zstr. reflexivity.
Qed.
Theorem volumes_roundtrip i o :
  match pg_volumes_io (volumes_value (i, o)) with Some t => volumes_scan t | None => None end = Some (i, o).
Proof. rewrite pg_io_value. apply scan_pg_text. Qed.

(* ================================================================== request amounts *)
(* v1 Script.ToCore: {"asset": a, "amount": n} with n a JSON integer of ANY magnitude -> "a n" *)
Theorem v1_monetary_exact m a n :
  jfield "asset" m = Some (AJStr a) -> jfield "amount" m = Some (AJNum n None) ->
  v1_var (AJObj m) = Ok (a ++ " " ++ zstr n).
Proof. intros H1 H2. simpl. rewrite H1, H2. reflexivity. Qed.

(* ScriptV1.ToCore, amount as a decimal STRING: passed through verbatim *)
Theorem scriptv1_string_exact sp m a t :
  jfield "asset" m = Some (AJStr a) -> jfield "amount" m = Some (AJStr t) ->
  scriptv1_var sp (AJObj m) = Some (a ++ " " ++ t).
Proof. intros H1 H2. simpl. rewrite H1, H2. reflexivity. Qed.

(* ScriptV1.ToCore, amount as a JSON NUMBER (json.Number since fixes/09): exact for every integer *)
Theorem scriptv1_number_exact sp m a n :
  jfield "asset" m = Some (AJStr a) -> jfield "amount" m = Some (AJNum n None) ->
  scriptv1_var sp (AJObj m) = Some (a ++ " " ++ zstr n).
Proof. intros H1 H2. simpl. rewrite H1, H2. reflexivity. Qed.
(* a bare numeric variable: exact as well *)
Theorem scriptv1_bare_number_exact sp n : scriptv1_var sp (AJNum n None) = Some (zstr n).
Proof. reflexivity. Qed.
(* an integer spelled with an exponent (1e3) or a zero fraction (100.0) is rendered as the integer it denotes *)
Theorem number_text_integer sp m e : 0 <= e <= 999 -> number_text sp m (Some e) = zstr (m * 10 ^ e).
Proof.
  intros [H1 H2]. unfold number_text.
  assert ((999 <? e) = false) as A by (apply Z.ltb_ge; lia).
  assert ((e <? -999) = false) as B by (apply Z.ltb_ge; lia).
  assert ((0 <=? e) = true) as C by (apply Z.leb_le; lia).
  rewrite A, B, C. reflexivity.
Qed.

(* v2 postings: amount as a JSON integer of any magnitude is decoded exactly *)
Lemma bind_ok {A B} (m : decoded A) (f : A -> decoded B) b : bind m f = Ok b -> exists a, m = Ok a /\ f a = Ok b.
Proof. destruct m as [a|e|]; simpl; intros H; try discriminate. exists a. split; [reflexivity|exact H]. Qed.
Theorem v2_posting_amount_exact l n p :
  jfield "amount" l = Some (AJNum n None) -> dec_posting (AJObj l) = Ok p -> rp_amt p = Some n.
Proof.
  intros H. unfold dec_posting, dec_struct. intros D.
  apply bind_ok in D. destruct D as [s [_ D]].
  apply bind_ok in D. destruct D as [d [_ D]].
  apply bind_ok in D. destruct D as [a [Ea D]].
  apply bind_ok in D. destruct D as [c [_ D]].
  injection D as D. subst p. simpl.
  unfold fld in Ea. rewrite H in Ea. simpl in Ea. injection Ea as Ea. subst a. reflexivity.
Qed.
Theorem validate_keeps_amount p q : validate_posting p = Ok q -> rp_amt p = Some (vp_amt q) /\ 0 <= vp_amt q.
Proof.
  unfold validate_posting. destruct (rp_amt p) as [a|]; [|discriminate].
  destruct (a <? 0) eqn:S; [discriminate|]. destruct (address_ok (rp_src p)); simpl; [|discriminate].
  destruct (address_ok (rp_dst p)); simpl; [|discriminate]. destruct (asset_ok (rp_asset p)); simpl; [|discriminate].
  intros H. injection H as H. subst q. simpl. apply Z.ltb_ge in S. split; [reflexivity|exact S].
Qed.
