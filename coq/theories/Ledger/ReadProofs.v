(* C05: point-in-time and window reads equal the fold of the postings whose date falls in the window. *)
From Coq Require Import List ZArith String Bool Lia.
From LV Require Import Base.Util Ledger.Types Ledger.Core Ledger.VolProofs Ledger.PcvProofs Ledger.Invariants Ledger.EffProofs Ledger.Reads.
Import ListNotations.
Open Scope Z_scope.

(* ---------- the moves table is the list of the postings of the stored transactions, dated like them ---------- *)
Definition sig := (Z * addr * asset * Z * bool * Z * Z)%type.     (* tx, account, asset, amount, is_source, insertion, effective *)
Definition move_sig (m : move) : sig := (m_tx m, m_acc m, m_asset m, m_amt m, m_src m, m_ins m, m_eff m).
Definition posting_sigs (id ins eff : Z) (p : posting) : list sig :=
  [(id, p_src p, p_asset p, p_amt p, true, ins, eff); (id, p_dst p, p_asset p, p_amt p, false, ins, eff)].
Definition tx_sigs (t : tx) : list sig := flat_map (posting_sigs (t_id t) (t_ins t) (t_ts t)) (t_postings t).
Definition MT (s : state) : Prop := map move_sig (s_moves s) = flat_map tx_sigs (s_txs s).

Lemma insert_rows_sigs b txid ins eff ds : forall ms seq ms1 newr seq',
  insert_rows b ms seq txid ins eff ds = (ms1, newr, seq') ->
  map move_sig newr = map (fun d => (txid, md_acc d, md_asset d, md_amt d, md_src d, ins, eff)) ds.
Proof.
  induction ds as [|d r IH]; intros ms seq ms1 newr seq' H; cbn [insert_rows] in H.
  - inversion H; subst. reflexivity.
  - match type of H with context [insert_rows ?b0 ?m0 ?s0 ?t0 ?i0 ?e0 r] =>
      destruct (insert_rows b0 m0 s0 t0 i0 e0 r) as [[ms' nr] sq] eqn:E end.
    inversion H; subst. cbn [map]. rewrite (IH _ _ _ _ _ E). reflexivity.
Qed.

Lemma move_sig_core m m' : move_core m = move_core m' -> move_sig m = move_sig m'.
Proof. unfold move_core, move_sig. intros E. inversion E. reflexivity. Qed.

Lemma map_sig_of_core a b : map move_core a = map move_core b -> map move_sig a = map move_sig b.
Proof.
  revert b; induction a as [|x xs IH]; intros [|y ys] H; cbn in *; try discriminate; [reflexivity|].
  assert (H1 : move_core x = move_core y) by congruence. assert (H2 : map move_core xs = map move_core ys) by congruence.
  f_equal; [apply move_sig_core; exact H1 | apply IH; exact H2].
Qed.

Lemma insert_moves_sigs b ms seq txid ins eff ds ms2 newr seq' :
  insert_moves b ms seq txid ins eff ds = (ms2, newr, seq') ->
  map move_sig ms2 = map move_sig ms ++ map (fun d => (txid, md_acc d, md_asset d, md_amt d, md_src d, ins, eff)) ds.
Proof.
  unfold insert_moves. destruct (insert_rows b ms seq txid ins eff ds) as [[ms1 nr] sq] eqn:E. intros H. injection H as <- <- <-.
  pose proof (insert_rows_app _ _ _ _ _ _ _ _ _ _ E) as Happ. pose proof (insert_rows_sigs _ _ _ _ _ _ _ _ _ _ E) as Hs.
  assert (G : map move_sig (if b then fold_left bump_later nr ms1 else ms1) = map move_sig ms1).
  { destruct b; [|reflexivity]. apply map_sig_of_core. apply fold_bump_core. }
  rewrite G, Happ, map_app, Hs. reflexivity.
Qed.

Lemma moves_of_sigs pcv ps txid ins eff :
  map (fun d => (txid, md_acc d, md_asset d, md_amt d, md_src d, ins, eff)) (moves_of pcv ps) = flat_map (posting_sigs txid ins eff) ps.
Proof.
  pose proof (moves_of_postings pcv ps) as H.
  assert (G : forall l : list mvdata, map (fun d => (txid, md_acc d, md_asset d, md_amt d, md_src d, ins, eff)) l
              = map (fun q : addr * asset * Z * bool => let '(a, c, n, sr) := q in (txid, a, c, n, sr, ins, eff)) (map (fun d => (md_acc d, md_asset d, md_amt d, md_src d)) l)).
  { intros l. rewrite map_map. apply map_ext. intros d. reflexivity. }
  rewrite G, H. clear. induction ps as [|p r IH]; [reflexivity|]. cbn [flat_map]. rewrite map_app, IH. reflexivity.
Qed.

Lemma commit_mt f now s ps md ts ref s1 o : f_moves f = true -> MT s -> commit_transaction f now s ps md ts ref = (s1, o) -> MT s1.
Proof.
  unfold MT, commit_transaction. intros Fm HM H.
  destruct (negb (ref =? "")%string && ref_taken (s_txs s) ref).
  - inversion H; subst. exact HM.
  - rewrite Fm in H.
    destruct (insert_moves (f_pcev f) (s_moves s) (s_next_seq s) (s_next_tx s) now (opt_default now ts)
                (moves_of (returned_totals (update_volumes (s_vols s) (volume_updates ps)) (volume_updates ps)) ps)) as [[mv nr] sq] eqn:E.
    injection H as Hs Ho. subst s1. cbn [s_moves s_txs].
    rewrite (insert_moves_sigs _ _ _ _ _ _ _ _ _ _ E), HM, flat_map_app. cbn [flat_map]. rewrite app_nil_r.
    f_equal. unfold tx_sigs. cbn [t_id t_ins t_ts t_postings]. apply moves_of_sigs.
Qed.

Lemma map_tx_sigs txs id fn : (forall t, tx_sigs (fn t) = tx_sigs t) -> flat_map tx_sigs (map_tx txs id fn) = flat_map tx_sigs txs.
Proof.
  intros H. unfold map_tx. induction txs as [|x xs IH]; [reflexivity|]. cbn [map flat_map]. rewrite IH.
  destruct (t_id x =? id); [rewrite H|]; reflexivity.
Qed.

Lemma touch_tx_mt f s t g upd h : MT s -> MT (touch_tx f s t (fun x => tx_with x (g x) upd (h x))).
Proof. unfold MT, touch_tx. cbn [s_moves s_txs]. intros HM. rewrite map_tx_sigs; [exact HM | intros x; reflexivity]. Qed.

Lemma run_input_mt f now s i : f_moves f = true -> MT s -> MT (outcome_state (run_input f now s i) s).
Proof.
  intros Fm HM. script_split i.
  { simpl. unfold create_tx. destruct ps as [|p ps']; [exact HM|].
    destruct (feasible force (s_vols s) (p :: ps')); simpl; [|exact HM].
    destruct (commit_transaction f now s (p :: ps') md ts ref) as [s1 [t|]] eqn:E; simpl.
    + pose proof (upsert_tx_accounts_frame f now s1 t amd) as (_ & Htx & Hm & _).
      unfold MT. rewrite Htx, Hm. eapply commit_mt; eassumption.
    + eapply commit_mt; eassumption. }
  destruct i as [ps ts ref md amd force | id force at_eff rmeta | [a|id] md | [a|id] k | ps ts ref md amd force smd samd];
    [apply Hc | | | | | | script_bullet Hc]; simpl.
  - destruct (find_tx (s_txs s) id) as [t|]; [|exact HM].
    destruct (t_rev t); [exact HM|].
    set (mark := fun x : tx => tx_with x (t_meta x) now (Some now)).
    assert (H1 : MT (touch_tx f s t mark)) by (apply (touch_tx_mt f s t t_meta now (fun _ => Some now)); exact HM).
    match goal with |- context [match ?c with RCOk => _ | RCInsufficient => _ | RCPanic => _ end] => destruct c end;
      cbn [outcome_state]; try exact H1; try exact HM.
    match goal with |- context [commit_transaction ?a ?b ?c ?d ?e ?g ?h] => destruct (commit_transaction a b c d e g h) as [s2 [r|]] eqn:E end; cbn [outcome_state];
      (eapply commit_mt; [exact Fm | exact H1 | exact E]).
  - exact HM.
  - destruct (find_tx (s_txs s) id) as [t|]; [|exact HM].
    destruct (mcontains (t_meta t) md); simpl; [exact HM|].
    apply (touch_tx_mt f s t (fun x => mmerge (t_meta x) md) now t_rev); exact HM.
  - destruct (find_account (s_accounts s) a); simpl; exact HM.
  - destruct (find_tx (s_txs s) id) as [t|]; [|exact HM].
    destruct (mget (t_meta t) k); simpl; [|exact HM].
    apply (touch_tx_mt f s t (fun x => mdel (t_meta x) k) now t_rev); exact HM.
Qed.

Theorem step_mt f now s o s' r : f_moves f = true -> MT s -> step f now s o = SR s' r -> MT s'.
Proof.
  intros Fm HM H. unfold step in H.
  destruct (find_ik (s_logs s) (o_ik o)) as [l|].
  - destruct (input_eq_dec (l_input l) (o_in o)); inversion H; subst; exact HM.
  - pose proof (run_input_mt f now s (o_in o) Fm HM) as H1.
    destruct (run_input f now s (o_in o)) as [s1 p|s1 e|]; cbn [outcome_state] in *; [| |discriminate].
    + destruct (o_dry o); inversion H; subst; [exact HM | exact H1].
    + inversion H; subst. exact HM.
Qed.

Theorem run_mt f h : f_moves f = true -> MT (run f h).
Proof.
  intros Fm. unfold run.
  assert (G : forall s, MT s -> MT (fold_left (fun s no => match step f (fst no) s (snd no) with SR s' _ => s' | SPanic => s end) h s)).
  { induction h as [|[now o] r IH]; intros s Hs; simpl; [exact Hs|].
    apply IH. destruct (step f now s o) as [s' res|] eqn:E; [eapply step_mt; eassumption | exact Hs]. }
  apply G. reflexivity.
Qed.

(* ---------- window volumes = fold of the postings in the window ---------- *)
Definition sig_delta (k : key) (sg : sig) : vol :=
  let '(_, a, c, n, sr, _, _) := sg in if key_eqb (a, c) k then delta_of n sr else (0, 0).
Definition sig_date (ins : bool) (sg : sig) : Z := let '(_, _, _, _, _, i, e) := sg in if ins then i else e.

Lemma group_moves_gen ms k : forall acc,
  vget (fold_left (fun acc m => vadd acc (m_acc m, m_asset m) (mdelta' m)) ms acc) k
  = vplus (vget acc k) (vsum (map (fun m => sig_delta k (move_sig m)) ms)).
Proof.
  induction ms as [|m r IH]; intros acc; cbn [fold_left map vsum fold_right]; [rewrite vplus_0_r; reflexivity|].
  rewrite IH, vget_vadd. unfold sig_delta, move_sig, mdelta'. destruct (key_eqb (m_acc m, m_asset m) k).
  - rewrite vplus_assoc. reflexivity.
  - rewrite vplus_0_l. reflexivity.
Qed.

Lemma group_moves_vget ms k : vget (group_moves ms) k = vsum (map (sig_delta k) (map move_sig ms)).
Proof. unfold group_moves. rewrite group_moves_gen, map_map. cbn. apply vplus_0_l. Qed.

Lemma map_filter_comm {A B} (g : A -> B) (p : B -> bool) l : map g (filter (fun x => p (g x)) l) = filter p (map g l).
Proof. induction l as [|x xs IH]; cbn; [reflexivity|]. destruct (p (g x)); cbn; rewrite IH; reflexivity. Qed.

Lemma filter_flat_map {A B} (g : A -> list B) (p : B -> bool) (q : A -> bool) l :
  (forall x y, In y (g x) -> p y = q x) -> filter p (flat_map g l) = flat_map g (filter q l).
Proof.
  intros H. induction l as [|x xs IH]; cbn; [reflexivity|]. rewrite filter_app, IH.
  destruct (q x) eqn:Q; cbn.
  - f_equal. rewrite <- (filter_ext_in (fun _ => true)).
    + clear. induction (g x) as [|y ys IHy]; cbn; [reflexivity | rewrite IHy; reflexivity].
    + intros y Hy. rewrite (H x y Hy), Q. reflexivity.
  - rewrite <- (filter_ext_in (fun _ => false)).
    + clear. induction (g x) as [|y ys IHy]; cbn; [reflexivity | exact IHy].
    + intros y Hy. rewrite (H x y Hy), Q. reflexivity.
Qed.

Lemma tx_sigs_date ins t sg : In sg (tx_sigs t) -> sig_date ins sg = tx_date ins t.
Proof.
  unfold tx_sigs. intros H. apply in_flat_map in H. destruct H as (p & _ & Hp). unfold posting_sigs in Hp.
  destruct Hp as [<-|[<-|[]]]; reflexivity.
Qed.

Lemma vsum_posting_sigs k id ins eff p : vsum (map (sig_delta k) (posting_sigs id ins eff p)) = posting_delta p k.
Proof.
  unfold posting_sigs, posting_delta, skey, dkey. cbn [map vsum fold_right sig_delta delta_of].
  destruct (key_eqb (p_src p, p_asset p) k), (key_eqb (p_dst p, p_asset p) k); rewrite ?vplus_0_r; reflexivity.
Qed.

Lemma vsum_tx_sigs k txs : vsum (map (sig_delta k) (flat_map tx_sigs txs)) = fold_postings (flat_map t_postings txs) k.
Proof.
  induction txs as [|t r IH]; [reflexivity|]. cbn [flat_map]. rewrite map_app, vsum_app, fold_postings_app, IH. f_equal.
  unfold tx_sigs. induction (t_postings t) as [|p ps IHp]; [reflexivity|].
  cbn [flat_map fold_postings]. rewrite map_app, vsum_app, IHp, vsum_posting_sigs. reflexivity.
Qed.

Theorem window_volumes_are_fold s w k : MT s ->
  vget (group_moves (filter (fun m => in_win w (mdate (w_ins w) m)) (s_moves s))) k = fold_postings (postings_in s w) k.
Proof.
  intros HM. rewrite group_moves_vget.
  rewrite (filter_ext _ (fun m => in_win w (sig_date (w_ins w) (move_sig m))))
    by (intros m; unfold mdate, sig_date, move_sig; destruct (w_ins w); reflexivity).
  rewrite (map_filter_comm move_sig (fun sg => in_win w (sig_date (w_ins w) sg)) (s_moves s)).
  unfold MT in HM. rewrite HM.
  rewrite (filter_flat_map tx_sigs _ (fun t => in_win w (tx_date (w_ins w) t))).
  - unfold postings_in. apply vsum_tx_sigs.
  - intros t sg Hsg. rewrite (tx_sigs_date _ _ _ Hsg). reflexivity.
Qed.

(* ---------- effective point-in-time volumes (first_value of post_commit_effective_volumes) ---------- *)
Section AssocGeneric.
  Context {V : Type}.
  Lemma gaget_aset_same (m : list (key * V)) k v : aget key_eqb (aset key_eqb m k v) k = Some v.
  Proof. induction m as [|[k' v'] r IH]; simpl; [rewrite pair_eqb_refl; reflexivity|].
    destruct (key_eqb k' k) eqn:E; simpl; rewrite E; [reflexivity | exact IH]. Qed.
  Lemma gaget_aset_other (m : list (key * V)) k k' v : k <> k' -> aget key_eqb (aset key_eqb m k v) k' = aget key_eqb m k'.
  Proof. intros Hne. induction m as [|[k0 v0] r IH]; simpl.
    - destruct (key_eqb k k') eqn:E; [apply pair_eqb_eq in E; contradiction | reflexivity].
    - destruct (key_eqb k0 k) eqn:E; simpl.
      + apply pair_eqb_eq in E. subst k0. destruct (key_eqb k k') eqn:E2; [apply pair_eqb_eq in E2; contradiction | reflexivity].
      + destruct (key_eqb k0 k'); [reflexivity | exact IH]. Qed.
  Lemma aget_map_snd {W} (g : V -> W) (m : list (key * V)) k :
    aget key_eqb (map (fun kv => (fst kv, g (snd kv))) m) k = option_map g (aget key_eqb m k).
  Proof. induction m as [|[k0 v0] r IH]; simpl; [reflexivity|]. destruct (key_eqb k0 k); [reflexivity | exact IH]. Qed.
End AssocGeneric.

Definition mkey (m : move) : key := (m_acc m, m_asset m).
Definition best_step (later : move -> move -> bool) (q : move -> bool) (best : option move) (m : move) : option move :=
  if q m then match best with Some b => if later b m then Some m else best | None => Some m end else best.

Lemma latest_per_key_aget (later : move -> move -> bool) (ms : list move) (k : key) : forall acc : list (key * move),
  aget key_eqb (fold_left (fun (acc : list (key * move)) m => match aget key_eqb acc (mkey m) with
                                         | Some b => if later b m then aset key_eqb acc (mkey m) m else acc
                                         | None => aset key_eqb acc (mkey m) m end) ms acc) k
  = fold_left (best_step later (fun m => key_eqb (mkey m) k)) ms (aget key_eqb acc k).
Proof.
  induction ms as [|m r IH]; intros acc; cbn [fold_left]; [reflexivity|]. rewrite IH. f_equal.
  unfold best_step. destruct (key_eqb (mkey m) k) eqn:E.
  - apply pair_eqb_eq in E. subst k. destruct (aget key_eqb acc (mkey m)) as [b|] eqn:A.
    + destruct (later b m); [apply gaget_aset_same | exact A].
    + apply gaget_aset_same.
  - assert (Hne : mkey m <> k) by (intros Heq; rewrite Heq in E; unfold key_eqb in E; rewrite pair_eqb_refl in E; discriminate).
    destruct (aget key_eqb acc (mkey m)) as [b|]; [destruct (later b m)|]; try reflexivity; apply gaget_aset_other; exact Hne.
Qed.

Lemma best_fold_spec (q : move -> bool) ms : forall best,
  (match best with Some b => q b = true | None => True end) ->
  match fold_left (best_step later_eff q) ms best with
  | Some r => q r = true /\ (best = Some r \/ In r ms) /\
              (forall b, best = Some b -> mle b r = true) /\ (forall m, In m ms -> q m = true -> mle m r = true)
  | None => best = None /\ forall m, In m ms -> q m = false
  end.
Proof.
  induction ms as [|x xs IH]; intros best Hb; cbn [fold_left].
  - destruct best as [b|]; [|split; [reflexivity | intros m []]].
    repeat split; [exact Hb | left; reflexivity | intros b0 E; inversion E; subst; apply mle_refl | intros m []].
  - set (best' := best_step later_eff q best x).
    assert (Hb' : match best' with Some b => q b = true | None => True end).
    { unfold best', best_step. destruct (q x) eqn:Q; [|exact Hb].
      destruct best as [b|]; [|exact Q]. destruct (later_eff b x); [exact Q | exact Hb]. }
    specialize (IH best' Hb'). destruct (fold_left (best_step later_eff q) xs best') as [r|].
    + destruct IH as (Qr & Hor & Hge & Hall). split; [exact Qr|].
      assert (Hx : q x = true -> mle x r = true).
      { intros Q. unfold best', best_step in Hge. rewrite Q in Hge. destruct best as [b|].
        - unfold later_eff in Hge. destruct (lex_lt (m_eff b) (m_seq b) (m_eff x) (m_seq x)) eqn:L.
          + apply Hge; reflexivity.
          + eapply mle_trans; [apply not_lex_lt_mle; exact L | apply Hge; reflexivity].
        - apply Hge; reflexivity. }
      split; [|split].
      * destruct Hor as [E|Hin]; [|right; right; exact Hin].
        unfold best', best_step in E. destruct (q x); [|left; exact E].
        destruct best as [b|]; [|inversion E; right; left; reflexivity].
        destruct (later_eff b x); [inversion E; right; left; reflexivity | left; exact E].
      * intros b E. subst best. unfold best', best_step in Hge. destruct (q x); [|apply Hge; reflexivity].
        unfold later_eff in Hge. destruct (lex_lt (m_eff b) (m_seq b) (m_eff x) (m_seq x)) eqn:L; [|apply Hge; reflexivity].
        eapply mle_trans; [apply lex_lt_mle; exact L | apply Hge; reflexivity].
      * intros m [->|Hin] Q; [apply Hx; exact Q | apply Hall; assumption].
    + destruct IH as (E & Hall). unfold best', best_step in E. destruct (q x) eqn:Q.
      * destruct best as [b|]; [destruct (later_eff b x); discriminate | discriminate].
      * split; [exact E|]. intros m [->|Hin]; [exact Q | apply Hall; exact Hin].
Qed.

Lemma same_ka_mkey m' m : same_ka m' (m_acc m) (m_asset m) = key_eqb (mkey m') (mkey m).
Proof. reflexivity. Qed.

(* the effective volumes read at p for a key = sum of the deltas of all its moves effective at or before p *)
Theorem effective_pit_is_sum s p k :
  (forall m, In m (s_moves s) -> m_pcev m = Some (eff_fold (s_moves s) m)) ->
  vget (volumes_at s p false) k = vsum (map (fun m => if key_eqb (mkey m) k && (m_eff m <=? p) then mdelta m else (0, 0)) (s_moves s)).
Proof.
  intros HP. unfold volumes_at, vget. rewrite aget_map_snd. unfold latest_per_key.
  rewrite (latest_per_key_aget later_eff _ k []). cbn [aget].
  set (ms := s_moves s) in *. set (ms' := filter (fun m => m_eff m <=? p) ms).
  pose proof (best_fold_spec (fun m => key_eqb (mkey m) k) ms' None I) as H.
  destruct (fold_left (best_step later_eff (fun m => key_eqb (mkey m) k)) ms' None) as [r|]; cbn [option_map opt_default].
  - destruct H as (Qr & [E|Hin] & _ & Hmax); [discriminate|].
    apply filter_In in Hin. destruct Hin as [Hin Hp]. unfold pcev_or_zero. rewrite (HP r Hin). cbn [opt_default].
    unfold eff_fold. apply vsum_map_ext_in. intros m' Hm'. apply pair_eqb_eq in Qr. rewrite same_ka_mkey, Qr.
    destruct (key_eqb (mkey m') k) eqn:K; cbn [andb]; [|reflexivity].
    destruct (m_eff m' <=? p) eqn:P.
    + rewrite (Hmax m'); [reflexivity | apply filter_In; split; assumption | exact K].
    + destruct (mle m' r) eqn:M; [|reflexivity]. exfalso. unfold mle in M. lia.
  - destruct H as (_ & Hnone). symmetry. apply vsum_zero. intros m Hm.
    destruct (key_eqb (mkey m) k) eqn:K; cbn [andb]; [|reflexivity].
    destruct (m_eff m <=? p) eqn:P; [|reflexivity].
    rewrite (Hnone m) in K; [discriminate | apply filter_In; split; assumption].
Qed.

Lemma vsum_cons x l : vsum (x :: l) = vplus x (vsum l). Proof. reflexivity. Qed.

Lemma sum_filter_is_group ms (pr : move -> bool) k :
  vsum (map (fun m => if key_eqb (mkey m) k && pr m then mdelta m else (0, 0)) ms) = vget (group_moves (filter pr ms)) k.
Proof.
  rewrite group_moves_vget, map_map. induction ms as [|m r IH]; [reflexivity|]. cbn [map filter]. rewrite vsum_cons, IH.
  destruct (pr m); cbn [map].
  - rewrite vsum_cons. f_equal. unfold sig_delta, move_sig, mkey, mdelta. rewrite andb_true_r. reflexivity.
  - rewrite andb_false_r, vplus_0_l. reflexivity.
Qed.

Theorem effective_pit_is_fold f h p k : f_moves f = true -> f_pcev f = true ->
  vget (volumes_at (run f h) p false) k = fold_postings (postings_in (run f h) {| w_pit := Some p; w_oot := None; w_ins := false |}) k.
Proof.
  intros Fm Fp. rewrite effective_pit_is_sum by (intros m Hm; apply effective_volumes_are_fold; assumption).
  rewrite (sum_filter_is_group (s_moves (run f h)) (fun m => m_eff m <=? p) k).
  rewrite <- (window_volumes_are_fold (run f h) {| w_pit := Some p; w_oot := None; w_ins := false |} k (run_mt f h Fm)).
  f_equal. f_equal. apply filter_ext. intros m. unfold in_win, mdate. cbn. rewrite andb_true_r. reflexivity.
Qed.
