(* Proofs about Ledger/ConcImport.v: the ledger-lock protocol under EVERY schedule (induction over the schedule; any number of
   importers and writers, facades with either cached state). *)
From Coq Require Import List ZArith Bool Arith Lia.
From LV Require Import Ledger.ConcImport.
Import ListNotations.
Open Scope Z_scope.

Lemma irun_inv (P : ist -> Prop) : (forall g w, P g -> P (istep g w)) -> forall sched g, P g -> P (irun g sched).
Proof. intros H sched; induction sched as [|w r IH]; simpl; intros g Hg; auto. Qed.

Lemma nth_iupd {A} (l : list A) v f w :
  nth_error (iupd_nth l v f) w = if Nat.eqb w v then option_map f (nth_error l w) else nth_error l w.
Proof.
  revert v w. induction l as [|x r IH]; intros v w.
  - destruct v, w; simpl; try reflexivity; destruct (Nat.eqb w v); reflexivity.
  - destruct v as [|v], w as [|w]; simpl; auto.
Qed.

(* ---------------------------------------------------------------- where a request stands *)
Definition crit (s : iw) : bool :=
  match iw_op s, iw_pc s with
  | OImport _ _, (IRow | ILast | ILog _ | IUnlock) => true
  | OWrite _ _, (WMark | WSetTx | WSetLog | WEnd) => true
  | _, _ => false
  end.
(* an import that has been accepted (the row said initializing) and has not released the lock yet *)
Definition accepted (s : iw) : bool :=
  match iw_op s, iw_pc s with
  | OImport _ _, (ILast | ILog _) => true
  | OImport _ _, IUnlock => match iw_res s with RImpOk => true | _ => false end
  | _, _ => false
  end.
Definition flipper (s : iw) : bool :=
  match iw_op s, iw_pc s with OWrite _ _, (WSetTx | WSetLog | WEnd) => true | _, _ => false end.
Definition setting (s : iw) : bool :=
  match iw_op s, iw_pc s with OWrite _ _, (WSetTx | WSetLog) => true | _, _ => false end.
Definition resynced (s : iw) : bool :=
  match iw_op s, iw_pc s with OWrite _ _, (WSetLog | WEnd) => true | _, _ => false end.
Definition at_end (s : iw) : bool :=
  match iw_op s, iw_pc s with OWrite _ _, WEnd => true | _, _ => false end.
Definition rejected (r : ires) : bool :=
  match r with RImpNotInit | RImpLogExists | RImpInvalidHash => true | _ => false end.
(* an importer that has not imported anything (yet, or at all) *)
Definition fresh_imp (s : iw) : bool :=
  match iw_op s, iw_pc s with
  | OImport _ _, (ILock | IRow | ILast | ILog O) => true
  | OImport _ _, ILog (S _) => false
  | OImport _ _, _ => rejected (iw_res s)
  | _, _ => false
  end.
Definition chained (g : ist) (s : iw) : Prop :=
  match iw_op s, iw_pc s with
  | OImport _ sh, ILog (S _) => (s_hash g && negb (sh =? 0)) = false
  | _, _ => True
  end.

Definition below (g : ist) : Prop := Forall (fun l => lg_id l < s_seq g) (s_logs g).
Definition no_own_imp (g : ist) (w : iwid) : Prop := forall l, In l (s_logs g) -> lg_imp l = true -> lg_own l <> w.

Record iinv (g : ist) : Prop := {
  v_lock : forall w s, nth_error (s_ws g) w = Some s -> crit s = true -> s_lock g = Some w;
  v_cache : forall w s, nth_error (s_ws g) w = Some s -> iw_cache s = true -> s_row g = true;
  v_acc : forall w s, nth_error (s_ws g) w = Some s -> accepted s = true -> s_row g = false /\ s_flip g = None;
  v_flip : forall w, s_flip g = Some w -> exists s, nth_error (s_ws g) w = Some s /\ flipper s = true;
  v_set : forall w s, nth_error (s_ws g) w = Some s -> setting s = true -> s_flip g = Some w;
  v_end : forall w s, nth_error (s_ws g) w = Some s -> at_end s = true -> s_row g = true \/ s_flip g = Some w;
  v_below : forall w s, nth_error (s_ws g) w = Some s -> resynced s = true -> s_flip g = Some w -> below g;
  v_fast : forall w s, nth_error (s_ws g) w = Some s -> iw_pc s = WFast -> iw_cache s = true;
  v_fresh : forall w s, nth_error (s_ws g) w = Some s -> fresh_imp s = true -> no_own_imp g w;
  v_chain : forall w s, nth_error (s_ws g) w = Some s -> chained g s;
  v_fliprow : forall w, s_flip g = Some w -> s_row g = false;
  v_pristine : s_row g = false -> forall l, In l (s_logs g) -> lg_imp l = true;
  v_inuse : s_row g = true -> below g;
  v_order : forall lw li, In lw (s_logs g) -> In li (s_logs g) -> lg_imp lw = false -> lg_imp li = true -> lg_id li < lg_id lw }.

(* ---------------------------------------------------------------- basic consequences *)
Lemma excl g : iinv g -> forall w1 s1 w2 s2,
  nth_error (s_ws g) w1 = Some s1 -> crit s1 = true -> nth_error (s_ws g) w2 = Some s2 -> crit s2 = true -> w1 = w2.
Proof. intros I w1 s1 w2 s2 H1 C1 H2 C2. pose proof (v_lock g I w1 s1 H1 C1). pose proof (v_lock g I w2 s2 H2 C2). congruence. Qed.

Lemma max_id_bound logs : forall m, max_id logs = Some m -> Forall (fun l => lg_id l <= m) logs.
Proof.
  unfold max_id. assert (H : forall acc m, fold_left (fun m l => match m with Some x => Some (Z.max x (lg_id l)) | None => Some (lg_id l) end) logs acc = Some m ->
      Forall (fun l => lg_id l <= m) logs /\ (forall a, acc = Some a -> a <= m)).
  { induction logs as [|x r IH]; simpl; intros acc m H.
    - split; [constructor|]. intros a E. rewrite E in H. inversion H. lia.
    - destruct (IH _ _ H) as [H1 H2]. split.
      + constructor; auto. destruct acc as [a|]; [specialize (H2 _ eq_refl); lia|specialize (H2 _ eq_refl); lia].
      + intros a E. rewrite E in H2. specialize (H2 _ eq_refl). lia. }
  intros m Hm. apply (H None m Hm).
Qed.
Lemma fold_max_some (r : list ilog) : forall a,
  fold_left (fun m l => match m with Some x => Some (Z.max x (lg_id l)) | None => Some (lg_id l) end) r (Some a) <> None.
Proof. induction r as [|y t IH]; simpl; intros a; [discriminate|apply IH]. Qed.
Lemma max_id_none logs : max_id logs = None -> logs = [].
Proof. unfold max_id. destruct logs as [|x r]; auto. simpl. intros H. exfalso. eapply fold_max_some; eauto. Qed.

Lemma draw_ids w n : forall seq k l, In l (draw seq w n k) -> seq <= lg_id l < seq + Z.of_nat n /\ lg_imp l = false.
Proof.
  induction n as [|m IH]; intros seq k l H; simpl in H; [destruct H|].
  rewrite Nat2Z.inj_succ. destruct H as [H|H].
  - subst. simpl. split; [lia|reflexivity].
  - destruct (IH _ _ _ H). split; [lia|assumption].
Qed.

(* the fields of the state that only [iev] touches do not matter *)
Lemma iinv_ev g w l st : iinv g -> iinv (iev g w l st).
Proof. intros [A1 A2 A3 A4 A5 A6 A7 A8 A9 A10 A11 A12 A13 A14]. split; auto. Qed.

(* a step that only moves the stepping request: what the new record must satisfy *)
Lemma iinv_move g v sv f :
  iinv g -> nth_error (s_ws g) v = Some sv ->
  (crit (f sv) = true -> s_lock g = Some v) ->
  (iw_cache (f sv) = true -> s_row g = true) ->
  (accepted (f sv) = true -> s_row g = false /\ s_flip g = None) ->
  (s_flip g = Some v -> flipper (f sv) = true) ->
  (setting (f sv) = true -> s_flip g = Some v) ->
  (at_end (f sv) = true -> s_row g = true \/ s_flip g = Some v) ->
  (resynced (f sv) = true -> s_flip g = Some v -> below g) ->
  (iw_pc (f sv) = WFast -> iw_cache (f sv) = true) ->
  (fresh_imp (f sv) = true -> no_own_imp g v) ->
  chained g (f sv) ->
  iinv (iupd g v f).
Proof.
  intros I Hv B1 B2 B3 B4 B5 B6 B7 B8 B9 B10. destruct I as [A1 A2 A3 A4 A5 A6 A7 A8 A9 A10 A11 A12 A13 A14].
  split; simpl; auto;
    try (intros w s Hn; rewrite nth_iupd in Hn; destruct (Nat.eqb w v) eqn:E;
         [apply Nat.eqb_eq in E; subst w; rewrite Hv in Hn; simpl in Hn; inversion Hn; subst s; auto | eauto]).
  - intros w Hf. rewrite nth_iupd. destruct (Nat.eqb w v) eqn:E.
    + apply Nat.eqb_eq in E. subst w. rewrite Hv. simpl. eauto.
    + apply A4; auto.
Qed.

Ltac who Hn E v Hv :=
  rewrite nth_iupd in Hn;
  match type of Hn with context [Nat.eqb ?w v] =>
    destruct (Nat.eqb w v) eqn:E;
    [ apply Nat.eqb_eq in E; subst w; rewrite Hv in Hn; simpl in Hn; inversion Hn; subst; clear Hn
    | apply Nat.eqb_neq in E ]
  end.

Lemma held_free g v : held_by_other g v = false -> s_lock g = None \/ s_lock g = Some v.
Proof. unfold held_by_other. destruct (s_lock g) as [h|]; auto. intros H. apply negb_false_iff in H. apply Nat.eqb_eq in H. subst; auto. Qed.

(* the lock is taken (pg_advisory_lock / pg_advisory_xact_lock granted): the request enters its critical section *)
Lemma iinv_take g v sv p :
  iinv g -> nth_error (s_ws g) v = Some sv -> held_by_other g v = false ->
  (iw_pc sv = ILock /\ p = IRow /\ (exists n sh, iw_op sv = OImport n sh)) \/ (iw_pc sv = WXLock /\ p = WMark /\ (exists n f, iw_op sv = OWrite n f)) ->
  iinv (iupd (take_lock g v) v (to_pc p)).
Proof.
  intros I Hv Hh Hp. pose proof (held_free g v Hh) as Hfree.
  assert (Hnc : forall w s, nth_error (s_ws g) w = Some s -> crit s = true -> w = v).
  { intros w s Hn Hc. pose proof (v_lock g I w s Hn Hc). destruct Hfree; congruence. }
  pose proof I as [A1 A2 A3 A4 A5 A6 A7 A8 A9 A10 A11 A12 A13 A14].
  assert (Hsv : crit sv = false /\ accepted sv = false /\ flipper sv = false /\ fresh_imp (to_pc p sv) = fresh_imp sv).
  { destruct Hp as [[E1 [E2 [n [x E3]]]]|[E1 [E2 [n [x E3]]]]]; unfold crit, accepted, flipper, fresh_imp, to_pc; simpl; rewrite E1, E3; subst p; auto. }
  destruct Hsv as [S1 [S2 [S3 S4]]].
  assert (Hno : forall (P : iw -> bool), (forall n sh, P {| iw_op := OImport n sh; iw_pc := IRow; iw_cache := iw_cache sv; iw_res := iw_res sv |} = false) ->
                 (forall n f, P {| iw_op := OWrite n f; iw_pc := WMark; iw_cache := iw_cache sv; iw_res := iw_res sv |} = false) -> P (to_pc p sv) = false).
  { intros P P1 P2. unfold to_pc. destruct Hp as [[E1 [E2 [n [x E3]]]]|[E1 [E2 [n [x E3]]]]]; rewrite E3; subst p; auto. }
  split; simpl; auto.
  - intros w s Hn Hc. who Hn E v Hv; auto; try (rewrite (Hnc w s Hn Hc) in E; congruence).
  - intros w s Hn Hc. who Hn E v Hv; eauto.
  - intros w s Hn Hc. who Hn E v Hv; eauto; try (rewrite (Hno accepted) in Hc; [discriminate|reflexivity|reflexivity]).
  - intros w Hf. destruct (A4 w Hf) as [s [Hs Hfl]]. rewrite nth_iupd. destruct (Nat.eqb w v) eqn:E; [|eauto].
    apply Nat.eqb_eq in E. subst w. rewrite Hv in Hs. inversion Hs; subst s. congruence.
  - intros w s Hn Hc. who Hn E v Hv; eauto; try (rewrite (Hno setting) in Hc; [discriminate|reflexivity|reflexivity]).
  - intros w s Hn Hc. who Hn E v Hv; eauto; try (rewrite (Hno at_end) in Hc; [discriminate|reflexivity|reflexivity]).
  - intros w s Hn Hc. who Hn E v Hv; eauto; try (rewrite (Hno resynced) in Hc; [discriminate|reflexivity|reflexivity]).
  - intros w s Hn Hc. who Hn E v Hv; eauto; try (exfalso; simpl in Hc; destruct Hp as [[E1 [E2 _]]|[E1 [E2 _]]]; subst p; discriminate).
  - intros w s Hn Hc. who Hn E v Hv; eauto; try (rewrite S4 in Hc; eauto).
  - intros w s Hn. who Hn E v Hv; [|apply (A10 w s Hn)].
    unfold chained, to_pc; simpl. destruct Hp as [[E1 [E2 [n [x E3]]]]|[E1 [E2 [n [x E3]]]]]; rewrite E3; subst p; exact Logic.I.
Qed.

Lemma accepted_crit s : accepted s = true -> crit s = true.
Proof. unfold accepted, crit. destruct (iw_op s), (iw_pc s); auto. Qed.
Lemma setting_crit s : setting s = true -> crit s = true.
Proof. unfold setting, crit. destruct (iw_op s), (iw_pc s); auto. Qed.
Lemma at_end_crit s : at_end s = true -> crit s = true.
Proof. unfold at_end, crit. destruct (iw_op s), (iw_pc s); auto. Qed.
Lemma resynced_crit s : resynced s = true -> crit s = true.
Proof. unfold resynced, crit. destruct (iw_op s), (iw_pc s); auto. Qed.
Lemma flipper_crit s : flipper s = true -> crit s = true.
Proof. unfold flipper, crit. destruct (iw_op s), (iw_pc s); auto. Qed.
Lemma chained_noncrit g s : crit s = false -> chained g s.
Proof. unfold chained, crit. destruct (iw_op s), (iw_pc s) as [| | |[|k]| | | | | | | |]; auto; discriminate. Qed.

(* a store call of the request v that is INSIDE its critical section: it holds the ledger lock, so no other request is inside
   one; what is left to check is v's own new position and the table-level clauses *)
Lemma iinv_crit_step g g1 v sv f :
  iinv g -> nth_error (s_ws g) v = Some sv -> crit sv = true -> s_ws g1 = s_ws g -> s_hash g1 = s_hash g ->
  (s_row g = true -> s_row g1 = true) ->
  (forall w, w <> v -> no_own_imp g w -> no_own_imp g1 w) ->
  (forall w, w <> v -> s_flip g1 = Some w -> s_flip g = Some w) ->
  (* v's new position *)
  (crit (f sv) = true -> s_lock g1 = Some v) ->
  (iw_cache (f sv) = true -> s_row g1 = true) ->
  (accepted (f sv) = true -> s_row g1 = false /\ s_flip g1 = None) ->
  (s_flip g1 = Some v -> flipper (f sv) = true) ->
  (setting (f sv) = true -> s_flip g1 = Some v) ->
  (at_end (f sv) = true -> s_row g1 = true \/ s_flip g1 = Some v) ->
  (resynced (f sv) = true -> s_flip g1 = Some v -> below g1) ->
  (iw_pc (f sv) = WFast -> iw_cache (f sv) = true) ->
  (fresh_imp (f sv) = true -> no_own_imp g1 v) ->
  chained g1 (f sv) ->
  (* tables *)
  (forall w, s_flip g1 = Some w -> s_row g1 = false) ->
  (s_row g1 = false -> forall l, In l (s_logs g1) -> lg_imp l = true) ->
  (s_row g1 = true -> below g1) ->
  (forall lw li, In lw (s_logs g1) -> In li (s_logs g1) -> lg_imp lw = false -> lg_imp li = true -> lg_id li < lg_id lw) ->
  iinv (iupd g1 v f).
Proof.
  intros I Hv Hc Hws Hh O1 O2 O3 B1 B2 B3 B4 B5 B6 B7 B8 B9 B10 T1 T2 T3 T4.
  assert (Hother : forall w s, w <> v -> nth_error (s_ws g) w = Some s -> crit s = false).
  { intros w s Hne Hn. destruct (crit s) eqn:E; auto. exfalso. apply Hne. eapply (excl g I); eauto. }
  pose proof I as [A1 A2 A3 A4 A5 A6 A7 A8 A9 A10 A11 A12 A13 A14].
  split; simpl; auto; rewrite ?Hws.
  - intros w s Hn C. who Hn E v Hv; auto. rewrite (Hother w s E Hn) in C. discriminate.
  - intros w s Hn C. who Hn E v Hv; auto. apply O1. eauto.
  - intros w s Hn C. who Hn E v Hv; auto. apply accepted_crit in C. rewrite (Hother w s E Hn) in C. discriminate.
  - intros w Hf. rewrite nth_iupd. destruct (Nat.eqb w v) eqn:E.
    + apply Nat.eqb_eq in E. subst w. rewrite Hv. simpl. eauto.
    + apply Nat.eqb_neq in E. apply A4. apply O3; auto.
  - intros w s Hn C. who Hn E v Hv; auto. apply setting_crit in C. rewrite (Hother w s E Hn) in C. discriminate.
  - intros w s Hn C. who Hn E v Hv; auto. apply at_end_crit in C. rewrite (Hother w s E Hn) in C. discriminate.
  - intros w s Hn C. who Hn E v Hv; auto. apply resynced_crit in C. rewrite (Hother w s E Hn) in C. discriminate.
  - intros w s Hn C. who Hn E v Hv; eauto.
  - intros w s Hn C. who Hn E v Hv; eauto.
  - intros w s Hn. who Hn E v Hv; auto. apply chained_noncrit. eapply Hother; eauto.
Qed.

Lemma chained_same g g1 s : s_hash g1 = s_hash g -> chained g s -> chained g1 s.
Proof. unfold chained. intros ->. auto. Qed.

(* while an importer is inside its critical section nobody has a flip of the row in flight *)
Lemma imp_crit_noflip g v sv n sh : iinv g -> nth_error (s_ws g) v = Some sv -> iw_op sv = OImport n sh -> crit sv = true -> s_flip g = None.
Proof.
  intros I Hv Hop Hc. destruct (s_flip g) as [w|] eqn:Hf; auto. exfalso.
  destruct (v_flip g I w Hf) as [s [Hs Hfl]]. assert (w = v) by (eapply (excl g I); eauto using flipper_crit). subst w.
  rewrite Hv in Hs. inversion Hs; subst s. unfold flipper in Hfl. rewrite Hop in Hfl. discriminate.
Qed.

Lemma below_app g new n : below g -> (forall l, In l new -> s_seq g <= lg_id l < s_seq g + Z.of_nat n) ->
  Forall (fun l => lg_id l < s_seq g + Z.of_nat n) (s_logs g ++ new).
Proof.
  intros B H. apply Forall_app. split.
  - eapply Forall_impl; [|exact B]. simpl. intros; lia.
  - apply Forall_forall. intros l Hl. specialize (H l Hl). lia.
Qed.

Ltac unf := unfold crit, accepted, flipper, setting, at_end, resynced, fresh_imp, chained, to_pc, to_res, finish in *; simpl in *.

(* the clauses of the invariant after the COMMIT / ROLLBACK of a write that took no lock (names of the proof context below) *)
Ltac fast_field v Hv A1 A3 A5 A9 A10 A14 Hlk F1 Hbg :=
  let w := fresh "w" in let s := fresh "s" in let Hn := fresh "Hn" in let C := fresh "C" in let E := fresh "E" in
  first
  [ solve [intros w s Hn C; who Hn E v Hv; [congruence|]; apply Hlk; [auto|eapply A1; eauto]]
  | solve [intros w s Hn C; who Hn E v Hv; [congruence|]; destruct (A3 w s Hn C); congruence]
  | solve [intros w s Hn C; who Hn E v Hv; [congruence|]; pose proof (A5 w s Hn C); congruence]
  | solve [intros w s Hn C; who Hn E v Hv; [discriminate|eauto]]
  | solve [intros w s Hn C; who Hn E v Hv; [congruence|];
           intros l Hin Himp; apply in_app_iff in Hin; destruct Hin as [Hin|Hin]; [eapply A9; eauto|];
           destruct (draw_ids _ _ _ _ _ Hin) as [_ Hf]; congruence]
  | solve [intros w s Hn C; who Hn E v Hv; eauto; congruence]
  | solve [intros w s Hn; who Hn E v Hv; [|apply (A10 w s Hn)]; apply chained_noncrit; apply F1]
  | solve [intros; congruence]
  | solve [intros; discriminate]
  | solve [intros _; unfold below; simpl; apply below_app; auto; intros l Hin; apply (draw_ids _ _ _ _ _ Hin)]
  | solve [intros lw li Hw Hi Hiw Hii; apply in_app_iff in Hw; apply in_app_iff in Hi;
           destruct Hi as [Hi|Hi]; [|destruct (draw_ids _ _ _ _ _ Hi) as [_ Hf]; congruence];
           destruct Hw as [Hw|Hw]; [eapply A14; eauto|];
           destruct (draw_ids _ _ _ _ _ Hw) as [Hge _]; unfold below in Hbg; rewrite Forall_forall in Hbg; specialize (Hbg li Hi); lia]
  | idtac ].

Lemma istep_inv g v : iinv g -> iinv (istep g v).
Proof.
  intros I. unfold istep. destruct (nth_error (s_ws g) v) as [sv|] eqn:Hv; [|exact I].
  pose proof I as [A1 A2 A3 A4 A5 A6 A7 A8 A9 A10 A11 A12 A13 A14].
  assert (Hnf : forall n sh, iw_op sv = OImport n sh -> s_flip g <> Some v).
  { intros n sh Hop Hf. destruct (A4 v Hf) as [s [Hs Hfl]]. rewrite Hv in Hs. inversion Hs; subst s. unfold flipper in Hfl. rewrite Hop in Hfl. discriminate. }
  destruct (iw_op sv) as [n sh|n fails] eqn:Hop; destruct (iw_pc sv) eqn:Hpc; try exact I.
  - (* pg_advisory_lock *)
    unfold do_ilock. destruct (held_by_other g v) eqn:Hh; apply iinv_ev; auto.
    apply (iinv_take g v sv IRow); auto. left. eauto.
  - (* the importer reads the ledger row *)
    assert (Hc : crit sv = true) by (unfold crit; rewrite Hop, Hpc; reflexivity).
    assert (Hfr : no_own_imp g v) by (apply (A9 v sv Hv); unfold fresh_imp; rewrite Hop, Hpc; reflexivity).
    pose proof (A1 v sv Hv Hc) as Hl. pose proof (imp_crit_noflip g v sv n sh I Hv Hop Hc) as Hf0.
    unfold do_irow. destruct (s_row g) eqn:Hr; apply iinv_ev; apply (iinv_move g v sv); auto; unf; rewrite ?Hop; try discriminate; auto;
      try (intros; congruence); try (intros H; pose proof (A2 v sv Hv H); congruence).
  - (* the last stored log *)
    assert (Hc : crit sv = true) by (unfold crit; rewrite Hop, Hpc; reflexivity).
    assert (Hfr : no_own_imp g v) by (apply (A9 v sv Hv); unfold fresh_imp; rewrite Hop, Hpc; reflexivity).
    assert (Hacc : s_row g = false /\ s_flip g = None) by (apply (A3 v sv Hv); unfold accepted; rewrite Hop, Hpc; reflexivity).
    pose proof (A1 v sv Hv Hc) as Hl. destruct Hacc as [Hr Hf0].
    unfold do_ilast. apply iinv_ev. apply (iinv_move g v sv); auto;
      destruct n as [|n']; try destruct (match max_id (s_logs g) with Some m => m <? stream_id sh 0 | None => true end);
      unf; rewrite ?Hop; try discriminate; auto; try (intros; congruence); try (intros H; pose proof (A2 v sv Hv H); congruence).
  - (* one imported log *)
    assert (Hc : crit sv = true) by (unfold crit; rewrite Hop, Hpc; reflexivity).
    assert (Hacc : s_row g = false /\ s_flip g = None) by (apply (A3 v sv Hv); unfold accepted; rewrite Hop, Hpc; reflexivity).
    pose proof (A1 v sv Hv Hc) as Hl. destruct Hacc as [Hr Hf0].
    pose proof (A10 v sv Hv) as Hch. unfold chained in Hch. rewrite Hop, Hpc in Hch.
    unfold do_ilog. destruct (s_hash g && negb (sh =? 0)) eqn:Hhs; apply iinv_ev.
    + (* the stream does not chain: refused at its first log *)
      assert (k = O) by (destruct k; [reflexivity|congruence]). subst k.
      assert (Hfr : no_own_imp g v) by (apply (A9 v sv Hv); unfold fresh_imp; rewrite Hop, Hpc; reflexivity).
      apply (iinv_move g v sv); auto; unf; rewrite ?Hop; try discriminate; auto; try (intros; congruence); try (intros H; pose proof (A2 v sv Hv H); congruence).
    + set (l := {| lg_id := stream_id sh k; lg_own := v; lg_k := k; lg_imp := true |}).
      apply (iinv_crit_step g (commit_log g v l) v sv); auto; simpl;
        try (destruct (Nat.ltb (S k) n)); unf; rewrite ?Hop; try discriminate; auto; try (intros; congruence); try (intros H; pose proof (A2 v sv Hv H); congruence).
      all: try (intros w Hne Hno l0 Hin Himp; apply in_app_iff in Hin; destruct Hin as [Hin|[Hin|[]]]; [eapply Hno; eauto|subst l0; simpl; congruence]).
      all: try (intros _ l0 Hin; apply in_app_iff in Hin; destruct Hin as [Hin|[Hin|[]]]; [eapply A12; eauto|subst l0; reflexivity]).
      all: try (intros lw li Hw Hi Hiw Hii; apply in_app_iff in Hw; apply in_app_iff in Hi;
                destruct Hw as [Hw|[Hw|[]]]; [rewrite (A12 Hr lw Hw) in Hiw; discriminate|subst lw; simpl in Hiw; discriminate]).
  - (* pg_advisory_unlock *)
    assert (Hc : crit sv = true) by (unfold crit; rewrite Hop, Hpc; reflexivity).
    pose proof (A1 v sv Hv Hc) as Hl.
    unfold do_iunlock. apply iinv_ev. apply (iinv_crit_step g (drop_lock g v) v sv); auto; simpl; unf; rewrite ?Hop; try discriminate; auto;
      try (intros; congruence); try (intros H; pose proof (A2 v sv Hv H); congruence).
    all: try (intros Hx; exfalso; apply (Hnf n sh eq_refl); exact Hx).
    intros Hrej. apply (A9 v sv Hv). unfold fresh_imp. rewrite Hop, Hpc. exact Hrej.
  - (* pg_advisory_xact_lock *)
    unfold do_xlock. destruct (held_by_other g v) eqn:Hh; apply iinv_ev; auto.
    apply (iinv_take g v sv WMark); auto. right. eauto.
  - (* markInUse *)
    assert (Hc : crit sv = true) by (unfold crit; rewrite Hop, Hpc; reflexivity).
    pose proof (A1 v sv Hv Hc) as Hl.
    assert (Hnv : s_flip g <> Some v).
    { intros Hf. destruct (A4 v Hf) as [s [Hs Hfl]]. rewrite Hv in Hs. inversion Hs; subst s. unfold flipper in Hfl. rewrite Hop, Hpc in Hfl. discriminate. }
    unfold do_mark. destruct (s_flip g) as [h|] eqn:Hf.
    + destruct (Nat.eqb h v) eqn:E; [apply Nat.eqb_eq in E; subst h; congruence|]. apply iinv_ev; auto.
    + destruct (s_row g) eqn:Hr; apply iinv_ev.
      * apply (iinv_move g v sv); auto; unf; rewrite ?Hop; try discriminate; auto; try (intros; congruence); try (intros H; pose proof (A2 v sv Hv H); congruence).
      * set (g1 := {| s_row := false; s_flip := Some v; s_lock := s_lock g; s_logs := s_logs g; s_seq := s_seq g; s_hash := s_hash g;
                      s_ws := s_ws g; s_commits := s_commits g; s_ev := s_ev g |}).
        apply (iinv_crit_step g g1 v sv); auto; simpl; unf; rewrite ?Hop; try discriminate; auto; try (intros; congruence);
          try (intros H; pose proof (A2 v sv Hv H); congruence).
  - (* setval (transaction ids) *)
    assert (Hc : crit sv = true) by (unfold crit; rewrite Hop, Hpc; reflexivity).
    pose proof (A1 v sv Hv Hc) as Hl.
    assert (Hf : s_flip g = Some v) by (apply (A5 v sv Hv); unfold setting; rewrite Hop, Hpc; reflexivity).
    pose proof (A11 v Hf) as Hr.
    unfold do_setval. apply iinv_ev. apply (iinv_crit_step g (resync g) v sv); auto; simpl; unf; rewrite ?Hop; try discriminate; auto;
      try (intros; congruence); try (intros H; pose proof (A2 v sv Hv H); congruence).
    intros _ _. unfold below, resync. simpl. destruct (max_id (s_logs g)) as [m|] eqn:Hm.
    + eapply Forall_impl; [|apply (max_id_bound _ _ Hm)]. simpl. intros; lia.
    + rewrite (max_id_none _ Hm). constructor.
  - (* setval (log ids) *)
    assert (Hc : crit sv = true) by (unfold crit; rewrite Hop, Hpc; reflexivity).
    pose proof (A1 v sv Hv Hc) as Hl.
    assert (Hf : s_flip g = Some v) by (apply (A5 v sv Hv); unfold setting; rewrite Hop, Hpc; reflexivity).
    pose proof (A11 v Hf) as Hr.
    unfold do_setval. apply iinv_ev. apply (iinv_crit_step g (resync g) v sv); auto; simpl; unf; rewrite ?Hop; try discriminate; auto;
      try (intros; congruence); try (intros H; pose proof (A2 v sv Hv H); congruence).
    intros _ _. unfold below, resync. simpl. destruct (max_id (s_logs g)) as [m|] eqn:Hm.
    + eapply Forall_impl; [|apply (max_id_bound _ _ Hm)]. simpl. intros; lia.
    + rewrite (max_id_none _ Hm). constructor.
  - (* COMMIT / ROLLBACK of a write that went through the lock *)
    assert (Hc : crit sv = true) by (unfold crit; rewrite Hop, Hpc; reflexivity).
    pose proof (A1 v sv Hv Hc) as Hl.
    assert (Hend : s_row g = true \/ s_flip g = Some v) by (apply (A6 v sv Hv); unfold at_end; rewrite Hop, Hpc; reflexivity).
    assert (Hbel : s_flip g = Some v -> below g) by (apply (A7 v sv Hv); unfold resynced; rewrite Hop, Hpc; reflexivity).
    assert (Hfo : forall w, s_flip g = Some w -> w = v).
    { intros w Hf. destruct (A4 w Hf) as [s [Hs Hfl]]. eapply (excl g I); eauto using flipper_crit. }
    assert (Hun : forall w, w <> v -> match s_flip g with Some h => if Nat.eqb h v then None else Some h | None => None end = Some w -> s_flip g = Some w).
    { intros w Hne. destruct (s_flip g) as [h|]; [|discriminate]. destruct (Nat.eqb h v); [discriminate|auto]. }
    assert (Hunv : match s_flip g with Some h => if Nat.eqb h v then None else Some h | None => None end = None).
    { destruct (s_flip g) as [h|] eqn:Hf; auto. rewrite (Hfo h eq_refl), Nat.eqb_refl. reflexivity. }
    unfold do_wend. rewrite Hunv. destruct fails; apply iinv_ev.
    + eapply (iinv_crit_step g _ v sv); eauto; simpl; unf; rewrite ?Hop; try discriminate; auto; try (intros; congruence);
        try (intros H; pose proof (A2 v sv Hv H); congruence).
    + assert (Hbg : below g) by (destruct Hend as [H|H]; auto).
      assert (Hrow' : s_row g || match s_flip g with Some h => Nat.eqb h v | None => false end = true).
      { destruct Hend as [H|H]; [rewrite H; reflexivity|rewrite H, Nat.eqb_refl; apply orb_true_r]. }
      rewrite Hrow'.
      eapply (iinv_crit_step g _ v sv); eauto; simpl; unf; rewrite ?Hop; try discriminate; auto; try (intros; congruence).
      * intros w Hne Hno l Hin Himp. apply in_app_iff in Hin. destruct Hin as [Hin|Hin]; [eapply Hno; eauto|].
        destruct (draw_ids _ _ _ _ _ Hin) as [_ Hf]. congruence.
      * intros _. unfold below. simpl. apply below_app; auto. intros l Hin. apply (draw_ids _ _ _ _ _ Hin).
      * intros lw li Hw Hi Hiw Hii. apply in_app_iff in Hw. apply in_app_iff in Hi.
        destruct Hi as [Hi|Hi]; [|destruct (draw_ids _ _ _ _ _ Hi) as [_ Hf]; congruence].
        destruct Hw as [Hw|Hw]; [eapply A14; eauto|].
        destruct (draw_ids _ _ _ _ _ Hw) as [Hge _]. unfold below in Hbg. rewrite Forall_forall in Hbg. specialize (Hbg li Hi). lia.
  - (* COMMIT / ROLLBACK of a write through a facade that cached in-use: the ledger is in use, nobody is flipping it *)
    assert (Hcache : iw_cache sv = true) by (apply (A8 v sv Hv); exact Hpc).
    pose proof (A2 v sv Hv Hcache) as Hr.
    assert (Hf0 : s_flip g = None).
    { destruct (s_flip g) as [w|] eqn:Hf; auto. rewrite (A11 w eq_refl) in Hr. discriminate. }
    assert (Hlk : forall w, w <> v -> s_lock g = Some w -> s_lock (drop_lock g v) = Some w).
    { intros w Hne Hl. unfold drop_lock; simpl. rewrite Hl. destruct (Nat.eqb w v) eqn:E; auto. apply Nat.eqb_eq in E. congruence. }
    pose proof (A13 Hr) as Hbg.
    unfold do_wend. rewrite Hf0, Hr. simpl.
    assert (Hfin : forall r c, crit (finish r c sv) = false /\ accepted (finish r c sv) = false /\ setting (finish r c sv) = false /\
                               at_end (finish r c sv) = false /\ resynced (finish r c sv) = false /\ fresh_imp (finish r c sv) = false /\
                               flipper (finish r c sv) = false).
    { intros r c. unf. rewrite Hop. repeat split; reflexivity. }
    destruct fails; apply iinv_ev.
    + destruct (Hfin RWErr (iw_cache sv)) as [F1 [F2 [F3 [F4 [F5 [F6 F7]]]]]].
      split; simpl; auto; fast_field v Hv A1 A3 A5 A9 A10 A14 Hlk F1 Hbg.
    + destruct (Hfin (RWOk (map lg_id (draw (s_seq g) v n 0))) true) as [F1 [F2 [F3 [F4 [F5 [F6 F7]]]]]].
      split; simpl; auto; fast_field v Hv A1 A3 A5 A9 A10 A14 Hlk F1 Hbg.
Qed.

Theorem iinv_all_schedules g sched : iinv g -> iinv (irun g sched).
Proof. apply irun_inv. apply istep_inv. Qed.

Lemma nth_new_iws ops w s : nth_error (map (fun o => new_iw (o, false)) ops) w = Some s -> exists o, s = new_iw (o, false).
Proof. rewrite nth_error_map. destruct (nth_error ops w); simpl; [|discriminate]. intros H. inversion H. eauto. Qed.

(* a pristine ledger, every request through a facade that says initializing *)
Lemma iinv_init hash ops : iinv (iinit hash ops).
Proof.
  split; simpl.
  all: try discriminate.
  all: try (intros w s Hn; destruct (nth_new_iws _ _ _ Hn) as [o ->]; destruct o; simpl; intros; try discriminate; auto; try exact Logic.I; fail).
  all: try (intros; match goal with H : In _ [] |- _ => destruct H end; fail).
  all: try (intros; match goal with H : False |- _ => destruct H end; fail).
  all: try (intros w s Hn C l []; fail).
  all: try (intros; constructor; fail).
Qed.
