(* C18: accounts are created once, never disappear, keep their insertion date; first usage only moves down. *)
From Coq Require Import List ZArith String Bool Lia.
From LV Require Import Base.Util Ledger.Types Ledger.Core Ledger.Invariants.
Import ListNotations.
Open Scope Z_scope.

Definition acc_key (a : account) := (a_addr a, a_ins a).

(* every row of [accs] is still there (same position, same address and insertion date) with first usage <=; rows may be appended *)
Definition acc_mono (accs accs' : list account) : Prop :=
  exists l, Forall2 (fun x y => acc_key y = acc_key x /\ a_first y <= a_first x) accs l /\ exists l2, accs' = l ++ l2.

Lemma Forall2_refl_acc a : Forall2 (fun x y => acc_key y = acc_key x /\ a_first y <= a_first x) a a.
Proof. induction a; constructor; [split; [reflexivity|lia] | assumption]. Qed.

Lemma acc_mono_refl a : acc_mono a a.
Proof. exists a. split; [apply Forall2_refl_acc | exists []; rewrite app_nil_r; reflexivity]. Qed.

Lemma acc_mono_trans a b c : acc_mono a b -> acc_mono b c -> acc_mono a c.
Proof.
  intros [l1 [F1 [r1 ->]]] [l2 [F2 [r2 ->]]].
  apply Forall2_app_inv_l in F2. destruct F2 as (m1 & m2 & G1 & G2 & ->).
  exists m1. split.
  - clear -F1 G1. revert m1 G1. induction F1 as [|x y r r' [K L] F IH]; intros m1 G1; inversion G1; subst; constructor.
    + destruct H1 as [K2 L2]. split; [congruence | lia].
    + apply IH; assumption.
  - exists (m2 ++ r2). rewrite app_assoc. reflexivity.
Qed.

Lemma acc_mono_map accs (g : account -> account) :
  (forall y, acc_key (g y) = acc_key y /\ a_first (g y) <= a_first y) -> acc_mono accs (map g accs).
Proof.
  intros H. exists (map g accs). split; [|exists []; rewrite app_nil_r; reflexivity].
  induction accs as [|y r IH]; simpl; constructor; [apply H | exact IH].
Qed.

Lemma acc_mono_snoc accs x : acc_mono accs (accs ++ [x]).
Proof. exists accs. split; [apply Forall2_refl_acc | exists [x]; reflexivity]. Qed.

Lemma upsert_account_mono hist_on now accs hist a md first ins upd :
  acc_mono accs (fst (upsert_account hist_on now (accs, hist) a md first ins upd)).
Proof.
  unfold upsert_account. destruct (find_account accs a) as [x|].
  - destruct (acc_needs_update x md first); cbn [fst]; [|apply acc_mono_refl].
    apply acc_mono_map. intros y. destruct (_ && _); [|split; [reflexivity|lia]].
    unfold acc_updated, acc_key; simpl. split; [reflexivity|]. destruct first; lia.
  - cbn [fst]. apply acc_mono_snoc.
Qed.

Lemma upsert_fold_mono hist_on now (l : list addr) g (first ins upd : option Z) st :
  acc_mono (fst st) (fst (fold_left (fun st a => upsert_account hist_on now st a (g a) first ins upd) l st)).
Proof.
  revert st; induction l as [|a r IH]; intros st; simpl; [apply acc_mono_refl|].
  eapply acc_mono_trans; [|apply IH]. destruct st as [accs hist]. apply upsert_account_mono.
Qed.

Lemma upsert_tx_accounts_mono f now s t amd : acc_mono (s_accounts s) (s_accounts (upsert_tx_accounts f now s t amd)).
Proof.
  unfold upsert_tx_accounts.
  pose proof (upsert_fold_mono (f_acc_hist f) now (involved_accounts (t_postings t) amd) (amd_get amd) (Some (t_ts t)) (Some (t_ins t)) (Some (t_ins t)) (s_accounts s, s_ahist s)) as H.
  destruct (fold_left _ _ _) as [a h]. exact H.
Qed.

Lemma commit_accounts f now s ps md ts ref s1 o : commit_transaction f now s ps md ts ref = (s1, o) -> s_accounts s1 = s_accounts s.
Proof. destruct o; intros H; [apply commit_some in H | apply commit_none in H]; tauto. Qed.

Lemma run_input_acc_mono f now s i : acc_mono (s_accounts s) (s_accounts (outcome_state (run_input f now s i) s)).
Proof.
  script_split i.
  { simpl. unfold create_tx. destruct ps as [|p ps']; [apply acc_mono_refl|].
    destruct (feasible force (s_vols s) (p :: ps')); simpl; [|apply acc_mono_refl].
    destruct (commit_transaction f now s (p :: ps') md ts ref) as [s1 [t|]] eqn:E; simpl.
    + rewrite <- (commit_accounts _ _ _ _ _ _ _ _ _ E). apply upsert_tx_accounts_mono.
    + rewrite (commit_accounts _ _ _ _ _ _ _ _ _ E). apply acc_mono_refl. }
  destruct i as [ps ts ref md amd force | id force at_eff rmeta | [a|id] md | [a|id] k | ps ts ref md amd force smd samd];
    [apply Hc | | | | | | script_bullet Hc]; simpl.
  - destruct (find_tx (s_txs s) id) as [t|]; [|apply acc_mono_refl].
    destruct (t_rev t); [apply acc_mono_refl|].
    match goal with |- context [match ?c with RCOk => _ | RCInsufficient => _ | RCPanic => _ end] => destruct c end;
      cbn [outcome_state]; try apply acc_mono_refl.
    match goal with |- context [commit_transaction ?a ?b ?c ?d ?e ?g ?h] => destruct (commit_transaction a b c d e g h) as [s2 [r|]] eqn:E end;
      cbn [outcome_state]; rewrite (commit_accounts _ _ _ _ _ _ _ _ _ E); apply acc_mono_refl.
  - apply (upsert_account_mono (f_acc_hist f) now (s_accounts s) (s_ahist s) a md (Some now) None None).
  - destruct (find_tx (s_txs s) id) as [t|]; [|apply acc_mono_refl]. destruct (mcontains (t_meta t) md); simpl; apply acc_mono_refl.
  - destruct (find_account (s_accounts s) a); simpl; [|apply acc_mono_refl].
    apply acc_mono_map. intros y. destruct (String.eqb (a_addr y) a); split; try reflexivity; simpl; lia.
  - destruct (find_tx (s_txs s) id) as [t|]; [|apply acc_mono_refl]. destruct (mget (t_meta t) k); simpl; apply acc_mono_refl.
Qed.

Theorem step_acc_mono f now s o s' r : step f now s o = SR s' r -> acc_mono (s_accounts s) (s_accounts s').
Proof.
  unfold step. destruct (find_ik (s_logs s) (o_ik o)) as [l|].
  - destruct (input_eq_dec (l_input l) (o_in o)); intros H; inversion H; apply acc_mono_refl.
  - pose proof (run_input_acc_mono f now s (o_in o)) as Hs.
    destruct (run_input f now s (o_in o)) as [s1 p|s1 e1|]; cbn [outcome_state] in *; [| |discriminate].
    + destruct (o_dry o); intros H; inversion H; subst; [apply acc_mono_refl | exact Hs].
    + intros H; inversion H; subst. apply acc_mono_refl.
Qed.

Lemma find_app_none {A} (g : A -> bool) l l2 : find g l = None -> find g (l ++ l2) = find g l2.
Proof. induction l as [|x r IH]; simpl; [reflexivity|]. destruct (g x); [discriminate|exact IH]. Qed.

(* a successful create lists every involved account, with first usage at or below the transaction's effective timestamp *)
Lemma upsert_account_listed hist_on now accs hist a md e ins upd :
  exists y, find_account (fst (upsert_account hist_on now (accs, hist) a md (Some e) ins upd)) a = Some y /\ a_first y <= e.
Proof.
  unfold upsert_account. destruct (find_account accs a) as [x|] eqn:F.
  - destruct (acc_needs_update x md (Some e)) eqn:C; cbn [fst].
    + exists (acc_updated now x md (Some e) upd). split; [|simpl; lia].
      unfold find_account in *. induction accs as [|y r IH]; simpl in *; [discriminate|].
      destruct (String.eqb (a_addr y) a) eqn:E; simpl.
      * inversion F; subst y. rewrite C. simpl. rewrite E. reflexivity.
      * rewrite E. apply IH; exact F.
    + exists x. split; [exact F|]. unfold acc_needs_update in C. apply orb_false_iff in C. destruct C as [C _]. apply Z.ltb_ge in C. exact C.
  - cbn [fst]. eexists. split.
    + unfold find_account in *. rewrite find_app_none by exact F. simpl. rewrite String.eqb_refl. reflexivity.
    + simpl. lia.
Qed.
