(* Proofs about Ledger/Template.v (query templates, C37). *)
From Coq Require Import List ZArith NArith String Ascii Bool Lia.
From LV Require Import Ledger.Template.
Import ListNotations.
Open Scope Z_scope.

(* ------------------------------------------------------------------ induction over filter bodies *)
Section BodyInd.
  Variable P : tpl_body -> Prop.
  Hypothesis Hand : forall l, Forall P l -> P (TpAnd l).
  Hypothesis Hor : forall l, Forall P l -> P (TpOr l).
  Hypothesis Hnot : forall b, P b -> P (TpNot b).
  Hypothesis Hleaf : forall op k v, P (TpLeaf op k v).
  Fixpoint tpl_body_ind' (b : tpl_body) : P b :=
    match b with
    | TpAnd l => Hand l ((fix go (l : list tpl_body) : Forall P l :=
                            match l with [] => Forall_nil P | x :: xs => Forall_cons x (tpl_body_ind' x) (go xs) end) l)
    | TpOr l => Hor l ((fix go (l : list tpl_body) : Forall P l :=
                          match l with [] => Forall_nil P | x :: xs => Forall_cons x (tpl_body_ind' x) (go xs) end) l)
    | TpNot x => Hnot x (tpl_body_ind' x)
    | TpLeaf op k v => Hleaf op k v
    end.
End BodyInd.

(* ------------------------------------------------------------------ homomorphism over $and / $or / $not *)
Definition tpl_lift {A B} (f : A -> B) (x : tpl_err + A) : tpl_err + B :=
  match x with inl e => inl e | inr a => inr (f a) end.

Lemma tpl_walk_and r env l :
  tpl_walk r env (TpAnd l) = tpl_lift TpAnd (tpl_map_err (tpl_walk r env) l).
Proof.
  simpl. unfold tpl_lift.
  match goal with |- match ?g l with _ => _ end = _ =>
    assert (H : forall l, g l = tpl_map_err (tpl_walk r env) l) end.
  { induction l0 as [|x xs IH]; simpl; [reflexivity|].
    destruct (tpl_walk r env x); [reflexivity|]. rewrite IH. reflexivity. }
  rewrite H. reflexivity.
Qed.

Lemma tpl_walk_or r env l :
  tpl_walk r env (TpOr l) = tpl_lift TpOr (tpl_map_err (tpl_walk r env) l).
Proof.
  simpl. unfold tpl_lift.
  match goal with |- match ?g l with _ => _ end = _ =>
    assert (H : forall l, g l = tpl_map_err (tpl_walk r env) l) end.
  { induction l0 as [|x xs IH]; simpl; [reflexivity|].
    destruct (tpl_walk r env x); [reflexivity|]. rewrite IH. reflexivity. }
  rewrite H. reflexivity.
Qed.

Lemma tpl_walk_not r env b : tpl_walk r env (TpNot b) = tpl_lift TpNot (tpl_walk r env b).
Proof. reflexivity. Qed.

Lemma tpl_walk_leaf r env op k v : tpl_walk r env (TpLeaf op k v) = tpl_resolve_leaf r env op k v.
Proof. reflexivity. Qed.

(* first error, left to right *)
Lemma tpl_map_err_ok {A B} (f : A -> tpl_err + B) l l' :
  tpl_map_err f l = inr l' -> List.length l' = List.length l /\ forall i a, nth_error l i = Some a -> exists b, f a = inr b /\ nth_error l' i = Some b.
Proof.
  revert l'. induction l as [|x xs IH]; simpl; intros l' H.
  - inversion H. split; [reflexivity|]. intros [|i] a Hn; discriminate.
  - destruct (f x) as [e|y] eqn:Hx; [discriminate|].
    destruct (tpl_map_err f xs) as [e|ys] eqn:Hxs; [discriminate|]. inversion H; subst.
    destruct (IH ys eq_refl) as [Hl Hn]. split; [simpl; congruence|].
    intros [|i] a Ha; simpl in *.
    + inversion Ha; subst. eauto.
    + eauto.
Qed.

Lemma tpl_map_err_id {A} (f : A -> tpl_err + A) l :
  Forall (fun x => f x = inr x) l -> tpl_map_err f l = inr l.
Proof.
  induction 1 as [|x xs Hx _ IH]; simpl; [reflexivity|]. rewrite Hx, IH. reflexivity.
Qed.

(* ------------------------------------------------------------------ identity on variable-free bodies *)
(* a byte that ParseTemplate copies unchanged: anything but '$' *)
Definition tpl_plain_char (c : ascii) : bool := negb (tpl_is_char 36 c).

Definition tpl_plain_atom (ft : tpl_ftype) (a : tpl_atom) : bool :=
  match a with
  | TpaStr s => match ft with TpBase TpString => tpl_all tpl_plain_char s | _ => false end
  | _ => true
  end.

Definition tpl_plain_leaf (r : tpl_resource) (op : tpl_op) (key : string) (v : tpl_jv) : bool :=
  match tpl_field_type r key with
  | inl _ => false
  | inr ft =>
      match op with
      | TpoIn => match v with TpjList l => forallb (tpl_plain_atom ft) l | TpjAtom _ => false end
      | TpoExists =>
          match ft with
          | TpMap u => match v with TpjAtom a => tpl_plain_atom (TpBase u) a | TpjList _ => true end
          | TpBase _ => false
          end
      | _ => match v with TpjAtom a => tpl_plain_atom ft a | TpjList _ => true end
      end
  end.

Fixpoint tpl_plain (r : tpl_resource) (b : tpl_body) : bool :=
  match b with
  | TpAnd l => forallb (tpl_plain r) l
  | TpOr l => forallb (tpl_plain r) l
  | TpNot x => tpl_plain r x
  | TpLeaf op k v => tpl_plain_leaf r op k v
  end.

Lemma tpl_replace_plain env s : tpl_all tpl_plain_char s = true -> tpl_replace env s = inr s.
Proof.
  unfold tpl_replace. intros H.
  assert (G : exists segs, tpl_scan TpLit s = Some segs /\ tpl_subst env segs = inr s).
  { induction s as [|c r IH]; simpl in *.
    - exists []. split; reflexivity.
    - apply andb_true_iff in H. destruct H as [Hc Hr]. destruct (IH Hr) as [segs [Hs Hsub]].
      unfold tpl_plain_char in Hc. apply negb_true_iff in Hc. rewrite Hc, Hs. simpl.
      exists (TpsChar c :: segs). split; [reflexivity|]. simpl. rewrite Hsub. reflexivity. }
  destruct G as [segs [Hs Hsub]]. rewrite Hs. exact Hsub.
Qed.

Lemma tpl_resolve_atom_plain ft env a : tpl_plain_atom ft a = true -> tpl_resolve_atom ft env a = inr a.
Proof.
  destruct a as [| |s| |]; simpl; try reflexivity.
  destruct ft as [[| | |]|u]; try discriminate. intros H.
  simpl. rewrite (tpl_replace_plain env s H). reflexivity.
Qed.

Lemma tpl_resolve_leaf_plain r env op k v :
  tpl_plain_leaf r op k v = true -> tpl_resolve_leaf r env op k v = inr (TpLeaf op k v).
Proof.
  unfold tpl_plain_leaf, tpl_resolve_leaf. destruct (tpl_field_type r k) as [e|ft]; [discriminate|].
  intros H.
  assert (G : tpl_resolve_filter op ft env v = inr v).
  { destruct op; simpl in *;
      try (destruct v as [a|l]; [rewrite (tpl_resolve_atom_plain ft env a H); reflexivity | reflexivity]).
    - (* $in *) destruct v as [a|l]; [discriminate|].
      rewrite tpl_map_err_id; [reflexivity|].
      rewrite forallb_forall in H. apply Forall_forall. intros a Ha. apply tpl_resolve_atom_plain. auto.
    - (* $exists *) destruct ft as [b|u]; [discriminate|].
      destruct v as [a|l]; [rewrite (tpl_resolve_atom_plain (TpBase u) env a H); reflexivity | reflexivity]. }
  rewrite G. reflexivity.
Qed.

Lemma tpl_walk_plain r env b : tpl_plain r b = true -> tpl_walk r env b = inr b.
Proof.
  induction b as [l IH|l IH|x IH|op k v] using tpl_body_ind'; intros H.
  - rewrite tpl_walk_and. simpl in H. rewrite tpl_map_err_id; [reflexivity|].
    rewrite forallb_forall in H. rewrite Forall_forall in *. intros x Hx. apply IH; auto.
  - rewrite tpl_walk_or. simpl in H. rewrite tpl_map_err_id; [reflexivity|].
    rewrite forallb_forall in H. rewrite Forall_forall in *. intros x Hx. apply IH; auto.
  - rewrite tpl_walk_not. simpl in H. rewrite (IH H). reflexivity.
  - rewrite tpl_walk_leaf. apply tpl_resolve_leaf_plain. exact H.
Qed.

Lemma tpl_resolve_plain r b decls call env :
  tpl_make_env decls call = inr env -> tpl_plain r b = true -> tpl_resolve r (Some b) decls call = inr (Some b).
Proof. intros He Hp. unfold tpl_resolve. rewrite He, (tpl_walk_plain r env b Hp). reflexivity. Qed.

Lemma tpl_resolve_none r decls call env :
  tpl_make_env decls call = inr env -> tpl_resolve r None decls call = inr None.
Proof. intros He. unfold tpl_resolve. rewrite He. reflexivity. Qed.

(* ------------------------------------------------------------------ Overwrite *)
Lemma tpl_apply_all_app p l1 l2 :
  tpl_apply_all p (l1 ++ l2) =
  match tpl_apply_all p l1 with inl e => inl e | inr p' => tpl_apply_all p' l2 end.
Proof.
  revert p. induction l1 as [|[j|] l1 IH]; intros p; simpl; auto.
  destruct (tpl_apply p j); auto.
Qed.

Lemma tpl_overwrite_snoc_none p l : tpl_overwrite p (l ++ [None]) = tpl_overwrite p l.
Proof. unfold tpl_overwrite. rewrite tpl_apply_all_app. destruct (tpl_apply_all p l); reflexivity. Qed.

Lemma tpl_overwrite_snoc_some p l j q :
  tpl_overwrite p (l ++ [Some j]) = inr q ->
  exists p', tpl_overwrite p l = inr p' /\ tpl_unmarshal p' j = inr q.
Proof.
  unfold tpl_overwrite, tpl_unmarshal. rewrite tpl_apply_all_app.
  destruct (tpl_apply_all p l) as [e|p']; [discriminate|]. simpl.
  destruct (tpl_apply p' j) as [e|q'] eqn:H; [discriminate|]. intros E. inversion E; subst. eauto.
Qed.

(* one object overrides exactly the fields it carries *)
Lemma tpl_unmarshal_fields p j q :
  tpl_unmarshal p j = inr q ->
  tpp_pit q = (match tpj_end j with Some t => Some t | None => tpp_pit p end) /\
  tpp_oot q = (match tpj_start j with Some t => Some t | None => tpp_oot p end) /\
  tpp_expand q = (match tpj_expand j with [] => tpp_expand p | l => l end) /\
  tpp_pagesize q = (if tpj_pagesize j =? 0 then tpp_pagesize p else tpj_pagesize j) /\
  tpl_apply_sort (tpp_column p) (tpp_order p) (tpj_sort j) = inr (tpp_column q, tpp_order q) /\
  tpv_insertion (tpp_opts q) = tpl_opt_or (tpj_insertion j) (tpv_insertion (tpp_opts p)) /\
  tpv_group (tpp_opts q) = tpl_opt_or (tpj_group j) (tpv_group (tpp_opts p)).
Proof.
  unfold tpl_unmarshal, tpl_apply. destruct (tpj_pagesize j <? 0); [discriminate|].
  destruct (tpl_apply_sort (tpp_column p) (tpp_order p) (tpj_sort j)) as [e|[c o]]; [discriminate|].
  intros E. inversion E; subst; clear E. simpl. repeat split; reflexivity.
Qed.

Lemma tpl_apply_sort_absent c o : tpl_apply_sort c o EmptyString = inr (c, o).
Proof. reflexivity. Qed.

Lemma tpl_apply_sort_idem c o s c' o' :
  tpl_apply_sort c o s = inr (c', o') -> tpl_apply_sort c' o' s = inr (c', o').
Proof.
  unfold tpl_apply_sort. destruct (negb (tpl_nonempty s)); [intros E; inversion E; reflexivity|].
  destruct (tpl_split_colon s) as [col [ord|]].
  - destruct (tpl_all tpl_is_space col); [discriminate|].
    destruct (String.eqb (tpl_lower ord) "desc"); [intros E; inversion E; reflexivity|].
    destruct (String.eqb (tpl_lower ord) "asc"); [intros E; inversion E; reflexivity|discriminate].
  - destruct (tpl_all tpl_is_space col); [discriminate|]. intros E; inversion E; reflexivity.
Qed.

Lemma tpl_unmarshal_idem p j q : tpl_unmarshal p j = inr q -> tpl_unmarshal q j = inr q.
Proof.
  intros H. destruct (tpl_unmarshal_fields p j q H) as (Hp & Ho & He & Hs & Hsort & Hi & Hg).
  revert H. unfold tpl_unmarshal, tpl_apply. destruct (tpj_pagesize j <? 0); [discriminate|].
  rewrite (tpl_apply_sort_idem _ _ _ _ _ Hsort). intros _.
  destruct q as [qp qo qe qc qor qs [qi qg]]. simpl in *. subst.
  destruct (tpj_end j), (tpj_start j), (tpj_expand j), (tpj_insertion j), (tpj_group j), (tpj_pagesize j =? 0) eqn:E;
    try rewrite E; reflexivity.
Qed.

Lemma tpl_overwrite_idem p l j :
  tpl_overwrite p (l ++ [Some j; Some j]) = tpl_overwrite p (l ++ [Some j]).
Proof.
  unfold tpl_overwrite. rewrite !tpl_apply_all_app.
  destruct (tpl_apply_all p l) as [e|p']; [reflexivity|]. simpl.
  destruct (tpl_apply p' j) as [e|q] eqn:H; [reflexivity|].
  change (tpl_apply q j) with (tpl_unmarshal q j). rewrite (tpl_unmarshal_idem p' j q H). reflexivity.
Qed.

(* the shape RunQuery uses: defaults, template object, request object *)
Lemma tpl_overwrite_two p t rq q :
  tpl_overwrite p [Some t; Some rq] = inr q ->
  tpp_pit q = (match tpj_end rq with Some x => Some x | None => match tpj_end t with Some x => Some x | None => tpp_pit p end end) /\
  tpp_oot q = (match tpj_start rq with Some x => Some x | None => match tpj_start t with Some x => Some x | None => tpp_oot p end end) /\
  tpp_expand q = (match tpj_expand rq with [] => match tpj_expand t with [] => tpp_expand p | l => l end | l => l end) /\
  tpp_pagesize q = (if tpj_pagesize rq =? 0 then if tpj_pagesize t =? 0 then tpp_pagesize p else tpj_pagesize t else tpj_pagesize rq).
Proof.
  unfold tpl_overwrite. simpl.
  destruct (tpl_apply p t) as [e|p1] eqn:E1; [discriminate|].
  destruct (tpl_apply p1 rq) as [e|p2] eqn:E2; [discriminate|]. intros E; inversion E; subst.
  destruct (tpl_unmarshal_fields p t p1 E1) as (A1 & B1 & C1 & D1 & _).
  destruct (tpl_unmarshal_fields p1 rq q E2) as (A2 & B2 & C2 & D2 & _).
  rewrite A2, B2, C2, D2, A1, B1, C1, D1. repeat split; reflexivity.
Qed.

(* objects without pageSize keep the page size (in particular the configured default) *)
Lemma tpl_overwrite_keeps_pagesize l : forall p q,
  Forall (fun o => match o with Some j => tpj_pagesize j = 0 | None => True end) l ->
  tpl_overwrite p l = inr q -> tpp_pagesize q = tpp_pagesize p.
Proof.
  unfold tpl_overwrite. induction l as [|[j|] l IH]; simpl; intros p q HF H.
  - inversion H; reflexivity.
  - inversion HF as [|x xs Hj Hl]; subst.
    destruct (tpl_apply p j) as [e|p1] eqn:E; [discriminate|].
    destruct (tpl_unmarshal_fields p j p1 E) as (_ & _ & _ & D & _).
    rewrite (IH p1 q Hl H), D, Hj. reflexivity.
  - inversion HF; subst. eauto.
Qed.

(* ------------------------------------------------------------------ RunQuery = direct query *)
Lemma tpl_to_query_fields p f cfg :
  let q := tpl_to_query p f cfg in
  tq_filter q = f /\ tq_pit q = tpp_pit p /\ tq_oot q = tpp_oot p /\ tq_expand q = tpp_expand p /\
  tq_opts q = tpp_opts p /\ tq_column q = tpp_column p /\ tq_order q = tpp_order p /\
  tq_pagesize q = Z.min (tpp_pagesize p) (tpc_max cfg).
Proof.
  simpl. repeat split. destruct (tpc_max cfg <? tpp_pagesize p) eqn:E.
  - apply Z.ltb_lt in E. lia.
  - apply Z.ltb_ge in E. lia.
Qed.

Lemma tpl_run_plan_ok r body decls call tp rp cfg f p :
  tpl_resolve r body decls call = inr f ->
  tpl_overwrite (tpl_run_defaults r cfg) [tp; rp] = inr p ->
  tpl_run_plan r body decls call tp rp cfg = inr (tpl_to_query p f cfg).
Proof. intros H1 H2. unfold tpl_run_plan. rewrite H1, H2. reflexivity. Qed.

Lemma tpl_run_plan_err r body decls call tp rp cfg e :
  tpl_run_plan r body decls call tp rp cfg = inl e ->
  tpl_resolve r body decls call = inl e \/
  (exists f, tpl_resolve r body decls call = inr f) /\ tpl_overwrite (tpl_run_defaults r cfg) [tp; rp] = inl e.
Proof.
  unfold tpl_run_plan. destruct (tpl_resolve r body decls call) as [e1|f]; [intros E; inversion E; auto|].
  destruct (tpl_overwrite (tpl_run_defaults r cfg) [tp; rp]) as [e2|p]; [intros E; inversion E; eauto|discriminate].
Qed.

Lemma tpl_normalize_pagesize r q :
  0 <= tq_pagesize q -> 0 < tq_pagesize (tpl_normalize r q).
Proof. simpl. destruct (tq_pagesize q =? 0) eqn:E; [unfold tpl_query_default_pagesize; lia|]. apply Z.eqb_neq in E. lia. Qed.

Lemma tpl_normalize_idem r q : tpl_normalize r (tpl_normalize r q) = tpl_normalize r q.
Proof.
  unfold tpl_normalize. simpl. f_equal.
  - destruct (tpl_nonempty (tq_column q)) eqn:E; [rewrite E; reflexivity|]. destruct r; reflexivity.
  - destruct (tq_pagesize q =? 0) eqn:E; [reflexivity|]. rewrite E. reflexivity.
Qed.

Arguments tpg_data {row} _.
Arguments tpg_pagesize {row} _.
Arguments tpg_next {row} _.

Lemma tpl_skipn_add {A} (a b : nat) (l : list A) : skipn (a + b) l = skipn b (skipn a l).
Proof.
  revert l. induction a as [|a IH]; intros l; simpl; [reflexivity|].
  destruct l as [|x xs]; [destruct b; reflexivity|]. apply IH.
Qed.

Section ListProofs.
  Variable row : Type.
  Variable sel : tpl_resource -> tpl_query -> list row.

  Lemma tpl_follow_page_at r q : forall fuel off,
    0 < tq_pagesize q ->
    (List.length (skipn off (sel r q)) <= fuel)%nat ->
    tpl_follow row sel fuel r (tpl_page_at row sel r q off) = skipn off (sel r q).
  Proof.
    intros fuel off Hps. revert off.
    assert (Hn : (0 < Z.to_nat (tq_pagesize q))%nat) by lia.
    induction fuel as [|f IH]; intros off Hlen.
    - simpl. destruct (skipn off (sel r q)); [apply firstn_nil|simpl in Hlen; lia].
    - simpl. destruct (Nat.ltb (Z.to_nat (tq_pagesize q)) (List.length (skipn off (sel r q)))) eqn:E.
      + apply Nat.ltb_lt in E. unfold tpl_from_cursor. simpl.
        rewrite IH.
        * rewrite tpl_skipn_add. apply firstn_skipn.
        * rewrite tpl_skipn_add, skipn_length. lia.
      + apply Nat.ltb_ge in E. apply firstn_all2. exact E.
  Qed.

  Lemma tpl_direct_follow r q :
    0 <= tq_pagesize q ->
    tpl_follow row sel (List.length (sel r (tpl_normalize r q))) r (tpl_direct row sel r q) = sel r (tpl_normalize r q).
  Proof.
    intros H. unfold tpl_direct.
    rewrite (tpl_follow_page_at r (tpl_normalize r q) _ 0%nat); [reflexivity| |simpl; lia].
    apply tpl_normalize_pagesize. exact H.
  Qed.

  Lemma tpl_direct_page r q :
    tpg_data (tpl_direct row sel r q) = firstn (Z.to_nat (tq_pagesize (tpl_normalize r q))) (sel r (tpl_normalize r q)) /\
    tpg_pagesize (tpl_direct row sel r q) = (if tq_pagesize q =? 0 then 15 else tq_pagesize q) /\
    (forall c, tpg_next (tpl_direct row sel r q) = Some c -> tcu_query c = tpl_normalize r q).
  Proof.
    unfold tpl_direct, tpl_page_at. simpl. repeat split.
    intros c. destruct (Nat.ltb _ _); [|discriminate]. intros E. inversion E. reflexivity.
  Qed.

  Lemma tpl_run_query_ok r body decls call tp rp cfg f p :
    tpl_resolve r body decls call = inr f ->
    tpl_overwrite (tpl_run_defaults r cfg) [tp; rp] = inr p ->
    tpl_run_query row sel r body decls call tp rp cfg = inr (tpl_direct row sel r (tpl_to_query p f cfg)).
  Proof. intros H1 H2. unfold tpl_run_query. rewrite (tpl_run_plan_ok _ _ _ _ _ _ _ _ _ H1 H2). reflexivity. Qed.
End ListProofs.

(* page sizes the overwrite can produce are never negative when the defaults are not *)
Lemma tpl_apply_pagesize_nonneg p j q : 0 <= tpp_pagesize p -> tpl_apply p j = inr q -> 0 <= tpp_pagesize q.
Proof.
  unfold tpl_apply. intros Hp. destruct (tpj_pagesize j <? 0) eqn:E; [discriminate|]. apply Z.ltb_ge in E.
  destruct (tpl_apply_sort _ _ _) as [e|[c o]]; [discriminate|]. intros H. inversion H; subst. simpl.
  destruct (tpj_pagesize j =? 0); lia.
Qed.

Lemma tpl_apply_all_pagesize_nonneg l : forall p q, 0 <= tpp_pagesize p -> tpl_apply_all p l = inr q -> 0 <= tpp_pagesize q.
Proof.
  induction l as [|[j|] l IH]; simpl; intros p q Hp H.
  - inversion H; subst; exact Hp.
  - destruct (tpl_apply p j) as [e|p'] eqn:E; [discriminate|]. eapply IH; [|exact H]. eapply tpl_apply_pagesize_nonneg; eauto.
  - eauto.
Qed.
