(* C13 (sequential part): idempotency keys give exactly-once effects. *)
From Coq Require Import List ZArith String Bool Lia.
From LV Require Import Base.Util Ledger.Types Ledger.Core Ledger.Invariants.
Import ListNotations.
Open Scope Z_scope.

Lemma find_app_none' {A} (g : A -> bool) l l2 : find g l = None -> find g (l ++ l2) = find g l2.
Proof. induction l as [|x r IH]; simpl; [reflexivity|]. destruct (g x); [discriminate | exact IH]. Qed.

Definition nonempty_iks (logs : list log) : list str := filter (fun k => negb (String.eqb k "")) (map l_ik logs).

Lemma find_ik_none_notin logs ik : ik <> ""%string -> find_ik logs ik = None -> ~ In ik (map l_ik logs).
Proof.
  intros Hne. unfold find_ik. destruct (ik =? "")%string eqn:E; [apply String.eqb_eq in E; contradiction|].
  induction logs as [|l r IH]; simpl; [intros _ []|].
  destruct (l_ik l =? ik)%string eqn:E1; [discriminate|]. intros H [Heq|Hin]; [|exact (IH H Hin)].
  rewrite Heq, String.eqb_refl in E1. discriminate.
Qed.

Lemma find_ik_some logs ik l : find_ik logs ik = Some l -> In l logs /\ l_ik l = ik /\ ik <> ""%string.
Proof.
  unfold find_ik. destruct (ik =? "")%string eqn:E; [discriminate|]. intros H.
  apply find_some in H. destruct H as [Hin Heq]. apply String.eqb_eq in Heq. repeat split; try assumption.
  intros ->. discriminate E.
Qed.

(* at most one log per non-empty idempotency key *)
Definition IkInv (s : state) : Prop := NoDup (nonempty_iks (s_logs s)).

Lemma nonempty_iks_app a b : nonempty_iks (a ++ b) = nonempty_iks a ++ nonempty_iks b.
Proof. unfold nonempty_iks. rewrite map_app, filter_app. reflexivity. Qed.

Lemma run_input_logs_same f now s i : s_logs (outcome_state (run_input f now s i) s) = s_logs s.
Proof. exact (proj1 (run_input_logs f now s i)). Qed.

Theorem step_ik_inv f now s o s' r : IkInv s -> step f now s o = SR s' r -> IkInv s'.
Proof.
  unfold IkInv. intros HI H. unfold step in H.
  destruct (find_ik (s_logs s) (o_ik o)) as [l|] eqn:F.
  - destruct (input_eq_dec (l_input l) (o_in o)); inversion H; subst; exact HI.
  - pose proof (run_input_logs_same f now s (o_in o)) as HL.
    destruct (run_input f now s (o_in o)) as [s1 p|s1 e|]; cbn [outcome_state] in *; [| |discriminate].
    + destruct (o_dry o); inversion H; subst; cbn [only_sequences append_log s_logs]; [exact HI|].
      rewrite HL, nonempty_iks_app. unfold nonempty_iks at 2. cbn [map filter l_ik].
      destruct (o_ik o =? "")%string eqn:E; cbn [negb]; [rewrite app_nil_r; exact HI|].
      apply nodup_snoc; [exact HI|]. intros Hin. unfold nonempty_iks in Hin. apply filter_In in Hin. destruct Hin as [Hin _].
      refine (find_ik_none_notin _ _ _ F Hin). intros Heq. rewrite Heq in E. discriminate E.
    + inversion H; subst. exact HI.
Qed.

Theorem run_ik_inv f h : IkInv (run f h).
Proof.
  unfold run. assert (G : forall s, IkInv s -> IkInv (fold_left (fun s no => match step f (fst no) s (snd no) with SR s' _ => s' | SPanic => s end) h s)).
  { induction h as [|[now o] r IH]; intros s Hs; simpl; [exact Hs|].
    apply IH. destruct (step f now s o) as [s' res|] eqn:E; [eapply step_ik_inv; eassumption | exact Hs]. }
  apply G. constructor.
Qed.

(* a write that committed under key k can be found under k afterwards, with its input *)
Lemma step_commit_records_ik f now s o s' lid tid :
  o_dry o = false -> o_ik o <> ""%string -> step f now s o = SR s' (ROk lid tid false) ->
  exists l, find_ik (s_logs s') (o_ik o) = Some l /\ l_id l = lid /\ l_input l = o_in o /\ payload_tx_id (l_payload l) = tid.
Proof.
  intros Hd Hne H. destruct (step_commit_one_log _ _ _ _ _ _ _ Hd H) as (l & Hl & A & B & _ & C & D & _).
  assert (F : find_ik (s_logs s) (o_ik o) = None).
  { unfold step in H. destruct (find_ik (s_logs s) (o_ik o)) as [l0|]; [|reflexivity].
    destruct (input_eq_dec (l_input l0) (o_in o)); inversion H. }
  exists l. repeat split; try assumption. rewrite Hl. unfold find_ik in *.
  destruct (o_ik o =? "")%string eqn:E; [apply String.eqb_eq in E; contradiction|].
  rewrite find_app_none'; [|exact F]. cbn [find]. rewrite B, String.eqb_refl. reflexivity.
Qed.

(* logs are only appended *)
Lemma step_logs_grow f now s o s' r : step f now s o = SR s' r -> exists ext, s_logs s' = s_logs s ++ ext.
Proof.
  intros H. unfold step in H.
  destruct (find_ik (s_logs s) (o_ik o)) as [l|].
  - destruct (input_eq_dec (l_input l) (o_in o)); inversion H; subst; exists []; rewrite app_nil_r; reflexivity.
  - pose proof (run_input_logs_same f now s (o_in o)) as HL.
    destruct (run_input f now s (o_in o)) as [s1 p|s1 e|]; cbn [outcome_state] in *; [| |discriminate].
    + destruct (o_dry o); inversion H; subst; cbn [only_sequences append_log s_logs].
      * exists []; rewrite app_nil_r; reflexivity.
      * rewrite HL. eexists. reflexivity.
    + inversion H; subst. exists []; rewrite app_nil_r; reflexivity.
Qed.

Lemma find_ik_app_some logs ext ik l : find_ik logs ik = Some l -> find_ik (logs ++ ext) ik = Some l.
Proof.
  unfold find_ik. destruct (ik =? "")%string; [discriminate|].
  induction logs as [|x r IH]; simpl; [discriminate|]. destruct (l_ik x =? ik)%string; [auto | exact IH].
Qed.

Definition run_from (f : features) (s : state) (h : list (Z * op)) : state :=
  fold_left (fun s no => match step f (fst no) s (snd no) with SR s' _ => s' | SPanic => s end) h s.

Lemma find_ik_stable f h : forall s ik l, find_ik (s_logs s) ik = Some l -> find_ik (s_logs (run_from f s h)) ik = Some l.
Proof.
  induction h as [|[now o] r IH]; intros s ik l F; cbn [run_from fold_left fst snd]; [exact F|].
  apply IH. destruct (step f now s o) as [s' res|] eqn:E; [|exact F].
  destruct (step_logs_grow _ _ _ _ _ _ E) as (ext & ->). apply find_ik_app_some. exact F.
Qed.

Lemma step_hit f now s i ik dry l :
  find_ik (s_logs s) ik = Some l ->
  step f now s {| o_in := i; o_ik := ik; o_dry := dry |} =
    if input_eq_dec (l_input l) i then SR s (ROk (l_id l) (payload_tx_id (l_payload l)) true) else SR s (RErr EIdempotencyInput).
Proof. intros F. unfold step. cbn [o_ik o_in]. rewrite F. reflexivity. Qed.

Definition answer_of (r : step_result) : option result := match r with SR _ x => Some x | SPanic => None end.
