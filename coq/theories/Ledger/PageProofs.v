(* Proofs about Ledger/Page.v (column and offset paginators). *)
From Coq Require Import List ZArith Bool Lia Sorting.Sorted.
From LV Require Import Ledger.Page.
Import ListNotations.
Open Scope Z_scope.

(* ---------------------------------------------------------------- the order *)
Ltac dsolve :=
  unfold dle, dlt in *;
  repeat match goal with
  | a : bool |- _ => destruct a
  end;
  repeat match goal with
  | H : (_ <=? _) = true |- _ => apply Z.leb_le in H
  | H : (_ <=? _) = false |- _ => apply Z.leb_gt in H
  | H : (_ <? _) = true |- _ => apply Z.ltb_lt in H
  | H : (_ <? _) = false |- _ => apply Z.ltb_ge in H
  end;
  try (rewrite ?Z.leb_le, ?Z.ltb_lt, ?Z.leb_gt, ?Z.ltb_ge); try lia.

Lemma dlt_irrefl : forall asc a, dlt asc a a = false.
Proof. intros [] a; unfold dlt; apply Z.ltb_irrefl. Qed.

Lemma dlt_trans : forall asc a b c, dlt asc a b = true -> dlt asc b c = true -> dlt asc a c = true.
Proof. intros asc a b c H1 H2. dsolve. Qed.

Lemma dlt_total : forall asc a b, a <> b -> dlt asc a b = true \/ dlt asc b a = true.
Proof. intros asc a b H. unfold dlt. destruct asc; rewrite !Z.ltb_lt; lia. Qed.

Lemma dlt_asym : forall asc a b, dlt asc a b = true -> dlt asc b a = false.
Proof. intros asc a b H. dsolve. Qed.

Lemma dle_dlt : forall asc a b, dle asc a b = negb (dlt asc b a).
Proof. intros [] a b; unfold dle, dlt; destruct (Z.leb_spec a b), (Z.ltb_spec b a); simpl; try reflexivity; try lia;
  destruct (Z.leb_spec b a), (Z.ltb_spec a b); simpl; try reflexivity; lia. Qed.

Lemma dle_refl : forall asc a, dle asc a a = true.
Proof. intros. rewrite dle_dlt, dlt_irrefl. reflexivity. Qed.

Lemma dlt_negb : forall asc a b, dlt (negb asc) a b = dlt asc b a.
Proof. intros [] a b; reflexivity. Qed.

Definition SS (asc : bool) (l : list Z) : Prop := StronglySorted (fun a b => dlt asc a b = true) l.

Lemma SS_nil : forall asc, SS asc []. Proof. intros; constructor. Qed.

Lemma SS_cons_inv : forall asc x l, SS asc (x :: l) -> SS asc l /\ (forall y, In y l -> dlt asc x y = true).
Proof. intros asc x l H. inversion H as [|? ? Hs Hf]; subst. split; [assumption|]. apply Forall_forall. assumption. Qed.

Lemma SS_cons : forall asc x l, SS asc l -> (forall y, In y l -> dlt asc x y = true) -> SS asc (x :: l).
Proof. intros asc x l Hs Hf. constructor; [assumption|]. apply Forall_forall. assumption. Qed.

Lemma SS_NoDup : forall asc l, SS asc l -> NoDup l.
Proof.
  intros asc l; induction l as [|x l IH]; intros H; constructor.
  - apply SS_cons_inv in H. destruct H as [_ Hf]. intros Hin. apply Hf in Hin. rewrite dlt_irrefl in Hin. discriminate.
  - apply IH. apply SS_cons_inv in H. tauto.
Qed.

(* ---------------------------------------------------------------- insertion sort *)
Lemma insert_In : forall asc x l y, In y (insert asc x l) <-> y = x \/ In y l.
Proof.
  intros asc x l y; induction l as [|z l IH]; simpl.
  - intuition.
  - destruct (dle asc x z); simpl; rewrite ?IH; intuition.
Qed.

Lemma insert_SS : forall asc x l, SS asc l -> ~ In x l -> SS asc (insert asc x l).
Proof.
  intros asc x l; induction l as [|z l IH]; intros Hs Hn; simpl.
  - apply SS_cons; [apply SS_nil | intros y []].
  - destruct (SS_cons_inv _ _ _ Hs) as [Hs' Hf].
    destruct (dle asc x z) eqn:E.
    + apply SS_cons; [assumption|]. intros y [<-|Hy].
      * rewrite dle_dlt in E. apply negb_true_iff in E.
        destruct (dlt_total asc x z) as [H|H]; [intros ->; apply Hn; left; reflexivity|assumption|congruence].
      * rewrite dle_dlt in E. apply negb_true_iff in E.
        assert (Hxz : dlt asc x z = true).
        { destruct (dlt_total asc x z) as [H|H]; [intros ->; apply Hn; left; reflexivity|assumption|congruence]. }
        eapply dlt_trans; [exact Hxz | apply Hf; assumption].
    + apply SS_cons.
      * apply IH; [assumption|]. intros Hin. apply Hn. right. assumption.
      * intros y Hy. apply insert_In in Hy. destruct Hy as [->|Hy]; [|apply Hf; assumption].
        rewrite dle_dlt in E. apply negb_false_iff in E. assumption.
Qed.

Lemma sort_In : forall asc l y, In y (sort_keys asc l) <-> In y l.
Proof.
  intros asc l y; induction l as [|x l IH]; simpl; [tauto|].
  rewrite insert_In, IH. intuition.
Qed.

Lemma sort_SS : forall asc l, NoDup l -> SS asc (sort_keys asc l).
Proof.
  intros asc l H; induction H as [|x l Hn Hd IH]; simpl; [apply SS_nil|].
  apply insert_SS; [assumption|]. rewrite sort_In. assumption.
Qed.

Lemma insert_length : forall asc x l, length (insert asc x l) = S (length l).
Proof. intros asc x l; induction l as [|z l IH]; simpl; [reflexivity|]. destruct (dle asc x z); simpl; congruence. Qed.

Lemma sort_length : forall asc l, length (sort_keys asc l) = length l.
Proof. intros asc l; induction l as [|x l IH]; simpl; [reflexivity|]. rewrite insert_length. congruence. Qed.

(* two strictly sorted lists with the same elements are equal *)
Lemma SS_unique : forall asc l1 l2, SS asc l1 -> SS asc l2 -> (forall x, In x l1 <-> In x l2) -> l1 = l2.
Proof.
  intros asc l1; induction l1 as [|a l1 IH]; intros l2 H1 H2 Heq.
  - destruct l2 as [|b l2]; [reflexivity|]. exfalso. apply (proj2 (Heq b)). left; reflexivity.
  - destruct l2 as [|b l2]; [exfalso; apply (proj1 (Heq a)); left; reflexivity|].
    destruct (SS_cons_inv _ _ _ H1) as [H1' F1]. destruct (SS_cons_inv _ _ _ H2) as [H2' F2].
    assert (Hab : a = b).
    { destruct (Z.eq_dec a b) as [|Hne]; [assumption|exfalso].
      assert (Ha : In a l2). { destruct (proj1 (Heq a) (or_introl eq_refl)) as [E|E]; [congruence|assumption]. }
      assert (Hb : In b l1). { destruct (proj2 (Heq b) (or_introl eq_refl)) as [E|E]; [congruence|assumption]. }
      apply F2 in Ha. apply F1 in Hb. apply dlt_asym in Ha. congruence. }
    subst b. f_equal. apply IH; try assumption.
    intros x. split; intros Hx.
    + destruct (proj1 (Heq x) (or_intror Hx)) as [E|E]; [|assumption]. subst x. apply F1 in Hx. rewrite dlt_irrefl in Hx. discriminate.
    + destruct (proj2 (Heq x) (or_intror Hx)) as [E|E]; [|assumption]. subst x. apply F2 in Hx. rewrite dlt_irrefl in Hx. discriminate.
Qed.

Lemma SS_filter : forall asc p l, SS asc l -> SS asc (filter p l).
Proof.
  intros asc p l; induction l as [|x l IH]; intros H; simpl; [apply SS_nil|].
  destruct (SS_cons_inv _ _ _ H) as [H' F].
  destruct (p x); [|apply IH; assumption].
  apply SS_cons; [apply IH; assumption|]. intros y Hy. apply filter_In in Hy. apply F. tauto.
Qed.

Lemma sort_filter : forall asc p l, NoDup l -> sort_keys asc (filter p l) = filter p (sort_keys asc l).
Proof.
  intros asc p l Hd. apply (SS_unique asc).
  - apply sort_SS. apply NoDup_filter. assumption.
  - apply SS_filter. apply sort_SS. assumption.
  - intros x. rewrite sort_In, !filter_In, sort_In. tauto.
Qed.

Lemma SS_app : forall asc l1 l2, SS asc l1 -> SS asc l2 ->
  (forall a b, In a l1 -> In b l2 -> dlt asc a b = true) -> SS asc (l1 ++ l2).
Proof.
  intros asc l1; induction l1 as [|x l1 IH]; intros l2 H1 H2 Hc; simpl; [assumption|].
  destruct (SS_cons_inv _ _ _ H1) as [H1' F1].
  apply SS_cons.
  - apply IH; try assumption. intros a b Ha Hb. apply Hc; [right|]; assumption.
  - intros y Hy. apply in_app_or in Hy. destruct Hy as [Hy|Hy]; [apply F1; assumption|apply Hc; [left; reflexivity|assumption]].
Qed.

Lemma SS_app_inv : forall asc l1 l2, SS asc (l1 ++ l2) ->
  SS asc l1 /\ SS asc l2 /\ (forall a b, In a l1 -> In b l2 -> dlt asc a b = true).
Proof.
  intros asc l1; induction l1 as [|x l1 IH]; intros l2 H; simpl in *.
  - repeat split; [apply SS_nil|assumption|intros a b []].
  - destruct (SS_cons_inv _ _ _ H) as [H' F]. destruct (IH _ H') as (A & B & C).
    repeat split; try assumption.
    + apply SS_cons; [assumption|]. intros y Hy. apply F. apply in_or_app. left; assumption.
    + intros a b [<-|Ha] Hb; [apply F; apply in_or_app; right; assumption|apply C; assumption].
Qed.

Lemma SS_rev : forall asc l, SS asc l -> SS (negb asc) (rev l).
Proof.
  intros asc l; induction l as [|x l IH]; intros H; simpl; [apply SS_nil|].
  destruct (SS_cons_inv _ _ _ H) as [H' F].
  apply SS_app; [apply IH; assumption|apply SS_cons; [apply SS_nil|intros y []]|].
  intros a b Ha [<-|[]]. rewrite dlt_negb. apply F. apply in_rev. assumption.
Qed.

Lemma sort_negb : forall asc l, NoDup l -> sort_keys (negb asc) l = rev (sort_keys asc l).
Proof.
  intros asc l Hd. apply (SS_unique (negb asc)).
  - apply sort_SS; assumption.
  - apply SS_rev. apply sort_SS; assumption.
  - intros x. rewrite <- in_rev, !sort_In. tauto.
Qed.

Lemma filter_all : forall (p : Z -> bool) l, (forall x, In x l -> p x = true) -> filter p l = l.
Proof.
  intros p l; induction l as [|x l IH]; intros H; simpl; [reflexivity|].
  rewrite (H x (or_introl eq_refl)). f_equal. apply IH. intros y Hy. apply H. right; assumption.
Qed.

Lemma filter_none : forall (p : Z -> bool) l, (forall x, In x l -> p x = false) -> filter p l = [].
Proof.
  intros p l; induction l as [|x l IH]; intros H; simpl; [reflexivity|].
  rewrite (H x (or_introl eq_refl)). apply IH. intros y Hy. apply H. right; assumption.
Qed.

(* WHERE col >= x (in the direction of the order) keeps exactly the suffix starting at x *)
Lemma filter_ge_split : forall asc pre x post, SS asc (pre ++ x :: post) ->
  filter (fun k => dle asc x k) (pre ++ x :: post) = x :: post.
Proof.
  intros asc pre x post H. destruct (SS_app_inv _ _ _ H) as (_ & Hs2 & Hc).
  destruct (SS_cons_inv _ _ _ Hs2) as [_ F].
  rewrite filter_app. rewrite filter_none.
  - simpl. rewrite dle_refl. f_equal. apply filter_all. intros y Hy. rewrite dle_dlt. apply negb_true_iff.
    apply dlt_asym. apply F. assumption.
  - intros y Hy. rewrite dle_dlt. apply negb_false_iff. apply Hc; [assumption|left; reflexivity].
Qed.

(* WHERE col < x keeps exactly the prefix before x *)
Lemma filter_lt_split : forall asc pre x post, SS asc (pre ++ x :: post) ->
  filter (fun k => dlt asc k x) (pre ++ x :: post) = pre.
Proof.
  intros asc pre x post H. destruct (SS_app_inv _ _ _ H) as (_ & Hs2 & Hc).
  destruct (SS_cons_inv _ _ _ Hs2) as [_ F].
  rewrite filter_app. rewrite filter_all.
  - simpl. rewrite dlt_irrefl. rewrite filter_none; [apply app_nil_r|].
    intros y Hy. apply dlt_asym. apply F. assumption.
  - intros y Hy. apply Hc; [assumption|left; reflexivity].
Qed.

Lemma filter_ext_eq : forall (p q : Z -> bool) l, (forall x, p x = q x) -> filter p l = filter q l.
Proof. intros p q l H. apply filter_ext. assumption. Qed.

(* ---------------------------------------------------------------- list facts used by BuildCursor *)
Lemma firstn_short : forall (l : list Z) n, (length l <= n)%nat -> firstn n l = l.
Proof. intros. apply firstn_all2. assumption. Qed.

Lemma split_at : forall (l : list Z) n, (n < length l)%nat ->
  exists a y c, l = a ++ y :: c /\ length a = n.
Proof.
  intros l n H. exists (firstn n l).
  destruct (skipn n l) as [|y c] eqn:E.
  - exfalso. assert (length (skipn n l) = 0%nat) by (rewrite E; reflexivity). rewrite skipn_length in *. lia.
  - exists y, c. split; [rewrite <- E; symmetry; apply firstn_skipn|]. rewrite firstn_length. lia.
Qed.

Lemma firstn_S_split : forall (a : list Z) y c, firstn (S (length a)) (a ++ y :: c) = a ++ [y].
Proof.
  intros a y c. replace (S (length a)) with (length a + 1)%nat by lia.
  rewrite firstn_app_2. reflexivity.
Qed.

Lemma firstn_S_split' : forall n (a : list Z) y c, length a = n -> firstn (S n) (a ++ y :: c) = a ++ [y].
Proof. intros n a y c <-. apply firstn_S_split. Qed.

Lemma nth_last_app : forall (a : list Z) y, nth (length (a ++ [y]) - 1) (a ++ [y]) 0 = y.
Proof.
  intros a y. rewrite app_length. simpl. replace (length a + 1 - 1)%nat with (length a) by lia.
  rewrite app_nth2 by lia. rewrite Nat.sub_diag. reflexivity.
Qed.

Lemma removelast_snoc : forall (a : list Z) y, removelast (a ++ [y]) = a.
Proof. intros. apply removelast_last. Qed.

(* ================================================================ column paginator *)
Section Column.
Variable ks : list Z.
Variable size : nat.
Variable asc : bool.
Hypothesis Hnd : NoDup ks.
Hypothesis Hsize : (1 <= size)%nat.

Definition sorted_ks : list Z := sort_keys asc ks.
Definition bot : Z := hd 0 sorted_ks.

(* the forward / reverse query whose pagination id is x (Bottom = first key of the listing) *)
Definition fq (x : Z) : cquery :=
  {| q_size := size; q_asc := asc; q_pid := Some x; q_bottom := Some bot; q_reverse := false |}.
Definition rq (x : Z) : cquery :=
  {| q_size := size; q_asc := asc; q_pid := Some x; q_bottom := Some bot; q_reverse := true |}.

Lemma size_eqb : Nat.eqb size 0 = false.
Proof. apply Nat.eqb_neq. lia. Qed.

Lemma sorted_SS : SS asc sorted_ks.
Proof. apply sort_SS. assumption. Qed.

Lemma fetch_init : fetch ks (init_query size asc) = firstn (S size) sorted_ks.
Proof.
  unfold fetch, eff_size, eff_asc, init_query; simpl. rewrite size_eqb.
  rewrite filter_all; [reflexivity|]. intros; reflexivity.
Qed.

Lemma fetch_fwd : forall pre x post, sorted_ks = pre ++ x :: post ->
  fetch ks (fq x) = firstn (S size) (x :: post).
Proof.
  intros pre x post Hs. unfold fetch, eff_size, eff_asc, fq; simpl. rewrite size_eqb.
  rewrite (filter_ext_eq _ (fun k => dle asc x k)).
  2:{ intros k. unfold keep, dle; simpl. destruct asc; [apply Z.geb_leb|reflexivity]. }
  rewrite sort_filter by assumption. fold sorted_ks. rewrite Hs.
  rewrite filter_ge_split; [reflexivity|]. rewrite <- Hs. apply sorted_SS.
Qed.

Lemma fetch_rev : forall pre x post, sorted_ks = pre ++ x :: post ->
  fetch ks (rq x) = firstn (S size) (rev pre).
Proof.
  intros pre x post Hs. unfold fetch, eff_size, eff_asc, rq; simpl. rewrite size_eqb.
  rewrite (filter_ext_eq _ (fun k => dlt asc k x)).
  2:{ intros k. unfold keep, dlt; simpl. destruct asc; [reflexivity|apply Z.gtb_ltb]. }
  rewrite sort_negb by (apply NoDup_filter; assumption).
  rewrite sort_filter by assumption. fold sorted_ks. rewrite Hs.
  rewrite filter_lt_split; [reflexivity|]. rewrite <- Hs. apply sorted_SS.
Qed.

Lemma ltb_short : forall (l : list Z), (length l <= size)%nat -> Nat.ltb size (length l) = false.
Proof. intros. apply Nat.ltb_ge. assumption. Qed.

Lemma ltb_long : forall (a : list Z) y, length a = size -> Nat.ltb size (length (a ++ [y])) = true.
Proof. intros a y H. apply Nat.ltb_lt. rewrite app_length; simpl. lia. Qed.

(* first page *)
Lemma page_init_short : (length sorted_ks <= size)%nat ->
  page ks (init_query size asc) =
  Some {| p_data := sorted_ks; p_has_more := false; p_prev := None; p_next := None |}.
Proof.
  intros Hl. unfold page. rewrite fetch_init. rewrite firstn_short by lia.
  unfold build_cursor, with_bottom, with_pid, with_reverse, eff_size, init_query; simpl.
  rewrite size_eqb. rewrite ltb_short by assumption. reflexivity.
Qed.

Lemma page_init_long : forall a y c, sorted_ks = a ++ y :: c -> length a = size ->
  page ks (init_query size asc) =
  Some {| p_data := a; p_has_more := true; p_prev := None; p_next := Some (fq y) |}.
Proof.
  intros a y c Hs Hl. unfold page. rewrite fetch_init. rewrite Hs. rewrite (firstn_S_split' _ _ _ _ Hl).
  unfold build_cursor, with_bottom, with_pid, with_reverse, eff_size, init_query; simpl.
  rewrite size_eqb. rewrite ltb_long by assumption.
  rewrite removelast_snoc, nth_last_app.
  unfold fq, bot. rewrite Hs.
  destruct a as [|a0 a']; [simpl in Hl; lia|]. reflexivity.
Qed.

(* the test PaginationID.Cmp(Bottom) of BuildCursor *)
Lemma prev_test : forall pre x post, sorted_ks = pre ++ x :: post -> pre <> [] ->
  (asc && (x >? bot)) || (negb asc && (x <? bot)) = true.
Proof.
  intros pre x post Hs Hne.
  assert (H : dlt asc bot x = true).
  { pose proof sorted_SS as HS. rewrite Hs in HS. destruct (SS_app_inv _ _ _ HS) as (_ & _ & Hc).
    apply Hc; [|left; reflexivity]. unfold bot. rewrite Hs. destruct pre as [|p0 pre']; [congruence|]. left; reflexivity. }
  unfold dlt in H. destruct asc; simpl; [rewrite Z.gtb_ltb|]; rewrite H; reflexivity.
Qed.

(* page behind a forward cursor *)
Lemma page_fwd_short : forall pre x post, sorted_ks = pre ++ x :: post -> pre <> [] ->
  (length (x :: post) <= size)%nat ->
  page ks (fq x) =
  Some {| p_data := x :: post; p_has_more := false; p_prev := Some (rq x); p_next := None |}.
Proof.
  intros pre x post Hs Hne Hl. unfold page. rewrite (fetch_fwd _ _ _ Hs). rewrite firstn_short by lia.
  unfold build_cursor, with_bottom, with_pid, with_reverse, eff_size, fq; simpl q_reverse; simpl q_bottom; simpl q_size; simpl q_pid; simpl q_asc; cbv iota.
  rewrite size_eqb. rewrite ltb_short by assumption.
  rewrite (prev_test _ _ _ Hs Hne). reflexivity.
Qed.

Lemma page_fwd_long : forall pre x post a y c, sorted_ks = pre ++ x :: post -> pre <> [] ->
  x :: post = a ++ y :: c -> length a = size ->
  page ks (fq x) =
  Some {| p_data := a; p_has_more := true; p_prev := Some (rq x); p_next := Some (fq y) |}.
Proof.
  intros pre x post a y c Hs Hne Ha Hl. unfold page. rewrite (fetch_fwd _ _ _ Hs). rewrite Ha.
  rewrite (firstn_S_split' _ _ _ _ Hl).
  unfold build_cursor, with_bottom, with_pid, with_reverse, eff_size, fq; simpl q_reverse; simpl q_bottom; simpl q_size; simpl q_pid; simpl q_asc; cbv iota.
  rewrite size_eqb. rewrite ltb_long by assumption.
  rewrite removelast_snoc, nth_last_app.
  rewrite (prev_test _ _ _ Hs Hne). reflexivity.
Qed.

(* page behind a previous cursor *)
Lemma page_rev_short : forall pre x post, sorted_ks = pre ++ x :: post -> (length pre <= size)%nat ->
  page ks (rq x) =
  Some {| p_data := pre; p_has_more := true; p_prev := None; p_next := Some (fq x) |}.
Proof.
  intros pre x post Hs Hl. unfold page. rewrite (fetch_rev _ _ _ Hs).
  rewrite firstn_short by (rewrite rev_length; lia).
  unfold build_cursor, with_bottom, with_pid, with_reverse, eff_size, rq; simpl q_reverse; simpl q_bottom; simpl q_size; simpl q_pid; simpl q_asc; cbv iota.
  rewrite size_eqb. rewrite ltb_short by (rewrite rev_length; assumption).
  rewrite rev_involutive. reflexivity.
Qed.

Lemma page_rev_long : forall pre x post c z a, sorted_ks = pre ++ x :: post ->
  pre = c ++ z :: a -> length (z :: a) = size ->  c <> [] ->
  page ks (rq x) =
  Some {| p_data := z :: a; p_has_more := true; p_prev := Some (rq z); p_next := Some (fq x) |}.
Proof.
  intros pre x post c z a Hs Hp Hl Hc. unfold page. rewrite (fetch_rev _ _ _ Hs).
  destruct (exists_last Hc) as (c' & w & Hc'). subst c.
  assert (Hrev : rev pre = rev (z :: a) ++ w :: rev c').
  { rewrite Hp. rewrite rev_app_distr. rewrite (rev_app_distr c' [w]). simpl. rewrite <- app_assoc. reflexivity. }
  rewrite Hrev. assert (Hl' : length (rev (z :: a)) = size) by (rewrite rev_length; assumption).
  rewrite (firstn_S_split' _ _ _ _ Hl').
  unfold build_cursor, with_bottom, with_pid, with_reverse, eff_size, rq; simpl q_reverse; simpl q_bottom; simpl q_size; simpl q_pid; simpl q_asc; cbv iota.
  rewrite size_eqb. rewrite ltb_long by assumption.
  rewrite removelast_snoc. rewrite rev_involutive.
  replace (nth (length (rev (z :: a) ++ [w]) - 2) (rev (z :: a) ++ [w]) 0) with z; [reflexivity|].
  rewrite app_length, rev_length. simpl length. simpl rev.
  replace (S (length a) + 1 - 2)%nat with (length (rev a)) by (rewrite rev_length; lia).
  rewrite <- app_assoc. rewrite app_nth2 by lia. rewrite Nat.sub_diag. reflexivity.
Qed.


(* ---------------------------------------------------------------- walks *)
(* the page behind p's previous cursor has data d (and always reports more, with a next cursor) *)
Definition prev_ok (d : list Z) (p : cpage) : Prop :=
  exists qp pp, p_prev p = Some qp /\ page ks qp = Some pp /\ p_data pp = d /\
                p_has_more pp = true /\ p_next pp <> None.

Fixpoint chain (d : list Z) (ps : list cpage) : Prop :=
  match ps with
  | [] => True
  | p :: r => prev_ok d p /\ chain (p_data p) r
  end.

Fixpoint more_ok (ps : list cpage) : Prop :=
  match ps with
  | [] => True
  | p :: r => (p_has_more p = true <-> r <> []) /\ more_ok r
  end.

Lemma walk_next_S : forall f q, walk_next (S f) ks q =
  match page ks q with
  | None => None
  | Some p => match p_next p with
              | None => Some [p]
              | Some q' => match walk_next f ks q' with Some ps => Some (p :: ps) | None => None end
              end
  end.
Proof. reflexivity. Qed.

Lemma prev_page : forall pre x post c0 a0, sorted_ks = pre ++ x :: post -> pre = c0 ++ a0 -> length a0 = size ->
  exists pp, page ks (rq x) = Some pp /\ p_data pp = a0 /\ p_has_more pp = true /\ p_next pp = Some (fq x) /\
             (p_prev pp = None <-> c0 = []).
Proof.
  intros pre x post c0 a0 Hs Hp Hl.
  destruct c0 as [|c1 c0'].
  - simpl in Hp. subst pre. eexists. split; [apply (page_rev_short _ _ _ Hs); lia|]. simpl. tauto.
  - destruct a0 as [|z a]; [simpl in Hl; lia|].
    eexists. split; [apply (page_rev_long _ _ _ (c1 :: c0') z a Hs Hp Hl); discriminate|]. simpl.
    repeat split; try reflexivity; intros; discriminate.
Qed.

Lemma walk_fwd : forall fuel pre x post c0 a0,
  sorted_ks = pre ++ x :: post -> pre = c0 ++ a0 -> length a0 = size ->
  (length (x :: post) <= fuel)%nat ->
  exists ps, walk_next fuel ks (fq x) = Some ps /\ concat (map p_data ps) = x :: post /\
             chain a0 ps /\ more_ok ps /\ ps <> [] /\
             Forall (fun p => p_data p <> [] /\ (length (p_data p) <= size)%nat) ps.
Proof.
  induction fuel as [|f IH]; intros pre x post c0 a0 Hs Hp Hl Hf; [simpl in Hf; lia|].
  assert (Hne : pre <> []).
  { subst pre. destruct a0; [simpl in Hl; lia|]. destruct c0; discriminate. }
  destruct (prev_page _ _ _ _ _ Hs Hp Hl) as (pp & Hpp & Hd & Hm & Hn & _).
  destruct (le_lt_dec (length (x :: post)) size) as [Hle|Hgt].
  - exists [{| p_data := x :: post; p_has_more := false; p_prev := Some (rq x); p_next := None |}].
    rewrite walk_next_S. rewrite (page_fwd_short _ _ _ Hs Hne Hle). simpl.
    split; [reflexivity|]. split; [rewrite app_nil_r; reflexivity|].
    split; [split; [|exact I]; exists (rq x), pp; repeat split; try assumption; rewrite Hn; discriminate|].
    split; [split; [split; [discriminate|intros H; congruence]|exact I]|].
    split; [discriminate|]. constructor; [|constructor]. simpl. split; [discriminate|simpl in Hle; lia].
  - destruct (split_at (x :: post) size Hgt) as (a & y & c & Ha & Hla).
    assert (Hs' : sorted_ks = (pre ++ a) ++ y :: c) by (rewrite Hs, Ha, app_assoc; reflexivity).
    assert (Hf' : (length (y :: c) <= f)%nat).
    { assert (E : length (x :: post) = length (a ++ y :: c)) by (rewrite Ha; reflexivity).
      rewrite app_length in E. simpl in *. lia. }
    destruct (IH (pre ++ a) y c pre a Hs' eq_refl Hla Hf') as (ps & Hw & Hc & Hch & Hmo & Hnn & Hfa).
    exists ({| p_data := a; p_has_more := true; p_prev := Some (rq x); p_next := Some (fq y) |} :: ps).
    rewrite walk_next_S. rewrite (page_fwd_long _ _ _ _ _ _ Hs Hne Ha Hla). simpl. rewrite Hw.
    split; [reflexivity|]. split; [rewrite Hc; symmetry; assumption|].
    split; [split; [|assumption]; exists (rq x), pp; repeat split; try assumption; rewrite Hn; discriminate|].
    split; [split; [split; [intros _; assumption|reflexivity]|assumption]|].
    split; [discriminate|]. constructor; [|assumption]. simpl. split; [|lia].
    destruct a; [simpl in Hla; lia|discriminate].
Qed.

Lemma walk_init : forall fuel, (length ks < fuel)%nat ->
  exists p0 r, walk_next fuel ks (init_query size asc) = Some (p0 :: r) /\
               concat (map p_data (p0 :: r)) = sorted_ks /\
               p_prev p0 = None /\ chain (p_data p0) r /\ more_ok (p0 :: r) /\
               (length (p_data p0) <= size)%nat /\
               Forall (fun p => p_data p <> [] /\ (length (p_data p) <= size)%nat) r.
Proof.
  intros fuel Hf. destruct fuel as [|f]; [lia|].
  pose proof (sort_length asc ks) as Hlen. fold sorted_ks in Hlen.
  destruct (le_lt_dec (length sorted_ks) size) as [Hle|Hgt].
  - exists {| p_data := sorted_ks; p_has_more := false; p_prev := None; p_next := None |}, [].
    rewrite walk_next_S. rewrite (page_init_short Hle). simpl.
    split; [reflexivity|]. split; [apply app_nil_r|]. split; [reflexivity|]. split; [exact I|].
    split; [split; [split; [discriminate|intros H; congruence]|exact I]|]. split; [assumption|constructor].
  - destruct (split_at sorted_ks size Hgt) as (a & y & c & Ha & Hla).
    assert (Hf' : (length (y :: c) <= f)%nat).
    { assert (E : length sorted_ks = length (a ++ y :: c)) by (rewrite Ha; reflexivity).
      rewrite app_length in E. simpl in *. lia. }
    destruct (walk_fwd f a y c [] a Ha eq_refl Hla Hf') as (ps & Hw & Hc & Hch & Hmo & Hnn & Hfa).
    exists {| p_data := a; p_has_more := true; p_prev := None; p_next := Some (fq y) |}, ps.
    rewrite walk_next_S. rewrite (page_init_long _ _ _ Ha Hla). simpl. rewrite Hw.
    split; [reflexivity|]. split; [rewrite Hc; symmetry; assumption|]. split; [reflexivity|].
    split; [assumption|]. split; [split; [split; [intros _; assumption|reflexivity]|assumption]|].
    split; [lia|assumption].
Qed.

(* ---------------------------------------------------------------- walking previous back to the first page *)
Lemma walk_prev_S : forall f p, walk_prev (S f) ks p =
  match p_prev p with
  | None => Some []
  | Some q => match page ks q with
              | None => None
              | Some p' => match walk_prev f ks p' with Some ps => Some (p' :: ps) | None => None end
              end
  end.
Proof. reflexivity. Qed.

Lemma prev_page' : forall pre x post c0 a0, sorted_ks = pre ++ x :: post -> pre = c0 ++ a0 -> length a0 = size ->
  exists pp, page ks (rq x) = Some pp /\ p_data pp = a0 /\
             p_prev pp = match c0 with [] => None | _ => Some (rq (hd 0 a0)) end.
Proof.
  intros pre x post c0 a0 Hs Hp Hl.
  destruct c0 as [|c1 c0'].
  - simpl in Hp. subst pre. eexists. split; [apply (page_rev_short _ _ _ Hs); lia|]. simpl. tauto.
  - destruct a0 as [|z a]; [simpl in Hl; lia|].
    eexists. split; [apply (page_rev_long _ _ _ (c1 :: c0') z a Hs Hp Hl); discriminate|]. simpl. tauto.
Qed.

Lemma concat_full_nil : forall (fulls : list (list Z)), Forall (fun a => length a = size) fulls ->
  (concat fulls = [] <-> fulls = []).
Proof.
  intros fulls H. destruct fulls as [|f1 fs]; [tauto|]. split; [|discriminate].
  inversion H as [|? ? Hf _]. destruct f1; [simpl in Hf; lia|]. discriminate.
Qed.

(* fulls = the data of the pages before the page p (each full), p's previous cursor points at x *)
Lemma walk_back : forall fulls fuel pre x post p,
  sorted_ks = pre ++ x :: post -> pre = concat fulls -> Forall (fun a => length a = size) fulls ->
  p_prev p = match fulls with [] => None | _ => Some (rq x) end ->
  (length fulls < fuel)%nat ->
  exists back, walk_prev fuel ks p = Some back /\ map p_data back = rev fulls.
Proof.
  induction fulls as [|a fulls IH] using rev_ind; intros fuel pre x post p Hs Hp Hf Hprev Hfuel.
  - destruct fuel as [|f]; [simpl in Hfuel; lia|]. rewrite walk_prev_S, Hprev. exists []. split; reflexivity.
  - destruct fuel as [|f]; [lia|]. rewrite app_length in Hfuel. simpl in Hfuel.
    assert (Hprev' : p_prev p = Some (rq x)).
    { rewrite Hprev. destruct (fulls ++ [a]) eqn:E; [|reflexivity]. exfalso. apply (app_cons_not_nil _ _ _ (eq_sym E)). }
    rewrite concat_app in Hp. simpl in Hp. rewrite app_nil_r in Hp.
    apply Forall_app in Hf. destruct Hf as [Hf Ha]. inversion Ha as [|? ? Hla _].
    destruct (prev_page' _ _ _ _ _ Hs Hp Hla) as (pp & Hpp & Hd & Hpv).
    rewrite walk_prev_S, Hprev', Hpp.
    destruct a as [|z a']; [simpl in Hla; lia|].
    assert (Hs' : sorted_ks = concat fulls ++ z :: (a' ++ x :: post)).
    { rewrite Hs, Hp. rewrite <- app_assoc. reflexivity. }
    assert (Hpv' : p_prev pp = match fulls with [] => None | _ => Some (rq z) end).
    { rewrite Hpv. simpl hd. destruct fulls as [|f1 fs]; [reflexivity|].
      destruct (concat (f1 :: fs)) eqn:E; [|reflexivity].
      apply (concat_full_nil _ Hf) in E. discriminate. }
    destruct (IH f (concat fulls) z (a' ++ x :: post) pp Hs' eq_refl Hf Hpv' ltac:(lia)) as (back & Hb & Hm).
    rewrite Hb. exists (pp :: back). split; [reflexivity|]. simpl. rewrite Hd, Hm. rewrite rev_app_distr. reflexivity.
Qed.

Fixpoint back_ok (fulls : list (list Z)) (ps : list cpage) : Prop :=
  match ps with
  | [] => True
  | p :: r => (forall fuel, (length fulls < fuel)%nat ->
                 exists back, walk_prev fuel ks p = Some back /\ map p_data back = rev fulls) /\
              back_ok (fulls ++ [p_data p]) r
  end.

Lemma walk_fwd_back : forall fuel fulls pre x post ps,
  sorted_ks = pre ++ x :: post -> pre = concat fulls -> Forall (fun a => length a = size) fulls -> fulls <> [] ->
  walk_next fuel ks (fq x) = Some ps -> back_ok fulls ps.
Proof.
  induction fuel as [|f IH]; intros fulls pre x post ps Hs Hp Hf Hne Hw; [discriminate|].
  assert (Hpne : pre <> []).
  { intros E. rewrite Hp in E. apply (concat_full_nil _ Hf) in E. contradiction. }
  rewrite walk_next_S in Hw.
  destruct (le_lt_dec (length (x :: post)) size) as [Hle|Hgt].
  - rewrite (page_fwd_short _ _ _ Hs Hpne Hle) in Hw. simpl in Hw. injection Hw as <-. simpl. split; [|exact I].
    intros fuel Hfuel. apply (walk_back fulls fuel pre x post); try assumption.
    simpl. destruct fulls; [contradiction|reflexivity].
  - destruct (split_at (x :: post) size Hgt) as (a & y & c & Ha & Hla).
    rewrite (page_fwd_long _ _ _ _ _ _ Hs Hpne Ha Hla) in Hw. simpl in Hw.
    destruct (walk_next f ks (fq y)) as [ps'|] eqn:Hw'; [|discriminate]. injection Hw as <-. simpl. split.
    + intros fuel Hfuel. apply (walk_back fulls fuel pre x post); try assumption.
      simpl. destruct fulls; [contradiction|reflexivity].
    + apply (IH (fulls ++ [a]) (pre ++ a) y c ps').
      * rewrite Hs, Ha, app_assoc. reflexivity.
      * rewrite concat_app. simpl. rewrite app_nil_r. rewrite Hp. reflexivity.
      * apply Forall_app. split; [assumption|]. constructor; [assumption|constructor].
      * intros E. apply app_eq_nil in E. destruct E; discriminate.
      * assumption.
Qed.

Lemma walk_init_back : forall fuel ps, walk_next fuel ks (init_query size asc) = Some ps -> back_ok [] ps.
Proof.
  intros fuel ps Hw. destruct fuel as [|f]; [discriminate|]. rewrite walk_next_S in Hw.
  destruct (le_lt_dec (length sorted_ks) size) as [Hle|Hgt].
  - rewrite (page_init_short Hle) in Hw. simpl in Hw. injection Hw as <-. simpl. split; [|exact I].
    intros fuel Hfuel. destruct fuel; [lia|]. rewrite walk_prev_S. simpl. exists []. split; reflexivity.
  - destruct (split_at sorted_ks size Hgt) as (a & y & c & Ha & Hla).
    rewrite (page_init_long _ _ _ Ha Hla) in Hw. simpl in Hw.
    destruct (walk_next f ks (fq y)) as [ps'|] eqn:Hw'; [|discriminate]. injection Hw as <-. simpl. split.
    + intros fuel Hfuel. destruct fuel; [lia|]. rewrite walk_prev_S. simpl. exists []. split; reflexivity.
    + apply (walk_fwd_back f [a] a y c ps'); try assumption.
      * simpl. rewrite app_nil_r. reflexivity.
      * constructor; [assumption|constructor].
      * discriminate.
Qed.

Lemma back_ok_nth : forall ps fulls k pk, back_ok fulls ps -> nth_error ps k = Some pk ->
  forall fuel, (length fulls + k < fuel)%nat ->
  exists back, walk_prev fuel ks pk = Some back /\ map p_data back = rev (fulls ++ map p_data (firstn k ps)).
Proof.
  induction ps as [|p r IH]; intros fulls k pk Hb Hk fuel Hfuel; [destruct k; discriminate|].
  destruct Hb as [Hb0 Hb]. destruct k as [|k'].
  - simpl in Hk. injection Hk as <-. simpl. rewrite app_nil_r. apply Hb0. lia.
  - simpl in Hk. destruct (IH _ _ _ Hb Hk fuel) as (back & Hw & Hm).
    + rewrite app_length. simpl. lia.
    + exists back. split; [assumption|]. rewrite Hm. simpl. rewrite <- app_assoc. reflexivity.
Qed.

End Column.

(* ================================================================ offset paginator *)
Section Offset.
Variable ks : list Z.
Variable size : nat.
Variable asc : bool.
Hypothesis Hsize : (1 <= size)%nat.

Definition osorted : list Z := sort_keys asc ks.
Definition oq (o : nat) : oquery := {| o_size := size; o_asc := asc; o_offset := Z.of_nat o |}.

Lemma osorted_length : length osorted = length ks.
Proof. apply sort_length. Qed.

Lemma skipz_skipn : forall n (l : list Z), skipz (Z.of_nat n) l = skipn n l.
Proof.
  induction n as [|n IH]; intros l.
  - destruct l; reflexivity.
  - destruct l as [|x r]; [reflexivity|]. simpl skipn. unfold skipz; fold skipz.
    replace (0 <? Z.of_nat (S n)) with true by (symmetry; apply Z.ltb_lt; lia).
    replace (Z.of_nat (S n) - 1) with (Z.of_nat n) by lia. apply IH.
Qed.

Lemma ofetch_at : forall o, Z.of_nat o <= max_int32 ->
  ofetch ks (oq o) = Some (firstn (S size) (skipn o osorted)).
Proof.
  intros o Ho. unfold ofetch, oq; simpl.
  assert (Hm : Z.of_nat o >? max_int32 = false).
  { rewrite Z.gtb_ltb. apply Z.ltb_ge. assumption. }
  rewrite Hm. fold osorted.
  assert (Hs : Nat.ltb 0 size = true) by (apply Nat.ltb_lt; lia). rewrite Hs.
  destruct o as [|o'].
  - reflexivity.
  - replace (0 <? Z.of_nat (S o')) with true by (symmetry; apply Z.ltb_lt; lia).
    rewrite skipz_skipn. reflexivity.
Qed.

Lemma oprev_eq : forall o,
  (if 0 <? Z.of_nat o
   then Some (with_offset (oq o) (if Z.of_nat o - Z.of_nat size <? 0 then 0 else Z.of_nat o - Z.of_nat size))
   else None) = if Nat.eqb o 0 then None else Some (oq (o - size)).
Proof.
  intros o. destruct o as [|o']; [reflexivity|].
  replace (0 <? Z.of_nat (S o')) with true by (symmetry; apply Z.ltb_lt; lia).
  simpl Nat.eqb. unfold with_offset, oq; simpl o_size; simpl o_asc. f_equal. f_equal.
  destruct (Z.ltb_spec (Z.of_nat (S o') - Z.of_nat size) 0); lia.
Qed.

Lemma opage_short : forall o, Z.of_nat o <= max_int32 -> (length (skipn o osorted) <= size)%nat ->
  opage_of ks (oq o) =
  Some {| op_data := skipn o osorted; op_has_more := false;
          op_prev := if Nat.eqb o 0 then None else Some (oq (o - size)); op_next := None |}.
Proof.
  intros o Ho Hl. unfold opage_of. rewrite (ofetch_at _ Ho). rewrite firstn_short by lia.
  unfold obuild. change (o_offset (oq o)) with (Z.of_nat o). change (o_size (oq o)) with size. rewrite oprev_eq.
  replace (Nat.ltb size (length (skipn o osorted))) with false by (symmetry; apply Nat.ltb_ge; assumption).
  rewrite andb_false_r. reflexivity.
Qed.

Lemma opage_long : forall o a y c, Z.of_nat o <= max_int32 -> skipn o osorted = a ++ y :: c -> length a = size ->
  opage_of ks (oq o) =
  Some {| op_data := a; op_has_more := true;
          op_prev := if Nat.eqb o 0 then None else Some (oq (o - size)); op_next := Some (oq (o + size)) |}.
Proof.
  intros o a y c Ho Ha Hl. unfold opage_of. rewrite (ofetch_at _ Ho). rewrite Ha. rewrite (firstn_S_split' _ _ _ _ Hl).
  unfold obuild. change (o_offset (oq o)) with (Z.of_nat o). change (o_size (oq o)) with size. rewrite oprev_eq.
  replace (Nat.ltb size (length (a ++ [y]))) with true by (symmetry; apply Nat.ltb_lt; rewrite app_length; simpl; lia).
  replace (Nat.eqb size 0) with false by (symmetry; apply Nat.eqb_neq; lia). simpl andb. cbv iota.
  rewrite removelast_snoc. unfold with_offset, oq; simpl. rewrite Nat2Z.inj_add. reflexivity.
Qed.

Definition oprev_ok (d : list Z) (p : opage) : Prop :=
  exists qp pp, op_prev p = Some qp /\ opage_of ks qp = Some pp /\ op_data pp = d /\ op_has_more pp = true.

Fixpoint ochain (d : list Z) (ps : list opage) : Prop :=
  match ps with
  | [] => True
  | p :: r => oprev_ok d p /\ ochain (op_data p) r
  end.

Fixpoint omore_ok (ps : list opage) : Prop :=
  match ps with
  | [] => True
  | p :: r => (op_has_more p = true <-> r <> []) /\ omore_ok r
  end.

Lemma owalk_next_S : forall f q, owalk_next (S f) ks q =
  match opage_of ks q with
  | None => None
  | Some p => match op_next p with
              | None => Some [p]
              | Some q' => match owalk_next f ks q' with Some ps => Some (p :: ps) | None => None end
              end
  end.
Proof. reflexivity. Qed.

(* the page at offset o - size, for an offset o reached by next *)
Lemma oprev_page : forall o, Z.of_nat o <= max_int32 -> (size <= o)%nat -> (o < length osorted)%nat ->
  exists pp, opage_of ks (oq (o - size)) = Some pp /\ op_data pp = firstn size (skipn (o - size) osorted) /\
             op_has_more pp = true.
Proof.
  intros o Hb H1 H2.
  assert (Hlen : (size < length (skipn (o - size) osorted))%nat) by (rewrite skipn_length; lia).
  destruct (split_at _ _ Hlen) as (a & y & c & Ha & Hla).
  eexists. split; [apply (opage_long (o - size) a y c); [lia|assumption|assumption]|]. simpl.
  split; [|reflexivity]. rewrite Ha. rewrite <- Hla. rewrite firstn_app, Nat.sub_diag, firstn_all. simpl. rewrite app_nil_r. reflexivity.
Qed.

Lemma skipn_skipn' : forall (l : list Z) n m, skipn n (skipn m l) = skipn (m + n) l.
Proof.
  intros l n m; revert l; induction m as [|m IH]; intros l; simpl; [reflexivity|].
  destruct l; [destruct n; reflexivity|apply IH].
Qed.

Lemma skipn_add : forall (l : list Z) a y c o n, skipn o l = a ++ y :: c -> length a = n -> skipn (o + n) l = y :: c.
Proof.
  intros l a y c o n H Hl. rewrite <- skipn_skipn'. rewrite H. rewrite <- Hl.
  rewrite skipn_app, Nat.sub_diag, skipn_all. reflexivity.
Qed.

Lemma owalk_fwd : forall fuel o, Z.of_nat (length ks) <= 2147483648 -> (size <= o)%nat -> (o < length osorted)%nat ->
  (length (skipn o osorted) <= fuel)%nat ->
  exists ps, owalk_next fuel ks (oq o) = Some ps /\ concat (map op_data ps) = skipn o osorted /\
             ochain (firstn size (skipn (o - size) osorted)) ps /\ omore_ok ps /\ ps <> [] /\
             Forall (fun p => op_data p <> [] /\ (length (op_data p) <= size)%nat) ps.
Proof.
  induction fuel as [|f IH]; intros o Hlim H1 H2 Hf; [rewrite skipn_length in Hf; lia|].
  assert (Hb : Z.of_nat o <= max_int32) by (unfold max_int32; rewrite osorted_length in H2; lia).
  destruct (oprev_page o Hb H1 H2) as (pp & Hpp & Hd & Hm).
  assert (Ho0 : Nat.eqb o 0 = false) by (apply Nat.eqb_neq; lia).
  assert (Hnonempty : skipn o osorted <> []).
  { intros E. assert (L : length (skipn o osorted) = 0%nat) by (rewrite E; reflexivity). rewrite skipn_length in L. lia. }
  destruct (le_lt_dec (length (skipn o osorted)) size) as [Hle|Hgt].
  - eexists. rewrite owalk_next_S. rewrite (opage_short o Hb Hle). simpl. rewrite Ho0.
    split; [reflexivity|]. simpl. split; [apply app_nil_r|].
    split; [split; [|exact I]; exists (oq (o - size)), pp; simpl; repeat split; assumption|].
    split; [split; [split; [discriminate|intros H; congruence]|exact I]|].
    split; [discriminate|]. constructor; [|constructor]. simpl. split; assumption.
  - destruct (split_at _ _ Hgt) as (a & y & c & Ha & Hla).
    pose proof (skipn_add _ _ _ _ _ _ Ha Hla) as Hnext.
    assert (H2' : (o + size < length osorted)%nat).
    { assert (L : length (skipn o osorted) = length (a ++ y :: c)) by (rewrite Ha; reflexivity).
      rewrite skipn_length, app_length in L. simpl in L. lia. }
    assert (Hf' : (length (skipn (o + size) osorted) <= f)%nat).
    { rewrite skipn_length in *. lia. }
    destruct (IH (o + size)%nat Hlim ltac:(lia) H2' Hf') as (ps & Hw & Hc & Hch & Hmo & Hnn & Hfa).
    replace (o + size - size)%nat with o in Hch by lia.
    assert (Hfa' : firstn size (skipn o osorted) = a).
    { rewrite Ha. rewrite <- Hla. rewrite firstn_app, Nat.sub_diag, firstn_all. simpl. apply app_nil_r. }
    rewrite Hfa' in Hch.
    eexists. rewrite owalk_next_S. rewrite (opage_long o a y c Hb Ha Hla). simpl. rewrite Ho0. rewrite Hw.
    split; [reflexivity|]. simpl. split; [rewrite Hc, Hnext; symmetry; assumption|].
    split; [split; [|assumption]; exists (oq (o - size)), pp; simpl; repeat split; assumption|].
    split; [split; [split; [intros _; assumption|reflexivity]|assumption]|].
    split; [discriminate|]. constructor; [|assumption]. simpl. split; [|lia].
    destruct a; [simpl in Hla; lia|discriminate].
Qed.

Lemma owalk_init : forall fuel, Z.of_nat (length ks) <= 2147483648 -> (length ks < fuel)%nat ->
  exists p0 r, owalk_next fuel ks (oinit size asc) = Some (p0 :: r) /\
               concat (map op_data (p0 :: r)) = osorted /\
               op_prev p0 = None /\ ochain (op_data p0) r /\ omore_ok (p0 :: r) /\
               (length (op_data p0) <= size)%nat /\
               Forall (fun p => op_data p <> [] /\ (length (op_data p) <= size)%nat) r.
Proof.
  intros fuel Hlim Hf. destruct fuel as [|f]; [lia|].
  pose proof osorted_length as Hlen.
  change (oinit size asc) with (oq 0).
  assert (Hb0 : Z.of_nat 0 <= max_int32) by (unfold max_int32; simpl; lia).
  destruct (le_lt_dec (length osorted) size) as [Hle|Hgt].
  - eexists; exists []. rewrite owalk_next_S. rewrite (opage_short 0 Hb0 Hle). simpl.
    split; [reflexivity|]. simpl. split; [apply app_nil_r|]. split; [reflexivity|]. split; [exact I|].
    split; [split; [split; [discriminate|intros H; congruence]|exact I]|]. split; [assumption|constructor].
  - destruct (split_at _ _ Hgt) as (a & y & c & Ha & Hla).
    assert (Ha0 : skipn 0 osorted = a ++ y :: c) by exact Ha.
    pose proof (skipn_add _ _ _ _ _ _ Ha0 Hla) as Hnext. simpl plus in Hnext.
    assert (H2' : (size < length osorted)%nat) by assumption.
    assert (Hf' : (length (skipn size osorted) <= f)%nat) by (rewrite skipn_length; lia).
    destruct (owalk_fwd f size Hlim ltac:(lia) H2' Hf') as (ps & Hw & Hc & Hch & Hmo & Hnn & Hfa).
    rewrite Nat.sub_diag in Hch. simpl skipn in Hch.
    assert (Hfa' : firstn size osorted = a).
    { rewrite Ha. rewrite <- Hla. rewrite firstn_app, Nat.sub_diag, firstn_all. simpl. apply app_nil_r. }
    rewrite Hfa' in Hch.
    eexists; exists ps. rewrite owalk_next_S. rewrite (opage_long 0 a y c Hb0 Ha0 Hla). simpl. rewrite Hw.
    split; [reflexivity|]. simpl. split; [rewrite Hc, Hnext; symmetry; assumption|]. split; [reflexivity|].
    split; [assumption|]. split; [split; [split; [intros _; assumption|reflexivity]|assumption]|].
    split; [lia|assumption].
Qed.

(* beyond MaxInt32 rows the walk cannot complete: some next cursor carries an offset Paginate refuses *)
Lemma owalk_beyond_limit : forall fuel o, Z.of_nat (length ks) > max_int32 + Z.of_nat size ->
  owalk_next fuel ks (oq o) = None.
Proof.
  induction fuel as [|f IH]; intros o Hbig; [reflexivity|].
  rewrite owalk_next_S.
  destruct (Z_le_gt_dec (Z.of_nat o) max_int32) as [Hb|Hb].
  - assert (Hgt : (size < length (skipn o osorted))%nat).
    { rewrite skipn_length, osorted_length. unfold max_int32 in *. lia. }
    destruct (split_at _ _ Hgt) as (a & y & c & Ha & Hla).
    rewrite (opage_long o a y c Hb Ha Hla). simpl. rewrite IH by assumption. reflexivity.
  - unfold opage_of, ofetch. simpl o_offset.
    replace (Z.of_nat o >? max_int32) with true; [reflexivity|]. symmetry. rewrite Z.gtb_ltb. apply Z.ltb_lt. lia.
Qed.

End Offset.

(* Paginate refuses offsets above MaxInt32: listings by a non-numeric column stop there *)
Lemma ofetch_limit : forall ks q, o_offset q > max_int32 -> opage_of ks q = None.
Proof.
  intros ks q H. unfold opage_of, ofetch. replace (o_offset q >? max_int32) with true; [reflexivity|].
  symmetry. rewrite Z.gtb_ltb. apply Z.ltb_lt. lia.
Qed.

(* ---------------------------------------------------------------- consequences in index form *)
Lemma chain_nth : forall ks d ps k pk pk1, chain ks d ps ->
  nth_error ps k = Some pk -> nth_error ps (S k) = Some pk1 -> prev_ok ks (p_data pk) pk1.
Proof.
  intros ks d ps; revert d; induction ps as [|p r IH]; intros d k pk pk1 Hc Hk Hk1; [destruct k; discriminate|].
  destruct Hc as [_ Hc]. destruct k as [|k'].
  - simpl in Hk. injection Hk as <-. simpl in Hk1. destruct r as [|p1 r']; [discriminate|]. simpl in Hk1. injection Hk1 as <-.
    destruct Hc as [H _]. exact H.
  - simpl in Hk, Hk1. eapply IH; eassumption.
Qed.

Lemma ochain_nth : forall ks d ps k pk pk1, ochain ks d ps ->
  nth_error ps k = Some pk -> nth_error ps (S k) = Some pk1 -> oprev_ok ks (op_data pk) pk1.
Proof.
  intros ks d ps; revert d; induction ps as [|p r IH]; intros d k pk pk1 Hc Hk Hk1; [destruct k; discriminate|].
  destruct Hc as [_ Hc]. destruct k as [|k'].
  - simpl in Hk. injection Hk as <-. simpl in Hk1. destruct r as [|p1 r']; [discriminate|]. simpl in Hk1. injection Hk1 as <-.
    destruct Hc as [H _]. exact H.
  - simpl in Hk, Hk1. eapply IH; eassumption.
Qed.

Lemma concat_nonempty : forall (A : Type) (f : A -> list Z) (r : list A),
  Forall (fun p => f p <> []) r -> (concat (map f r) <> [] <-> r <> []).
Proof.
  intros A f r H. destruct r as [|p r']; simpl; [tauto|].
  inversion H as [|? ? Hp _]; subst. split; [discriminate|]. intros _ E. apply app_eq_nil in E. tauto.
Qed.

Lemma more_ok_nth : forall ps k p, more_ok ps -> Forall (fun p => p_data p <> []) (tl ps) -> nth_error ps k = Some p ->
  (p_has_more p = true <-> concat (map p_data (skipn (S k) ps)) <> []).
Proof.
  induction ps as [|p0 r IH]; intros k p Hm Hf Hk; [destruct k; discriminate|].
  destruct Hm as [Hm0 Hm]. simpl in Hf. destruct k as [|k'].
  - simpl in Hk. injection Hk as <-. simpl skipn. rewrite (concat_nonempty _ p_data r Hf). exact Hm0.
  - simpl in Hk. simpl skipn. apply IH; try assumption. destruct r; simpl; [constructor|]. inversion Hf; assumption.
Qed.

Lemma omore_ok_nth : forall ps k p, omore_ok ps -> Forall (fun p => op_data p <> []) (tl ps) -> nth_error ps k = Some p ->
  (op_has_more p = true <-> concat (map op_data (skipn (S k) ps)) <> []).
Proof.
  induction ps as [|p0 r IH]; intros k p Hm Hf Hk; [destruct k; discriminate|].
  destruct Hm as [Hm0 Hm]. simpl in Hf. destruct k as [|k'].
  - simpl in Hk. injection Hk as <-. simpl skipn. rewrite (concat_nonempty _ op_data r Hf). exact Hm0.
  - simpl in Hk. simpl skipn. apply IH; try assumption. destruct r; simpl; [constructor|]. inversion Hf; assumption.
Qed.
