(* Proofs about Ledger/Page.v (column and offset paginators). *)
From Coq Require Import List ZArith Bool Lia Sorting.Sorted.
From LV Require Import Ledger.Page.
Import ListNotations.
Open Scope Z_scope.

(* ---------------------------------------------------------------- the order *)
Ltac dsolve :=
  unfold dle, dlt in *;
  repeat match goal with
  | a : bool |- _ => destruct a
  end;
  repeat match goal with
  | H : (_ <=? _) = true |- _ => apply Z.leb_le in H
  | H : (_ <=? _) = false |- _ => apply Z.leb_gt in H
  | H : (_ <? _) = true |- _ => apply Z.ltb_lt in H
  | H : (_ <? _) = false |- _ => apply Z.ltb_ge in H
  end;
  try (rewrite ?Z.leb_le, ?Z.ltb_lt, ?Z.leb_gt, ?Z.ltb_ge); try lia.

Lemma dlt_irrefl : forall asc a, dlt asc a a = false.
Proof. intros [] a; unfold dlt; apply Z.ltb_irrefl. Qed.

Lemma dlt_trans : forall asc a b c, dlt asc a b = true -> dlt asc b c = true -> dlt asc a c = true.
Proof. intros asc a b c H1 H2. dsolve. Qed.

Lemma dlt_total : forall asc a b, a <> b -> dlt asc a b = true \/ dlt asc b a = true.
Proof. intros asc a b H. unfold dlt. destruct asc; rewrite !Z.ltb_lt; lia. Qed.

Lemma dlt_asym : forall asc a b, dlt asc a b = true -> dlt asc b a = false.
Proof. intros asc a b H. dsolve. Qed.

Lemma dle_dlt : forall asc a b, dle asc a b = negb (dlt asc b a).
Proof. intros [] a b; unfold dle, dlt; destruct (Z.leb_spec a b), (Z.ltb_spec b a); simpl; try reflexivity; try lia;
  destruct (Z.leb_spec b a), (Z.ltb_spec a b); simpl; try reflexivity; lia. Qed.

Lemma dle_refl : forall asc a, dle asc a a = true.
Proof. intros. rewrite dle_dlt, dlt_irrefl. reflexivity. Qed.

Lemma dlt_negb : forall asc a b, dlt (negb asc) a b = dlt asc b a.
Proof. intros [] a b; reflexivity. Qed.

Definition SS (asc : bool) (l : list Z) : Prop := StronglySorted (fun a b => dlt asc a b = true) l.

Lemma SS_nil : forall asc, SS asc []. Proof. intros; constructor. Qed.

Lemma SS_cons_inv : forall asc x l, SS asc (x :: l) -> SS asc l /\ (forall y, In y l -> dlt asc x y = true).
Proof. intros asc x l H. inversion H as [|? ? Hs Hf]; subst. split; [assumption|]. apply Forall_forall. assumption. Qed.

Lemma SS_cons : forall asc x l, SS asc l -> (forall y, In y l -> dlt asc x y = true) -> SS asc (x :: l).
Proof. intros asc x l Hs Hf. constructor; [assumption|]. apply Forall_forall. assumption. Qed.

Lemma SS_NoDup : forall asc l, SS asc l -> NoDup l.
Proof.
  intros asc l; induction l as [|x l IH]; intros H; constructor.
  - apply SS_cons_inv in H. destruct H as [_ Hf]. intros Hin. apply Hf in Hin. rewrite dlt_irrefl in Hin. discriminate.
  - apply IH. apply SS_cons_inv in H. tauto.
Qed.

(* ---------------------------------------------------------------- insertion sort *)
Lemma insert_In : forall asc x l y, In y (insert asc x l) <-> y = x \/ In y l.
Proof.
  intros asc x l y; induction l as [|z l IH]; simpl.
  - intuition.
  - destruct (dle asc x z); simpl; rewrite ?IH; intuition.
Qed.

Lemma insert_SS : forall asc x l, SS asc l -> ~ In x l -> SS asc (insert asc x l).
Proof.
  intros asc x l; induction l as [|z l IH]; intros Hs Hn; simpl.
  - apply SS_cons; [apply SS_nil | intros y []].
  - destruct (SS_cons_inv _ _ _ Hs) as [Hs' Hf].
    destruct (dle asc x z) eqn:E.
    + apply SS_cons; [assumption|]. intros y [<-|Hy].
      * rewrite dle_dlt in E. apply negb_true_iff in E.
        destruct (dlt_total asc x z) as [H|H]; [intros ->; apply Hn; left; reflexivity|assumption|congruence].
      * rewrite dle_dlt in E. apply negb_true_iff in E.
        assert (Hxz : dlt asc x z = true).
        { destruct (dlt_total asc x z) as [H|H]; [intros ->; apply Hn; left; reflexivity|assumption|congruence]. }
        eapply dlt_trans; [exact Hxz | apply Hf; assumption].
    + apply SS_cons.
      * apply IH; [assumption|]. intros Hin. apply Hn. right. assumption.
      * intros y Hy. apply insert_In in Hy. destruct Hy as [->|Hy]; [|apply Hf; assumption].
        rewrite dle_dlt in E. apply negb_false_iff in E. assumption.
Qed.

Lemma sort_In : forall asc l y, In y (sort_keys asc l) <-> In y l.
Proof.
  intros asc l y; induction l as [|x l IH]; simpl; [tauto|].
  rewrite insert_In, IH. intuition.
Qed.

Lemma sort_SS : forall asc l, NoDup l -> SS asc (sort_keys asc l).
Proof.
  intros asc l H; induction H as [|x l Hn Hd IH]; simpl; [apply SS_nil|].
  apply insert_SS; [assumption|]. rewrite sort_In. assumption.
Qed.

Lemma insert_length : forall asc x l, length (insert asc x l) = S (length l).
Proof. intros asc x l; induction l as [|z l IH]; simpl; [reflexivity|]. destruct (dle asc x z); simpl; congruence. Qed.

Lemma sort_length : forall asc l, length (sort_keys asc l) = length l.
Proof. intros asc l; induction l as [|x l IH]; simpl; [reflexivity|]. rewrite insert_length. congruence. Qed.

(* two strictly sorted lists with the same elements are equal *)
Lemma SS_unique : forall asc l1 l2, SS asc l1 -> SS asc l2 -> (forall x, In x l1 <-> In x l2) -> l1 = l2.
Proof.
  intros asc l1; induction l1 as [|a l1 IH]; intros l2 H1 H2 Heq.
  - destruct l2 as [|b l2]; [reflexivity|]. exfalso. apply (proj2 (Heq b)). left; reflexivity.
  - destruct l2 as [|b l2]; [exfalso; apply (proj1 (Heq a)); left; reflexivity|].
    destruct (SS_cons_inv _ _ _ H1) as [H1' F1]. destruct (SS_cons_inv _ _ _ H2) as [H2' F2].
    assert (Hab : a = b).
    { destruct (Z.eq_dec a b) as [|Hne]; [assumption|exfalso].
      assert (Ha : In a l2). { destruct (proj1 (Heq a) (or_introl eq_refl)) as [E|E]; [congruence|assumption]. }
      assert (Hb : In b l1). { destruct (proj2 (Heq b) (or_introl eq_refl)) as [E|E]; [congruence|assumption]. }
      apply F2 in Ha. apply F1 in Hb. apply dlt_asym in Ha. congruence. }
    subst b. f_equal. apply IH; try assumption.
    intros x. split; intros Hx.
    + destruct (proj1 (Heq x) (or_intror Hx)) as [E|E]; [|assumption]. subst x. apply F1 in Hx. rewrite dlt_irrefl in Hx. discriminate.
    + destruct (proj2 (Heq x) (or_intror Hx)) as [E|E]; [|assumption]. subst x. apply F2 in Hx. rewrite dlt_irrefl in Hx. discriminate.
Qed.

Lemma SS_filter : forall asc p l, SS asc l -> SS asc (filter p l).
Proof.
  intros asc p l; induction l as [|x l IH]; intros H; simpl; [apply SS_nil|].
  destruct (SS_cons_inv _ _ _ H) as [H' F].
  destruct (p x); [|apply IH; assumption].
  apply SS_cons; [apply IH; assumption|]. intros y Hy. apply filter_In in Hy. apply F. tauto.
Qed.

Lemma sort_filter : forall asc p l, NoDup l -> sort_keys asc (filter p l) = filter p (sort_keys asc l).
Proof.
  intros asc p l Hd. apply (SS_unique asc).
  - apply sort_SS. apply NoDup_filter. assumption.
  - apply SS_filter. apply sort_SS. assumption.
  - intros x. rewrite sort_In, !filter_In, sort_In. tauto.
Qed.

Lemma SS_app : forall asc l1 l2, SS asc l1 -> SS asc l2 ->
  (forall a b, In a l1 -> In b l2 -> dlt asc a b = true) -> SS asc (l1 ++ l2).
Proof.
  intros asc l1; induction l1 as [|x l1 IH]; intros l2 H1 H2 Hc; simpl; [assumption|].
  destruct (SS_cons_inv _ _ _ H1) as [H1' F1].
  apply SS_cons.
  - apply IH; try assumption. intros a b Ha Hb. apply Hc; [right|]; assumption.
  - intros y Hy. apply in_app_or in Hy. destruct Hy as [Hy|Hy]; [apply F1; assumption|apply Hc; [left; reflexivity|assumption]].
Qed.

Lemma SS_app_inv : forall asc l1 l2, SS asc (l1 ++ l2) ->
  SS asc l1 /\ SS asc l2 /\ (forall a b, In a l1 -> In b l2 -> dlt asc a b = true).
Proof.
  intros asc l1; induction l1 as [|x l1 IH]; intros l2 H; simpl in *.
  - repeat split; [apply SS_nil|assumption|intros a b []].
  - destruct (SS_cons_inv _ _ _ H) as [H' F]. destruct (IH _ H') as (A & B & C).
    repeat split; try assumption.
    + apply SS_cons; [assumption|]. intros y Hy. apply F. apply in_or_app. left; assumption.
    + intros a b [<-|Ha] Hb; [apply F; apply in_or_app; right; assumption|apply C; assumption].
Qed.

Lemma SS_rev : forall asc l, SS asc l -> SS (negb asc) (rev l).
Proof.
  intros asc l; induction l as [|x l IH]; intros H; simpl; [apply SS_nil|].
  destruct (SS_cons_inv _ _ _ H) as [H' F].
  apply SS_app; [apply IH; assumption|apply SS_cons; [apply SS_nil|intros y []]|].
  intros a b Ha [<-|[]]. rewrite dlt_negb. apply F. apply in_rev. assumption.
Qed.

Lemma sort_negb : forall asc l, NoDup l -> sort_keys (negb asc) l = rev (sort_keys asc l).
Proof.
  intros asc l Hd. apply (SS_unique (negb asc)).
  - apply sort_SS; assumption.
  - apply SS_rev. apply sort_SS; assumption.
  - intros x. rewrite <- in_rev, !sort_In. tauto.
Qed.

Lemma filter_all : forall (p : Z -> bool) l, (forall x, In x l -> p x = true) -> filter p l = l.
Proof.
  intros p l; induction l as [|x l IH]; intros H; simpl; [reflexivity|].
  rewrite (H x (or_introl eq_refl)). f_equal. apply IH. intros y Hy. apply H. right; assumption.
Qed.

Lemma filter_none : forall (p : Z -> bool) l, (forall x, In x l -> p x = false) -> filter p l = [].
Proof.
  intros p l; induction l as [|x l IH]; intros H; simpl; [reflexivity|].
  rewrite (H x (or_introl eq_refl)). apply IH. intros y Hy. apply H. right; assumption.
Qed.

(* WHERE col >= x (in the direction of the order) keeps exactly the suffix starting at x *)
Lemma filter_ge_split : forall asc pre x post, SS asc (pre ++ x :: post) ->
  filter (fun k => dle asc x k) (pre ++ x :: post) = x :: post.
Proof.
  intros asc pre x post H. destruct (SS_app_inv _ _ _ H) as (_ & Hs2 & Hc).
  destruct (SS_cons_inv _ _ _ Hs2) as [_ F].
  rewrite filter_app. rewrite filter_none.
  - simpl. rewrite dle_refl. f_equal. apply filter_all. intros y Hy. rewrite dle_dlt. apply negb_true_iff.
    apply dlt_asym. apply F. assumption.
  - intros y Hy. rewrite dle_dlt. apply negb_false_iff. apply Hc; [assumption|left; reflexivity].
Qed.

(* WHERE col < x keeps exactly the prefix before x *)
Lemma filter_lt_split : forall asc pre x post, SS asc (pre ++ x :: post) ->
  filter (fun k => dlt asc k x) (pre ++ x :: post) = pre.
Proof.
  intros asc pre x post H. destruct (SS_app_inv _ _ _ H) as (_ & Hs2 & Hc).
  destruct (SS_cons_inv _ _ _ Hs2) as [_ F].
  rewrite filter_app. rewrite filter_all.
  - simpl. rewrite dlt_irrefl. rewrite filter_none; [apply app_nil_r|].
    intros y Hy. apply dlt_asym. apply F. assumption.
  - intros y Hy. apply Hc; [assumption|left; reflexivity].
Qed.

Lemma filter_ext_eq : forall (p q : Z -> bool) l, (forall x, p x = q x) -> filter p l = filter q l.
Proof. intros p q l H. apply filter_ext. assumption. Qed.

(* ---------------------------------------------------------------- list facts used by BuildCursor *)
Lemma firstn_short : forall (l : list Z) n, (length l <= n)%nat -> firstn n l = l.
Proof. intros. apply firstn_all2. assumption. Qed.

Lemma split_at : forall (l : list Z) n, (n < length l)%nat ->
  exists a y c, l = a ++ y :: c /\ length a = n.
Proof.
  intros l n H. exists (firstn n l).
  destruct (skipn n l) as [|y c] eqn:E.
  - exfalso. assert (length (skipn n l) = 0%nat) by (rewrite E; reflexivity). rewrite skipn_length in *. lia.
  - exists y, c. split; [rewrite <- E; symmetry; apply firstn_skipn|]. rewrite firstn_length. lia.
Qed.

Lemma firstn_S_split : forall (a : list Z) y c, firstn (S (length a)) (a ++ y :: c) = a ++ [y].
Proof.
  intros a y c. replace (S (length a)) with (length a + 1)%nat by lia.
  rewrite firstn_app_2. reflexivity.
Qed.

Lemma firstn_S_split' : forall n (a : list Z) y c, length a = n -> firstn (S n) (a ++ y :: c) = a ++ [y].
Proof. intros n a y c <-. apply firstn_S_split. Qed.

Lemma nth_last_app : forall (a : list Z) y, nth (length (a ++ [y]) - 1) (a ++ [y]) 0 = y.
Proof.
  intros a y. rewrite app_length. simpl. replace (length a + 1 - 1)%nat with (length a) by lia.
  rewrite app_nth2 by lia. rewrite Nat.sub_diag. reflexivity.
Qed.

Lemma removelast_snoc : forall (a : list Z) y, removelast (a ++ [y]) = a.
Proof. intros. apply removelast_last. Qed.

(* ================================================================ column paginator *)
Section Column.
Variable ks : list Z.
Variable size : nat.
Variable asc : bool.
Hypothesis Hnd : NoDup ks.
Hypothesis Hsize : (1 <= size)%nat.

Definition sorted_ks : list Z := sort_keys asc ks.
Definition bot : Z := hd 0 sorted_ks.

(* the forward / reverse query whose pagination id is x (Bottom = first key of the listing) *)
Definition fq (x : Z) : cquery :=
  {| q_size := size; q_asc := asc; q_pid := Some x; q_bottom := Some bot; q_reverse := false |}.
Definition rq (x : Z) : cquery :=
  {| q_size := size; q_asc := asc; q_pid := Some x; q_bottom := Some bot; q_reverse := true |}.

Lemma size_eqb : Nat.eqb size 0 = false.
Proof. apply Nat.eqb_neq. lia. Qed.

Lemma sorted_SS : SS asc sorted_ks.
Proof. apply sort_SS. assumption. Qed.

Lemma fetch_init : fetch ks (init_query size asc) = firstn (S size) sorted_ks.
Proof.
  unfold fetch, eff_size, eff_asc, init_query; simpl. rewrite size_eqb.
  rewrite filter_all; [reflexivity|]. intros; reflexivity.
Qed.

Lemma fetch_fwd : forall pre x post, sorted_ks = pre ++ x :: post ->
  fetch ks (fq x) = firstn (S size) (x :: post).
Proof.
  intros pre x post Hs. unfold fetch, eff_size, eff_asc, fq; simpl. rewrite size_eqb.
  rewrite (filter_ext_eq _ (fun k => dle asc x k)).
  2:{ intros k. unfold keep, dle; simpl. destruct asc; [apply Z.geb_leb|reflexivity]. }
  rewrite sort_filter by assumption. fold sorted_ks. rewrite Hs.
  rewrite filter_ge_split; [reflexivity|]. rewrite <- Hs. apply sorted_SS.
Qed.

Lemma fetch_rev : forall pre x post, sorted_ks = pre ++ x :: post ->
  fetch ks (rq x) = firstn (S size) (rev pre).
Proof.
  intros pre x post Hs. unfold fetch, eff_size, eff_asc, rq; simpl. rewrite size_eqb.
  rewrite (filter_ext_eq _ (fun k => dlt asc k x)).
  2:{ intros k. unfold keep, dlt; simpl. destruct asc; [reflexivity|apply Z.gtb_ltb]. }
  rewrite sort_negb by (apply NoDup_filter; assumption).
  rewrite sort_filter by assumption. fold sorted_ks. rewrite Hs.
  rewrite filter_lt_split; [reflexivity|]. rewrite <- Hs. apply sorted_SS.
Qed.

Lemma ltb_short : forall (l : list Z), (length l <= size)%nat -> Nat.ltb size (length l) = false.
Proof. intros. apply Nat.ltb_ge. assumption. Qed.

Lemma ltb_long : forall (a : list Z) y, length a = size -> Nat.ltb size (length (a ++ [y])) = true.
Proof. intros a y H. apply Nat.ltb_lt. rewrite app_length; simpl. lia. Qed.

(* first page *)
Lemma page_init_short : (length sorted_ks <= size)%nat ->
  page ks (init_query size asc) =
  Some {| p_data := sorted_ks; p_has_more := false; p_prev := None; p_next := None |}.
Proof.
  intros Hl. unfold page. rewrite fetch_init. rewrite firstn_short by lia.
  unfold build_cursor, with_bottom, with_pid, with_reverse, eff_size, init_query; simpl.
  rewrite size_eqb. rewrite ltb_short by assumption. reflexivity.
Qed.

Lemma page_init_long : forall a y c, sorted_ks = a ++ y :: c -> length a = size ->
  page ks (init_query size asc) =
  Some {| p_data := a; p_has_more := true; p_prev := None; p_next := Some (fq y) |}.
Proof.
  intros a y c Hs Hl. unfold page. rewrite fetch_init. rewrite Hs. rewrite (firstn_S_split' _ _ _ _ Hl).
  unfold build_cursor, with_bottom, with_pid, with_reverse, eff_size, init_query; simpl.
  rewrite size_eqb. rewrite ltb_long by assumption.
  rewrite removelast_snoc, nth_last_app.
  unfold fq, bot. rewrite Hs.
  destruct a as [|a0 a']; [simpl in Hl; lia|]. reflexivity.
Qed.

(* the test PaginationID.Cmp(Bottom) of BuildCursor *)
Lemma prev_test : forall pre x post, sorted_ks = pre ++ x :: post -> pre <> [] ->
  (asc && (x >? bot)) || (negb asc && (x <? bot)) = true.
Proof.
  intros pre x post Hs Hne.
  assert (H : dlt asc bot x = true).
  { pose proof sorted_SS as HS. rewrite Hs in HS. destruct (SS_app_inv _ _ _ HS) as (_ & _ & Hc).
    apply Hc; [|left; reflexivity]. unfold bot. rewrite Hs. destruct pre as [|p0 pre']; [congruence|]. left; reflexivity. }
  unfold dlt in H. destruct asc; simpl; [rewrite Z.gtb_ltb|]; rewrite H; reflexivity.
Qed.

(* page behind a forward cursor *)
Lemma page_fwd_short : forall pre x post, sorted_ks = pre ++ x :: post -> pre <> [] ->
  (length (x :: post) <= size)%nat ->
  page ks (fq x) =
  Some {| p_data := x :: post; p_has_more := false; p_prev := Some (rq x); p_next := None |}.
Proof.
  intros pre x post Hs Hne Hl. unfold page. rewrite (fetch_fwd _ _ _ Hs). rewrite firstn_short by lia.
  unfold build_cursor, with_bottom, with_pid, with_reverse, eff_size, fq; simpl q_reverse; simpl q_bottom; simpl q_size; simpl q_pid; simpl q_asc; cbv iota.
  rewrite size_eqb. rewrite ltb_short by assumption.
  rewrite (prev_test _ _ _ Hs Hne). reflexivity.
Qed.

Lemma page_fwd_long : forall pre x post a y c, sorted_ks = pre ++ x :: post -> pre <> [] ->
  x :: post = a ++ y :: c -> length a = size ->
  page ks (fq x) =
  Some {| p_data := a; p_has_more := true; p_prev := Some (rq x); p_next := Some (fq y) |}.
Proof.
  intros pre x post a y c Hs Hne Ha Hl. unfold page. rewrite (fetch_fwd _ _ _ Hs). rewrite Ha.
  rewrite (firstn_S_split' _ _ _ _ Hl).
  unfold build_cursor, with_bottom, with_pid, with_reverse, eff_size, fq; simpl q_reverse; simpl q_bottom; simpl q_size; simpl q_pid; simpl q_asc; cbv iota.
  rewrite size_eqb. rewrite ltb_long by assumption.
  rewrite removelast_snoc, nth_last_app.
  rewrite (prev_test _ _ _ Hs Hne). reflexivity.
Qed.

(* page behind a previous cursor *)
Lemma page_rev_short : forall pre x post, sorted_ks = pre ++ x :: post -> (length pre <= size)%nat ->
  page ks (rq x) =
  Some {| p_data := pre; p_has_more := true; p_prev := None; p_next := Some (fq x) |}.
Proof.
  intros pre x post Hs Hl. unfold page. rewrite (fetch_rev _ _ _ Hs).
  rewrite firstn_short by (rewrite rev_length; lia).
  unfold build_cursor, with_bottom, with_pid, with_reverse, eff_size, rq; simpl q_reverse; simpl q_bottom; simpl q_size; simpl q_pid; simpl q_asc; cbv iota.
  rewrite size_eqb. rewrite ltb_short by (rewrite rev_length; assumption).
  rewrite rev_involutive. reflexivity.
Qed.

Lemma page_rev_long : forall pre x post c z a, sorted_ks = pre ++ x :: post ->
  pre = c ++ z :: a -> length (z :: a) = size ->  c <> [] ->
  page ks (rq x) =
  Some {| p_data := z :: a; p_has_more := true; p_prev := Some (rq z); p_next := Some (fq x) |}.
Proof.
  intros pre x post c z a Hs Hp Hl Hc. unfold page. rewrite (fetch_rev _ _ _ Hs).
  destruct (exists_last Hc) as (c' & w & Hc'). subst c.
  assert (Hrev : rev pre = rev (z :: a) ++ w :: rev c').
  { rewrite Hp. rewrite rev_app_distr. rewrite (rev_app_distr c' [w]). simpl. rewrite <- app_assoc. reflexivity. }
  rewrite Hrev. assert (Hl' : length (rev (z :: a)) = size) by (rewrite rev_length; assumption).
  rewrite (firstn_S_split' _ _ _ _ Hl').
  unfold build_cursor, with_bottom, with_pid, with_reverse, eff_size, rq; simpl q_reverse; simpl q_bottom; simpl q_size; simpl q_pid; simpl q_asc; cbv iota.
  rewrite size_eqb. rewrite ltb_long by assumption.
  rewrite removelast_snoc. rewrite rev_involutive.
  replace (nth (length (rev (z :: a) ++ [w]) - 2) (rev (z :: a) ++ [w]) 0) with z; [reflexivity|].
  rewrite app_length, rev_length. simpl length. simpl rev.
  replace (S (length a) + 1 - 2)%nat with (length (rev a)) by (rewrite rev_length; lia).
  rewrite <- app_assoc. rewrite app_nth2 by lia. rewrite Nat.sub_diag. reflexivity.
Qed.

End Column.
