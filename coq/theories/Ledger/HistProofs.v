(* C17, history: with TRANSACTION_METADATA_HISTORY = SYNC a transaction read at time t carries the metadata the transaction had
   at time t -- i.e. its CURRENT metadata in the state the ledger was in when the clock last showed a time <= t. *)
From Coq Require Import List ZArith String Bool Lia ZifyBool.
From LV Require Import Base.Util Ledger.Types Ledger.Core Ledger.Invariants Ledger.Reads Ledger.IkProofs Ledger.ReplayProofs.
Import ListNotations.
Open Scope Z_scope.

(* the revision thist_at selects: greatest revision among the rows of [id] dated <= t *)
Definition hbest (id t : Z) (best : option thist) (x : thist) : option thist :=
  if (th_tx x =? id) && (th_date x <=? t)
  then match best with Some b => if th_rev b <? th_rev x then Some x else best | None => Some x end
  else best.
Definition hsel (h : list thist) (id t : Z) : option thist := fold_left (hbest id t) h None.
Lemma thist_at_unfold h id t : thist_at h id t = match hsel h id t with Some x => th_meta x | None => [] end.
Proof. reflexivity. Qed.

Lemma hsel_snoc h x id t : hsel (h ++ [x]) id t = hbest id t (hsel h id t) x.
Proof. unfold hsel. rewrite fold_left_app. reflexivity. Qed.

Lemma hbest_other id t best x : th_tx x <> id \/ t < th_date x -> hbest id t best x = best.
Proof.
  intros H. unfold hbest. destruct H as [H|H]; [replace (th_tx x =? id) with false by lia | replace (th_date x <=? t) with false by lia; rewrite andb_false_r]; reflexivity.
Qed.

Lemma hsel_skip id t ext : forall h, Forall (fun x => th_tx x <> id \/ t < th_date x) ext -> hsel (h ++ ext) id t = hsel h id t.
Proof.
  induction ext as [|x r IH] using rev_ind; intros h H; [rewrite app_nil_r; reflexivity|].
  apply Forall_app in H. destruct H as [Hr Hx1]. inversion Hx1 as [|? ? Hx' Hnil]; subst.
  rewrite app_assoc, hsel_snoc, hbest_other by exact Hx'. apply IH. exact Hr.
Qed.

(* the selected row, if any, is a row of [id] *)
Lemma hsel_some h id t b : hsel h id t = Some b -> In b h /\ th_tx b = id.
Proof.
  revert b. induction h as [|x r IH] using rev_ind; intros b H; [discriminate|].
  rewrite hsel_snoc in H. unfold hbest in H. destruct ((th_tx x =? id) && (th_date x <=? t)) eqn:C.
  - assert (Hx : th_tx x = id) by lia.
    destruct (hsel r id t) as [b0|] eqn:E.
    + destruct (th_rev b0 <? th_rev x); injection H as <-.
      * split; [apply in_or_app; right; left; reflexivity | exact Hx].
      * destruct (IH b0 eq_refl) as [A B]. split; [apply in_or_app; left; exact A | exact B].
    + injection H as <-. split; [apply in_or_app; right; left; reflexivity | exact Hx].
  - destruct (IH b H) as [A B]. split; [apply in_or_app; left; exact A | exact B].
Qed.

Lemma next_rev_t_above h id : forall b, In b h -> th_tx b = id -> th_rev b < next_rev_t h id.
Proof.
  unfold next_rev_t.
  assert (G : forall l r0, (forall b, In b l -> th_tx b = id -> th_rev b < fold_left (fun r x => if th_tx x =? id then Z.max r (th_rev x + 1) else r) l r0) /\
                           r0 <= fold_left (fun r x => if th_tx x =? id then Z.max r (th_rev x + 1) else r) l r0).
  { induction l as [|x r IH]; intros r0; cbn [fold_left]; [split; [intros b [] | lia]|].
    destruct (th_tx x =? id) eqn:E.
    - destruct (IH (Z.max r0 (th_rev x + 1))) as [A B]. split; [|lia].
      intros b [<-|Hb] Hid; [lia | apply A; assumption].
    - destruct (IH r0) as [A B]. split; [|exact B].
      intros b [<-|Hb] Hid; [lia | apply A; assumption]. }
  intros b Hb Hid. exact (proj1 (G h 1) b Hb Hid).
Qed.

(* ---------- the invariant: at time t every transaction effective at or before t reads its current metadata ---------- *)
Record HCur (s : state) (t : Z) : Prop := {
  hc_cur : forall x, In x (s_txs s) -> t_ts x <= t -> thist_at (s_thist s) (t_id x) t = t_meta x;
  hc_ids : Forall (fun r => th_tx r < s_next_tx s) (s_thist s);
  hc_txids : Forall (fun x => t_id x < s_next_tx s) (s_txs s)
}.

Lemma hcur_init t : HCur init_state t.
Proof. constructor; cbn; [intros x [] | constructor | constructor]. Qed.

Lemma commit_hcur f now s ps md ts ref s1 o t : f_tx_hist f = true -> now <= t ->
  HCur s t -> commit_transaction f now s ps md ts ref = (s1, o) -> HCur s1 t.
Proof.
  intros Fh Hnow [H1 H2 H3] H. unfold commit_transaction in H.
  destruct (negb (ref =? "")%string && ref_taken (s_txs s) ref).
  - inversion H; subst. constructor; cbn [s_txs s_thist s_next_tx]; [exact H1 | |];
      (eapply Forall_impl; [|eassumption]; cbn; intros a Ha; lia).
  - destruct (if f_moves f then _ else _) as [[mv nr] sq]. rewrite Fh in H. injection H as Hs Ho. subst s1.
    constructor; cbn [s_txs s_thist s_next_tx].
    + intros x Hx Hts. apply in_app_or in Hx. rewrite thist_at_unfold, hsel_snoc. destruct Hx as [Hx|[<-|[]]].
      * rewrite hbest_other; [rewrite <- thist_at_unfold; apply H1; assumption|].
        left. cbn [th_tx]. rewrite Forall_forall in H3. specialize (H3 x Hx). cbn in H3. lia.
      * cbn [t_id t_ts t_meta] in *.
        assert (Hn : hsel (s_thist s) (s_next_tx s) t = None).
        { destruct (hsel (s_thist s) (s_next_tx s) t) as [b|] eqn:E; [|reflexivity].
          destruct (hsel_some _ _ _ _ E) as [Hin Hid]. rewrite Forall_forall in H2. specialize (H2 b Hin). cbn in H2. lia. }
        rewrite Hn. unfold hbest. cbn [th_tx th_date]. rewrite Z.eqb_refl. replace (opt_default now ts <=? t) with true by lia. reflexivity.
    + apply Forall_app. split; [eapply Forall_impl; [|exact H2]; cbn; intros a Ha; lia | constructor; [cbn; lia | constructor]].
    + apply Forall_app. split; [eapply Forall_impl; [|exact H3]; cbn; intros a Ha; lia | constructor; [cbn; lia | constructor]].
Qed.

Lemma touch_hcur f s x0 g upd h t : f_tx_hist f = true -> upd <= t -> In x0 (s_txs s) ->
  (forall y, In y (s_txs s) -> t_id y = t_id x0 -> y = x0) ->
  HCur s t -> HCur (touch_tx f s x0 (fun x => tx_with x (g x) upd (h x))) t.
Proof.
  intros Fh Hupd Hin0 Huniq [H1 H2 H3]. unfold touch_tx. rewrite Fh. constructor; cbn [s_txs s_thist s_next_tx].
  - intros x Hx Hts. unfold map_tx in Hx. apply in_map_iff in Hx. destruct Hx as (y & Ey & Hy).
    rewrite thist_at_unfold, hsel_snoc. cbn [tx_with t_id t_upd t_meta].
    destruct (t_id y =? t_id x0) eqn:E.
    + assert (Eid : t_id y = t_id x0) by lia. pose proof (Huniq y Hy Eid) as ->. subst x. cbn [tx_with t_id t_meta t_ts] in *.
      unfold hbest. cbn [th_tx th_date th_rev th_meta]. rewrite Z.eqb_refl. replace (upd <=? t) with true by lia. cbn [andb].
      destruct (hsel (s_thist s) (t_id x0) t) as [b|] eqn:Eb; [|reflexivity].
      destruct (hsel_some _ _ _ _ Eb) as [Hbin Hbid].
      pose proof (next_rev_t_above (s_thist s) (t_id x0) b Hbin Hbid) as Hlt.
      replace (th_rev b <? next_rev_t (s_thist s) (t_id x0)) with true by lia. reflexivity.
    + subst x. rewrite hbest_other by (left; cbn [th_tx]; lia). rewrite <- thist_at_unfold. apply H1; assumption.
  - apply Forall_app. split; [exact H2 | constructor; [|constructor]]. cbn [th_tx tx_with t_id].
    rewrite Forall_forall in H3. exact (H3 x0 Hin0).
  - unfold map_tx. rewrite Forall_map. eapply Forall_impl; [|exact H3]. cbn. intros a Ha. destruct (t_id a =? t_id x0); exact Ha.
Qed.

Lemma hcur_same_tables s s' t : s_txs s' = s_txs s -> s_thist s' = s_thist s -> s_next_tx s <= s_next_tx s' -> HCur s t -> HCur s' t.
Proof.
  intros E1 E2 Hle [H1 H2 H3]. constructor; rewrite ?E1, ?E2; [exact H1 | |];
    (eapply Forall_impl; [|eassumption]; cbn; intros a Ha; lia).
Qed.

Lemma find_tx_in txs id x : find_tx txs id = Some x -> In x txs.
Proof. unfold find_tx. intros H. apply find_some in H. exact (proj1 H). Qed.

Lemma run_input_hcur f now s i t : f_tx_hist f = true -> now <= t -> InvT s -> HCur s t -> HCur (outcome_state (run_input f now s i) s) t.
Proof.
  intros Fh Hnow HT HC. script_split i.
  { simpl. unfold create_tx. destruct ps as [|p ps']; [exact HC|].
    destruct (feasible force (s_vols s) (p :: ps')); simpl; [|exact HC].
    destruct (commit_transaction f now s (p :: ps') md ts ref) as [s1 [x|]] eqn:E; simpl.
    + pose proof (upsert_tx_accounts_frame f now s1 x amd) as (_ & Htx & _ & Hth & _ & Hn & _).
      eapply hcur_same_tables; [exact Htx | exact Hth | lia | eapply commit_hcur; eassumption].
    + eapply commit_hcur; eassumption. }
  destruct i as [ps ts ref md amd force | id force at_eff rmeta | [a|id] md | [a|id] k | ps ts ref md amd force smd samd];
    [apply Hc | | | | | | script_bullet Hc]; simpl.
  - destruct (find_tx (s_txs s) id) as [x|] eqn:F; [|exact HC].
    destruct (t_rev x); [exact HC|].
    set (mark := fun y : tx => tx_with y (t_meta y) now (Some now)).
    assert (Hu : forall y, In y (s_txs s) -> t_id y = t_id x -> y = x).
    { intros y Hy Ey. eapply sorted_unique_id; [exact (inv_ids_sorted s HT) | exact F | exact Hy |].
      rewrite Ey. eapply find_tx_id; exact F. }
    assert (H1 : HCur (touch_tx f s x mark) t) by (apply (touch_hcur f s x t_meta now (fun _ => Some now) t); try assumption; eapply find_tx_in; exact F).
    match goal with |- context [match ?c with RCOk => _ | RCInsufficient => _ | RCPanic => _ end] => destruct c end;
      cbn [outcome_state]; try exact H1; try exact HC.
    match goal with |- context [commit_transaction ?a ?b ?c ?d ?e ?g ?h] => destruct (commit_transaction a b c d e g h) as [s2 [r|]] eqn:E end; cbn [outcome_state];
      (eapply commit_hcur; [exact Fh | exact Hnow | exact H1 | exact E]).
  - apply (hcur_same_tables s _ t); [reflexivity | reflexivity | cbn; lia | exact HC].
  - destruct (find_tx (s_txs s) id) as [x|] eqn:F; [|exact HC].
    destruct (mcontains (t_meta x) md); simpl; [exact HC|].
    apply (touch_hcur f s x (fun y => mmerge (t_meta y) md) now t_rev t); try assumption; [eapply find_tx_in; exact F|].
    intros y Hy Ey. eapply sorted_unique_id; [exact (inv_ids_sorted s HT) | exact F | exact Hy |]. rewrite Ey. eapply find_tx_id; exact F.
  - destruct (find_account (s_accounts s) a); simpl; [apply (hcur_same_tables s _ t); [reflexivity | reflexivity | cbn; lia | exact HC] | exact HC].
  - destruct (find_tx (s_txs s) id) as [x|] eqn:F; [|exact HC].
    destruct (mget (t_meta x) k); simpl; [|exact HC].
    apply (touch_hcur f s x (fun y => mdel (t_meta y) k) now t_rev t); try assumption; [eapply find_tx_in; exact F|].
    intros y Hy Ey. eapply sorted_unique_id; [exact (inv_ids_sorted s HT) | exact F | exact Hy |]. rewrite Ey. eapply find_tx_id; exact F.
Qed.

Theorem step_hcur f now s o s' r t : f_tx_hist f = true -> now <= t -> Inv s -> HCur s t -> step f now s o = SR s' r -> HCur s' t.
Proof.
  intros Fh Hnow [HT HL] HC H. unfold step in H.
  destruct (find_ik (s_logs s) (o_ik o)) as [l|].
  - destruct (input_eq_dec (l_input l) (o_in o)); inversion H; subst; exact HC.
  - pose proof (run_input_hcur f now s (o_in o) t Fh Hnow HT HC) as H1.
    pose proof (run_input_next_mono f now s (o_in o)) as Hm.
    destruct (run_input f now s (o_in o)) as [s1 p|s1 e|]; cbn [outcome_state] in *; [| |discriminate].
    + destruct (o_dry o); inversion H; subst.
      * apply (hcur_same_tables s _ t); [reflexivity | reflexivity | cbn; exact Hm | exact HC].
      * apply (hcur_same_tables s1 _ t); [reflexivity | reflexivity | cbn; lia | exact H1].
    + inversion H; subst. apply (hcur_same_tables s _ t); [reflexivity | reflexivity | cbn; exact Hm | exact HC].
Qed.

(* ---------- after t: later operations cannot change what is read at t for the transactions that already existed ---------- *)
Definition hist_ext (f : features) (t : Z) (s s' : state) : Prop :=
  exists ext, s_thist s' = s_thist s ++ ext /\ Forall (fun x => s_next_tx s <= th_tx x \/ t < th_date x) ext /\ s_next_tx s <= s_next_tx s'.

Lemma hist_ext_refl f t s : hist_ext f t s s.
Proof. exists []. rewrite app_nil_r. repeat split; [constructor | lia]. Qed.

Lemma hist_ext_trans f t a b c : hist_ext f t a b -> hist_ext f t b c -> hist_ext f t a c.
Proof.
  intros (e1 & A1 & A2 & A3) (e2 & B1 & B2 & B3). exists (e1 ++ e2). rewrite B1, A1, app_assoc. repeat split; [|lia].
  apply Forall_app. split; [exact A2|]. eapply Forall_impl; [|exact B2]. cbn. intros x [Hx|Hx]; [left; lia | right; exact Hx].
Qed.

Lemma commit_hist_ext f now s ps md ts ref s1 o t : t < now -> commit_transaction f now s ps md ts ref = (s1, o) -> hist_ext f t s s1.
Proof.
  intros Hnow H. unfold commit_transaction in H. unfold hist_ext.
  destruct (negb (ref =? "")%string && ref_taken (s_txs s) ref).
  - inversion H; subst. exists []. cbn. rewrite app_nil_r. repeat split; [constructor | cbn; lia].
  - destruct (if f_moves f then _ else _) as [[mv nr] sq]. injection H as Hs Ho. subst s1. cbn [s_thist s_next_tx].
    destruct (f_tx_hist f).
    + eexists. split; [reflexivity|]. split; [|cbn; lia]. constructor; [left; cbn; lia | constructor].
    + exists []. rewrite app_nil_r. repeat split; [constructor | cbn; lia].
Qed.

Lemma touch_hist_ext f s x fn t : t < t_upd (fn x) -> hist_ext f t s (touch_tx f s x fn).
Proof.
  intros Hd. unfold touch_tx. cbn [hist_ext s_thist s_next_tx]. unfold hist_ext. cbn [s_thist s_next_tx].
  destruct (f_tx_hist f).
  - eexists. split; [reflexivity|]. split; [|cbn; lia]. constructor; [right; cbn; exact Hd | constructor].
  - exists []. rewrite app_nil_r. repeat split; [constructor | cbn; lia].
Qed.

Lemma hist_ext_same f t s s' : s_thist s' = s_thist s -> s_next_tx s <= s_next_tx s' -> hist_ext f t s s'.
Proof. intros E Hle. exists []. rewrite E, app_nil_r. repeat split; [constructor | exact Hle]. Qed.

Lemma run_input_hist_ext f now s i t : t < now -> hist_ext f t s (outcome_state (run_input f now s i) s).
Proof.
  intros Hnow. script_split i.
  { simpl. unfold create_tx. destruct ps as [|p ps']; [apply hist_ext_refl|].
    destruct (feasible force (s_vols s) (p :: ps')); simpl; [|apply hist_ext_refl].
    destruct (commit_transaction f now s (p :: ps') md ts ref) as [s1 [x|]] eqn:E; simpl.
    + pose proof (upsert_tx_accounts_frame f now s1 x amd) as (_ & _ & _ & Hth & _ & Hn & _).
      eapply hist_ext_trans; [eapply commit_hist_ext; eassumption | apply hist_ext_same; [exact Hth | lia]].
    + eapply commit_hist_ext; eassumption. }
  destruct i as [ps ts ref md amd force | id force at_eff rmeta | [a|id] md | [a|id] k | ps ts ref md amd force smd samd];
    [apply Hc | | | | | | script_bullet Hc]; simpl.
  - destruct (find_tx (s_txs s) id) as [x|]; [|apply hist_ext_refl].
    destruct (t_rev x); [apply hist_ext_refl|].
    set (mark := fun y : tx => tx_with y (t_meta y) now (Some now)).
    assert (H1 : hist_ext f t s (touch_tx f s x mark)) by (apply touch_hist_ext; cbn; exact Hnow).
    match goal with |- context [match ?c with RCOk => _ | RCInsufficient => _ | RCPanic => _ end] => destruct c end;
      cbn [outcome_state]; try exact H1; try apply hist_ext_refl.
    match goal with |- context [commit_transaction ?a ?b ?c ?d ?e ?g ?h] => destruct (commit_transaction a b c d e g h) as [s2 [r|]] eqn:E end; cbn [outcome_state];
      (eapply hist_ext_trans; [exact H1 | eapply commit_hist_ext; eassumption]).
  - apply hist_ext_same; [reflexivity | cbn; lia].
  - destruct (find_tx (s_txs s) id) as [x|]; [|apply hist_ext_refl].
    destruct (mcontains (t_meta x) md); simpl; [apply hist_ext_refl|]. apply touch_hist_ext. cbn. exact Hnow.
  - destruct (find_account (s_accounts s) a); simpl; [apply hist_ext_same; [reflexivity | cbn; lia] | apply hist_ext_refl].
  - destruct (find_tx (s_txs s) id) as [x|]; [|apply hist_ext_refl].
    destruct (mget (t_meta x) k); simpl; [|apply hist_ext_refl]. apply touch_hist_ext. cbn. exact Hnow.
Qed.

Lemma step_hist_ext f now s o s' r t : t < now -> step f now s o = SR s' r -> hist_ext f t s s'.
Proof.
  intros Hnow H. unfold step in H.
  destruct (find_ik (s_logs s) (o_ik o)) as [l|].
  - destruct (input_eq_dec (l_input l) (o_in o)); inversion H; subst; apply hist_ext_refl.
  - pose proof (run_input_hist_ext f now s (o_in o) t Hnow) as H1.
    pose proof (run_input_next_mono f now s (o_in o)) as Hm.
    destruct (run_input f now s (o_in o)) as [s1 p|s1 e|]; cbn [outcome_state] in *; [| |discriminate].
    + destruct (o_dry o); inversion H; subst.
      * apply hist_ext_same; [reflexivity | cbn; exact Hm].
      * destruct H1 as (ext & A & B & C). exists ext. cbn [append_log s_thist s_next_tx]. repeat split; assumption.
    + inversion H; subst. apply hist_ext_same; [reflexivity | cbn; exact Hm].
Qed.

Lemma run_from_hist_ext f t h : forall s, Forall (fun no => t < fst no) h -> hist_ext f t s (run_from f s h).
Proof.
  induction h as [|[now o] r IH]; intros s H; cbn [run_from fold_left]; [apply hist_ext_refl|].
  inversion H as [|? ? Hn Hr]; subst. cbn [fst snd] in *.
  destruct (step f now s o) as [s' res|] eqn:E.
  - eapply hist_ext_trans; [eapply step_hist_ext; eassumption | apply IH; exact Hr].
  - apply IH; exact Hr.
Qed.

Lemma run_from_hcur f t h : forall s, Forall (fun no => fst no <= t) h -> f_tx_hist f = true -> Inv s -> HCur s t -> HCur (run_from f s h) t.
Proof.
  induction h as [|[now o] r IH]; intros s H Fh HI HC; cbn [run_from fold_left]; [exact HC|].
  inversion H as [|? ? Hn Hr]; subst. cbn [fst snd] in *.
  destruct (step f now s o) as [s' res|] eqn:E.
  - apply IH; [exact Hr | exact Fh | eapply step_inv; eassumption | eapply step_hcur; eassumption].
  - apply IH; assumption.
Qed.

Lemma run_app f h1 h2 : run f (h1 ++ h2) = run_from f (run f h1) h2.
Proof. unfold run, run_from. rewrite fold_left_app. reflexivity. Qed.

(* THE THEOREM: split any history into the operations up to time t and those after it (clock readings, in any order within
   each part).  With TRANSACTION_METADATA_HISTORY = SYNC, what the final state answers for the metadata at time t of a
   transaction that existed at t (and was effective by then) is that transaction's metadata in the state reached at t. *)
Theorem tx_metadata_as_of f h1 h2 t x :
  f_tx_hist f = true -> Forall (fun no => fst no <= t) h1 -> Forall (fun no => t < fst no) h2 ->
  In x (s_txs (run f h1)) -> t_ts x <= t ->
  thist_at (s_thist (run f (h1 ++ h2))) (t_id x) t = t_meta x.
Proof.
  intros Fh H1 H2 Hx Hts. rewrite run_app.
  assert (HC : HCur (run f h1) t).
  { unfold run. change (fold_left _ h1 init_state) with (run_from f init_state h1).
    apply run_from_hcur; [exact H1 | exact Fh | apply inv_init | apply hcur_init]. }
  destruct (run_from_hist_ext f t h2 (run f h1) H2) as (ext & A & B & _).
  rewrite thist_at_unfold, A, hsel_skip.
  - rewrite <- thist_at_unfold. apply (hc_cur _ _ HC); assumption.
  - eapply Forall_impl; [|exact B]. cbn. intros r [Hr|Hr]; [left | right; exact Hr].
    pose proof (hc_txids _ _ HC) as Hids. rewrite Forall_forall in Hids. specialize (Hids x Hx). cbn in Hids. lia.
Qed.
