(* Export / Import over ledgers WITH schemas (Ledger/SchemaCtrl.v layered on Ledger/Core.v): the stream carries, per log,
   logs.schema_version; importLog resolves the schema PER LOG (store.FindSchema(log.SchemaVersion), nil when the version is
   empty) and hands it to upsertTransactionAccounts / (since fixes/02-import-account-default-metadata) to the
   SavedMetadata/account branch; INSERTED_SCHEMA logs insert the schema row of the payload.

     NEW_TRANSACTION       schema := FindSchema(version) when version <> "" (an unknown version stops the import), else nil;
                           CommitTransaction as in Ledger/Import.v; UpsertAccounts with the chart defaults of THAT schema
                           (default_metadata || metadata for a row the statement inserts)
     SET_METADATA account  schema as above; UpsertAccounts(dates = log date, chart defaults of that schema)
     INSERTED_SCHEMA       InsertSchema(payload.Schema) (schemas_pkey violated when the version exists), then the log
     the others            as in Ledger/Import.v (the version is stored with the log, nothing is resolved)
   The hash column is not repeated here (Ledger/Import.v, generic over the rows); sequences are never advanced. *)
From Coq Require Import List ZArith String Bool.
From LV Require Import Base.Util Ledger.Types Ledger.Core Ledger.Chart Ledger.SchemaCtrl Ledger.Import.
Import ListNotations.
Open Scope Z_scope.

(* one element of the exported stream: a write log with logs.schema_version (and the template name, which is part of
   the idempotency fingerprint stored with the log), or an INSERTED_SCHEMA log with the schema of its payload *)
Inductive slog :=
| SLWrite (l : log) (vt : str * str)
| SLSchema (e : Z * Z * str) (row : schema_row).            (* (id, date, version) *)
Definition slog_id (e : slog) : Z := match e with SLWrite l _ => l_id l | SLSchema e _ => fst (fst e) end.

Section SImport.
  Variable re_valid : str -> bool.
  Variable re_match : str -> str -> bool.
  Variable f : features.

  (* ---------- Export: the logs table ordered by id ---------- *)
  Definition selems (ss : sstate) : list slog :=
    map (fun lv => SLWrite (fst lv) (snd lv)) (combine (s_logs (ss_base ss)) (map snd (ss_logver ss))) ++
    map (fun er => SLSchema (fst er) (snd er)) (combine (ss_slogs ss) (ss_schemas ss)).
  Fixpoint ins_slog (e : slog) (l : list slog) : list slog :=
    match l with
    | [] => [e]
    | x :: r => if slog_id e <? slog_id x then e :: x :: r else x :: ins_slog e r
    end.
  Definition sort_slogs (l : list slog) : list slog := fold_right ins_slog [] l.
  Definition simp_export (ss : sstate) : list slog := sort_slogs (selems ss).

  (* ---------- importLog ---------- *)
  Inductive serr_imp := SIBase (e : ierr) | SISchemaNotFound | SISchemaExists.

  (* the schema importLog resolves for THIS log: None when the version is empty *)
  Definition resolve (c : sstate) (v : str) : option (option schema_row) :=
    if String.eqb v "" then Some None
    else match find_schema (ss_schemas c) v with Some r => Some (Some r) | None => None end.

  (* SET_METADATA on an account: UpsertAccounts with the chart defaults of the schema of THIS log, dated at the log
     (first usage, insertion date, updated_at = log date), as saveAccountMetadata does at the time of the write *)
  Definition simp_acc_set (hist_on : bool) (d : Z) (st : list account * list ahist) (a : addr) (dm md : meta) : list account * list ahist :=
    upsert_account_d hist_on d st a dm md (Some d) (Some d) (Some d).

  Definition simp_payload (now : Z) (c : sstate) (d : Z) (v : str) (p : payload) : state + serr_imp :=
    let s := ss_base c in
    match p with
    | PNewTx t amd =>
      match resolve c v with
      | None => inr SISchemaNotFound
      | Some sc =>
        match imp_commit f s t with
        | inr e => inr (SIBase e)
        | inl s1 => inl (upsert_tx_accounts_d f now s1 (chart_defaults re_valid re_match sc) t amd)
        end
      end
    | PSetMeta (TAcc a) md =>
      match resolve c v with
      | None => inr SISchemaNotFound
      | Some sc =>
        inl (with_accounts s (simp_acc_set (f_acc_hist f) d (s_accounts s, s_ahist s) a (chart_defaults re_valid re_match sc a) md))
      end
    | _ => match imp_payload f now s d p with inl s1 => inl s1 | inr e => inr (SIBase e) end
    end.

  Definition simp_log (now : Z) (c : sstate) (e : slog) : sstate + serr_imp :=
    match e with
    | SLSchema e row =>
      match find_schema (ss_schemas c) (sc_version row) with
      | Some _ => inr SISchemaExists
      | None => inl {| ss_base := ss_base c; ss_schemas := ss_schemas c ++ [row]; ss_slogs := ss_slogs c ++ [e]; ss_logver := ss_logver c |}
      end
    | SLWrite l vt =>
      match simp_payload now c (l_date l) (fst vt) (l_payload l) with
      | inr e => inr e
      | inl s1 =>
        if ik_taken (s_logs s1) (l_ik l) then inr (SIBase IEIdempotency)
        else inl {| ss_base := imp_insert_log s1 l; ss_schemas := ss_schemas c; ss_slogs := ss_slogs c;
                    ss_logver := ss_logver c ++ [(l_id l, vt)] |}
      end
    end.

  (* DefaultController.Import *)
  Fixpoint simp_loop (now : Z) (last : option Z) (c : sstate) (es : list slog) : sstate * option serr_imp :=
    match es with
    | [] => (c, None)
    | e :: rest =>
      if match last with Some x => slog_id e <=? x | None => false end then (c, Some (SIBase IELogExists))
      else match simp_log now c e with
           | inr err => (c, Some err)
           | inl c' => simp_loop now (Some (slog_id e)) c' rest
           end
    end.

  Definition slast_log_id (c : sstate) : option Z :=
    fold_left (fun m id => match m with Some x => Some (Z.max x id) | None => Some id end)
              (map l_id (s_logs (ss_base c)) ++ map (fun e => fst (fst e)) (ss_slogs c)) None.

  (* controllerFacade.Import: [row] is _system.ledgers.state re-read under the lock *)
  Definition simp_import (now : Z) (row : lstate) (c : sstate) (es : list slog) : sstate * option serr_imp :=
    match row with
    | InUse => (c, Some (SIBase IENotInitializing))
    | Initializing => simp_loop now (slast_log_id c) c es
    end.

  (* the source: a history of schema inserts and writes under an enforcement mode *)
  Definition srun (m : mode) (h : list (Z * sinput)) : sstate :=
    fold_left (fun ss ni => match sstep re_valid re_match f m (fst ni) ss (snd ni) with SSR ss' _ => ss' | SSPanic => ss end) h sinit.

  Definition sroundtrip (m : mode) (h : list (Z * sinput)) (now : Z) : sstate * sstate * option serr_imp :=
    let a := srun m h in
    let '(b, e) := simp_import now Initializing sinit (simp_export a) in (a, b, e).
End SImport.
