(* What the HTTP API shows of a write (internal/api/v2/controllers_*.go, internal/api/v1/controllers_*.go,
   internal/api/common/errors.go): the status and errorCode each error of the controller is rendered with, the status of a
   success, the transaction id and the Idempotency-Hit header.  This is the projection the TIE-H ties compare (harness/go/vh/
   httpop.go issues the operations as real HTTP requests; ocaml/histrun.ml prints [http_answer] of the model's result). *)
From Coq Require Import List ZArith String Bool Lia.
From LV Require Import Base.Util Ledger.Types Ledger.Core Ledger.Invariants.
Import ListNotations.
Open Scope string_scope.
Open Scope Z_scope.

Inductive api_version := V1 | V2.

(* v2: createTransaction / revertTransaction / *Metadata handlers + HandleCommonWriteErrors;
   v1: the postings and script paths of createTransaction map NoPostings to VALIDATION, the script path MetadataOverride too *)
Definition http_error (v : api_version) (e : err) : Z * string :=
  match e with
  | EInsufficientFunds => (400, "INSUFFICIENT_FUND")
  | EReferenceConflict => (409, "CONFLICT")
  | EIdempotencyInput => (400, "VALIDATION")
  | EAlreadyReverted => (400, "ALREADY_REVERT")
  | ENotFound => (404, "NOT_FOUND")
  | ENoPostings => match v with V2 => (400, "NO_POSTINGS") | V1 => (400, "VALIDATION") end
  | EMetadataOverride => match v with V2 => (400, "METADATA_OVERRIDE") | V1 => (400, "VALIDATION") end
  end.

(* api.Ok for a created transaction, api.Created for a revert, api.NoContent for the metadata endpoints *)
Definition success_status (i : input) : Z :=
  match i with
  | ICreate _ _ _ _ _ _ | IScript _ _ _ _ _ _ _ _ => 200
  | IRevert _ _ _ _ => 201
  | ISetMeta _ _ | IDelMeta _ _ => 204
  end.

Inductive http_answer :=
| HOk (status : Z) (tx_id : option Z) (hit : bool)
| HErr (status : Z) (code : string).

Definition http_answer_of (v : api_version) (i : input) (r : result) : http_answer :=
  match r with
  | ROk _ t hit => HOk (success_status i) t hit
  | RErr e => let (st, c) := http_error v e in HErr st c
  end.

Definition client_error (st : Z) : Prop := 400 <= st < 500.

Lemma http_error_is_client_error v e : client_error (fst (http_error v e)).
Proof. unfold client_error. destruct v, e; cbn; lia. Qed.

Lemma success_status_2xx i : 200 <= success_status i < 300.
Proof. destruct i; cbn; lia. Qed.

(* an operation answered with an error status changed no table, and the status is a 4xx *)
Lemma http_error_no_effect v f now s o s' r st c :
  step f now s o = SR s' r -> http_answer_of v (o_in o) r = HErr st c -> client_error st /\ tables s' = tables s.
Proof.
  intros Hs Ha. destruct r as [l t hit|e]; cbn in Ha; [discriminate|].
  destruct (http_error v e) as [st' c'] eqn:E. inversion Ha; subst. split.
  - pose proof (http_error_is_client_error v e) as H. rewrite E in H. exact H.
  - eapply step_error_no_trace; eassumption.
Qed.

(* and conversely every answer is a 2xx success or a 4xx error: the controller's errors never surface as 5xx *)
Lemma http_answer_class v i r :
  match http_answer_of v i r with HOk st _ _ => 200 <= st < 300 | HErr st _ => client_error st end.
Proof.
  destruct r as [l t hit|e]; cbn.
  - apply success_status_2xx.
  - pose proof (http_error_is_client_error v e) as H. destruct (http_error v e). exact H.
Qed.

(* the three rejections the properties name *)
Lemma idempotency_input_is_400_validation v : http_error v EIdempotencyInput = (400, "VALIDATION").
Proof. destruct v; reflexivity. Qed.
Lemma reference_conflict_is_409 v : http_error v EReferenceConflict = (409, "CONFLICT").
Proof. destruct v; reflexivity. Qed.
Lemma already_reverted_is_400 v : http_error v EAlreadyReverted = (400, "ALREADY_REVERT").
Proof. destruct v; reflexivity. Qed.
