(* C25: a postings request is recorded exactly as submitted; it fails with insufficient funds iff the in-order walk
   over the postings finds a non-world, non-forced source whose balance at that point is smaller than the amount. *)
From Coq Require Import List ZArith String Bool Lia.
From LV Require Import Base.Util Ledger.Types Ledger.Core Ledger.VolProofs Ledger.Invariants.
Import ListNotations.
Open Scope Z_scope.

(* balance of k after applying the postings l in order on top of cur *)
Definition balance_after (cur : volmap) (l : list posting) (k : key) : Z := balance (fold_left apply_posting l cur) k.

Lemma balance_after_fold cur l k :
  balance_after cur l k = balance cur k + (fst (fold_postings l k) - snd (fold_postings l k)).
Proof. unfold balance_after, balance. rewrite vget_fold_apply. destruct (vget cur k), (fold_postings l k). unfold vplus; simpl. lia. Qed.

(* the reference walk: posting i is affordable when forced, from world, of amount 0, or covered by the balance its source
   has after the postings before it (funds received earlier in the same request can be spent) *)
Definition affordable (force : bool) (cur : volmap) (ps : list posting) (i : nat) (p : posting) : Prop :=
  force = true \/ p_src p = world \/ p_amt p <= 0 \/ p_amt p <= balance_after cur (firstn i ps) (skey p).

Lemma feasible_spec force ps : forall cur,
  feasible force cur ps = true <-> (forall i p, nth_error ps i = Some p -> affordable force cur ps i p).
Proof.
  induction ps as [|q r IH]; intros cur; cbn [feasible].
  - split; [intros _ i p H; destruct i; discriminate | reflexivity].
  - rewrite andb_true_iff, (IH (apply_posting cur q)). split.
    + intros [Hq Hr] i p Hi. destruct i as [|j]; cbn [nth_error] in Hi.
      * inversion Hi; subst p. unfold affordable, balance_after. cbn [firstn fold_left].
        rewrite !orb_true_iff in Hq. destruct Hq as [[[Hq|Hq]|Hq]|Hq];
          [left; exact Hq | right; left; apply String.eqb_eq; exact Hq | right; right; left; lia | right; right; right; lia].
      * specialize (Hr j p Hi). unfold affordable, balance_after in *. cbn [firstn fold_left]. exact Hr.
    + intros H. split.
      * specialize (H 0%nat q eq_refl). unfold affordable, balance_after in H. cbn [firstn fold_left] in H.
        rewrite !orb_true_iff. destruct H as [H|[H|[H|H]]];
          [left; left; left; exact H | left; left; right; apply String.eqb_eq; exact H | left; right; lia | right; lia].
      * intros j p Hj. specialize (H (S j) p Hj). unfold affordable, balance_after in *. cbn [firstn fold_left] in H. exact H.
Qed.

Lemma feasible_force cur ps : feasible true cur ps = true.
Proof. revert cur; induction ps as [|q r IH]; intros cur; cbn [feasible orb andb]; [reflexivity | apply IH]. Qed.

(* what a create does, as a function of the walk *)
Lemma create_outcome f now s ps ts ref md amd force ik dry :
  find_ik (s_logs s) ik = None -> ps <> [] ->
  match step f now s {| o_in := ICreate ps ts ref md amd force; o_ik := ik; o_dry := dry |} with
  | SR s' (RErr e) =>
      if feasible force (s_vols s) ps then e = EReferenceConflict /\ ref <> ""%string /\ ref_taken (s_txs s) ref = true
      else e = EInsufficientFunds
  | SR s' (ROk lid tid hit) =>
      feasible force (s_vols s) ps = true /\ hit = false /\ tid = Some (s_next_tx s) /\
      (dry = false -> exists t, s_txs s' = s_txs s ++ [t] /\ t_id t = s_next_tx s /\ t_postings t = ps /\
                                 t_ts t = opt_default now ts /\ t_ref t = ref /\ t_meta t = md)
  | SPanic => False
  end.
Proof.
  intros Hik Hne. unfold step. cbn [o_ik o_in o_dry]. rewrite Hik. cbn [run_input]. unfold create_tx.
  destruct ps as [|p ps']; [contradiction|].
  destruct (feasible force (s_vols s) (p :: ps')) eqn:Fe; cbn [negb].
  - destruct (commit_transaction f now s (p :: ps') md ts ref) as [s1 [t|]] eqn:E.
    + pose proof (commit_some _ _ _ _ _ _ _ _ _ E) as (H1 & H2 & H3 & H4 & H5 & _ & H7 & _).
      pose proof (upsert_tx_accounts_frame f now s1 t amd) as (_ & Htx & _).
      destruct dry; cbn [payload_tx_id]; (split; [reflexivity|]); (split; [reflexivity|]); (split; [rewrite H3; reflexivity|]).
      * intros D; discriminate D.
      * intros _. exists t. cbn [append_log s_txs]. rewrite Htx, H1. repeat split; assumption.
    + split; [reflexivity|]. unfold commit_transaction in E.
      destruct (negb (ref =? "")%string && ref_taken (s_txs s) ref) eqn:C.
      * apply andb_true_iff in C. destruct C as [C1 C2]. split; [|exact C2].
        intros ->. cbn in C1. discriminate C1.
      * destruct (if f_moves f then _ else _) as [[mv nr] sq]. inversion E.
  - reflexivity.
Qed.
