(* Model of bulking.Bulker.Run / Bulker.run (internal/api/bulking/bulker.go) and of the attribution of results to
   elements in JsonBulkHandler.Terminate / writeJSONResponse (handler_json.go), over an abstract per-element step
   [exec : state -> elem -> state * res] (instantiated with Ledger/Core.step at the end).

   Bulker.run submits the elements, in order, to a pond pool of [parallelism] workers (1 unless parallel=true); a task
   first tests `hasError.Load() && !continueOnFailure` (=> result {Error: context.Canceled}, element NOT processed), else
   processes the element, stores hasError on failure and sends its BulkElementResult on the channel.  Results therefore
   arrive in COMPLETION order, each carrying ElementID = the submission index of its element (since the repair of finding
   KF-C32-parallel-attribution; before it ElementID was never assigned); writeJSONResponse sorts the results by ElementID
   (distinct keys: the outcome does not depend on the sorting algorithm) and pairs the i-th sorted result with the i-th
   element's action.
   Run: atomic => BeginTX first, Rollback when any element failed, Commit otherwise (atomic && parallel is rejected). *)
From Coq Require Import List Bool Arith.
Import ListNotations.

Section Bulk.
  Context {state elem res : Type}.
  Variable exec : state -> elem -> state * res.
  Variable is_ok : res -> bool.
  Variable cancelled : res.                       (* {Error: context.Canceled} *)
  Variable rollback : state -> state -> state.    (* rollback s0 s1: what s1 becomes when the transaction begun in s0 is rolled back *)

  (* parallelism 1: tasks run one after the other in submission order *)
  Fixpoint run_seq (cont : bool) (s : state) (err : bool) (es : list elem) : state * list res * bool :=
    match es with
    | [] => (s, [], err)
    | e :: r =>
      if err && negb cont then
        let '(s', rs, err') := run_seq cont s err r in (s', cancelled :: rs, err')
      else
        let '(s1, x) := exec s e in
        let '(s', rs, err') := run_seq cont s1 (err || negb (is_ok x)) r in (s', x :: rs, err')
    end.

  Definition run_bulk (atomic cont : bool) (s : state) (es : list elem) : state * list res :=
    let '(s', rs, err) := run_seq cont s false es in
    if atomic && err then (rollback s s', rs) else (s', rs).

  (* parallel = true: a schedule lists, in completion order, the index of the element and whether its task made the
     hasError test AFTER all earlier completions ([late]); executions are serialised in that order (the serialisable
     interleavings).  Results are tagged with the element index (ElementID). *)
  Fixpoint run_sched (cont : bool) (es : list elem) (s : state) (err : bool) (sched : list (nat * bool)) : state * list (nat * res) * bool :=
    match sched with
    | [] => (s, [], err)
    | (i, late) :: r =>
      match nth_error es i with
      | None => run_sched cont es s err r
      | Some e =>
        if late && err && negb cont then
          let '(s', rs, err') := run_sched cont es s err r in (s', (i, cancelled) :: rs, err')
        else
          let '(s1, x) := exec s e in
          let '(s', rs, err') := run_sched cont es s1 (err || negb (is_ok x)) r in (s', (i, x) :: rs, err')
      end
    end.

  (* the sequential run tags result i with i *)
  Definition tag_seq (rs : list res) : list (nat * res) := combine (seq 0 (length rs)) rs.

  (* slices.SortFunc by ElementID, as an insertion sort (keys are distinct, any sorting algorithm gives this list) *)
  Fixpoint ins_by_id (x : nat * res) (l : list (nat * res)) : list (nat * res) :=
    match l with
    | [] => [x]
    | y :: r => if fst x <=? fst y then x :: l else y :: ins_by_id x r
    end.
  Definition sort_by_id (l : list (nat * res)) : list (nat * res) := fold_right ins_by_id [] l.

  (* writeJSONResponse: sort by ElementID, i-th result paired with i-th action; "ERROR" replaces the action as
     responseType when the result is an error *)
  Definition respond {A} (actions : list A) (tagged : list (nat * res)) : list (option A * res) :=
    map (fun ar => (if is_ok (snd ar) then Some (fst ar) else None, snd ar)) (combine actions (map snd (sort_by_id tagged))).

  (* ---------- specification vocabulary ---------- *)
  Definition exec_all (s : state) (es : list elem) : state := fold_left (fun s e => fst (exec s e)) es s.
  Fixpoint results_all (s : state) (es : list elem) : list res :=
    match es with [] => [] | e :: r => snd (exec s e) :: results_all (fst (exec s e)) r end.
  (* the result the same request returns on its own in the state the bulk had reached before element i *)
  Definition standalone (s : state) (es : list elem) (i : nat) : option res :=
    match nth_error es i with Some e => Some (snd (exec (exec_all s (firstn i es)) e)) | None => None end.
  Definition pick (es : list elem) (perm : list nat) : list elem :=
    flat_map (fun i => match nth_error es i with Some e => [e] | None => [] end) perm.
End Bulk.

(* ---------- instantiation with the ledger model ---------- *)
From Coq Require Import ZArith String.
From LV Require Import Base.Util Ledger.Types Ledger.Core.

(* a bulk runs at one (logical) instant; a panicking element (Core.SPanic) has no result *)
Definition core_exec (f : features) (now : Z) (s : state) (o : op) : state * option result :=
  match step f now s o with SR s' r => (s', Some r) | SPanic => (s, None) end.
Definition core_ok (r : option result) : bool := match r with Some (ROk _ _ _) => true | _ => false end.
(* context.Canceled has no counterpart among the ledger errors: it is a result of its own *)
Inductive bres := BRes (r : option result) | BCancelled.
Definition bres_ok (r : bres) : bool := match r with BRes x => core_ok x | BCancelled => false end.
Definition core_exec_b (f : features) (now : Z) (s : state) (o : op) : state * bres :=
  let '(s', r) := core_exec f now s o in (s', BRes r).
Definition core_bulk (f : features) (now : Z) (atomic cont : bool) (s : state) (es : list op) : state * list bres :=
  run_bulk (core_exec_b f now) bres_ok BCancelled only_sequences atomic cont s es.
Definition core_sched (f : features) (now : Z) (cont : bool) (s : state) (es : list op) (sched : list (nat * bool)) :=
  run_sched (core_exec_b f now) bres_ok BCancelled cont es s false sched.

(* ---------- instantiation with the schema-aware controller (Ledger/SchemaCtrl.v: runLog's schema lookup in strict / audit
   mode, chart default metadata, payload validation) ----------
   Bulker.processElement forwards ONE schemaVersion (the query parameter of the request) to every element, with the
   element's own idempotency key and input; bulk elements never name a transaction template. *)
From LV Require Import Ledger.Chart Ledger.SchemaCtrl.

Section SchemaBulk.
  Variable re_valid : str -> bool.
  Variable re_match : str -> str -> bool.
  Variable f : features.
  Variable m : mode.
  Variable now : Z.
  Variable version : str.                 (* BulkingOptions.SchemaVersion *)

  Inductive sbres := SBRes (r : option sresult) | SBCancelled.
  Definition sbres_ok (r : sbres) : bool := match r with SBRes (Some (SOk _ _ _)) => true | _ => false end.

  Definition schema_exec_b (ss : sstate) (o : op) : sstate * sbres :=
    match sstep re_valid re_match f m now ss (SWrite version ""%string o) with
    | SSR s' r => (s', SBRes (Some r))
    | SSPanic => (ss, SBRes None)
    end.

  (* rollback of the bulk's transaction: every table as before, sequences as the elements left them *)
  Definition srollback (s0 s1 : sstate) : sstate := with_base s0 (only_sequences (ss_base s0) (ss_base s1)).

  Definition schema_bulk (atomic cont : bool) (ss : sstate) (es : list op) : sstate * list sbres :=
    run_bulk schema_exec_b sbres_ok SBCancelled srollback atomic cont ss es.
  Definition schema_sched (cont : bool) (ss : sstate) (es : list op) (sched : list (nat * bool)) :=
    run_sched schema_exec_b sbres_ok SBCancelled cont es ss false sched.
End SchemaBulk.
