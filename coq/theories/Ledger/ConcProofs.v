(* Proofs about Ledger/Conc.v: invariants of EVERY schedule (induction over the list of scheduled writers; no bound on the
   number of writers or steps).  Method: for each table a small inductive relation lists the ways one store call can change it
   (fresh row with id = nextval, neutral rewrite, publication under the unique-index check, removal, commit, ...); the
   table's invariant is preserved along the relation; every [step] is shown to be in the relation. *)
From Coq Require Import List ZArith String Bool Arith Lia Sorted.
From LV Require Import Ledger.Conc.
Import ListNotations.
Open Scope Z_scope.

Lemma run_inv (P : gst -> Prop) : (forall g w, P g -> P (step g w)) -> forall sched g, P g -> P (run g sched).
Proof. intros H sched; induction sched as [|w r IH]; simpl; intros g Hg; auto. Qed.

Lemma run_app g a b : run g (a ++ b) = run (run g a) b.
Proof. unfold run. apply fold_left_app. Qed.

Ltac brk := repeat match goal with
  | |- context [match ?x with _ => _ end] => destruct x eqn:?
  end.

(* ---------------------------------------------------------------- lists *)
Section Ids.
  Context {A : Type} (idf : A -> Z).
  Lemma nodup_map_inj l x y : NoDup (map idf l) -> In x l -> In y l -> idf x = idf y -> x = y.
  Proof.
    induction l as [|z r IH]; simpl; intros Hn Hx Hy E; [destruct Hx|].
    destruct Hx as [Hx|Hx], Hy as [Hy|Hy]; subst; auto; inversion Hn; subst.
    - exfalso. apply H1. rewrite E. apply in_map; auto.
    - exfalso. apply H1. rewrite <- E. apply in_map; auto.
    - apply IH; auto.
  Qed.
  Lemma nodup_map_filter (p : A -> bool) l : NoDup (map idf l) -> NoDup (map idf (filter p l)).
  Proof.
    induction l as [|y r IH]; simpl; intros Hn; auto.
    inversion Hn; subst. destruct (p y); simpl; auto.
    constructor; auto. intros Hin. apply H1. apply in_map_iff in Hin. destruct Hin as [z [Hz Hin]].
    apply filter_In in Hin. apply in_map_iff. exists z. tauto.
  Qed.

End Ids.

Section Lists.
  Context {A B : Type}.

  Lemma nodup_app_intro (a b : list B) : NoDup a -> NoDup b -> (forall x, In x a -> ~ In x b) -> NoDup (a ++ b).
  Proof.
    induction a as [|y r IH]; simpl; intros Ha Hb Hd; auto.
    inversion Ha; subst. constructor.
    - rewrite in_app_iff. intros [H|H]; [auto|]. eapply Hd; eauto.
    - apply IH; auto.
  Qed.
  Lemma nodup_app_l (a b : list B) : NoDup (a ++ b) -> NoDup a.
  Proof. induction a as [|y r IH]; simpl; intros H; [constructor|]. inversion H; subst. constructor; [|auto]. intros Hi. apply H2. apply in_app_iff; auto. Qed.
  Lemma nodup_app_r (a b : list B) : NoDup (a ++ b) -> NoDup b.
  Proof. induction a as [|y r IH]; simpl; intros H; auto. inversion H; subst; auto. Qed.
  Lemma nodup_app_disj (a b : list B) x : NoDup (a ++ b) -> In x a -> ~ In x b.
  Proof.
    induction a as [|y r IH]; simpl; intros H Hi Hb; [destruct Hi|]. destruct Hi as [E|Hi].
    - subst. inversion H; subst. apply H2. apply in_app_iff; auto.
    - inversion H; subst. eapply IH; eauto.
  Qed.

  Variable keyf : A -> list B.
  Lemma flat_map_map_same (f : A -> A) l : (forall x, In x l -> keyf (f x) = keyf x) -> flat_map keyf (map f l) = flat_map keyf l.
  Proof. induction l as [|x r IH]; simpl; intros H; auto. rewrite H by auto. rewrite IH; auto. Qed.
  Lemma in_flat_filter (p : A -> bool) l j : In j (flat_map keyf (filter p l)) -> In j (flat_map keyf l).
  Proof. rewrite !in_flat_map. intros [x [Hx Hj]]. apply filter_In in Hx. exists x; tauto. Qed.
  Lemma nodup_flat_filter (p : A -> bool) l : NoDup (flat_map keyf l) -> NoDup (flat_map keyf (filter p l)).
  Proof.
    induction l as [|x r IH]; simpl; intros H; auto.
    destruct (p x); simpl.
    - apply nodup_app_intro; [eapply nodup_app_l; eauto | apply IH; eapply nodup_app_r; eauto |].
      intros j Hj Hj'. apply in_flat_filter in Hj'. eapply nodup_app_disj; eauto.
    - apply IH. eapply nodup_app_r; eauto.
  Qed.

  Variable idf : A -> Z.
  Lemma nodup_snoc (l : list B) x : NoDup l -> ~ In x l -> NoDup (l ++ [x]).
  Proof. intros. apply nodup_app_intro; auto. - constructor; [intros []|constructor]. - intros y Hy [E|[]]. subst. auto. Qed.
  (* publication: one row (identified by its id) starts exposing the key k, which nobody exposes yet *)
  Lemma pub_keys (f : A -> A) (id : Z) (k : B) l :
    NoDup (map idf l) -> NoDup (flat_map keyf l) -> ~ In k (flat_map keyf l) ->
    (forall x, keyf (f x) = keyf x \/ (idf x = id /\ keyf x = [] /\ keyf (f x) = [k])) ->
    NoDup (flat_map keyf (map f l)) /\ (forall j, In j (flat_map keyf (map f l)) -> In j (flat_map keyf l) \/ j = k).
  Proof.
    intros Hid Hk Hnk Hf. induction l as [|x r IH]; simpl; [split; [constructor|intros j []]|].
    simpl in *. inversion Hid as [|? ? Hx Hr]; subst.
    assert (Hkr : ~ In k (flat_map keyf r)) by (intros H; apply Hnk; apply in_app_iff; auto).
    destruct (IH Hr (nodup_app_r _ _ Hk) Hkr) as [IH1 IH2].
    destruct (Hf x) as [E|[Ei [E0 Ek]]].
    - rewrite E. split.
      + apply nodup_app_intro; [eapply nodup_app_l; eauto|exact IH1|].
        intros j Hj Hj'. destruct (IH2 j Hj') as [H|H].
        * eapply nodup_app_disj; eauto.
        * subst. apply Hnk. apply in_app_iff; auto.
      + intros j Hj. apply in_app_iff in Hj. destruct Hj as [Hj|Hj]; [left; apply in_app_iff; auto|].
        destruct (IH2 j Hj); [left; apply in_app_iff; auto|auto].
    - assert (Hs : flat_map keyf (map f r) = flat_map keyf r).
      { apply flat_map_map_same. intros y Hy. destruct (Hf y) as [E|[Ey _]]; auto.
        exfalso. apply Hx. rewrite Ei, <- Ey. apply in_map; auto. }
      rewrite Ek, Hs, E0 in *. simpl. split.
      + constructor; auto.
      + intros j [Hj|Hj]; auto.
  Qed.
End Lists.

(* sorted lists of integers *)
Lemma sorted_app (a b : list Z) : StronglySorted Z.lt a -> StronglySorted Z.lt b -> (forall x y, In x a -> In y b -> x < y) -> StronglySorted Z.lt (a ++ b).
Proof.
  induction a as [|x r IH]; simpl; intros Ha Hb H; auto.
  inversion Ha; subst. constructor; [apply IH; auto|].
  apply Forall_app. split; auto. apply Forall_forall. intros y Hy. apply H; auto.
Qed.
Lemma sorted_nodup (l : list Z) : StronglySorted Z.lt l -> NoDup l.
Proof. induction 1 as [|x r Hs IH Hf]; constructor; [|exact IH]. intros Hin. rewrite Forall_forall in Hf. specialize (Hf x Hin). lia. Qed.
Lemma sorted_map_filter {A} (idf : A -> Z) (p : A -> bool) l : StronglySorted Z.lt (map idf l) -> StronglySorted Z.lt (map idf (filter p l)).
Proof.
  induction l as [|x r IH]; simpl; intros H; auto. inversion H; subst.
  destruct (p x); simpl; auto. constructor; auto.
  apply Forall_forall. intros y Hy. apply in_map_iff in Hy. destruct Hy as [z [Hz Hy]]. apply filter_In in Hy.
  rewrite Forall_forall in H3. apply H3. apply in_map_iff. exists z; tauto.
Qed.

(* ---------------------------------------------------------------- the transactions table *)
(* the reference a row holds in the unique index (ledger, reference) where reference <> '' *)
Definition tkeys (t : trow) : list string := if t_pend t || String.eqb (t_ref t) "" then [] else [t_ref t].

(* how one store call changes (transactions, transaction_id sequence, reverted targets) *)
Inductive tevo : list trow -> Z -> list Z -> list trow -> Z -> list Z -> Prop :=
| te_refl l n r : tevo l n r l n r
| te_app l n r row : t_id row = n -> t_pend row = true -> t_rev row = false -> t_revlock row = None -> tevo l n r (l ++ [row]) (n + 1) r
| te_map l n r f :
    (forall x, t_id (f x) = t_id x /\ tkeys (f x) = tkeys x /\ t_rev (f x) = t_rev x /\
               (t_revlock (f x) = t_revlock x \/ t_revlock (f x) = None \/ t_rev x = false)) -> tevo l n r (map f l) n r
| te_filter l n r p : tevo l n r (filter p l) n r
| te_pub l n r f id k :
    (forall x, t_id (f x) = t_id x /\ t_rev (f x) = t_rev x /\ t_revlock (f x) = t_revlock x) ->
    (forall x, tkeys (f x) = tkeys x \/ (t_id x = id /\ tkeys x = [] /\ tkeys (f x) = [k])) ->
    ~ In k (flat_map tkeys l) -> tevo l n r (map f l) n r
| te_commit l n r w : tevo l n r (map (t_commit w) l) n (r ++ map t_id (filter (fun t => owner_is (t_revlock t) w) l))
| te_trans l1 n1 r1 l2 n2 r2 l3 n3 r3 : tevo l1 n1 r1 l2 n2 r2 -> tevo l2 n2 r2 l3 n3 r3 -> tevo l1 n1 r1 l3 n3 r3.

Record tx_ok (l : list trow) (n : Z) (r : list Z) : Prop := {
  tx_ids : NoDup (map t_id l);
  tx_below : Forall (fun t => t_id t < n) l;
  tx_keys : NoDup (flat_map tkeys l);                                   (* C14: unique index on non-empty references *)
  tx_revs : NoDup r;                                                    (* C15: a transaction is reverted at most once *)
  tx_revs_below : Forall (fun i => i < n) r;
  tx_rev_marked : forall t, In t l -> In (t_id t) r -> t_rev t = true;
  tx_lock_unrev : forall t, In t l -> t_revlock t <> None -> t_rev t = false }.

Lemma owner_is_true o w : owner_is o w = true -> o = Some w.
Proof. destruct o as [x|]; simpl; [|discriminate]. intros H. apply Nat.eqb_eq in H. subst; auto. Qed.

Lemma tevo_ok l n r l' n' r' : tevo l n r l' n' r' -> tx_ok l n r -> tx_ok l' n' r'.
Proof.
  induction 1 as [l n r|l n r row Hi Hp Hrv Hrl|l n r f Hf|l n r p|l n r f id k Hf Hk Hnk|l n r w|l1 n1 r1 l2 n2 r2 l3 n3 r3 _ IH1 _ IH2]; intros [A B C D E F G].
  - split; auto.
  - (* fresh row *)
    assert (Hfresh : ~ In (t_id row) (map t_id l)).
    { intros Hin. apply in_map_iff in Hin. destruct Hin as [z [Hz Hin]]. rewrite Forall_forall in B. specialize (B z Hin). lia. }
    split.
    + rewrite map_app. simpl. apply nodup_snoc; auto.
    + apply Forall_app. split; [eapply Forall_impl; [|exact B]; simpl; intros; lia|constructor; [lia|constructor]].
    + rewrite flat_map_app. simpl. unfold tkeys at 2. rewrite Hp. simpl. rewrite app_nil_r. exact C.
    + exact D.
    + eapply Forall_impl; [|exact E]. simpl; intros; lia.
    + intros t Ht Hr. apply in_app_iff in Ht. destruct Ht as [Ht|[Ht|[]]]; auto. subst.
      rewrite Forall_forall in E. specialize (E _ Hr). lia.
    + intros t Ht Hl. apply in_app_iff in Ht. destruct Ht as [Ht|[Ht|[]]]; auto. subst. exact Hrv.
  - (* neutral rewrite *)
    split; auto.
    + rewrite map_map. erewrite map_ext; [exact A|]. intros; apply Hf.
    + apply Forall_forall. intros x Hx. apply in_map_iff in Hx. destruct Hx as [z [Hz Hin]]. subst.
      destruct (Hf z) as [-> _]. rewrite Forall_forall in B; auto.
    + rewrite flat_map_map_same; auto. intros; apply Hf.
    + intros t Ht Hr. apply in_map_iff in Ht. destruct Ht as [z [Hz Hin]]. subst. destruct (Hf z) as [E1 [_ [E3 _]]].
      rewrite E3. apply F; auto. rewrite <- E1; auto.
    + intros t Ht Hl. apply in_map_iff in Ht. destruct Ht as [z [Hz Hin]]. subst. destruct (Hf z) as [_ [_ [E3 [E4|[E4|E4]]]]]; rewrite E3.
      * apply G; auto. rewrite <- E4; auto.
      * contradiction.
      * exact E4.
  - (* removal *)
    split; auto.
    + apply nodup_map_filter; auto.
    + apply Forall_forall. intros x Hx. apply filter_In in Hx. rewrite Forall_forall in B. apply B; tauto.
    + apply nodup_flat_filter; auto.
    + intros t Ht. apply filter_In in Ht. apply F; tauto.
    + intros t Ht. apply filter_In in Ht. apply G; tauto.
  - (* publication *)
    split; auto.
    + rewrite map_map. erewrite map_ext; [exact A|]. intros; apply Hf.
    + apply Forall_forall. intros x Hx. apply in_map_iff in Hx. destruct Hx as [z [Hz Hin]]. subst.
      destruct (Hf z) as [-> _]. rewrite Forall_forall in B; auto.
    + eapply (pub_keys tkeys t_id f id k); eauto.
    + intros t Ht Hr. apply in_map_iff in Ht. destruct Ht as [z [Hz Hin]]. subst. destruct (Hf z) as [E1 [E3 _]].
      rewrite E3. apply F; auto. rewrite <- E1; auto.
    + intros t Ht Hl. apply in_map_iff in Ht. destruct Ht as [z [Hz Hin]]. subst. destruct (Hf z) as [_ [E3 E4]]. rewrite E3.
      apply G; auto. rewrite <- E4; auto.
  - (* commit of w: its rows become visible, its revert marks are set *)
    set (new := map t_id (filter (fun t => owner_is (t_revlock t) w) l)).
    assert (Hnew : forall i, In i new -> exists t, In t l /\ t_revlock t = Some w /\ t_id t = i).
    { intros i Hi. apply in_map_iff in Hi. destruct Hi as [t [Ht Hi]]. apply filter_In in Hi. destruct Hi as [Hi Ho].
      exists t. split; auto. split; auto. apply owner_is_true; auto. }
    split.
    + rewrite map_map. simpl. exact A.
    + apply Forall_forall. intros x Hx. apply in_map_iff in Hx. destruct Hx as [z [Hz Hin]]. subst. simpl.
      rewrite Forall_forall in B; auto.
    + rewrite flat_map_map_same; auto.
    + apply nodup_app_intro; auto.
      * apply nodup_map_filter; auto.
      * intros i Hi Hn. destruct (Hnew i Hn) as [t [Ht [Hl Hid]]]. subst i.
        assert (t_rev t = true) by (apply F; auto). assert (t_rev t = false) by (apply G; auto; congruence). congruence.
    + apply Forall_app. split; auto. apply Forall_forall. intros i Hi. destruct (Hnew i Hi) as [t [Ht [_ Hid]]]. subst i.
      rewrite Forall_forall in B; auto.
    + intros t Ht Hr. apply in_map_iff in Ht. destruct Ht as [z [Hz Hin]]. subst. simpl in *.
      apply in_app_iff in Hr. destruct Hr as [Hr|Hr].
      * rewrite (F z Hin Hr). destruct (owner_is _ _); auto.
      * destruct (Hnew _ Hr) as [t [Ht [Hl Hid]]].
        assert (t = z) by (eapply (nodup_map_inj t_id); eauto). subst. rewrite Hl. simpl. rewrite Nat.eqb_refl. reflexivity.
    + intros t Ht Hl. apply in_map_iff in Ht. destruct Ht as [z [Hz Hin]]. subst. simpl in *.
      destruct (owner_is (t_revlock z) w); [contradiction|]. apply G; auto.
  - apply IH2. apply IH1. split; auto.
Qed.

Definition txv (g : gst) := (g_txs g, g_ntx g, g_revs g).
Definition tev (g g' : gst) : Prop := tevo (g_txs g) (g_ntx g) (g_revs g) (g_txs g') (g_ntx g') (g_revs g').
Lemma tev_same g g' : g_txs g' = g_txs g -> g_ntx g' = g_ntx g -> g_revs g' = g_revs g -> tev g g'.
Proof. unfold tev. intros -> -> ->. apply te_refl. Qed.
Lemma tev_trans g1 g2 g3 : tev g1 g2 -> tev g2 g3 -> tev g1 g3.
Proof. unfold tev. intros. eapply te_trans; eauto. Qed.

Lemma tkeys_release w x : tkeys (t_release w x) = tkeys x.
Proof. unfold t_release. destruct (owner_is _ _); reflexivity. Qed.

Lemma tev_abort g w : tev g (abort g w).
Proof.
  unfold tev, abort; simpl. eapply te_trans; [apply te_filter|apply te_map].
  intros x. unfold t_release. destruct (owner_is (t_revlock x) w); simpl; repeat split; auto.
Qed.
Lemma tev_blocked g w h l : tev g (blocked g w h l).
Proof. unfold blocked. destruct (reaches _ _ _ _); [apply (tev_abort g w)|apply tev_same; reflexivity]. Qed.
Lemma tev_bal_done g w o r lk : tev g (bal_done g w o r lk).
Proof. unfold bal_done. brk; apply tev_same; reflexivity. Qed.

Lemma tev_vol_loop ks : forall g w i, tev g (vol_loop g w ks i).
Proof.
  induction ks as [|[k d] r IH]; simpl; intros g w i.
  - apply tev_same; reflexivity.
  - brk; try (eapply tev_trans; [|apply IH]; apply tev_same; reflexivity).
    eapply tev_trans; [|apply tev_blocked]. apply tev_same; reflexivity.
Qed.

Lemma tev_do_bal g w s : tev g (do_bal g w s).
Proof.
  unfold do_bal. brk;
    try (eapply tev_trans; [|apply tev_blocked]; apply tev_same; reflexivity);
    try (unfold ev; match goal with |- tev ?g (set_ev (bal_done ?g1 ?w ?o ?r ?lk) _) =>
           pose proof (tev_bal_done g1 w o r lk) as H; unfold tev in *; simpl in *; exact H end).
Qed.

Lemma find_none_keys (ref : string) l :
  find (fun t => String.eqb (t_ref t) ref && negb (t_pend t)) l = None -> ~ In ref (flat_map tkeys l).
Proof.
  intros Hf Hin. apply in_flat_map in Hin. destruct Hin as [t [Ht Hk]].
  pose proof (find_none _ _ Hf t Ht) as Hn. simpl in Hn. unfold tkeys in Hk.
  destruct (t_pend t); simpl in *; [contradiction|]. destruct (String.eqb (t_ref t) ""); [contradiction|].
  destruct Hk as [Hk|[]]. subst. rewrite String.eqb_refl in Hn. discriminate.
Qed.

Lemma t_publish_props id ref x : t_id (t_publish id ref x) = t_id x /\ t_rev (t_publish id ref x) = t_rev x /\ t_revlock (t_publish id ref x) = t_revlock x.
Proof. unfold t_publish. destruct (_ && _); simpl; auto. Qed.
Lemma t_publish_keys id ref x :
  tkeys (t_publish id ref x) = tkeys x \/ (t_id x = id /\ tkeys x = [] /\ tkeys (t_publish id ref x) = [ref]).
Proof.
  unfold t_publish. destruct ((t_id x =? id) && String.eqb (t_ref x) ref) eqn:E; [|left; reflexivity].
  apply andb_true_iff in E. destruct E as [E1 E2]. apply Z.eqb_eq in E1. apply String.eqb_eq in E2.
  unfold tkeys; simpl. destruct (t_pend x); simpl; [|left; reflexivity].
  destruct (String.eqb (t_ref x) ""); [left; reflexivity|]. right. subst. auto.
Qed.
Lemma t_publish_keys_empty id x : tkeys (t_publish id "" x) = tkeys x.
Proof.
  unfold t_publish. destruct ((t_id x =? id) && String.eqb (t_ref x) "") eqn:E; [|reflexivity].
  apply andb_true_iff in E. destruct E as [_ E2]. unfold tkeys; simpl. rewrite E2. rewrite !orb_true_r. reflexivity.
Qed.

(* the insert phase of do_tx from a state g1: publication of the pending row *)
Lemma tev_tx_insert_checked g1 (w : wid) id ref pc :
  find (fun t => String.eqb (t_ref t) ref && negb (t_pend t)) (g_txs g1) = None ->
  tev g1 (ev (upd_w (set_txs g1 (map (t_publish id ref) (g_txs g1))) w (fun s => wset_pc s pc)) w LTx SDone).
Proof.
  intros Hf. unfold tev; simpl. apply (te_pub _ _ _ _ id ref).
  - intros x. apply t_publish_props.
  - intros x. apply t_publish_keys.
  - apply find_none_keys; auto.
Qed.
Lemma tev_tx_insert_empty g1 (w : wid) id pc :
  tev g1 (ev (upd_w (set_txs g1 (map (t_publish id "") (g_txs g1))) w (fun s => wset_pc s pc)) w LTx SDone).
Proof.
  unfold tev; simpl. apply te_map. intros x. destruct (t_publish_props id "" x) as [A [B C]].
  repeat split; auto. apply t_publish_keys_empty.
Qed.

Lemma tev_do_tx g w s : tev g (do_tx g w s).
Proof.
  unfold do_tx. destruct (my_pending_tx g w) as [r0|] eqn:Hp.
  - destruct (String.eqb (t_ref r0) "") eqn:Er.
    + apply String.eqb_eq in Er. rewrite Er. apply tev_tx_insert_empty.
    + destruct (find _ (g_txs g)) as [t|] eqn:Hf.
      * destruct (t_own t); [apply tev_blocked|]. unfold ev, fail_abort. pose proof (tev_abort g w) as H. unfold tev in *; simpl in *; exact H.
      * apply tev_tx_insert_checked; auto.
  - set (row := {| t_id := g_ntx g; t_ref := tx_ref (w_op s); t_own := Some w; t_rev := false; t_revlock := None; t_pend := true |}).
    set (g1 := upd_w (set_ntx (set_txs g (g_txs g ++ [row])) (g_ntx g + 1)) w (fun s0 => wset_txid s0 (Some (g_ntx g)))).
    assert (Hd : tev g g1) by (unfold tev, g1; simpl; apply te_app; reflexivity).
    eapply tev_trans; [exact Hd|]. simpl.
    destruct (String.eqb (tx_ref (w_op s)) "") eqn:Er.
    + apply String.eqb_eq in Er. rewrite Er. apply (tev_tx_insert_empty g1).
    + match goal with |- context [find ?p ?l] => destruct (find p l) as [t|] eqn:Hf end.
      * destruct (t_own t); [apply (tev_blocked g1)|]. unfold ev, fail_abort. pose proof (tev_abort g1 w) as H. unfold tev in *; simpl in *; exact H.
      * apply (tev_tx_insert_checked g1); auto.
Qed.

Lemma tev_do_log g w s : tev g (do_log g w s).
Proof.
  unfold do_log. destruct (g_hash g && negb (owner_is (g_adv g) w)); [apply tev_same; reflexivity|].
  destruct (my_pending_log g w); brk; try (apply tev_same; reflexivity);
    try (match goal with |- tev ?g (blocked ?g1 ?w ?h ?l) => pose proof (tev_blocked g1 w h l) as H; unfold tev in *; simpl in *; exact H end);
    try (match goal with |- tev ?g (ev (fail_abort ?g1 ?w ?e) _ _ _) => pose proof (tev_abort g1 w) as H; unfold tev in *; simpl in *; exact H end).
Qed.

Lemma step_tev g w : tev g (step g w).
Proof.
  unfold step. destruct (get_w g w) as [s|]; [|apply tev_same; reflexivity].
  destruct (w_pc s).
  - unfold do_ik. brk; apply tev_same; reflexivity.
  - unfold do_rev. brk; try (apply tev_blocked); try (apply tev_same; reflexivity).
    unfold tev; simpl. apply te_map. intros x.
    destruct ((t_id x =? o_tx (w_op s)) && _ && negb (t_rev x) && _) eqn:E; simpl; repeat split; auto.
    apply andb_true_iff in E. destruct E as [E _]. apply andb_true_iff in E. destruct E as [_ E].
    right; right. destruct (t_rev x); [discriminate|reflexivity].
  - apply tev_do_bal.
  - apply tev_vol_loop.
  - apply tev_do_tx.
  - unfold do_adv. brk; try (apply tev_blocked); apply tev_same; reflexivity.
  - apply tev_do_log.
  - unfold do_commit, tev; simpl. apply te_commit.
  - unfold do_rollback. pose proof (tev_abort g w) as H. brk; unfold tev in *; simpl in *; exact H.
  - unfold do_fetch. brk; apply tev_same; reflexivity.
  - apply tev_same; reflexivity.
Qed.

Definition tx_inv (g : gst) : Prop := tx_ok (g_txs g) (g_ntx g) (g_revs g).
Lemma step_tx_inv g w : tx_inv g -> tx_inv (step g w).
Proof. intros H. eapply tevo_ok; [apply step_tev|exact H]. Qed.
Theorem tx_inv_all_schedules g sched : tx_inv g -> tx_inv (run g sched).
Proof. apply run_inv. apply step_tx_inv. Qed.

(* ---------------------------------------------------------------- the logs table, its sequence, the advisory lock *)
Definition lkeys (l : lrow) : list string := if l_pend l || String.eqb (l_ik l) "" then [] else [l_ik l].

(* how one store call changes (logs, log_id sequence, advisory-lock holder, log ids in commit order); hash = HASH_LOGS is SYNC *)
Inductive levo (hash : bool) : list lrow -> Z -> option wid -> list Z -> list lrow -> Z -> option wid -> list Z -> Prop :=
| le_refl l n a c : levo hash l n a c l n a c
| le_draw l n a c w row : (hash = true -> a = Some w) -> l_id row = n -> l_pend row = true -> l_own row = Some w ->
    levo hash l n a c (l ++ [row]) (n + 1) a c
| le_pub l n a c f id k :
    (forall x, l_id (f x) = l_id x /\ l_own (f x) = l_own x) ->
    (forall x, lkeys (f x) = lkeys x \/ (l_id x = id /\ lkeys x = [] /\ lkeys (f x) = [k])) ->
    ~ In k (flat_map lkeys l) -> levo hash l n a c (map f l) n a c
| le_map l n a c f : (forall x, l_id (f x) = l_id x /\ l_own (f x) = l_own x /\ lkeys (f x) = lkeys x) -> levo hash l n a c (map f l) n a c
| le_commit l n a c w :
    levo hash l n a c (map (l_commit w) l) n (if owner_is a w then None else a) (c ++ map l_id (filter (fun x => owner_is (l_own x) w) l))
| le_abort l n a c w :
    levo hash l n a c (filter (fun x => negb (owner_is (l_own x) w)) l) n (if owner_is a w then None else a) c
| le_acquire l n c w : levo hash l n None c l n (Some w) c
| le_trans l1 n1 a1 c1 l2 n2 a2 c2 l3 n3 a3 c3 :
    levo hash l1 n1 a1 c1 l2 n2 a2 c2 -> levo hash l2 n2 a2 c2 l3 n3 a3 c3 -> levo hash l1 n1 a1 c1 l3 n3 a3 c3.

Record log_ok (hash : bool) (l : list lrow) (n : Z) (a : option wid) (c : list Z) : Prop := {
  lg_sorted : StronglySorted Z.lt (map l_id l);                         (* ids in insertion order: unique *)
  lg_below : Forall (fun x => l_id x < n) l;
  lg_keys : NoDup (flat_map lkeys l);                                   (* C13: unique index on idempotency keys *)
  (* C16, with the advisory lock taken before nextval: *)
  lg_order : hash = true -> StronglySorted Z.lt c;
  lg_cbelow : hash = true -> Forall (fun i => i < n) c;
  lg_holder : hash = true -> forall x w, In x l -> l_own x = Some w -> a = Some w /\ Forall (fun i => i < l_id x) c }.

Lemma sorted_snoc (l : list Z) x : StronglySorted Z.lt l -> Forall (fun y => y < x) l -> StronglySorted Z.lt (l ++ [x]).
Proof.
  intros Hs Hf. apply sorted_app; auto.
  - constructor; constructor.
  - intros a b Ha [Hb|[]]. subst. rewrite Forall_forall in Hf. auto.
Qed.

Lemma levo_ok hash l n a c l' n' a' c' : levo hash l n a c l' n' a' c' -> log_ok hash l n a c -> log_ok hash l' n' a' c'.
Proof.
  induction 1 as [l n a c|l n a c w row Hg Hi Hp Ho|l n a c f id k Hf Hk Hnk|l n a c f Hf|l n a c w|l n a c w|l n c w|
                  l1 n1 a1 c1 l2 n2 a2 c2 l3 n3 a3 c3 _ IH1 _ IH2]; intros [A B C D E F].
  - split; auto.
  - (* nextval + pending row *)
    split.
    + rewrite map_app. simpl. apply sorted_snoc; auto. apply Forall_forall. intros y Hy. apply in_map_iff in Hy.
      destruct Hy as [z [Hz Hy]]. subst. rewrite Forall_forall in B. specialize (B z Hy). lia.
    + apply Forall_app. split; [eapply Forall_impl; [|exact B]; simpl; intros; lia|constructor; [lia|constructor]].
    + rewrite flat_map_app. simpl. unfold lkeys at 2. rewrite Hp. simpl. rewrite app_nil_r. exact C.
    + exact D.
    + intros H. eapply Forall_impl; [|exact (E H)]. simpl; intros; lia.
    + intros H x w0 Hx Hw. apply in_app_iff in Hx. destruct Hx as [Hx|[Hx|[]]]; [eapply F; eauto|].
      subst x. rewrite Ho in Hw. inversion Hw; subst w0. split; [auto|]. rewrite Hi. exact (E H).
  - (* publication *)
    split; auto.
    + rewrite map_map. erewrite map_ext; [exact A|]. intros; apply Hf.
    + apply Forall_forall. intros x Hx. apply in_map_iff in Hx. destruct Hx as [z [Hz Hin]]. subst.
      destruct (Hf z) as [-> _]. rewrite Forall_forall in B; auto.
    + eapply (pub_keys lkeys l_id f id k); eauto. apply sorted_nodup; auto.
    + intros H x w0 Hx Hw. apply in_map_iff in Hx. destruct Hx as [z [Hz Hin]]. subst x. destruct (Hf z) as [E1 E2].
      rewrite E1. rewrite E2 in Hw. eapply F; eauto.
  - (* neutral rewrite *)
    split; auto.
    + rewrite map_map. erewrite map_ext; [exact A|]. intros; apply Hf.
    + apply Forall_forall. intros x Hx. apply in_map_iff in Hx. destruct Hx as [z [Hz Hin]]. subst.
      destruct (Hf z) as [-> _]. rewrite Forall_forall in B; auto.
    + rewrite flat_map_map_same; auto. intros; apply Hf.
    + intros H x w0 Hx Hw. apply in_map_iff in Hx. destruct Hx as [z [Hz Hin]]. subst x. destruct (Hf z) as [E1 [E2 _]].
      rewrite E1. rewrite E2 in Hw. eapply F; eauto.
  - (* commit of w *)
    remember (map l_id (filter (fun x => owner_is (l_own x) w) l)) as new eqn:Enew.
    assert (Hnew : forall i, In i new -> exists x, In x l /\ l_own x = Some w /\ l_id x = i).
    { intros i Hi. rewrite Enew in Hi. apply in_map_iff in Hi. destruct Hi as [x [Hx Hi]]. apply filter_In in Hi. destruct Hi as [Hi Ho].
      exists x. split; auto. split; auto. apply owner_is_true; auto. }
    split.
    + rewrite map_map. simpl. exact A.
    + apply Forall_forall. intros x Hx. apply in_map_iff in Hx. destruct Hx as [z [Hz Hin]]. subst. simpl. rewrite Forall_forall in B; auto.
    + rewrite flat_map_map_same; auto.
    + intros H. apply sorted_app; [auto|rewrite Enew; apply sorted_map_filter; auto|].
      intros x y Hx Hy. destruct (Hnew y Hy) as [z [Hz [Ho Hid]]]. subst y. destruct (F H z w Hz Ho) as [_ Hlt].
      rewrite Forall_forall in Hlt. auto.
    + intros H. apply Forall_app. split; auto. apply Forall_forall. intros i Hi. destruct (Hnew i Hi) as [z [Hz [_ Hid]]]. subst i.
      rewrite Forall_forall in B; auto.
    + intros H x w0 Hx Hw. apply in_map_iff in Hx. destruct Hx as [z [Hz Hin]]. subst x. simpl in *.
      destruct (owner_is (l_own z) w) eqn:Eo; [discriminate|].
      destruct (F H z w0 Hin Hw) as [Ha Hlt]. subst a.
      assert (Hne : new = []).
      { clear Enew. destruct new as [|i rest]; auto. exfalso. destruct (Hnew i) as [y [Hy [Hoy _]]]; [left; auto|].
        destruct (F H y w Hy Hoy) as [Ha _]. inversion Ha; subst. rewrite Hw in Eo. simpl in Eo. rewrite Nat.eqb_refl in Eo. discriminate. }
      rewrite Hne, app_nil_r. split; auto.
      assert (w0 <> w). { intros ->. rewrite Hw in Eo. simpl in Eo. rewrite Nat.eqb_refl in Eo. discriminate. }
      simpl. destruct (Nat.eqb w0 w) eqn:En; auto. apply Nat.eqb_eq in En. contradiction.
  - (* abort of w *)
    split; auto.
    + apply sorted_map_filter; auto.
    + apply Forall_forall. intros x Hx. apply filter_In in Hx. rewrite Forall_forall in B. apply B; tauto.
    + apply nodup_flat_filter; auto.
    + intros H x w0 Hx Hw. apply filter_In in Hx. destruct Hx as [Hx Hn].
      destruct (F H x w0 Hx Hw) as [Ha Hlt]. subst a. split; auto.
      rewrite Hw in Hn. simpl in *. destruct (Nat.eqb w0 w); [discriminate|reflexivity].
  - (* the advisory lock is taken: it was free, so nobody has a log in flight *)
    split; auto.
    intros H x w0 Hx Hw. destruct (F H x w0 Hx Hw) as [Ha _]. discriminate.
  - apply IH2. apply IH1. split; auto.
Qed.

Definition lev (g g' : gst) : Prop :=
  levo (g_hash g) (g_logs g) (g_nlog g) (g_adv g) (g_clogs g) (g_logs g') (g_nlog g') (g_adv g') (g_clogs g') /\ g_hash g' = g_hash g.
Lemma lev_same g g' : g_logs g' = g_logs g -> g_nlog g' = g_nlog g -> g_adv g' = g_adv g -> g_clogs g' = g_clogs g -> g_hash g' = g_hash g -> lev g g'.
Proof. unfold lev. intros -> -> -> -> ->. split; [apply le_refl|reflexivity]. Qed.
Lemma lev_trans g1 g2 g3 : lev g1 g2 -> lev g2 g3 -> lev g1 g3.
Proof. unfold lev. intros [H1 E1] [H2 E2]. split; [|congruence]. rewrite E1 in H2. eapply le_trans; eauto. Qed.

Lemma lev_abort g w : lev g (abort g w).
Proof. unfold lev, abort; simpl. split; [apply le_abort|reflexivity]. Qed.
Lemma lev_blocked g w h l : lev g (blocked g w h l).
Proof. unfold blocked. destruct (reaches _ _ _ _); [apply (lev_abort g w)|apply lev_same; reflexivity]. Qed.
Lemma lev_bal_done g w o r lk : lev g (bal_done g w o r lk).
Proof. unfold bal_done. brk; apply lev_same; reflexivity. Qed.
Lemma lev_vol_loop ks : forall g w i, lev g (vol_loop g w ks i).
Proof.
  induction ks as [|[k d] r IH]; simpl; intros g w i.
  - apply lev_same; reflexivity.
  - brk; try (eapply lev_trans; [|apply IH]; apply lev_same; reflexivity).
    eapply lev_trans; [|apply lev_blocked]. apply lev_same; reflexivity.
Qed.
Lemma lev_do_bal g w s : lev g (do_bal g w s).
Proof.
  unfold do_bal. brk;
    try (eapply lev_trans; [|apply lev_blocked]; apply lev_same; reflexivity);
    try (unfold ev; match goal with |- lev ?g (set_ev (bal_done ?g1 ?w ?o ?r ?lk) _) =>
           pose proof (lev_bal_done g1 w o r lk) as H; unfold lev in *; simpl in *; exact H end).
Qed.
Lemma lev_do_tx g w s : lev g (do_tx g w s).
Proof.
  unfold do_tx. destruct (my_pending_tx g w); brk; try (apply lev_same; reflexivity);
    try (match goal with |- lev ?g (blocked ?g1 ?w ?h ?l) => pose proof (lev_blocked g1 w h l) as H; unfold lev in *; simpl in *; exact H end);
    try (match goal with |- lev ?g (ev (fail_abort ?g1 ?w ?e) _ _ _) => pose proof (lev_abort g1 w) as H; unfold lev in *; simpl in *; exact H end).
Qed.

Lemma find_none_lkeys (ik : string) l :
  find (fun x => String.eqb (l_ik x) ik && negb (l_pend x)) l = None -> ~ In ik (flat_map lkeys l).
Proof.
  intros Hf Hin. apply in_flat_map in Hin. destruct Hin as [t [Ht Hk]].
  pose proof (find_none _ _ Hf t Ht) as Hn. simpl in Hn. unfold lkeys in Hk.
  destruct (l_pend t); simpl in *; [contradiction|]. destruct (String.eqb (l_ik t) ""); [contradiction|].
  destruct Hk as [Hk|[]]. subst. rewrite String.eqb_refl in Hn. discriminate.
Qed.
Lemma l_publish_props id ik x : l_id (l_publish id ik x) = l_id x /\ l_own (l_publish id ik x) = l_own x.
Proof. unfold l_publish. destruct (_ && _); simpl; auto. Qed.
Lemma l_publish_keys id ik x :
  lkeys (l_publish id ik x) = lkeys x \/ (l_id x = id /\ lkeys x = [] /\ lkeys (l_publish id ik x) = [ik]).
Proof.
  unfold l_publish. destruct ((l_id x =? id) && String.eqb (l_ik x) ik) eqn:E; [|left; reflexivity].
  apply andb_true_iff in E. destruct E as [E1 E2]. apply Z.eqb_eq in E1. apply String.eqb_eq in E2.
  unfold lkeys; simpl. destruct (l_pend x); simpl; [|left; reflexivity].
  destruct (String.eqb (l_ik x) ""); [left; reflexivity|]. right. subst. auto.
Qed.
Lemma l_publish_keys_empty id x : lkeys (l_publish id "" x) = lkeys x.
Proof.
  unfold l_publish. destruct ((l_id x =? id) && String.eqb (l_ik x) "") eqn:E; [|reflexivity].
  apply andb_true_iff in E. destruct E as [_ E2]. unfold lkeys; simpl. rewrite E2. rewrite !orb_true_r. reflexivity.
Qed.
Lemma lev_log_insert_checked g1 (w : wid) id ik :
  find (fun x => String.eqb (l_ik x) ik && negb (l_pend x)) (g_logs g1) = None ->
  lev g1 (ev (upd_w (set_logs g1 (map (l_publish id ik) (g_logs g1))) w (fun s => wset_pc s PCommit)) w LLog SDone).
Proof.
  intros Hf. unfold lev; simpl. split; [|reflexivity]. apply (le_pub _ _ _ _ _ _ id ik).
  - intros x. apply l_publish_props.
  - intros x. apply l_publish_keys.
  - apply find_none_lkeys; auto.
Qed.
Lemma lev_log_insert_empty g1 (w : wid) id :
  lev g1 (ev (upd_w (set_logs g1 (map (l_publish id "") (g_logs g1))) w (fun s => wset_pc s PCommit)) w LLog SDone).
Proof.
  unfold lev; simpl. split; [|reflexivity]. apply le_map. intros x. destruct (l_publish_props id "" x) as [A B].
  repeat split; auto. apply l_publish_keys_empty.
Qed.

Lemma lev_do_log g w s : lev g (do_log g w s).
Proof.
  unfold do_log. destruct (g_hash g && negb (owner_is (g_adv g) w)) eqn:Hguard; [apply lev_same; reflexivity|].
  destruct (my_pending_log g w) as [r0|] eqn:Hp.
  - destruct (String.eqb (l_ik r0) "") eqn:Er.
    + apply String.eqb_eq in Er. rewrite Er. apply lev_log_insert_empty.
    + destruct (find _ (g_logs g)) as [t|] eqn:Hf.
      * destruct (l_own t); [apply lev_blocked|]. unfold ev, fail_abort. pose proof (lev_abort g w) as H. unfold lev in *; simpl in *; exact H.
      * apply lev_log_insert_checked; auto.
  - set (row := {| l_id := g_nlog g; l_ik := o_ik (w_op s); l_inh := o_inh (w_op s); l_own := Some w;
                   l_tx := match w_txid s with Some i => i | None => 0 end; l_pend := true |}).
    set (g1 := upd_w (set_nlog (set_logs g (g_logs g ++ [row])) (g_nlog g + 1)) w (fun s0 => wset_logid s0 (Some (g_nlog g)))).
    assert (Hd : lev g g1).
    { unfold lev, g1; simpl. split; [|reflexivity]. apply (le_draw _ _ _ _ _ w); try reflexivity.
      intros Hh. rewrite Hh in Hguard. simpl in Hguard. apply negb_false_iff in Hguard. apply owner_is_true; auto. }
    eapply lev_trans; [exact Hd|]. simpl.
    destruct (String.eqb (o_ik (w_op s)) "") eqn:Er.
    + apply String.eqb_eq in Er. rewrite Er. apply (lev_log_insert_empty g1).
    + match goal with |- context [find ?p ?l] => destruct (find p l) as [t|] eqn:Hf end.
      * destruct (l_own t); [apply (lev_blocked g1)|]. unfold ev, fail_abort. pose proof (lev_abort g1 w) as H. unfold lev in *; simpl in *; exact H.
      * apply (lev_log_insert_checked g1); auto.
Qed.

Lemma step_lev g w : lev g (step g w).
Proof.
  unfold step. destruct (get_w g w) as [s|]; [|apply lev_same; reflexivity].
  destruct (w_pc s).
  - unfold do_ik. brk; apply lev_same; reflexivity.
  - unfold do_rev. brk; try (apply lev_blocked); apply lev_same; reflexivity.
  - apply lev_do_bal.
  - apply lev_vol_loop.
  - apply lev_do_tx.
  - unfold do_adv. destruct (g_adv g) as [h|] eqn:Ha.
    + destruct (Nat.eqb h w); [apply lev_same; reflexivity|apply lev_blocked].
    + unfold lev; simpl. rewrite Ha. split; [apply le_acquire|reflexivity].
  - apply lev_do_log.
  - unfold do_commit, lev; simpl. split; [apply le_commit|reflexivity].
  - unfold do_rollback. pose proof (lev_abort g w) as H. brk; unfold lev in *; simpl in *; exact H.
  - unfold do_fetch. brk; apply lev_same; reflexivity.
  - apply lev_same; reflexivity.
Qed.

Definition log_inv (g : gst) : Prop := log_ok (g_hash g) (g_logs g) (g_nlog g) (g_adv g) (g_clogs g).
Lemma step_log_inv g w : log_inv g -> log_inv (step g w).
Proof. intros H. destruct (step_lev g w) as [H1 H2]. unfold log_inv. rewrite H2. eapply levo_ok; [exact H1|exact H]. Qed.
Theorem log_inv_all_schedules g sched : log_inv g -> log_inv (run g sched).
Proof. apply run_inv. apply step_log_inv. Qed.

(* ---------------------------------------------------------------- accounts_volumes: row locks (two-phase locking) *)
(* what ONE store call of writer w can do to the volumes table: insert a row for a key that has none, rewrite rows that are
   free or its own (never a row locked by somebody else), remove its own in-flight rows *)
Inductive vevo (w : wid) : list vrow -> list vrow -> Prop :=
| ve_refl l : vevo w l l
| ve_app l row : vfind l (v_key row) = None -> v_lock row = Some w -> vevo w l (l ++ [row])
| ve_map l f :
    (forall x, v_key (f x) = v_key x) ->
    (forall x h, v_lock x = Some h -> h <> w -> f x = x) ->
    (forall x, v_lock (f x) = None -> (v_pend (f x) = 0 /\ v_upd (f x) = false) \/ f x = x) ->
    (forall x, v_new x = false -> v_new (f x) = false) -> vevo w l (map f l)
| ve_filter l p : (forall x, p x = false -> v_new x = true /\ v_lock x = Some w) -> vevo w l (filter p l)
| ve_trans l1 l2 l3 : vevo w l1 l2 -> vevo w l2 l3 -> vevo w l1 l3.

Lemma ckey_eqb_eq a b : ckey_eqb a b = true <-> a = b.
Proof.
  destruct a as [a1 a2], b as [b1 b2]; unfold ckey_eqb; simpl.
  rewrite andb_true_iff, !String.eqb_eq. split; [intros [-> ->]; reflexivity | intros H; inversion H; auto].
Qed.
Lemma ckey_eqb_refl a : ckey_eqb a a = true.
Proof. apply ckey_eqb_eq; reflexivity. Qed.

Lemma vfind_key vs k r : vfind vs k = Some r -> v_key r = k /\ In r vs.
Proof. unfold vfind. intros H. apply find_some in H. destruct H as [Hi Hk]. apply ckey_eqb_eq in Hk. auto. Qed.

Lemma vfind_app_some vs k r row : vfind vs k = Some r -> vfind (vs ++ [row]) k = Some r.
Proof. unfold vfind. induction vs as [|x t IH]; simpl; [discriminate|]. destruct (ckey_eqb (v_key x) k); auto. Qed.
Lemma vfind_app_none vs k row : vfind vs k = None -> vfind (vs ++ [row]) k = if ckey_eqb (v_key row) k then Some row else None.
Proof. unfold vfind. induction vs as [|x t IH]; simpl; auto. destruct (ckey_eqb (v_key x) k); [discriminate|auto]. Qed.
Lemma vfind_map vs k f : (forall x, v_key (f x) = v_key x) -> vfind (map f vs) k = option_map f (vfind vs k).
Proof. intros Hk. unfold vfind. induction vs as [|x t IH]; simpl; auto. rewrite Hk. destruct (ckey_eqb (v_key x) k); auto. Qed.
Lemma vfind_filter vs k p r : vfind vs k = Some r -> p r = true -> vfind (filter p vs) k = Some r.
Proof.
  unfold vfind. induction vs as [|x t IH]; simpl; [discriminate|]. destruct (ckey_eqb (v_key x) k) eqn:E.
  - intros H Hp. inversion H; subst. rewrite Hp. simpl. rewrite E. reflexivity.
  - intros H Hp. destruct (p x); simpl; [rewrite E|]; auto.
Qed.

(* a row locked by another writer is not touched *)
Lemma vevo_frame w l l' : vevo w l l' -> forall k r h, vfind l k = Some r -> v_lock r = Some h -> h <> w -> vfind l' k = Some r.
Proof.
  induction 1 as [l|l row Hn Hl|l f Hk Ho Hu Hnw|l p Hp|l1 l2 l3 _ IH1 _ IH2]; intros k r h Hf Hlk Hne; auto.
  - apply vfind_app_some; auto.
  - rewrite vfind_map by auto. rewrite Hf. simpl. rewrite (Ho r h); auto.
  - apply vfind_filter; auto. destruct (p r) eqn:E; auto. destruct (Hp r E) as [_ H]. congruence.
  - eauto.
Qed.
(* unlocked rows carry no pending change *)
Definition unlocked_clean (l : list vrow) : Prop := forall r, In r l -> v_lock r = None -> v_pend r = 0 /\ v_upd r = false.
Lemma vevo_clean w l l' : vevo w l l' -> unlocked_clean l -> unlocked_clean l'.
Proof.
  induction 1 as [l|l row Hn Hl|l f Hk Ho Hu Hnw|l p Hp|l1 l2 l3 _ IH1 _ IH2]; intros U; auto.
  - intros r Hr Hlk. apply in_app_iff in Hr. destruct Hr as [Hr|[Hr|[]]]; [auto|]. subst. congruence.
  - intros r Hr Hlk. apply in_map_iff in Hr. destruct Hr as [x [Hx Hin]]. subst. destruct (Hu x Hlk) as [H|H]; auto.
    rewrite H in *. auto.
  - intros r Hr. apply filter_In in Hr. apply U; tauto.
Qed.
(* a committed row never disappears *)
Lemma vevo_exists w l l' : vevo w l l' -> forall k r, vfind l k = Some r -> v_new r = false -> exists r', vfind l' k = Some r' /\ v_new r' = false.
Proof.
  induction 1 as [l|l row Hn Hl|l f Hk Ho Hu Hnw|l p Hp|l1 l2 l3 _ IH1 _ IH2]; intros k r Hf Hnew; eauto.
  - exists r. split; auto. apply vfind_app_some; auto.
  - exists (f r). rewrite vfind_map by auto. rewrite Hf. simpl. auto.
  - exists r. split; auto. apply vfind_filter; auto. destruct (p r) eqn:E; auto. destruct (Hp r E) as [H _]. congruence.
  - destruct (IH1 k r Hf Hnew) as [r1 [H1 H2]]. eauto.
Qed.

Definition vev (w : wid) (g g' : gst) : Prop := vevo w (g_vols g) (g_vols g').
Lemma vev_same w g g' : g_vols g' = g_vols g -> vev w g g'.
Proof. unfold vev. intros ->. apply ve_refl. Qed.
Lemma vev_trans w g1 g2 g3 : vev w g1 g2 -> vev w g2 g3 -> vev w g1 g3.
Proof. unfold vev. intros. eapply ve_trans; eauto. Qed.

Lemma owner_is_other h w : h <> w -> owner_is (Some h) w = false.
Proof. intros H. simpl. apply Nat.eqb_neq; auto. Qed.

Lemma vev_abort g w : vev w g (abort g w).
Proof.
  unfold vev, abort; simpl. eapply ve_trans; [apply ve_filter|apply ve_map].
  - intros x Hx. apply negb_false_iff in Hx. apply andb_true_iff in Hx. destruct Hx as [H1 H2]. split; auto. apply owner_is_true; auto.
  - intros x. unfold v_release. destruct (owner_is _ _); reflexivity.
  - intros x h Hl Hne. unfold v_release. rewrite Hl, owner_is_other; auto.
  - intros x. unfold v_release. destruct (owner_is (v_lock x) w); simpl; auto.
  - intros x Hn. unfold v_release. destruct (owner_is _ _); simpl; auto.
Qed.
Lemma vev_blocked g w h l : vev w g (blocked g w h l).
Proof. unfold blocked. destruct (reaches _ _ _ _); [apply (vev_abort g w)|apply vev_same; reflexivity]. Qed.
Lemma vev_bal_done g w o r lk : vev w g (bal_done g w o r lk).
Proof. unfold bal_done. brk; apply vev_same; reflexivity. Qed.

Lemma free_for_other w x h : v_lock x = Some h -> h <> w -> free_for w x = false.
Proof. unfold free_for. intros -> H. apply Nat.eqb_neq; auto. Qed.

Lemma vevo_vtake w l k f :
  (forall x, v_key (f x) = v_key x) -> (forall x, v_lock (f x) = Some w) -> (forall x, v_new (f x) = v_new x) -> vevo w l (vtake l w k f).
Proof.
  intros Hk Hl Hn. unfold vtake. apply ve_map.
  - intros x. destruct (_ && _); auto.
  - intros x h Hx Hne. rewrite (free_for_other w x h); auto. rewrite andb_false_r. reflexivity.
  - intros x. destruct (_ && _); auto. rewrite Hl. discriminate.
  - intros x Hx. destruct (_ && _); auto. rewrite Hn; auto.
Qed.

Lemma vev_vol_loop ks : forall g w i, vev w g (vol_loop g w ks i).
Proof.
  induction ks as [|[k d] r IH]; simpl; intros g w i.
  - apply vev_same; reflexivity.
  - destruct (vfind (g_vols g) k) as [x|] eqn:Hf.
    + assert (Htake : vev w g (set_vols g (vtake (g_vols g) w k (fun x0 => {| v_key := v_key x0; v_bal := v_bal x0;
                 v_pend := if v_upd x0 then v_pend x0 else v_pend x0 + d; v_lock := Some w; v_new := v_new x0; v_upd := true |})))).
      { unfold vev; simpl. apply vevo_vtake; auto. }
      destruct (v_lock x) as [h|].
      * destruct (Nat.eqb h w).
        -- eapply vev_trans; [exact Htake|apply IH].
        -- eapply vev_trans; [|apply vev_blocked]. apply vev_same; reflexivity.
      * eapply vev_trans; [exact Htake|apply IH].
    + eapply vev_trans; [|apply IH]. unfold vev; simpl. apply ve_app; auto.
Qed.

Lemma vev_do_bal g w s : vev w g (do_bal g w s).
Proof.
  unfold do_bal. destruct (vfind (g_vols g) (src_key (w_op s))) as [x|] eqn:Hf.
  - brk;
    try (eapply vev_trans; [|apply vev_blocked]; apply vev_same; reflexivity);
    try (unfold ev; match goal with |- vev ?w ?g (set_ev (bal_done ?g1 ?w ?o ?r ?lk) _) =>
           apply (vev_trans w g g1); [|pose proof (vev_bal_done g1 w o r lk) as H; unfold vev in *; simpl in *; exact H] end;
         first [apply vev_same; reflexivity | unfold vev; simpl; apply vevo_vtake; auto]).
  - unfold ev. match goal with |- vev ?w ?g (set_ev (bal_done ?g1 ?w ?o ?r ?lk) _) =>
       apply (vev_trans w g g1); [|pose proof (vev_bal_done g1 w o r lk) as H; unfold vev in *; simpl in *; exact H] end.
    unfold vev; simpl. apply ve_app; auto.
Qed.

Lemma step_vev g w : vev w g (step g w).
Proof.
  unfold step. destruct (get_w g w) as [s|]; [|apply vev_same; reflexivity].
  destruct (w_pc s).
  - unfold do_ik. brk; apply vev_same; reflexivity.
  - unfold do_rev. brk; try (apply vev_blocked); apply vev_same; reflexivity.
  - apply vev_do_bal.
  - apply vev_vol_loop.
  - unfold do_tx. destruct (my_pending_tx g w); brk; try (apply vev_same; reflexivity);
      try (match goal with |- vev ?w ?g (blocked ?g1 ?w ?h ?l) => pose proof (vev_blocked g1 w h l) as H; unfold vev in *; simpl in *; exact H end);
      try (match goal with |- vev ?w ?g (ev (fail_abort ?g1 ?w ?e) _ _ _) => pose proof (vev_abort g1 w) as H; unfold vev in *; simpl in *; exact H end).
  - unfold do_adv. brk; try (apply vev_blocked); apply vev_same; reflexivity.
  - unfold do_log. destruct (g_hash g && negb (owner_is (g_adv g) w)); [apply vev_same; reflexivity|].
    destruct (my_pending_log g w); brk; try (apply vev_same; reflexivity);
      try (match goal with |- vev ?w ?g (blocked ?g1 ?w ?h ?l) => pose proof (vev_blocked g1 w h l) as H; unfold vev in *; simpl in *; exact H end);
      try (match goal with |- vev ?w ?g (ev (fail_abort ?g1 ?w ?e) _ _ _) => pose proof (vev_abort g1 w) as H; unfold vev in *; simpl in *; exact H end).
  - unfold do_commit, vev; simpl. apply ve_map.
    + intros x. unfold v_commit. destruct (owner_is _ _); reflexivity.
    + intros x h Hl Hne. unfold v_commit. rewrite Hl, owner_is_other; auto.
    + intros x. unfold v_commit. destruct (owner_is (v_lock x) w); simpl; auto.
    + intros x Hn. unfold v_commit. destruct (owner_is _ _); simpl; auto.
  - unfold do_rollback. pose proof (vev_abort g w) as H. brk; unfold vev in *; simpl in *; exact H.
  - unfold do_fetch. brk; apply vev_same; reflexivity.
  - apply vev_same; reflexivity.
Qed.

(* ---------------------------------------------------------------- writers: a step of w leaves the others alone *)
Lemma nth_upd_same {A} (l : list A) w f : nth_error (upd_nth l w f) w = option_map f (nth_error l w).
Proof. revert w. induction l as [|x r IH]; intros [|w]; simpl; auto. Qed.
Lemma nth_upd_other {A} (l : list A) w w0 f : w0 <> w -> nth_error (upd_nth l w f) w0 = nth_error l w0.
Proof. revert w w0. induction l as [|x r IH]; intros [|w] [|w0] H; simpl; auto; try congruence. Qed.
Lemma nth_clear ws h w : nth_error (clear_waits ws h) w = option_map (fun s => if owner_is (w_wait s) h then wset_wait s None else s) (nth_error ws w).
Proof. unfold clear_waits. apply nth_error_map. Qed.

Definition wcore (s : wst) := (w_op s, w_pc s, w_read s, w_locked s, w_norow s).
Definition wsev (w : wid) (ws ws' : list wst) : Prop :=
  forall w0, w0 <> w -> option_map wcore (nth_error ws' w0) = option_map wcore (nth_error ws w0).
(* wev: the other writers are untouched (up to their wake-up); fev: and no C06 record is added *)
Definition wev (w : wid) (g g' : gst) : Prop := wsev w (g_ws g) (g_ws g').
Definition fev (w : wid) (g g' : gst) : Prop := wsev w (g_ws g) (g_ws g') /\ g_c06 g' = g_c06 g.

Lemma wsev_refl w ws : wsev w ws ws.
Proof. intros w0 _. reflexivity. Qed.
Lemma wsev_trans w a b c : wsev w a b -> wsev w b c -> wsev w a c.
Proof. intros H1 H2 w0 Hn. rewrite H2, H1; auto. Qed.
Lemma wsev_upd w ws f : wsev w ws (upd_nth ws w f).
Proof. intros w0 Hn. rewrite nth_upd_other; auto. Qed.
Lemma wsev_clear w ws h : wsev w ws (clear_waits ws h).
Proof. intros w0 _. rewrite nth_clear. destruct (nth_error ws w0) as [s|]; simpl; auto. destruct (owner_is _ _); reflexivity. Qed.

Lemma fev_same w g g' : g_ws g' = g_ws g -> g_c06 g' = g_c06 g -> fev w g g'.
Proof. unfold fev. intros -> ->. split; [apply wsev_refl|reflexivity]. Qed.
Lemma fev_trans w g1 g2 g3 : fev w g1 g2 -> fev w g2 g3 -> fev w g1 g3.
Proof. unfold fev. intros [A B] [C D]. split; [eapply wsev_trans; eauto|congruence]. Qed.
Lemma fev_upd w g f : fev w g (upd_w g w f).
Proof. unfold fev, upd_w; simpl. split; [apply wsev_upd|reflexivity]. Qed.
Lemma fev_ev w g g' w1 l st : fev w g g' -> fev w g (ev g' w1 l st).
Proof. unfold fev, ev; simpl. auto. Qed.
Lemma fev_abort g w : fev w g (abort g w).
Proof. unfold fev, abort; simpl. split; [apply wsev_clear|reflexivity]. Qed.
Lemma fev_fail_abort g w e : fev w g (fail_abort g w e).
Proof. unfold fail_abort. eapply fev_trans; [apply fev_abort|apply fev_upd]. Qed.
Lemma fev_fail_soft g w e : fev w g (fail_soft g w e).
Proof. apply fev_upd. Qed.
Lemma fev_blocked g w h l : fev w g (blocked g w h l).
Proof. unfold blocked. destruct (reaches _ _ _ _); apply fev_ev; [apply fev_fail_abort|apply fev_upd]. Qed.
Lemma fev_bal_done g w o r lk : fev w g (bal_done g w o r lk).
Proof. unfold bal_done. brk; repeat (first [apply fev_upd | apply fev_fail_soft | eapply fev_trans; [apply fev_upd|]]). Qed.
Lemma fev_set_vols w g v : fev w g (set_vols g v).
Proof. apply fev_same; reflexivity. Qed.

Lemma fev_vol_loop ks : forall g w i, fev w g (vol_loop g w ks i).
Proof.
  induction ks as [|[k d] r IH]; simpl; intros g w i.
  - apply fev_ev. eapply fev_trans; [apply fev_upd|apply fev_same; reflexivity].
  - brk; try (eapply fev_trans; [apply fev_set_vols|apply IH]).
    eapply fev_trans; [apply fev_upd|apply fev_blocked].
Qed.

Lemma fev_do_bal g w s : fev w g (do_bal g w s).
Proof.
  unfold do_bal. brk;
    try (eapply fev_trans; [apply fev_upd|apply fev_blocked]);
    try (apply fev_ev; first [apply fev_bal_done | eapply fev_trans; [apply fev_set_vols|apply fev_bal_done]]).
Qed.

Lemma fev_ws w g g' : g_c06 g' = g_c06 g -> (exists f, g_ws g' = upd_nth (g_ws g) w f) -> fev w g g'.
Proof. intros Hc [f Hf]. unfold fev. rewrite Hf. split; [apply wsev_upd|exact Hc]. Qed.

Ltac fev_tac := repeat first [ apply fev_ev | apply fev_upd | apply fev_fail_soft | apply fev_fail_abort | apply fev_blocked
                             | apply fev_same; reflexivity | (apply fev_ws; [reflexivity|eexists; reflexivity]) ].

Lemma fev_do_tx g w s : fev w g (do_tx g w s).
Proof.
  unfold do_tx. destruct (my_pending_tx g w).
  - brk; fev_tac.
  - set (row := {| t_id := g_ntx g; t_ref := tx_ref (w_op s); t_own := Some w; t_rev := false; t_revlock := None; t_pend := true |}).
    set (g1 := upd_w (set_ntx (set_txs g (g_txs g ++ [row])) (g_ntx g + 1)) w (fun s0 => wset_txid s0 (Some (g_ntx g)))).
    assert (H1 : fev w g g1) by (unfold g1; fev_tac).
    brk; (eapply fev_trans; [exact H1|]); fev_tac.
Qed.
Lemma fev_do_log g w s : fev w g (do_log g w s).
Proof.
  unfold do_log. destruct (g_hash g && negb (owner_is (g_adv g) w)); [apply fev_same; reflexivity|].
  destruct (my_pending_log g w).
  - brk; fev_tac.
  - set (row := {| l_id := g_nlog g; l_ik := o_ik (w_op s); l_inh := o_inh (w_op s); l_own := Some w;
                   l_tx := match w_txid s with Some i => i | None => 0 end; l_pend := true |}).
    set (g1 := upd_w (set_nlog (set_logs g (g_logs g ++ [row])) (g_nlog g + 1)) w (fun s0 => wset_logid s0 (Some (g_nlog g)))).
    assert (H1 : fev w g g1) by (unfold g1; fev_tac).
    brk; (eapply fev_trans; [exact H1|]); fev_tac.
Qed.

(* every store call except COMMIT *)
Lemma step_fev g w s : get_w g w = Some s -> w_pc s <> PCommit -> fev w g (step g w).
Proof.
  intros Hs Hpc. unfold step. rewrite Hs. destruct (w_pc s); try congruence.
  - unfold do_ik. brk; fev_tac.
  - unfold do_rev. brk; fev_tac.
  - apply fev_do_bal.
  - apply fev_vol_loop.
  - apply fev_do_tx.
  - unfold do_adv. brk; fev_tac.
  - apply fev_do_log.
  - unfold do_rollback. brk; apply fev_ev; (eapply fev_trans; [apply fev_abort|apply fev_upd]).
  - unfold do_fetch. brk; fev_tac.
  - apply fev_same; reflexivity.
Qed.
Lemma commit_wev g w s : wev w g (do_commit g w s).
Proof. unfold wev, do_commit; simpl. eapply wsev_trans; [apply wsev_clear|apply wsev_upd]. Qed.
Lemma step_wev g w : wev w g (step g w).
Proof.
  unfold step. destruct (get_w g w) as [s|] eqn:Hs; [|apply wsev_refl].
  destruct (w_pc s) eqn:Hpc; try (assert (H : fev w g (step g w)) by (apply (step_fev g w s); auto; congruence);
    unfold step in H; rewrite Hs, Hpc in H; exact (proj1 H)).
  apply commit_wev.
Qed.

(* ---------------------------------------------------------------- C06: the two-phase-locking invariant *)
(* the critical section of a writer: from the statement after GetBalances to COMMIT *)
Definition crit (p : cpc) : bool := match p with PVol | PTx | PAdv | PLog | PCommit => true | _ => false end.
(* what UpdateVolumes adds to the balance of the source row *)
Definition src_delta (o : cop) : Z := if ckey_eqb (src_key o) (dst_key o) then 0 else - o_amt o.

(* writer w holds the lock of its source row; the committed balance of that row is still the one it read and checked;
   the only uncommitted change on it is its own debit *)
Definition Arow (vs : list vrow) (w : wid) (o : cop) (read a : Z) : Prop :=
  0 <= o_amt o /\ o_amt o <= read + a /\
  exists r, vfind vs (src_key o) = Some r /\ v_lock r = Some w /\ v_bal r = read /\
            (v_pend r = 0 \/ (v_upd r = true /\ v_pend r = src_delta o)).
Definition Jw (g : gst) (w : wid) : Prop :=
  forall s a, nth_error (g_ws g) w = Some s -> allowance (w_op s) = Some a -> w_locked s = true -> crit (w_pc s) = true ->
              Arow (g_vols g) w (w_op s) (w_read s) a.

Lemma Jw_same g g' w : g_vols g' = g_vols g -> g_ws g' = g_ws g -> Jw g w -> Jw g' w.
Proof. unfold Jw. intros -> ->. auto. Qed.
Lemma Jw_ev g w w1 l st : Jw g w -> Jw (ev g w1 l st) w.
Proof. apply Jw_same; reflexivity. Qed.
Lemma Jw_dead g w :
  (forall s, nth_error (g_ws g) w = Some s -> crit (w_pc s) = false \/ w_locked s = false \/ allowance (w_op s) = None) -> Jw g w.
Proof. intros H s a Hn Ha Hl Hc. destruct (H s Hn) as [E|[E|E]]; congruence. Qed.
Lemma Jw_upd g w f :
  Jw g w ->
  (forall s, nth_error (g_ws g) w = Some s ->
     w_op (f s) = w_op s /\ w_read (f s) = w_read s /\
     (crit (w_pc (f s)) = true -> w_locked (f s) = true -> allowance (w_op s) <> None -> crit (w_pc s) = true /\ w_locked s = true)) ->
  Jw (upd_w g w f) w.
Proof.
  intros HJ Hf s' a Hn Ha Hl Hc. simpl in Hn. rewrite nth_upd_same in Hn.
  destruct (nth_error (g_ws g) w) as [s|] eqn:Hs; simpl in Hn; [|discriminate]. inversion Hn; subst s'. clear Hn.
  destruct (Hf s eq_refl) as [E1 [E2 E3]]. rewrite E1 in *. rewrite E2.
  destruct (E3 Hc Hl) as [Hc' Hl']; [congruence|]. simpl. apply HJ; auto.
Qed.

Ltac upd_side := let s0 := fresh "s0" in let H0 := fresh "H0" in
  intros s0 H0; simpl; repeat split; auto; intros; try discriminate; try congruence.

Lemma Jw_fail_abort g w e : Jw (fail_abort g w e) w.
Proof.
  apply Jw_dead. intros s Hn. unfold fail_abort in Hn. simpl in Hn. rewrite nth_upd_same, nth_clear in Hn.
  destruct (nth_error (g_ws g) w); simpl in Hn; [|discriminate]. inversion Hn; subst. left. reflexivity.
Qed.
Lemma Jw_fail_soft g w e : Jw (fail_soft g w e) w.
Proof.
  apply Jw_dead. intros s Hn. unfold fail_soft in Hn. simpl in Hn. rewrite nth_upd_same in Hn.
  destruct (nth_error (g_ws g) w); simpl in Hn; [|discriminate]. inversion Hn; subst. left. reflexivity.
Qed.
Lemma Jw_blocked g w h l : Jw g w -> Jw (blocked g w h l) w.
Proof.
  intros HJ. unfold blocked. destruct (reaches _ _ _ _); apply Jw_ev; [apply Jw_fail_abort|].
  apply Jw_upd; auto; upd_side.
Qed.

Lemma after_ik_crit o : crit (after_ik o) = true -> allowance o = None.
Proof.
  unfold after_ik, has_bal. destruct (o_kind o); simpl; [|discriminate].
  destruct (allowance o); simpl; [discriminate|auto].
Qed.
Lemma start_pc_crit o b : crit (start_pc o b) = true -> allowance o = None.
Proof. unfold start_pc. destruct (_ && _); simpl; [discriminate|apply after_ik_crit]. Qed.

(* GetBalances took the lock (or inserted the row): the invariant is established *)
Lemma Jw_bal_done_locked g w s x :
  nth_error (g_ws g) w = Some s -> vfind (g_vols g) (src_key (w_op s)) = Some x -> v_lock x = Some w -> v_pend x = 0 ->
  Jw (bal_done g w (w_op s) (v_bal x) true) w.
Proof.
  intros Hs Hf Hl Hp. unfold bal_done. destruct (allowance (w_op s)) as [a|] eqn:Ha.
  - destruct ((0 <=? o_amt (w_op s)) && (o_amt (w_op s) <=? v_bal x + a)) eqn:Hchk; [|apply Jw_fail_soft].
    apply andb_true_iff in Hchk. destruct Hchk as [H1 H2]. apply Z.leb_le in H1, H2.
    intros s' a' Hn Ha' Hlk Hc. simpl in Hn. rewrite !nth_upd_same, Hs in Hn. simpl in Hn. inversion Hn; subst s'. simpl in *.
    rewrite Ha in Ha'. inversion Ha'; subst a'. split; [auto|split; [auto|]]. exists x. auto.
  - apply Jw_dead. intros s' Hn. simpl in Hn. rewrite !nth_upd_same, Hs in Hn. simpl in Hn. inversion Hn; subst s'. simpl. auto.
Qed.
Lemma Jw_bal_done_unlocked g w o r : Jw (bal_done g w o r false) w.
Proof.
  apply Jw_dead. intros s Hn. unfold bal_done in Hn.
  destruct (allowance o); [destruct (_ && _)|]; simpl in Hn; rewrite !nth_upd_same in Hn;
    destruct (nth_error (g_ws g) w); simpl in Hn; try discriminate; inversion Hn; subst; simpl; auto.
Qed.

Lemma vol_keys_src o k d : In (k, d) (vol_keys o) -> k = src_key o -> d = src_delta o.
Proof.
  unfold vol_keys, src_delta. destruct (ckey_eqb (src_key o) (dst_key o)) eqn:E.
  - intros [H|[]] _. inversion H; auto.
  - destruct (String.leb _ _); intros [H|[H|[]]] Hk; inversion H; subst; auto;
      rewrite H1 in E; rewrite ckey_eqb_refl in E; discriminate.
Qed.
Lemma in_skipn {A} (x : A) n l : In x (skipn n l) -> In x l.
Proof. revert l. induction n as [|n IH]; intros [|y r]; simpl; auto. Qed.

Lemma Jw_vol_loop ks : forall g w i s,
  nth_error (g_ws g) w = Some s -> w_pc s = PVol ->
  (forall k d, In (k, d) ks -> k = src_key (w_op s) -> d = src_delta (w_op s)) ->
  Jw g w -> Jw (vol_loop g w ks i) w.
Proof.
  induction ks as [|[k d] rest IH]; simpl; intros g w i s Hs Hpc Hks HJ.
  - apply Jw_ev. apply Jw_upd; auto. intros s0 H0. rewrite Hs in H0. inversion H0; subst s0. simpl. rewrite Hpc. auto.
  - assert (Hrest : forall k0 d0, In (k0, d0) rest -> k0 = src_key (w_op s) -> d0 = src_delta (w_op s)) by (intros; eapply Hks; eauto).
    destruct (vfind (g_vols g) k) as [x|] eqn:Hf.
    + set (f := fun x0 => {| v_key := v_key x0; v_bal := v_bal x0; v_pend := if v_upd x0 then v_pend x0 else v_pend x0 + d;
                             v_lock := Some w; v_new := v_new x0; v_upd := true |}).
      assert (Htake : Jw (set_vols g (vtake (g_vols g) w k f)) w).
      { intros s' a Hn Ha Hl Hc. simpl in Hn. rewrite Hs in Hn. inversion Hn; subst s'.
        destruct (HJ s a Hs Ha Hl Hc) as [A1 [A2 [r [Hr [Hlk [Hb Hp]]]]]].
        split; [auto|split; [auto|]]. simpl. unfold vtake.
        rewrite vfind_map by (intros y; destruct (_ && _); reflexivity). rewrite Hr. simpl.
        destruct (vfind_key _ _ _ Hr) as [Hkr _].
        destruct (ckey_eqb (v_key r) k && free_for w r) eqn:E.
        - apply andb_true_iff in E. destruct E as [E _]. apply ckey_eqb_eq in E.
          assert (Hd : d = src_delta (w_op s)) by (apply (Hks k d); [left; auto|congruence]).
          exists (f r). simpl. repeat split; auto.
          destruct (v_upd r) eqn:Eu.
          + destruct Hp as [Hp|[_ Hp]]; [left; auto|right; auto].
          + destruct Hp as [Hp|[Hp _]]; [|discriminate]. right. split; auto. lia.
        - exists r. auto. }
      destruct (v_lock x) as [h|].
      * destruct (Nat.eqb h w).
        -- apply (IH _ w (S i) s); auto.
        -- apply Jw_blocked. apply Jw_upd; auto; upd_side.
      * apply (IH _ w (S i) s); auto.
    + apply (IH _ w (S i) s); auto.
      intros s' a Hn Ha Hl Hc. simpl in Hn. destruct (HJ s' a Hn Ha Hl Hc) as [A1 [A2 [r [Hr Hrest']]]].
      split; [auto|split; [auto|]]. exists r. split; auto. simpl. apply vfind_app_some; auto.
Qed.

(* the writer's own store call keeps its invariant *)
Lemma Jw_own g w : unlocked_clean (g_vols g) -> Jw g w -> Jw (step g w) w.
Proof.
  intros HU HJ. unfold step. destruct (get_w g w) as [s|] eqn:Hs; [|exact HJ]. unfold get_w in Hs.
  destruct (w_pc s) eqn:Hpc.
  - (* ik *) unfold do_ik. apply Jw_ev. brk; try apply Jw_fail_soft; apply Jw_upd; auto; intros s0 H0; rewrite Hs in H0; inversion H0; subst s0; simpl;
      repeat split; auto; intros; try discriminate. exfalso. apply H2. apply after_ik_crit; auto.
  - (* rev *) unfold do_rev. brk; try (apply Jw_ev; apply Jw_fail_soft); try (apply Jw_blocked; auto);
      apply Jw_ev; apply Jw_upd; try (apply (Jw_same g); auto; reflexivity); upd_side.
  - (* bal *) unfold do_bal. destruct (vfind (g_vols g) (src_key (w_op s))) as [x|] eqn:Hf.
    + destruct (v_lock x) as [h|] eqn:Hl.
      * brk; try (apply Jw_ev; apply Jw_bal_done_unlocked);
          apply Jw_blocked; apply Jw_upd; auto; upd_side.
      * brk; try (apply Jw_ev; apply Jw_bal_done_unlocked).
        apply Jw_ev.
        set (f := fun x0 => {| v_key := v_key x0; v_bal := v_bal x0; v_pend := v_pend x0; v_lock := Some w; v_new := v_new x0; v_upd := v_upd x0 |}).
        replace (v_bal x) with (v_bal (f x)) by reflexivity.
        apply (Jw_bal_done_locked (set_vols g (vtake (g_vols g) w (src_key (w_op s)) f)) w s (f x)); auto.
        -- simpl. unfold vtake. rewrite vfind_map by (intros y; destruct (_ && _); reflexivity). rewrite Hf. simpl.
           destruct (vfind_key _ _ _ Hf) as [Hk _]. rewrite Hk, ckey_eqb_refl. unfold free_for. rewrite Hl. reflexivity.
        -- simpl. destruct (vfind_key _ _ _ Hf) as [_ Hin]. apply (HU x Hin Hl).
    + apply Jw_ev.
      set (row := {| v_key := src_key (w_op s); v_bal := 0; v_pend := 0; v_lock := Some w; v_new := true; v_upd := false |}).
      apply (Jw_bal_done_locked (set_vols g (g_vols g ++ [row])) w s row); auto.
      simpl. rewrite vfind_app_none by auto. simpl. rewrite ckey_eqb_refl. reflexivity.
  - (* vol *) unfold do_vol. apply (Jw_vol_loop _ g w (w_volk s) s); auto.
    intros k d Hin. apply vol_keys_src. eapply in_skipn; eauto.
  - (* tx *) unfold do_tx. destruct (my_pending_tx g w).
    + brk; try (apply Jw_blocked; auto); try (apply Jw_ev; apply Jw_fail_abort);
        apply Jw_ev; apply Jw_upd; try (apply (Jw_same g); auto; reflexivity);
        intros s0 H0; simpl in H0; rewrite Hs in H0; inversion H0; subst s0; simpl; rewrite Hpc; auto.
    + set (row := {| t_id := g_ntx g; t_ref := tx_ref (w_op s); t_own := Some w; t_rev := false; t_revlock := None; t_pend := true |}).
      set (g1 := upd_w (set_ntx (set_txs g (g_txs g ++ [row])) (g_ntx g + 1)) w (fun s0 => wset_txid s0 (Some (g_ntx g)))).
      assert (H1 : Jw g1 w) by (unfold g1; apply Jw_upd; [apply (Jw_same g); auto; reflexivity|upd_side]).
      assert (Hs1 : nth_error (g_ws g1) w = Some (wset_txid s (Some (g_ntx g)))) by (unfold g1; simpl; rewrite nth_upd_same, Hs; reflexivity).
      brk; try (apply Jw_blocked; auto); try (apply Jw_ev; apply Jw_fail_abort);
        apply Jw_ev; apply Jw_upd; try (apply (Jw_same g1); auto; reflexivity);
        intros s0 H0; change (nth_error (g_ws g1) w = Some s0) in H0; rewrite Hs1 in H0; inversion H0; subst s0; simpl; rewrite Hpc; auto.
  - (* adv *) unfold do_adv. brk; try (apply Jw_blocked; auto);
      apply Jw_ev; apply Jw_upd; try (apply (Jw_same g); auto; reflexivity);
      intros s0 H0; simpl in H0; rewrite Hs in H0; inversion H0; subst s0; simpl; rewrite Hpc; auto.
  - (* log *) unfold do_log. destruct (g_hash g && negb (owner_is (g_adv g) w)); [exact HJ|].
    destruct (my_pending_log g w).
    + brk; try (apply Jw_blocked; auto); try (apply Jw_ev; apply Jw_fail_abort);
        apply Jw_ev; apply Jw_upd; try (apply (Jw_same g); auto; reflexivity);
        intros s0 H0; simpl in H0; rewrite Hs in H0; inversion H0; subst s0; simpl; rewrite Hpc; auto.
    + set (row := {| l_id := g_nlog g; l_ik := o_ik (w_op s); l_inh := o_inh (w_op s); l_own := Some w;
                     l_tx := match w_txid s with Some i => i | None => 0 end; l_pend := true |}).
      set (g1 := upd_w (set_nlog (set_logs g (g_logs g ++ [row])) (g_nlog g + 1)) w (fun s0 => wset_logid s0 (Some (g_nlog g)))).
      assert (H1 : Jw g1 w) by (unfold g1; apply Jw_upd; [apply (Jw_same g); auto; reflexivity|upd_side]).
      assert (Hs1 : nth_error (g_ws g1) w = Some (wset_logid s (Some (g_nlog g)))) by (unfold g1; simpl; rewrite nth_upd_same, Hs; reflexivity).
      brk; try (apply Jw_blocked; auto); try (apply Jw_ev; apply Jw_fail_abort);
        apply Jw_ev; apply Jw_upd; try (apply (Jw_same g1); auto; reflexivity);
        intros s0 H0; change (nth_error (g_ws g1) w = Some s0) in H0; rewrite Hs1 in H0; inversion H0; subst s0; simpl; rewrite Hpc; auto.
  - (* commit *) unfold do_commit. apply Jw_ev. apply Jw_dead. intros s0 H0. simpl in H0.
    rewrite nth_upd_same, nth_clear, Hs in H0. simpl in H0. inversion H0; subst s0. left. destruct (owner_is _ _); reflexivity.
  - (* rollback *) unfold do_rollback. apply Jw_ev. destruct (w_err s) as [[]|]; destruct (w_retry s); destruct (String.eqb (o_ik (w_op s)) "");
      apply Jw_dead; intros s0 H0; simpl in H0; rewrite nth_upd_same, nth_clear, Hs in H0; simpl in H0; inversion H0; subst s0; simpl;
      first [left; reflexivity | right; left; reflexivity].
  - (* fetch *) unfold do_fetch. apply Jw_ev. brk; apply Jw_upd; auto; upd_side.
  - exact HJ.
Qed.

Lemma Jw_other g w w0 : w0 <> w -> Jw g w0 -> Jw (step g w) w0.
Proof.
  intros Hne HJ s' a Hn Ha Hl Hc.
  pose proof (step_wev g w w0 Hne) as Hw. rewrite Hn in Hw. simpl in Hw.
  destruct (nth_error (g_ws g) w0) as [s|] eqn:Hs; simpl in Hw; [|discriminate].
  unfold wcore in Hw. inversion Hw as [[E1 E2 E3 E4 E5]]. rewrite E1, E3 in *. rewrite E2 in Hc. rewrite E4 in Hl.
  destruct (HJ s a Hs Ha Hl Hc) as [A1 [A2 [r [Hr [Hlk Hrest]]]]].
  split; [auto|split; [auto|]]. exists r. split; auto.
  eapply vevo_frame; [apply step_vev| | |]; eauto.
Qed.

(* C06 records: a COMMIT that held the lock of its bounded source since GetBalances leaves the source at >= -allowance *)
Definition c06_ok (c : c06rec) : Prop := c_locked c = true -> - c_allow c <= c_after c.
Definition invA (g : gst) : Prop := unlocked_clean (g_vols g) /\ (forall w, Jw g w) /\ Forall c06_ok (g_c06 g).

Lemma v_commit_key w x : v_key (v_commit w x) = v_key x.
Proof. unfold v_commit. destruct (owner_is _ _); reflexivity. Qed.

Lemma step_invA g w : invA g -> invA (step g w).
Proof.
  intros [HU [HJ HC]]. split; [|split].
  - eapply vevo_clean; [apply step_vev|exact HU].
  - intros w0. destruct (Nat.eq_dec w0 w) as [->|Hne]; [apply Jw_own; auto|apply Jw_other; auto].
  - unfold step. destruct (get_w g w) as [s|] eqn:Hs; [|exact HC].
    destruct (w_pc s) eqn:Hpc;
      try (assert (H : fev w g (step g w)) by (apply (step_fev g w s); auto; congruence);
           unfold step in H; rewrite Hs, Hpc in H; rewrite (proj2 H); exact HC); try exact HC.
    unfold do_commit. simpl. apply Forall_app. split; [exact HC|].
    destruct (allowance (w_op s)) as [a|] eqn:Ha; [|constructor].
    constructor; [|constructor]. unfold c06_ok; simpl. intros Hl.
    destruct (HJ w s a Hs Ha Hl) as [A1 [A2 [r [Hr [Hlk [Hb Hp]]]]]]; [rewrite Hpc; reflexivity|].
    unfold committed_bal. rewrite vfind_map by (apply v_commit_key). rewrite Hr. simpl.
    unfold v_commit. rewrite Hlk. simpl. rewrite Nat.eqb_refl. simpl.
    unfold src_delta in Hp. destruct Hp as [Hp|[_ Hp]]; [lia|]. destruct (ckey_eqb _ _); lia.
Qed.

Theorem invA_all_schedules g sched : invA g -> invA (run g sched).
Proof. apply run_inv. apply step_invA. Qed.

(* ---------------------------------------------------------------- C06: if the source rows exist, every COMMIT held the lock *)
Lemma map_op_upd ws w f : (forall s, w_op (f s) = w_op s) -> map w_op (upd_nth ws w f) = map w_op ws.
Proof. intros Hf. revert w. induction ws as [|x r IH]; intros [|w]; simpl; auto; rewrite ?Hf, ?IH; auto. Qed.
Lemma map_op_clear ws h : map w_op (clear_waits ws h) = map w_op ws.
Proof. unfold clear_waits. rewrite map_map. apply map_ext. intros s. destruct (owner_is _ _); reflexivity. Qed.

Definition oev (g g' : gst) : Prop := map w_op (g_ws g') = map w_op (g_ws g).
Lemma oev_trans g1 g2 g3 : oev g1 g2 -> oev g2 g3 -> oev g1 g3.
Proof. unfold oev. congruence. Qed.
Lemma oev_ws g g' w f : g_ws g' = upd_nth (g_ws g) w f -> (forall s, w_op (f s) = w_op s) -> oev g g'.
Proof. unfold oev. intros -> H. apply map_op_upd; auto. Qed.
Lemma oev_same g g' : g_ws g' = g_ws g -> oev g g'.
Proof. unfold oev. intros ->. reflexivity. Qed.
Lemma oev_abort g w : oev g (abort g w).
Proof. unfold oev, abort; simpl. apply map_op_clear. Qed.
Ltac oev_calc := unfold oev; simpl; repeat (first [rewrite map_op_upd by (intros; reflexivity) | rewrite map_op_clear]); reflexivity.
Lemma oev_fail_abort g w e : oev g (fail_abort g w e).
Proof. unfold fail_abort. oev_calc. Qed.
Lemma oev_ev_fail_abort g w e w1 l st : oev g (ev (fail_abort g w e) w1 l st).
Proof. unfold fail_abort. oev_calc. Qed.
Lemma oev_blocked g w h l : oev g (blocked g w h l).
Proof. unfold blocked. destruct (reaches _ _ _ _); [apply oev_ev_fail_abort|oev_calc]. Qed.
Lemma oev_bal_done g w o r lk : oev g (bal_done g w o r lk).
Proof. unfold bal_done, fail_soft. brk; oev_calc. Qed.
Lemma oev_vol_loop ks : forall g w i, oev g (vol_loop g w ks i).
Proof.
  induction ks as [|[k d] r IH]; simpl; intros g w i.
  - oev_calc.
  - brk; try (eapply oev_trans; [|apply IH]; apply oev_same; reflexivity).
    eapply oev_trans; [|apply oev_blocked]. oev_calc.
Qed.
Ltac oev_tac := first [ oev_calc | apply oev_blocked | apply oev_ev_fail_abort
                      | (eapply oev_trans; [|apply oev_blocked]; oev_calc)
                      | (eapply oev_trans; [|apply oev_ev_fail_abort]; oev_calc) ].
Lemma step_oev g w : oev g (step g w).
Proof.
  unfold step. destruct (get_w g w) as [s|]; [|apply oev_same; reflexivity].
  destruct (w_pc s).
  - unfold do_ik, fail_soft. brk; oev_tac.
  - unfold do_rev, fail_soft. brk; oev_tac.
  - unfold do_bal. brk; try (eapply oev_trans; [|apply oev_blocked]; oev_calc);
      unfold ev; match goal with |- oev ?g (set_ev (bal_done ?g1 ?w ?o ?r ?lk) _) =>
        pose proof (oev_bal_done g1 w o r lk) as H; unfold oev in *; simpl in *; exact H end.
  - apply oev_vol_loop.
  - unfold do_tx. destruct (my_pending_tx g w); brk; oev_tac.
  - unfold do_adv. brk; oev_tac.
  - unfold do_log. destruct (g_hash g && negb (owner_is (g_adv g) w)); [apply oev_same; reflexivity|].
    destruct (my_pending_log g w); brk; oev_tac.
  - unfold do_commit. oev_calc.
  - unfold do_rollback, abort. brk; oev_calc.
  - unfold do_fetch. brk; oev_tac.
  - apply oev_same; reflexivity.
Qed.

(* the source rows of all bounded requests exist (committed) - and keep existing *)
Definition Eg (g : gst) : Prop :=
  forall o a, In o (map w_op (g_ws g)) -> allowance o = Some a -> exists r, vfind (g_vols g) (src_key o) = Some r /\ v_new r = false.
Lemma step_Eg g w : Eg g -> Eg (step g w).
Proof.
  intros H o a Hin Ha. rewrite (step_oev g w) in Hin. destruct (H o a Hin Ha) as [r [Hr Hn]].
  eapply vevo_exists; [apply step_vev|eauto|auto].
Qed.

(* a bounded request never holds a "no row" snapshot and is locked throughout its critical section *)
Definition Pw (ws : list wst) (w : wid) : Prop :=
  forall s a, nth_error ws w = Some s -> allowance (w_op s) = Some a ->
              w_norow s <> Some true /\ (crit (w_pc s) = true -> w_locked s = true).
Definition Pg (g : gst) (w : wid) : Prop := Pw (g_ws g) w.

Lemma Pw_upd ws w f :
  Pw ws w ->
  (forall s, nth_error ws w = Some s ->
     w_op (f s) = w_op s /\
     (forall a, allowance (w_op s) = Some a -> w_norow s <> Some true -> (crit (w_pc s) = true -> w_locked s = true) ->
                w_norow (f s) <> Some true /\ (crit (w_pc (f s)) = true -> w_locked (f s) = true))) ->
  Pw (upd_nth ws w f) w.
Proof.
  intros HP Hf s' a Hn Ha. rewrite nth_upd_same in Hn.
  destruct (nth_error ws w) as [s|] eqn:Hs; simpl in Hn; [|discriminate]. inversion Hn; subst s'. clear Hn.
  destruct (Hf s eq_refl) as [E1 E2]. rewrite E1 in Ha. destruct (HP s a Hs Ha) as [P1 P2]. apply (E2 a); auto.
Qed.
Lemma Pw_clear ws w h : Pw ws w -> Pw (clear_waits ws h) w.
Proof.
  intros HP s' a Hn Ha. rewrite nth_clear in Hn. destruct (nth_error ws w) as [s|] eqn:Hs; simpl in Hn; [|discriminate].
  inversion Hn; subst s'. clear Hn. destruct (owner_is _ _); simpl in *; apply (HP s a); auto.
Qed.
Lemma Pg_same g g' w : g_ws g' = g_ws g -> Pg g w -> Pg g' w.
Proof. unfold Pg. intros ->. auto. Qed.
Lemma Pg_ev g w w1 l st : Pg g w -> Pg (ev g w1 l st) w.
Proof. apply Pg_same; reflexivity. Qed.
Lemma Pg_upd g w f :
  Pg g w ->
  (forall s, nth_error (g_ws g) w = Some s ->
     w_op (f s) = w_op s /\
     (forall a, allowance (w_op s) = Some a -> w_norow s <> Some true -> (crit (w_pc s) = true -> w_locked s = true) ->
                w_norow (f s) <> Some true /\ (crit (w_pc (f s)) = true -> w_locked (f s) = true))) ->
  Pg (upd_w g w f) w.
Proof. unfold Pg, upd_w; simpl. apply Pw_upd. Qed.
Ltac pg_side := let s0 := fresh "s0" in let H0 := fresh "H0" in
  intros s0 H0; simpl; split; [reflexivity|]; intros; split; simpl; auto; try discriminate; try congruence.

Lemma Pg_fail_abort g w e : Pg g w -> Pg (fail_abort g w e) w.
Proof. intros H. unfold fail_abort. apply Pg_upd; [unfold Pg, abort; simpl; apply Pw_clear; auto|pg_side]. Qed.
Lemma Pg_fail_soft g w e : Pg g w -> Pg (fail_soft g w e) w.
Proof. intros H. unfold fail_soft. apply Pg_upd; auto; pg_side. Qed.
Lemma Pg_blocked g w h l : Pg g w -> Pg (blocked g w h l) w.
Proof.
  intros H. unfold blocked. destruct (reaches _ _ _ _).
  - apply (Pg_same (fail_abort g w EDeadlock)); [reflexivity|apply Pg_fail_abort; auto].
  - apply (Pg_same (upd_w g w (fun s => wset_wait s (Some h)))); [reflexivity|]. apply Pg_upd; auto; pg_side.
Qed.
Lemma Pg_bal_done_locked g w o r : Pg g w -> Pg (bal_done g w o r true) w.
Proof.
  intros H. unfold bal_done.
  assert (H1 : Pg (upd_w g w (fun s => wset_read s r true)) w) by (apply Pg_upd; auto; pg_side).
  brk; try (apply Pg_fail_soft; auto); apply Pg_upd; auto;
    intros s0 H0; simpl in H0; rewrite nth_upd_same in H0; destruct (nth_error (g_ws g) w) as [s|]; simpl in H0; inversion H0; subst s0;
    simpl; (split; [reflexivity|]); intros; split; try discriminate; auto.
Qed.
Lemma Pg_vol_loop ks : forall g w i, (forall s, nth_error (g_ws g) w = Some s -> w_pc s = PVol) -> Pg g w -> Pg (vol_loop g w ks i) w.
Proof.
  induction ks as [|[k d] rest IH]; simpl; intros g w i Hpc HP.
  - apply (Pg_same (upd_w g w (fun s => wset_pc (wset_volk s 0%nat) PTx))); [reflexivity|].
    apply Pg_upd; auto. intros s0 H0. simpl. split; [reflexivity|]. intros a Ha Hn Hc. split; auto. intros _. apply Hc. rewrite (Hpc s0 H0). reflexivity.
  - brk; try (apply IH; [exact Hpc|apply (Pg_same g); auto; reflexivity]).
    apply Pg_blocked. apply Pg_upd; auto; pg_side.
Qed.

Ltac pg_step G w Hs Pc :=
  let s0 := fresh "s0" in let H0 := fresh "H0" in
  apply Pg_ev; apply Pg_upd;
  [ apply (Pg_same G); [reflexivity|auto]
  | intros s0 H0; change (nth_error (g_ws G) w = Some s0) in H0; rewrite Hs in H0; inversion H0; subst s0; simpl;
    (split; [reflexivity|]); intros; split; auto; intros _; apply Pc; reflexivity ].

Lemma nth_in_ops g w s : nth_error (g_ws g) w = Some s -> In (w_op s) (map w_op (g_ws g)).
Proof. intros H. apply in_map. eapply nth_error_In; eauto. Qed.

Lemma Pg_own g w : Eg g -> Pg g w -> Pg (step g w) w.
Proof.
  intros HE HP. unfold step. destruct (get_w g w) as [s|] eqn:Hs; [|exact HP]. unfold get_w in Hs.
  destruct (allowance (w_op s)) as [a|] eqn:Ha.
  2:{ (* an unbounded request: nothing to show, its operation never changes *)
      intros s' a' Hn Ha'. exfalso.
      assert (Ho : option_map w_op (nth_error (g_ws (step g w)) w) = option_map w_op (nth_error (g_ws g) w)).
      { rewrite <- !nth_error_map. rewrite (step_oev g w). reflexivity. }
      unfold step in Ho. rewrite Hs in Ho. unfold get_w in Ho. rewrite Hs in Ho. rewrite Hn in Ho. simpl in Ho. inversion Ho. congruence. }
  destruct (HP s a Hs Ha) as [Pn Pc].
  destruct (w_pc s) eqn:Hpc.
  - unfold do_ik. apply Pg_ev.
    brk; try (apply Pg_fail_soft; auto); apply Pg_upd; auto; intros s0 H0; rewrite Hs in H0; inversion H0; subst s0; simpl;
      (split; [reflexivity|]); intros; split; auto; try discriminate.
    intros Hc. apply after_ik_crit in Hc. congruence.
  - unfold do_rev. brk; try (apply (Pg_same (fail_soft g w ENotFound)); [reflexivity|apply Pg_fail_soft; auto]);
      try (apply (Pg_same (fail_soft g w EAlreadyReverted)); [reflexivity|apply Pg_fail_soft; auto]);
      try (apply Pg_blocked; auto).
    + apply (Pg_same (upd_w g w (fun s => wset_pc s PBal))); [reflexivity|]. apply Pg_upd; auto; pg_side.
    + eapply Pg_same; [|apply (Pg_upd g w (fun s => wset_pc s PBal)); auto; pg_side]. reflexivity.
  - (* GetBalances: the row exists and the snapshot saw it *)
    destruct (HE (w_op s) a (nth_in_ops g w s Hs) Ha) as [x [Hx Hnew]].
    unfold do_bal. rewrite Hx.
    assert (Hnr : match w_norow s with Some b => b | None => v_new x end = false).
    { destruct (w_norow s) as [[|]|]; auto. congruence. }
    rewrite Hnr, Hnew.
    assert (Hwait : forall h, Pg (blocked (upd_w g w (fun s0 => wset_norow s0 (Some false))) w h LBal) w).
    { intros h. apply Pg_blocked. apply Pg_upd; auto; pg_side. }
    destruct (v_lock x) as [h|].
    + destruct (v_upd x); apply Hwait.
    + apply Pg_ev. apply Pg_bal_done_locked. apply (Pg_same g); auto; reflexivity.
  - unfold do_vol. apply Pg_vol_loop; auto. intros s0 H0. congruence.
  - unfold do_tx. destruct (my_pending_tx g w).
    + brk; try (apply Pg_blocked; auto); try (apply Pg_ev; apply Pg_fail_abort; auto); pg_step g w Hs Pc.
    + set (row := {| t_id := g_ntx g; t_ref := tx_ref (w_op s); t_own := Some w; t_rev := false; t_revlock := None; t_pend := true |}).
      set (g1 := upd_w (set_ntx (set_txs g (g_txs g ++ [row])) (g_ntx g + 1)) w (fun s0 => wset_txid s0 (Some (g_ntx g)))).
      assert (H1 : Pg g1 w) by (unfold g1; apply Pg_upd; [apply (Pg_same g); auto; reflexivity|pg_side]).
      assert (Hs1 : nth_error (g_ws g1) w = Some (wset_txid s (Some (g_ntx g)))) by (unfold g1; simpl; rewrite nth_upd_same, Hs; reflexivity).
      brk; try (apply Pg_blocked; auto); try (apply Pg_ev; apply Pg_fail_abort; auto); pg_step g1 w Hs1 Pc.
  - unfold do_adv. brk; try (apply Pg_blocked; auto); pg_step g w Hs Pc.
  - unfold do_log. destruct (g_hash g && negb (owner_is (g_adv g) w)); [exact HP|].
    destruct (my_pending_log g w).
    + brk; try (apply Pg_blocked; auto); try (apply Pg_ev; apply Pg_fail_abort; auto); pg_step g w Hs Pc.
    + set (row := {| l_id := g_nlog g; l_ik := o_ik (w_op s); l_inh := o_inh (w_op s); l_own := Some w;
                     l_tx := match w_txid s with Some i => i | None => 0 end; l_pend := true |}).
      set (g1 := upd_w (set_nlog (set_logs g (g_logs g ++ [row])) (g_nlog g + 1)) w (fun s0 => wset_logid s0 (Some (g_nlog g)))).
      assert (H1 : Pg g1 w) by (unfold g1; apply Pg_upd; [apply (Pg_same g); auto; reflexivity|pg_side]).
      assert (Hs1 : nth_error (g_ws g1) w = Some (wset_logid s (Some (g_nlog g)))) by (unfold g1; simpl; rewrite nth_upd_same, Hs; reflexivity).
      brk; try (apply Pg_blocked; auto); try (apply Pg_ev; apply Pg_fail_abort; auto); pg_step g1 w Hs1 Pc.
  - unfold do_commit. unfold Pg; simpl. apply Pw_upd; [apply Pw_clear; auto|pg_side].
  - unfold do_rollback. unfold Pg. destruct (w_err s) as [[]|]; destruct (w_retry s); destruct (String.eqb (o_ik (w_op s)) ""); simpl;
      (apply Pw_upd; [apply Pw_clear; auto|]); intros s0 H0; simpl; (split; [reflexivity|]); intros a0 Ha0 Hn0 Hc0; split; simpl; auto; try discriminate;
      intros Hc; apply start_pc_crit in Hc; congruence.
  - unfold do_fetch. unfold Pg. brk; simpl; apply Pw_upd; auto; pg_side.
  - exact HP.
Qed.

Lemma Pg_other g w w0 : w0 <> w -> Pg g w0 -> Pg (step g w) w0.
Proof.
  intros Hne HP s' a Hn Ha.
  pose proof (step_wev g w w0 Hne) as Hw. rewrite Hn in Hw. simpl in Hw.
  destruct (nth_error (g_ws g) w0) as [s|] eqn:Hs; simpl in Hw; [|discriminate].
  unfold wcore in Hw. inversion Hw as [[E1 E2 E3 E4 E5]]. rewrite E1 in Ha. rewrite E2, E4, E5.
  apply (HP s a); auto.
Qed.

Definition invB (g : gst) : Prop := Eg g /\ (forall w, Pg g w) /\ Forall (fun c => c_locked c = true) (g_c06 g).

Lemma step_invB g w : invB g -> invB (step g w).
Proof.
  intros [HE [HP HC]]. split; [|split].
  - apply step_Eg; auto.
  - intros w0. destruct (Nat.eq_dec w0 w) as [->|Hne]; [apply Pg_own; auto|apply Pg_other; auto].
  - unfold step. destruct (get_w g w) as [s|] eqn:Hs; [|exact HC].
    destruct (w_pc s) eqn:Hpc;
      try (assert (H : fev w g (step g w)) by (apply (step_fev g w s); auto; congruence);
           unfold step in H; rewrite Hs, Hpc in H; rewrite (proj2 H); exact HC); try exact HC.
    unfold do_commit. simpl. apply Forall_app. split; [exact HC|].
    destruct (allowance (w_op s)) as [a|] eqn:Ha; [|constructor].
    constructor; [|constructor]. simpl. destruct (HP w s a Hs Ha) as [_ Hc]. apply Hc. rewrite Hpc. reflexivity.
Qed.
Theorem invB_all_schedules g sched : invB g -> invB (run g sched).
Proof. apply run_inv. apply step_invB. Qed.

(* ---------------------------------------------------------------- initial states *)
Lemma nth_new_writers ops w s : nth_error (map new_writer ops) w = Some s -> exists o, s = new_writer o.
Proof. rewrite nth_error_map. destruct (nth_error ops w); simpl; [|discriminate]. intros H. inversion H. eauto. Qed.

Lemma tx_inv_init hash ops : tx_inv (init hash ops).
Proof. split; simpl; [constructor|constructor|constructor|constructor|constructor|intros t []|intros t []]. Qed.
Lemma log_inv_init hash ops : log_inv (init hash ops).
Proof.
  split; simpl; [constructor|constructor|constructor|intros _; constructor|intros _; constructor|intros _ x w []].
Qed.
Lemma invA_init hash ops : invA (init hash ops).
Proof.
  split; [intros r []|split; [|constructor]]. intros w s a Hn Ha Hl. simpl in Hn.
  destruct (nth_new_writers _ _ _ Hn) as [o ->]. simpl in Hl. discriminate.
Qed.
Lemma tx_inv_reseat g ops : tx_inv g -> tx_inv (reseat g ops).
Proof. intros [A B C D E F G]. split; simpl; auto; try constructor; try (intros t _ []). Qed.
Lemma log_inv_reseat g ops : log_inv g -> log_inv (reseat g ops).
Proof.
  intros [A B C D E F]. split; simpl; auto; try (intros _; constructor; fail).
  intros H x w Hx Hw. destruct (F H x w Hx Hw). split; auto.
Qed.
Lemma invA_reseat g ops : invA g -> invA (reseat g ops).
Proof.
  intros [HU _]. split; [exact HU|split; [|constructor]]. intros w s a Hn Ha Hl. simpl in Hn.
  destruct (nth_new_writers _ _ _ Hn) as [o ->]. simpl in Hl. discriminate.
Qed.
(* the hypothesis of C06_conc: every bounded request's source row exists (committed) before the race *)
Definition rows_exist (g : gst) (ops : list cop) : Prop :=
  forall o a, In o ops -> allowance o = Some a -> exists r, vfind (g_vols g) (src_key o) = Some r /\ v_new r = false.
Lemma invB_reseat g ops : rows_exist g ops -> invB (reseat g ops).
Proof.
  intros HR. split; [|split; [|constructor]].
  - intros o a Hin Ha. simpl in Hin. rewrite map_map in Hin. simpl in Hin. rewrite map_id in Hin. apply (HR o a); auto.
  - intros w s a Hn Ha. simpl in Hn. destruct (nth_new_writers _ _ _ Hn) as [o ->]. simpl in *.
    split; [discriminate|]. intros Hc. apply start_pc_crit in Hc. congruence.
Qed.

(* ---------------------------------------------------------------- the statements, on the visible tables *)
Definition nonempty (s : string) : bool := negb (String.eqb s "").
Lemma lkeys_visible l :
  flat_map lkeys (filter (fun x => match l_own x with None => negb (l_pend x) | Some _ => false end) l) =
  filter nonempty (map l_ik (filter (fun x => match l_own x with None => negb (l_pend x) | Some _ => false end) l)).
Proof.
  induction l as [|x r IH]; simpl; auto. destruct (l_own x); simpl; auto. destruct (l_pend x) eqn:E; simpl; auto.
  unfold lkeys at 1, nonempty at 1. rewrite E. simpl. destruct (String.eqb (l_ik x) ""); simpl; rewrite IH; reflexivity.
Qed.
Lemma tkeys_visible l :
  flat_map tkeys (filter (fun x => match t_own x with None => negb (t_pend x) | Some _ => false end) l) =
  filter nonempty (map t_ref (filter (fun x => match t_own x with None => negb (t_pend x) | Some _ => false end) l)).
Proof.
  induction l as [|x r IH]; simpl; auto. destruct (t_own x); simpl; auto. destruct (t_pend x) eqn:E; simpl; auto.
  unfold tkeys at 1, nonempty at 1. rewrite E. simpl. destruct (String.eqb (t_ref x) ""); simpl; rewrite IH; reflexivity.
Qed.

Theorem unique_keys_committed g : log_inv g -> NoDup (filter nonempty (map l_ik (committed_logs g))).
Proof. intros H. unfold committed_logs. rewrite <- lkeys_visible. apply nodup_flat_filter. apply (lg_keys _ _ _ _ _ H). Qed.
Theorem unique_refs_committed g : tx_inv g -> NoDup (filter nonempty (map t_ref (committed_txs g))).
Proof. intros H. unfold committed_txs. rewrite <- tkeys_visible. apply nodup_flat_filter. apply (tx_keys _ _ _ H). Qed.

(* reachable states: after a serial prefix, any schedule of the writers *)
Lemma outcome_tx_inv hash prefix writers sched : tx_inv (sched_outcome hash prefix writers sched).
Proof. apply tx_inv_all_schedules. apply tx_inv_reseat. apply tx_inv_all_schedules. apply tx_inv_init. Qed.
Lemma outcome_log_inv hash prefix writers sched : log_inv (sched_outcome hash prefix writers sched).
Proof. apply log_inv_all_schedules. apply log_inv_reseat. apply log_inv_all_schedules. apply log_inv_init. Qed.
Lemma outcome_invA hash prefix writers sched : invA (sched_outcome hash prefix writers sched).
Proof. apply invA_all_schedules. apply invA_reseat. apply invA_all_schedules. apply invA_init. Qed.
Lemma outcome_invB hash prefix writers sched :
  rows_exist (after_prefix hash prefix writers) writers -> invB (sched_outcome hash prefix writers sched).
Proof. intros H. apply invB_all_schedules. unfold after_prefix in *. apply invB_reseat. exact H. Qed.

(* compatibility: the id part alone *)
Definition ids_inv (g : gst) : Prop :=
  (NoDup (map t_id (g_txs g)) /\ Forall (fun t => t_id t < g_ntx g) (g_txs g)) /\
  (NoDup (map l_id (g_logs g)) /\ Forall (fun l => l_id l < g_nlog g) (g_logs g)).
Lemma inv_ids g : tx_inv g -> log_inv g -> ids_inv g.
Proof. intros [A B _ _ _ _ _] [C D _ _ _ _]. split; split; auto. apply sorted_nodup; auto. Qed.
