(* Proofs about Ledger/Conc.v: invariants of EVERY schedule (induction over the list of scheduled writers; no bound on the
   number of writers or steps). *)
From Coq Require Import List ZArith String Bool Arith Lia Sorted Permutation.
From LV Require Import Ledger.Conc.
Import ListNotations.
Open Scope Z_scope.

Lemma run_inv (P : gst -> Prop) : (forall g w, P g -> P (step g w)) -> forall sched g, P g -> P (run g sched).
Proof. intros H sched; induction sched as [|w r IH]; simpl; intros g Hg; auto. Qed.

Lemma run_app g a b : run g (a ++ b) = run (run g a) b.
Proof. unfold run. apply fold_left_app. Qed.

Ltac brk := repeat match goal with
  | |- context [match ?x with _ => _ end] => destruct x eqn:?
  end.

(* ---------------------------------------------------------------- ids: a table with a sequence *)
Section Evo.
  Context {A : Type} (idf : A -> Z).
  (* how a table and its sequence evolve: fresh row with id = nextval, id-preserving rewrite, removal *)
  Inductive evo : list A -> Z -> list A -> Z -> Prop :=
  | evo_refl l n : evo l n l n
  | evo_app l n row : idf row = n -> evo l n (l ++ [row]) (n + 1)
  | evo_map l n f : (forall x, idf (f x) = idf x) -> evo l n (map f l) n
  | evo_filter l n p : evo l n (filter p l) n
  | evo_trans l1 n1 l2 n2 l3 n3 : evo l1 n1 l2 n2 -> evo l2 n2 l3 n3 -> evo l1 n1 l3 n3.

  Definition ids_ok (l : list A) (n : Z) : Prop := NoDup (map idf l) /\ Forall (fun x => idf x < n) l.

  Lemma nodup_snoc {B} (l : list B) x : NoDup l -> ~ In x l -> NoDup (l ++ [x]).
  Proof.
    induction l as [|y r IH]; simpl; intros Hn Hx.
    - constructor; [intros []|constructor].
    - inversion Hn; subst. constructor.
      + rewrite in_app_iff. simpl. intros [H|[H|[]]]; auto.
      + apply IH; auto.
  Qed.

  Lemma nodup_map_filter (p : A -> bool) l : NoDup (map idf l) -> NoDup (map idf (filter p l)).
  Proof.
    induction l as [|y r IH]; simpl; intros Hn; auto.
    inversion Hn; subst. destruct (p y); simpl; auto.
    constructor; auto. intros Hin. apply H1. apply in_map_iff in Hin. destruct Hin as [z [Hz Hin]].
    apply filter_In in Hin. apply in_map_iff. exists z. tauto.
  Qed.

  Lemma evo_mono l n l' n' : evo l n l' n' -> n <= n'.
  Proof. induction 1; lia. Qed.

  Lemma evo_ids_ok l n l' n' : evo l n l' n' -> ids_ok l n -> ids_ok l' n'.
  Proof.
    induction 1 as [l n|l n row Hr|l n f Hf|l n p|l1 n1 l2 n2 l3 n3 _ IH1 _ IH2]; intros [Hn Hf'].
    - split; auto.
    - split.
      + rewrite map_app. simpl. apply nodup_snoc; auto. intros Hin. apply in_map_iff in Hin. destruct Hin as [z [Hz Hin]].
        rewrite Forall_forall in Hf'. specialize (Hf' z Hin). lia.
      + apply Forall_app. split.
        * eapply Forall_impl; [|exact Hf']. simpl. intros; lia.
        * constructor; [lia|constructor].
    - split.
      + rewrite map_map. erewrite map_ext; [exact Hn|]. intros; apply Hf.
      + apply Forall_forall. intros x Hx. apply in_map_iff in Hx. destruct Hx as [z [Hz Hin]]. subst. rewrite Hf.
        rewrite Forall_forall in Hf'. auto.
    - split.
      + apply nodup_map_filter; auto.
      + apply Forall_forall. intros x Hx. apply filter_In in Hx. rewrite Forall_forall in Hf'. apply Hf'. tauto.
    - apply IH2. apply IH1. split; auto.
  Qed.
End Evo.
#[global] Hint Constructors evo : conc.

Definition tevo (g g' : gst) : Prop := evo t_id (g_txs g) (g_ntx g) (g_txs g') (g_ntx g').
Definition levo (g g' : gst) : Prop := evo l_id (g_logs g) (g_nlog g) (g_logs g') (g_nlog g').

Lemma t_release_id w x : t_id (t_release w x) = t_id x.
Proof. unfold t_release. destruct (owner_is _ _); reflexivity. Qed.
Lemma t_commit_id w x : t_id (t_commit w x) = t_id x.
Proof. reflexivity. Qed.
Lemma t_publish_id i x : t_id (t_publish i x) = t_id x.
Proof. unfold t_publish. destruct (_ =? _); reflexivity. Qed.
Lemma l_commit_id w x : l_id (l_commit w x) = l_id x.
Proof. reflexivity. Qed.
Lemma l_publish_id i x : l_id (l_publish i x) = l_id x.
Proof. unfold l_publish. destruct (_ =? _); reflexivity. Qed.

Lemma tevo_abort g w : tevo g (abort g w).
Proof. unfold tevo, abort; simpl. eapply evo_trans; [apply evo_filter|apply evo_map]. apply t_release_id. Qed.
Lemma levo_abort g w : levo g (abort g w).
Proof. unfold levo, abort; simpl. apply evo_filter. Qed.

Lemma tevo_blocked g w h l : tevo g (blocked g w h l).
Proof. unfold blocked. destruct (reaches _ _ _ _); unfold tevo; simpl; [apply tevo_abort|apply evo_refl]. Qed.
Lemma levo_blocked g w h l : levo g (blocked g w h l).
Proof. unfold blocked. destruct (reaches _ _ _ _); unfold levo; simpl; [apply levo_abort|apply evo_refl]. Qed.

Lemma tevo_trans g1 g2 g3 : tevo g1 g2 -> tevo g2 g3 -> tevo g1 g3.
Proof. unfold tevo. intros. eapply evo_trans; eauto. Qed.
Lemma levo_trans g1 g2 g3 : levo g1 g2 -> levo g2 g3 -> levo g1 g3.
Proof. unfold levo. intros. eapply evo_trans; eauto. Qed.

(* same tables, same sequences *)
Definition same_tx (g g' : gst) := g_txs g' = g_txs g /\ g_ntx g' = g_ntx g.
Definition same_log (g g' : gst) := g_logs g' = g_logs g /\ g_nlog g' = g_nlog g.
Lemma same_tevo g g' : same_tx g g' -> tevo g g'.
Proof. intros [H1 H2]. unfold tevo. rewrite H1, H2. apply evo_refl. Qed.
Lemma same_levo g g' : same_log g g' -> levo g g'.
Proof. intros [H1 H2]. unfold levo. rewrite H1, H2. apply evo_refl. Qed.

Lemma bal_done_same_tx g w o r lk : same_tx g (bal_done g w o r lk).
Proof. unfold bal_done. brk; split; reflexivity. Qed.
Lemma bal_done_same_log g w o r lk : same_log g (bal_done g w o r lk).
Proof. unfold bal_done. brk; split; reflexivity. Qed.

Lemma vol_loop_tevo ks : forall g w i, tevo g (vol_loop g w ks i).
Proof.
  induction ks as [|[k d] r IH]; simpl; intros g w i.
  - apply same_tevo; split; reflexivity.
  - brk; try (eapply tevo_trans; [|apply IH]; apply same_tevo; split; reflexivity).
    eapply tevo_trans; [|apply tevo_blocked]. apply same_tevo; split; reflexivity.
Qed.
Lemma vol_loop_levo ks : forall g w i, levo g (vol_loop g w ks i).
Proof.
  induction ks as [|[k d] r IH]; simpl; intros g w i.
  - apply same_levo; split; reflexivity.
  - brk; try (eapply levo_trans; [|apply IH]; apply same_levo; split; reflexivity).
    eapply levo_trans; [|apply levo_blocked]. apply same_levo; split; reflexivity.
Qed.

Lemma do_bal_tevo g w s : tevo g (do_bal g w s).
Proof.
  unfold do_bal. brk;
    try (eapply tevo_trans; [|apply tevo_blocked]; apply same_tevo; split; reflexivity);
    try (apply same_tevo; unfold ev; simpl;
         match goal with |- same_tx ?g (set_ev (bal_done ?g1 ?w ?o ?r ?lk) _) => destruct (bal_done_same_tx g1 w o r lk) as [H1 H2]; split; simpl; [rewrite H1|rewrite H2]; reflexivity end).
Qed.
Lemma do_bal_levo g w s : levo g (do_bal g w s).
Proof.
  unfold do_bal. brk;
    try (eapply levo_trans; [|apply levo_blocked]; apply same_levo; split; reflexivity);
    try (apply same_levo; unfold ev; simpl;
         match goal with |- same_log ?g (set_ev (bal_done ?g1 ?w ?o ?r ?lk) _) => destruct (bal_done_same_log g1 w o r lk) as [H1 H2]; split; simpl; [rewrite H1|rewrite H2]; reflexivity end).
Qed.

Lemma do_tx_tevo g w s : tevo g (do_tx g w s).
Proof.
  unfold do_tx. destruct (w_txid s) as [i|].
  - brk; try (apply tevo_blocked); unfold tevo; simpl;
      try (apply evo_map; apply t_publish_id);
      try (eapply evo_trans; [apply evo_filter|apply evo_map; apply t_release_id]).
  - assert (Hd : evo t_id (g_txs g) (g_ntx g)
             (g_txs g ++ [{| t_id := g_ntx g; t_ref := tx_ref (w_op s); t_own := Some w; t_rev := false; t_revlock := None; t_pend := true |}]) (g_ntx g + 1))
      by (apply evo_app; reflexivity).
    brk; unfold tevo; simpl;
      try (eapply evo_trans; [exact Hd|]; apply evo_map; apply t_publish_id);
      try (eapply evo_trans; [exact Hd|]; eapply evo_trans; [apply evo_filter|apply evo_map; apply t_release_id]).
    all: try (eapply evo_trans; [exact Hd|];
              match goal with |- evo _ _ _ (g_txs (blocked ?g1 ?w ?h ?l)) _ => exact (tevo_blocked g1 w h l) end).
Qed.

Lemma do_log_levo g w s : levo g (do_log g w s).
Proof.
  unfold do_log. destruct (g_hash g && negb (owner_is (g_adv g) w)); [apply same_levo; split; reflexivity|].
  destruct (w_logid s) as [i|].
  - brk; try (apply levo_blocked); unfold levo; simpl;
      try (apply evo_map; apply l_publish_id);
      try (apply evo_filter).
  - set (row := {| l_id := g_nlog g; l_ik := o_ik (w_op s); l_inh := o_inh (w_op s); l_own := Some w;
                   l_tx := match w_txid s with Some i => i | None => 0 end; l_pend := true |}).
    assert (Hd : evo l_id (g_logs g) (g_nlog g) (g_logs g ++ [row]) (g_nlog g + 1)) by (apply evo_app; reflexivity).
    brk; unfold levo; simpl;
      try (eapply evo_trans; [exact Hd|]; apply evo_map; apply l_publish_id);
      try (eapply evo_trans; [exact Hd|]; apply evo_filter).
    all: try (eapply evo_trans; [exact Hd|];
              match goal with |- evo _ _ _ (g_logs (blocked ?g1 ?w ?h ?l)) _ => exact (levo_blocked g1 w h l) end).
Qed.

Lemma step_tevo g w : tevo g (step g w).
Proof.
  unfold step. destruct (get_w g w) as [s|]; [|apply same_tevo; split; reflexivity].
  destruct (w_pc s).
  - unfold do_ik. brk; apply same_tevo; split; reflexivity.
  - unfold do_rev. brk; try (apply tevo_blocked); try (apply same_tevo; split; reflexivity).
    unfold tevo; simpl. apply evo_map. intros x. destruct (_ && _); reflexivity.
  - apply do_bal_tevo.
  - apply vol_loop_tevo.
  - apply do_tx_tevo.
  - unfold do_adv. brk; try (apply tevo_blocked); apply same_tevo; split; reflexivity.
  - unfold do_log. destruct (g_hash g && negb (owner_is (g_adv g) w)); [apply same_tevo; split; reflexivity|].
    destruct (w_logid s); brk; unfold tevo; simpl; try apply evo_refl;
      try (eapply evo_trans; [apply evo_filter|apply evo_map; apply t_release_id]);
      try (match goal with |- evo _ _ _ (g_txs (blocked ?g1 ?w ?h ?l)) _ => exact (tevo_blocked g1 w h l) end).
  - unfold do_commit, tevo; simpl. apply evo_map. apply t_commit_id.
  - unfold do_rollback. brk; unfold tevo; simpl; eapply evo_trans; try apply evo_filter; apply evo_map; apply t_release_id.
  - unfold do_fetch. brk; apply same_tevo; split; reflexivity.
  - apply same_tevo; split; reflexivity.
Qed.

Lemma step_levo g w : levo g (step g w).
Proof.
  unfold step. destruct (get_w g w) as [s|]; [|apply same_levo; split; reflexivity].
  destruct (w_pc s).
  - unfold do_ik. brk; apply same_levo; split; reflexivity.
  - unfold do_rev. brk; try (apply levo_blocked); apply same_levo; split; reflexivity.
  - apply do_bal_levo.
  - apply vol_loop_levo.
  - unfold do_tx. destruct (w_txid s); brk; unfold levo; simpl; try apply evo_refl; try apply evo_filter;
      try (match goal with |- evo _ _ _ (g_logs (blocked ?g1 ?w ?h ?l)) _ => exact (levo_blocked g1 w h l) end).
  - unfold do_adv. brk; try (apply levo_blocked); apply same_levo; split; reflexivity.
  - apply do_log_levo.
  - unfold do_commit, levo; simpl. apply evo_map. apply l_commit_id.
  - unfold do_rollback. brk; unfold levo; simpl; apply evo_filter.
  - unfold do_fetch. brk; apply same_levo; split; reflexivity.
  - apply same_levo; split; reflexivity.
Qed.

Definition ids_inv (g : gst) : Prop := ids_ok t_id (g_txs g) (g_ntx g) /\ ids_ok l_id (g_logs g) (g_nlog g).

Lemma step_ids_inv g w : ids_inv g -> ids_inv (step g w).
Proof. intros [Ht Hl]. split; [eapply evo_ids_ok; [apply step_tevo|exact Ht] | eapply evo_ids_ok; [apply step_levo|exact Hl]]. Qed.

Theorem ids_unique_all_schedules g sched : ids_inv g -> ids_inv (run g sched).
Proof. apply run_inv. apply step_ids_inv. Qed.

Lemma ids_inv_init hash ops : ids_inv (init hash ops).
Proof. split; split; simpl; constructor. Qed.
Lemma ids_inv_reseat g ops : ids_inv g -> ids_inv (reseat g ops).
Proof. intros H; exact H. Qed.
