(* C35: feature flags change only what they are documented to change.  Every feature set simulates the featureless
   ledger: erasing what the features add (moves, both metadata histories, effective volumes inside transactions and log
   payloads, the moves sequence) from the state reached under ANY feature set gives exactly the state the same history
   produces with every feature off -- and every operation returns the same result. *)
From Coq Require Import List ZArith String Bool Lia.
From LV Require Import Base.Util Ledger.Types Ledger.Core Ledger.Invariants.
Import ListNotations.
Open Scope Z_scope.

Definition f0 : features := {| f_moves := false; f_pcev := false; f_acc_hist := false; f_tx_hist := false; f_hash := false |}.

Definition strip_tx (t : tx) : tx :=
  {| t_id := t_id t; t_postings := t_postings t; t_meta := t_meta t; t_ts := t_ts t; t_ref := t_ref t; t_ins := t_ins t;
     t_upd := t_upd t; t_rev := t_rev t; t_pcv := t_pcv t; t_pcev := None |}.
Definition strip_payload (p : payload) : payload :=
  match p with
  | PNewTx t amd => PNewTx (strip_tx t) amd
  | PRevert o r => PRevert (strip_tx o) (strip_tx r)
  | other => other
  end.
Definition strip_log (l : log) : log :=
  {| l_id := l_id l; l_payload := strip_payload (l_payload l); l_date := l_date l; l_ik := l_ik l; l_input := l_input l |}.

(* the core of a ledger: transactions (without effective volumes), logs, current volumes, accounts with current metadata, sequences *)
Definition erase (s : state) : state :=
  {| s_vols := s_vols s; s_txs := map strip_tx (s_txs s); s_moves := []; s_accounts := s_accounts s; s_ahist := []; s_thist := [];
     s_logs := map strip_log (s_logs s); s_next_tx := s_next_tx s; s_next_log := s_next_log s; s_next_seq := 1 |}.

Lemma find_map_strip {A} (g : A -> A) (pr : A -> bool) l : (forall x, pr (g x) = pr x) -> find pr (map g l) = option_map g (find pr l).
Proof. intros H. induction l as [|x xs IH]; simpl; [reflexivity|]. rewrite H. destruct (pr x); [reflexivity | exact IH]. Qed.

Lemma find_tx_strip txs id : find_tx (map strip_tx txs) id = option_map strip_tx (find_tx txs id).
Proof. apply find_map_strip. reflexivity. Qed.

Lemma find_ik_strip logs ik : find_ik (map strip_log logs) ik = option_map strip_log (find_ik logs ik).
Proof. unfold find_ik. destruct (ik =? "")%string; [reflexivity|]. apply find_map_strip. reflexivity. Qed.

Lemma ref_taken_strip txs r : ref_taken (map strip_tx txs) r = ref_taken txs r.
Proof. unfold ref_taken. induction txs as [|x xs IH]; simpl; [reflexivity|]. rewrite IH. reflexivity. Qed.

Lemma payload_tx_id_strip p : payload_tx_id (strip_payload p) = payload_tx_id p.
Proof. destruct p; reflexivity. Qed.

(* accounts do not depend on the history flag or on the history table *)
Lemma upsert_account_fst b now accs h h' a md first ins upd :
  fst (upsert_account b now (accs, h) a md first ins upd) = fst (upsert_account false now (accs, h') a md first ins upd).
Proof. unfold upsert_account. destruct (find_account accs a) as [x|]; [destruct (acc_needs_update x md first)|]; reflexivity. Qed.

Lemma upsert_fold_fst b now (g : addr -> meta) first ins upd l : forall accs h h',
  fst (fold_left (fun st a => upsert_account b now st a (g a) first ins upd) l (accs, h)) =
  fst (fold_left (fun st a => upsert_account false now st a (g a) first ins upd) l (accs, h')).
Proof.
  induction l as [|a r IH]; intros accs h h'; cbn [fold_left]; [reflexivity|].
  pose proof (upsert_account_fst b now accs h h' a (g a) first ins upd) as E.
  destruct (upsert_account b now (accs, h) a (g a) first ins upd) as [a1 h1].
  destruct (upsert_account false now (accs, h') a (g a) first ins upd) as [a2 h2]. cbn [fst] in E. subst a2. apply IH.
Qed.

Lemma upsert_account_snd_off now accs h a md first ins upd : snd (upsert_account false now (accs, h) a md first ins upd) = h.
Proof. unfold upsert_account. destruct (find_account accs a) as [x|]; [destruct (acc_needs_update x md first)|]; reflexivity. Qed.

Lemma upsert_fold_snd_off now (g : addr -> meta) first ins upd l : forall accs h,
  snd (fold_left (fun st a => upsert_account false now st a (g a) first ins upd) l (accs, h)) = h.
Proof.
  induction l as [|a r IH]; intros accs h; cbn [fold_left]; [reflexivity|].
  pose proof (upsert_account_snd_off now accs h a (g a) first ins upd) as E.
  destruct (upsert_account false now (accs, h) a (g a) first ins upd) as [a1 h1]. cbn [snd] in E. subst h1. apply IH.
Qed.

Lemma commit_erase f now s ps md ts ref s1 o :
  commit_transaction f now s ps md ts ref = (s1, o) ->
  commit_transaction f0 now (erase s) ps md ts ref = (erase s1, option_map strip_tx o).
Proof.
  unfold commit_transaction. cbn [erase s_txs s_vols s_next_tx s_moves s_next_seq s_thist s_accounts s_ahist s_logs s_next_log f0 f_moves f_pcev f_tx_hist andb].
  rewrite ref_taken_strip. intros H.
  destruct (negb (ref =? "")%string && ref_taken (s_txs s) ref).
  - injection H as Hs Ho. subst s1 o. reflexivity.
  - destruct (if f_moves f then _ else _) as [[mv nr] sq]. injection H as Hs Ho. subst s1 o. unfold erase. cbn [s_txs s_vols s_next_tx s_next_log s_accounts s_logs option_map].
    rewrite map_app. reflexivity.
Qed.

Lemma upsert_tx_accounts_erase f now s t amd :
  erase (upsert_tx_accounts f now s t amd) = upsert_tx_accounts f0 now (erase s) (strip_tx t) amd.
Proof.
  unfold upsert_tx_accounts. cbn [strip_tx t_postings t_ts t_ins erase s_accounts s_ahist f0 f_acc_hist].
  pose proof (upsert_fold_fst (f_acc_hist f) now (amd_get amd) (Some (t_ts t)) (Some (t_ins t)) (Some (t_ins t))
                (involved_accounts (t_postings t) amd) (s_accounts s) (s_ahist s) []) as E.
  pose proof (upsert_fold_snd_off now (amd_get amd) (Some (t_ts t)) (Some (t_ins t)) (Some (t_ins t))
                (involved_accounts (t_postings t) amd) (s_accounts s) []) as E2.
  destruct (fold_left _ _ (s_accounts s, s_ahist s)) as [a1 h1]. destruct (fold_left _ _ (s_accounts s, [])) as [a2 h2].
  cbn [fst] in E. cbn [snd] in E2. subst a2 h2. reflexivity.
Qed.

Definition commutes (fn : tx -> tx) : Prop := forall x, strip_tx (fn x) = fn (strip_tx x).
Lemma tx_with_commutes (g : tx -> meta) upd (h : tx -> option Z) :
  (forall x, g (strip_tx x) = g x) -> (forall x, h (strip_tx x) = h x) -> commutes (fun x => tx_with x (g x) upd (h x)).
Proof. intros Hg Hh x. cbn beta. rewrite Hg, Hh. reflexivity. Qed.

Lemma touch_tx_erase f s t fn : commutes fn -> erase (touch_tx f s t fn) = touch_tx f0 (erase s) (strip_tx t) fn.
Proof.
  intros Hc. unfold touch_tx, erase. cbn [s_vols s_txs s_moves s_accounts s_ahist s_thist s_logs s_next_tx s_next_log s_next_seq f0 f_tx_hist strip_tx t_id].
  f_equal. unfold map_tx. rewrite !map_map. apply map_ext. intros x. cbn [strip_tx t_id]. destruct (t_id x =? t_id t); [apply Hc | reflexivity].
Qed.

Definition erase_outcome (o : outcome) : outcome :=
  match o with Done s p => Done (erase s) (strip_payload p) | Failed s e => Failed (erase s) e | Panicked => Panicked end.

Lemma run_input_erase f now s i : run_input f0 now (erase s) i = erase_outcome (run_input f now s i).
Proof.
  script_split i.
  { cbn [run_input]. unfold create_tx. destruct ps as [|p ps']; [reflexivity|]. cbn [erase s_vols].
    destruct (feasible force (s_vols s) (p :: ps')); cbn [negb]; [|reflexivity].
    destruct (commit_transaction f now s (p :: ps') md ts ref) as [s1 o] eqn:E.
    change (s_vols s) with (s_vols (erase s)). rewrite (commit_erase _ _ _ _ _ _ _ _ _ E).
    destruct o as [t|]; cbn [option_map erase_outcome strip_payload]; [|reflexivity].
    rewrite upsert_tx_accounts_erase. reflexivity. }
  destruct i as [ps ts ref md amd force | id force at_eff rmeta | [a|id] md | [a|id] k | ps ts ref md amd force smd samd];
    [apply Hc | | | | | | ]; cbn [run_input].
  - cbn [erase s_txs]. rewrite find_tx_strip. destruct (find_tx (s_txs s) id) as [t|]; cbn [option_map erase_outcome]; [|reflexivity].
    cbn [strip_tx t_rev]. destruct (t_rev t); [reflexivity|].
    set (mark := fun x : tx => tx_with x (t_meta x) now (Some now)).
    assert (Hcm : commutes mark) by (apply (tx_with_commutes t_meta now (fun _ => Some now)); reflexivity).
    change (map strip_tx (s_txs s)) with (s_txs (erase s)).
    replace ({| s_vols := s_vols s; s_txs := s_txs (erase s); s_moves := []; s_accounts := s_accounts s; s_ahist := []; s_thist := [];
                s_logs := map strip_log (s_logs s); s_next_tx := s_next_tx s; s_next_log := s_next_log s; s_next_seq := 1 |}) with (erase s) by reflexivity.
    rewrite <- (touch_tx_erase f s t mark Hcm). cbn [strip_tx t_postings t_ts]. change (s_vols (erase (touch_tx f s t mark))) with (s_vols (touch_tx f s t mark)).
    destruct (if force then RCOk else revert_balances_ok (t_postings t) (s_vols (touch_tx f s t mark))); cbn [erase_outcome]; try reflexivity.
    match goal with |- context [commit_transaction f now ?a ?b ?c ?d ?e] => destruct (commit_transaction f now a b c d e) as [s2 o] eqn:E end.
    rewrite (commit_erase _ _ _ _ _ _ _ _ _ E). destruct o as [r|]; cbn [option_map erase_outcome strip_payload]; [|reflexivity].
    reflexivity.
  - unfold with_accounts. cbn [erase s_accounts s_ahist f0 f_acc_hist erase_outcome strip_payload s_vols s_txs s_moves s_thist s_logs s_next_tx s_next_log s_next_seq].
    rewrite (upsert_account_fst (f_acc_hist f) now (s_accounts s) (s_ahist s) [] a md (Some now) None None).
    rewrite (upsert_account_snd_off now (s_accounts s) [] a md (Some now) None None). reflexivity.
  - cbn [erase s_txs]. rewrite find_tx_strip. destruct (find_tx (s_txs s) id) as [t|]; cbn [option_map erase_outcome]; [|reflexivity].
    cbn [strip_tx t_meta]. destruct (mcontains (t_meta t) md); cbn [erase_outcome strip_payload]; [reflexivity|].
    assert (Hcm : commutes (fun x => tx_with x (mmerge (t_meta x) md) now (t_rev x))) by (apply (tx_with_commutes (fun x => mmerge (t_meta x) md) now t_rev); reflexivity).
    rewrite (touch_tx_erase f s t _ Hcm). reflexivity.
  - cbn [erase s_accounts]. destruct (find_account (s_accounts s) a) as [x|]; cbn [erase_outcome strip_payload]; reflexivity.
  - cbn [erase s_txs]. rewrite find_tx_strip. destruct (find_tx (s_txs s) id) as [t|]; cbn [option_map erase_outcome]; [|reflexivity].
    cbn [strip_tx t_meta]. destruct (mget (t_meta t) k); cbn [erase_outcome strip_payload]; [|reflexivity].
    assert (Hcm : commutes (fun x => tx_with x (mdel (t_meta x) k) now (t_rev x))) by (apply (tx_with_commutes (fun x => mdel (t_meta x) k) now t_rev); reflexivity).
    rewrite (touch_tx_erase f s t _ Hcm). reflexivity.
  - (* script create: both sides fail alike, or both are the plain create of the merged metadata *)
    destruct ps as [|p ps']; [reflexivity|]. cbn [erase s_vols].
    destruct (feasible force (s_vols s) (p :: ps')); cbn [negb]; [|reflexivity].
    destruct (script_tx_meta smd md) as [md'|]; [|reflexivity].
    exact (Hc (p :: ps') ts ref md' (script_acc_meta samd amd) force).
Qed.

Definition erase_result (r : step_result) : step_result := match r with SR s x => SR (erase s) x | SPanic => SPanic end.

Theorem step_erase f now s o : step f0 now (erase s) o = erase_result (step f now s o).
Proof.
  unfold step. cbn [erase s_logs]. rewrite find_ik_strip.
  destruct (find_ik (s_logs s) (o_ik o)) as [l|]; cbn [option_map].
  - cbn [strip_log l_input l_id l_payload]. rewrite payload_tx_id_strip.
    destruct (input_eq_dec (l_input l) (o_in o)); reflexivity.
  - change (map strip_log (s_logs s)) with (s_logs (erase s)).
    replace ({| s_vols := s_vols s; s_txs := map strip_tx (s_txs s); s_moves := []; s_accounts := s_accounts s; s_ahist := []; s_thist := [];
                s_logs := s_logs (erase s); s_next_tx := s_next_tx s; s_next_log := s_next_log s; s_next_seq := 1 |}) with (erase s) by reflexivity.
    rewrite (run_input_erase f). destruct (run_input f now s (o_in o)) as [s1 p|s1 e|]; cbn [erase_outcome erase_result]; [| |reflexivity].
    + rewrite payload_tx_id_strip. destruct (o_dry o); cbn [erase_result]; f_equal; unfold erase, only_sequences, append_log; cbn; try rewrite map_app; reflexivity.
    + unfold erase, only_sequences; cbn. reflexivity.
Qed.

Theorem run_erase f h : erase (run f h) = run f0 h.
Proof.
  unfold run.
  assert (G : forall s, erase (fold_left (fun s no => match step f (fst no) s (snd no) with SR s' _ => s' | SPanic => s end) h s)
                        = fold_left (fun s no => match step f0 (fst no) s (snd no) with SR s' _ => s' | SPanic => s end) h (erase s)).
  { induction h as [|[now o] r IH]; intros s; cbn [fold_left fst snd]; [reflexivity|].
    rewrite (step_erase f). destruct (step f now s o) as [s' res|]; cbn [erase_result]; apply IH. }
  rewrite G. reflexivity.
Qed.
