(* Metadata filters at a point in time (C20 "with or without a point in time" + C17 "history reflects the past"):
   1. the small metadata-filter language of Reads.v (metadata[k] = v, $exists, $and/$or/$not) embeds in the filter language of
      Filter.v; for these filters the SQL condition the code emits is two-valued and TRUE exactly when [msat] holds of the
      metadata column of the dataset row, the filter is valid, nothing is pushed down, and list = the matching entities;
   2. with ACCOUNT_METADATA_HISTORY = SYNC, the metadata column the volumes / aggregated balances / accounts datasets carry at a
      point in time t is, for EVERY address, the metadata the account had in the state reached at t ('{}' if it did not exist);
   3. hence a listing at t filtered by metadata selects exactly the rows whose account satisfied the filter AT t. *)
From Coq Require Import List ZArith String Bool Lia.
From LV Require Import Base.Util Ledger.Types Ledger.Core Ledger.Invariants Ledger.Reads Ledger.IkProofs Ledger.HistProofs Ledger.AHistProofs.
From LV Require Ledger.Filter Ledger.FilterProofs.
Import ListNotations.
Open Scope Z_scope.

(* ---------- 1. embedding into Filter.v ---------- *)
Fixpoint mf_filter (q : mfilter) : Filter.filter :=
  match q with
  | MfMatch k v => Filter.FLeaf Filter.OMatch (Filter.KMeta k) (Filter.VStr v)
  | MfExists k => Filter.FLeaf Filter.OExists Filter.KMetadata (Filter.VStr k)
  | MfAnd a b => Filter.FAnd [mf_filter a; mf_filter b]
  | MfOr a b => Filter.FOr [mf_filter a; mf_filter b]
  | MfNot a => Filter.FNot (mf_filter a)
  end.

Definition ent_meta (e : Filter.fentity) : meta :=
  match e with
  | Filter.ETx t => Filter.ft_metadata t | Filter.EAcc a => Filter.fa_metadata a
  | Filter.EVol v => Filter.fv_metadata v | Filter.ELog _ => []
  end.
(* the resources whose entities carry ACCOUNT metadata *)
Definition acc_res (R : Filter.fresource) : bool :=
  match R with Filter.RAcc | Filter.RVol | Filter.RAgg => true | _ => false end.

Lemma slookup_mget k (m : meta) : Filter.slookup k m = mget m k.
Proof.
  unfold mget. induction m as [|[k0 v0] r IH]; cbn [Filter.slookup aget]; [reflexivity|].
  rewrite (String.eqb_sym k k0). destruct (String.eqb k0 k); [reflexivity | exact IH].
Qed.

Lemma mf_sat R e q : FilterProofs.ent_kind R e = true -> acc_res R = true ->
  Filter.flt_sat R (mf_filter q) e = msat q (ent_meta e).
Proof.
  intros Hk HR. induction q as [k v|k|a IHa b IHb|a IHa b IHb|a IHa]; cbn [mf_filter Filter.flt_sat msat forallb existsb].
  - destruct R, e; try discriminate; cbn; rewrite slookup_mget; reflexivity.
  - destruct R, e; try discriminate; cbn; rewrite slookup_mget; reflexivity.
  - rewrite IHa, IHb, andb_true_r. reflexivity.
  - rewrite IHa, IHb, orb_false_r. reflexivity.
  - rewrite IHa. reflexivity.
Qed.

Lemma mf_strict R q : acc_res R = true -> FilterProofs.strict_f R (mf_filter q) = true.
Proof.
  intros HR. induction q as [k v|k|a IHa b IHb|a IHa b IHb|a IHa]; cbn [mf_filter FilterProofs.strict_f forallb FilterProofs.is_nil negb andb].
  - destruct R; try discriminate; reflexivity.
  - destruct R; try discriminate; reflexivity.
  - rewrite IHa, IHb. reflexivity.
  - rewrite IHa, IHb. reflexivity.
  - exact IHa.
Qed.

Lemma mf_pos R q : acc_res R = true -> FilterProofs.pos_f R (mf_filter q) = true.
Proof.
  intros HR. induction q as [k v|k|a IHa b IHb|a IHa b IHb|a IHa]; cbn [mf_filter FilterProofs.pos_f forallb FilterProofs.is_nil negb andb].
  - destruct R; try discriminate; reflexivity.
  - destruct R; try discriminate; reflexivity.
  - rewrite IHa, IHb. reflexivity.
  - rewrite IHa, IHb. reflexivity.
  - apply mf_strict. exact HR.
Qed.

(* the WHERE condition the code emits for a metadata filter is TRUE / FALSE (never NULL, never an error) as msat says *)
Theorem mf_emit_sound R e q : FilterProofs.ent_kind R e = true -> acc_res R = true ->
  Filter.flt_eval (Filter.flt_emit R (mf_filter q)) (Filter.row_of e) = Some (Filter.tri_of_bool (msat q (ent_meta e))).
Proof.
  intros Hk HR. rewrite (FilterProofs.emit_strict R e Hk (mf_filter q) (mf_strict R q HR)), (mf_sat R e q Hk HR). reflexivity.
Qed.

(* validation accepts them *)
Definition is_meta_leaf (okv : Filter.fop * Filter.fkey * Filter.fval) : bool :=
  match okv with
  | (Filter.OMatch, Filter.KMeta _, Filter.VStr _) => true
  | (Filter.OExists, Filter.KMetadata, Filter.VStr _) => true
  | _ => false
  end.
Lemma mf_leaves q : forallb is_meta_leaf (Filter.flt_leaves (mf_filter q)) = true.
Proof.
  induction q as [k v|k|a IHa b IHb|a IHa b IHb|a IHa]; cbn [mf_filter Filter.flt_leaves flat_map]; try reflexivity;
    try (rewrite app_nil_r, forallb_app, IHa, IHb; reflexivity). exact IHa.
Qed.
Lemma meta_leaf_ok R okv : acc_res R = true -> is_meta_leaf okv = true ->
  Filter.static_invalid R okv = false /\ (let '(o, k, v) := okv in Filter.leaf_verdict R o k v) = Filter.FvOk.
Proof.
  intros HR H. destruct okv as [[o k] v]. destruct o; cbn in H; try discriminate; destruct k; try discriminate; destruct v; try discriminate;
    destruct R; try discriminate; split; reflexivity.
Qed.
Lemma validate_meta_leaves R ls : acc_res R = true -> forallb is_meta_leaf ls = true ->
  existsb (Filter.static_invalid R) ls = false /\
  fold_left (fun acc okv => Filter.verdict_join acc (let '(o, k, v) := okv in Filter.leaf_verdict R o k v)) ls Filter.FvOk = Filter.FvOk.
Proof.
  intros HR. induction ls as [|x r IH]; intros H; [split; reflexivity|]. cbn [forallb] in H. apply andb_true_iff in H. destruct H as [Hx Hr].
  destruct (meta_leaf_ok R x HR Hx) as [A B]. destruct (IH Hr) as [C D]. cbn [existsb fold_left]. rewrite A, B, C. cbn [orb Filter.verdict_join].
  split; [reflexivity | exact D].
Qed.
Theorem mf_valid R q : acc_res R = true -> Filter.flt_validate R (mf_filter q) = Filter.FvOk.
Proof.
  intros HR. unfold Filter.flt_validate. destruct (validate_meta_leaves R _ HR (mf_leaves q)) as [A B]. rewrite A. exact B.
Qed.

(* list = exactly the entities whose metadata column satisfies the filter (SQL three-valued model of Filter.v, any push-down decision) *)
Theorem mf_list R pit q es : acc_res R = true ->
  (forall e, In e es -> FilterProofs.ent_kind R e = true /\ FilterProofs.wf_entity e) ->
  Filter.flt_list R pit (mf_filter q) es = Filter.FrOk (filter (fun e => msat q (ent_meta e)) es).
Proof.
  intros HR Hes. rewrite FilterProofs.list_sound_pushdown.
  - unfold Filter.flt_ref. f_equal. apply filter_ext_in. intros e He. apply mf_sat; [exact (proj1 (Hes e He)) | exact HR].
  - apply mf_valid. exact HR.
  - intros e He. destruct (Hes e He) as [A B]. repeat split; [exact A | exact B | apply mf_pos; exact HR].
Qed.

(* ---------- 2. the metadata as of t, for every address ---------- *)
Theorem account_metadata_as_of_total f h1 h2 t a :
  f_acc_hist f = true -> Forall (fun no => fst no <= t) h1 -> Forall (fun no => t < fst no) h2 ->
  ahist_at (s_ahist (run f (h1 ++ h2))) a t = acc_meta_cur (run f h1) a.
Proof.
  intros Fh H1 H2. rewrite run_app.
  assert (HC : ACurS (run f h1) t).
  { unfold run. change (fold_left _ h1 init_state) with (run_from f init_state h1). apply run_from_acurs; [exact H1 | exact Fh | apply acurs_init]. }
  destruct (run_from_ahist_ext f t h2 (run f h1) H2) as (ext & A & B).
  rewrite ahist_at_unfold, A, asel_skip by (eapply Forall_impl; [|exact B]; cbn; intros r Hr; right; exact Hr).
  unfold acc_meta_cur. destruct (find_account (s_accounts (run f h1)) a) as [x|] eqn:F.
  - destruct (find_account_some _ _ _ F) as [Hx <-]. rewrite <- ahist_at_unfold. apply (ac_cur _ _ _ HC). exact Hx.
  - destruct (asel (s_ahist (run f h1)) a t) as [b|] eqn:S; [|reflexivity]. exfalso.
    destruct (asel_some _ _ _ _ S) as [Hb Eb]. destruct (ac_rows _ _ _ HC b Hb) as (x & Hx & Ex).
    apply (find_account_none _ _ F x Hx). rewrite Ex. exact Eb.
Qed.

Theorem vol_meta_as_of f h1 h2 t w a :
  f_acc_hist f = true -> Forall (fun no => fst no <= t) h1 -> Forall (fun no => t < fst no) h2 -> w_pit w = Some t ->
  vol_meta f (run f (h1 ++ h2)) w a = acc_meta_cur (run f h1) a.
Proof. intros Fh H1 H2 Hw. unfold vol_meta. rewrite Hw, Fh. apply account_metadata_as_of_total; assumption. Qed.

Theorem agg_meta_as_of f h1 h2 t a :
  f_acc_hist f = true -> Forall (fun no => fst no <= t) h1 -> Forall (fun no => t < fst no) h2 ->
  agg_meta f (run f (h1 ++ h2)) (Some t) a = acc_meta_cur (run f h1) a.
Proof. intros Fh H1 H2. unfold agg_meta. rewrite Fh. apply account_metadata_as_of_total; assumption. Qed.

(* with the feature DISABLED aggregated balances and accounts filter on the CURRENT metadata, at any point in time *)
Theorem agg_meta_history_off f s pit a : f_acc_hist f = false -> agg_meta f s pit a = acc_meta_cur s a.
Proof. intros Fh. unfold agg_meta. rewrite Fh. destruct pit; reflexivity. Qed.

(* ---------- 3. filtered listings ---------- *)
Theorem read_volumes_q_rows f s w q u v :
  read_volumes f s w = Some u -> read_volumes_q f s w (Some q) 0 = Some v ->
  forall kv, In kv v <-> In kv u /\ msat q (vol_meta f s w (fst (fst kv))) = true.
Proof.
  intros Hu Hv kv. unfold read_volumes_q in Hv. rewrite Hu in Hv. cbn [group_volumes] in Hv. inversion Hv; subst v. apply filter_In.
Qed.

(* grouping happens after the WHERE: a grouped, filtered listing is the grouping of the filtered listing *)
Theorem read_volumes_q_grouped f s w q g v0 :
  read_volumes_q f s w q 0 = Some v0 -> read_volumes_q f s w q g = Some (group_volumes g v0).
Proof.
  unfold read_volumes_q. destruct (read_volumes f s w) as [u|]; [|discriminate]. cbn [group_volumes]. intros H. inversion H. reflexivity.
Qed.

Theorem read_volumes_q_as_of f h1 h2 t w q u v :
  f_acc_hist f = true -> Forall (fun no => fst no <= t) h1 -> Forall (fun no => t < fst no) h2 -> w_pit w = Some t ->
  read_volumes f (run f (h1 ++ h2)) w = Some u -> read_volumes_q f (run f (h1 ++ h2)) w (Some q) 0 = Some v ->
  forall kv, In kv v <-> In kv u /\ msat q (acc_meta_cur (run f h1) (fst (fst kv))) = true.
Proof.
  intros Fh H1 H2 Hw Hu Hv kv. rewrite (read_volumes_q_rows _ _ _ _ _ _ Hu Hv kv), (vol_meta_as_of f h1 h2 t w _ Fh H1 H2 Hw). reflexivity.
Qed.

Theorem read_accounts_q_as_of f h1 h2 t q r :
  f_acc_hist f = true -> Forall (fun no => fst no <= t) h1 -> Forall (fun no => t < fst no) h2 ->
  (In r (read_accounts_q f (run f (h1 ++ h2)) (Some t) q) <->
   In r (read_accounts f (run f (h1 ++ h2)) (Some t)) /\ msat q (acc_meta_cur (run f h1) (ar_addr r)) = true).
Proof.
  intros Fh H1 H2. unfold read_accounts_q. rewrite filter_In.
  assert (G : In r (read_accounts f (run f (h1 ++ h2)) (Some t)) -> ar_meta r = acc_meta_cur (run f h1) (ar_addr r)).
  { intros Hr. unfold read_accounts in Hr. apply in_map_iff in Hr. destruct Hr as (x & <- & _). cbn [ar_meta ar_addr]. rewrite Fh.
    apply account_metadata_as_of_total; assumption. }
  split; intros [A B]; (split; [exact A|]); [rewrite <- (G A) | rewrite (G A)]; exact B.
Qed.

(* aggregated balances at t with a metadata filter: the sum per asset over the rows of the accounts that satisfied the filter AT t *)
Theorem read_aggregated_q_as_of f h1 h2 t ins q :
  f_acc_hist f = true -> Forall (fun no => fst no <= t) h1 -> Forall (fun no => t < fst no) h2 ->
  let s := run f (h1 ++ h2) in
  read_aggregated_q f s (Some t) ins q =
  (if (if ins then f_moves f else f_pcev f)
   then Some (sum_by_asset (filter (fun kv : key * vol => msat q (acc_meta_cur (run f h1) (fst (fst kv)))) (volumes_at s t ins)))
   else None).
Proof.
  intros Fh H1 H2 s. unfold read_aggregated_q.
  assert (E : forall rows : volmap, filter (fun kv : key * vol => msat q (agg_meta f s (Some t) (fst (fst kv)))) rows
                                    = filter (fun kv : key * vol => msat q (acc_meta_cur (run f h1) (fst (fst kv)))) rows).
  { intros rows. apply filter_ext. intros kv. unfold s. rewrite (agg_meta_as_of f h1 h2 t _ Fh H1 H2). reflexivity. }
  destruct ins; [destruct (f_moves f) | destruct (f_pcev f)]; try reflexivity; rewrite E; reflexivity.
Qed.

(* ---------- ACCOUNT_METADATA_HISTORY = DISABLED: the history table stays empty ---------- *)
Lemma upsert_account_off now accs hist a md first ins upd : snd (upsert_account false now (accs, hist) a md first ins upd) = hist.
Proof. unfold upsert_account. destruct (find_account accs a) as [x|]; [destruct (acc_needs_update x md first)|]; reflexivity. Qed.

Lemma upsert_fold_off now (g : addr -> meta) first ins upd l : forall st,
  snd (fold_left (fun st a => upsert_account false now st a (g a) first ins upd) l st) = snd st.
Proof.
  induction l as [|a r IH]; intros [accs hist]; cbn [fold_left]; [reflexivity|].
  rewrite IH. apply upsert_account_off.
Qed.

Lemma run_input_ahist_off f now s i : f_acc_hist f = false -> s_ahist (outcome_state (run_input f now s i) s) = s_ahist s.
Proof.
  intros Fh. script_split i.
  { simpl. unfold create_tx. destruct ps as [|p ps']; [reflexivity|].
    destruct (feasible force (s_vols s) (p :: ps')); simpl; [|reflexivity].
    destruct (commit_transaction f now s (p :: ps') md ts ref) as [s1 [x|]] eqn:E; simpl.
    + pose proof (commit_some _ _ _ _ _ _ _ _ _ E) as (_ & _ & _ & _ & _ & _ & _ & _ & _ & _ & _ & _ & _ & _ & Hh & _).
      unfold upsert_tx_accounts. rewrite Fh.
      pose proof (upsert_fold_off now (amd_get amd) (Some (t_ts x)) (Some (t_ins x)) (Some (t_ins x)) (involved_accounts (t_postings x) amd) (s_accounts s1, s_ahist s1)) as A.
      destruct (fold_left _ _ (s_accounts s1, s_ahist s1)) as [a1 h1]. cbn [snd s_ahist] in *. rewrite A. exact Hh.
    + pose proof (commit_none _ _ _ _ _ _ _ _ E) as (_ & _ & _ & _ & Hh & _). exact Hh. }
  destruct i as [ps ts ref md amd force | id force at_eff rmeta | [a|id] md | [a|id] k | ps ts ref md amd force smd samd];
    [apply Hc | | | | | | script_bullet Hc]; simpl.
  - destruct (find_tx (s_txs s) id) as [x|]; [|reflexivity].
    destruct (t_rev x); [reflexivity|].
    match goal with |- context [match ?c with RCOk => _ | RCInsufficient => _ | RCPanic => _ end] => destruct c end;
      cbn [outcome_state]; try reflexivity.
    match goal with |- context [commit_transaction ?a ?b ?c ?d ?e ?g ?h] => destruct (commit_transaction a b c d e g h) as [s2 [r|]] eqn:E end; cbn [outcome_state].
    + pose proof (commit_some _ _ _ _ _ _ _ _ _ E) as (_ & _ & _ & _ & _ & _ & _ & _ & _ & _ & _ & _ & _ & _ & Hh & _). exact Hh.
    + pose proof (commit_none _ _ _ _ _ _ _ _ E) as (_ & _ & _ & _ & Hh & _). exact Hh.
  - unfold with_accounts. cbn [s_ahist]. rewrite Fh. exact (upsert_account_off now (s_accounts s) (s_ahist s) a md (Some now) None None).
  - destruct (find_tx (s_txs s) id) as [x|]; [|reflexivity]. destruct (mcontains (t_meta x) md); reflexivity.
  - destruct (find_account (s_accounts s) a) as [x|]; simpl; [|reflexivity]. unfold with_accounts. cbn [s_ahist snd]. rewrite Fh. reflexivity.
  - destruct (find_tx (s_txs s) id) as [x|]; [|reflexivity]. destruct (mget (t_meta x) k); reflexivity.
Qed.

Lemma step_ahist_off f now s o s' r : f_acc_hist f = false -> step f now s o = SR s' r -> s_ahist s' = s_ahist s.
Proof.
  intros Fh H. unfold step in H.
  destruct (find_ik (s_logs s) (o_ik o)) as [l|].
  - destruct (input_eq_dec (l_input l) (o_in o)); inversion H; subst; reflexivity.
  - pose proof (run_input_ahist_off f now s (o_in o) Fh) as H1.
    destruct (run_input f now s (o_in o)) as [s1 p|s1 e|]; cbn [outcome_state] in *; [| |discriminate].
    + destruct (o_dry o); inversion H; subst; [reflexivity | exact H1].
    + inversion H; subst. reflexivity.
Qed.

Theorem run_ahist_off f h : f_acc_hist f = false -> s_ahist (run f h) = [].
Proof.
  intros Fh. unfold run.
  assert (G : forall s, s_ahist s = [] -> s_ahist (fold_left (fun s no => match step f (fst no) s (snd no) with SR s' _ => s' | SPanic => s end) h s) = []).
  { induction h as [|[now o] r IH]; intros s Hs; cbn [fold_left]; [exact Hs|]. apply IH. cbn [fst snd].
    destruct (step f now s o) as [s' res|] eqn:E; [rewrite (step_ahist_off _ _ _ _ _ _ Fh E); exact Hs | exact Hs]. }
  apply G. reflexivity.
Qed.

(* with the feature DISABLED the volumes dataset carries the CURRENT metadata, with or without a window (fix f445e43) *)
Theorem vol_meta_history_off f s w a : f_acc_hist f = false -> vol_meta f s w a = acc_meta_cur s a.
Proof. intros Fh. unfold vol_meta. rewrite Fh. destruct (w_pit w), (w_oot w); reflexivity. Qed.
