(* The log hash chain, layered over Core.v (which has no hash column).
   Part 1 is generic: rows of any type with an id, ANY hash function H, ANY pre-image function (None = the trigger
   raises and the insert fails). One ATOMIC INSERT EVENT = what a session does between taking
   pg_advisory_xact_lock(ledger id) (storage/ledger/logs.go:InsertLog) and its commit:
       previousHash := hash of the row with the greatest id   (select hash .. order by id desc limit 1)
       new.hash     := H (pre previousHash new)               (before-insert trigger set_log_hash)
   Part 2 instantiates it on the logs of Core.step.
   >>> HOOK for the concurrent model: every theorem of Part 1 is stated over an arbitrary list of atomic insert events
   (insert_all). A schedule in which the advisory lock serialises the inserts of one ledger IS such a list (the order
   in which the lock is granted), provided the ids are drawn inside the locked section in increasing order
   (nextval is evaluated by the INSERT itself, after the lock). chain_linear_serialized is the statement to use. *)
From Coq Require Import List ZArith Bool Lia Sorted.
From LV Require Import Base.Util Base.Json Ledger.Types Ledger.Core Ledger.Invariants.
Import ListNotations.
Open Scope Z_scope.

Section Chain.
  Context {L : Type}.
  Variable lid : L -> Z.
  Variable H : bytes -> bytes.
  Variable pre : option bytes -> L -> option bytes.

  Definition row := (L * bytes)%type.
  Definition ids (t : list row) : list Z := map (fun r => lid (fst r)) t.

  (* select hash from logs order by id desc limit 1: the row with the greatest id (the first such row on ties) *)
  Fixpoint max_row (t : list row) : option row :=
    match t with
    | [] => None
    | r :: t' => match max_row t' with
                 | Some m => if lid (fst r) <? lid (fst m) then Some m else Some r
                 | None => Some r
                 end
    end.
  Definition prev_hash (t : list row) : option bytes := option_map snd (max_row t).

  (* one atomic insert event; a raising trigger leaves the table unchanged (the transaction rolls back) *)
  Definition insert (t : list row) (l : L) : list row :=
    match pre (prev_hash t) l with
    | Some x => t ++ [(l, H x)]
    | None => t
    end.
  Definition insert_all (t : list row) (ls : list L) : list row := fold_left insert ls t.

  (* the chain, read in table order: the first row hashes from no predecessor, every other row from the row before it *)
  Fixpoint chain_from (p : option bytes) (t : list row) : Prop :=
    match t with
    | [] => True
    | (l, h) :: r => (exists x, pre p l = Some x /\ h = H x) /\ chain_from (Some h) r
    end.
  Definition chain_ok (t : list row) : Prop := chain_from None t.

  Definition last_hash (p : option bytes) (t : list row) : option bytes :=
    match rev t with [] => p | (_, h) :: _ => Some h end.

  Lemma last_hash_snoc p t r : last_hash p (t ++ [r]) = Some (snd r).
  Proof. unfold last_hash. rewrite rev_app_distr. destruct r. reflexivity. Qed.

  Lemma last_hash_cons p r t : last_hash p (r :: t) = last_hash (Some (snd r)) t.
  Proof.
    unfold last_hash. simpl. destruct (rev t) as [|[l h] q] eqn:E; simpl; [destruct r; reflexivity|reflexivity].
  Qed.

  Lemma chain_from_snoc t : forall p l h,
    chain_from p (t ++ [(l, h)]) <-> chain_from p t /\ exists x, pre (last_hash p t) l = Some x /\ h = H x.
  Proof.
    induction t as [|[l0 h0] t IH]; intros p l h.
    - simpl. unfold last_hash. simpl. tauto.
    - replace (last_hash p ((l0, h0) :: t)) with (last_hash (Some h0) t) by (symmetry; exact (last_hash_cons p (l0, h0) t)).
      cbn [app chain_from]. rewrite IH. tauto.
  Qed.

  (* when ids increase along the table, the greatest id is the last row *)
  Lemma max_row_sorted t r : StronglySorted Z.lt (ids (t ++ [r])) -> max_row (t ++ [r]) = Some r.
  Proof.
    induction t as [|a t IH]; intros Hs; [reflexivity|].
    simpl in Hs. apply StronglySorted_inv in Hs. destruct Hs as [Hs Hall].
    simpl. rewrite (IH Hs). rewrite Forall_forall in Hall.
    assert (Hlt : lid (fst a) < lid (fst r)).
    { apply Hall. unfold ids. rewrite map_app. apply in_or_app. right. left. reflexivity. }
    destruct (Z.ltb_spec (lid (fst a)) (lid (fst r))); [reflexivity | lia].
  Qed.

  Lemma prev_hash_sorted t : StronglySorted Z.lt (ids t) -> prev_hash t = last_hash None t.
  Proof.
    destruct (rev t) as [|r q] eqn:E.
    - apply (f_equal (@rev row)) in E. rewrite rev_involutive in E. subst. reflexivity.
    - apply (f_equal (@rev row)) in E. rewrite rev_involutive in E. simpl in E. subst t. intros Hs.
      unfold prev_hash. rewrite (max_row_sorted _ _ Hs). rewrite last_hash_snoc. reflexivity.
  Qed.

  Definition ChainInv (t : list row) : Prop := StronglySorted Z.lt (ids t) /\ chain_ok t.

  Lemma ids_snoc t r : ids (t ++ [r]) = ids t ++ [lid (fst r)].
  Proof. unfold ids. rewrite map_app. reflexivity. Qed.

  Lemma sorted_snoc_lt (l : list Z) x : StronglySorted Z.lt l -> Forall (fun y => y < x) l -> StronglySorted Z.lt (l ++ [x]).
  Proof.
    induction l as [|a l IH]; intros Hs Hf; simpl.
    - constructor; constructor.
    - apply StronglySorted_inv in Hs. destruct Hs as [Hs Ha]. inversion Hf as [|? ? Hax Hf']; subst.
      constructor; [apply IH; assumption|]. apply Forall_app. split; [exact Ha | constructor; [exact Hax | constructor]].
  Qed.

  (* an atomic insert with an id above all stored ids keeps the chain *)
  Theorem insert_inv t l : ChainInv t -> Forall (fun y => y < lid l) (ids t) -> ChainInv (insert t l).
  Proof.
    intros [Hs Hc] Hlt. unfold insert. destruct (pre (prev_hash t) l) as [x|] eqn:E; [|split; assumption].
    split.
    - rewrite ids_snoc. apply sorted_snoc_lt; assumption.
    - unfold chain_ok. apply chain_from_snoc. split; [exact Hc|]. exists x. rewrite <- (prev_hash_sorted t Hs). auto.
  Qed.

  Lemma insert_ids_bound t l b : Forall (fun y => y < b) (ids t) -> lid l < b -> Forall (fun y => y < b) (ids (insert t l)).
  Proof.
    intros Ht Hl. unfold insert. destruct (pre (prev_hash t) l); [|exact Ht].
    rewrite ids_snoc. apply Forall_app. split; [exact Ht | constructor; [exact Hl | constructor]].
  Qed.

  (* any sequence of atomic inserts whose ids increase (and exceed the stored ones) keeps the chain *)
  Theorem insert_all_inv ls : forall t,
    ChainInv t -> StronglySorted Z.lt (map lid ls) -> (forall l, In l ls -> Forall (fun y => y < lid l) (ids t)) ->
    ChainInv (insert_all t ls).
  Proof.
    induction ls as [|l ls IH]; intros t Ht Hs Hb; [exact Ht|].
    simpl. simpl in Hs. apply StronglySorted_inv in Hs. destruct Hs as [Hs Hl].
    apply IH; [apply insert_inv; [exact Ht | apply Hb; left; reflexivity] | exact Hs |].
    intros l' Hin. rewrite Forall_forall in Hl.
    apply insert_ids_bound; [apply Hb; right; exact Hin | apply Hl; apply in_map; exact Hin].
  Qed.

  Corollary chain_of_inserts ls : StronglySorted Z.lt (map lid ls) -> ChainInv (insert_all [] ls).
  Proof. intros Hs. apply insert_all_inv; [split; constructor | exact Hs | intros; constructor]. Qed.

  (* linearity, stated structurally: the row at position 0 hashes from nothing; the row at position i+1 hashes from the
     hash of the row at position i and from nothing else. Positions are id order (ids strictly increase), so every row
     has exactly one predecessor, the row with the next smaller id, and no row is the predecessor of two rows. *)
  Lemma chain_from_nth t : forall p, chain_from p t ->
    (forall l h, nth_error t 0 = Some (l, h) -> exists x, pre p l = Some x /\ h = H x) /\
    (forall i l h l' h', nth_error t i = Some (l', h') -> nth_error t (S i) = Some (l, h) -> exists x, pre (Some h') l = Some x /\ h = H x).
  Proof.
    induction t as [|[l0 h0] t IH]; intros p Hc.
    - split; intros; try (destruct i); discriminate.
    - simpl in Hc. destruct Hc as [H0 Hc]. destruct (IH _ Hc) as [IH0 IHS]. split.
      + intros l h E. inversion E; subst. exact H0.
      + intros [|i] l h l' h' E1 E2; simpl in E1, E2.
        * inversion E1; subst. exact (IH0 l h E2).
        * exact (IHS i l h l' h' E1 E2).
  Qed.

  Theorem chain_linear t : ChainInv t ->
    StronglySorted Z.lt (ids t) /\
    (forall l h, nth_error t 0 = Some (l, h) -> exists x, pre None l = Some x /\ h = H x) /\
    (forall i l h l' h', nth_error t i = Some (l', h') -> nth_error t (S i) = Some (l, h) ->
       lid l' < lid l /\ exists x, pre (Some h') l = Some x /\ h = H x).
  Proof.
    intros [Hs Hc]. destruct (chain_from_nth t None Hc) as [H0 HS]. split; [exact Hs|]. split; [exact H0|].
    intros i l h l' h' E1 E2. split; [|exact (HS i l h l' h' E1 E2)].
    clear - Hs E1 E2. revert i E1 E2. induction t as [|a t IH]; intros i E1 E2; [destruct i; discriminate|].
    simpl in Hs. apply StronglySorted_inv in Hs. destruct Hs as [Hs Ha].
    destruct i as [|i]; simpl in E1, E2.
    - inversion E1; subst. rewrite Forall_forall in Ha. apply Ha.
      destruct t as [|b t]; [discriminate|]. simpl in E2. inversion E2; subst. left. reflexivity.
    - exact (IH Hs i E1 E2).
  Qed.

  (* HOOK (see the header): inserts serialised by the lock, ids drawn in lock order => linear chain *)
  Corollary chain_linear_serialized ls : StronglySorted Z.lt (map lid ls) ->
    let t := insert_all [] ls in
    StronglySorted Z.lt (ids t) /\
    (forall l h, nth_error t 0 = Some (l, h) -> exists x, pre None l = Some x /\ h = H x) /\
    (forall i l h l' h', nth_error t i = Some (l', h') -> nth_error t (S i) = Some (l, h) ->
       lid l' < lid l /\ exists x, pre (Some h') l = Some x /\ h = H x).
  Proof. intros Hs. apply chain_linear. apply chain_of_inserts. exact Hs. Qed.

  (* every attempted insert whose pre-image exists is stored, in order *)
  Lemma insert_all_logs ls : forall t, (forall p l, In l ls -> pre p l <> None) ->
    map fst (insert_all t ls) = map fst t ++ ls.
  Proof.
    induction ls as [|l ls IH]; intros t Hok; simpl; [rewrite app_nil_r; reflexivity|].
    rewrite IH by (intros p l' Hin; apply Hok; right; exact Hin).
    unfold insert. destruct (pre (prev_hash t) l) eqn:E; [|exfalso; exact (Hok _ l (or_introl eq_refl) E)].
    rewrite map_app. simpl. rewrite <- app_assoc. reflexivity.
  Qed.

  (* ---------- recomputation by a verifier that uses another pre-image function (Go's ComputeHash) ---------- *)
  Variable pre' : option bytes -> L -> bytes.

  (* walk the exported logs in order, each time hashing from the hash just recomputed *)
  Fixpoint recompute (p : option bytes) (ls : list L) : list bytes :=
    match ls with
    | [] => []
    | l :: r => let h := H (pre' p l) in h :: recompute (Some h) r
    end.

  (* Pq: a property of the predecessor hashes that can occur (the start value and every output of H), under which the
     verifier's pre-image is known to agree *)
  Variable Pq : option bytes -> Prop.
  Hypothesis Pq_H : forall x, Pq (Some (H x)).

  Theorem recompute_reproduces t : forall p, Pq p ->
    chain_from p t -> (forall q l, Pq q -> In l (map fst t) -> forall x, pre q l = Some x -> x = pre' q l) ->
    recompute p (map fst t) = map snd t.
  Proof.
    induction t as [|[l h] t IH]; intros p Hp Hc Hag; [reflexivity|].
    simpl in Hc. destruct Hc as [[x [Hx Hh]] Hc]. simpl.
    assert (E : H (pre' p l) = h).
    { rewrite Hh. f_equal. symmetry. apply (Hag p l Hp); [left; reflexivity | exact Hx]. }
    rewrite E. f_equal. apply IH; [rewrite Hh; apply Pq_H | exact Hc|]. intros q l' Hq Hin. apply Hag; [exact Hq | right; exact Hin].
  Qed.
End Chain.

(* ---------------------------------------------------------------- Part 2: the logs of Core.step *)
Section CoreChain.
  Variable H : bytes -> bytes.
  Variable pre : option bytes -> log -> option bytes.

  (* the hash column of the logs table after a history: one atomic insert per log, in commit order *)
  Definition log_table (s : state) : list (log * bytes) := insert_all l_id H pre [] (s_logs s).
  Definition hashes (s : state) : list bytes := map snd (log_table s).

  Theorem run_chain f h : ChainInv l_id H pre (log_table (run f h)).
  Proof. apply chain_of_inserts. exact (inv_logs_sorted _ (proj2 (run_inv f h))). Qed.

  (* a committed write = exactly one more atomic insert event, with the next id *)
  Theorem step_appends_event f now s o s' lid tid :
    o_dry o = false -> step f now s o = SR s' (ROk lid tid false) ->
    exists l, l_id l = s_next_log s /\ log_table s' = insert l_id H pre (log_table s) l.
  Proof.
    intros Hd Hst. destruct (step_commit_one_log f now s o s' lid tid Hd Hst) as [l (Hl & Hid & _ & _ & _ & _ & Hnext & _)].
    exists l. split; [congruence|]. unfold log_table, insert_all. rewrite Hl, fold_left_app. reflexivity.
  Qed.
End CoreChain.
