(* Proofs about Ledger/ConcChain.v: under READ COMMITTED, with the advisory lock taken before every log insert and held until the
   end of the transaction, the stored rows form a hash chain that is linear in id order - after every step of every schedule, for
   any number of requests, each inserting any number of logs in one transaction (atomic bulks), committing or rolling back.
   One invariant [cinv], preserved by every [step]:
     - ids increase along the table and lie below the sequence;
     - the table is (committed rows) ++ (rows of the open transaction that holds the advisory lock): nobody else has rows in flight;
     - the table is a chain (HashChain.chain_ok);
     - a request about to insert holds the lock; every request runs at READ COMMITTED.
   The step that matters is the insert: the INSERT's snapshot is taken after the lock was granted, all other rows are committed, so
   the trigger reads the row with the greatest id of the WHOLE table, i.e. the step IS HashChain.insert.  *)
From Coq Require Import List ZArith Bool Arith Lia Sorted.
From LV Require Import Base.Util Base.Json Ledger.HashChain Ledger.ConcChain.
Import ListNotations.
Open Scope Z_scope.

Lemma nth_upd_same {A} (l : list A) w f : nth_error (upd_nth l w f) w = option_map f (nth_error l w).
Proof. revert w. induction l as [|x l IH]; intros [|w]; simpl; auto. Qed.
Lemma nth_upd_other {A} (l : list A) w w0 f : w0 <> w -> nth_error (upd_nth l w f) w0 = nth_error l w0.
Proof. revert w w0. induction l as [|x l IH]; intros [|w] [|w0] Hn; simpl; auto; try congruence. Qed.
Lemma in_upd {A} (l : list A) w f s : In s (upd_nth l w f) -> In s l \/ exists s0, In s0 l /\ s = f s0.
Proof.
  revert w. induction l as [|x l IH]; intros [|w] Hin; simpl in *; auto.
  - destruct Hin as [<-|Hin]; [right; exists x; auto | auto].
  - destruct Hin as [<-|Hin]; [auto|]. destruct (IH _ Hin) as [Hl|[s0 [Hs0 ->]]]; [auto | right; exists s0; auto].
Qed.
Lemma filter_all {A} (f : A -> bool) l : (forall x, In x l -> f x = true) -> filter f l = l.
Proof. induction l as [|x l IH]; intros Hf; simpl; [reflexivity|]. rewrite (Hf x (or_introl eq_refl)). f_equal. apply IH. intros y Hy. apply Hf. right; exact Hy. Qed.
Lemma filter_none {A} (f : A -> bool) l : (forall x, In x l -> f x = false) -> filter f l = [].
Proof. induction l as [|x l IH]; intros Hf; simpl; [reflexivity|]. rewrite (Hf x (or_introl eq_refl)). apply IH. intros y Hy. apply Hf. right; exact Hy. Qed.
Lemma sorted_prefix (a b : list Z) : StronglySorted Z.lt (a ++ b) -> StronglySorted Z.lt a.
Proof.
  induction a as [|x a IH]; intros Hs; [constructor|]. simpl in Hs. apply StronglySorted_inv in Hs. destruct Hs as [Hs Hx].
  constructor; [apply IH; exact Hs|]. apply Forall_app in Hx. tauto.
Qed.

Section Proofs.
  Context {P : Type}.
  Variable H : bytes -> bytes.
  Variable pre : option bytes -> (Z * P) -> option bytes.
  Variable pay : rid -> nat -> P.
  Notation gst := (@gst P).
  Notation crow := (@crow P).
  Notation step := (step H pre pay).
  Notation run := (run H pre pay).

  Lemma ids_tbl (rs : list crow) : ids fst (tbl rs) = map r_id rs.
  Proof. unfold ids, tbl. rewrite map_map. reflexivity. Qed.
  Lemma tbl_app (a b : list crow) : tbl (a ++ b) = tbl a ++ tbl b.
  Proof. unfold tbl. apply map_app. Qed.

  Lemma chain_from_app_l (a b : list (@row (Z * P))) : forall p, chain_from H pre p (a ++ b) -> chain_from H pre p a.
  Proof. induction a as [|[l h] a IH]; intros p Hc; simpl in *; [exact I|]. destruct Hc as [H0 Hc]. split; [exact H0 | exact (IH _ Hc)]. Qed.

  Definition committed_le (n : nat) (r : crow) : Prop := exists k, r_seq r = Some k /\ (k <= n)%nat.
  Definition inflight_of (h : option rid) (r : crow) : Prop := r_seq r = None /\ h = Some (r_own r).

  Record cinv (g : gst) : Prop := {
    i_sorted : StronglySorted Z.lt (map r_id (g_rows g));
    i_below : Forall (fun r => r_id r < g_next g) (g_rows g);
    i_split : exists a b, g_rows g = a ++ b /\ Forall (committed_le (g_ncommit g)) a /\ Forall (inflight_of (g_adv g)) b;
    i_chain : chain_ok H pre (tbl (g_rows g));
    i_lock : forall w s, nth_error (g_ws g) w = Some s -> w_pc s = CLog -> g_adv g = Some w;
    i_rc : forall s, In s (g_ws g) -> q_iso (w_req s) = RC }.

  (* ---- generic pieces ---- *)
  Lemma lock_upd (ws : list wst) (adv adv' : option rid) w f :
    (forall w' s, nth_error ws w' = Some s -> w_pc s = CLog -> adv = Some w') ->
    (forall s, nth_error ws w = Some s -> w_pc (f s) = CLog -> adv' = Some w) ->
    (forall w', w' <> w -> adv = Some w' -> adv' = Some w') ->
    forall w' s, nth_error (upd_nth ws w f) w' = Some s -> w_pc s = CLog -> adv' = Some w'.
  Proof.
    intros Hold Hme Hoth w' s Hn Hp. destruct (Nat.eq_dec w' w) as [->|Hne].
    - rewrite nth_upd_same in Hn. destruct (nth_error ws w) as [s0|] eqn:E; [|discriminate]. simpl in Hn. inversion Hn; subst. eapply Hme; eauto.
    - rewrite nth_upd_other in Hn by exact Hne. apply Hoth; [exact Hne|]. eapply Hold; eauto.
  Qed.

  Lemma rc_upd (ws : list wst) w f :
    (forall s, w_req (f s) = w_req s) -> (forall s, In s ws -> q_iso (w_req s) = RC) -> forall s, In s (upd_nth ws w f) -> q_iso (w_req s) = RC.
  Proof. intros Hf Hrc s Hin. destruct (in_upd _ _ _ _ Hin) as [Hl|[s0 [Hs0 ->]]]; [auto|]. rewrite Hf. auto. Qed.

  Lemma holds_true (g : gst) w : holds g w = true -> g_adv g = Some w.
  Proof. unfold holds. destruct (g_adv g) as [h|]; [|discriminate]. intros E. apply Nat.eqb_eq in E. subst. reflexivity. Qed.
  Lemma holds_false_other (g : gst) w w' : w' <> w -> g_adv g = Some w' -> holds g w = false.
  Proof. intros Hne E. unfold holds. rewrite E. apply Nat.eqb_neq. exact Hne. Qed.
  Lemma release_other (g : gst) w w' : w' <> w -> g_adv g = Some w' -> release g w = Some w'.
  Proof. intros Hne E. unfold release. rewrite (holds_false_other g w w' Hne E). exact E. Qed.

  Lemma mine_committed w n (r : crow) : committed_le n r -> mine w r = false.
  Proof. intros [k [E _]]. unfold mine. rewrite E. reflexivity. Qed.
  Lemma mine_inflight_holder w (r : crow) : inflight_of (Some w) r -> mine w r = true.
  Proof. intros [E Ho]. unfold mine. rewrite E. inversion Ho. apply Nat.eqb_refl. Qed.
  Lemma mine_inflight_other w h (r : crow) : h <> w -> inflight_of (Some h) r -> mine w r = false.
  Proof. intros Hne [E Ho]. unfold mine. rewrite E. inversion Ho; subst. apply Nat.eqb_neq. exact Hne. Qed.
  Lemma inflight_none_nil (b : list crow) : Forall (inflight_of None) b -> b = [].
  Proof. destruct b as [|r b]; [reflexivity|]. intros Hf. inversion Hf as [|? ? [_ Hx] _]. discriminate. Qed.
  Lemma committed_le_mono n m (r : crow) : (n <= m)%nat -> committed_le n r -> committed_le m r.
  Proof. intros Hle [k [E Hk]]. exists k. split; [exact E | lia]. Qed.

  (* what the end of w's transaction without COMMIT leaves of the table: a prefix of it, split the same way *)
  Lemma abort_rows (g : gst) w : cinv g ->
    exists a b' c, filter (fun r => negb (mine w r)) (g_rows g) = a ++ b' /\ g_rows g = (a ++ b') ++ c /\
                   Forall (committed_le (g_ncommit g)) a /\ Forall (inflight_of (release g w)) b'.
  Proof.
    intros I. destruct (i_split g I) as [a [b [Hr [Ha Hb]]]].
    assert (Fa : filter (fun r => negb (mine w r)) a = a).
    { apply filter_all. intros r Hin. rewrite Forall_forall in Ha. rewrite (mine_committed w _ r (Ha r Hin)). reflexivity. }
    rewrite Hr, filter_app, Fa. destruct (g_adv g) as [h|] eqn:Eadv.
    - destruct (Nat.eq_dec h w) as [->|Hne].
      + assert (Fb : filter (fun r => negb (mine w r)) b = []).
        { apply filter_none. intros r Hin. rewrite Forall_forall in Hb. rewrite (mine_inflight_holder w r (Hb r Hin)). reflexivity. }
        rewrite Fb. exists a, [], b. rewrite !app_nil_r. split; [reflexivity|split; [reflexivity|split; [exact Ha|constructor]]].
      + assert (Fb : filter (fun r => negb (mine w r)) b = b).
        { apply filter_all. intros r Hin. rewrite Forall_forall in Hb. rewrite (mine_inflight_other w h r Hne (Hb r Hin)). reflexivity. }
        rewrite Fb. exists a, b, []. rewrite !app_nil_r. split; [reflexivity|split; [reflexivity|split; [exact Ha|]]].
        rewrite (release_other g w h Hne Eadv). exact Hb.
    - rewrite (inflight_none_nil b Hb). exists a, [], []. simpl. rewrite !app_nil_r. repeat split; auto.
  Qed.

  Lemma cinv_abort_tables (g : gst) w rows' : cinv g -> rows' = filter (fun r => negb (mine w r)) (g_rows g) ->
    StronglySorted Z.lt (map r_id rows') /\ Forall (fun r => r_id r < g_next g) rows' /\
    (exists a b, rows' = a ++ b /\ Forall (committed_le (g_ncommit g)) a /\ Forall (inflight_of (release g w)) b) /\
    chain_ok H pre (tbl rows').
  Proof.
    intros I ->. destruct (abort_rows g w I) as [a [b' [c [Hf [Hr [Ha Hb]]]]]]. rewrite Hf.
    pose proof (i_sorted g I) as Hs. pose proof (i_below g I) as Hbl. pose proof (i_chain g I) as Hc. rewrite Hr in Hs, Hbl, Hc.
    split; [|split; [|split]].
    - rewrite map_app in Hs. exact (sorted_prefix _ _ Hs).
    - apply Forall_app in Hbl. tauto.
    - exists a, b'. auto.
    - unfold chain_ok in *. rewrite tbl_app in Hc. exact (chain_from_app_l _ _ _ Hc).
  Qed.

  Lemma stamp_id w n (r : crow) : r_id (stamp w n r) = r_id r.
  Proof. unfold stamp. destruct (mine w r); reflexivity. Qed.
  Lemma tbl_stamp w n (rs : list crow) : tbl (map (stamp w n) rs) = tbl rs.
  Proof. unfold tbl. rewrite map_map. apply map_ext. intros r. unfold stamp. destruct (mine w r); reflexivity. Qed.

  Lemma stamp_split (g : gst) w : cinv g ->
    exists a b, map (stamp w (S (g_ncommit g))) (g_rows g) = a ++ b /\ Forall (committed_le (S (g_ncommit g))) a /\ Forall (inflight_of (release g w)) b.
  Proof.
    intros I. destruct (i_split g I) as [a [b [Hr [Ha Hb]]]]. set (n := S (g_ncommit g)).
    assert (Fa : map (stamp w n) a = a).
    { rewrite <- (map_id a) at 2. apply map_ext_in. intros r Hin. rewrite Forall_forall in Ha. unfold stamp. rewrite (mine_committed w _ r (Ha r Hin)). reflexivity. }
    assert (Ha' : Forall (committed_le n) a).
    { rewrite Forall_forall in *. intros r Hin. apply (committed_le_mono (g_ncommit g)); [unfold n; lia | auto]. }
    rewrite Hr, map_app, Fa. destruct (g_adv g) as [h|] eqn:Eadv.
    - destruct (Nat.eq_dec h w) as [->|Hne].
      + exists (a ++ map (stamp w n) b), []. rewrite app_nil_r. split; [reflexivity|]. split; [|constructor].
        apply Forall_app. split; [exact Ha'|]. rewrite Forall_forall in *. intros r Hin. apply in_map_iff in Hin. destruct Hin as [r0 [<- Hin0]].
        unfold stamp. rewrite (mine_inflight_holder w r0 (Hb r0 Hin0)). exists n. simpl. split; [reflexivity | lia].
      + assert (Fb : map (stamp w n) b = b).
        { rewrite <- (map_id b) at 2. apply map_ext_in. intros r Hin. rewrite Forall_forall in Hb. unfold stamp.
          rewrite (mine_inflight_other w h r Hne (Hb r Hin)). reflexivity. }
        rewrite Fb. exists a, b. split; [reflexivity|split; [exact Ha'|]].
        rewrite (release_other g w h Hne Eadv). exact Hb.
    - rewrite (inflight_none_nil b Hb). exists a, []. simpl. rewrite app_nil_r. repeat split; auto.
  Qed.

  (* under READ COMMITTED the INSERT of the lock holder sees the whole table *)
  Lemma sees_all (g : gst) w s : cinv g -> g_adv g = Some w -> q_iso (w_req s) = RC ->
    filter (sees w (stmt_snap g s)) (g_rows g) = g_rows g.
  Proof.
    intros I Eadv Hrc. apply filter_all. intros r Hin. destruct (i_split g I) as [a [b [Hr [Ha Hb]]]].
    unfold stmt_snap. rewrite Hrc. rewrite Hr in Hin. apply in_app_or in Hin. unfold sees. rewrite Forall_forall in Ha, Hb. destruct Hin as [Hin|Hin].
    - destruct (Ha r Hin) as [k [E Hk]]. rewrite E. apply Nat.leb_le. exact Hk.
    - destruct (Hb r Hin) as [E Ho]. rewrite E. rewrite Eadv in Ho. inversion Ho. apply Nat.eqb_refl.
  Qed.

  Lemma next_pc_not_log rest : next_pc rest <> CLog.
  Proof. destruct rest as [|[|] ?]; discriminate. Qed.

  (* ---- every step preserves the invariant ---- *)
  Lemma step_cinv g w : cinv g -> cinv (step g w).
  Proof.
    intros I. unfold ConcChain.step. destruct (nth_error (g_ws g) w) as [s|] eqn:Hw; [|exact I].
    pose proof (i_rc g I s (nth_error_In _ _ Hw)) as Hrc.
    destruct (w_pc s) eqn:Hpc.
    - (* CStart *)
      unfold do_start, upd_w, set_ws. destruct I as [I1 I2 I3 I4 I5 I6]. constructor; simpl; auto.
      + eapply lock_upd; [exact I5| |]; simpl; intros; auto. exfalso. eapply next_pc_not_log; eauto.
      + apply rc_upd; [reflexivity | exact I6].
    - (* CAdv *)
      unfold do_adv. destruct (g_adv g) as [h|] eqn:Eadv.
      + destruct (Nat.eqb h w) eqn:Eh.
        * apply Nat.eqb_eq in Eh. subst h. unfold ev, upd_w, set_ws. destruct I as [I1 I2 I3 I4 I5 I6]. constructor; simpl; auto.
          -- eapply lock_upd; [exact I5| |]; simpl; intros; auto.
          -- apply rc_upd; [reflexivity | exact I6].
        * unfold ev. destruct I as [I1 I2 I3 I4 I5 I6]. constructor; simpl; auto.
      + unfold ev, upd_w, set_ws. destruct I as [I1 I2 I3 I4 I5 I6]. constructor; simpl; auto.
        * destruct I3 as [a [b [Hr [Ha Hb]]]]. rewrite Eadv in Hb. rewrite (inflight_none_nil b Hb) in *. exists a, []. auto.
        * eapply lock_upd; [exact I5| |]; simpl; intros; auto. congruence.
        * apply rc_upd; [reflexivity | exact I6].
    - (* CLog *)
      unfold do_log. destruct (holds g w) eqn:Eh; simpl; [|exact I]. pose proof (holds_true g w Eh) as Eadv.
      unfold trigger_prev. rewrite (sees_all g w s I Eadv Hrc).
      destruct (pre (prev_hash fst (tbl (g_rows g))) (g_next g, pay w (w_k s))) as [x|] eqn:Epre.
      + (* the step is HashChain.insert *)
        assert (Hins : tbl (g_rows g ++ [{| r_id := g_next g; r_pay := pay w (w_k s); r_hash := H x; r_own := w; r_seq := None |}])
                       = insert fst H pre (tbl (g_rows g)) (g_next g, pay w (w_k s))).
        { unfold insert. rewrite Epre. rewrite tbl_app. reflexivity. }
        assert (Hci : ChainInv fst H pre (insert fst H pre (tbl (g_rows g)) (g_next g, pay w (w_k s)))).
        { apply insert_inv.
          - split; [rewrite ids_tbl; exact (i_sorted g I) | exact (i_chain g I)].
          - rewrite ids_tbl. simpl. pose proof (i_below g I) as Hb. rewrite Forall_forall in *. intros y Hy. apply in_map_iff in Hy.
            destruct Hy as [r [<- Hr]]. exact (Hb r Hr). }
        rewrite <- Hins in Hci. destruct Hci as [Hs Hc]. rewrite ids_tbl in Hs.
        unfold ev, upd_w, set_ws. destruct I as [I1 I2 I3 I4 I5 I6]. constructor; simpl; auto.
        * apply Forall_app. split; [|constructor; [simpl; lia|constructor]].
          rewrite Forall_forall in *. intros r Hr. specialize (I2 r Hr). lia.
        * destruct I3 as [a [b [Hr [Ha Hb]]]]. exists a, (b ++ [{| r_id := g_next g; r_pay := pay w (w_k s); r_hash := H x; r_own := w; r_seq := None |}]).
          split; [rewrite Hr, app_assoc; reflexivity|]. split; [exact Ha|]. apply Forall_app. split; [exact Hb|]. constructor; [|constructor].
          split; [reflexivity | exact Eadv].
        * eapply lock_upd; [exact I5| |]; simpl; intros; auto.
        * apply rc_upd; [reflexivity | exact I6].
      + (* the trigger raises: abort *)
        destruct (cinv_abort_tables g w _ I eq_refl) as [A1 [A2 [A3 A4]]].
        unfold ev, upd_w, set_ws, abort. destruct I as [I1 I2 I3 I4 I5 I6]. constructor; simpl; auto.
        * rewrite Forall_forall in *. intros r Hr. specialize (A2 r Hr). lia.
        * eapply lock_upd; [exact I5| |]; simpl; intros; try discriminate. apply release_other; auto.
        * apply rc_upd; [reflexivity | exact I6].
    - (* CCommit *)
      unfold do_commit. destruct (stamp_split g w I) as [a [b [Hr [Ha Hb]]]].
      unfold ev, upd_w, set_ws. destruct I as [I1 I2 I3 I4 I5 I6]. constructor; simpl; auto.
      + rewrite map_map. erewrite map_ext; [exact I1|]. intros r. apply stamp_id.
      + rewrite Forall_forall in *. intros r Hin. apply in_map_iff in Hin. destruct Hin as [r0 [<- Hin0]]. rewrite stamp_id. auto.
      + exists a, b. auto.
      + rewrite tbl_stamp. exact I4.
      + eapply lock_upd; [exact I5| |]; simpl; intros; try discriminate. apply release_other; auto.
      + apply rc_upd; [reflexivity | exact I6].
    - (* CRollback *)
      unfold do_rollback. destruct (cinv_abort_tables g w _ I eq_refl) as [A1 [A2 [A3 A4]]].
      unfold ev, upd_w, set_ws, abort. destruct I as [I1 I2 I3 I4 I5 I6]. constructor; simpl; auto.
      + eapply lock_upd; [exact I5| |]; simpl; intros; try discriminate. apply release_other; auto.
      + apply rc_upd; [reflexivity | exact I6].
    - exact I.
  Qed.

  Theorem cinv_all_schedules sched : forall g, cinv g -> cinv (run g sched).
  Proof. induction sched as [|w sched IH]; intros g I; simpl; [exact I | apply IH; apply step_cinv; exact I]. Qed.

  Definition all_rc (reqs : list creq) : Prop := forall q, In q reqs -> q_iso q = RC.

  Lemma cinv_init reqs : all_rc reqs -> cinv (init reqs).
  Proof.
    intros Hrc. constructor; simpl; try constructor.
    - exists [], []. repeat split; constructor.
    - intros w s Hn Hp. rewrite nth_error_map in Hn. destruct (nth_error reqs w); [|discriminate]. inversion Hn; subst. discriminate.
    - intros s Hin. apply in_map_iff in Hin. destruct Hin as [q [<- Hq]]. simpl. apply Hrc. exact Hq.
  Qed.

  Lemma cinv_clear_ghosts g : cinv g -> cinv (clear_ghosts g).
  Proof. intros [I1 I2 I3 I4 I5 I6]. constructor; simpl; auto. Qed.

  (* ---- consequences ---- *)
  Theorem cinv_chain g : cinv g -> ChainInv fst H pre (tbl (g_rows g)).
  Proof. intros I. split; [rewrite ids_tbl; exact (i_sorted g I) | exact (i_chain g I)]. Qed.

  (* what readers see at any moment - the committed rows - is a chain too: rows in flight are a suffix of the table *)
  Theorem cinv_committed_chain g : cinv g -> ChainInv fst H pre (tbl (committed_rows g)).
  Proof.
    intros I. destruct (i_split g I) as [a [b [Hr [Ha Hb]]]]. unfold committed_rows. rewrite Hr, filter_app.
    assert (Fa : filter committed a = a).
    { apply filter_all. intros r Hin. rewrite Forall_forall in Ha. destruct (Ha r Hin) as [k [E _]]. unfold committed. rewrite E. reflexivity. }
    assert (Fb : filter committed b = []).
    { apply filter_none. intros r Hin. rewrite Forall_forall in Hb. destruct (Hb r Hin) as [E _]. unfold committed. rewrite E. reflexivity. }
    rewrite Fa, Fb, app_nil_r. pose proof (i_sorted g I) as Hs. pose proof (i_chain g I) as Hc. rewrite Hr in Hs, Hc. split.
    - rewrite ids_tbl. rewrite map_app in Hs. exact (sorted_prefix _ _ Hs).
    - unfold chain_ok in *. rewrite tbl_app in Hc. exact (chain_from_app_l _ _ _ Hc).
  Qed.

  (* mutual exclusion: rows in flight belong to the holder of the advisory lock *)
  Theorem cinv_inflight_holder g r : cinv g -> In r (g_rows g) -> r_seq r = None -> g_adv g = Some (r_own r).
  Proof.
    intros I Hin E. destruct (i_split g I) as [a [b [Hr [Ha Hb]]]]. rewrite Hr in Hin. apply in_app_or in Hin. rewrite Forall_forall in Ha, Hb.
    destruct Hin as [Hin|Hin]; [destruct (Ha r Hin) as [k [E' _]]; congruence | exact (proj2 (Hb r Hin))].
  Qed.

  Lemma all_rc_app a b : all_rc a -> all_rc b -> all_rc (a ++ b).
  Proof. intros Ha Hb q Hin. apply in_app_or in Hin. destruct Hin; auto. Qed.
  Lemma all_rc_singles n : all_rc (repeat single n).
  Proof. intros q Hin. apply repeat_spec in Hin. subst. reflexivity. Qed.

  Theorem cinv_outcome n racers sched : all_rc racers -> cinv (chain_outcome H pre pay n racers sched).
  Proof.
    intros Hrc. unfold chain_outcome. apply cinv_all_schedules. apply cinv_clear_ghosts. apply cinv_all_schedules.
    apply cinv_init. apply all_rc_app; [apply all_rc_singles | exact Hrc].
  Qed.
End Proofs.
