(* Data model of one ledger as the storage layer sees it (tables of internal/storage/bucket migrations,
   restricted to one ledger) and the controller-level operations. Amounts, ids and timestamps are Z. *)
From Coq Require Import List ZArith String Bool.
From LV Require Import Base.Util.
Import ListNotations.
Open Scope Z_scope.

Definition addr := str.
Definition asset := str.
Definition key := (addr * asset)%type.
Definition vol := (Z * Z)%type.                 (* (input, output) *)
Definition volmap := list (key * vol).          (* accounts_volumes rows of the ledger *)
Definition meta := list (str * str).            (* jsonb object of strings *)

Record posting := { p_src : addr; p_dst : addr; p_asset : asset; p_amt : Z }.

Record features := {
  f_moves : bool;      (* MOVES_HISTORY = ON *)
  f_pcev : bool;       (* MOVES_HISTORY_POST_COMMIT_EFFECTIVE_VOLUMES = SYNC *)
  f_acc_hist : bool;   (* ACCOUNT_METADATA_HISTORY = SYNC *)
  f_tx_hist : bool;    (* TRANSACTION_METADATA_HISTORY = SYNC *)
  f_hash : bool        (* HASH_LOGS = SYNC *)
}.

Record tx := {
  t_id : Z; t_postings : list posting; t_meta : meta; t_ts : Z; t_ref : str;
  t_ins : Z; t_upd : Z; t_rev : option Z; t_pcv : volmap; t_pcev : option volmap
}.

Record move := {
  m_seq : Z; m_tx : Z; m_acc : addr; m_asset : asset; m_amt : Z; m_src : bool;
  m_ins : Z; m_eff : Z; m_pcv : vol; m_pcev : option vol
}.

Record account := { a_addr : addr; a_meta : meta; a_first : Z; a_ins : Z; a_upd : Z }.

Record ahist := { ah_addr : addr; ah_rev : Z; ah_date : Z; ah_meta : meta }.
Record thist := { th_tx : Z; th_rev : Z; th_date : Z; th_meta : meta }.

Inductive target := TAcc (a : addr) | TTx (id : Z).

(* what the caller submits (Parameters.Input): the idempotency fingerprint is computed from this *)
Inductive input :=
| ICreate (ps : list posting) (ts : option Z) (ref : str) (md : meta) (amd : list (addr * meta)) (force : bool)
| IRevert (id : Z) (force : bool) (at_eff : bool) (rmeta : meta)
| ISetMeta (t : target) (md : meta)
| IDelMeta (t : target) (k : str)
(* a create whose Numscript also calls set_tx_meta (smd) / set_account_meta (samd); md / amd are what the request
   carries beside the script (CreateTransaction.Metadata / AccountMetadata). The input is the request AS SUBMITTED:
   the metadata the script computes is not part of it. *)
| IScript (ps : list posting) (ts : option Z) (ref : str) (md : meta) (amd : list (addr * meta)) (force : bool)
          (smd : meta) (samd : list (addr * meta)).

Record op := { o_in : input; o_ik : str; o_dry : bool }.

Inductive payload :=
| PNewTx (t : tx) (amd : list (addr * meta))
| PRevert (orig : tx) (rev : tx)
| PSetMeta (t : target) (md : meta)
| PDelMeta (t : target) (k : str).

Record log := { l_id : Z; l_payload : payload; l_date : Z; l_ik : str; l_input : input }.

Record state := {
  s_vols : volmap;
  s_txs : list tx;            (* insertion order *)
  s_moves : list move;        (* insertion (seq) order *)
  s_accounts : list account;  (* insertion order *)
  s_ahist : list ahist;
  s_thist : list thist;
  s_logs : list log;          (* insertion order *)
  s_next_tx : Z;              (* sequences: never rolled back *)
  s_next_log : Z;
  s_next_seq : Z
}.

Definition init_state : state :=
  {| s_vols := []; s_txs := []; s_moves := []; s_accounts := []; s_ahist := []; s_thist := []; s_logs := [];
     s_next_tx := 1; s_next_log := 1; s_next_seq := 1 |}.

Inductive err :=
| EInsufficientFunds | EReferenceConflict | EIdempotencyInput | EAlreadyReverted | ENotFound | ENoPostings
| EMetadataOverride.

Inductive result :=
| ROk (log_id : Z) (tx_id : option Z) (hit : bool)
| RErr (e : err).
