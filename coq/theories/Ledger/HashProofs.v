(* Lemmas about Base/Json.v and Ledger/Hash.v: bytea escape round trip, verbatim strings of the Go encoder, date formats,
   base64 vs PostgreSQL's line-wrapped base64, and the agreement / disagreement of the two pre-images. *)
From Coq Require Import List Ascii String NArith ZArith Bool Lia.
From LV Require Import Base.Json Ledger.Hash.
Import ListNotations.

(* ---------------------------------------------------------------- generic helpers *)
Definition nobs (l : bytes) : Prop := forallb (fun c => negb (is_bs c)) l = true.

Lemma nobs_nil : nobs []. Proof. reflexivity. Qed.
Lemma nobs_app a b : nobs a -> nobs b -> nobs (a ++ b).
Proof. unfold nobs. intros Ha Hb. rewrite forallb_app, Ha, Hb. reflexivity. Qed.
Lemma nobs_cons c l : is_bs c = false -> nobs l -> nobs (c :: l).
Proof. unfold nobs. simpl. intros -> ->. reflexivity. Qed.
Lemma nobs_inv c l : nobs (c :: l) -> is_bs c = false /\ nobs l.
Proof. unfold nobs. simpl. rewrite andb_true_iff, negb_true_iff. tauto. Qed.
Lemma nobs_app_inv a b : nobs (a ++ b) -> nobs a /\ nobs b.
Proof. unfold nobs. rewrite forallb_app, andb_true_iff. tauto. Qed.
Lemma nobs_rev l : nobs l -> nobs (rev l).
Proof. unfold nobs. rewrite !forallb_forall. intros Hl x Hx. apply Hl. apply in_rev. exact Hx. Qed.

Lemma option_map_map {A B C} (f : A -> B) (g : B -> C) o : option_map g (option_map f o) = option_map (fun x => g (f x)) o.
Proof. destruct o; reflexivity. Qed.
Lemma option_map_ext {A B} (f g : A -> B) o : (forall x, f x = g x) -> option_map f o = option_map g o.
Proof. intros E. destruct o; simpl; [rewrite E|]; reflexivity. Qed.

(* ---------------------------------------------------------------- bytea: input conversion undoes encode(_, 'escape') *)
Lemma bytea_in_cons c q : is_bs c = false -> bytea_in (c :: q) = option_map (cons c) (bytea_in q).
Proof. intros Hc. simpl. rewrite Hc. reflexivity. Qed.

Lemma bytea_in_nobs_app p q : nobs p -> bytea_in (p ++ q) = option_map (app p) (bytea_in q).
Proof.
  induction p as [|c p IH]; intros Hp.
  - simpl. destruct (bytea_in q); reflexivity.
  - apply nobs_inv in Hp. destruct Hp as [Hc Hp]. rewrite <- app_comm_cons, bytea_in_cons by exact Hc.
    rewrite IH by exact Hp. rewrite option_map_map. reflexivity.
Qed.

Lemma bytea_esc1_in c q : bytea_in (bytea_esc1 c ++ q) = option_map (cons c) (bytea_in q).
Proof. destruct c as [[] [] [] [] [] [] [] []]; reflexivity. Qed.

Lemma bytea_in_escape_app b q : bytea_in (bytea_escape b ++ q) = option_map (app b) (bytea_in q).
Proof.
  induction b as [|c b IH].
  - simpl. destruct (bytea_in q); reflexivity.
  - unfold bytea_escape in *. simpl. rewrite <- app_assoc, bytea_esc1_in, IH, option_map_map. reflexivity.
Qed.

(* for ALL byte strings: text::bytea applied to encode(b, 'escape') gives b back *)
Theorem bytea_roundtrip b : bytea_in (bytea_escape b) = Some b.
Proof. rewrite <- (app_nil_r (bytea_escape b)), bytea_in_escape_app. simpl. rewrite app_nil_r. reflexivity. Qed.

Lemma bytea_in_nobs p : nobs p -> bytea_in p = Some p.
Proof. intros Hp. rewrite <- (app_nil_r p) at 1. rewrite bytea_in_nobs_app by exact Hp. simpl. rewrite app_nil_r. reflexivity. Qed.

(* ---------------------------------------------------------------- Go encoder: verbatim strings *)
Lemma go_esc_safe c : go_safe_ascii c = true -> go_esc_ascii c = [c] /\ is_bs c = false.
Proof. destruct c as [[] [] [] [] [] [] [] []]; vm_compute; try discriminate; intros _; split; reflexivity. Qed.

Definition hib (c : ascii) : bool := (128 <=? code c)%N.
Lemma hib_nobs c : hib c = true -> is_bs c = false.
Proof. unfold hib, is_bs. intros Hc. apply N.leb_le in Hc. apply N.eqb_neq. lia. Qed.
Lemma in_rng_hib lo hi c : (128 <= lo)%N -> in_rng lo hi c = true -> hib c = true.
Proof. unfold in_rng, hib. intros Hlo Hc. apply andb_true_iff in Hc. destruct Hc as [Hc _]. apply N.leb_le in Hc. apply N.leb_le. lia. Qed.
Lemma cont_hib c : cont c = true -> hib c = true.
Proof. apply in_rng_hib. lia. Qed.

(* a well-formed multi-byte rune consists of bytes >= 0x80 *)
Lemma utf8_len_hib b r n : utf8_len b r = S (S n) -> forallb hib (firstn (S n) r) = true /\ (S n <= List.length r)%nat.
Proof.
  unfold utf8_len.
  destruct (in_rng 194 223 b).
  { destruct r as [|c1 r]; [discriminate|]. destruct (cont c1) eqn:E1; [|discriminate]. intros Hn. inversion Hn; subst.
    simpl. split; [|lia]. rewrite (cont_hib _ E1). reflexivity. }
  destruct (in_rng 224 239 b).
  { destruct r as [|c1 [|c2 r]]; try discriminate.
    match goal with |- (if ?c then _ else _) = _ -> _ => destruct c eqn:E end; [|discriminate].
    intros Hn. inversion Hn; subst. apply andb_true_iff in E. destruct E as [E1 E2]. simpl. split; [|lia].
    rewrite (cont_hib _ E2).
    assert (H1 : hib c1 = true) by (destruct (code b =? 224)%N; refine (in_rng_hib _ _ _ _ E1); lia).
    rewrite H1. reflexivity. }
  destruct (in_rng 240 244 b); [|discriminate].
  destruct r as [|c1 [|c2 [|c3 r]]]; try discriminate.
  match goal with |- (if ?c then _ else _) = _ -> _ => destruct c eqn:E end; [|discriminate].
  intros Hn. inversion Hn; subst. apply andb_true_iff in E. destruct E as [E E3]. apply andb_true_iff in E. destruct E as [E1 E2].
  simpl. split; [|lia]. rewrite (cont_hib _ E2), (cont_hib _ E3).
  assert (H1 : hib c1 = true) by (destruct (code b =? 240)%N; refine (in_rng_hib _ _ _ _ E1); lia).
  rewrite H1. reflexivity.
Qed.

Lemma utf8_len_pos b r : utf8_len b r <> 0%nat.
Proof.
  unfold utf8_len.
  repeat match goal with
         | |- context [if ?c then _ else _] => destruct c
         | |- context [match ?l with [] => _ | _ :: _ => _ end] => destruct l
         end; discriminate.
Qed.

Lemma firstn_skipn_S {A} n (b : A) r : firstn (S n) (b :: r) ++ skipn n r = b :: r.
Proof. simpl. f_equal. apply firstn_skipn. Qed.

Lemma go_verb_body l : forall k, go_verb k l = true -> go_body k l = skipn k l.
Proof.
  induction l as [|b r IH]; intros k Hv.
  - destruct k; reflexivity.
  - destruct k as [|k]; simpl in *.
    + destruct (code b <? 128)%N.
      * apply andb_true_iff in Hv. destruct Hv as [Hs Hv]. destruct (go_esc_safe b Hs) as [-> _]. rewrite (IH 0%nat Hv). reflexivity.
      * destruct (utf8_len b r) as [|[|n]] eqn:En; try discriminate.
        { exfalso. exact (utf8_len_pos b r En). }
        destruct (lsps b r); [discriminate|]. simpl in Hv. rewrite (IH _ Hv).
        f_equal. exact (firstn_skipn (S n) r).
    + apply IH. exact Hv.
Qed.

Lemma nobs_skipn_cons (b : ascii) r k : nobs (skipn k r) -> forallb hib (firstn k r) = true -> nobs r.
Proof.
  revert r. induction k as [|k IH]; intros r Hs Hf; [exact Hs|].
  destruct r as [|c r]; [reflexivity|]. simpl in *. apply andb_true_iff in Hf. destruct Hf as [Hc Hf].
  apply nobs_cons; [apply hib_nobs; exact Hc | apply IH; assumption].
Qed.

Lemma go_verb_nobs l : forall k, go_verb k l = true -> nobs (skipn k l).
Proof.
  induction l as [|b r IH]; intros k Hv.
  - destruct k; reflexivity.
  - destruct k as [|k]; simpl in *.
    + destruct (code b <? 128)%N eqn:Eb.
      * apply andb_true_iff in Hv. destruct Hv as [Hs Hv]. destruct (go_esc_safe b Hs) as [_ Hb].
        apply nobs_cons; [exact Hb | exact (IH 0%nat Hv)].
      * assert (Hhb : is_bs b = false).
        { apply hib_nobs. unfold hib. apply N.ltb_ge in Eb. apply N.leb_le. exact Eb. }
        destruct (utf8_len b r) as [|[|n]] eqn:En; try discriminate.
        { exfalso. exact (utf8_len_pos b r En). }
        destruct (lsps b r); [discriminate|]. simpl in Hv. replace (n - 0)%nat with n in Hv by lia.
        destruct (utf8_len_hib b r n En) as [Hf _].
        apply nobs_cons; [exact Hhb|]. apply (nobs_skipn_cons b r (S n)); [exact (IH _ Hv) | exact Hf].
    + apply IH. exact Hv.
Qed.

Lemma go_string_verbatim s : go_verbatim s = true -> go_string s = [dq] ++ s ++ [dq] /\ nobs s.
Proof.
  intros Hv. split.
  - unfold go_string. rewrite (go_verb_body s 0%nat Hv). reflexivity.
  - exact (go_verb_nobs s 0%nat Hv).
Qed.

(* ---------------------------------------------------------------- base64: no backslash, no line break for short inputs *)
Lemma b64c_nobs n : is_bs (b64c n) = false.
Proof.
  unfold b64c. destruct (nth_in_or_default (N.to_nat n) b64_alphabet "="%char) as [Hin| ->]; [|reflexivity].
  revert Hin. generalize (nth (N.to_nat n) b64_alphabet "="%char). intros c Hin.
  assert (Hall : forallb (fun c => negb (is_bs c)) b64_alphabet = true) by reflexivity.
  rewrite forallb_forall in Hall. apply negb_true_iff. apply Hall. exact Hin.
Qed.

Lemma base64_nobs_aux : forall n l, (List.length l <= n)%nat -> nobs (base64 l).
Proof.
  induction n as [|n IH]; intros l Hl.
  - destruct l; [reflexivity | simpl in Hl; lia].
  - destruct l as [|a [|b [|c r]]]; try reflexivity.
    + simpl. repeat (apply nobs_cons; [first [apply b64c_nobs | reflexivity]|]). reflexivity.
    + simpl. repeat (apply nobs_cons; [first [apply b64c_nobs | reflexivity]|]). reflexivity.
    + cbn [base64]. repeat (apply nobs_cons; [apply b64c_nobs|]). apply IH. simpl in Hl. lia.
Qed.
Lemma base64_nobs l : nobs (base64 l).
Proof. exact (base64_nobs_aux (List.length l) l (le_n _)). Qed.

Lemma wrap_short w l : forall col, (List.length l <= col)%nat -> wrap w col l = l.
Proof.
  induction l as [|c r IH]; intros col Hl; [reflexivity|].
  destruct col as [|k]; [simpl in Hl; lia|]. simpl. rewrite IH; [reflexivity | simpl in Hl; lia].
Qed.
Lemma wrap_nobs w l : forall col, nobs l -> nobs (wrap w col l).
Proof.
  induction l as [|c r IH]; intros col Hl; [reflexivity|]. apply nobs_inv in Hl. destruct Hl as [Hc Hr].
  destruct col as [|k]; simpl.
  - apply nobs_cons; [exact Hc|]. apply nobs_cons; [reflexivity|]. apply IH. exact Hr.
  - apply nobs_cons; [exact Hc|]. apply IH. exact Hr.
Qed.
Lemma pg_base64_in p : bytea_in (pg_base64 p) = Some (pg_base64 p).
Proof. apply bytea_in_nobs. apply wrap_nobs. apply base64_nobs. Qed.

Lemma pg_base64_short p : (List.length (base64 p) < 76)%nat -> pg_base64 p = base64 p.
Proof. intros Hl. unfold pg_base64. apply wrap_short. lia. Qed.

(* a 32-byte digest (SHA-256) encodes to 44 characters: no line break *)
Lemma base64_len32 p : List.length p = 32%nat -> (List.length (base64 p) < 76)%nat.
Proof.
  intros Hl.
  do 33 (destruct p as [|? p]; [try discriminate Hl|]); try discriminate Hl.
  simpl. lia.
Qed.

(* ---------------------------------------------------------------- dates *)
Open Scope Z_scope.
Lemma digit_nobs n : is_bs (digit n) = false.
Proof.
  unfold digit. assert (Hb : 0 <= n mod 10 < 10) by (apply Z.mod_pos_bound; lia).
  remember (n mod 10) as d eqn:Ed. clear Ed.
  assert (Hd : d = 0 \/ d = 1 \/ d = 2 \/ d = 3 \/ d = 4 \/ d = 5 \/ d = 6 \/ d = 7 \/ d = 8 \/ d = 9) by lia.
  repeat (destruct Hd as [-> | Hd]; [reflexivity|]). subst. reflexivity.
Qed.
Lemma digits_nobs k : forall n, nobs (digits k n).
Proof. induction k as [|k IH]; intros n; [reflexivity|]. simpl. apply nobs_app; [apply IH|]. apply nobs_cons; [apply digit_nobs | reflexivity]. Qed.
Lemma pad4_nobs n : nobs (pad4 n).
Proof. unfold pad4. repeat match goal with |- context [if ?c then _ else _] => destruct c end; apply digits_nobs. Qed.
Lemma drop_zeros_nobs l : nobs l -> nobs (drop_zeros l).
Proof. induction l as [|c r IH]; intros Hl; [exact Hl|]. simpl. destruct (is_zero c); [|exact Hl]. apply IH. apply nobs_inv in Hl. tauto. Qed.
Lemma frac_nobs l : nobs l -> nobs (frac l).
Proof.
  intros Hl. unfold frac. assert (Ht : nobs (trim_zeros l)) by (unfold trim_zeros; apply nobs_rev, drop_zeros_nobs, nobs_rev; exact Hl).
  destruct (trim_zeros l); [reflexivity|]. apply nobs_cons; [reflexivity | exact Ht].
Qed.
Lemma pg_date_nobs t : nobs (pg_date t).
Proof.
  unfold pg_date, md, hms.
  destruct (c_y (civil_of_us t) <=? 0);
    repeat match goal with
           | |- nobs ((_ ++ _) ++ _) => rewrite <- app_assoc
           | |- nobs (pad4 _ ++ _) => apply nobs_app; [apply pad4_nobs|]
           | |- nobs (digits _ _ ++ _) => apply nobs_app; [apply digits_nobs|]
           | |- nobs (frac _ ++ _) => apply nobs_app; [apply frac_nobs; apply digits_nobs|]
           | |- nobs (B _ ++ _) => apply nobs_app; [reflexivity|]
           | |- nobs (digits _ _) => apply digits_nobs
           end; reflexivity.
Qed.

Lemma digits_times10 k u : digits (S k) (u * 10) = digits k u ++ [chr 48].
Proof.
  simpl. rewrite Z.div_mul by lia. unfold digit. rewrite Z.mod_mul by lia. reflexivity.
Qed.

Lemma trim_zeros_snoc0 l : trim_zeros (l ++ [chr 48]) = trim_zeros l.
Proof. unfold trim_zeros. rewrite rev_app_distr. reflexivity. Qed.

Lemma frac_nanos u : frac (digits 9 (u * 1000)) = frac (digits 6 u).
Proof.
  replace (u * 1000) with (u * 10 * 10 * 10) by lia.
  rewrite !digits_times10. unfold frac. rewrite !trim_zeros_snoc0. reflexivity.
Qed.

(* the two date formats coincide from year 1 on (timestamp >= 0001-01-01T00:00:00Z) *)
Lemma date_formats_agree t : 1 <= c_y (civil_of_us t) -> go_date t = pg_date t ++ B "Z".
Proof.
  intros Hy. unfold go_date, pg_date, go_year.
  destruct (Z.ltb_spec (c_y (civil_of_us t)) 0); [lia|].
  destruct (Z.leb_spec (c_y (civil_of_us t)) 0); [lia|].
  rewrite frac_nanos. rewrite app_nil_r. repeat rewrite <- app_assoc. reflexivity.
Qed.

(* ---------------------------------------------------------------- the two pre-images *)
Lemma type_name_plain t : go_string (type_name t) = [dq] ++ type_name t ++ [dq] /\ nobs (type_name t).
Proof. destruct t; split; reflexivity. Qed.

Ltac nobs_tac :=
  repeat match goal with
         | |- nobs ((_ ++ _) ++ _) => rewrite <- app_assoc
         | |- nobs (_ ++ _) => apply nobs_app; [first [assumption | apply pg_date_nobs | reflexivity]|]
         end; first [assumption | reflexivity].

Lemma sql_text_body l :
  go_verbatim (h_ik l) = true ->
  bytea_in (sql_text l) =
  Some (B "{" ++ [dq] ++ B "type" ++ [dq] ++ B ":" ++ [dq] ++ type_name (h_type l) ++ [dq]
        ++ B "," ++ [dq] ++ B "data" ++ [dq] ++ B ":" ++ h_memento l
        ++ B "," ++ [dq] ++ B "date" ++ [dq] ++ B ":" ++ [dq] ++ pg_date (h_date l) ++ B "Z" ++ [dq]
        ++ B "," ++ [dq] ++ B "idempotencyKey" ++ [dq] ++ B ":" ++ [dq] ++ h_ik l ++ [dq]
        ++ B "," ++ [dq] ++ B "id" ++ [dq] ++ B ":0"
        ++ B "," ++ [dq] ++ B "hash" ++ [dq] ++ B ":null" ++ B "}").
Proof.
  intros Hik. destruct (go_string_verbatim _ Hik) as [_ Hnb].
  destruct (type_name_plain (h_type l)) as [_ Hty].
  unfold sql_text.
  set (p1 := B "{" ++ [dq] ++ B "type" ++ [dq] ++ B ":" ++ [dq] ++ type_name (h_type l) ++ [dq] ++ B "," ++ [dq] ++ B "data" ++ [dq] ++ B ":").
  set (p2 := B "," ++ [dq] ++ B "date" ++ [dq] ++ B ":" ++ [dq] ++ pg_date (h_date l) ++ B "Z" ++ [dq]
             ++ B "," ++ [dq] ++ B "idempotencyKey" ++ [dq] ++ B ":" ++ [dq] ++ h_ik l ++ [dq]
             ++ B "," ++ [dq] ++ B "id" ++ [dq] ++ B ":0" ++ B "," ++ [dq] ++ B "hash" ++ [dq] ++ B ":null" ++ B "}").
  assert (Hp1 : nobs p1).
  { unfold p1. nobs_tac. }
  assert (Hp2 : nobs p2).
  { unfold p2. nobs_tac. }
  replace (B "{" ++ [dq] ++ B "type" ++ [dq] ++ B ":" ++ [dq] ++ type_name (h_type l) ++ [dq] ++ B "," ++ [dq] ++ B "data" ++ [dq] ++ B ":" ++
           bytea_escape (h_memento l) ++ _) with (p1 ++ bytea_escape (h_memento l) ++ p2)
    by (unfold p1, p2; repeat rewrite <- app_assoc; reflexivity).
  rewrite bytea_in_nobs_app by exact Hp1. rewrite bytea_in_escape_app. rewrite (bytea_in_nobs p2 Hp2). cbn [option_map].
  f_equal. unfold p1, p2. repeat rewrite <- app_assoc. reflexivity.
Qed.

Theorem preimages_agree prev l :
  go_verbatim (h_ik l) = true -> h_sv l = [] -> h_hash l = None -> 1 <= c_y (civil_of_us (h_date l)) ->
  (forall p, prev = Some p -> (List.length (base64 p) < 76)%nat) ->
  sql_preimage prev l = Some (go_preimage prev l).
Proof.
  intros Hik Hsv Hh Hy Hp.
  unfold sql_preimage. rewrite (sql_text_body l Hik).
  assert (Hbody : go_struct l =
      B "{" ++ [dq] ++ B "type" ++ [dq] ++ B ":" ++ [dq] ++ type_name (h_type l) ++ [dq]
        ++ B "," ++ [dq] ++ B "data" ++ [dq] ++ B ":" ++ h_memento l
        ++ B "," ++ [dq] ++ B "date" ++ [dq] ++ B ":" ++ [dq] ++ pg_date (h_date l) ++ B "Z" ++ [dq]
        ++ B "," ++ [dq] ++ B "idempotencyKey" ++ [dq] ++ B ":" ++ [dq] ++ h_ik l ++ [dq]
        ++ B "," ++ [dq] ++ B "id" ++ [dq] ++ B ":0"
        ++ B "," ++ [dq] ++ B "hash" ++ [dq] ++ B ":null" ++ B "}").
  { unfold go_struct. rewrite Hsv, Hh. destruct (go_string_verbatim _ Hik) as [-> _].
    destruct (type_name_plain (h_type l)) as [-> _]. rewrite (date_formats_agree _ Hy).
    change (go_string (B "type")) with ([dq] ++ B "type" ++ [dq]).
    change (go_string (B "data")) with ([dq] ++ B "data" ++ [dq]).
    change (go_string (B "date")) with ([dq] ++ B "date" ++ [dq]).
    change (go_string (B "idempotencyKey")) with ([dq] ++ B "idempotencyKey" ++ [dq]).
    change (go_string (B "id")) with ([dq] ++ B "id" ++ [dq]).
    change (go_string (B "hash")) with ([dq] ++ B "hash" ++ [dq]).
    change (go_hash_field None) with (B "null").
    repeat rewrite <- app_assoc. reflexivity. }
  unfold go_preimage. rewrite Hbody.
  destruct prev as [p|]; [|reflexivity].
  rewrite (pg_base64_short p (Hp p eq_refl)). rewrite (bytea_in_nobs _ (base64_nobs p)).
  f_equal. repeat rewrite <- app_assoc. reflexivity.
Qed.

(* the insert is accepted (the cast does not raise) whenever the idempotency key is verbatim, whatever the predecessor *)
Lemma sql_preimage_defined prev l : go_verbatim (h_ik l) = true -> sql_preimage prev l <> None.
Proof.
  intros Hik. unfold sql_preimage. rewrite (sql_text_body l Hik). destruct prev as [p|]; [|discriminate].
  rewrite pg_base64_in. discriminate.
Qed.

(* the trigger never looks at the schema version, nor at the incoming hash column *)
Lemma sql_ignores_sv_hash prev l sv h :
  sql_preimage prev {| h_type := h_type l; h_memento := h_memento l; h_date := h_date l; h_ik := h_ik l; h_sv := sv; h_hash := h |}
  = sql_preimage prev l.
Proof. reflexivity. Qed.

Lemma beqb_false a : forall b, beqb a b = false -> a <> b.
Proof.
  induction a as [|x a IH]; intros [|y b] Hf E; try discriminate.
  inversion E; subst. simpl in Hf. rewrite N.eqb_refl in Hf. simpl in Hf. exact (IH _ Hf eq_refl).
Qed.
