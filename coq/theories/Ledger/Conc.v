(* Concurrent model of the ledger write path: an interleaving semantics over the atomic store-call events of N
   writers on shared tables, with the PostgreSQL READ COMMITTED locking discipline the code relies on
   (DESIGN.md Appendix C; executable counterpart: harness/go/pgsem):
     - tables hold committed and in-flight rows side by side (a row written by an open transaction is invisible to the
       others but occupies its unique-index entry: a second inserter of the same key WAITS for the first to finish);
     - row locks (SELECT ... FOR UPDATE of GetBalances, INSERT ... ON CONFLICT DO UPDATE of UpdateVolumes, the UPDATE of
       transactions in RevertTransaction) and the transaction-scoped advisory lock last until COMMIT / abort;
     - a statement's snapshot is taken when the statement starts and is kept across its lock waits; after a wait UPDATE /
       FOR UPDATE re-read the newest committed version of the row they waited for; INSERT ... ON CONFLICT DO NOTHING
       skips a conflicting row even when that row is not visible to the snapshot;
     - nextval is atomic, global and never rolled back;
     - a wait that closes a cycle of the wait-for graph fails with "deadlock detected" (the transaction is aborted).
   One [step] = one store call (one SQL statement) of one writer, or one attempt of it when it has to wait.
   A schedule is a list of writer indices; [run] folds [step] over it.  Writers execute the store-call program of
   forgeLog/forgeLogRetry + createTransaction / revertTransaction (internal/controller/ledger) for single-posting
   requests: a create "src -> dst amt" (plain / allowing overdraft up to X / unbounded / force) or the revert of such a
   transaction.  The harness (harness/go/vh/sched.go) runs the real stack under the same schedule; modelrun sched prints
   this model's outcome for comparison. *)
From Coq Require Import List ZArith String Bool Arith.
Import ListNotations.
Open Scope Z_scope.

Definition wid := nat.
Definition ckey := (string * string)%type.      (* account, asset *)
Definition ckey_eqb (a b : ckey) : bool := String.eqb (fst a) (fst b) && String.eqb (snd a) (snd b).
Definition owner_is (o : option wid) (w : wid) : bool := match o with Some x => Nat.eqb x w | None => false end.

Inductive okind := KCreate | KRevert.
Inductive omode := MPlain | MOd | MUnb | MForce.
Record cop := { o_kind : okind; o_mode : omode; o_src : string; o_dst : string; o_asset : string;
                o_amt : Z; o_allow : Z; o_ref : string; o_ik : string; o_inh : Z; o_tx : Z }.

Definition cworld : string := "world"%string.
(* the allowance enforced on the operation's source (for a revert: the original destination); None = no funds check *)
Definition allowance (o : cop) : option Z :=
  if String.eqb (o_src o) cworld then None else
  match o_mode o with MPlain => Some 0 | MOd => Some (o_allow o) | MUnb => None | MForce => None end.
(* GetBalances is called for bounded sources of a create, and always by a revert *)
Definition has_bal (o : cop) : bool :=
  match o_kind o with KRevert => true | KCreate => match allowance o with Some _ => true | None => false end end.
Definition src_key (o : cop) : ckey := (o_src o, o_asset o).
Definition dst_key (o : cop) : ckey := (o_dst o, o_asset o).

(* ---------- tables ---------- *)
Record vrow := { v_key : ckey; v_bal : Z; v_pend : Z; v_lock : option wid; v_new : bool; v_upd : bool }.
(* t_pend / l_pend: the row's id has been drawn (nextval) by an INSERT that is still waiting on the unique index: the row is not
   in the table yet (nobody can see or conflict with it); it only records that the id is taken *)
Record trow := { t_id : Z; t_ref : string; t_own : option wid; t_rev : bool; t_revlock : option wid; t_pend : bool }.
Record lrow := { l_id : Z; l_ik : string; l_inh : Z; l_own : option wid; l_tx : Z; l_pend : bool }.

Inductive cerr := EInsufficient | ERefConflict | EAlreadyReverted | ENotFound | EIkInput | EIkConflict | EDeadlock.
Inductive cres := RNone | ROk (log tx : Z) (hit : bool) | RErr (e : cerr).
Inductive cpc := PIk | PRev | PBal | PVol | PTx | PAdv | PLog | PCommit | PRollback | PFetch | PDone.
Inductive clabel := LIk | LRev | LBal | LVol | LTx | LAdv | LLog | LCommit | LRollback.
Inductive cstatus := SDone | SBlocked | SDeadlock.

Record wst := { w_op : cop; w_pc : cpc; w_retry : bool; w_err : option cerr; w_read : Z; w_locked : bool;
                w_norow : option bool; w_volk : nat; w_txid : option Z; w_logid : option Z; w_wait : option wid; w_res : cres }.

(* what a COMMIT of a writer with a bounded source did to that source (ghost, for C06) *)
Record c06rec := { c_w : wid; c_locked : bool; c_before : Z; c_after : Z; c_allow : Z }.

Record gst := { g_vols : list vrow; g_txs : list trow; g_logs : list lrow; g_ntx : Z; g_nlog : Z; g_adv : option wid; g_hash : bool;
                g_ws : list wst;
                (* ghosts: commit order of writers / of their log ids / of their transaction ids, reverted targets, C06 records, events *)
                g_commits : list wid; g_clogs : list Z; g_ctxs : list Z; g_revs : list Z; g_c06 : list c06rec;
                g_ev : list (wid * clabel * cstatus) }.

Definition set_vols g x := {| g_vols := x; g_txs := g_txs g; g_logs := g_logs g; g_ntx := g_ntx g; g_nlog := g_nlog g; g_adv := g_adv g; g_hash := g_hash g; g_ws := g_ws g; g_commits := g_commits g; g_clogs := g_clogs g; g_ctxs := g_ctxs g; g_revs := g_revs g; g_c06 := g_c06 g; g_ev := g_ev g |}.
Definition set_txs g x := {| g_vols := g_vols g; g_txs := x; g_logs := g_logs g; g_ntx := g_ntx g; g_nlog := g_nlog g; g_adv := g_adv g; g_hash := g_hash g; g_ws := g_ws g; g_commits := g_commits g; g_clogs := g_clogs g; g_ctxs := g_ctxs g; g_revs := g_revs g; g_c06 := g_c06 g; g_ev := g_ev g |}.
Definition set_logs g x := {| g_vols := g_vols g; g_txs := g_txs g; g_logs := x; g_ntx := g_ntx g; g_nlog := g_nlog g; g_adv := g_adv g; g_hash := g_hash g; g_ws := g_ws g; g_commits := g_commits g; g_clogs := g_clogs g; g_ctxs := g_ctxs g; g_revs := g_revs g; g_c06 := g_c06 g; g_ev := g_ev g |}.
Definition set_ntx g x := {| g_vols := g_vols g; g_txs := g_txs g; g_logs := g_logs g; g_ntx := x; g_nlog := g_nlog g; g_adv := g_adv g; g_hash := g_hash g; g_ws := g_ws g; g_commits := g_commits g; g_clogs := g_clogs g; g_ctxs := g_ctxs g; g_revs := g_revs g; g_c06 := g_c06 g; g_ev := g_ev g |}.
Definition set_nlog g x := {| g_vols := g_vols g; g_txs := g_txs g; g_logs := g_logs g; g_ntx := g_ntx g; g_nlog := x; g_adv := g_adv g; g_hash := g_hash g; g_ws := g_ws g; g_commits := g_commits g; g_clogs := g_clogs g; g_ctxs := g_ctxs g; g_revs := g_revs g; g_c06 := g_c06 g; g_ev := g_ev g |}.
Definition set_adv g x := {| g_vols := g_vols g; g_txs := g_txs g; g_logs := g_logs g; g_ntx := g_ntx g; g_nlog := g_nlog g; g_adv := x; g_hash := g_hash g; g_ws := g_ws g; g_commits := g_commits g; g_clogs := g_clogs g; g_ctxs := g_ctxs g; g_revs := g_revs g; g_c06 := g_c06 g; g_ev := g_ev g |}.
Definition set_ws g x := {| g_vols := g_vols g; g_txs := g_txs g; g_logs := g_logs g; g_ntx := g_ntx g; g_nlog := g_nlog g; g_adv := g_adv g; g_hash := g_hash g; g_ws := x; g_commits := g_commits g; g_clogs := g_clogs g; g_ctxs := g_ctxs g; g_revs := g_revs g; g_c06 := g_c06 g; g_ev := g_ev g |}.
Definition set_ev g x := {| g_vols := g_vols g; g_txs := g_txs g; g_logs := g_logs g; g_ntx := g_ntx g; g_nlog := g_nlog g; g_adv := g_adv g; g_hash := g_hash g; g_ws := g_ws g; g_commits := g_commits g; g_clogs := g_clogs g; g_ctxs := g_ctxs g; g_revs := g_revs g; g_c06 := g_c06 g; g_ev := x |}.
Definition set_ghost g cm cl ct rv c6 := {| g_vols := g_vols g; g_txs := g_txs g; g_logs := g_logs g; g_ntx := g_ntx g; g_nlog := g_nlog g; g_adv := g_adv g; g_hash := g_hash g; g_ws := g_ws g; g_commits := cm; g_clogs := cl; g_ctxs := ct; g_revs := rv; g_c06 := c6; g_ev := g_ev g |}.

Definition ev (g : gst) (w : wid) (l : clabel) (s : cstatus) : gst := set_ev g (g_ev g ++ [(w, l, s)]).

(* ---------- writers ---------- *)
Definition wset_pc s p := {| w_op := w_op s; w_pc := p; w_retry := w_retry s; w_err := w_err s; w_read := w_read s; w_locked := w_locked s; w_norow := w_norow s; w_volk := w_volk s; w_txid := w_txid s; w_logid := w_logid s; w_wait := None; w_res := w_res s |}.
Definition wset_wait s h := {| w_op := w_op s; w_pc := w_pc s; w_retry := w_retry s; w_err := w_err s; w_read := w_read s; w_locked := w_locked s; w_norow := w_norow s; w_volk := w_volk s; w_txid := w_txid s; w_logid := w_logid s; w_wait := h; w_res := w_res s |}.
Definition wset_err s e := {| w_op := w_op s; w_pc := PRollback; w_retry := w_retry s; w_err := e; w_read := w_read s; w_locked := w_locked s; w_norow := None; w_volk := 0%nat; w_txid := w_txid s; w_logid := w_logid s; w_wait := None; w_res := w_res s |}.
Definition wset_read s r lk := {| w_op := w_op s; w_pc := w_pc s; w_retry := w_retry s; w_err := w_err s; w_read := r; w_locked := lk; w_norow := None; w_volk := w_volk s; w_txid := w_txid s; w_logid := w_logid s; w_wait := None; w_res := w_res s |}.
Definition wset_norow s b := {| w_op := w_op s; w_pc := w_pc s; w_retry := w_retry s; w_err := w_err s; w_read := w_read s; w_locked := w_locked s; w_norow := b; w_volk := w_volk s; w_txid := w_txid s; w_logid := w_logid s; w_wait := w_wait s; w_res := w_res s |}.
Definition wset_volk s k := {| w_op := w_op s; w_pc := w_pc s; w_retry := w_retry s; w_err := w_err s; w_read := w_read s; w_locked := w_locked s; w_norow := w_norow s; w_volk := k; w_txid := w_txid s; w_logid := w_logid s; w_wait := w_wait s; w_res := w_res s |}.
Definition wset_txid s i := {| w_op := w_op s; w_pc := w_pc s; w_retry := w_retry s; w_err := w_err s; w_read := w_read s; w_locked := w_locked s; w_norow := w_norow s; w_volk := w_volk s; w_txid := i; w_logid := w_logid s; w_wait := w_wait s; w_res := w_res s |}.
Definition wset_logid s i := {| w_op := w_op s; w_pc := w_pc s; w_retry := w_retry s; w_err := w_err s; w_read := w_read s; w_locked := w_locked s; w_norow := w_norow s; w_volk := w_volk s; w_txid := w_txid s; w_logid := i; w_wait := w_wait s; w_res := w_res s |}.
Definition wset_res s r p := {| w_op := w_op s; w_pc := p; w_retry := w_retry s; w_err := None; w_read := w_read s; w_locked := w_locked s; w_norow := None; w_volk := 0%nat; w_txid := w_txid s; w_logid := w_logid s; w_wait := None; w_res := r |}.

Definition after_ik (o : cop) : cpc :=
  match o_kind o with KRevert => PRev | KCreate => if has_bal o then PBal else PVol end.
Definition start_pc (o : cop) (retry : bool) : cpc :=
  if negb (String.eqb (o_ik o) "") && negb retry then PIk else after_ik o.
Definition new_writer (o : cop) : wst :=
  {| w_op := o; w_pc := start_pc o false; w_retry := false; w_err := None; w_read := 0; w_locked := false; w_norow := None;
     w_volk := 0%nat; w_txid := None; w_logid := None; w_wait := None; w_res := RNone |}.
(* forgeLogRetry: run the whole transaction again, without the idempotency lookup *)
Definition restart (s : wst) : wst :=
  {| w_op := w_op s; w_pc := start_pc (w_op s) true; w_retry := true; w_err := None; w_read := 0; w_locked := false; w_norow := None;
     w_volk := 0%nat; w_txid := None; w_logid := None; w_wait := None; w_res := RNone |}.

Fixpoint upd_nth {A} (l : list A) (n : nat) (f : A -> A) : list A :=
  match l, n with
  | [], _ => []
  | x :: r, O => f x :: r
  | x :: r, S m => x :: upd_nth r m f
  end.
Definition upd_w (g : gst) (w : wid) (f : wst -> wst) : gst := set_ws g (upd_nth (g_ws g) w f).
Definition get_w (g : gst) (w : wid) : option wst := nth_error (g_ws g) w.

(* ---------- wait-for graph ---------- *)
Fixpoint reaches (ws : list wst) (fuel : nat) (cur target : wid) : bool :=
  match fuel with
  | O => false
  | S f => if Nat.eqb cur target then true else
           match nth_error ws cur with
           | Some c => match w_wait c with Some n => reaches ws f n target | None => false end
           | None => false
           end
  end.

(* ---------- end of a transaction: what the others see ---------- *)
Definition clear_waits (ws : list wst) (w : wid) : list wst :=
  map (fun s => if owner_is (w_wait s) w then wset_wait s None else s) ws.

Definition v_release (w : wid) (r : vrow) : vrow :=
  if owner_is (v_lock r) w then {| v_key := v_key r; v_bal := v_bal r; v_pend := 0; v_lock := None; v_new := false; v_upd := false |} else r.
Definition v_commit (w : wid) (r : vrow) : vrow :=
  if owner_is (v_lock r) w then {| v_key := v_key r; v_bal := v_bal r + v_pend r; v_pend := 0; v_lock := None; v_new := false; v_upd := false |} else r.
Definition t_release (w : wid) (t : trow) : trow :=
  if owner_is (t_revlock t) w then {| t_id := t_id t; t_ref := t_ref t; t_own := t_own t; t_rev := t_rev t; t_revlock := None; t_pend := t_pend t |} else t.
Definition t_commit (w : wid) (t : trow) : trow :=
  {| t_id := t_id t; t_ref := t_ref t; t_own := if owner_is (t_own t) w then None else t_own t;
     t_rev := if owner_is (t_revlock t) w then true else t_rev t;
     t_revlock := if owner_is (t_revlock t) w then None else t_revlock t; t_pend := t_pend t |}.
Definition l_commit (w : wid) (l : lrow) : lrow :=
  {| l_id := l_id l; l_ik := l_ik l; l_inh := l_inh l; l_own := if owner_is (l_own l) w then None else l_own l; l_tx := l_tx l; l_pend := l_pend l |}.

(* abort: every in-flight row of w disappears, every lock of w is released, its waiters wake up *)
Definition abort (g : gst) (w : wid) : gst :=
  {| g_vols := map (v_release w) (filter (fun r => negb (v_new r && owner_is (v_lock r) w)) (g_vols g));
     g_txs := map (t_release w) (filter (fun t => negb (owner_is (t_own t) w)) (g_txs g));
     g_logs := filter (fun l => negb (owner_is (l_own l) w)) (g_logs g);
     g_ntx := g_ntx g; g_nlog := g_nlog g;
     g_adv := if owner_is (g_adv g) w then None else g_adv g;
     g_hash := g_hash g; g_ws := clear_waits (g_ws g) w;
     g_commits := g_commits g; g_clogs := g_clogs g; g_ctxs := g_ctxs g; g_revs := g_revs g; g_c06 := g_c06 g; g_ev := g_ev g |}.

(* an SQL error (unique violation, deadlock) aborts the transaction at once; the writer then issues ROLLBACK *)
Definition fail_abort (g : gst) (w : wid) (e : cerr) : gst := upd_w (abort g w) w (fun s => wset_err s (Some e)).
(* an error raised by the Go code (funds check, already reverted, ...): locks are kept until the ROLLBACK statement *)
Definition fail_soft (g : gst) (w : wid) (e : cerr) : gst := upd_w g w (fun s => wset_err s (Some e)).

(* w has to wait for h.  If that closes a cycle of the wait-for graph, w is the deadlock victim. *)
Definition blocked (g : gst) (w h : wid) (l : clabel) : gst :=
  if reaches (g_ws g) (List.length (g_ws g)) h w then ev (fail_abort g w EDeadlock) w l SDeadlock
  else ev (upd_w g w (fun s => wset_wait s (Some h))) w l SBlocked.

Definition vfind (vs : list vrow) (k : ckey) : option vrow := find (fun r => ckey_eqb (v_key r) k) vs.
(* rewrite the row(s) of key k that w may take: unlocked or already its own (keys are unique in reachable states) *)
Definition free_for (w : wid) (r : vrow) : bool := match v_lock r with None => true | Some h => Nat.eqb h w end.
Definition vtake (vs : list vrow) (w : wid) (k : ckey) (f : vrow -> vrow) : list vrow :=
  map (fun r => if ckey_eqb (v_key r) k && free_for w r then f r else r) vs.

(* ---------- the store calls ---------- *)
Definition find_ik (g : gst) (ik : string) : option lrow :=
  find (fun l => String.eqb (l_ik l) ik && match l_own l with None => true | Some _ => false end) (g_logs g).

(* forgeLog: ReadLogWithIdempotencyKey inside the transaction *)
Definition do_ik (g : gst) (w : wid) (s : wst) : gst :=
  let o := w_op s in
  ev (match find_ik g (o_ik o) with
      | Some l => if l_inh l =? o_inh o then upd_w g w (fun s => wset_res s (ROk (l_id l) (l_tx l) true) PRollback)
                  else fail_soft g w EIkInput
      | None => upd_w g w (fun s => wset_pc s (after_ik o))
      end) w LIk SDone.

(* fetchLogWithIK outside any transaction: in forgeLogRetry after an idempotency-key conflict, and (errorOrIKOutcome) after any
   other failure of a request that carries a key - a concurrent request with the same key may have committed since the first
   lookup; its log is then the outcome.  When no log is found the failure (kept in w_err) is returned. *)
Definition do_fetch (g : gst) (w : wid) (s : wst) : gst :=
  let o := w_op s in
  ev (match find_ik g (o_ik o) with
      | Some l => if l_inh l =? o_inh o then upd_w g w (fun s => wset_res s (ROk (l_id l) (l_tx l) true) PDone)
                  else upd_w g w (fun s => wset_res s (RErr EIkInput) PDone)
      | None => upd_w g w (fun s => wset_res s (RErr (match w_err s with Some e => e | None => EIkConflict end)) PDone)
      end) w LIk SDone.

(* RevertTransaction: UPDATE transactions SET reverted_at ... WHERE id = ? AND reverted_at IS NULL (row lock; the WHERE is
   re-evaluated on the newest committed version after a wait) *)
Definition do_rev (g : gst) (w : wid) (s : wst) : gst :=
  let o := w_op s in
  match find (fun t => (t_id t =? o_tx o) && match t_own t with None => true | Some _ => false end) (g_txs g) with
  | None => ev (fail_soft g w ENotFound) w LRev SDone
  | Some t =>
    if t_rev t then ev (fail_soft g w EAlreadyReverted) w LRev SDone
    else match t_revlock t with
         | Some h => if Nat.eqb h w then ev (upd_w g w (fun s => wset_pc s PBal)) w LRev SDone else blocked g w h LRev
         | None =>
           let txs := map (fun x => if (t_id x =? o_tx o) && match t_own x with None => true | Some _ => false end
                                       && negb (t_rev x) && match t_revlock x with None => true | Some _ => false end
                                    then {| t_id := t_id x; t_ref := t_ref x; t_own := t_own x; t_rev := t_rev x; t_revlock := Some w; t_pend := t_pend x |} else x) (g_txs g) in
           ev (upd_w (set_txs g txs) w (fun s => wset_pc s PBal)) w LRev SDone
         end
  end.

(* after GetBalances: the funds check of the machine / of revertTransaction, on the balance that was READ *)
Definition bal_done (g : gst) (w : wid) (o : cop) (read : Z) (locked : bool) : gst :=
  let g1 := upd_w g w (fun s => wset_read s read locked) in
  match allowance o with
  | Some a => if (0 <=? o_amt o) && (o_amt o <=? read + a) then upd_w g1 w (fun s => wset_pc s PVol) else fail_soft g1 w EInsufficient
  | None => upd_w g1 w (fun s => wset_pc s PVol)
  end.

(* GetBalances: WITH ins AS (INSERT ... VALUES (k, 0, 0) ON CONFLICT DO NOTHING) SELECT ... WHERE k FOR UPDATE, one snapshot *)
Definition do_bal (g : gst) (w : wid) (s : wst) : gst :=
  let o := w_op s in
  let k := src_key o in
  let r := vfind (g_vols g) k in
  (* the statement's snapshot, fixed at its first attempt: is there NO committed row for k? *)
  let norow := match w_norow s with
               | Some b => b
               | None => match r with None => true | Some x => v_new x end
               end in
  let wait h := blocked (upd_w g w (fun s => wset_norow s (Some norow))) w h LBal in
  match r with
  | None =>
    (* no row at all: the CTE inserts (k, 0, 0); the SELECT of the same statement does not see it; missing => balance 0.
       The in-flight row is exclusively ours until the end of the transaction. *)
    let row := {| v_key := k; v_bal := 0; v_pend := 0; v_lock := Some w; v_new := true; v_upd := false |} in
    ev (bal_done (set_vols g (g_vols g ++ [row])) w o 0 true) w LBal SDone
  | Some x =>
    match v_lock x with
    | Some h =>
      if v_new x then wait h                               (* unique-index wait for the in-flight inserter *)
      else if v_upd x then wait h                               (* the conflicting row is being updated: wait *)
      else if norow then ev (bal_done g w o 0 false) w LBal SDone   (* DO NOTHING; the snapshot has no row: 0, and NO lock *)
      else wait h                                               (* FOR UPDATE waits for the row lock *)
    | None =>
      if norow then ev (bal_done g w o 0 false) w LBal SDone
      else (* lock the row; after a wait this is the newest committed version *)
        ev (bal_done (set_vols g (vtake (g_vols g) w k (fun x => {| v_key := v_key x; v_bal := v_bal x; v_pend := v_pend x; v_lock := Some w; v_new := v_new x; v_upd := v_upd x |}))) w o (v_bal x) true) w LBal SDone
    end
  end.

(* UpdateVolumes: INSERT ... ON CONFLICT (k) DO UPDATE SET input = input + excluded.input ..., rows sorted by account.
   One statement touches a key once (the postings of a key are aggregated): a row this transaction has already written
   (v_upd, only possible for its own row) is not written again. *)
Definition vol_keys (o : cop) : list (ckey * Z) :=
  if ckey_eqb (src_key o) (dst_key o) then [(src_key o, 0)]
  else if String.leb (o_src o) (o_dst o) then [(src_key o, - o_amt o); (dst_key o, o_amt o)]
  else [(dst_key o, o_amt o); (src_key o, - o_amt o)].

Fixpoint vol_loop (g : gst) (w : wid) (ks : list (ckey * Z)) (i : nat) : gst :=
  match ks with
  | [] => ev (upd_w g w (fun s => wset_pc (wset_volk s 0%nat) PTx)) w LVol SDone
  | (k, d) :: rest =>
    match vfind (g_vols g) k with
    | None =>
      let row := {| v_key := k; v_bal := 0; v_pend := d; v_lock := Some w; v_new := true; v_upd := true |} in
      vol_loop (set_vols g (g_vols g ++ [row])) w rest (S i)
    | Some x =>
      let take := vol_loop (set_vols g (vtake (g_vols g) w k (fun x => {| v_key := v_key x; v_bal := v_bal x; v_pend := if v_upd x then v_pend x else v_pend x + d; v_lock := Some w; v_new := v_new x; v_upd := true |}))) w rest (S i) in
      match v_lock x with
      | Some h => if Nat.eqb h w then take else blocked (upd_w g w (fun s => wset_volk s i)) w h LVol
      | None => take
      end
    end
  end.
Definition do_vol (g : gst) (w : wid) (s : wst) : gst :=
  vol_loop g w (skipn (w_volk s) (vol_keys (w_op s))) (w_volk s).

(* InsertTransaction: id = nextval (drawn when the statement starts, never given back); unique (ledger, reference).
   The row whose id has been drawn is "pending" until the unique index lets it in. *)
Definition t_publish (id : Z) (ref : string) (t : trow) : trow :=
  if (t_id t =? id) && String.eqb (t_ref t) ref
  then {| t_id := t_id t; t_ref := t_ref t; t_own := t_own t; t_rev := t_rev t; t_revlock := t_revlock t; t_pend := false |} else t.
Definition tx_ref (o : cop) : string := match o_kind o with KCreate => o_ref o | KRevert => ""%string end.
Definition my_pending_tx (g : gst) (w : wid) : option trow := find (fun t => owner_is (t_own t) w && t_pend t) (g_txs g).
Definition do_tx (g : gst) (w : wid) (s : wst) : gst :=
  let o := w_op s in
  let '(g1, row) := match my_pending_tx g w with
                    | Some r => (g, r)
                    | None =>
                      let row := {| t_id := g_ntx g; t_ref := tx_ref o; t_own := Some w; t_rev := false; t_revlock := None; t_pend := true |} in
                      (upd_w (set_ntx (set_txs g (g_txs g ++ [row])) (g_ntx g + 1)) w (fun s => wset_txid s (Some (g_ntx g))), row)
                    end in
  let ref := t_ref row in
  let insert :=
    ev (upd_w (set_txs g1 (map (t_publish (t_id row) ref) (g_txs g1))) w (fun s => wset_pc s (if g_hash g then PAdv else PLog))) w LTx SDone in
  if String.eqb ref "" then insert
  else match find (fun t => String.eqb (t_ref t) ref && negb (t_pend t)) (g_txs g1) with
       | None => insert
       | Some t => match t_own t with
                   | Some h => blocked g1 w h LTx
                   | None => ev (fail_abort g1 w ERefConflict) w LTx SDone
                   end
       end.

(* InsertLog, HASH_LOGS = SYNC: select pg_advisory_xact_lock(ledger id) *)
Definition do_adv (g : gst) (w : wid) (s : wst) : gst :=
  match g_adv g with
  | Some h => if Nat.eqb h w then ev (upd_w g w (fun s => wset_pc s PLog)) w LAdv SDone else blocked g w h LAdv
  | None => ev (upd_w (set_adv g (Some w)) w (fun s => wset_pc s PLog)) w LAdv SDone
  end.

(* InsertLog: id = nextval; unique (ledger, idempotency_key) *)
Definition l_publish (id : Z) (ik : string) (l : lrow) : lrow :=
  if (l_id l =? id) && String.eqb (l_ik l) ik
  then {| l_id := l_id l; l_ik := l_ik l; l_inh := l_inh l; l_own := l_own l; l_tx := l_tx l; l_pend := false |} else l.
Definition my_pending_log (g : gst) (w : wid) : option lrow := find (fun l => owner_is (l_own l) w && l_pend l) (g_logs g).
Definition do_log (g : gst) (w : wid) (s : wst) : gst :=
  if g_hash g && negb (owner_is (g_adv g) w) then g else
  let o := w_op s in
  let '(g1, row) := match my_pending_log g w with
                    | Some r => (g, r)
                    | None =>
                      let row := {| l_id := g_nlog g; l_ik := o_ik o; l_inh := o_inh o; l_own := Some w;
                                    l_tx := match w_txid s with Some i => i | None => 0 end; l_pend := true |} in
                      (upd_w (set_nlog (set_logs g (g_logs g ++ [row])) (g_nlog g + 1)) w (fun s => wset_logid s (Some (g_nlog g))), row)
                    end in
  let ik := l_ik row in
  let insert :=
    ev (upd_w (set_logs g1 (map (l_publish (l_id row) ik) (g_logs g1))) w (fun s => wset_pc s PCommit)) w LLog SDone in
  if String.eqb ik "" then insert
  else match find (fun l => String.eqb (l_ik l) ik && negb (l_pend l)) (g_logs g1) with
       | None => insert
       | Some l => match l_own l with
                   | Some h => blocked g1 w h LLog
                   | None => ev (fail_abort g1 w EIkConflict) w LLog SDone
                   end
       end.

Definition committed_bal (vs : list vrow) (k : ckey) : Z :=
  match vfind vs k with Some r => if v_new r then 0 else v_bal r | None => 0 end.

Definition do_commit (g : gst) (w : wid) (s : wst) : gst :=
  let o := w_op s in
  let vols' := map (v_commit w) (g_vols g) in
  let lid := match w_logid s with Some i => i | None => 0 end in
  let tid := match w_txid s with Some i => i | None => 0 end in
  let c6 := match allowance o with
            | Some a => [{| c_w := w; c_locked := w_locked s; c_before := committed_bal (g_vols g) (src_key o);
                            c_after := committed_bal vols' (src_key o); c_allow := a |}]
            | None => []
            end in
  let g1 := {| g_vols := vols'; g_txs := map (t_commit w) (g_txs g); g_logs := map (l_commit w) (g_logs g);
               g_ntx := g_ntx g; g_nlog := g_nlog g; g_adv := if owner_is (g_adv g) w then None else g_adv g; g_hash := g_hash g;
               g_ws := clear_waits (g_ws g) w;
               g_commits := g_commits g ++ [w];
               g_clogs := g_clogs g ++ map l_id (filter (fun l => owner_is (l_own l) w) (g_logs g));       (* the log(s) this COMMIT makes visible *)
               g_ctxs := g_ctxs g ++ [tid];
               g_revs := g_revs g ++ map t_id (filter (fun t => owner_is (t_revlock t) w) (g_txs g));   (* the revert mark(s) it makes visible *)
               g_c06 := g_c06 g ++ c6; g_ev := g_ev g |} in
  ev (upd_w g1 w (fun s => wset_res s (ROk lid tid false) PDone)) w LCommit SDone.

(* ROLLBACK, then forgeLog's decision: retry on deadlock / idempotency-key conflict; otherwise return the error - unless the
   request carries an idempotency key: then look the key up once more (errorOrIKOutcome) *)
Definition do_rollback (g : gst) (w : wid) (s : wst) : gst :=
  let g1 := abort g w in
  ev (match w_err s with
      | None => upd_w g1 w (fun s => wset_res s (w_res s) PDone)                 (* idempotency hit *)
      | Some EDeadlock => upd_w g1 w restart
      | Some EIkConflict => if w_retry s then upd_w g1 w (fun s => wset_pc (wset_err s None) PFetch) else upd_w g1 w restart
      | Some EIkInput => upd_w g1 w (fun s => wset_res s (RErr EIkInput) PDone)          (* from the first lookup: returned as is *)
      | Some e => if String.eqb (o_ik (w_op s)) "" then upd_w g1 w (fun s => wset_res s (RErr e) PDone)
                  else upd_w g1 w (fun s => wset_pc s PFetch)                             (* errorOrIKOutcome *)
      end) w LRollback SDone.

Definition step (g : gst) (w : wid) : gst :=
  match get_w g w with
  | None => g
  | Some s =>
    match w_pc s with
    | PIk => do_ik g w s | PRev => do_rev g w s | PBal => do_bal g w s | PVol => do_vol g w s | PTx => do_tx g w s
    | PAdv => do_adv g w s | PLog => do_log g w s | PCommit => do_commit g w s | PRollback => do_rollback g w s
    | PFetch => do_fetch g w s | PDone => g
    end
  end.

Definition run (g : gst) (sched : list wid) : gst := fold_left step sched g.

(* ---------- initial states ---------- *)
Definition init (hash : bool) (ops : list cop) : gst :=
  {| g_vols := []; g_txs := []; g_logs := []; g_ntx := 1; g_nlog := 1; g_adv := None; g_hash := hash; g_ws := map new_writer ops;
     g_commits := []; g_clogs := []; g_ctxs := []; g_revs := []; g_c06 := []; g_ev := [] |}.

(* the tables another set of writers starts from: everything committed so far, fresh writers, empty ghosts *)
Definition reseat (g : gst) (ops : list cop) : gst :=
  {| g_vols := g_vols g; g_txs := g_txs g; g_logs := g_logs g; g_ntx := g_ntx g; g_nlog := g_nlog g; g_adv := g_adv g; g_hash := g_hash g;
     g_ws := map new_writer ops; g_commits := []; g_clogs := []; g_ctxs := []; g_revs := []; g_c06 := []; g_ev := [] |}.

(* serial execution: writer i runs alone until it is done (12 store calls suffice for one attempt plus one retry) *)
Definition serial (n : nat) : list wid := flat_map (fun i => repeat i 24) (seq 0 n).
Definition after_prefix (hash : bool) (prefix writers : list cop) : gst :=
  reseat (run (init hash prefix) (serial (List.length prefix))) writers.

(* what modelrun prints *)
Definition results (g : gst) : list cres := map w_res (g_ws g).
Definition committed_vols (g : gst) : list (ckey * Z) :=
  map (fun r => (v_key r, v_bal r)) (filter (fun r => negb (v_new r)) (g_vols g)).
(* committed rows that are in the table (a pending row only records a drawn id) *)
Definition committed_txs (g : gst) : list trow := filter (fun t => match t_own t with None => negb (t_pend t) | Some _ => false end) (g_txs g).
Definition committed_logs (g : gst) : list lrow := filter (fun l => match l_own l with None => negb (l_pend l) | Some _ => false end) (g_logs g).
Definition sched_outcome (hash : bool) (prefix writers : list cop) (sched : list wid) : gst :=
  run (after_prefix hash prefix writers) sched.
