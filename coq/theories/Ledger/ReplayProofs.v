(* C08 / C17: the journal determines the ledger.  [replay] is a fold over log payloads that never looks at the
   tables; the invariant says the tables' projection equals the replay of the stored logs. *)
From Coq Require Import List ZArith String Bool Lia.
From LV Require Import Base.Util Ledger.Types Ledger.Core Ledger.VolProofs Ledger.Invariants Ledger.PcvProofs.
Import ListNotations.
Open Scope Z_scope.

(* projection of a stored transaction that the journal must determine *)
Record txv := { v_id : Z; v_postings : list posting; v_meta : meta; v_ts : Z; v_ref : str; v_reverted : bool }.
Definition view (t : tx) : txv :=
  {| v_id := t_id t; v_postings := t_postings t; v_meta := t_meta t; v_ts := t_ts t; v_ref := t_ref t;
     v_reverted := match t_rev t with Some _ => true | None => false end |}.

Definition map_v (l : list txv) (id : Z) (fn : txv -> txv) : list txv := map (fun v => if v_id v =? id then fn v else v) l.
Definition v_set_meta (g : meta -> meta) (v : txv) : txv :=
  {| v_id := v_id v; v_postings := v_postings v; v_meta := g (v_meta v); v_ts := v_ts v; v_ref := v_ref v; v_reverted := v_reverted v |}.
Definition v_mark (v : txv) : txv :=
  {| v_id := v_id v; v_postings := v_postings v; v_meta := v_meta v; v_ts := v_ts v; v_ref := v_ref v; v_reverted := true |}.

Definition replay_payload (l : list txv) (p : payload) : list txv :=
  match p with
  | PNewTx t _ => l ++ [view t]
  | PRevert orig r => map_v l (t_id orig) v_mark ++ [view r]
  | PSetMeta (TTx id) md => map_v l id (v_set_meta (fun m => mmerge m md))
  | PDelMeta (TTx id) k => map_v l id (v_set_meta (fun m => mdel m k))
  | PSetMeta (TAcc _) _ | PDelMeta (TAcc _) _ => l
  end.
Definition replay (logs : list log) : list txv := fold_left (fun l lg => replay_payload l (l_payload lg)) logs [].

Definition Journal (s : state) : Prop := map view (s_txs s) = replay (s_logs s).

Lemma journal_init : Journal init_state. Proof. reflexivity. Qed.

Lemma replay_snoc logs lg : replay (logs ++ [lg]) = replay_payload (replay logs) (l_payload lg).
Proof. unfold replay. rewrite fold_left_app. reflexivity. Qed.

Lemma view_map_tx txs id fn gv :
  (forall t, view (fn t) = gv (view t)) -> map view (map_tx txs id fn) = map_v (map view txs) id gv.
Proof.
  intros H. unfold map_tx, map_v. rewrite !map_map. apply map_ext. intros t.
  change (v_id (view t)) with (t_id t). destruct (t_id t =? id); [apply H|reflexivity].
Qed.

Lemma aset_same (m : meta) k v : aget String.eqb m k = Some v -> aset String.eqb m k v = m.
Proof. induction m as [|[k0 v0] r IH]; simpl; [discriminate|].
  destruct (String.eqb k0 k); [intros H; inversion H; reflexivity | intros H; rewrite IH by exact H; reflexivity]. Qed.

Lemma mmerge_contained a b : mcontains a b = true -> mmerge a b = a.
Proof.
  unfold mmerge, mcontains. induction b as [|[k v] r IH]; simpl; [reflexivity|].
  intros H. apply andb_true_iff in H. destruct H as [H1 H2].
  unfold mget in H1. destruct (aget String.eqb a k) as [v'|] eqn:E; [|discriminate].
  apply String.eqb_eq in H1; subst v'. rewrite (aset_same a k v E). apply IH; exact H2.
Qed.

Lemma map_v_fixed l id g : (forall v, In v l -> v_id v = id -> g v = v) -> map_v l id g = l.
Proof. intros H. unfold map_v. rewrite <- (map_id l) at 2. apply map_ext_in. intros v Hin.
  destruct (v_id v =? id) eqn:E; [apply H; [exact Hin | apply Z.eqb_eq; exact E] | reflexivity]. Qed.

Lemma sorted_unique_id txs id t x :
  Sorted.StronglySorted Z.lt (map t_id txs) -> find_tx txs id = Some t -> In x txs -> t_id x = id -> x = t.
Proof.
  intros Hs Hf Hin Hid. subst id. revert Hs Hf Hin. unfold find_tx. induction txs as [|y r IH]; simpl; intros Hs Hf Hin; [destruct Hin|].
  inversion Hs as [|? ? Hs' Hall]; subst.
  destruct (t_id y =? t_id x) eqn:E.
  - inversion Hf; subst y. destruct Hin as [->|Hin]; [reflexivity|].
    exfalso. rewrite Forall_forall in Hall. specialize (Hall (t_id x) (in_map t_id _ _ Hin)).
    apply Z.eqb_eq in E. lia.
  - destruct Hin as [->|Hin]; [rewrite Z.eqb_refl in E; discriminate|]. apply IH; assumption.
Qed.

Lemma find_tx_id txs id t : find_tx txs id = Some t -> t_id t = id.
Proof. unfold find_tx. intros H. apply find_some in H. destruct H as [_ H]. apply Z.eqb_eq; exact H. Qed.

(* the operation body: on success, the new transactions view = replaying the payload over the old view *)
Lemma run_input_journal f now s i s1 p :
  InvT s -> run_input f now s i = Done s1 p -> map view (s_txs s1) = replay_payload (map view (s_txs s)) p.
Proof.
  intros HI.
  script_split i.
  { simpl. unfold create_tx. destruct ps as [|q ps']; [discriminate|].
    destruct (feasible force (s_vols s) (q :: ps')); simpl; [|discriminate].
    destruct (commit_transaction f now s (q :: ps') md ts ref) as [s0 [t|]] eqn:E; [|discriminate].
    intros H; inversion H; subst; clear H. simpl.
    destruct (upsert_tx_accounts_frame f now s0 t amd) as (_ & E2 & _). rewrite E2.
    apply commit_some in E. destruct E as (Htx & _). rewrite Htx, map_app. reflexivity. }
  destruct i as [ps ts ref md amd force | id force at_eff rmeta | [a|id] md | [a|id] k | ps ts ref md amd force smd samd];
    [apply Hc | | | | | | script_bullet Hc]; simpl.
  - destruct (find_tx (s_txs s) id) as [t|] eqn:F; [|discriminate].
    destruct (t_rev t); [discriminate|].
    match goal with |- context [match ?c with RCOk => _ | RCInsufficient => _ | RCPanic => _ end] => destruct c end; try discriminate.
    match goal with |- context [commit_transaction ?a ?b ?c ?d ?e ?g ?h] => destruct (commit_transaction a b c d e g h) as [s2 [r|]] eqn:E end; [|discriminate].
    intros H; inversion H; subst; clear H. simpl.
    apply commit_some in E. destruct E as (Htx & _). rewrite Htx, map_app. simpl. f_equal.
    apply view_map_tx. intros x. reflexivity.
  - intros H; inversion H; subst. reflexivity.
  - destruct (find_tx (s_txs s) id) as [t|] eqn:F; [|discriminate].
    destruct (mcontains (t_meta t) md) eqn:C; intros H; inversion H; subst; clear H; simpl.
    + symmetry. apply map_v_fixed. intros v Hin Hid. apply in_map_iff in Hin. destruct Hin as [x [<- Hin]].
      assert (x = t) by (eapply sorted_unique_id; [exact (inv_ids_sorted _ HI) | exact F | exact Hin | exact Hid]). subst x.
      unfold v_set_meta, view; simpl. rewrite (mmerge_contained _ _ C). reflexivity.
    + rewrite (find_tx_id _ _ _ F). apply view_map_tx. intros x. reflexivity.
  - destruct (find_account (s_accounts s) a); intros H; inversion H; subst; reflexivity.
  - destruct (find_tx (s_txs s) id) as [t|] eqn:F; [|discriminate].
    destruct (mget (t_meta t) k); [|discriminate]. intros H; inversion H; subst; clear H; simpl.
    rewrite (find_tx_id _ _ _ F). apply view_map_tx. intros x. reflexivity.
Qed.

Theorem step_journal f now s o s' r : Inv s -> Journal s -> step f now s o = SR s' r -> Journal s'.
Proof.
  intros [HT HL] HJ. unfold step. destruct (find_ik (s_logs s) (o_ik o)) as [l|].
  - destruct (input_eq_dec (l_input l) (o_in o)); intros H; inversion H; subst; exact HJ.
  - pose proof (run_input_logs f now s (o_in o)) as [HL1 HL2].
    destruct (run_input f now s (o_in o)) as [s1 p|s1 e1|] eqn:R; cbn [outcome_state] in *; [| |discriminate].
    + pose proof (run_input_journal f now s (o_in o) s1 p HT R) as HV.
      destruct (o_dry o); intros H; inversion H; subst; [exact HJ|].
      unfold Journal, append_log; simpl. rewrite HL1, replay_snoc. simpl. rewrite HV, HJ. reflexivity.
    + intros H; inversion H; subst. exact HJ.
Qed.

Theorem run_journal f h : Journal (run f h).
Proof.
  unfold run.
  assert (G : forall s, Inv s -> Journal s ->
     Journal (fold_left (fun s no => match step f (fst no) s (snd no) with SR s' _ => s' | SPanic => s end) h s)).
  { induction h as [|[now o] r IH]; intros s Hi Hj; simpl; [exact Hj|].
    destruct (step f now s o) as [s' res|] eqn:E; [|apply IH; assumption].
    apply IH; [eapply step_inv; eassumption | eapply step_journal; eassumption]. }
  apply G; [apply inv_init | apply journal_init].
Qed.
