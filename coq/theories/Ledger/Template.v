(* Model of stored query templates:
     internal/queries/filter_template.go   ResolveFilterTemplate, resolveFilter, resolveValue, extractVariable
     internal/queries/substitution.go      ParseTemplate, ReplaceVariables, jsonToString
     internal/queries/variables.go         validateValueType
     internal/queries/schema.go|resources.go|field.go   GetFieldType, parseAccess, the four resource schemas
     internal/query_template.go            QueryTemplateParams.UnmarshalJSON, Overwrite
     internal/controller/ledger/controller_default.go   RunQuery (defaults), templateParamsToQuery
     internal/storage/common/resource.go   Paginate (defaults of an initial query)
   Strings are byte strings (Coq [string] = list of bytes). Timestamps are microseconds (the JSON
   date decoder is not modelled: the tie hands the parsed instant to the model).
   Every global name carries the prefix tpl_ / Tp (one OCaml module holds all extracted names). *)
From Coq Require Import List ZArith NArith String Ascii Bool Lia DecimalString.
Import ListNotations.
Open Scope Z_scope.

(* ------------------------------------------------------------------ resources and field types *)
Inductive tpl_resource := TpTransactions | TpAccounts | TpLogs | TpVolumes.
Inductive tpl_base := TpString | TpDate | TpNumeric | TpBoolean.
Inductive tpl_ftype := TpBase (b : tpl_base) | TpMap (b : tpl_base).

Inductive tpl_err :=
| TpeBadVarValue      (* a declared call variable fails validateValueType *)
| TpeBadFieldName     (* parseAccess: "invalid field name" *)
| TpeUnknownField     (* "unknown field: .." *)
| TpeBadIndexing      (* "unexpected field indexing: .." *)
| TpeMissingVariable  (* "missing variable" *)
| TpeBadType          (* "cannot use variable .. as type .." / "unexpected variable type" *)
| TpeBadPlaceholder   (* expected a "${variable}" string *)
| TpeBadTemplate      (* ParseTemplate: ParsingError *)
| TpeBadNumber        (* number with decimals / not an integer *)
| TpeExpectedArray    (* $in on a non-array *)
| TpeExistsNotMap     (* $exists on a non-map field *)
| TpeBadFieldType     (* resolveValue on a map type: "unexpected FieldType" *)
| TpeBadSort          (* "invalid sort column" *)
| TpeBadOrder         (* "invalid order" *)
| TpeBadParams.       (* encoding/json type error (negative pageSize) *)

(* dynamic values of variables: what encoding/json produces for defaults (UseNumber: json.Number)
   and for the variables of a request (the API decodes them without UseNumber: float64) *)
Inductive tpl_val :=
| TpvNull
| TpvBool (b : bool)
| TpvStr (s : string)
| TpvNum (z : Z)           (* json.Number that is an integer literal *)
| TpvNumTxt (s : string)   (* json.Number that is not an integer literal, e.g. 1.5 or 1e3 *)
| TpvFloat (z : Z)         (* float64 with an integral value z (domain: z is exactly representable as a float64;
                              the harness records the value the float64 decoding yields, e.g. 2^63 for 2^63-1) *)
| TpvFloatFrac             (* float64 with a fractional part *)
| TpvOther.                (* array or object *)

(* filter values after query.ParseJSON (numbers are *big.Int) *)
Inductive tpl_atom := TpaNull | TpaBool (b : bool) | TpaStr (s : string) | TpaInt (z : Z) | TpaOther.
Inductive tpl_jv := TpjAtom (a : tpl_atom) | TpjList (l : list tpl_atom).
Inductive tpl_op := TpoMatch | TpoIn | TpoExists | TpoLike | TpoLt | TpoGt | TpoLte | TpoGte.
Inductive tpl_body :=
| TpAnd (l : list tpl_body)
| TpOr (l : list tpl_body)
| TpNot (b : tpl_body)
| TpLeaf (op : tpl_op) (key : string) (v : tpl_jv).

Record tpl_decl := { tpd_type : tpl_base; tpd_default : tpl_val (* TpvNull = no default *) }.
Definition tpl_env := list (string * tpl_val).

(* ------------------------------------------------------------------ characters *)
Definition tpl_code (c : ascii) : N := N_of_ascii c.
Definition tpl_between (lo hi : N) (c : ascii) : bool := ((lo <=? tpl_code c) && (tpl_code c <=? hi))%N.
Definition tpl_is_lower := tpl_between 97 122.
Definition tpl_is_upper := tpl_between 65 90.
Definition tpl_is_digit := tpl_between 48 57.
Definition tpl_is_us (c : ascii) : bool := (tpl_code c =? 95)%N.
Definition tpl_is_ref_char (c : ascii) : bool := tpl_is_lower c || tpl_is_us c.              (* [a-z_] *)
Definition tpl_is_tail_char (c : ascii) : bool := tpl_is_lower c || tpl_is_digit c || tpl_is_us c.
Definition tpl_is_idx_char (c : ascii) : bool :=                                             (* [a-zA-Z0-9_/] *)
  tpl_is_lower c || tpl_is_upper c || tpl_is_digit c || tpl_is_us c || (tpl_code c =? 47)%N.
Definition tpl_is_char (n : N) (c : ascii) : bool := (tpl_code c =? n)%N.
Definition tpl_is_space (c : ascii) : bool := tpl_between 9 13 c || tpl_is_char 32 c.

Fixpoint tpl_span (p : ascii -> bool) (s : string) : string * string :=
  match s with
  | EmptyString => (EmptyString, EmptyString)
  | String c r => if p c then let (a, b) := tpl_span p r in (String c a, b) else (EmptyString, s)
  end.
Fixpoint tpl_all (p : ascii -> bool) (s : string) : bool :=
  match s with EmptyString => true | String c r => p c && tpl_all p r end.
Definition tpl_nonempty (s : string) : bool := match s with EmptyString => false | _ => true end.

(* ------------------------------------------------------------------ schemas (resources.go) *)
Definition tpl_fields (r : tpl_resource) : list (string * tpl_ftype) :=
  (match r with
   | TpAccounts =>
       [("address", TpBase TpString); ("first_usage", TpBase TpDate); ("balance", TpMap TpNumeric);
        ("metadata", TpMap TpString); ("insertion_date", TpBase TpDate); ("updated_at", TpBase TpDate)]
   | TpLogs => [("date", TpBase TpDate); ("id", TpBase TpNumeric); ("type", TpBase TpString)]
   | TpTransactions =>
       [("reverted", TpBase TpBoolean); ("account", TpBase TpString); ("source", TpBase TpString);
        ("destination", TpBase TpString); ("timestamp", TpBase TpDate); ("metadata", TpMap TpString);
        ("id", TpBase TpNumeric); ("reference", TpBase TpString); ("inserted_at", TpBase TpDate);
        ("updated_at", TpBase TpDate); ("reverted_at", TpBase TpDate)]
   | TpVolumes =>   (* "account" is an alias of "address" *)
       [("address", TpBase TpString); ("account", TpBase TpString); ("balance", TpMap TpNumeric);
        ("first_usage", TpBase TpDate); ("metadata", TpMap TpString)]
   end)%string.

Fixpoint tpl_assoc {A} (k : string) (l : list (string * A)) : option A :=
  match l with [] => None | (k', v) :: r => if String.eqb k k' then Some v else tpl_assoc k r end.

(* parseAccess: ^([a-z_]+)(?:\[([a-zA-Z0-9_/]+)\])?$ *)
Definition tpl_parse_access (key : string) : option (string * option string) :=
  let (name, rest) := tpl_span tpl_is_ref_char key in
  if negb (tpl_nonempty name) then None else
  match rest with
  | EmptyString => Some (name, None)
  | String c r =>
      if tpl_is_char 91 c then
        let (idx, rest') := tpl_span tpl_is_idx_char r in
        match rest' with
        | String c' EmptyString => if tpl_is_char 93 c' && tpl_nonempty idx then Some (name, Some idx) else None
        | _ => None
        end
      else None
  end.

Definition tpl_field_type (r : tpl_resource) (key : string) : tpl_err + tpl_ftype :=
  match tpl_parse_access key with
  | None => inl TpeBadFieldName
  | Some (name, idx) =>
      match tpl_assoc name (tpl_fields r) with
      | None => inl TpeUnknownField
      | Some ft =>
          match idx with
          | None => inr ft
          | Some _ => match ft with TpMap b => inr (TpBase b) | TpBase _ => inl TpeBadIndexing end
          end
      end
  end.

(* ------------------------------------------------------------------ dates: time.Parse(RFC3339Nano) accepts? *)
Definition tpl_dig (c : ascii) : Z := Z.of_N (tpl_code c) - 48.
Definition tpl_num2 (a b : ascii) : option Z :=
  if tpl_is_digit a && tpl_is_digit b then Some (tpl_dig a * 10 + tpl_dig b) else None.
Definition tpl_leap (y : Z) : bool := ((y mod 4 =? 0) && negb (y mod 100 =? 0)) || (y mod 400 =? 0).
Definition tpl_mdays (y m : Z) : Z :=
  if m =? 2 then (if tpl_leap y then 29 else 28)
  else if (m =? 4) || (m =? 6) || (m =? 9) || (m =? 11) then 30 else 31.
(* after the seconds: optional fraction [.,]d+ , then Z or (+|-)hh:mm with hh < 24, mm < 60 *)
Definition tpl_zone_ok (s : string) : bool :=
  match s with
  | String z EmptyString => tpl_is_char 90 z
  | String sg (String h1 (String h2 (String col (String m1 (String m2 EmptyString))))) =>
      (tpl_is_char 43 sg || tpl_is_char 45 sg) && tpl_is_char 58 col &&
      match tpl_num2 h1 h2, tpl_num2 m1 m2 with
      | Some h, Some m => (h <? 24) && (m <? 60)
      | _, _ => false
      end
  | _ => false
  end.
Definition tpl_frac_zone_ok (s : string) : bool :=
  match s with
  | String c r =>
      if tpl_is_char 46 c || tpl_is_char 44 c then
        let (ds, rest) := tpl_span tpl_is_digit r in tpl_nonempty ds && tpl_zone_ok rest
      else tpl_zone_ok s
  | EmptyString => false
  end.
Definition tpl_date_ok (s : string) : bool :=
  match s with
  | String y1 (String y2 (String y3 (String y4 (String d1 (String mo1 (String mo2 (String d2
      (String dd1 (String dd2 (String t (String h1 (String h2 (String c1 (String mi1 (String mi2
      (String c2 (String s1 (String s2 rest)))))))))))))))))) =>
      tpl_is_char 45 d1 && tpl_is_char 45 d2 && tpl_is_char 84 t && tpl_is_char 58 c1 && tpl_is_char 58 c2 &&
      match tpl_num2 y1 y2, tpl_num2 y3 y4, tpl_num2 mo1 mo2, tpl_num2 dd1 dd2 with
      | Some ya, Some yb, Some mo, Some dd =>
          let y := ya * 100 + yb in
          (1 <=? mo) && (mo <=? 12) && (1 <=? dd) && (dd <=? tpl_mdays y mo) &&
          match tpl_num2 h1 h2, tpl_num2 mi1 mi2, tpl_num2 s1 s2 with
          | Some h, Some mi, Some se => (h <? 24) && (mi <? 60) && (se <? 60) && tpl_frac_zone_ok rest
          | _, _, _ => false
          end
      | _, _, _, _ => false
      end
  | _ => false
  end.

(* ------------------------------------------------------------------ validateValueType (variables.go) *)
Definition tpl_validate (t : tpl_base) (v : tpl_val) : bool :=
  match v with
  | TpvNull => true                      (* castAndValidateValue: nil passes for every type *)
  | _ =>
    match t, v with
    | TpBoolean, TpvBool _ => true
    | TpDate, TpvStr s => tpl_date_ok s
    | TpNumeric, TpvNum _ => true
    | TpNumeric, TpvFloat _ => true
    | TpString, TpvStr _ => true
    | _, _ => false
    end
  end.

(* vars := defaults (non-nil), then declared call variables (validated; undeclared ones ignored) on top *)
Fixpoint tpl_defaults_env (decls : list (string * tpl_decl)) : tpl_env :=
  match decls with
  | [] => []
  | (k, d) :: r =>
      match tpd_default d with
      | TpvNull => tpl_defaults_env r
      | v => (k, v) :: tpl_defaults_env r
      end
  end.
Fixpoint tpl_call_env (decls : list (string * tpl_decl)) (call : tpl_env) : tpl_err + tpl_env :=
  match call with
  | [] => inr []
  | (k, v) :: r =>
      match tpl_assoc k decls with
      | None => tpl_call_env decls r
      | Some d =>
          if tpl_validate (tpd_type d) v then
            match tpl_call_env decls r with inl e => inl e | inr env => inr ((k, v) :: env) end
          else inl TpeBadVarValue
      end
  end.
Definition tpl_make_env (decls : list (string * tpl_decl)) (call : tpl_env) : tpl_err + tpl_env :=
  match tpl_call_env decls call with
  | inl e => inl e
  | inr env => inr (env ++ tpl_defaults_env decls)
  end.

(* ------------------------------------------------------------------ jsonToString *)
Definition tpl_z_to_string (z : Z) : string := NilZero.string_of_int (Z.to_int z).
Definition tpl_json_to_string (v : tpl_val) : tpl_err + string :=
  match v with
  | TpvFloat z => inr (tpl_z_to_string z)      (* exact, through big.Float -> big.Int (fixes/filter-07) *)
  | TpvFloatFrac => inl TpeBadNumber
  | TpvNum z => inr (tpl_z_to_string z)
  | TpvNumTxt s => inr s
  | TpvStr s => inr s
  | TpvBool b => inr (if b then "true" else "false")%string
  | TpvNull | TpvOther => inl TpeBadType
  end.

(* ------------------------------------------------------------------ ParseTemplate / ReplaceVariables *)
Inductive tpl_seg := TpsChar (c : ascii) | TpsVar (name : string).
Inductive tpl_pst :=
| TpLit                       (* outside a reference *)
| TpDollar                    (* just consumed '$' *)
| TpBrace                     (* consumed "${" *)
| TpSimple (name : string)    (* inside $name *)
| TpBracket (name : string).  (* inside ${name *)

Definition tpl_snoc (s : string) (c : ascii) : string := (s ++ String c EmptyString)%string.
Definition tpl_cons_seg (x : tpl_seg) (o : option (list tpl_seg)) : option (list tpl_seg) :=
  match o with Some l => Some (x :: l) | None => None end.

Fixpoint tpl_scan (st : tpl_pst) (s : string) : option (list tpl_seg) :=
  match s with
  | EmptyString =>
      match st with
      | TpLit => Some []
      | TpSimple n => Some [TpsVar n]
      | TpDollar | TpBrace | TpBracket _ => None
      end
  | String c r =>
      match st with
      | TpLit => if tpl_is_char 36 c then tpl_scan TpDollar r else tpl_cons_seg (TpsChar c) (tpl_scan TpLit r)
      | TpDollar =>
          if tpl_is_char 123 c then tpl_scan TpBrace r
          else if tpl_is_lower c then tpl_scan (TpSimple (String c EmptyString)) r else None
      | TpBrace => if tpl_is_lower c then tpl_scan (TpBracket (String c EmptyString)) r else None
      | TpSimple n =>
          if tpl_is_tail_char c then tpl_scan (TpSimple (tpl_snoc n c)) r
          else tpl_cons_seg (TpsVar n)
                 (if tpl_is_char 36 c then tpl_scan TpDollar r else tpl_cons_seg (TpsChar c) (tpl_scan TpLit r))
      | TpBracket n =>
          if tpl_is_tail_char c then tpl_scan (TpBracket (tpl_snoc n c)) r
          else if tpl_is_char 125 c then tpl_cons_seg (TpsVar n) (tpl_scan TpLit r) else None
      end
  end.

(* currentStr += string([]byte{b}): every byte is copied as it is (fix 06-template-non-ascii; before
   it, string(b) re-encoded a byte >= 0x80 as the two-byte UTF-8 form of the code point b) *)
Definition tpl_byte_to_string (c : ascii) : string := String c EmptyString.

Fixpoint tpl_subst (env : tpl_env) (segs : list tpl_seg) : tpl_err + string :=
  match segs with
  | [] => inr EmptyString
  | TpsChar c :: r =>
      match tpl_subst env r with inl e => inl e | inr s => inr (tpl_byte_to_string c ++ s)%string end
  | TpsVar n :: r =>
      match tpl_assoc n env with
      | None => inl TpeMissingVariable
      | Some v =>
          match tpl_json_to_string v with
          | inl e => inl e
          | inr x => match tpl_subst env r with inl e => inl e | inr s => inr (x ++ s)%string end
          end
      end
  end.

Definition tpl_replace (env : tpl_env) (s : string) : tpl_err + string :=
  match tpl_scan TpLit s with
  | None => inl TpeBadTemplate
  | Some segs => tpl_subst env segs
  end.

(* varRegex ^\${([a-z_]+)}$ *)
Definition tpl_placeholder (s : string) : option string :=
  match s with
  | String d (String b r) =>
      if tpl_is_char 36 d && tpl_is_char 123 b then
        let (name, rest) := tpl_span tpl_is_ref_char r in
        match rest with
        | String c EmptyString => if tpl_is_char 125 c && tpl_nonempty name then Some name else None
        | _ => None
        end
      else None
  | _ => None
  end.

(* extractVariable[T] *)
Definition tpl_extract (env : tpl_env) (s : string) : tpl_err + tpl_val :=
  match tpl_placeholder s with
  | None => inl TpeBadPlaceholder
  | Some n => match tpl_assoc n env with None => inl TpeMissingVariable | Some v => inr v end
  end.

(* resolveValue *)
Definition tpl_resolve_value (ft : tpl_ftype) (env : tpl_env) (s : string) : tpl_err + tpl_atom :=
  match ft with
  | TpMap _ => inl TpeBadFieldType
  | TpBase TpString => match tpl_replace env s with inl e => inl e | inr x => inr (TpaStr x) end
  | TpBase TpBoolean =>
      match tpl_extract env s with
      | inl e => inl e
      | inr (TpvBool b) => inr (TpaBool b)
      | inr _ => inl TpeBadType
      end
  | TpBase TpDate =>
      match tpl_extract env s with
      | inl e => inl e
      | inr (TpvStr x) => inr (TpaStr x)
      | inr _ => inl TpeBadType
      end
  | TpBase TpNumeric =>
      match tpl_extract env s with
      | inl e => inl e
      | inr (TpvNum z) => inr (TpaInt z)
      | inr (TpvNumTxt _) => inl TpeBadNumber       (* json.Number, big.Int.SetString fails *)
      | inr (TpvFloat z) => inr (TpaInt z)          (* float64 fallback, exact through big.Float *)
      | inr TpvFloatFrac => inl TpeBadNumber
      | inr _ => inl TpeBadType
      end
  end.

Definition tpl_resolve_atom (ft : tpl_ftype) (env : tpl_env) (a : tpl_atom) : tpl_err + tpl_atom :=
  match a with TpaStr s => tpl_resolve_value ft env s | _ => inr a end.

Fixpoint tpl_map_err {A B} (f : A -> tpl_err + B) (l : list A) : tpl_err + list B :=
  match l with
  | [] => inr []
  | x :: r =>
      match f x with
      | inl e => inl e
      | inr y => match tpl_map_err f r with inl e => inl e | inr ys => inr (y :: ys) end
      end
  end.

(* resolveFilter *)
Definition tpl_resolve_filter (op : tpl_op) (ft : tpl_ftype) (env : tpl_env) (v : tpl_jv) : tpl_err + tpl_jv :=
  match op with
  | TpoIn =>
      match v with
      | TpjList l => match tpl_map_err (tpl_resolve_atom ft env) l with inl e => inl e | inr l' => inr (TpjList l') end
      | TpjAtom _ => inl TpeExpectedArray
      end
  | TpoExists =>
      match ft with
      | TpMap u =>
          match v with
          | TpjAtom a => match tpl_resolve_atom (TpBase u) env a with inl e => inl e | inr a' => inr (TpjAtom a') end
          | TpjList _ => inr v
          end
      | TpBase _ => inl TpeExistsNotMap
      end
  | _ =>
      match v with
      | TpjAtom a => match tpl_resolve_atom ft env a with inl e => inl e | inr a' => inr (TpjAtom a') end
      | TpjList _ => inr v
      end
  end.

Definition tpl_resolve_leaf (r : tpl_resource) (env : tpl_env) (op : tpl_op) (key : string) (v : tpl_jv)
  : tpl_err + tpl_body :=
  match tpl_field_type r key with
  | inl e => inl e
  | inr ft => match tpl_resolve_filter op ft env v with inl e => inl e | inr v' => inr (TpLeaf op key v') end
  end.

(* Builder.Walk: left to right, stops at the first error *)
Fixpoint tpl_walk (r : tpl_resource) (env : tpl_env) (b : tpl_body) : tpl_err + tpl_body :=
  match b with
  | TpAnd l =>
      match (fix go (l : list tpl_body) : tpl_err + list tpl_body :=
               match l with
               | [] => inr []
               | x :: xs =>
                   match tpl_walk r env x with
                   | inl e => inl e
                   | inr y => match go xs with inl e => inl e | inr ys => inr (y :: ys) end
                   end
               end) l with
      | inl e => inl e
      | inr l' => inr (TpAnd l')
      end
  | TpOr l =>
      match (fix go (l : list tpl_body) : tpl_err + list tpl_body :=
               match l with
               | [] => inr []
               | x :: xs =>
                   match tpl_walk r env x with
                   | inl e => inl e
                   | inr y => match go xs with inl e => inl e | inr ys => inr (y :: ys) end
                   end
               end) l with
      | inl e => inl e
      | inr l' => inr (TpOr l')
      end
  | TpNot x => match tpl_walk r env x with inl e => inl e | inr y => inr (TpNot y) end
  | TpLeaf op key v => tpl_resolve_leaf r env op key v
  end.

(* ResolveFilterTemplate; body None = empty / null / {} body (ParseJSON returns a nil builder) *)
Definition tpl_resolve (r : tpl_resource) (body : option tpl_body) (decls : list (string * tpl_decl)) (call : tpl_env)
  : tpl_err + option tpl_body :=
  match tpl_make_env decls call with
  | inl e => inl e
  | inr env =>
      match body with
      | None => inr None
      | Some b => match tpl_walk r env b with inl e => inl e | inr b' => inr (Some b') end
      end
  end.

(* ------------------------------------------------------------------ params: UnmarshalJSON / Overwrite *)
Inductive tpl_order := TpoAsc | TpoDesc.
Record tpl_vopts := { tpv_insertion : bool; tpv_group : Z }.
Record tpl_params := {
  tpp_pit : option Z; tpp_oot : option Z; tpp_expand : list string;
  tpp_column : string; tpp_order : option tpl_order; tpp_pagesize : Z; tpp_opts : tpl_vopts }.
(* one params JSON object; absent and null fields coincide (Go zero values) *)
Record tpl_pjson := {
  tpj_end : option Z; tpj_start : option Z; tpj_expand : list string;
  tpj_sort : string;            (* "" = absent *)
  tpj_pagesize : Z;             (* 0 = absent *)
  tpj_group : option Z; tpj_insertion : option bool }.

Definition tpl_lower_char (c : ascii) : ascii := if tpl_is_upper c then ascii_of_N (tpl_code c + 32) else c.
Fixpoint tpl_lower (s : string) : string :=
  match s with EmptyString => EmptyString | String c r => String (tpl_lower_char c) (tpl_lower r) end.

(* strcase.ToSnake = ToScreamingDelimited(s, '_', "", false), without its initial TrimSpace *)
Definition tpl_is_sep (c : ascii) : bool := tpl_is_char 32 c || tpl_is_char 95 c || tpl_is_char 45 c || tpl_is_char 46 c.
Definition tpl_us : string := String (ascii_of_N 95) EmptyString.
Fixpoint tpl_snake_go (prev_cap : bool) (s : string) : string :=
  match s with
  | EmptyString => EmptyString
  | String c r =>
      let isCap := tpl_is_upper c in
      let isLow := tpl_is_lower c in
      let isNum := tpl_is_digit c in
      let v := tpl_lower_char c in
      let rest := tpl_snake_go isCap r in
      let dflt := String (if tpl_is_sep c then ascii_of_N 95 else v) rest in
      match r with
      | EmptyString => dflt
      | String nx _ =>
          let nC := tpl_is_upper nx in let nL := tpl_is_lower nx in let nN := tpl_is_digit nx in
          if (isCap && (nL || nN)) || (isLow && (nC || nN)) || (isNum && (nC || nL)) then
            ((if isCap && nL && prev_cap then tpl_us else EmptyString) ++
             String v ((if isLow || isNum || nN then tpl_us else EmptyString) ++ rest))%string
          else dflt
      end
  end.
Definition tpl_to_snake (s : string) : string := tpl_snake_go false s.

(* strings.SplitN(s, ":", 2) *)
Fixpoint tpl_split_colon (s : string) : string * option string :=
  match s with
  | EmptyString => (EmptyString, None)
  | String c r =>
      if tpl_is_char 58 c then (EmptyString, Some r)
      else let (a, b) := tpl_split_colon r in (String c a, b)
  end.

(* sort part of UnmarshalJSON: column and order are touched only when "sort" is a non-empty string *)
Definition tpl_apply_sort (col : string) (ord : option tpl_order) (sort : string)
  : tpl_err + (string * option tpl_order) :=
  if negb (tpl_nonempty sort) then inr (col, ord) else
  let (c, o) := tpl_split_colon sort in
  if tpl_all tpl_is_space c then inl TpeBadSort else
  match o with
  | None => inr (tpl_to_snake c, ord)
  | Some o =>
      if String.eqb (tpl_lower o) "desc" then inr (tpl_to_snake c, Some TpoDesc)
      else if String.eqb (tpl_lower o) "asc" then inr (tpl_to_snake c, Some TpoAsc)
      else inl TpeBadOrder
  end.

Definition tpl_opt_or {A} (o : option A) (d : A) : A := match o with Some x => x | None => d end.

(* UnmarshalJSON of [j] into [p] followed by the std decoding of [j] into p.Opts, as Overwrite does.
   Since fix 05-template-params-fieldwise an object overrides exactly the fields it carries: an absent
   (or null) endTime / startTime / expand / pageSize keeps the current value, like sort and the
   volumes options always did. (pageSize 0 and expand [] stand for "absent" in [tpl_pjson].) *)
Definition tpl_apply (p : tpl_params) (j : tpl_pjson) : tpl_err + tpl_params :=
  if tpj_pagesize j <? 0 then inl TpeBadParams else
  match tpl_apply_sort (tpp_column p) (tpp_order p) (tpj_sort j) with
  | inl e => inl e
  | inr (col, ord) =>
      inr {| tpp_pit := match tpj_end j with Some t => Some t | None => tpp_pit p end;
             tpp_oot := match tpj_start j with Some t => Some t | None => tpp_oot p end;
             tpp_expand := match tpj_expand j with [] => tpp_expand p | l => l end;
             tpp_column := col; tpp_order := ord;
             tpp_pagesize := if tpj_pagesize j =? 0 then tpp_pagesize p else tpj_pagesize j;
             tpp_opts := {| tpv_insertion := tpl_opt_or (tpj_insertion j) (tpv_insertion (tpp_opts p));
                            tpv_group := tpl_opt_or (tpj_group j) (tpv_group (tpp_opts p)) |} |}
  end.

Fixpoint tpl_apply_all (p : tpl_params) (others : list (option tpl_pjson)) : tpl_err + tpl_params :=
  match others with
  | [] => inr p
  | None :: r => tpl_apply_all p r          (* empty or null RawMessage: skipped *)
  | Some j :: r => match tpl_apply p j with inl e => inl e | inr p' => tpl_apply_all p' r end
  end.

Definition tpl_unmarshal := tpl_apply.
(* QueryTemplateParams.Overwrite *)
Definition tpl_overwrite (p : tpl_params) (others : list (option tpl_pjson)) : tpl_err + tpl_params :=
  tpl_apply_all p others.

(* ------------------------------------------------------------------ RunQuery: defaults, query construction *)
Record tpl_config := { tpc_max : Z; tpc_default : Z }.      (* storagecommon.PaginationConfig *)

Definition tpl_run_defaults (r : tpl_resource) (cfg : tpl_config) : tpl_params :=
  let mk col ord := {| tpp_pit := None; tpp_oot := None; tpp_expand := []; tpp_column := col; tpp_order := Some ord;
                       tpp_pagesize := tpc_default cfg; tpp_opts := {| tpv_insertion := false; tpv_group := 0 |} |} in
  (match r with
   | TpTransactions => mk "id" TpoDesc
   | TpAccounts => mk "address" TpoAsc
   | TpLogs => mk "id" TpoDesc
   | TpVolumes => mk "account" TpoAsc
   end)%string.

(* storagecommon.InitialPaginatedQuery *)
Record tpl_query := {
  tq_filter : option tpl_body; tq_pit : option Z; tq_oot : option Z; tq_expand : list string;
  tq_opts : tpl_vopts; tq_column : string; tq_order : option tpl_order; tq_pagesize : Z }.

(* templateParamsToQuery *)
Definition tpl_to_query (p : tpl_params) (f : option tpl_body) (cfg : tpl_config) : tpl_query :=
  {| tq_filter := f; tq_pit := tpp_pit p; tq_oot := tpp_oot p; tq_expand := tpp_expand p; tq_opts := tpp_opts p;
     tq_column := tpp_column p; tq_order := tpp_order p;
     tq_pagesize := if tpc_max cfg <? tpp_pagesize p then tpc_max cfg else tpp_pagesize p |}.

(* PaginatedResourceRepository.Paginate on an InitialPaginatedQuery: defaults *)
Definition tpl_store_default (r : tpl_resource) : string * tpl_order :=
  (match r with
   | TpTransactions => ("id", TpoDesc)
   | TpAccounts => ("address", TpoAsc)
   | TpLogs => ("id", TpoDesc)
   | TpVolumes => ("account", TpoAsc)
   end)%string.
Definition tpl_query_default_pagesize : Z := 15.            (* paginate.QueryDefaultPageSize *)
Definition tpl_normalize (r : tpl_resource) (q : tpl_query) : tpl_query :=
  {| tq_filter := tq_filter q; tq_pit := tq_pit q; tq_oot := tq_oot q; tq_expand := tq_expand q; tq_opts := tq_opts q;
     tq_column := if tpl_nonempty (tq_column q) then tq_column q else fst (tpl_store_default r);
     tq_order := Some (tpl_opt_or (tq_order q) (snd (tpl_store_default r)));
     tq_pagesize := if tq_pagesize q =? 0 then tpl_query_default_pagesize else tq_pagesize q |}.

(* the query a template run hands to the store, as one function (what the tie prints) *)
Definition tpl_run_plan (r : tpl_resource) (body : option tpl_body) (decls : list (string * tpl_decl)) (call : tpl_env)
  (tparams rparams : option tpl_pjson) (cfg : tpl_config) : tpl_err + tpl_query :=
  match tpl_resolve r body decls call with
  | inl e => inl e
  | inr f =>
      match tpl_overwrite (tpl_run_defaults r cfg) [tparams; rparams] with
      | inl e => inl e
      | inr p => inr (tpl_to_query p f cfg)
      end
  end.

(* ------------------------------------------------------------------ listing and cursors over an abstract store *)
Section TplList.
  Variable row : Type.
  (* what the store answers for a normalised query, unpaginated: filtered and sorted rows *)
  Variable tpl_select : tpl_resource -> tpl_query -> list row.

  (* a cursor = the (normalised) query + an offset; the real cursors of date/numeric columns carry a
     pagination id instead of an offset: that difference is covered by C21, here only "the cursor
     carries the query that produced it" matters *)
  Record tpl_cursor := { tcu_query : tpl_query; tcu_offset : nat }.
  Record tpl_page := { tpg_data : list row; tpg_pagesize : Z; tpg_next : option tpl_cursor }.

  Definition tpl_page_at (r : tpl_resource) (q : tpl_query) (off : nat) : tpl_page :=
    let all := skipn off (tpl_select r q) in
    let n := Z.to_nat (tq_pagesize q) in
    {| tpg_data := firstn n all; tpg_pagesize := tq_pagesize q;
       tpg_next := if Nat.ltb n (List.length all) then Some {| tcu_query := q; tcu_offset := off + n |} else None |}.

  (* ListTransactions / ListAccounts / ListLogs / GetVolumesWithBalances with an initial query *)
  Definition tpl_direct (r : tpl_resource) (q : tpl_query) : tpl_page := tpl_page_at r (tpl_normalize r q) 0.
  (* runQueryFromCursor / a List call with a cursor *)
  Definition tpl_from_cursor (r : tpl_resource) (c : tpl_cursor) : tpl_page := tpl_page_at r (tcu_query c) (tcu_offset c).

  (* RunQuery without cursor *)
  Definition tpl_run_query (r : tpl_resource) (body : option tpl_body) (decls : list (string * tpl_decl)) (call : tpl_env)
    (tparams rparams : option tpl_pjson) (cfg : tpl_config) : tpl_err + tpl_page :=
    match tpl_run_plan r body decls call tparams rparams cfg with
    | inl e => inl e
    | inr q => inr (tpl_direct r q)
    end.

  (* follow the cursors to exhaustion; [fuel] only has to exceed the number of remaining rows *)
  Fixpoint tpl_follow (fuel : nat) (r : tpl_resource) (p : tpl_page) : list row :=
    match fuel with
    | O => tpg_data p
    | S f =>
        match tpg_next p with
        | None => tpg_data p
        | Some c => (tpg_data p ++ tpl_follow f r (tpl_from_cursor r c))%list
        end
    end.
End TplList.
