(* Proofs about Ledger/Chart.v: the byte order is a strict total order, sorted-object algebra
   (jinsert / jobj / filter / lookup), and the round trip  unmarshal (marshal c) = Some c  by structural
   induction over the chart tree. *)
From Coq Require Import List String Bool Ascii NArith Lia.
From LV Require Import Base.Util Ledger.Chart.
Import ListNotations.
Open Scope string_scope.
Open Scope list_scope.

(* ---------- str_ltb is a strict total order ---------- *)
Lemma N_of_ascii_inj x y : N_of_ascii x = N_of_ascii y -> x = y.
Proof. intros H. rewrite <- (ascii_N_embedding x), <- (ascii_N_embedding y), H. reflexivity. Qed.

Ltac ncmp := repeat match goal with
  | H : context [(?x <? ?y)%N] |- _ => destruct (N.ltb_spec x y)
  | |- context [(?x <? ?y)%N] => destruct (N.ltb_spec x y)
  end.

Lemma str_ltb_irrefl a : str_ltb a a = false.
Proof. induction a as [|x a IH]; simpl; [reflexivity|]. ncmp; try lia. exact IH. Qed.

Lemma str_ltb_trans a : forall b c, str_ltb a b = true -> str_ltb b c = true -> str_ltb a c = true.
Proof.
  induction a as [|x a IH]; intros [|y b] [|z c] H1 H2; simpl in *; try discriminate; try reflexivity.
  ncmp; try lia; try discriminate; try reflexivity.
  assert (N_of_ascii x = N_of_ascii z) by lia. eapply IH; eassumption.
Qed.

Lemma str_ltb_total a : forall b, str_ltb a b = false -> str_ltb b a = false -> a = b.
Proof.
  induction a as [|x a IH]; intros [|y b] H1 H2; simpl in *; try discriminate; try reflexivity.
  ncmp; try lia; try discriminate.
  assert (E : x = y) by (apply N_of_ascii_inj; lia). subst y. f_equal. apply IH; assumption.
Qed.

Lemma str_ltb_gt k k' : str_ltb k k' = false -> String.eqb k k' = false -> str_ltb k' k = true.
Proof.
  intros H1 H2. destruct (str_ltb k' k) eqn:E; [reflexivity|].
  rewrite (str_ltb_total k k' H1 E), String.eqb_refl in H2. discriminate.
Qed.

Lemma str_ltb_neq k k' : str_ltb k k' = true -> String.eqb k k' = false.
Proof.
  intros H. destruct (String.eqb k k') eqn:E; [|reflexivity].
  apply String.eqb_eq in E. subst. rewrite str_ltb_irrefl in H. discriminate.
Qed.

(* ---------- sorted objects ---------- *)
Section SortedFacts.
  Context {V : Type}.
  Implicit Types m : list (str * V).

  Lemma lt_all_trans k k' m : str_ltb k k' = true -> lt_all k' m = true -> lt_all k m = true.
  Proof.
    intros Hk. unfold lt_all. rewrite !forallb_forall. intros H e He. eapply str_ltb_trans; [exact Hk | apply H, He].
  Qed.

  Lemma lt_all_filter k (p : str * V -> bool) m : lt_all k m = true -> lt_all k (filter p m) = true.
  Proof. unfold lt_all. rewrite !forallb_forall. intros H e He. apply filter_In in He. apply H, He. Qed.

  Lemma jinsert_lt_all k (v : V) m : lt_all k m = true -> jinsert k v m = (k, v) :: m.
  Proof. destruct m as [|[k' v'] r]; simpl; [reflexivity|]. intros H. apply andb_true_iff in H. destruct H as [H _]. rewrite H. reflexivity. Qed.

  Lemma lt_all_jinsert k0 k (v : V) m : lt_all k0 m = true -> str_ltb k0 k = true -> lt_all k0 (jinsert k v m) = true.
  Proof.
    induction m as [|[k' v'] r IH]; simpl; intros H Hk.
    - rewrite Hk. reflexivity.
    - apply andb_true_iff in H. destruct H as [H1 H2].
      destruct (str_ltb k k'); simpl; [rewrite Hk, H1, H2; reflexivity|].
      destruct (String.eqb k k'); simpl; [rewrite Hk, H2; reflexivity|].
      rewrite H1, IH by assumption. reflexivity.
  Qed.

  Lemma ssorted_jinsert k (v : V) m : ssorted m = true -> ssorted (jinsert k v m) = true.
  Proof.
    induction m as [|[k' v'] r IH]; simpl; intros H; [reflexivity|].
    apply andb_true_iff in H. destruct H as [H1 H2].
    destruct (str_ltb k k') eqn:E1; simpl.
    - rewrite E1, H1, H2. rewrite (lt_all_trans k k' r E1 H1). reflexivity.
    - destruct (String.eqb k k') eqn:E2; simpl.
      + apply String.eqb_eq in E2. subst k'. rewrite H1, H2. reflexivity.
      + rewrite IH by assumption. rewrite lt_all_jinsert; [reflexivity | assumption | apply str_ltb_gt; assumption].
  Qed.

  Lemma ssorted_jobj (es : list (str * V)) : ssorted (jobj es) = true.
  Proof. induction es as [|e es IH]; simpl; [reflexivity|]. apply ssorted_jinsert, IH. Qed.

  Lemma jobj_cons k (v : V) es : jobj ((k, v) :: es) = jinsert k v (jobj es).
  Proof. reflexivity. Qed.

  Lemma jobj_sorted (es : list (str * V)) : ssorted es = true -> jobj es = es.
  Proof.
    induction es as [|[k v] es IH]; intros H; [reflexivity|].
    simpl in H. apply andb_true_iff in H. destruct H as [H1 H2]. rewrite jobj_cons, IH by assumption.
    apply jinsert_lt_all, H1.
  Qed.

  Lemma aget_jinsert k (v : V) m k0 :
    aget String.eqb (jinsert k v m) k0 = if String.eqb k k0 then Some v else aget String.eqb m k0.
  Proof.
    induction m as [|[k' v'] r IH]; simpl; [reflexivity|].
    destruct (str_ltb k k'); simpl; [reflexivity|].
    destruct (String.eqb k k') eqn:E; simpl.
    - apply String.eqb_eq in E. subst k'. destruct (String.eqb k k0); reflexivity.
    - rewrite IH. destruct (String.eqb k' k0) eqn:E2; [|reflexivity].
      apply String.eqb_eq in E2. subst k0. rewrite E. reflexivity.
  Qed.

  Lemma aget_jobj (es : list (str * V)) k0 : aget String.eqb (jobj es) k0 = aget String.eqb es k0.
  Proof.
    induction es as [|[k v] es IH]; [reflexivity|].
    rewrite jobj_cons, aget_jinsert. simpl. rewrite IH. reflexivity.
  Qed.

  Lemma filter_jinsert (p : str -> bool) k (v : V) m : ssorted m = true ->
    filter (fun e => p (fst e)) (jinsert k v m)
    = if p k then jinsert k v (filter (fun e => p (fst e)) m) else filter (fun e => p (fst e)) m.
  Proof.
    induction m as [|[k' v'] r IH]; simpl; intros H.
    - destruct (p k); reflexivity.
    - apply andb_true_iff in H. destruct H as [H1 H2].
      destruct (str_ltb k k') eqn:E1.
      + assert (Hall : lt_all k ((k', v') :: r) = true) by (simpl; rewrite E1; exact (lt_all_trans k k' r E1 H1)).
        simpl. destruct (p k) eqn:Pk.
        * symmetry. apply jinsert_lt_all.
          apply (lt_all_filter k (fun e => p (fst e)) ((k', v') :: r) Hall).
        * reflexivity.
      + destruct (String.eqb k k') eqn:E2.
        * apply String.eqb_eq in E2. subst k'. simpl. destruct (p k) eqn:Pk; [|reflexivity].
          simpl. rewrite str_ltb_irrefl, String.eqb_refl. reflexivity.
        * simpl. rewrite IH by assumption. destruct (p k') eqn:Pk'; destruct (p k) eqn:Pk; simpl; try reflexivity.
          rewrite E1, E2. reflexivity.
  Qed.

  Lemma filter_jobj (p : str -> bool) (es : list (str * V)) :
    filter (fun e => p (fst e)) (jobj es) = jobj (filter (fun e => p (fst e)) es).
  Proof.
    induction es as [|[k v] es IH]; [reflexivity|].
    rewrite jobj_cons, filter_jinsert by apply ssorted_jobj. rewrite IH. simpl.
    destruct (p k); reflexivity.
  Qed.

  Lemma forallb_jinsert (p : str * V -> bool) k (v : V) m :
    p (k, v) = true -> forallb p m = true -> forallb p (jinsert k v m) = true.
  Proof.
    induction m as [|[k' v'] r IH]; simpl; intros Hk H; [rewrite Hk; reflexivity|].
    apply andb_true_iff in H. destruct H as [H1 H2].
    destruct (str_ltb k k'); simpl; [rewrite Hk, H1, H2; reflexivity|].
    destruct (String.eqb k k'); simpl; [rewrite Hk, H2; reflexivity|].
    rewrite H1, IH by assumption. reflexivity.
  Qed.

  Lemma forallb_jobj (p : str * V -> bool) (es : list (str * V)) : forallb p es = true -> forallb p (jobj es) = true.
  Proof.
    induction es as [|[k v] es IH]; intros H; [reflexivity|].
    simpl in H. apply andb_true_iff in H. destruct H as [H1 H2]. rewrite jobj_cons. apply forallb_jinsert; [exact H1 | apply IH, H2].
  Qed.
End SortedFacts.

Lemma lt_all_map_keys {A B} (g : str * A -> str * B) (l : list (str * A)) k :
  (forall e, fst (g e) = fst e) -> lt_all k (map g l) = lt_all k l.
Proof. intros Hg. unfold lt_all. induction l as [|e l IH]; simpl; [reflexivity|]. rewrite Hg, IH. reflexivity. Qed.

Lemma ssorted_map_keys {A B} (g : str * A -> str * B) (l : list (str * A)) :
  (forall e, fst (g e) = fst e) -> ssorted (map g l) = ssorted l.
Proof.
  intros Hg. induction l as [|[k x] l IH]; simpl; [reflexivity|].
  destruct (g (k, x)) as [k' y] eqn:E. pose proof (Hg (k, x)) as Hk. rewrite E in Hk. simpl in Hk. subst k'.
  rewrite IH, (lt_all_map_keys g l k Hg). reflexivity.
Qed.

Lemma aget_app {V} (l1 l2 : list (str * V)) k :
  aget String.eqb (l1 ++ l2) k = match aget String.eqb l1 k with Some v => Some v | None => aget String.eqb l2 k end.
Proof. induction l1 as [|[k' v'] l1 IH]; simpl; [reflexivity|]. destruct (String.eqb k' k); [reflexivity | exact IH]. Qed.

Lemma filter_app_all {A} (p : A -> bool) l : forallb p l = true -> filter p l = l.
Proof. induction l as [|x l IH]; simpl; intros H; [reflexivity|]. apply andb_true_iff in H. destruct H as [H1 H2]. rewrite H1, IH by assumption. reflexivity. Qed.
Lemma filter_none {A} (p : A -> bool) l : forallb (fun x => negb (p x)) l = true -> filter p l = [].
Proof. induction l as [|x l IH]; simpl; intros H; [reflexivity|]. apply andb_true_iff in H. destruct H as [H1 H2]. apply negb_true_iff in H1. rewrite H1. apply IH, H2. Qed.

(* ---------- key classes ---------- *)
Lemma is_seg_char_not c : is_seg_char c = true -> Ascii.eqb c "."%char = false /\ Ascii.eqb c "$"%char = false.
Proof.
  intros H. split.
  - destruct (Ascii.eqb_spec c "."%char) as [E|]; [|reflexivity]. subst c. vm_compute in H. discriminate.
  - destruct (Ascii.eqb_spec c "$"%char) as [E|]; [|reflexivity]. subst c. vm_compute in H. discriminate.
Qed.

Lemma name_ok_classes k : name_ok k = true -> is_prop k = false /\ is_var k = false /\ valid_segment k = true.
Proof.
  intros H. unfold valid_segment. rewrite H. destruct k as [|c r]; [discriminate|].
  simpl in H. apply andb_true_iff in H. destruct H as [Hc _]. apply is_seg_char_not in Hc. destruct Hc as [H1 H2].
  unfold is_prop, is_var; simpl. rewrite H1, H2. auto.
Qed.

(* ---------- omap / cat_somes ---------- *)
Lemma omap_skip {A B} (p : A -> bool) (h : A -> option B) (g : A -> option (option B)) l :
  (forall x, g x = if p x then match h x with Some y => Some (Some y) | None => None end else Some None) ->
  match omap g l with Some ys => Some (cat_somes ys) | None => None end = omap h (filter p l).
Proof.
  intros Hg. induction l as [|x l IH]; simpl; [reflexivity|].
  rewrite Hg. destruct (p x); simpl.
  - destruct (h x); [|reflexivity]. rewrite <- IH. destruct (omap g l); reflexivity.
  - rewrite <- IH. destruct (omap g l); reflexivity.
Qed.

Lemma omap_map_id {A B} (f : A -> B) (h : B -> option A) l :
  Forall (fun x => h (f x) = Some x) l -> omap h (map f l) = Some l.
Proof. induction 1 as [|x l Hx _ IH]; simpl; [reflexivity|]. rewrite Hx, IH. reflexivity. Qed.

(* ---------- structural induction over the chart tree ---------- *)
Definition varP (P : seg -> Prop) (var : option (str * option str * seg)) : Prop :=
  match var with Some v => P (snd v) | None => True end.

Section SegInd.
  Variable P : seg -> Prop.
  Hypothesis Hseg : forall fixed var acct,
    Forall (fun kx => P (snd kx)) fixed ->
    varP P var ->
    P (Seg fixed var acct).
  Fixpoint seg_ind2 (s : seg) : P s :=
    match s with
    | Seg fixed var acct =>
      Hseg fixed var acct
        ((fix go (l : list (str * seg)) : Forall (fun kx => P (snd kx)) l :=
            match l with
            | [] => Forall_nil _
            | (k, x) :: r => Forall_cons (k, x) (seg_ind2 x) (go r)
            end) fixed)
        (match var as v return varP P v with
         | Some (lp, x) => seg_ind2 x
         | None => I
         end)
    end.
End SegInd.

(* ---------- the round trip ---------- *)
Section RoundTrip.
  Variable re_valid : str -> bool.
  Variable re_match : str -> str -> bool.
  Notation unm_seg := (unm_seg re_valid).
  Notation pattern_of := (pattern_of re_valid).
  Notation valid_seg := (valid_seg re_valid).

  Lemma decode_mdspec_marshal (m : mdspec) : ssorted m = true -> decode_mdspec (marshal_mdspec m) = Some (Some m).
  Proof.
    intros Hs. unfold marshal_mdspec, decode_mdspec.
    rewrite jobj_sorted by (rewrite ssorted_map_keys; [exact Hs | intros e; reflexivity]).
    rewrite omap_map_id; [reflexivity|].
    apply Forall_forall. intros [k [v|]] _; reflexivity.
  Qed.

  Definition entries_of (fixed : list (str * seg)) (var : option (str * option str * seg)) : list (str * json) :=
    map (fun kx => let '(k, x) := kx in (k, marshal_seg None x)) fixed
    ++ match var with Some (l, p, x) => [(String "$" l, marshal_seg p x)] | None => [] end.

  Lemma marshal_seg_unfold pat fixed var acct :
    marshal_seg pat (Seg fixed var acct)
    = JObj (jobj (entries_of fixed var ++ acct_entries acct (has_children fixed var) ++ pat_entries pat)).
  Proof. unfold entries_of. simpl. rewrite <- !app_assoc. reflexivity. Qed.

  Definition props_of acct ch pat := acct_entries acct ch ++ pat_entries pat.

  Lemma props_all_prop acct ch pat : forallb (fun e => is_prop (fst e)) (props_of acct ch pat) = true.
  Proof. unfold props_of, acct_entries, pat_entries. destruct acct as [[[m|]]|], ch, pat; reflexivity. Qed.

  Lemma fixed_entries_names (fixed : list (str * seg)) :
    forallb (fun kx => let '(k, x) := kx in name_ok k && valid_seg x) fixed = true ->
    forallb (fun e => name_ok (fst e)) (map (fun kx => let '(k, x) := kx in (k, marshal_seg None x)) fixed) = true.
  Proof.
    induction fixed as [|[k x] l IH]; simpl; intros H; [reflexivity|].
    apply andb_true_iff in H. destruct H as [H1 H2]. apply andb_true_iff in H1. destruct H1 as [H1 _].
    rewrite H1, IH by assumption. reflexivity.
  Qed.

  Lemma aget_names_prop {V} (l : list (str * V)) k :
    forallb (fun e => name_ok (fst e)) l = true -> is_prop k = true -> aget String.eqb l k = None.
  Proof.
    induction l as [|[k' v] l IH]; simpl; intros H Hk; [reflexivity|].
    apply andb_true_iff in H. destruct H as [H1 H2].
    destruct (String.eqb k' k) eqn:E; [|apply IH; assumption].
    apply String.eqb_eq in E. subst k'. apply name_ok_classes in H1. destruct H1 as [H1 _]. congruence.
  Qed.

  Lemma forallb_impl {A} (p q : A -> bool) l : (forall x, p x = true -> q x = true) -> forallb p l = true -> forallb q l = true.
  Proof. intros H. rewrite !forallb_forall. auto. Qed.

  (* lookups of property keys only see the property entries *)
  Lemma jget_props fixed var acct pat k :
    forallb (fun kx => let '(k, x) := kx in name_ok k && valid_seg x) fixed = true ->
    is_prop k = true ->
    jget (jobj (entries_of fixed var ++ props_of acct (has_children fixed var) pat)) k
    = aget String.eqb (props_of acct (has_children fixed var) pat) k.
  Proof.
    intros Hf Hk. unfold jget. rewrite aget_jobj. unfold entries_of. rewrite !aget_app.
    rewrite (aget_names_prop _ k (fixed_entries_names fixed Hf) Hk).
    destruct var as [[[l p] x]|]; [|reflexivity].
    change (aget String.eqb [(String "$" l, marshal_seg p x)] k)
      with (if String.eqb (String "$" l) k then Some (marshal_seg p x) else None).
    destruct (String.eqb (String "$" l) k) eqn:E; [|reflexivity].
    apply String.eqb_eq in E. subst k. discriminate.
  Qed.

  Lemma pattern_of_marshal pat fixed var acct :
    forallb (fun kx => let '(k, x) := kx in name_ok k && valid_seg x) fixed = true ->
    match pat with Some p => re_valid p = true | None => True end ->
    pattern_of (marshal_seg pat (Seg fixed var acct)) = Some pat.
  Proof.
    intros Hf Hp. rewrite marshal_seg_unfold. unfold pattern_of.
    change (acct_entries acct (has_children fixed var) ++ pat_entries pat) with (props_of acct (has_children fixed var) pat).
    rewrite (jget_props fixed var acct pat PATTERN_KEY Hf eq_refl).
    unfold props_of, acct_entries, pat_entries.
    destruct acct as [[[m|]]|], (has_children fixed var), pat as [p|]; simpl; try rewrite Hp; reflexivity.
  Qed.

  Lemma valid_seg_unfold fixed var acct :
    valid_seg (Seg fixed var acct) = true ->
    ssorted fixed = true
    /\ forallb (fun kx => let '(k, x) := kx in name_ok k && valid_seg x) fixed = true
    /\ match var with
       | Some (l, p, x) => name_ok l = true /\ match p with Some p => re_valid p = true | None => True end /\ valid_seg x = true
       | None => True
       end
    /\ match acct with
       | Some a => match ca_meta a with Some m => ssorted m = true | None => True end
       | None => has_children fixed var = true
       end.
  Proof.
    simpl. intros H. repeat (apply andb_true_iff in H; destruct H as [H ?]).
    repeat split; try assumption.
    - destruct var as [[[l p] x]|]; [|exact I].
      match goal with H : (_ && _ && _) = true |- _ => repeat (apply andb_true_iff in H; destruct H as [H ?]) end.
      repeat split; try assumption. destruct p; [assumption | exact I].
    - destruct acct as [[[m|]]|]; simpl in *; auto.
  Qed.

  Local Arguments marshal_mdspec : simpl never.
  Local Arguments decode_mdspec : simpl never.

  Theorem unm_marshal_seg : forall s, valid_seg s = true ->
    forall pat, unm_seg (marshal_seg pat s) = Some s.
  Proof.
    induction s as [fixed var acct IHf IHv] using seg_ind2. intros Hv pat.
    apply valid_seg_unfold in Hv. destruct Hv as (Hsort & Hfx & Hvar & Hacct).
    rewrite marshal_seg_unfold.
    change (acct_entries acct (has_children fixed var) ++ pat_entries pat) with (props_of acct (has_children fixed var) pat).
    set (es := entries_of fixed var ++ props_of acct (has_children fixed var) pat).
    set (fx := map (fun kx => let '(k, x) := kx in (k, marshal_seg None x)) fixed).
    set (vr := match var with Some (l, p, x) => [(String "$" l, marshal_seg p x)] | None => [] end).
    assert (Hes : es = fx ++ vr ++ props_of acct (has_children fixed var) pat) by (unfold es, entries_of; rewrite <- app_assoc; reflexivity).
    assert (Hfxn : forallb (fun e : str * json => name_ok (fst e)) fx = true) by (apply fixed_entries_names, Hfx).
    assert (Hvrv : forallb (fun e : str * json => is_var (fst e) && negb (is_prop (fst e)) && valid_segment (fst e)) vr = true).
    { unfold vr. destruct var as [[[l p] x]|]; [|reflexivity]. destruct Hvar as (Hl & _ & _). simpl.
      unfold valid_segment. simpl. rewrite Hl. reflexivity. }
    pose proof (props_all_prop acct (has_children fixed var) pat) as Hpp.
    simpl.
    (* (a) every key is a property or a valid segment name *)
    assert (Hkeys : forallb (fun kv : str * json => is_prop (fst kv) || valid_segment (fst kv)) (jobj es) = true).
    { apply forallb_jobj. rewrite Hes, !forallb_app.
      assert (H1 : forallb (fun kv : str * json => is_prop (fst kv) || valid_segment (fst kv)) fx = true).
      { eapply forallb_impl; [|exact Hfxn]. intros e H. apply name_ok_classes in H. destruct H as (_ & _ & H). rewrite H. apply orb_true_r. }
      assert (H2 : forallb (fun kv : str * json => is_prop (fst kv) || valid_segment (fst kv)) vr = true).
      { eapply forallb_impl; [|exact Hvrv]. intros e H. apply andb_true_iff in H. destruct H as [_ H]. rewrite H. apply orb_true_r. }
      assert (H3 : forallb (fun kv : str * json => is_prop (fst kv) || valid_segment (fst kv)) (props_of acct (has_children fixed var) pat) = true).
      { eapply forallb_impl; [|exact Hpp]. intros e H. rewrite H. reflexivity. }
      apply andb_true_iff; split; [exact H1 | apply andb_true_iff; split; [exact H2 | exact H3]]. }
    rewrite Hkeys. simpl.
    (* (b) the fixed sub-segments *)
    set (hF := fun kv : str * json => match pattern_of (snd kv) with
                                      | Some None => match unm_seg (snd kv) with Some s => Some (fst kv, s) | None => None end
                                      | _ => None end).
    match goal with |- match omap ?g _ with Some _ => _ | None => _ end = _ =>
      assert (HFg : forall x, g x = (if is_fixed_key (fst x) then match hF x with Some y => Some (Some y) | None => None end else Some None));
      [ intros [k v]; unfold hF; simpl; destruct (is_fixed_key k); [|reflexivity];
        destruct (pattern_of v) as [[p|]|]; try reflexivity; destruct (unm_seg v); reflexivity
      | pose proof (omap_skip (fun kv : str * json => is_fixed_key (fst kv)) hF g (jobj es) HFg) as HF ] end.
    assert (HfiltF : filter (fun kv : str * json => is_fixed_key (fst kv)) (jobj es) = fx).
    { rewrite (filter_jobj is_fixed_key es). rewrite Hes, !filter_app.
      rewrite (filter_app_all _ fx), (filter_none _ vr), (filter_none _ (props_of _ _ _)).
      - rewrite !app_nil_r. apply jobj_sorted. unfold fx.
        rewrite ssorted_map_keys; [exact Hsort | intros [k x]; reflexivity].
      - eapply forallb_impl; [|exact Hpp]. intros e H. unfold is_fixed_key. rewrite H. reflexivity.
      - eapply forallb_impl; [|exact Hvrv]. intros e H. apply andb_true_iff in H. destruct H as [H _]. apply andb_true_iff in H. destruct H as [H _].
        unfold is_fixed_key. rewrite H. rewrite andb_false_r. reflexivity.
      - eapply forallb_impl; [|exact Hfxn]. intros e H. apply name_ok_classes in H. destruct H as (H1 & H2 & _).
        unfold is_fixed_key. rewrite H1, H2. reflexivity. }
    rewrite HfiltF in HF.
    assert (HomF : omap hF fx = Some fixed).
    { unfold fx. apply omap_map_id. rewrite Forall_forall in IHf. apply Forall_forall. intros [k x] Hin.
      pose proof (IHf (k, x) Hin) as IHx. simpl in IHx.
      assert (Hx : name_ok k = true /\ valid_seg x = true).
      { rewrite forallb_forall in Hfx. specialize (Hfx (k, x) Hin). simpl in Hfx. apply andb_true_iff in Hfx. exact Hfx. }
      destruct Hx as [_ Hx]. unfold hF. simpl.
      destruct x as [f' v' a']. pose proof (valid_seg_unfold _ _ _ Hx) as (_ & Hf' & _ & _).
      rewrite (pattern_of_marshal None f' v' a' Hf' I). rewrite (IHx Hx None). reflexivity. }
    rewrite HomF in HF.
    match type of HF with match ?o with _ => _ end = _ => destruct o as [fixedo|] eqn:EF; [|discriminate] end.
    injection HF as HF.
    (* (c) the variable sub-segment *)
    set (hV := fun kv : str * json => match pattern_of (snd kv) with
                                      | Some p => match unm_seg (snd kv) with Some s => Some (tail (fst kv), p, s) | None => None end
                                      | None => None end).
    match goal with |- match omap ?g _ with Some _ => _ | None => _ end = _ =>
      assert (HVg : forall x, g x = (if is_var (fst x) then match hV x with Some y => Some (Some y) | None => None end else Some None));
      [ intros [k v]; unfold hV; simpl; destruct (is_var k); [|reflexivity];
        destruct (pattern_of v) as [p|]; try reflexivity; destruct (unm_seg v); reflexivity
      | pose proof (omap_skip (fun kv : str * json => is_var (fst kv)) hV g (jobj es) HVg) as HV ] end.
    assert (HfiltV : filter (fun kv : str * json => is_var (fst kv)) (jobj es) = vr).
    { rewrite (filter_jobj is_var es). rewrite Hes, !filter_app.
      rewrite (filter_none _ fx), (filter_app_all _ vr), (filter_none _ (props_of _ _ _)).
      - rewrite app_nil_r. simpl. unfold vr. destruct var as [[[l p] x]|]; reflexivity.
      - eapply forallb_impl; [|exact Hpp]. intros [k v] H. simpl in *. destruct k as [|c k]; [discriminate|].
        unfold is_prop, is_var in *. simpl in *. apply Ascii.eqb_eq in H. subst c. reflexivity.
      - eapply forallb_impl; [|exact Hvrv]. intros e H. apply andb_true_iff in H. destruct H as [H _]. apply andb_true_iff in H. destruct H as [H _]. exact H.
      - eapply forallb_impl; [|exact Hfxn]. intros e H. apply name_ok_classes in H. destruct H as (_ & H2 & _). rewrite H2. reflexivity. }
    rewrite HfiltV in HV.
    assert (HomV : omap hV vr = Some (match var with Some v => [v] | None => [] end)).
    { unfold vr. destruct var as [[[l p] x]|]; [|reflexivity]. destruct Hvar as (Hl & Hp & Hx). unfold varP in IHv. simpl in IHv. simpl. unfold hV. simpl.
      destruct x as [f' v' a']. pose proof (valid_seg_unfold _ _ _ Hx) as (_ & Hf' & _ & _).
      rewrite (pattern_of_marshal p f' v' a' Hf' Hp). rewrite (IHv Hx p). reflexivity. }
    rewrite HomV in HV.
    match type of HV with match ?o with _ => _ end = _ => destruct o as [varso|] eqn:EV; [|discriminate] end.
    injection HV as HV.
    rewrite HF, HV.
    (* (d) properties *)
    unfold finish.
    assert (Hself : jget (jobj es) SELF_KEY = aget String.eqb (props_of acct (has_children fixed var) pat) SELF_KEY)
      by (apply jget_props; [exact Hfx | reflexivity]).
    assert (Hmeta : jget (jobj es) METADATA_KEY = aget String.eqb (props_of acct (has_children fixed var) pat) METADATA_KEY)
      by (apply jget_props; [exact Hfx | reflexivity]).
    assert (Hrules : jget (jobj es) RULES_KEY = aget String.eqb (props_of acct (has_children fixed var) pat) RULES_KEY)
      by (apply jget_props; [exact Hfx | reflexivity]).
    rewrite Hself, Hmeta, Hrules.
    assert (Hvar' : match (match var with Some v => [v] | None => [] end) with v :: _ => Some v | [] => None end = var)
      by (destruct var; reflexivity).
    destruct var as [v0|]; simpl (match _ with _ :: _ :: _ => _ | _ => _ end).
    - unfold props_of, acct_entries, pat_entries.
      assert (Hch : has_children fixed (Some v0) = true) by (destruct fixed; reflexivity).
      rewrite Hch.
      destruct acct as [[[m|]]|]; destruct pat as [p|]; simpl; try rewrite (decode_mdspec_marshal m Hacct); simpl;
        try rewrite Hch; simpl; reflexivity.
    - unfold props_of, acct_entries, pat_entries.
      destruct acct as [[[m|]]|]; destruct pat as [p|]; destruct (has_children fixed None) eqn:Hch; simpl;
        try rewrite (decode_mdspec_marshal m Hacct); simpl; try rewrite Hch; simpl; try reflexivity; try discriminate.
  Qed.

  Theorem unmarshal_marshal : forall c, valid_chart re_valid c = true -> unmarshal re_valid (marshal c) = Some c.
  Proof.
    intros c Hv. unfold valid_chart in Hv. apply andb_true_iff in Hv. destruct Hv as [Hs Hf].
    unfold marshal, unmarshal.
    rewrite jobj_sorted.
    2:{ rewrite ssorted_map_keys; [exact Hs | intros [k x]; reflexivity]. }
    apply omap_map_id. apply Forall_forall. intros [k x] Hin.
    rewrite forallb_forall in Hf. specialize (Hf (k, x) Hin). simpl in Hf. apply andb_true_iff in Hf. destruct Hf as [Hk Hx].
    simpl. apply name_ok_classes in Hk. destruct Hk as (H1 & H2 & H3). rewrite H1, H2, H3. simpl.
    destruct x as [f v a]. pose proof (valid_seg_unfold _ _ _ Hx) as (_ & Hf' & _ & _).
    assert (Hroot : root_value_ok (marshal_seg None (Seg f v a)) = true).
    { pose proof (pattern_of_marshal None f v a Hf' I) as Hp. rewrite marshal_seg_unfold in *. unfold pattern_of in Hp. unfold root_value_ok.
      destruct (jget _ PATTERN_KEY) as [[| | |p| |]|]; try discriminate; try reflexivity. destruct (re_valid p); discriminate. }
    rewrite Hroot. rewrite (unm_marshal_seg _ Hx None). reflexivity.
  Qed.
End RoundTrip.
