(* Mirror of the write path: internal/storage/ledger (UpdateVolumes, InsertTransaction, InsertMoves + the
   set/update_effective_volumes triggers, UpsertAccounts, metadata updates + history triggers, InsertLog,
   RevertTransaction) and internal/controller/ledger (forgeLog/runLog, createTransaction for a postings
   request, revertTransaction, metadata operations).  One ledger; one SQL transaction per operation, so a
   failing or dry-run operation keeps the tables and only advances the (non-transactional) sequences. *)
From Coq Require Import List ZArith String Bool DecimalString.
From LV Require Import Base.Util Ledger.Types.
Import ListNotations.
Open Scope Z_scope.

Definition key_eqb : key -> key -> bool := pair_eqb.
Definition string_of_Z (z : Z) : str := NilZero.string_of_int (Z.to_int z).

(* ---------- volumes ---------- *)
Definition vget (m : volmap) (k : key) : vol := opt_default (0, 0) (aget key_eqb m k).
Definition vplus (a b : vol) : vol := (fst a + fst b, snd a + snd b).
Definition vadd (m : volmap) (k : key) (d : vol) : volmap := aset key_eqb m k (vplus (vget m k) d).
Definition balance (m : volmap) (k : key) : Z := fst (vget m k) - snd (vget m k).

Definition skey (p : posting) : key := (p_src p, p_asset p).
Definition dkey (p : posting) : key := (p_dst p, p_asset p).

(* Transaction.VolumeUpdates: per (account, asset) aggregated output (as source) and input (as destination) *)
Definition apply_posting (m : volmap) (p : posting) : volmap :=
  vadd (vadd m (skey p) (0, p_amt p)) (dkey p) (p_amt p, 0).
Definition volume_updates (ps : list posting) : volmap := fold_left apply_posting ps [].

(* Store.UpdateVolumes: insert ... on conflict do update set input = input + excluded.input, ... returning *)
Definition update_volumes (vols upd : volmap) : volmap :=
  fold_left (fun m kd => vadd m (fst kd) (snd kd)) upd vols.
Definition returned_totals (vols' upd : volmap) : volmap :=
  map (fun kd => (fst kd, vget vols' (fst kd))) upd.

(* ---------- moves: the reverse unwinding loop of CommitTransaction ---------- *)
Record mvdata := { md_acc : addr; md_asset : asset; md_amt : Z; md_src : bool; md_pcv : vol }.

Fixpoint unwind (cur : volmap) (rev_ps : list posting) : list mvdata :=
  match rev_ps with
  | [] => []
  | p :: r =>
    let mdst := {| md_acc := p_dst p; md_asset := p_asset p; md_amt := p_amt p; md_src := false; md_pcv := vget cur (dkey p) |} in
    let cur1 := vadd cur (dkey p) (- p_amt p, 0) in
    let msrc := {| md_acc := p_src p; md_asset := p_asset p; md_amt := p_amt p; md_src := true; md_pcv := vget cur1 (skey p) |} in
    let cur2 := vadd cur1 (skey p) (0, - p_amt p) in
    mdst :: msrc :: unwind cur2 r
  end.
Definition moves_of (pcv : volmap) (ps : list posting) : list mvdata := rev (unwind pcv (rev ps)).

Definition delta_of (amt : Z) (src : bool) : vol := if src then (0, amt) else (amt, 0).

(* (effective_date, seq) lexicographic order *)
Definition lex_lt (e1 s1 e2 s2 : Z) : bool := (e1 <? e2) || ((e1 =? e2) && (s1 <? s2)).
Definition same_ka (m : move) (a : addr) (c : asset) : bool := String.eqb (m_acc m) a && String.eqb (m_asset m) c.

(* set_effective_volumes (BEFORE INSERT): the row with the greatest (effective_date, seq) below the new one *)
Definition latest_before (ms : list move) (a : addr) (c : asset) (e s : Z) : option move :=
  fold_left (fun best m =>
    if same_ka m a c && lex_lt (m_eff m) (m_seq m) e s then
      match best with
      | Some b => if lex_lt (m_eff b) (m_seq b) (m_eff m) (m_seq m) then Some m else best
      | None => Some m
      end
    else best) ms None.

Definition set_effective (ms : list move) (a : addr) (c : asset) (e s amt : Z) (src : bool) : vol :=
  match latest_before ms a c e s with
  | Some b => match m_pcev b with Some v => vplus v (delta_of amt src) | None => delta_of amt src end
  | None => delta_of amt src
  end.

(* update_effective_volumes (AFTER INSERT, fired at the end of the statement, once per inserted row) *)
Definition bump_later (ms : list move) (n : move) : list move :=
  map (fun m => if same_ka m (m_acc n) (m_asset n) && (m_eff n <? m_eff m)
                then {| m_seq := m_seq m; m_tx := m_tx m; m_acc := m_acc m; m_asset := m_asset m; m_amt := m_amt m;
                        m_src := m_src m; m_ins := m_ins m; m_eff := m_eff m; m_pcv := m_pcv m;
                        m_pcev := option_map (fun v => vplus v (delta_of (m_amt n) (m_src n))) (m_pcev m) |}
                else m) ms.

(* InsertMoves: multi-row insert; BEFORE triggers see the rows already inserted by the same statement *)
Fixpoint insert_rows (pcev_on : bool) (ms : list move) (seq txid ins eff : Z) (ds : list mvdata) : list move * list move * Z :=
  match ds with
  | [] => (ms, [], seq)
  | d :: r =>
    let pe := if pcev_on then Some (set_effective ms (md_acc d) (md_asset d) eff seq (md_amt d) (md_src d)) else None in
    let m := {| m_seq := seq; m_tx := txid; m_acc := md_acc d; m_asset := md_asset d; m_amt := md_amt d; m_src := md_src d;
                m_ins := ins; m_eff := eff; m_pcv := md_pcv d; m_pcev := pe |} in
    let '(ms', newr, seq') := insert_rows pcev_on (ms ++ [m]) (seq + 1) txid ins eff r in
    (ms', m :: newr, seq')
  end.

Definition insert_moves (pcev_on : bool) (ms : list move) (seq txid ins eff : Z) (ds : list mvdata) : list move * list move * Z :=
  let '(ms1, newr, seq') := insert_rows pcev_on ms seq txid ins eff ds in
  let ms2 := if pcev_on then fold_left bump_later newr ms1 else ms1 in
  (ms2, newr, seq').

(* Moves.ComputePostCommitEffectiveVolumes: the last returned move of every (account, asset) *)
Definition tx_pcev (newr : list move) : volmap :=
  fold_left (fun acc m => match m_pcev m with
                          | Some v => aset key_eqb acc (m_acc m, m_asset m) v
                          | None => acc end) newr [].

(* ---------- metadata ---------- *)
Definition mget (m : meta) (k : str) : option str := aget String.eqb m k.
Definition mmerge (a b : meta) : meta := fold_left (fun acc kv => aset String.eqb acc (fst kv) (snd kv)) b a.   (* a || b *)
Definition mcontains (a b : meta) : bool :=                                                                  (* a @> b *)
  forallb (fun kv => match mget a (fst kv) with Some v => String.eqb v (snd kv) | None => false end) b.
Definition mdel (a : meta) (k : str) : meta := adel String.eqb a k.

(* ---------- accounts: Store.UpsertAccounts ---------- *)
Definition find_account (l : list account) (a : addr) : option account := find (fun x => String.eqb (a_addr x) a) l.

Definition next_rev_a (h : list ahist) (a : addr) : Z :=
  fold_left (fun r x => if String.eqb (ah_addr x) a then Z.max r (ah_rev x + 1) else r) h 1.
Definition next_rev_t (h : list thist) (id : Z) : Z :=
  fold_left (fun r x => if th_tx x =? id then Z.max r (th_rev x + 1) else r) h 1.

(* one row of the data batch: first_usage / dates are NULL (None) for a metadata-only upsert.
   UPDATE ... WHERE a.address = d.address AND (d.first_usage < a.first_usage OR NOT a.metadata @> d.metadata): every matching row
   is rewritten from its own values; the AFTER UPDATE trigger then records the new metadata dated new.updated_at *)
Definition acc_needs_update (x : account) (md : meta) (first : option Z) : bool :=
  (match first with Some f => f <? a_first x | None => false end) || negb (mcontains (a_meta x) md).
Definition acc_updated (now : Z) (x : account) (md : meta) (first upd : option Z) : account :=
  {| a_addr := a_addr x; a_meta := mmerge (a_meta x) md;
     a_first := match first with Some f => Z.min f (a_first x) | None => a_first x end;
     a_ins := a_ins x; a_upd := opt_default now upd |}.

Definition upsert_account (hist_on : bool) (now : Z) (st : list account * list ahist)
           (a : addr) (md : meta) (first ins upd : option Z) : list account * list ahist :=
  let '(accs, hist) := st in
  match find_account accs a with
  | Some x =>
    if acc_needs_update x md first then
      let x' := acc_updated now x md first upd in
      (map (fun y => if String.eqb (a_addr y) a && acc_needs_update y md first then acc_updated now y md first upd else y) accs,
       if hist_on then hist ++ [{| ah_addr := a; ah_rev := next_rev_a hist a; ah_date := a_upd x'; ah_meta := a_meta x' |}] else hist)
    else (accs, hist)
  | None =>
    let x' := {| a_addr := a; a_meta := md; a_first := opt_default now first; a_ins := opt_default now ins; a_upd := opt_default now upd |} in
    (accs ++ [x'], if hist_on then hist ++ [{| ah_addr := a; ah_rev := 1; ah_date := a_ins x'; ah_meta := md |}] else hist)
  end.

(* sorted, duplicate-free list of involved accounts: order is irrelevant for the resulting tables up to
   row order, which no read exposes (every listing is ordered); we keep first-occurrence order *)
Fixpoint nodup_str (l : list str) : list str :=
  match l with [] => [] | x :: r => if existsb (String.eqb x) r then nodup_str r else x :: nodup_str r end.
Definition involved_accounts (ps : list posting) (amd : list (addr * meta)) : list addr :=
  nodup_str (flat_map (fun p => [p_src p; p_dst p]) ps ++ map fst amd).

Definition amd_get (amd : list (addr * meta)) (a : addr) : meta := opt_default [] (aget String.eqb amd a).

(* ---------- CommitTransaction ---------- *)
Definition ref_taken (txs : list tx) (r : str) : bool := existsb (fun t => String.eqb (t_ref t) r) txs.

Definition commit_transaction (f : features) (now : Z) (s : state) (ps : list posting) (md : meta) (ts : option Z) (ref : str)
  : state * option tx :=
  let upd := volume_updates ps in
  let vols' := update_volumes (s_vols s) upd in
  let pcv := returned_totals vols' upd in
  let id := s_next_tx s in
  let s_seq := {| s_vols := s_vols s; s_txs := s_txs s; s_moves := s_moves s; s_accounts := s_accounts s; s_ahist := s_ahist s;
                  s_thist := s_thist s; s_logs := s_logs s; s_next_tx := id + 1; s_next_log := s_next_log s; s_next_seq := s_next_seq s |} in
  if negb (String.eqb ref "") && ref_taken (s_txs s) ref then (s_seq, None)      (* 23505 transactions_reference: nextval already drawn *)
  else
    let eff := opt_default now ts in
    let '(moves', newr, seq') :=
      if f_moves f then insert_moves (f_pcev f) (s_moves s) (s_next_seq s) id now eff (moves_of pcv ps)
      else (s_moves s, [], s_next_seq s) in
    let t := {| t_id := id; t_postings := ps; t_meta := md; t_ts := eff; t_ref := ref; t_ins := now; t_upd := now; t_rev := None;
                t_pcv := pcv; t_pcev := if f_moves f && f_pcev f then Some (tx_pcev newr) else None |} in
    let thist' := if f_tx_hist f then s_thist s ++ [{| th_tx := id; th_rev := 1; th_date := eff; th_meta := md |}] else s_thist s in
    ({| s_vols := vols'; s_txs := s_txs s ++ [t]; s_moves := moves'; s_accounts := s_accounts s; s_ahist := s_ahist s;
        s_thist := thist'; s_logs := s_logs s; s_next_tx := id + 1; s_next_log := s_next_log s; s_next_seq := seq' |}, Some t).

Definition upsert_tx_accounts (f : features) (now : Z) (s : state) (t : tx) (amd : list (addr * meta)) : state :=
  let '(accs, hist) :=
    fold_left (fun st a => upsert_account (f_acc_hist f) now st a (amd_get amd a) (Some (t_ts t)) (Some (t_ins t)) (Some (t_ins t)))
              (involved_accounts (t_postings t) amd) (s_accounts s, s_ahist s) in
  {| s_vols := s_vols s; s_txs := s_txs s; s_moves := s_moves s; s_accounts := accs; s_ahist := hist; s_thist := s_thist s;
     s_logs := s_logs s; s_next_tx := s_next_tx s; s_next_log := s_next_log s; s_next_seq := s_next_seq s |}.

(* ---------- the machine on a postings request (TxToScriptData): feasibility walk ---------- *)
Definition world : str := "world"%string.
Fixpoint feasible (force : bool) (cur : volmap) (ps : list posting) : bool :=
  match ps with
  | [] => true
  | p :: r =>
    let ok := force || String.eqb (p_src p) world || (p_amt p <=? 0) || (p_amt p <=? balance cur (skey p)) in
    ok && feasible force (apply_posting cur p) r
  end.

(* ---------- revert ---------- *)
Definition find_tx (txs : list tx) (id : Z) : option tx := find (fun t => t_id t =? id) txs.
Definition reverse_postings (ps : list posting) : list posting :=
  rev (map (fun p => {| p_src := p_dst p; p_dst := p_src p; p_asset := p_asset p; p_amt := p_amt p |}) ps).
Definition reverts_key : str := "com.formance.spec/state/reverts"%string.

(* balances fetched for InvolvedDestinations(original): the (destination, asset) pairs *)
Definition queried (orig : list posting) (k : key) : bool := existsb (fun p => key_eqb (dkey p) k) orig.
Definition is_dest_account (orig : list posting) (a : addr) : bool := existsb (fun p => String.eqb (p_dst p) a) orig.

(* the Go loop credits balances[dst][asset] only when that pair was queried (it used to dereference a nil entry
   whenever dst alone was a key of the outer map: repaired by a fix: commit; RCPanic is kept but unreachable) *)
Inductive revert_check := RCOk | RCInsufficient | RCPanic.
Fixpoint revert_walk (orig : list posting) (cur : volmap) (rps : list posting) : option volmap :=
  match rps with
  | [] => Some cur
  | q :: r =>
    let cur1 := vadd cur (skey q) (0, p_amt q) in
    if queried orig (dkey q) then revert_walk orig (vadd cur1 (dkey q) (p_amt q, 0)) r
    else revert_walk orig cur1 r
  end.
Definition revert_balances_ok (orig : list posting) (vols : volmap) : revert_check :=
  match revert_walk orig vols (reverse_postings orig) with
  | None => RCPanic
  | Some fin =>
    if forallb (fun p => String.eqb (p_dst p) world || (0 <=? balance fin (dkey p))) orig then RCOk else RCInsufficient
  end.

(* ---------- transactions metadata ---------- *)
(* UPDATE transactions SET ... WHERE id = ? : every matching row is rewritten by [fn] *)
Definition map_tx (txs : list tx) (id : Z) (fn : tx -> tx) : list tx := map (fun t => if t_id t =? id then fn t else t) txs.
Definition tx_with (t : tx) (md : meta) (upd : Z) (rv : option Z) : tx :=
  {| t_id := t_id t; t_postings := t_postings t; t_meta := md; t_ts := t_ts t; t_ref := t_ref t; t_ins := t_ins t;
     t_upd := upd; t_rev := rv; t_pcv := t_pcv t; t_pcev := t_pcev t |}.
(* the AFTER UPDATE trigger records the new metadata as the next revision, dated new.updated_at *)
Definition touch_tx (f : features) (s : state) (t : tx) (fn : tx -> tx) : state :=
  let t' := fn t in
  {| s_vols := s_vols s; s_txs := map_tx (s_txs s) (t_id t) fn; s_moves := s_moves s; s_accounts := s_accounts s; s_ahist := s_ahist s;
     s_thist := if f_tx_hist f then s_thist s ++ [{| th_tx := t_id t'; th_rev := next_rev_t (s_thist s) (t_id t'); th_date := t_upd t'; th_meta := t_meta t' |}]
                else s_thist s;
     s_logs := s_logs s; s_next_tx := s_next_tx s; s_next_log := s_next_log s; s_next_seq := s_next_seq s |}.

Definition with_accounts (s : state) (st : list account * list ahist) : state :=
  {| s_vols := s_vols s; s_txs := s_txs s; s_moves := s_moves s; s_accounts := fst st; s_ahist := snd st; s_thist := s_thist s;
     s_logs := s_logs s; s_next_tx := s_next_tx s; s_next_log := s_next_log s; s_next_seq := s_next_seq s |}.

(* ---------- one operation inside its SQL transaction: new tables + payload, or an error ---------- *)
Inductive outcome := Done (s : state) (p : payload) | Failed (s : state) (e : err) | Panicked.

(* createTransaction once the machine has produced its postings: CommitTransaction, then the accounts upsert.
   [md] / [amd] are the FINAL metadata (for a postings request: the request's own) *)
Definition create_tx (f : features) (now : Z) (s : state) (ps : list posting) (ts : option Z) (ref : str) (md : meta)
           (amd : list (addr * meta)) (force : bool) : outcome :=
  match ps with
  | [] => Failed s ENoPostings
  | _ =>
    if negb (feasible force (s_vols s) ps) then Failed s EInsufficientFunds
    else match commit_transaction f now s ps md ts ref with
         | (s1, None) => Failed s1 EReferenceConflict
         | (s1, Some t) => Done (upsert_tx_accounts f now s1 t amd) (PNewTx t amd)
         end
  end.

(* createTransaction, metadata of a script that calls set_tx_meta / set_account_meta:
     finalMetadata := result.Metadata; for k, v := range Input.Metadata { if finalMetadata[k] != "" -> ErrMetadataOverride; finalMetadata[k] = v }
   (a key the script set to the EMPTY string may be overridden), and
     accountMetadata := result.AccountMetadata; for account, values := range Input.AccountMetadata { for k, v := range values { accountMetadata[account][k] = v } }
   (the request is merged key by key OVER the script's values, per account) *)
Definition script_tx_meta (smd md : meta) : option meta :=
  if existsb (fun kv => match mget smd (fst kv) with Some v => negb (String.eqb v "") | None => false end) md then None
  else Some (mmerge smd md).
Definition script_acc_meta (samd amd : list (addr * meta)) : list (addr * meta) :=
  fold_left (fun acc am => aset String.eqb acc (fst am)
                             (mmerge (match aget String.eqb acc (fst am) with Some m => m | None => [] end) (snd am))) amd samd.

Definition run_input (f : features) (now : Z) (s : state) (i : input) : outcome :=
  match i with
  | ICreate ps ts ref md amd force => create_tx f now s ps ts ref md amd force
  | IScript ps ts ref md amd force smd samd =>
    (* order in createTransaction: machine errors (insufficient funds), then ErrNoPostings, then the override check;
       an empty postings list is always feasible, so testing it first gives the same answer *)
    match ps with
    | [] => Failed s ENoPostings
    | _ =>
      if negb (feasible force (s_vols s) ps) then Failed s EInsufficientFunds
      else match script_tx_meta smd md with
           | None => Failed s EMetadataOverride
           | Some md' => create_tx f now s ps ts ref md' (script_acc_meta samd amd) force
           end
    end
  | IRevert id force at_eff rmeta =>
    match find_tx (s_txs s) id with
    | None => Failed s ENotFound
    | Some t =>
      match t_rev t with
      | Some _ => Failed s EAlreadyReverted
      | None =>
        let mark := fun x => tx_with x (t_meta x) now (Some now) in
        let t' := mark t in
        let s1 := touch_tx f s t mark in
        let chk := if force then RCOk else revert_balances_ok (t_postings t) (s_vols s1) in
        match chk with
        | RCPanic => Panicked
        | RCInsufficient => Failed s1 EInsufficientFunds
        | RCOk =>
          let rmd := mmerge rmeta [(reverts_key, string_of_Z id)] in   (* MarkReverts: caller metadata, then the mark *)
          match commit_transaction f now s1 (reverse_postings (t_postings t)) rmd (Some (if at_eff then t_ts t else now)) ""%string with
          | (s2, None) => Failed s2 EReferenceConflict
          | (s2, Some r) => Done s2 (PRevert t' r)
          end
        end
      end
    end
  | ISetMeta (TTx id) md =>
    match find_tx (s_txs s) id with
    | None => Failed s ENotFound
    | Some t => if mcontains (t_meta t) md then Done s (PSetMeta (TTx id) md)
                else Done (touch_tx f s t (fun x => tx_with x (mmerge (t_meta x) md) now (t_rev x))) (PSetMeta (TTx id) md)
    end
  | ISetMeta (TAcc a) md =>
    Done (with_accounts s (upsert_account (f_acc_hist f) now (s_accounts s, s_ahist s) a md (Some now) None None)) (PSetMeta (TAcc a) md)
  | IDelMeta (TTx id) k =>
    match find_tx (s_txs s) id with
    | None => Failed s ENotFound
    | Some t => match mget (t_meta t) k with
                | None => Failed s ENotFound
                | Some _ => Done (touch_tx f s t (fun x => tx_with x (mdel (t_meta x) k) now (t_rev x))) (PDelMeta (TTx id) k)
                end
    end
  | IDelMeta (TAcc a) k =>
    match find_account (s_accounts s) a with
    | None => Done s (PDelMeta (TAcc a) k)
    | Some x =>
      (* UPDATE accounts SET metadata = metadata - key, updated_at = transaction_date(): the AFTER UPDATE history trigger
         records the new metadata dated at the deletion (fix: commit in /repo; it used to keep the old updated_at) *)
      let del := fun y => {| a_addr := a_addr y; a_meta := mdel (a_meta y) k; a_first := a_first y; a_ins := a_ins y; a_upd := now |} in
      let x' := del x in
      Done (with_accounts s (map (fun y => if String.eqb (a_addr y) a then del y else y) (s_accounts s),
                             if f_acc_hist f then s_ahist s ++ [{| ah_addr := a; ah_rev := next_rev_a (s_ahist s) a; ah_date := a_upd x'; ah_meta := a_meta x' |}]
                             else s_ahist s))
           (PDelMeta (TAcc a) k)
    end
  end.

(* ---------- forgeLog: idempotency lookup, run inside a transaction, append the log, commit / roll back ---------- *)
Definition payload_tx_id (p : payload) : option Z :=
  match p with PNewTx t _ => Some (t_id t) | PRevert _ r => Some (t_id r) | _ => None end.

Definition only_sequences (s0 s1 : state) : state :=     (* rollback: tables of s0, sequences of s1 *)
  {| s_vols := s_vols s0; s_txs := s_txs s0; s_moves := s_moves s0; s_accounts := s_accounts s0; s_ahist := s_ahist s0;
     s_thist := s_thist s0; s_logs := s_logs s0; s_next_tx := s_next_tx s1; s_next_log := s_next_log s1; s_next_seq := s_next_seq s1 |}.

Definition append_log (s : state) (l : log) : state :=
  {| s_vols := s_vols s; s_txs := s_txs s; s_moves := s_moves s; s_accounts := s_accounts s; s_ahist := s_ahist s;
     s_thist := s_thist s; s_logs := s_logs s ++ [l]; s_next_tx := s_next_tx s; s_next_log := s_next_log s + 1; s_next_seq := s_next_seq s |}.

Definition posting_eq_dec (a b : posting) : {a = b} + {a <> b}.
Proof. decide equality; try apply Z.eq_dec; apply string_dec. Defined.
Definition meta_eq_dec (a b : meta) : {a = b} + {a <> b}.
Proof. apply list_eq_dec. intros x y. decide equality; apply string_dec. Defined.
Definition target_eq_dec (a b : target) : {a = b} + {a <> b}.
Proof. decide equality; [apply string_dec | apply Z.eq_dec]. Defined.
Definition ameta_eq_dec (a b : list (addr * meta)) : {a = b} + {a <> b}.
Proof. apply list_eq_dec. intros x y. decide equality; [apply meta_eq_dec | apply string_dec]. Defined.
Definition optZ_eq_dec (a b : option Z) : {a = b} + {a <> b}.
Proof. decide equality. apply Z.eq_dec. Defined.
Definition input_eq_dec (a b : input) : {a = b} + {a <> b}.
Proof.
  decide equality; auto using Bool.bool_dec, string_dec, Z.eq_dec, meta_eq_dec, target_eq_dec, ameta_eq_dec, optZ_eq_dec, (list_eq_dec posting_eq_dec).
Defined.

Definition find_ik (logs : list log) (ik : str) : option log :=
  if String.eqb ik "" then None else find (fun l => String.eqb (l_ik l) ik) logs.

Inductive step_result := SR (s : state) (r : result) | SPanic.

Definition step (f : features) (now : Z) (s : state) (o : op) : step_result :=
  match find_ik (s_logs s) (o_ik o) with
  | Some l =>
    if input_eq_dec (l_input l) (o_in o) then SR s (ROk (l_id l) (payload_tx_id (l_payload l)) true)
    else SR s (RErr EIdempotencyInput)
  | None =>
    match run_input f now s (o_in o) with
    | Panicked => SPanic
    | Failed s1 e => SR (only_sequences s s1) (RErr e)
    | Done s1 p =>
      let l := {| l_id := s_next_log s1; l_payload := p; l_date := now; l_ik := o_ik o; l_input := o_in o |} in
      let s2 := append_log s1 l in
      if o_dry o then SR (only_sequences s s2) (ROk (l_id l) (payload_tx_id p) false)
      else SR s2 (ROk (l_id l) (payload_tx_id p) false)
    end
  end.

(* a history: operations with the (logical) time at which each one runs *)
Definition run (f : features) (h : list (Z * op)) : state :=
  fold_left (fun s no => match step f (fst no) s (snd no) with SR s' _ => s' | SPanic => s end) h init_state.
