(* Proofs for C20: the emitted SQL condition, evaluated with SQL three-valued logic on the dataset row of an entity,
   is TRUE exactly when the entity satisfies the filter under its reference meaning. *)
From Coq Require Import List ZArith String Ascii Bool Lia Arith.
From LV Require Import Ledger.Filter.
Import ListNotations.

(* ------------------------------------------------------------------ generic list / option helpers *)
Lemma forallb_flat_map {A B} (p : B -> bool) (g : A -> list B) (l : list A) :
  forallb p (flat_map g l) = forallb (fun a => forallb p (g a)) l.
Proof. induction l as [|a l IH]; simpl; [reflexivity|]. now rewrite forallb_app, IH. Qed.

Lemma forallb_ext' {A} (f g : A -> bool) (l : list A) : (forall a, f a = g a) -> forallb f l = forallb g l.
Proof. intros H. induction l as [|a l IH]; simpl; [reflexivity|]. now rewrite H, IH. Qed.
Lemma existsb_ext' {A} (f g : A -> bool) (l : list A) : (forall a, f a = g a) -> existsb f l = existsb g l.
Proof. intros H. induction l as [|a l IH]; simpl; [reflexivity|]. now rewrite H, IH. Qed.

Lemma indexed_app {A} (l : list A) : forall i x, indexed i (l ++ [x]) = indexed i l ++ [((i + List.length l)%nat, x)].
Proof.
  induction l as [|a l IH]; intros i x; simpl.
  - now rewrite Nat.add_0_r.
  - rewrite IH. now replace (S i + List.length l)%nat with (i + S (List.length l))%nat by lia.
Qed.

Lemma skipn_cons_nth {A} : forall (i : nat) (l : list A) a rest,
  skipn i l = a :: rest -> nth_error l i = Some a /\ skipn (S i) l = rest.
Proof.
  induction i as [|i IH]; intros l a rest H.
  - simpl in H. subst l. now split.
  - destruct l as [|b l]; [discriminate|]. simpl in H. destruct (IH l a rest H) as [H1 H2]. split; [exact H1|exact H2].
Qed.
Lemma skipn_nil_nth {A} : forall (i : nat) (l : list A),
  skipn i l = [] -> nth_error l i = None /\ skipn (S i) l = [].
Proof.
  induction i as [|i IH]; intros l H.
  - simpl in H. subst l. now split.
  - destruct l as [|b l]; [now split|]. simpl in H. destruct (IH l H) as [H1 H2]. split; [exact H1|exact H2].
Qed.

(* ------------------------------------------------------------------ segments *)
Lemma segs_not_nil : forall s, segs s <> [].
Proof.
  induction s as [|c r IH]; simpl; [discriminate|].
  destruct (Ascii.eqb c colon); [discriminate|]. destruct (segs r); discriminate.
Qed.

Definition nth_is (adr : list string) (i : nat) (s : string) : bool :=
  match nth_error adr i with Some x => String.eqb x s | None => false end.

(* pointwise agreement, by position *)
Lemma segs_agree_indexed : forall ps i adr,
  forallb (fun ix => String.eqb (snd ix) EmptyString || nth_is adr (fst ix) (snd ix)) (indexed i ps)
  = segs_agree ps (skipn i adr).
Proof.
  induction ps as [|p ps IH]; intros i adr; simpl; [reflexivity|].
  rewrite IH. unfold nth_is.
  destruct (skipn i adr) as [|a rest] eqn:E.
  - destruct (skipn_nil_nth i adr E) as [H1 H2]. rewrite H1, H2. now rewrite orb_false_r.
  - destruct (skipn_cons_nth i adr a rest E) as [H1 H2]. rewrite H1, H2.
    now rewrite (String.eqb_sym a p).
Qed.

Definition no_dots (l : list string) : bool := forallb (fun s => negb (String.eqb s dots)) l.
(* "..." may only be the last segment of a pattern *)
Definition pat_ok (p : string) : bool := no_dots (removelast (segs p)).

Lemma wild_seg_no_dots : forall l f g,
  no_dots l = true ->
  (forall i s, String.eqb s dots = false -> f (i, s) = g (i, s)) ->
  forall i, forallb f (indexed i l) = forallb g (indexed i l).
Proof.
  induction l as [|a l IH]; intros f g Hnd Hfg i; simpl; [reflexivity|].
  simpl in Hnd. apply andb_true_iff in Hnd. destruct Hnd as [Ha Hl].
  rewrite (Hfg i a); [|now apply negb_true_iff]. f_equal. now apply IH.
Qed.

Lemma removelast_last_segs : forall p, segs p = removelast (segs p) ++ [last (segs p) EmptyString].
Proof. intros p. apply app_removelast_last. apply segs_not_nil. Qed.

Lemma no_dots_all : forall ps, no_dots (removelast ps) = true -> ps <> [] ->
  String.eqb (last ps EmptyString) dots = false -> no_dots ps = true.
Proof.
  intros ps H Hne Hl. rewrite (app_removelast_last EmptyString Hne). unfold no_dots in *.
  rewrite forallb_app, H. simpl. now rewrite Hl.
Qed.

(* ------------------------------------------------------------------ three-valued folds *)
Lemma eval_and_strict (ev : sqlcond -> option tri) (bv : sqlcond -> bool) : forall l b,
  (forall c, In c l -> ev c = Some (tri_of_bool (bv c))) ->
  eval_and ev l (tri_of_bool b) = Some (tri_of_bool (b && forallb bv l)).
Proof.
  induction l as [|c l IH]; intros b H; simpl.
  - now rewrite andb_true_r.
  - destruct b; simpl.
    + rewrite (H c (or_introl eq_refl)). specialize (IH (bv c) (fun c' Hc => H c' (or_intror Hc))).
      destruct (bv c); simpl in *; exact IH.
    + reflexivity.
Qed.
Lemma eval_or_strict (ev : sqlcond -> option tri) (bv : sqlcond -> bool) : forall l b,
  (forall c, In c l -> ev c = Some (tri_of_bool (bv c))) ->
  eval_or ev l (tri_of_bool b) = Some (tri_of_bool (b || existsb bv l)).
Proof.
  induction l as [|c l IH]; intros b H; simpl.
  - now rewrite orb_false_r.
  - destruct b; simpl.
    + reflexivity.
    + rewrite (H c (or_introl eq_refl)). specialize (IH (bv c) (fun c' Hc => H c' (or_intror Hc))).
      destruct (bv c); simpl in *; exact IH.
Qed.

(* "positive" folds: every argument evaluates, and is TRUE exactly when its boolean meaning holds (it may be NULL or
   FALSE otherwise) *)
Definition tri_agrees (t : tri) (b : bool) : Prop := t = TTrue <-> b = true.
Lemma eval_and_pos (ev : sqlcond -> option tri) (bv : sqlcond -> bool) : forall l acc b,
  tri_agrees acc b ->
  (forall c, In c l -> exists t, ev c = Some t /\ tri_agrees t (bv c)) ->
  exists t, eval_and ev l acc = Some t /\ tri_agrees t (b && forallb bv l).
Proof.
  induction l as [|c l IH]; intros acc b Hacc H; simpl.
  - exists acc. split; [reflexivity|]. now rewrite andb_true_r.
  - destruct (H c (or_introl eq_refl)) as [t [Ht Hag]]. rewrite Ht.
    assert (Hnext : tri_agrees (tand acc t) (b && bv c)).
    { unfold tri_agrees in *. rewrite andb_true_iff, <- Hacc, <- Hag. destruct acc, t; simpl; intuition congruence. }
    destruct (IH (tand acc t) (b && bv c) Hnext (fun c' Hc => H c' (or_intror Hc))) as [r [Hr Hra]].
    destruct acc.
    + exists r. split; [exact Hr|]. now rewrite andb_assoc.
    + exists TFalse. split; [reflexivity|]. unfold tri_agrees in *.
      assert (b = false) by (destruct b; [destruct Hacc as [_ X]; discriminate (X eq_refl)|reflexivity]). subst b. simpl.
      split; discriminate.
    + exists r. split; [exact Hr|]. now rewrite andb_assoc.
Qed.
Lemma eval_or_pos (ev : sqlcond -> option tri) (bv : sqlcond -> bool) : forall l acc b,
  tri_agrees acc b ->
  (forall c, In c l -> exists t, ev c = Some t /\ tri_agrees t (bv c)) ->
  exists t, eval_or ev l acc = Some t /\ tri_agrees t (b || existsb bv l).
Proof.
  induction l as [|c l IH]; intros acc b Hacc H; simpl.
  - exists acc. split; [reflexivity|]. now rewrite orb_false_r.
  - destruct (H c (or_introl eq_refl)) as [t [Ht Hag]]. rewrite Ht.
    assert (Hnext : tri_agrees (tor acc t) (b || bv c)).
    { unfold tri_agrees in *. rewrite orb_true_iff, <- Hacc, <- Hag. destruct acc, t; simpl; intuition congruence. }
    destruct (IH (tor acc t) (b || bv c) Hnext (fun c' Hc => H c' (or_intror Hc))) as [r [Hr Hra]].
    destruct acc.
    + exists TTrue. split; [reflexivity|]. unfold tri_agrees in *.
      assert (b = true) by (apply Hacc; reflexivity). subst b. simpl. split; reflexivity.
    + exists r. split; [exact Hr|]. now rewrite orb_assoc.
    + exists r. split; [exact Hr|]. now rewrite orb_assoc.
Qed.

Lemma tri_agrees_of_bool : forall b, tri_agrees (tri_of_bool b) b.
Proof. intros []; unfold tri_agrees; simpl; split; congruence. Qed.

(* ------------------------------------------------------------------ address conditions on accounts / volumes / aggregated *)
Definition addr_bv (adr : list string) (c : sqlcond) : bool :=
  match c with
  | CArrLen _ n => Nat.eqb (List.length adr) n
  | CArrAt _ i s => nth_is adr i s
  | _ => false
  end.

Lemma eval_match_and : forall l r,
  flt_eval (match l with [] => CTrue | s :: l0 => CAnd false (s :: l0) end) r = flt_eval (CAnd false l) r.
Proof. intros [|c l] r; reflexivity. Qed.

Lemma addr_at_forallb : forall adr ps i,
  forallb (addr_bv adr)
    (flat_map (fun ix : nat * string => if wild_seg (snd ix) then [] else [CArrAt AAddressArray (fst ix) (snd ix)]) (indexed i ps))
  = forallb (fun ix => wild_seg (snd ix) || nth_is adr (fst ix) (snd ix)) (indexed i ps).
Proof.
  intros adr ps i. rewrite forallb_flat_map. apply forallb_ext'. intros [k s]. simpl.
  destruct (wild_seg s); simpl; [reflexivity|now rewrite andb_true_r].
Qed.

Lemma wild_is_empty : forall l adr i, no_dots l = true ->
  forallb (fun ix : nat * string => wild_seg (snd ix) || nth_is adr (fst ix) (snd ix)) (indexed i l)
  = forallb (fun ix => String.eqb (snd ix) EmptyString || nth_is adr (fst ix) (snd ix)) (indexed i l).
Proof.
  intros l adr i H. apply wild_seg_no_dots; [exact H|].
  intros k s Hs. simpl. unfold wild_seg. now rewrite Hs, orb_false_r.
Qed.

Lemma addr_cond_eval : forall p a r,
  c_address r = Some a -> c_address_array r = Some (segs a) -> pat_ok p = true ->
  flt_eval (addr_cond p) r = Some (tri_of_bool (addr_match p a)).
Proof.
  intros p a r Ha Harr Hok. unfold addr_cond, addr_match. cbv zeta.
  destruct (is_partial p) eqn:Hpart.
  - rewrite eval_match_and. cbn [flt_eval].
    set (ps := segs p) in *. set (adr := segs a) in *.
    rewrite (eval_and_strict (fun c => flt_eval c r) (addr_bv adr) _ true).
    2:{ intros c Hc. apply in_app_or in Hc. destruct Hc as [Hc|Hc].
        - destruct (is_prefix_pat ps); [destruct Hc|]. destruct Hc as [<-|[]]. simpl. now rewrite Harr.
        - apply in_flat_map in Hc. destruct Hc as [[k s] [_ Hc]]. simpl in Hc.
          destruct (wild_seg s); [destruct Hc|]. destruct Hc as [<-|[]]. simpl. rewrite Harr. reflexivity. }
    f_equal. f_equal. simpl. rewrite forallb_app, addr_at_forallb.
    unfold pat_ok in Hok. fold ps in Hok.
    destruct (is_prefix_pat ps) eqn:Hpre.
    + simpl. unfold ps at 1. rewrite (removelast_last_segs p). fold ps.
      rewrite indexed_app, forallb_app. simpl.
      unfold is_prefix_pat in Hpre. unfold wild_seg at 2. rewrite Hpre, orb_true_r. simpl. rewrite andb_true_r.
      rewrite (wild_is_empty _ adr 0 Hok). now rewrite segs_agree_indexed.
    + simpl. rewrite andb_true_r. rewrite Nat.eqb_sym. f_equal.
      assert (Hnd : no_dots ps = true) by (apply no_dots_all; [exact Hok|apply segs_not_nil|exact Hpre]).
      rewrite (wild_is_empty _ adr 0 Hnd). now rewrite segs_agree_indexed.
  - simpl. rewrite Ha. simpl. now rewrite String.eqb_sym.
Qed.

(* ------------------------------------------------------------------ address conditions on transactions (jsonb containment) *)
Definition chk (adr : list string) (kv : nat * option string) : bool :=
  match nlookup (fst kv) (explode adr) with Some v => optstr_eqb v (snd kv) | None => false end.

Lemma nlookup_indexed : forall (l : list string) i k,
  (i <= k)%nat ->
  nlookup k (indexed i (map (@Some string) l) ++ [((i + List.length l)%nat, None)])
  = match nth_error l (k - i) with
    | Some x => Some (Some x)
    | None => if Nat.eqb k (i + List.length l) then Some None else None
    end.
Proof.
  induction l as [|a l IH]; intros i k Hik; simpl.
  - rewrite Nat.add_0_r. destruct (k - i)%nat; simpl; destruct (Nat.eqb k i); reflexivity.
  - destruct (Nat.eqb k i) eqn:E.
    + apply Nat.eqb_eq in E. subst k. now rewrite Nat.sub_diag.
    + apply Nat.eqb_neq in E. replace (i + S (List.length l))%nat with (S i + List.length l)%nat by lia.
      rewrite (IH (S i) k) by lia. destruct (k - i)%nat as [|m] eqn:Em; [lia|].
      replace (k - S i)%nat with m by lia. simpl. reflexivity.
Qed.

Lemma chk_some : forall adr i s, chk adr (i, Some s) = nth_is adr i s.
Proof.
  intros adr i s. unfold chk, explode, nth_is. simpl fst. simpl snd.
  pose proof (nlookup_indexed adr 0 i (Nat.le_0_l i)) as H. simpl in H. rewrite H. rewrite Nat.sub_0_r.
  destruct (nth_error adr i); simpl; [reflexivity|]. destruct (Nat.eqb i (List.length adr)); reflexivity.
Qed.
Lemma chk_none : forall adr n, chk adr (n, None) = Nat.eqb n (List.length adr).
Proof.
  intros adr n. unfold chk, explode. simpl fst. simpl snd.
  pose proof (nlookup_indexed adr 0 n (Nat.le_0_l n)) as H. simpl in H. rewrite H. rewrite Nat.sub_0_r.
  destruct (nth_error adr n) eqn:E; simpl.
  - assert (n < List.length adr)%nat by (apply nth_error_Some; congruence).
    symmetry. apply Nat.eqb_neq. lia.
  - destruct (Nat.eqb n (List.length adr)); reflexivity.
Qed.

Lemma dots_not_empty : String.eqb dots EmptyString = false.
Proof. reflexivity. Qed.

Lemma tx_pat_go_plain : forall adr n ps i, no_dots ps = true ->
  forallb (chk adr) (tx_pat_go n i ps)
  = forallb (fun ix => String.eqb (snd ix) EmptyString || nth_is adr (fst ix) (snd ix)) (indexed i ps).
Proof.
  intros adr n. induction ps as [|s r IH]; intros i Hnd; simpl; [reflexivity|].
  simpl in Hnd. apply andb_true_iff in Hnd. destruct Hnd as [Hs Hr]. apply negb_true_iff in Hs.
  destruct (String.eqb s EmptyString) eqn:Es; simpl.
  - now apply IH.
  - rewrite Hs, andb_false_r. simpl. rewrite chk_some. f_equal. now apply IH.
Qed.

Lemma tx_pat_go_prefix : forall adr n init i, no_dots init = true -> (i + S (List.length init) = n)%nat ->
  forallb (chk adr) (tx_pat_go n i (init ++ [dots]))
  = forallb (fun ix => String.eqb (snd ix) EmptyString || nth_is adr (fst ix) (snd ix)) (indexed i init).
Proof.
  intros adr n. induction init as [|s r IH]; intros i Hnd Hn; simpl.
  - simpl in Hn. subst n. replace (i + 1)%nat with (S i) by lia. now rewrite Nat.eqb_refl.
  - simpl in Hnd. apply andb_true_iff in Hnd. destruct Hnd as [Hs Hr]. apply negb_true_iff in Hs.
    destruct (String.eqb s EmptyString) eqn:Es; simpl.
    + apply IH; [exact Hr|simpl in Hn; lia].
    + rewrite Hs, andb_false_r. simpl. rewrite chk_some. f_equal. apply IH; [exact Hr|simpl in Hn; lia].
Qed.

Lemma tx_pat_contains : forall p a, pat_ok p = true -> is_partial p = true ->
  obj_contains (tx_pat p) (explode (segs a)) = addr_match p a.
Proof.
  intros p a Hok Hpart. unfold addr_match. rewrite Hpart. cbv zeta.
  unfold obj_contains. change (forallb _ (tx_pat p)) with (forallb (chk (segs a)) (tx_pat p)).
  unfold tx_pat. cbv zeta. rewrite forallb_app. unfold pat_ok in Hok.
  destruct (is_prefix_pat (segs p)) eqn:Hpre.
  - simpl. rewrite andb_true_r. unfold is_prefix_pat in Hpre. apply String.eqb_eq in Hpre.
    pose proof (removelast_last_segs p) as Hsp. rewrite Hpre in Hsp.
    rewrite Hsp at 2. rewrite (tx_pat_go_prefix (segs a) _ (removelast (segs p)) 0 Hok).
    + now rewrite segs_agree_indexed.
    + rewrite Hsp at 2. rewrite app_length. simpl. lia.
  - assert (Hnd : no_dots (segs p) = true) by (apply no_dots_all; [exact Hok|apply segs_not_nil|exact Hpre]).
    rewrite (tx_pat_go_plain (segs a) _ (segs p) 0 Hnd). rewrite segs_agree_indexed. simpl.
    rewrite chk_none, andb_true_r. apply andb_comm.
Qed.

(* ------------------------------------------------------------------ leaf by leaf *)
Lemma num_pair : forall col o v r x, ncol_get r col = Some x ->
  flt_eval (emit_num col o v) r = Some (tri_of_bool (sat_num o x v)).
Proof. intros col o v r x H. unfold emit_num, sat_num. destruct (cmp_of o), v; simpl; try rewrite H; reflexivity. Qed.
Lemma time_pair : forall col o v r x, ncol_get r col = Some x ->
  flt_eval (emit_time col o v) r = Some (tri_of_bool (sat_time o x v)).
Proof. intros col o v r x H. unfold emit_time, sat_time. destruct (cmp_of o), v; simpl; try rewrite H; reflexivity. Qed.
Lemma time_opt_pair : forall col o v r x, ncol_get r col = x ->
  exists t, flt_eval (emit_time col o v) r = Some t /\ tri_agrees t (sat_time_opt o x v).
Proof.
  intros col o v r [x|] H.
  - exists (tri_of_bool (sat_time o x v)). split; [now apply time_pair|apply tri_agrees_of_bool].
  - unfold emit_time, sat_time_opt. destruct (cmp_of o), v; simpl; try rewrite H; simpl;
      eexists; (split; [reflexivity|]); unfold tri_agrees; split; discriminate.
Qed.
Lemma str_pair : forall col o v r s, scol_get r col = Some s ->
  flt_eval (emit_str col o v) r = Some (tri_of_bool (sat_str o (Some s) v)).
Proof. intros col o v r s H. unfold emit_str, sat_str. destruct o, v; simpl; try rewrite H; reflexivity. Qed.
Lemma str_opt_pair : forall col o v r x, scol_get r col = x ->
  exists t, flt_eval (emit_str col o v) r = Some t /\ tri_agrees t (sat_str o x v).
Proof.
  intros col o v r [s|] H.
  - exists (tri_of_bool (sat_str o (Some s) v)). split; [now apply str_pair|apply tri_agrees_of_bool].
  - unfold emit_str, sat_str. destruct o, v; simpl; try rewrite H; simpl;
      eexists; (split; [reflexivity|]); unfold tri_agrees; split; discriminate.
Qed.
(* `$in` on metadata[k] is not a valid filter (C20_in_on_metadata_rejected) *)
Lemma meta_pair : forall o k v r m, c_metadata r = Some m -> o <> OIn ->
  flt_eval (emit_meta o k v) r = Some (tri_of_bool (sat_meta o k m v)).
Proof.
  intros o k v r m H Ho. unfold emit_meta, sat_meta.
  destruct o, v; try congruence; simpl; try rewrite H; reflexivity.
Qed.
Lemma meta_exists_pair : forall v r m, c_metadata r = Some m ->
  flt_eval (emit_meta_exists v) r = Some (tri_of_bool (sat_meta_exists m v)).
Proof.
  intros v r m H. unfold emit_meta_exists, sat_meta_exists. destruct v; simpl; try rewrite H; try reflexivity.
  destruct (slookup s m); reflexivity.
Qed.
Lemma addr_pair : forall o v r a,
  c_address r = Some a -> c_address_array r = Some (segs a) ->
  match v with VStr p => pat_ok p = true | _ => True end ->
  flt_eval (emit_addr o v) r = Some (tri_of_bool (sat_addr o [a] v)).
Proof.
  intros o v r a Ha Harr Hok. unfold emit_addr, sat_addr.
  destruct o, v; simpl; try reflexivity;
    try (rewrite (addr_cond_eval _ a r Ha Harr Hok); now rewrite orb_false_r).
  rewrite Ha. simpl. now rewrite orb_false_r.
Qed.

Definition tx_bv (srcs dsts : list string) (c : sqlcond) : bool :=
  match c with
  | CObjContains OSourcesArrays o => existsb (obj_contains o) (map (fun a => explode (segs a)) srcs)
  | CObjContains ODestinationsArrays o => existsb (obj_contains o) (map (fun a => explode (segs a)) dsts)
  | CArrContains ASources s => smem s srcs
  | CArrContains ADestinations s => smem s dsts
  | CArrAny ASources l => existsb (fun a => smem a l) srcs
  | CArrAny ADestinations l => existsb (fun a => smem a l) dsts
  | _ => false
  end.
Lemma existsb_map' {A B} (f : B -> bool) (g : A -> B) (l : list A) : existsb f (map g l) = existsb (fun a => f (g a)) l.
Proof. induction l as [|a l IH]; simpl; [reflexivity|]. now rewrite IH. Qed.

Lemma tx_addr_pair : forall o v t (src dst : bool),
  match v with VStr p => pat_ok p = true | _ => True end ->
  flt_eval (emit_tx_addr o v src dst) (row_of (ETx t))
  = Some (tri_of_bool (sat_addr o ((if src then ft_sources t else []) ++ (if dst then ft_destinations t else [])) v)).
Proof.
  intros o v t src dst Hok.
  assert (Hparts : forall parts,
            (forall c, In c parts -> flt_eval c (row_of (ETx t)) = Some (tri_of_bool (tx_bv (ft_sources t) (ft_destinations t) c))) ->
            flt_eval (COr false parts) (row_of (ETx t)) = Some (tri_of_bool (existsb (tx_bv (ft_sources t) (ft_destinations t)) parts))).
  { intros parts H. exact (eval_or_strict _ _ parts false H). }
  assert (Hexact : forall p l, is_partial p = false -> smem p l = existsb (addr_match p) l).
  { intros p l Hp. unfold smem. apply existsb_ext'. intros a. unfold addr_match. now rewrite Hp. }
  assert (Hpartial : forall p l, is_partial p = true -> pat_ok p = true ->
            existsb (obj_contains (tx_pat p)) (map (fun a => explode (segs a)) l) = existsb (addr_match p) l).
  { intros p l Hp Hpo. rewrite existsb_map'. apply existsb_ext'. intros a. now apply tx_pat_contains. }
  unfold emit_tx_addr, sat_addr.
  destruct o, v; try reflexivity; unfold tx_addr_cond, tx_addr_in; cbv zeta.
  all: try (destruct (is_partial s) eqn:Hp).
  all: rewrite Hparts;
    [ f_equal; f_equal; destruct src, dst; simpl;
      rewrite ?existsb_app, ?app_nil_r, ?orb_false_r, ?Hexact, ?Hpartial by assumption; simpl; rewrite ?orb_false_r; reflexivity
    | intros c Hc; apply in_app_or in Hc; destruct Hc as [Hc|Hc];
      [destruct src|destruct dst]; simpl in Hc; try contradiction; destruct Hc as [<-|[]]; reflexivity ].
Qed.

Lemma filter_lookup : forall (m : list (string * Z)) a, NoDup (map fst m) ->
  List.filter (fun ab => String.eqb (fst ab) a) m = match slookup a m with Some b => [(a, b)] | None => [] end.
Proof.
  induction m as [|[k b] m IH]; intros a Hnd; simpl; [reflexivity|].
  inversion Hnd as [|x l Hnin Hnd']; subst. rewrite (String.eqb_sym k a).
  destruct (String.eqb a k) eqn:E.
  - apply String.eqb_eq in E. subst k. rewrite (IH a Hnd').
    destruct (slookup a m) eqn:El; [|reflexivity]. exfalso. apply Hnin.
    clear -El. induction m as [|[k' b'] m IHm]; simpl in *; [discriminate|].
    destruct (String.eqb a k') eqn:E'; [left; symmetry; now apply String.eqb_eq|right; now apply IHm].
  - now apply IH.
Qed.

Lemma bal_sub_pair : forall asset o v (a : acc_ent), NoDup (map fst (fa_balances a)) ->
  exists t, flt_eval (emit_bal_sub (Some asset) o v) (row_of (EAcc a)) = Some t /\
            tri_agrees t (match slookup asset (fa_balances a) with Some b => sat_num o b v | None => false end).
Proof.
  intros asset o v a Hnd. unfold emit_bal_sub, sat_num.
  destruct (cmp_of o) as [c|], v; simpl; try (eexists; split; [reflexivity|]; destruct (slookup asset (fa_balances a)); unfold tri_agrees; split; discriminate).
  rewrite (filter_lookup _ asset Hnd). destruct (slookup asset (fa_balances a)); simpl.
  - eexists; split; [reflexivity|apply tri_agrees_of_bool].
  - eexists; split; [reflexivity|]. unfold tri_agrees; split; discriminate.
Qed.
Lemma existsb_false {A} (l : list A) : existsb (fun _ => false) l = false.
Proof. induction l; simpl; auto. Qed.
(* bare `balance` (repaired code: EXISTS over the per-asset rows): two-valued, any number of assets *)
Lemma bal_any_pair : forall o v (a : acc_ent),
  flt_eval (emit_bal_sub None o v) (row_of (EAcc a))
  = Some (tri_of_bool (existsb (fun ab => sat_num o (snd ab) v) (fa_balances a))).
Proof.
  intros o v a. unfold emit_bal_sub, sat_num.
  destruct (cmp_of o) as [c|], v; simpl; rewrite ?existsb_false; reflexivity.
Qed.

(* ------------------------------------------------------------------ hypotheses of the soundness theorem *)
Definition ent_kind (R : fresource) (e : fentity) : bool :=
  match R, e with
  | RTx, ETx _ | RAcc, EAcc _ | RVol, EVol _ | RAgg, EVol _ | RLog, ELog _ => true
  | _, _ => false
  end.
(* accounts_volumes has primary key (ledger, accounts_address, asset): one balance row per asset *)
Definition wf_entity (e : fentity) : Prop :=
  match e with EAcc a => NoDup (map fst (fa_balances a)) | _ => True end.
(* columns that can be NULL for an entity that exists: reference, reverted_at, the per-asset balance sub-select
   (bare `balance` is an EXISTS since fixes/filter-08: never NULL) *)
Definition nullable (R : fresource) (k : fkey) : bool :=
  match R, k with
  | RTx, KReference | RTx, KRevertedAt | RAcc, KBalance _ => true
  | _, _ => false
  end.
(* documented leaf forms: "..." only as last segment of an address pattern; full addresses in `$in`; no `$in` on
   metadata[k] (rejected by validation since the repair, see C20_in_on_metadata_rejected) *)
Definition leaf_okb (o : fop) (k : fkey) (v : fval) : bool :=
  (if is_addr_key k then match v with
                         | VStr p => pat_ok p
                         | VStrs l => forallb (fun p => negb (is_partial p)) l    (* `$in` takes full addresses only *)
                         | _ => true end else true)
  && match k, o with KMeta _, OIn => false | _, _ => true end.
Definition is_nil {A} (l : list A) : bool := match l with [] => true | _ => false end.
(* strict: no nullable leaf anywhere (two-valued);  pos: nullable leaves allowed, but not below a $not *)
Fixpoint strict_f (R : fresource) (f : filter) : bool :=
  match f with
  | FLeaf o k v => leaf_okb o k v && negb (nullable R k)
  | FAnd l => forallb (strict_f R) l
  | FOr l => negb (is_nil l) && forallb (strict_f R) l
  | FNot g => strict_f R g
  end.
Fixpoint pos_f (R : fresource) (f : filter) : bool :=
  match f with
  | FLeaf o k v => leaf_okb o k v
  | FAnd l => forallb (pos_f R) l
  | FOr l => negb (is_nil l) && forallb (pos_f R) l
  | FNot g => strict_f R g
  end.

Lemma leaf_strict : forall R o k v e, ent_kind R e = true -> leaf_okb o k v = true -> nullable R k = false ->
  flt_eval (emit_leaf R o k v) (row_of e) = Some (tri_of_bool (sat_leaf R o k v e)).
Proof.
  intros R o k v e Hk Hl Hn. unfold leaf_okb in Hl. apply andb_true_iff in Hl. destruct Hl as [Hpat Hin].
  assert (Hpat' : is_addr_key k = true -> match v with VStr p => pat_ok p = true | _ => True end).
  { intros Hak. rewrite Hak in Hpat. destruct v; try exact I. exact Hpat. }
  assert (Hmeta : forall key, k = KMeta key -> o <> OIn).
  { intros key -> Ho. subst o. discriminate Hin. }
  destruct R, e; try discriminate Hk; destruct k; try discriminate Hn; cbn [emit_leaf sat_leaf sat_leaf_tx sat_leaf_acc sat_leaf_vol sat_leaf_agg sat_leaf_log];
    try reflexivity;
    try (apply num_pair; reflexivity);
    try (apply time_pair; reflexivity);
    try (apply str_pair; reflexivity);
    try (apply meta_pair; [reflexivity|now apply (Hmeta k)]);
    try (apply meta_exists_pair; reflexivity);
    try (apply addr_pair; [reflexivity|reflexivity|now apply Hpat']);
    try (apply bal_any_pair).
  all: try (rewrite tx_addr_pair by (now apply Hpat'); simpl; rewrite ?app_nil_r; reflexivity).
  all: try (destruct v as [| | |[]|]; simpl; try reflexivity; destruct (ft_reverted_at t); reflexivity).
  all: try (destruct o; try reflexivity; apply str_pair; reflexivity).
  all: unfold emit_num, sat_num; destruct (cmp_of o) as [c|], v; simpl; rewrite ?andb_false_r; try reflexivity;
    destruct (zcmp c _ z); simpl; rewrite ?andb_false_r, ?andb_true_r; try reflexivity;
    destruct (String.eqb _ _); reflexivity.
Qed.

Lemma leaf_pos : forall R o k v e, ent_kind R e = true -> wf_entity e ->
  leaf_okb o k v = true ->
  exists t, flt_eval (emit_leaf R o k v) (row_of e) = Some t /\ tri_agrees t (sat_leaf R o k v e).
Proof.
  intros R o k v e Hk Hwf Hl.
  destruct (nullable R k) eqn:Hn.
  2:{ eexists. split; [apply leaf_strict; assumption|apply tri_agrees_of_bool]. }
  destruct R, e; try discriminate Hk; destruct k; try discriminate Hn; cbn [emit_leaf sat_leaf sat_leaf_tx sat_leaf_acc].
  - apply str_opt_pair. reflexivity.
  - apply time_opt_pair. reflexivity.
  - apply bal_sub_pair. exact Hwf.
Qed.

(* ------------------------------------------------------------------ induction over filters *)
Section FilterInd.
  Variable P : filter -> Prop.
  Hypothesis Hleaf : forall o k v, P (FLeaf o k v).
  Hypothesis Hand : forall l, Forall P l -> P (FAnd l).
  Hypothesis Hor : forall l, Forall P l -> P (FOr l).
  Hypothesis Hnot : forall g, P g -> P (FNot g).
  Fixpoint filter_ind' (f : filter) : P f :=
    match f with
    | FLeaf o k v => Hleaf o k v
    | FAnd l => Hand l ((fix go (l : list filter) : Forall P l :=
                           match l with [] => Forall_nil P | g :: r => Forall_cons g (filter_ind' g) (go r) end) l)
    | FOr l => Hor l ((fix go (l : list filter) : Forall P l :=
                         match l with [] => Forall_nil P | g :: r => Forall_cons g (filter_ind' g) (go r) end) l)
    | FNot g => Hnot g (filter_ind' g)
    end.
End FilterInd.

Lemma eval_and_strict_map {A} (ev : sqlcond -> option tri) (em : A -> sqlcond) (s : A -> bool) : forall l b,
  (forall g, In g l -> ev (em g) = Some (tri_of_bool (s g))) ->
  eval_and ev (map em l) (tri_of_bool b) = Some (tri_of_bool (b && forallb s l)).
Proof.
  induction l as [|g l IH]; intros b H; simpl.
  - now rewrite andb_true_r.
  - destruct b; simpl.
    + rewrite (H g (or_introl eq_refl)). specialize (IH (s g) (fun g' Hg => H g' (or_intror Hg))).
      destruct (s g); simpl in *; exact IH.
    + reflexivity.
Qed.
Lemma eval_or_strict_map {A} (ev : sqlcond -> option tri) (em : A -> sqlcond) (s : A -> bool) : forall l b,
  (forall g, In g l -> ev (em g) = Some (tri_of_bool (s g))) ->
  eval_or ev (map em l) (tri_of_bool b) = Some (tri_of_bool (b || existsb s l)).
Proof.
  induction l as [|g l IH]; intros b H; simpl.
  - now rewrite orb_false_r.
  - destruct b; simpl.
    + reflexivity.
    + rewrite (H g (or_introl eq_refl)). specialize (IH (s g) (fun g' Hg => H g' (or_intror Hg))).
      destruct (s g); simpl in *; exact IH.
Qed.
Lemma eval_and_pos_map {A} (ev : sqlcond -> option tri) (em : A -> sqlcond) (s : A -> bool) : forall l acc b,
  tri_agrees acc b ->
  (forall g, In g l -> exists t, ev (em g) = Some t /\ tri_agrees t (s g)) ->
  exists t, eval_and ev (map em l) acc = Some t /\ tri_agrees t (b && forallb s l).
Proof.
  induction l as [|g l IH]; intros acc b Hacc H; simpl.
  - exists acc. split; [reflexivity|]. now rewrite andb_true_r.
  - destruct (H g (or_introl eq_refl)) as [t [Ht Hag]]. rewrite Ht.
    assert (Hnext : tri_agrees (tand acc t) (b && s g)).
    { unfold tri_agrees in *. rewrite andb_true_iff, <- Hacc, <- Hag. destruct acc, t; simpl; intuition congruence. }
    destruct (IH (tand acc t) (b && s g) Hnext (fun g' Hg => H g' (or_intror Hg))) as [r [Hr Hra]].
    destruct acc.
    + exists r. split; [exact Hr|]. now rewrite andb_assoc.
    + exists TFalse. split; [reflexivity|]. unfold tri_agrees in *.
      assert (b = false) by (destruct b; [destruct Hacc as [_ X]; discriminate (X eq_refl)|reflexivity]). subst b. simpl.
      split; discriminate.
    + exists r. split; [exact Hr|]. now rewrite andb_assoc.
Qed.
Lemma eval_or_pos_map {A} (ev : sqlcond -> option tri) (em : A -> sqlcond) (s : A -> bool) : forall l acc b,
  tri_agrees acc b ->
  (forall g, In g l -> exists t, ev (em g) = Some t /\ tri_agrees t (s g)) ->
  exists t, eval_or ev (map em l) acc = Some t /\ tri_agrees t (b || existsb s l).
Proof.
  induction l as [|g l IH]; intros acc b Hacc H; simpl.
  - exists acc. split; [reflexivity|]. now rewrite orb_false_r.
  - destruct (H g (or_introl eq_refl)) as [t [Ht Hag]]. rewrite Ht.
    assert (Hnext : tri_agrees (tor acc t) (b || s g)).
    { unfold tri_agrees in *. rewrite orb_true_iff, <- Hacc, <- Hag. destruct acc, t; simpl; intuition congruence. }
    destruct (IH (tor acc t) (b || s g) Hnext (fun g' Hg => H g' (or_intror Hg))) as [r [Hr Hra]].
    destruct acc.
    + exists TTrue. split; [reflexivity|]. unfold tri_agrees in *.
      assert (b = true) by (apply Hacc; reflexivity). subst b. simpl. split; reflexivity.
    + exists r. split; [exact Hr|]. now rewrite orb_assoc.
    + exists r. split; [exact Hr|]. now rewrite orb_assoc.
Qed.

(* two-valued part: without nullable leaves the condition is TRUE / FALSE exactly as the reference says *)
Theorem emit_strict : forall R e, ent_kind R e = true -> forall f, strict_f R f = true ->
  flt_eval (flt_emit R f) (row_of e) = Some (tri_of_bool (flt_sat R f e)).
Proof.
  intros R e Hk. induction f as [o k v|l IH|l IH|g IH] using filter_ind'; intros Hs.
  - simpl in Hs. apply andb_true_iff in Hs. destruct Hs as [Hl Hn]. apply negb_true_iff in Hn.
    now apply leaf_strict.
  - simpl in Hs. rewrite Forall_forall in IH. rewrite forallb_forall in Hs.
    destruct l as [|g0 l0]; [reflexivity|].
    exact (eval_and_strict_map (fun c => flt_eval c (row_of e)) (flt_emit R) (fun g => flt_sat R g e) (g0 :: l0) true
             (fun g Hg => IH g Hg (Hs g Hg))).
  - simpl in Hs. apply andb_true_iff in Hs. destruct Hs as [Hne Hs]. rewrite Forall_forall in IH. rewrite forallb_forall in Hs.
    destruct l as [|g0 l0]; [discriminate Hne|].
    exact (eval_or_strict_map (fun c => flt_eval c (row_of e)) (flt_emit R) (fun g => flt_sat R g e) (g0 :: l0) false
             (fun g Hg => IH g Hg (Hs g Hg))).
  - simpl in Hs. simpl. rewrite (IH Hs). now destruct (flt_sat R g e).
Qed.

(* with nullable leaves in positive position: TRUE exactly when the reference says so (otherwise FALSE or NULL) *)
Theorem emit_pos : forall R e, ent_kind R e = true -> wf_entity e -> forall f, pos_f R f = true ->
  exists t, flt_eval (flt_emit R f) (row_of e) = Some t /\ tri_agrees t (flt_sat R f e).
Proof.
  intros R e Hk Hwf. induction f as [o k v|l IH|l IH|g IH] using filter_ind'; intros Hs.
  - simpl in Hs. now apply leaf_pos.
  - simpl in Hs. rewrite Forall_forall in IH. rewrite forallb_forall in Hs.
    destruct l as [|g0 l0]; [exists TTrue; split; [reflexivity|apply (tri_agrees_of_bool true)]|].
    exact (eval_and_pos_map (fun c => flt_eval c (row_of e)) (flt_emit R) (fun g => flt_sat R g e) (g0 :: l0) TTrue true
             (tri_agrees_of_bool true) (fun g Hg => IH g Hg (Hs g Hg))).
  - simpl in Hs. apply andb_true_iff in Hs. destruct Hs as [Hne Hs]. rewrite Forall_forall in IH. rewrite forallb_forall in Hs.
    destruct l as [|g0 l0]; [discriminate Hne|].
    exact (eval_or_pos_map (fun c => flt_eval c (row_of e)) (flt_emit R) (fun g => flt_sat R g e) (g0 :: l0) TFalse false
             (tri_agrees_of_bool false) (fun g Hg => IH g Hg (Hs g Hg))).
  - simpl in Hs. simpl. rewrite (emit_strict R e Hk g Hs). eexists. split; [reflexivity|].
    destruct (flt_sat R g e); unfold tri_agrees; simpl; split; congruence.
Qed.

(* ------------------------------------------------------------------ list / count *)
Lemma select_rows_sound : forall c (s : fentity -> bool) es,
  (forall e, In e es -> exists t, flt_eval c (row_of e) = Some t /\ tri_agrees t (s e)) ->
  select_rows c es = Some (List.filter s es).
Proof.
  intros c s. induction es as [|e es IH]; intros H; simpl; [reflexivity|].
  destruct (H e (or_introl eq_refl)) as [t [Ht Hag]]. rewrite Ht, (IH (fun e' He => H e' (or_intror He))).
  unfold tri_agrees in Hag. destruct (s e) eqn:Es.
  - assert (t = TTrue) by (now apply Hag). subst t. reflexivity.
  - destruct t; try reflexivity. destruct Hag as [X _]. discriminate (X eq_refl).
Qed.

Theorem list_sound : forall R pit f es,
  flt_validate R f = FvOk -> flt_prefilter R pit f = None ->
  (forall e, In e es -> ent_kind R e = true /\ wf_entity e /\ pos_f R f = true) ->
  flt_list R pit f es = FrOk (flt_ref R f es).
Proof.
  intros R pit f es Hv Hp H. unfold flt_list, flt_dataset, flt_ref. rewrite Hv, Hp.
  rewrite (select_rows_sound (flt_emit R f) (flt_sat R f) es); [reflexivity|].
  intros e He. destruct (H e He) as [Hk [Hwf Hpos]]. now apply emit_pos.
Qed.

Theorem count_is_length : forall R pit f es sel,
  flt_list R pit f es = FrOk sel -> flt_count R pit f es = Some (List.length sel).
Proof. intros R pit f es sel H. unfold flt_count. now rewrite H. Qed.

(* ------------------------------------------------------------------ lateral push-down (repaired code: `$in` arrays are collected)
   canPush f = true  ->  the dataset pre-filtered by the OR of all address filters lists exactly what the full dataset lists *)
Lemma collect_addrs_and : forall l, collect_addrs (FAnd l) = flat_map collect_addrs l.
Proof.
  unfold collect_addrs. simpl. induction l as [|g l IH]; simpl; [reflexivity|]. now rewrite flat_map_app, IH.
Qed.
Lemma collect_addrs_or : forall l, collect_addrs (FOr l) = flat_map collect_addrs l.
Proof.
  unfold collect_addrs. simpl. induction l as [|g l IH]; simpl; [reflexivity|]. now rewrite flat_map_app, IH.
Qed.
Lemma existsb_flat_map_in {A B} (p : B -> bool) (g : A -> list B) (l : list A) (a : A) :
  In a l -> existsb p (g a) = true -> existsb p (flat_map g l) = true.
Proof.
  intros Hin Hp. induction l as [|x l IH]; simpl; [destruct Hin|]. rewrite existsb_app.
  destruct Hin as [->|Hin]; [now rewrite Hp|]. rewrite (IH Hin). apply orb_true_r.
Qed.

Lemma safe_inside_not_no_addr : forall f, safe_lateral true f = true -> contains_addr f = false.
Proof.
  induction f as [o k v|l IH|l IH|g IH] using filter_ind'; simpl; intros H.
  - now apply negb_true_iff in H.
  - rewrite Forall_forall in IH. rewrite forallb_forall in H.
    destruct (existsb contains_addr l) eqn:E; [|reflexivity].
    apply existsb_exists in E. destruct E as [g [Hg Hc]]. rewrite (IH g Hg (H g Hg)) in Hc. discriminate.
  - rewrite forallb_forall in H. destruct (existsb contains_addr l) eqn:E; [|reflexivity].
    apply existsb_exists in E. destruct E as [g [Hg Hc]]. specialize (H g Hg). rewrite Hc in H. discriminate.
  - now apply IH.
Qed.

Definition ent_address (e : fentity) : option string :=
  match e with EVol v => Some (fv_account v) | EAcc a => Some (fa_address a) | _ => None end.

Lemma sat_addr_covered : forall o k v a,
  leaf_okb o k v = true -> json_addr_key k = true -> sat_addr o [a] v = true ->
  existsb (fun p => addr_match p a)
    (match v with VStr s => [s] | VStrs l => l | _ => [] end) = true.
Proof.
  intros o k v a Hok Hk Hs. unfold leaf_okb in Hok. apply andb_true_iff in Hok. destruct Hok as [Hok _].
  assert (Hak : is_addr_key k = true) by (destruct k; try discriminate Hk; reflexivity). rewrite Hak in Hok.
  unfold sat_addr in Hs. destruct o, v; try discriminate Hs; simpl in *.
  - now rewrite orb_false_r in *.
  - now rewrite orb_false_r in *.
  - rewrite orb_false_r in Hs. unfold smem in Hs. apply existsb_exists in Hs. destruct Hs as [p [Hp Heq]].
    apply existsb_exists. exists p. split; [exact Hp|]. rewrite forallb_forall in Hok. specialize (Hok p Hp).
    apply negb_true_iff in Hok. unfold addr_match. rewrite Hok. now rewrite String.eqb_sym.
Qed.

Lemma pushdown_covers : forall R x f, (R = RVol \/ R = RAgg) ->
  pos_f R f = true -> safe_lateral false f = true -> contains_addr f = true ->
  flt_sat R f (EVol x) = true ->
  existsb (fun p => addr_match p (fv_account x)) (collect_addrs f) = true.
Proof.
  intros R x f HR. induction f as [o k v|l IH|l IH|g IH] using filter_ind'; intros Hpos Hsafe Hc Hsat.
  - simpl in Hpos. rename Hpos into Hok. simpl in Hc.
    unfold collect_addrs. simpl. rewrite app_nil_r.
    assert (Hs : sat_addr o [fv_account x] v = true).
    { destruct HR as [-> | ->]; simpl in Hsat; destruct k; try discriminate Hc; simpl in Hsat; first [exact Hsat|discriminate Hsat]. }
    pose proof (sat_addr_covered o k v (fv_account x) Hok Hc Hs) as Hcov.
    destruct v; rewrite ?Hc; try exact Hcov; simpl in Hcov; discriminate Hcov.
  - rewrite collect_addrs_and. simpl in *. rewrite Forall_forall in IH. rewrite forallb_forall in Hpos, Hsafe, Hsat.
    apply existsb_exists in Hc. destruct Hc as [g [Hg Hcg]].
    exact (existsb_flat_map_in _ _ l g Hg (IH g Hg (Hpos g Hg) (Hsafe g Hg) Hcg (Hsat g Hg))).
  - rewrite collect_addrs_or. simpl in Hpos, Hsafe, Hc, Hsat. rewrite Forall_forall in IH.
    apply andb_true_iff in Hpos. destruct Hpos as [_ Hpos]. apply andb_true_iff in Hsafe. destruct Hsafe as [Hmix Hsafe].
    rewrite forallb_forall in Hpos, Hsafe. apply existsb_exists in Hsat. destruct Hsat as [g [Hg Hsg]].
    assert (Hcg : contains_addr g = true).
    { destruct l as [|g0 [|g1 l']].
      - destruct Hg.
      - destruct Hg as [<-|[]]. simpl in Hc. now rewrite orb_false_r in Hc.
      - change (Nat.ltb 1 (List.length (g0 :: g1 :: l'))) with true in Hmix. cbv iota in Hmix.
        apply negb_true_iff in Hmix. rewrite Hc in Hmix. rewrite andb_true_l in Hmix.
        destruct (contains_addr g) eqn:E; [reflexivity|]. exfalso.
        assert (X : existsb (fun g2 => negb (contains_addr g2)) (g0 :: g1 :: l') = true)
          by (apply existsb_exists; exists g; split; [exact Hg|now rewrite E]).
        rewrite X in Hmix. discriminate. }
    exact (existsb_flat_map_in _ _ l g Hg (IH g Hg (Hpos g Hg) (Hsafe g Hg) Hcg Hsg)).
  - simpl in Hsafe, Hc. rewrite (safe_inside_not_no_addr g Hsafe) in Hc. discriminate.
Qed.

Lemma no_addr_no_collect : forall f, contains_addr f = false -> collect_addrs f = [].
Proof.
  induction f as [o k v|l IH|l IH|g IH] using filter_ind'; intros H.
  - unfold collect_addrs. simpl in *. rewrite H. destruct v; reflexivity.
  - rewrite collect_addrs_and. simpl in H. rewrite Forall_forall in IH.
    induction l as [|g l IHl]; simpl; [reflexivity|]. simpl in H. apply orb_false_iff in H. destruct H as [H1 H2].
    rewrite (IH g (or_introl eq_refl) H1). simpl. apply IHl; [intros y Hy; apply IH; now right|exact H2].
  - rewrite collect_addrs_or. simpl in H. rewrite Forall_forall in IH.
    induction l as [|g l IHl]; simpl; [reflexivity|]. simpl in H. apply orb_false_iff in H. destruct H as [H1 H2].
    rewrite (IH g (or_introl eq_refl) H1). simpl. apply IHl; [intros y Hy; apply IH; now right|exact H2].
  - unfold collect_addrs in *. simpl in *. now apply IH.
Qed.

(* every collected address is either a well-formed pattern or a full address *)
Definition addr_ok (p : string) : bool := pat_ok p || negb (is_partial p).
Lemma addr_cond_eval' : forall p a r,
  c_address r = Some a -> c_address_array r = Some (segs a) -> addr_ok p = true ->
  flt_eval (addr_cond p) r = Some (tri_of_bool (addr_match p a)).
Proof.
  intros p a r Ha Harr Hok. destruct (pat_ok p) eqn:Hp; [now apply addr_cond_eval|].
  unfold addr_ok in Hok. rewrite Hp in Hok. simpl in Hok. apply negb_true_iff in Hok.
  unfold addr_cond, addr_match. rewrite Hok. simpl. rewrite Ha. simpl. now rewrite String.eqb_sym.
Qed.
Lemma leaf_collect_ok : forall o k v, leaf_okb o k v = true ->
  forall p, In p (collect_addrs (FLeaf o k v)) -> addr_ok p = true.
Proof.
  intros o k v Hok p Hp. unfold leaf_okb in Hok. apply andb_true_iff in Hok. destruct Hok as [Hok _].
  unfold collect_addrs in Hp. simpl in Hp. rewrite app_nil_r in Hp.
  destruct (json_addr_key k) eqn:Hk.
  2:{ destruct v; destruct Hp. }
  assert (Hak : is_addr_key k = true) by (destruct k; try discriminate Hk; reflexivity). rewrite Hak in Hok.
  unfold addr_ok. destruct v; try destruct Hp.
  - subst p. now rewrite Hok.
  - destruct H.
  - rewrite forallb_forall in Hok. rewrite (Hok p Hp). apply orb_true_r.
Qed.
Lemma strict_collect_ok : forall R f, strict_f R f = true -> forall p, In p (collect_addrs f) -> addr_ok p = true.
Proof.
  intros R. induction f as [o k v|l IH|l IH|g IH] using filter_ind'; intros Hs p Hp.
  - simpl in Hs. apply andb_true_iff in Hs. destruct Hs as [Hok _]. exact (leaf_collect_ok o k v Hok p Hp).
  - rewrite collect_addrs_and in Hp. apply in_flat_map in Hp. destruct Hp as [g [Hg Hp]].
    simpl in Hs. rewrite forallb_forall in Hs. rewrite Forall_forall in IH. exact (IH g Hg (Hs g Hg) p Hp).
  - rewrite collect_addrs_or in Hp. apply in_flat_map in Hp. destruct Hp as [g [Hg Hp]].
    simpl in Hs. apply andb_true_iff in Hs. destruct Hs as [_ Hs]. rewrite forallb_forall in Hs. rewrite Forall_forall in IH.
    exact (IH g Hg (Hs g Hg) p Hp).
  - simpl in Hs. apply IH; [exact Hs|exact Hp].
Qed.
Lemma pos_collect_ok : forall R f, pos_f R f = true -> forall p, In p (collect_addrs f) -> addr_ok p = true.
Proof.
  intros R. induction f as [o k v|l IH|l IH|g IH] using filter_ind'; intros Hs p Hp.
  - simpl in Hs. exact (leaf_collect_ok o k v Hs p Hp).
  - rewrite collect_addrs_and in Hp. apply in_flat_map in Hp. destruct Hp as [g [Hg Hp]].
    simpl in Hs. rewrite forallb_forall in Hs. rewrite Forall_forall in IH. exact (IH g Hg (Hs g Hg) p Hp).
  - rewrite collect_addrs_or in Hp. apply in_flat_map in Hp. destruct Hp as [g [Hg Hp]].
    simpl in Hs. apply andb_true_iff in Hs. destruct Hs as [_ Hs]. rewrite forallb_forall in Hs. rewrite Forall_forall in IH.
    exact (IH g Hg (Hs g Hg) p Hp).
  - simpl in Hs. exact (strict_collect_ok R g Hs p Hp).
Qed.

Lemma prefilter_eval : forall addrs x,
  (forall p, In p addrs -> addr_ok p = true) ->
  flt_eval (COr false (map addr_cond addrs)) (row_of (EVol x))
  = Some (tri_of_bool (existsb (fun p => addr_match p (fv_account x)) addrs)).
Proof.
  intros addrs x H.
  exact (eval_or_strict_map (fun c => flt_eval c (row_of (EVol x))) addr_cond (fun p => addr_match p (fv_account x)) addrs false
           (fun p Hp => addr_cond_eval' p (fv_account x) (row_of (EVol x)) eq_refl eq_refl (H p Hp))).
Qed.

Lemma need_segments_collect : forall f, need_segments f = true -> collect_addrs f <> [].
Proof.
  intros f. unfold need_segments, collect_addrs. induction (flt_leaves f) as [|[[o k] v] ls IH]; simpl; [discriminate|].
  intros H. apply orb_true_iff in H. destruct H as [H|H].
  - destruct v; try discriminate H. apply andb_true_iff in H. destruct H as [Hk _]. rewrite Hk. simpl. discriminate.
  - intros E. apply app_eq_nil in E. destruct E as [_ E]. now apply IH.
Qed.

Lemma prefilter_shape : forall R pit f addrs, flt_prefilter R pit f = Some addrs ->
  (R = RVol \/ R = RAgg) /\ addrs = collect_addrs f /\ safe_lateral false f = true /\ addrs <> [].
Proof.
  intros R pit f addrs H. unfold flt_prefilter in H.
  destruct R; try discriminate H.
  - destruct (need_segments f) eqn:E1; simpl in H; [|discriminate].
    destruct (safe_lateral false f) eqn:E2; inversion H; subst. repeat split; auto. now apply need_segments_collect.
  - destruct pit.
    + destruct (need_segments f) eqn:E1; simpl in H; [|discriminate].
      destruct (safe_lateral false f) eqn:E2; inversion H; subst. repeat split; auto. now apply need_segments_collect.
    + destruct (safe_lateral false f) eqn:E2; [|rewrite andb_false_r in H; simpl in H; discriminate].
      destruct (collect_addrs f) as [|a0 l0] eqn:E3; [rewrite andb_false_r in H; discriminate|].
      destruct ((uses_key is_meta_key f || need_segments f) && uses_key (fun k => match k with KAddress => true | _ => false end) f);
        simpl in H; inversion H; subst. repeat split; auto. discriminate.
Qed.

Lemma filter_filter_implied {A} (s pre : A -> bool) (l : list A) :
  (forall a, In a l -> s a = true -> pre a = true) -> List.filter s (List.filter pre l) = List.filter s l.
Proof.
  intros H. induction l as [|a l IH]; simpl; [reflexivity|].
  assert (IH' := IH (fun a' Ha => H a' (or_intror Ha))).
  destruct (pre a) eqn:Ep; simpl.
  - now rewrite IH'.
  - destruct (s a) eqn:Es; [rewrite (H a (or_introl eq_refl) Es) in Ep; discriminate|exact IH'].
Qed.

(* list = exactly the matching entities, push-down or not *)
Theorem list_sound_pushdown : forall R pit f es,
  flt_validate R f = FvOk ->
  (forall e, In e es -> ent_kind R e = true /\ wf_entity e /\ pos_f R f = true) ->
  flt_list R pit f es = FrOk (flt_ref R f es).
Proof.
  intros R pit f es Hv H. destruct (flt_prefilter R pit f) as [addrs|] eqn:Hp; [|now apply list_sound].
  destruct (prefilter_shape R pit f addrs Hp) as [HR [-> [Hsafe Hne]]].
  assert (Hc : contains_addr f = true).
  { destruct (contains_addr f) eqn:E; [reflexivity|]. now rewrite (no_addr_no_collect f E) in Hne. }
  unfold flt_list, flt_dataset, flt_ref. rewrite Hv, Hp.
  set (pre := fun e : fentity => match flt_eval (COr false (map addr_cond (collect_addrs f))) (row_of e) with Some TTrue => true | _ => false end).
  rewrite (select_rows_sound (flt_emit R f) (flt_sat R f) (List.filter pre es)).
  2:{ intros e He. apply filter_In in He. destruct He as [He _]. destruct (H e He) as [Hk [Hwf Hpos]]. now apply emit_pos. }
  f_equal. apply filter_filter_implied. intros e He Hs. destruct (H e He) as [Hk [_ Hpos]].
  assert (exists x, e = EVol x) as [x ->] by (destruct HR as [-> | ->]; destruct e; try discriminate Hk; eauto).
  unfold pre. rewrite (prefilter_eval (collect_addrs f) x (pos_collect_ok R f Hpos)).
  now rewrite (pushdown_covers R x f HR Hpos Hsafe Hc Hs).
Qed.
