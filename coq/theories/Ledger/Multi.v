(* Several ledgers on one database (C19).  A database holds buckets (schemas); a bucket holds the rows of every ledger
   created in it, each row tagged with its ledger (column `ledger`); every ledger has its own id sequences
   (default_bucket.go: transaction_id_<id>, log_id_<id>) and its own feature-gated triggers `WHEN (new.ledger = '<name>')`.

   Writes (internal/storage/ledger/{accounts,balances,logs,moves,transactions,volumes,schema}.go) ALWAYS carry the ledger:
   inserts set the column, updates/deletes/lookups have `ledger = ?`.  So an operation on ledger L is [Core.step] on the rows
   of L: [mstep_op].

   Reads through the resource handlers (resource_*.go) start from store.newScopedSelect(), which adds `ledger = ?` UNLESS the
   flag aloneInBucket is set.  The flag is an atomic.Bool shared by all stores of one bucket created by one
   ledgerstore.Factory, i.e. ONE FLAG PER (PROCESS, BUCKET).  It is written in exactly two places (driver/driver.go):
     - CreateLedger(l):  after inserting the _system.ledgers row, flag(process, l.bucket) := (count(l.bucket) = 1)
     - OpenLedger(name): flag(process, bucket) := (count(bucket) = 1)         (GetLedgerController does this per request;
                                                                                a replication pipeline does it once, at start)
   Nothing tells ANOTHER process that a ledger was added to the bucket. *)
From Coq Require Import List ZArith String Bool Lia.
From LV Require Import Base.Util Ledger.Types Ledger.Core.
Import ListNotations.
Open Scope Z_scope.

Definition lname := str.
Definition bname := str.
Definition proc := Z.

Record lentry := { le_name : lname; le_bucket : bname; le_feat : features; le_state : state }.

Record mstate := {
  ms_ledgers : list lentry;                  (* _system.ledgers, in creation order, with the rows/sequences of each ledger *)
  ms_flags : list ((proc * bname) * bool)    (* aloneInBucket of each process's factory, per bucket (absent = false) *)
}.

Definition minit : mstate := {| ms_ledgers := []; ms_flags := [] |}.

Inductive mevent :=
| MCreate (p : proc) (L : lname) (b : bname) (f : features)    (* driver.CreateLedger by process p *)
| MOpen (p : proc) (L : lname)                                  (* driver.OpenLedger by process p *)
| MOp (L : lname) (now : Z) (o : op).                           (* a write on L through any store of L, kept or fresh *)

Definition name_is (L : lname) (e : lentry) : bool := String.eqb (le_name e) L.
Definition in_bucket (b : bname) (e : lentry) : bool := String.eqb (le_bucket e) b.

Definition find_ledger (ls : list lentry) (L : lname) : option lentry := find (name_is L) ls.
Definition count_in (ls : list lentry) (b : bname) : Z := Z.of_nat (List.length (filter (in_bucket b) ls)).

Definition fkey_eqb (a b : proc * bname) : bool := (fst a =? fst b) && String.eqb (snd a) (snd b).
Definition flag (s : mstate) (p : proc) (b : bname) : bool := opt_default false (aget fkey_eqb (ms_flags s) (p, b)).
Definition set_flag (fl : list ((proc * bname) * bool)) (p : proc) (b : bname) (v : bool) := aset fkey_eqb fl (p, b) v.

(* what an observer of ledger L can see: its configuration, every table, every sequence *)
Definition project (s : mstate) (L : lname) : option lentry := find_ledger (ms_ledgers s) L.

(* ---------- events ---------- *)
Definition with_state (e : lentry) (st : state) : lentry :=
  {| le_name := le_name e; le_bucket := le_bucket e; le_feat := le_feat e; le_state := st |}.

Definition step_entry (now : Z) (o : op) (e : lentry) : lentry :=
  match step (le_feat e) now (le_state e) o with
  | SR st _ => with_state e st
  | SPanic => e
  end.

Definition mstep_op (s : mstate) (L : lname) (now : Z) (o : op) : mstate :=
  {| ms_ledgers := map (fun e => if name_is L e then step_entry now o e else e) (ms_ledgers s); ms_flags := ms_flags s |}.

(* the answer of the operation: a function of the addressed ledger's own rows only *)
Definition mresult (s : mstate) (L : lname) (now : Z) (o : op) : option step_result :=
  match project s L with
  | Some e => Some (step (le_feat e) now (le_state e) o)
  | None => None
  end.

Definition mstep (s : mstate) (ev : mevent) : mstate :=
  match ev with
  | MCreate p L b f =>
    match find_ledger (ms_ledgers s) L with
    | Some _ => s                                             (* ErrLedgerAlreadyExists: the SQL transaction rolls back *)
    | None =>
      let ls := ms_ledgers s ++ [{| le_name := L; le_bucket := b; le_feat := f; le_state := init_state |}] in
      {| ms_ledgers := ls; ms_flags := set_flag (ms_flags s) p b (count_in ls b =? 1) |}
    end
  | MOpen p L =>
    match find_ledger (ms_ledgers s) L with
    | None => s
    | Some e => {| ms_ledgers := ms_ledgers s; ms_flags := set_flag (ms_flags s) p (le_bucket e) (count_in (ms_ledgers s) (le_bucket e) =? 1) |}
    end
  | MOp L now o => mstep_op s L now o
  end.

Definition mrun_from (s : mstate) (evs : list mevent) : mstate := fold_left mstep evs s.
Definition mrun (evs : list mevent) : mstate := mrun_from minit evs.

Definition addressed (ev : mevent) : lname :=
  match ev with MCreate _ L _ _ => L | MOpen _ L => L | MOp L _ _ => L end.

(* ---------- the tables of a bucket: rows of every ledger of the bucket, tagged ---------- *)
Section Tables.
  Context {A : Type} (tbl : state -> list A).

  Definition rows_of (e : lentry) : list (lname * A) := map (pair (le_name e)) (tbl (le_state e)).
  Definition bucket_rows (ls : list lentry) (b : bname) : list (lname * A) :=
    flat_map (fun e => if in_bucket b e then rows_of e else []) ls.

  (* newScopedSelect: FROM "<bucket>".<table> [WHERE ledger = L] *)
  Definition scoped_read (alone : bool) (L : lname) (rows : list (lname * A)) : list (lname * A) :=
    if alone then rows else filter (fun r => String.eqb (fst r) L) rows.

  (* a read on ledger L through a store of process p *)
  Definition read_table (s : mstate) (p : proc) (L : lname) : list (lname * A) :=
    match project s L with
    | Some e => scoped_read (flag s p (le_bucket e)) L (bucket_rows (ms_ledgers s) (le_bucket e))
    | None => []
    end.
End Tables.

(* what a kept controller of process p on ledger L lists as transaction ids (compared with the real stack) *)
Definition held_tx_ids (s : mstate) (p : proc) (L : lname) : list Z := map (fun r => t_id (snd r)) (read_table s_txs s p L).

(* ---------- uniqueness constraints at bucket level: unique indexes are keyed (ledger, …) ---------- *)
(* transactions_reference: unique (ledger, reference) where reference is not null *)
Definition bucket_ref_taken (ls : list lentry) (b : bname) (L : lname) (r : str) : bool :=
  existsb (fun row => String.eqb (fst row) L && String.eqb (t_ref (snd row)) r) (bucket_rows s_txs ls b).
(* logs_idempotency_key: unique (ledger, idempotency_key); ReadLogWithIdempotencyKey: WHERE ledger = L AND idempotency_key = ik *)
Definition bucket_find_ik (ls : list lentry) (b : bname) (L : lname) (ik : str) : option log :=
  if String.eqb ik "" then None
  else option_map snd (find (fun row => String.eqb (fst row) L && String.eqb (l_ik (snd row)) ik) (bucket_rows s_logs ls b)).
(* what the index WOULD be if it ignored the ledger (used only to show the statement is not vacuous) *)
Definition bucket_ref_taken_unscoped (ls : list lentry) (b : bname) (r : str) : bool :=
  existsb (fun row => String.eqb (t_ref (snd row)) r) (bucket_rows s_txs ls b).

(* ---------- the invariant the read optimisation relies on ---------- *)
Definition Inv_flag_proc (s : mstate) (p : proc) : Prop := forall b, flag s p b = true -> count_in (ms_ledgers s) b = 1.
Definition Inv_flag (s : mstate) : Prop := forall p, Inv_flag_proc s p.
Definition names_unique (s : mstate) : Prop := NoDup (map le_name (ms_ledgers s)).
