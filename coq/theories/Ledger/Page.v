(* Model of internal/storage/common/paginator_column.go, paginator_offset.go and of the way
   resource.go:Paginate combines them:  page = BuildCursor (rows returned by the paginated SQL).

   The dataset is an abstract list of rows identified by their sort key (Z: transaction id, log id,
   timestamp in microseconds; for the offset paginator the rank of the row in the listing).  The
   theorems (PageProofs.v, Props/C21.v) assume the list duplicate-free (the sort key is unique).

   Page sizes are [nat] (uint64 in Go; overflow of pageSize+1 is not modelled: sizes < 2^63).
   Cursors are modelled as the query they encode (cursor.go: JSON + base64; the round trip is
   exercised by the tie, not modelled). *)
From Coq Require Import List ZArith Bool Lia.
Import ListNotations.
Open Scope Z_scope.

(* ---------------------------------------------------------------- ORDER BY col ASC|DESC *)
Definition dle (asc : bool) (a b : Z) : bool := if asc then a <=? b else b <=? a.
Definition dlt (asc : bool) (a b : Z) : bool := if asc then a <? b else b <? a.

Fixpoint insert (asc : bool) (x : Z) (l : list Z) : list Z :=
  match l with
  | [] => [x]
  | y :: ys => if dle asc x y then x :: l else y :: insert asc x ys
  end.
Definition sort_keys (asc : bool) (l : list Z) : list Z := fold_right (insert asc) [] l.

(* paginate.QueryDefaultPageSize *)
Definition default_page_size : nat := 15.

(* ---------------------------------------------------------------- column paginator *)
(* ColumnPaginatedQuery: PageSize, Order, PaginationID, Bottom, Reverse (Column and Options are
   carried unchanged by every cursor and are not part of the model) *)
Record cquery := { q_size : nat; q_asc : bool; q_pid : option Z; q_bottom : option Z; q_reverse : bool }.

(* paginate.Cursor: Data, HasMore, Previous, Next *)
Record cpage := { p_data : list Z; p_has_more : bool; p_prev : option cquery; p_next : option cquery }.

Definition eff_size (q : cquery) : nat := if Nat.eqb (q_size q) 0 then default_page_size else q_size q.

(* Paginate: the WHERE clause on the pagination column *)
Definition keep (q : cquery) (k : Z) : bool :=
  match q_pid q with
  | None => true
  | Some p =>
    match q_reverse q, q_asc q with
    | true, true => k <? p          (* col < ?  *)
    | true, false => k >? p         (* col > ?  *)
    | false, true => k >=? p        (* col >= ? *)
    | false, false => k <=? p       (* col <= ? *)
    end
  end.

(* Paginate: ORDER BY col <order, reversed if Reverse> *)
Definition eff_asc (q : cquery) : bool := if q_reverse q then negb (q_asc q) else q_asc q.

(* the rows the paginated SQL returns: WHERE, ORDER BY, LIMIT pageSize+1 *)
Definition fetch (ks : list Z) (q : cquery) : list Z :=
  firstn (S (eff_size q)) (sort_keys (eff_asc q) (filter (keep q) ks)).

Definition with_bottom (q : cquery) (b : option Z) : cquery :=
  {| q_size := q_size q; q_asc := q_asc q; q_pid := q_pid q; q_bottom := b; q_reverse := q_reverse q |}.
Definition with_pid (q : cquery) (p : Z) : cquery :=
  {| q_size := q_size q; q_asc := q_asc q; q_pid := Some p; q_bottom := q_bottom q; q_reverse := q_reverse q |}.
Definition with_reverse (q : cquery) (r : bool) : cquery :=
  {| q_size := q_size q; q_asc := q_asc q; q_pid := q_pid q; q_bottom := q_bottom q; q_reverse := r |}.

(* BuildCursor.  [None] = the Go code panics (PaginationID.Cmp(nil Bottom): pagination id set, Bottom
   unset and no row to take it from). *)
Definition build_cursor (q0 : cquery) (rows : list Z) : option cpage :=
  (* for _, t := range ret { if o.query.Bottom == nil { o.query.Bottom = paginationID } ... } *)
  let bottom := match q_bottom q0 with
                | Some b => Some b
                | None => match rows with r :: _ => Some r | [] => None end
                end in
  let q := with_bottom q0 bottom in
  let ids := rows in                                   (* paginationIDs, look-ahead row included *)
  let has_more := Nat.ltb (eff_size q) (length rows) in
  let rows1 := if has_more then removelast rows else rows in
  let data := if q_reverse q then rev rows1 else rows1 in
  if q_reverse q then
    let next := Some (with_reverse q false) in
    let prev := if has_more then Some (with_pid q (nth (length ids - 2) ids 0)) else None in
    Some {| p_data := data; p_has_more := true; p_prev := prev; p_next := next |}
  else
    let next := if has_more then Some (with_pid q (nth (length ids - 1) ids 0)) else None in
    match q_pid q with
    | None => Some {| p_data := data; p_has_more := has_more; p_prev := None; p_next := next |}
    | Some p =>
      match bottom with
      | None => None
      | Some b =>
        let prev := if (q_asc q && (p >? b)) || (negb (q_asc q) && (p <? b))
                    then Some (with_reverse q true) else None in
        Some {| p_data := data; p_has_more := has_more; p_prev := prev; p_next := next |}
      end
    end.

Definition page (ks : list Z) (q : cquery) : option cpage := build_cursor q (fetch ks q).

(* the query resource.go:Paginate builds from an InitialPaginatedQuery *)
Definition init_query (size : nat) (asc : bool) : cquery :=
  {| q_size := size; q_asc := asc; q_pid := None; q_bottom := None; q_reverse := false |}.

(* follow [next] cursors; None = out of fuel or panic *)
Fixpoint walk_next (fuel : nat) (ks : list Z) (q : cquery) : option (list cpage) :=
  match fuel with
  | O => None
  | S f =>
    match page ks q with
    | None => None
    | Some p =>
      match p_next p with
      | None => Some [p]
      | Some q' => match walk_next f ks q' with Some ps => Some (p :: ps) | None => None end
      end
    end
  end.

(* follow [previous] cursors from a page (the page itself excluded) *)
Fixpoint walk_prev (fuel : nat) (ks : list Z) (p : cpage) : option (list cpage) :=
  match fuel with
  | O => None
  | S f =>
    match p_prev p with
    | None => Some []
    | Some q =>
      match page ks q with
      | None => None
      | Some p' => match walk_prev f ks p' with Some ps => Some (p' :: ps) | None => None end
      end
    end
  end.

(* ---------------------------------------------------------------- offset paginator *)
Record oquery := { o_size : nat; o_asc : bool; o_offset : Z }.
Record opage := { op_data : list Z; op_has_more : bool; op_prev : option oquery; op_next : option oquery }.

Definition max_int32 : Z := 2147483647.

(* OFFSET o (recursion on the rows, so that large offsets stay cheap when the model is executed) *)
Fixpoint skipz (o : Z) (l : list Z) : list Z :=
  match l with
  | [] => []
  | _ :: r => if 0 <? o then skipz (o - 1) r else l
  end.

(* Paginate: ORDER BY col order [OFFSET offset] [LIMIT pageSize+1]; None = "offset value exceeds
   maximum allowed value" *)
Definition ofetch (ks : list Z) (q : oquery) : option (list Z) :=
  if o_offset q >? max_int32 then None
  else
    let s := sort_keys (o_asc q) ks in
    let s := if 0 <? o_offset q then skipz (o_offset q) s else s in
    Some (if Nat.ltb 0 (o_size q) then firstn (S (o_size q)) s else s).

Definition with_offset (q : oquery) (o : Z) : oquery :=
  {| o_size := o_size q; o_asc := o_asc q; o_offset := o |}.

Definition obuild (q : oquery) (rows : list Z) : opage :=
  let prev := if 0 <? o_offset q then
                let off := o_offset q - Z.of_nat (o_size q) in
                Some (with_offset q (if off <? 0 then 0 else off))
              else None in
  if negb (Nat.eqb (o_size q) 0) && Nat.ltb (o_size q) (length rows) then
    {| op_data := removelast rows; op_has_more := true; op_prev := prev;
       op_next := Some (with_offset q (o_offset q + Z.of_nat (o_size q))) |}
  else
    {| op_data := rows; op_has_more := false; op_prev := prev; op_next := None |}.

Definition opage_of (ks : list Z) (q : oquery) : option opage :=
  match ofetch ks q with Some rows => Some (obuild q rows) | None => None end.

Definition oinit (size : nat) (asc : bool) : oquery := {| o_size := size; o_asc := asc; o_offset := 0 |}.

Fixpoint owalk_next (fuel : nat) (ks : list Z) (q : oquery) : option (list opage) :=
  match fuel with
  | O => None
  | S f =>
    match opage_of ks q with
    | None => None
    | Some p =>
      match op_next p with
      | None => Some [p]
      | Some q' => match owalk_next f ks q' with Some ps => Some (p :: ps) | None => None end
      end
    end
  end.

Fixpoint owalk_prev (fuel : nat) (ks : list Z) (p : opage) : option (list opage) :=
  match fuel with
  | O => None
  | S f =>
    match op_prev p with
    | None => Some []
    | Some q =>
      match opage_of ks q with
      | None => None
      | Some p' => match owalk_prev f ks p' with Some ps => Some (p' :: ps) | None => None end
      end
    end
  end.

(* ---------------------------------------------------------------- what the tie prints for one case *)
(* pages reached by next; for every page the data behind its previous cursor (one step); the pages
   reached by following previous from the last page back to the start *)
Record report := { r_pages : list (list Z); r_more : list bool; r_prev1 : list (option (list Z)); r_back : list (list Z) }.

Definition prev1 (ks : list Z) (p : cpage) : option (option (list Z)) :=
  match p_prev p with
  | None => Some None
  | Some q => match page ks q with Some p' => Some (Some (p_data p')) | None => None end
  end.

Fixpoint all_some {A} (l : list (option A)) : option (list A) :=
  match l with
  | [] => Some []
  | None :: _ => None
  | Some x :: r => match all_some r with Some xs => Some (x :: xs) | None => None end
  end.

Definition column_report (ks : list Z) (size : nat) (asc : bool) : option report :=
  let fuel := S (S (length ks)) in
  match walk_next fuel ks (init_query size asc) with
  | None => None
  | Some ps =>
    match all_some (map (prev1 ks) ps), walk_prev fuel ks (last ps {| p_data := []; p_has_more := false; p_prev := None; p_next := None |}) with
    | Some p1, Some back =>
      Some {| r_pages := map p_data ps; r_more := map p_has_more ps; r_prev1 := p1; r_back := map p_data back |}
    | _, _ => None
    end
  end.

Definition oprev1 (ks : list Z) (p : opage) : option (option (list Z)) :=
  match op_prev p with
  | None => Some None
  | Some q => match opage_of ks q with Some p' => Some (Some (op_data p')) | None => None end
  end.

Definition offset_report (ks : list Z) (size : nat) (asc : bool) : option report :=
  let fuel := S (S (length ks)) in
  match owalk_next fuel ks (oinit size asc) with
  | None => None
  | Some ps =>
    match all_some (map (oprev1 ks) ps), owalk_prev fuel ks (last ps {| op_data := []; op_has_more := false; op_prev := None; op_next := None |}) with
    | Some p1, Some back =>
      Some {| r_pages := map op_data ps; r_more := map op_has_more ps; r_prev1 := p1; r_back := map op_data back |}
    | _, _ => None
    end
  end.
