(* Creates whose Numscript sets metadata (input IScript): what the transaction and the touched accounts end up with
   (C17), that a refused override leaves no trace (C07), and that the idempotency fingerprint is the request as
   submitted, not the request merged with what the script computed (C13). *)
From Coq Require Import List ZArith String Bool Lia.
From LV Require Import Base.Util Ledger.Types Ledger.Core Ledger.Invariants Ledger.ReplayProofs Ledger.IkProofs Ledger.AccountProofs.
Import ListNotations.
Open Scope Z_scope.

(* ---------- association lists keyed by strings ---------- *)
Section StrMap.
  Context {V : Type}.
  Implicit Types m : list (str * V).

  Lemma sget_aset_same m k v : aget String.eqb (aset String.eqb m k v) k = Some v.
  Proof.
    induction m as [|[k0 v0] r IH]; simpl; [rewrite String.eqb_refl; reflexivity|].
    destruct (String.eqb k0 k) eqn:E; simpl; rewrite E; [reflexivity | exact IH].
  Qed.

  Lemma sget_aset_other m k k' v : k <> k' -> aget String.eqb (aset String.eqb m k v) k' = aget String.eqb m k'.
  Proof.
    intros Hne. induction m as [|[k0 v0] r IH]; simpl.
    - apply String.eqb_neq in Hne. rewrite Hne. reflexivity.
    - destruct (String.eqb k0 k) eqn:E; simpl.
      + apply String.eqb_eq in E. subst k0. apply String.eqb_neq in Hne. rewrite Hne. reflexivity.
      + destruct (String.eqb k0 k'); [reflexivity | exact IH].
  Qed.

  Lemma sget_notin m k : ~ In k (map fst m) -> aget String.eqb m k = None.
  Proof.
    induction m as [|[k0 v0] r IH]; simpl; [reflexivity|]. intros Hn.
    destruct (String.eqb k0 k) eqn:E; [apply String.eqb_eq in E; subst; exfalso; apply Hn; left; reflexivity|].
    apply IH. intros Hin. apply Hn. right. exact Hin.
  Qed.

  Lemma sget_some_in m k v : aget String.eqb m k = Some v -> In (k, v) m.
  Proof.
    induction m as [|[k0 v0] r IH]; simpl; [discriminate|].
    destruct (String.eqb k0 k) eqn:E.
    - apply String.eqb_eq in E. subst k0. intros X; inversion X; subst. left; reflexivity.
    - intros X. right. apply IH. exact X.
  Qed.
End StrMap.

(* a || b, key by key: b's value where b has the key, a's otherwise (one entry per key in b: a JSON object) *)
Lemma mget_mmerge (b : meta) : forall (a : meta) k, NoDup (map fst b) ->
  mget (mmerge a b) k = match mget b k with Some v => Some v | None => mget a k end.
Proof.
  unfold mmerge, mget. induction b as [|[k0 v0] r IH]; intros a k Hnd; simpl; [reflexivity|].
  inversion Hnd as [|x l Hn Hr]; subst. rewrite IH by exact Hr.
  destruct (String.eqb k0 k) eqn:E.
  - apply String.eqb_eq in E. subst k0. rewrite (sget_notin r k Hn). apply sget_aset_same.
  - apply String.eqb_neq in E. rewrite (sget_aset_other a k0 k v0 E). reflexivity.
Qed.

(* ---------- the two merge rules of createTransaction ---------- *)
(* transaction metadata: the request may not override a key the script set to a non-empty value *)
Lemma script_tx_meta_some smd md md' : script_tx_meta smd md = Some md' ->
  md' = mmerge smd md /\ (forall k v w, mget smd k = Some v -> In (k, w) md -> v = ""%string).
Proof.
  unfold script_tx_meta. destruct (existsb _ md) eqn:E; [discriminate|]. intros X; inversion X; subst; clear X.
  split; [reflexivity|]. intros k v w Hs Hin.
  destruct (String.eqb v "") eqn:Ev; [apply String.eqb_eq in Ev; exact Ev|]. exfalso.
  assert (T : existsb (fun kv => match mget smd (fst kv) with Some v => negb (String.eqb v "") | None => false end) md = true).
  { apply existsb_exists. exists (k, w). split; [exact Hin|]. simpl. rewrite Hs, Ev. reflexivity. }
  rewrite T in E. discriminate E.
Qed.

Lemma script_tx_meta_override smd md k v w :
  mget smd k = Some v -> v <> ""%string -> In (k, w) md -> script_tx_meta smd md = None.
Proof.
  intros Hs Hv Hin. unfold script_tx_meta.
  assert (T : existsb (fun kv => match mget smd (fst kv) with Some v => negb (String.eqb v "") | None => false end) md = true).
  { apply existsb_exists. exists (k, w). split; [exact Hin|]. simpl. rewrite Hs. apply String.eqb_neq in Hv. rewrite Hv. reflexivity. }
  rewrite T. reflexivity.
Qed.

(* account metadata: per account, the request's entry merged key by key over the script's *)
Lemma script_acc_meta_get (amd : list (addr * meta)) : forall (samd : list (addr * meta)) a, NoDup (map fst amd) ->
  amd_get (script_acc_meta samd amd) a =
  match aget String.eqb amd a with Some m => mmerge (amd_get samd a) m | None => amd_get samd a end.
Proof.
  unfold script_acc_meta. induction amd as [|[a0 m0] r IH]; intros samd a Hnd; simpl; [reflexivity|].
  inversion Hnd as [|x l Hn Hr]; subst. rewrite IH by exact Hr.
  destruct (String.eqb a0 a) eqn:E.
  - apply String.eqb_eq in E. subst a0. rewrite (sget_notin r a Hn). unfold amd_get. rewrite sget_aset_same. reflexivity.
  - apply String.eqb_neq in E. unfold amd_get. rewrite (sget_aset_other samd a0 a _ E). reflexivity.
Qed.

Theorem script_acc_meta_keys samd amd a k :
  NoDup (map fst amd) -> NoDup (map fst (amd_get amd a)) ->
  mget (amd_get (script_acc_meta samd amd) a) k =
  match mget (amd_get amd a) k with Some v => Some v | None => mget (amd_get samd a) k end.
Proof.
  intros H1 H2. rewrite script_acc_meta_get by exact H1. unfold amd_get in *.
  destruct (aget String.eqb amd a) as [m|]; cbn [opt_default] in *; [apply mget_mmerge; exact H2 | reflexivity].
Qed.

(* ---------- accounts after the upsert of a transaction's accounts ---------- *)
Lemma upsert_account_at hist_on now accs hist a md e ins upd :
  exists y, find_account (fst (upsert_account hist_on now (accs, hist) a md (Some e) ins upd)) a = Some y /\
            a_meta y = match find_account accs a with Some x => mmerge (a_meta x) md | None => md end.
Proof.
  unfold upsert_account. destruct (find_account accs a) as [x|] eqn:F.
  - destruct (acc_needs_update x md (Some e)) eqn:C; cbn [fst].
    + exists (acc_updated now x md (Some e) upd). split; [|reflexivity].
      unfold find_account in *. induction accs as [|y r IH]; simpl in *; [discriminate|].
      destruct (String.eqb (a_addr y) a) eqn:E; simpl.
      * inversion F; subst y. rewrite C. simpl. rewrite E. reflexivity.
      * rewrite E. apply IH; exact F.
    + exists x. split; [exact F|]. unfold acc_needs_update in C. apply orb_false_iff in C. destruct C as [_ C].
      apply negb_false_iff in C. symmetry. apply mmerge_contained. exact C.
  - cbn [fst]. eexists. split.
    + unfold find_account in *. rewrite find_app_none by exact F. simpl. rewrite String.eqb_refl. reflexivity.
    + reflexivity.
Qed.

Lemma find_account_map_other accs a (g : account -> account) (c : account -> bool) :
  (forall y, a_addr (g y) = a_addr y) -> (forall y, c y = true -> a_addr y <> a) ->
  find_account (map (fun y => if c y then g y else y) accs) a = find_account accs a.
Proof.
  intros Hg Hc. unfold find_account. induction accs as [|y r IH]; simpl; [reflexivity|].
  destruct (c y) eqn:E.
  - rewrite Hg. pose proof (Hc y E) as Hne. apply String.eqb_neq in Hne. rewrite Hne. exact IH.
  - destruct (String.eqb (a_addr y) a); [reflexivity | exact IH].
Qed.

Lemma find_app_l {A} (g : A -> bool) l l2 : find g (l ++ l2) = match find g l with Some x => Some x | None => find g l2 end.
Proof. induction l as [|x r IH]; simpl; [reflexivity|]. destruct (g x); [reflexivity | exact IH]. Qed.

Lemma upsert_account_other hist_on now accs hist b md first ins upd a : b <> a ->
  find_account (fst (upsert_account hist_on now (accs, hist) b md first ins upd)) a = find_account accs a.
Proof.
  intros Hne. unfold upsert_account. destruct (find_account accs b) as [x|] eqn:F.
  - destruct (acc_needs_update x md first); cbn [fst]; [|reflexivity].
    apply (find_account_map_other accs a (fun y => acc_updated now y md first upd)
             (fun y => String.eqb (a_addr y) b && acc_needs_update y md first)); [reflexivity|].
    intros y Hy. apply andb_true_iff in Hy. destruct Hy as [Hy _]. apply String.eqb_eq in Hy. congruence.
  - cbn [fst]. unfold find_account. rewrite find_app_l. destruct (find _ accs); [reflexivity|]. simpl.
    apply String.eqb_neq in Hne. rewrite Hne. reflexivity.
Qed.

Lemma upsert_fold_at hist_on now (g : addr -> meta) e ins upd (l : list addr) : NoDup l -> forall st a,
  let st' := fold_left (fun st a => upsert_account hist_on now st a (g a) (Some e) ins upd) l st in
  (~ In a l -> find_account (fst st') a = find_account (fst st) a) /\
  (In a l -> exists y, find_account (fst st') a = Some y /\
                       a_meta y = match find_account (fst st) a with Some x => mmerge (a_meta x) (g a) | None => g a end).
Proof.
  induction l as [|b r IH]; intros Hnd [accs hist] a; cbn [fold_left fst].
  - split; [reflexivity | intros []].
  - inversion Hnd as [|x l0 Hn Hr]; subst.
    destruct (IH Hr (upsert_account hist_on now (accs, hist) b (g b) (Some e) ins upd) a) as [I1 I2]. split.
    + intros Hnin. rewrite I1 by (intros Hin; apply Hnin; right; exact Hin).
      apply upsert_account_other. intros ->. apply Hnin. left; reflexivity.
    + intros [->|Hin].
      * rewrite I1 by exact Hn. apply upsert_account_at.
      * destruct (I2 Hin) as (y & Hy & Hm). exists y. split; [exact Hy|]. rewrite Hm.
        rewrite upsert_account_other; [reflexivity|]. intros ->. contradiction.
Qed.

Lemma nodup_str_in l a : In a (nodup_str l) <-> In a l.
Proof.
  induction l as [|x r IH]; simpl; [tauto|]. destruct (existsb (String.eqb x) r) eqn:E.
  - rewrite IH. split; [tauto|]. intros [->|H]; [|exact H].
    apply existsb_exists in E. destruct E as (y & Hy & Ey). apply String.eqb_eq in Ey. subst y. exact Hy.
  - simpl. rewrite IH. tauto.
Qed.

Lemma nodup_str_nodup l : NoDup (nodup_str l).
Proof.
  induction l as [|x r IH]; simpl; [constructor|]. destruct (existsb (String.eqb x) r) eqn:E; [exact IH|].
  constructor; [|exact IH]. rewrite nodup_str_in. intros Hin.
  assert (T : existsb (String.eqb x) r = true) by (apply existsb_exists; exists x; split; [exact Hin | apply String.eqb_refl]).
  rewrite T in E. discriminate E.
Qed.

(* every account of the postings or of the account-metadata map: its row exists afterwards and carries the old metadata
   (if the account existed) merged with the map's entry for it *)
Lemma upsert_tx_accounts_at f now s t amd a : In a (involved_accounts (t_postings t) amd) ->
  exists y, find_account (s_accounts (upsert_tx_accounts f now s t amd)) a = Some y /\
            a_meta y = match find_account (s_accounts s) a with Some x => mmerge (a_meta x) (amd_get amd a) | None => amd_get amd a end.
Proof.
  intros Hin. unfold upsert_tx_accounts.
  pose proof (upsert_fold_at (f_acc_hist f) now (amd_get amd) (t_ts t) (Some (t_ins t)) (Some (t_ins t))
                (involved_accounts (t_postings t) amd) (nodup_str_nodup _) (s_accounts s, s_ahist s) a) as [_ H].
  destruct (fold_left _ _ _) as [accs hist]. cbn [fst s_accounts] in *. exact (H Hin).
Qed.

(* ---------- the step ---------- *)
Definition script_op ps ts ref md amd force smd samd ik dry : op :=
  {| o_in := IScript ps ts ref md amd force smd samd; o_ik := ik; o_dry := dry |}.

(* a script create that succeeds: the override rule held, and the tables are those of the commit of the MERGED
   transaction metadata followed by the upsert of the MERGED account metadata; the log keeps the request as submitted *)
Lemma script_step_ok f now s ps ts ref md amd force smd samd ik dry s' lid tid :
  step f now s (script_op ps ts ref md amd force smd samd ik dry) = SR s' (ROk lid tid false) ->
  script_tx_meta smd md = Some (mmerge smd md) /\
  exists s1 t, commit_transaction f now s ps (mmerge smd md) ts ref = (s1, Some t) /\ tid = Some (t_id t) /\
    (dry = false ->
     s' = append_log (upsert_tx_accounts f now s1 t (script_acc_meta samd amd))
            {| l_id := lid; l_payload := PNewTx t (script_acc_meta samd amd); l_date := now; l_ik := ik;
               l_input := IScript ps ts ref md amd force smd samd |}).
Proof.
  unfold step, script_op. cbn [o_ik o_in o_dry]. destruct (find_ik (s_logs s) ik) as [l|].
  { destruct (input_eq_dec _ _); intros X; inversion X. }
  cbn [run_input]. destruct ps as [|p ps']; [intros X; inversion X|].
  destruct (feasible force (s_vols s) (p :: ps')); cbn [negb]; [|intros X; inversion X].
  destruct (script_tx_meta smd md) as [md'|] eqn:M; [|intros X; inversion X].
  destruct (script_tx_meta_some _ _ _ M) as [-> _]. unfold create_tx.
  destruct (feasible force (s_vols s) (p :: ps')); cbn [negb]; [|intros X; inversion X].
  destruct (commit_transaction f now s (p :: ps') (mmerge smd md) ts ref) as [s1 [t|]] eqn:E; [|intros X; inversion X].
  intros X. split; [reflexivity|]. exists s1, t. split; [reflexivity|].
  destruct dry; inversion X; subst; (split; [reflexivity|]); intros D; [discriminate D | reflexivity].
Qed.

Theorem script_create_tx_metadata f now s ps ts ref md amd force smd samd ik s' lid tid :
  step f now s (script_op ps ts ref md amd force smd samd ik false) = SR s' (ROk lid tid false) ->
  (forall k v w, mget smd k = Some v -> In (k, w) md -> v = ""%string) /\
  exists t, s_txs s' = s_txs s ++ [t] /\ tid = Some (t_id t) /\ t_postings t = ps /\ t_meta t = mmerge smd md.
Proof.
  intros H. destruct (script_step_ok _ _ _ _ _ _ _ _ _ _ _ _ _ _ _ _ H) as (M & s1 & t & E & -> & Hs).
  split; [exact (proj2 (script_tx_meta_some _ _ _ M))|].
  rewrite (Hs eq_refl). apply commit_some in E. destruct E as (Htx & Hps & _ & _ & Hm & _).
  destruct (upsert_tx_accounts_frame f now s1 t (script_acc_meta samd amd)) as (_ & Htx' & _).
  exists t. cbn [append_log s_txs]. rewrite Htx', Htx. repeat split; assumption.
Qed.

Theorem script_create_account_metadata f now s ps ts ref md amd force smd samd ik s' lid tid a :
  step f now s (script_op ps ts ref md amd force smd samd ik false) = SR s' (ROk lid tid false) ->
  In a (involved_accounts ps (script_acc_meta samd amd)) ->
  exists y, find_account (s_accounts s') a = Some y /\
            a_meta y = match find_account (s_accounts s) a with
                       | Some x => mmerge (a_meta x) (amd_get (script_acc_meta samd amd) a)
                       | None => amd_get (script_acc_meta samd amd) a
                       end.
Proof.
  intros H Hin. destruct (script_step_ok _ _ _ _ _ _ _ _ _ _ _ _ _ _ _ _ H) as (_ & s1 & t & E & _ & Hs).
  rewrite (Hs eq_refl). apply commit_some in E. destruct E as (_ & Hps & _ & _ & _ & _ & _ & _ & _ & _ & _ & _ & _ & Hacc & _).
  cbn [append_log s_accounts]. rewrite <- Hacc. apply upsert_tx_accounts_at. rewrite Hps. exact Hin.
Qed.

(* the override is refused before anything is written *)
Theorem script_override_no_trace f now s ps ts ref md amd force smd samd ik dry k v w :
  find_ik (s_logs s) ik = None -> ps <> [] -> feasible force (s_vols s) ps = true ->
  mget smd k = Some v -> v <> ""%string -> In (k, w) md ->
  exists s', step f now s (script_op ps ts ref md amd force smd samd ik dry) = SR s' (RErr EMetadataOverride) /\
             tables s' = tables s /\ s_next_tx s' = s_next_tx s /\ s_next_log s' = s_next_log s.
Proof.
  intros Hik Hps Hf Hs Hv Hin. unfold step, script_op. cbn [o_ik o_in o_dry]. rewrite Hik. cbn [run_input].
  destruct ps as [|p ps']; [contradiction|]. rewrite Hf. cbn [negb].
  rewrite (script_tx_meta_override smd md k v w Hs Hv Hin). eexists. split; [reflexivity|]. repeat split; reflexivity.
Qed.

(* whenever that error is answered, no table changed *)
Theorem script_override_error_no_trace f now s o s' : step f now s o = SR s' (RErr EMetadataOverride) -> tables s' = tables s.
Proof. apply step_error_no_trace. Qed.

(* idempotency: the fingerprint of a committed script create is the request as submitted *)
Theorem script_replay_returns_original f now s ps ts ref md amd force smd samd ik s1 lid tid h2 now' dry' :
  ik <> ""%string ->
  step f now s (script_op ps ts ref md amd force smd samd ik false) = SR s1 (ROk lid tid false) ->
  let s2 := run_from f s1 h2 in
  step f now' s2 (script_op ps ts ref md amd force smd samd ik dry') = SR s2 (ROk lid tid true).
Proof.
  intros Hne H s2.
  destruct (step_commit_records_ik f now s (script_op ps ts ref md amd force smd samd ik false) s1 lid tid eq_refl Hne H) as (l & F & A & B & C).
  pose proof (find_ik_stable f h2 s1 ik l F) as F2. fold s2 in F2.
  unfold script_op. rewrite (step_hit f now' s2 _ ik dry' l F2). rewrite B. cbn [o_in script_op].
  destruct (input_eq_dec _ _) as [_|N]; [|contradiction N; reflexivity]. rewrite A, C. reflexivity.
Qed.

(* ... and NOT the request with the script's metadata spelled out: that is a different input *)
Theorem script_replay_merged_rejected f now s ps ts ref md amd force smd samd ik s1 lid tid h2 now' dry' smd' samd' :
  ik <> ""%string -> mmerge smd md <> md ->
  step f now s (script_op ps ts ref md amd force smd samd ik false) = SR s1 (ROk lid tid false) ->
  let s2 := run_from f s1 h2 in
  step f now' s2 (script_op ps ts ref (mmerge smd md) amd force smd' samd' ik dry') = SR s2 (RErr EIdempotencyInput).
Proof.
  intros Hne Hd H s2.
  destruct (step_commit_records_ik f now s (script_op ps ts ref md amd force smd samd ik false) s1 lid tid eq_refl Hne H) as (l & F & A & B & C).
  pose proof (find_ik_stable f h2 s1 ik l F) as F2. fold s2 in F2.
  unfold script_op. rewrite (step_hit f now' s2 _ ik dry' l F2). rewrite B. cbn [o_in script_op].
  destruct (input_eq_dec _ _) as [E|_]; [|reflexivity]. inversion E as [[E1]]. contradiction Hd. symmetry. exact E1.
Qed.
