(* The status layer for writes on a ledger with schemas (internal/api/common/errors.go HandleCommonWriteErrors and
   internal/api/v2/controllers_schema_insert.go): what the TIE-H schema histories compare. *)
From Coq Require Import List ZArith String Bool Lia.
From LV Require Import Base.Util Ledger.Types Ledger.Core Ledger.HttpView Ledger.SchemaCtrl.
Open Scope string_scope.
Open Scope Z_scope.

Definition shttp_error (e : serr) : Z * string :=
  match e with
  | EBase b => http_error V2 b
  | ESchemaNotFound => (404, "NOT_FOUND")
  | ESchemaNotSpecified => (400, "SCHEMA_NOT_SPECIFIED")
  | ESchemaValidation => (400, "VALIDATION")
  | ESchemaAlreadyExists => (409, "SCHEMA_ALREADY_EXISTS")
  end.

Lemma shttp_error_is_client_error e : client_error (fst (shttp_error e)).
Proof.
  destruct e as [b| | | |]; try (unfold client_error; cbn; lia).
  exact (http_error_is_client_error V2 b).
Qed.
