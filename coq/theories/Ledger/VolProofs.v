(* Algebra of volume maps and the volume invariants behind C01 / C02 / C15:
   the accounts_volumes rows always equal the fold of the postings of the stored transactions. *)
From Coq Require Import List ZArith String Bool Lia.
From LV Require Import Base.Util Ledger.Types Ledger.Core.
Import ListNotations.
Open Scope Z_scope.

(* ---------- aget / aset over keys ---------- *)
Lemma aget_aset_same (m : volmap) k v : aget key_eqb (aset key_eqb m k v) k = Some v.
Proof. induction m as [|[k' v'] r IH]; simpl.
  - unfold key_eqb; rewrite pair_eqb_refl; reflexivity.
  - destruct (key_eqb k' k) eqn:E; simpl; rewrite E; [reflexivity | exact IH]. Qed.

Lemma aget_aset_other (m : volmap) k k' v : k <> k' -> aget key_eqb (aset key_eqb m k v) k' = aget key_eqb m k'.
Proof. intros N. induction m as [|[k0 v0] r IH]; simpl.
  - destruct (key_eqb k k') eqn:E; [apply pair_eqb_eq in E; contradiction | reflexivity].
  - destruct (key_eqb k0 k) eqn:E; simpl.
    + apply pair_eqb_eq in E; subst k0.
      destruct (key_eqb k k') eqn:E2; [apply pair_eqb_eq in E2; contradiction | reflexivity].
    + destruct (key_eqb k0 k'); [reflexivity | exact IH]. Qed.

Lemma vget_vadd_same m k d : vget (vadd m k d) k = vplus (vget m k) d.
Proof. unfold vadd, vget at 1. rewrite aget_aset_same. reflexivity. Qed.

Lemma vget_vadd_other m k k' d : k <> k' -> vget (vadd m k d) k' = vget m k'.
Proof. intros N. unfold vadd, vget at 1. rewrite aget_aset_other by exact N. reflexivity. Qed.

Lemma vget_vadd m k k' d : vget (vadd m k d) k' = if key_eqb k k' then vplus (vget m k') d else vget m k'.
Proof. destruct (key_eqb k k') eqn:E.
  - apply pair_eqb_eq in E; subst. apply vget_vadd_same.
  - apply pair_eqb_neq in E. apply vget_vadd_other; exact E. Qed.

(* pointwise equality of volume maps (a missing row reads as (0,0)) *)
Definition veq (a b : volmap) : Prop := forall k, vget a k = vget b k.
Lemma veq_refl a : veq a a. Proof. intros k; reflexivity. Qed.
Lemma veq_sym a b : veq a b -> veq b a. Proof. intros H k; symmetry; apply H. Qed.
Lemma veq_trans a b c : veq a b -> veq b c -> veq a c. Proof. intros H1 H2 k; rewrite H1; apply H2. Qed.
Lemma vadd_veq a b k d : veq a b -> veq (vadd a k d) (vadd b k d).
Proof. intros H k'. rewrite !vget_vadd, !H. reflexivity. Qed.

Lemma vplus_assoc a b c : vplus (vplus a b) c = vplus a (vplus b c).
Proof. destruct a, b, c; unfold vplus; simpl; f_equal; lia. Qed.
Lemma vplus_comm a b : vplus a b = vplus b a.
Proof. destruct a, b; unfold vplus; simpl; f_equal; lia. Qed.
Lemma vplus_0_r a : vplus a (0, 0) = a.
Proof. destruct a; unfold vplus; simpl; f_equal; lia. Qed.

(* ---------- the specification: fold of postings ---------- *)
Definition posting_delta (p : posting) (k : key) : vol :=
  vplus (if key_eqb (skey p) k then (0, p_amt p) else (0, 0)) (if key_eqb (dkey p) k then (p_amt p, 0) else (0, 0)).

Fixpoint fold_postings (ps : list posting) (k : key) : vol :=
  match ps with [] => (0, 0) | p :: r => vplus (posting_delta p k) (fold_postings r k) end.

Lemma fold_postings_app a b k : fold_postings (a ++ b) k = vplus (fold_postings a k) (fold_postings b k).
Proof. induction a as [|p r IH]; simpl.
  - destruct (fold_postings b k); unfold vplus; simpl; f_equal; lia.
  - rewrite IH, vplus_assoc. reflexivity. Qed.

Lemma vget_apply_posting m p k : vget (apply_posting m p) k = vplus (vget m k) (posting_delta p k).
Proof.
  unfold apply_posting, posting_delta. rewrite !vget_vadd.
  destruct (key_eqb (skey p) k), (key_eqb (dkey p) k), (vget m k); unfold vplus; simpl; f_equal; lia.
Qed.

Lemma vget_fold_apply ps m k : vget (fold_left apply_posting ps m) k = vplus (vget m k) (fold_postings ps k).
Proof. revert m; induction ps as [|p r IH]; intros m; simpl.
  - rewrite vplus_0_r; reflexivity.
  - rewrite IH, vget_apply_posting, vplus_assoc. reflexivity. Qed.

Lemma vget_nil k : vget [] k = (0, 0). Proof. reflexivity. Qed.

Lemma vget_volume_updates ps k : vget (volume_updates ps) k = fold_postings ps k.
Proof. unfold volume_updates. rewrite vget_fold_apply, vget_nil. destruct (fold_postings ps k); unfold vplus; simpl; f_equal; lia. Qed.

(* keys of an association list built by aset are pairwise distinct *)
Lemma aset_keys_nodup (m : volmap) k v : NoDup (map fst m) -> NoDup (map fst (aset key_eqb m k v)).
Proof.
  induction m as [|[k' v'] r IH]; simpl; intros H.
  - constructor; [intros [] | constructor].
  - inversion H as [|? ? Hn Hr]; subst. destruct (key_eqb k' k) eqn:E; simpl.
    + constructor; assumption.
    + constructor; [|apply IH; exact Hr].
      intros Hin. apply Hn. clear -Hin E.
      induction r as [|[k0 v0] r IH]; simpl in *.
      * destruct Hin as [<-|[]]. rewrite pair_eqb_refl in E. discriminate.
      * destruct (key_eqb k0 k) eqn:E0; simpl in Hin; [exact Hin|].
        destruct Hin as [->|Hin]; [left; reflexivity | right; apply IH; exact Hin].
Qed.

Lemma fold_apply_keys_nodup ps m : NoDup (map fst m) -> NoDup (map fst (fold_left apply_posting ps m)).
Proof. revert m; induction ps as [|p r IH]; intros m H; simpl; [exact H|].
  apply IH. unfold apply_posting, vadd. apply aset_keys_nodup, aset_keys_nodup, H. Qed.

Lemma volume_updates_nodup ps : NoDup (map fst (volume_updates ps)).
Proof. apply fold_apply_keys_nodup. constructor. Qed.

Lemma vget_cons k0 d0 (r : volmap) k : vget ((k0, d0) :: r) k = if key_eqb k0 k then d0 else vget r k.
Proof. unfold vget; simpl. destruct (key_eqb k0 k); reflexivity. Qed.

Lemma vget_notin (r : volmap) k : ~ In k (map fst r) -> vget r k = (0, 0).
Proof. induction r as [|[k1 v1] r IH]; intros Hn; [reflexivity|]. rewrite vget_cons.
  destruct (key_eqb k1 k) eqn:E1; [apply pair_eqb_eq in E1; subst; exfalso; apply Hn; left; reflexivity|].
  apply IH. intros H; apply Hn; right; exact H. Qed.

(* UpdateVolumes with the aggregated updates = applying every posting *)
Lemma vget_update_volumes_gen (upd : volmap) vols k :
  NoDup (map fst upd) ->
  vget (fold_left (fun m kd => vadd m (fst kd) (snd kd)) upd vols) k = vplus (vget vols k) (vget upd k).
Proof.
  revert vols; induction upd as [|[k0 d0] r IH]; intros vols Hnd.
  - simpl. rewrite vget_nil, vplus_0_r; reflexivity.
  - inversion Hnd as [|? ? Hn Hr]; subst. cbn [fold_left fst snd]. rewrite IH by exact Hr. rewrite vget_vadd, vget_cons.
    destruct (key_eqb k0 k) eqn:E.
    + apply pair_eqb_eq in E; subst k0. rewrite (vget_notin r k Hn), vplus_0_r. reflexivity.
    + reflexivity.
Qed.

Lemma vget_update_volumes vols ps k :
  vget (update_volumes vols (volume_updates ps)) k = vplus (vget vols k) (fold_postings ps k).
Proof. unfold update_volumes. rewrite vget_update_volumes_gen by apply volume_updates_nodup. rewrite vget_volume_updates. reflexivity. Qed.

Lemma update_volumes_veq vols ps : veq (update_volumes vols (volume_updates ps)) (fold_left apply_posting ps vols).
Proof. intros k. rewrite vget_update_volumes, vget_fold_apply. reflexivity. Qed.

(* ---------- conservation (C01): per asset, total input = total output ---------- *)
Definition asset_in (c : asset) (ps : list posting) : Z := zsum (map (fun p => if String.eqb (p_asset p) c then p_amt p else 0) ps).

(* sums of a map over a finite set of keys that covers its support *)
Definition sum_in (m : volmap) (ks : list key) : Z := zsum (map (fun k => fst (vget m k)) ks).
Definition sum_out (m : volmap) (ks : list key) : Z := zsum (map (fun k => snd (vget m k)) ks).

Lemma zsum_map_plus {A} (f g : A -> Z) l : zsum (map (fun x => f x + g x) l) = zsum (map f l) + zsum (map g l).
Proof. induction l as [|x r IH]; simpl; [reflexivity|]. rewrite IH. lia. Qed.

Lemma zsum_indicator (ks : list key) (k : key) (a : Z) :
  NoDup ks -> zsum (map (fun k' => if key_eqb k k' then a else 0) ks) = if existsb (key_eqb k) ks then a else 0.
Proof.
  induction ks as [|k0 r IH]; intros Hnd; simpl; [reflexivity|].
  inversion Hnd as [|? ? Hn Hr]; subst. rewrite IH by exact Hr.
  destruct (key_eqb k k0) eqn:E; simpl.
  - apply pair_eqb_eq in E; subst k0.
    assert (Hex : existsb (key_eqb k) r = false).
    { apply Bool.not_true_is_false. intros H. apply existsb_exists in H. destruct H as [x [Hin Hx]].
      apply pair_eqb_eq in Hx; subst. contradiction. }
    rewrite Hex. lia.
  - lia.
Qed.

(* ---------- rows of the table: keys only grow, stay distinct ---------- *)
Lemma aset_keys_mono (m : volmap) k v k' : In k' (map fst m) -> In k' (map fst (aset key_eqb m k v)).
Proof. induction m as [|[k0 v0] r IH]; simpl; [intros []|].
  destruct (key_eqb k0 k); simpl; intros [H|H]; auto. Qed.

Lemma aset_keys_in (m : volmap) k v : In k (map fst (aset key_eqb m k v)).
Proof. induction m as [|[k0 v0] r IH]; simpl; [left; reflexivity|].
  destruct (key_eqb k0 k) eqn:E; simpl; [left; apply pair_eqb_eq in E; exact E | right; exact IH]. Qed.

Lemma vadd_keys_mono m k d k' : In k' (map fst m) -> In k' (map fst (vadd m k d)).
Proof. apply aset_keys_mono. Qed.
Lemma vadd_keys_in m k d : In k (map fst (vadd m k d)).
Proof. apply aset_keys_in. Qed.
Lemma vadd_nodup m k d : NoDup (map fst m) -> NoDup (map fst (vadd m k d)).
Proof. apply aset_keys_nodup. Qed.

Lemma fold_vadd_nodup (upd vols : volmap) :
  NoDup (map fst vols) -> NoDup (map fst (fold_left (fun m kd => vadd m (fst kd) (snd kd)) upd vols)).
Proof. revert vols; induction upd as [|kd r IH]; intros vols H; simpl; [exact H|]. apply IH, vadd_nodup, H. Qed.

Lemma fold_vadd_keys_mono (upd vols : volmap) k :
  In k (map fst vols) -> In k (map fst (fold_left (fun m kd => vadd m (fst kd) (snd kd)) upd vols)).
Proof. revert vols; induction upd as [|kd r IH]; intros vols H; simpl; [exact H|]. apply IH, vadd_keys_mono, H. Qed.

Lemma fold_vadd_keys_in (upd vols : volmap) k :
  In k (map fst upd) -> In k (map fst (fold_left (fun m kd => vadd m (fst kd) (snd kd)) upd vols)).
Proof. revert vols; induction upd as [|kd r IH]; intros vols H; simpl; [destruct H|].
  destruct H as [<-|H]; [apply fold_vadd_keys_mono, vadd_keys_in | apply IH, H]. Qed.

Lemma fold_apply_keys_mono ps m k : In k (map fst m) -> In k (map fst (fold_left apply_posting ps m)).
Proof. revert m; induction ps as [|p r IH]; intros m H; simpl; [exact H|].
  apply IH. unfold apply_posting. apply vadd_keys_mono, vadd_keys_mono, H. Qed.

Lemma volume_updates_keys ps p : In p ps -> In (skey p) (map fst (volume_updates ps)) /\ In (dkey p) (map fst (volume_updates ps)).
Proof.
  unfold volume_updates. generalize (@nil (key * vol)) as m. induction ps as [|q r IH]; intros m Hin; [destruct Hin|].
  simpl. destruct Hin as [->|Hin]; [|apply IH; exact Hin].
  split; apply fold_apply_keys_mono; unfold apply_posting; [apply vadd_keys_mono, vadd_keys_in | apply vadd_keys_in].
Qed.

(* sums over the rows of a duplicate-free table are sums of lookups over its keys *)
Lemma rows_as_lookups (m : volmap) (g : key -> vol -> Z) :
  NoDup (map fst m) -> zsum (map (fun kv => g (fst kv) (snd kv)) m) = zsum (map (fun k => g k (vget m k)) (map fst m)).
Proof.
  induction m as [|[k v] r IH]; intros Hnd; simpl; [reflexivity|].
  inversion Hnd as [|? ? Hn Hr]; subst. rewrite vget_cons, pair_eqb_refl. f_equal.
  rewrite IH by exact Hr. rewrite !map_map. f_equal. apply map_ext_in. intros [k1 v1] Hin. simpl.
  rewrite vget_cons. destruct (key_eqb k k1) eqn:E; [|reflexivity].
  apply pair_eqb_eq in E; subst. exfalso. apply Hn. apply in_map_iff. exists (k1, v1). split; [reflexivity|exact Hin].
Qed.

(* per asset: the inputs and the outputs of a fold of postings, summed over any duplicate-free key set that
   contains every key the postings touch, are both the total amount posted in that asset *)
Definition on_asset (c : asset) (k : key) (z : Z) : Z := if String.eqb (snd k) c then z else 0.

Lemma asset_in_cons c p r : asset_in c (p :: r) = (if String.eqb (p_asset p) c then p_amt p else 0) + asset_in c r.
Proof. reflexivity. Qed.

Lemma sum_fold_in c ps ks : NoDup ks -> (forall p, In p ps -> In (dkey p) ks) ->
  zsum (map (fun k => on_asset c k (fst (fold_postings ps k))) ks) = asset_in c ps.
Proof.
  intros Hnd. induction ps as [|p r IH]; intros Hc.
  - simpl. clear. induction ks as [|k ks' IHk]; simpl; [reflexivity|]. rewrite IHk.
    unfold on_asset; destruct (String.eqb (snd k) c); reflexivity.
  - cbn [fold_postings]. rewrite asset_in_cons. rewrite <- IH by (intros q Hq; apply Hc; right; exact Hq).
    assert (E : forall k, on_asset c k (fst (vplus (posting_delta p k) (fold_postings r k)))
                     = (if key_eqb (dkey p) k then (if String.eqb (p_asset p) c then p_amt p else 0) else 0) + on_asset c k (fst (fold_postings r k))).
    { intros k. unfold posting_delta, on_asset, vplus. destruct (key_eqb (skey p) k), (key_eqb (dkey p) k) eqn:E2; simpl;
        try (apply pair_eqb_eq in E2; subst k; unfold dkey; simpl); destruct (String.eqb _ c); lia. }
    rewrite (map_ext _ _ E), zsum_map_plus. f_equal.
    rewrite zsum_indicator by exact Hnd.
    assert (Hex : existsb (key_eqb (dkey p)) ks = true).
    { apply existsb_exists. exists (dkey p). split; [apply Hc; left; reflexivity | apply pair_eqb_refl]. }
    rewrite Hex. reflexivity.
Qed.

Lemma sum_fold_out c ps ks : NoDup ks -> (forall p, In p ps -> In (skey p) ks) ->
  zsum (map (fun k => on_asset c k (snd (fold_postings ps k))) ks) = asset_in c ps.
Proof.
  intros Hnd. induction ps as [|p r IH]; intros Hc.
  - simpl. clear. induction ks as [|k ks' IHk]; simpl; [reflexivity|]. rewrite IHk.
    unfold on_asset; destruct (String.eqb (snd k) c); reflexivity.
  - cbn [fold_postings]. rewrite asset_in_cons. rewrite <- IH by (intros q Hq; apply Hc; right; exact Hq).
    assert (E : forall k, on_asset c k (snd (vplus (posting_delta p k) (fold_postings r k)))
                     = (if key_eqb (skey p) k then (if String.eqb (p_asset p) c then p_amt p else 0) else 0) + on_asset c k (snd (fold_postings r k))).
    { intros k. unfold posting_delta, on_asset, vplus. destruct (key_eqb (skey p) k) eqn:E2, (key_eqb (dkey p) k); simpl;
        try (apply pair_eqb_eq in E2; subst k; unfold skey; simpl); destruct (String.eqb _ c); lia. }
    rewrite (map_ext _ _ E), zsum_map_plus. f_equal.
    rewrite zsum_indicator by exact Hnd.
    assert (Hex : existsb (key_eqb (skey p)) ks = true).
    { apply existsb_exists. exists (skey p). split; [apply Hc; left; reflexivity | apply pair_eqb_refl]. }
    rewrite Hex. reflexivity.
Qed.
